(* Shared Z model of pallas-math/src/math_dashu.rs (the fixed-point library).

   A fixed-point number is its IBig `data` field, a plain Z; the value it
   denotes is data / 10^34 (the free functions of math_dashu.rs always use the
   global PRECISION = 10^34, whatever `self.precision` says).

   dashu's IBig `/`, `%`, `div_rem` truncate toward zero and the remainder has
   the sign of the dividend: they are Z.quot / Z.rem (NOT Z.div / Z.modulo).
   `IBig::sign()` of zero is `Sign::Positive`.

   Definitions only (no proofs), so that the model still runs when a proof
   breaks.  Used by C15 (exp/ln/pow), C16 (exp_cmp) and C17 (arithmetic). *)
From PV Require Import Lib.Base.
Open Scope Z_scope.

(* static PRECISION = 10^34, EPS = 10^(34-24), ONE = 1 * PRECISION *)
Definition PREC : Z := Eval vm_compute in 10 ^ 34.
Definition EPS : Z := Eval vm_compute in 10 ^ 10.
Definition ONE : Z := PREC.

(* fn scale(rop): (a, temp) = rop.div_rem(PRECISION);
                  if rop < 0 && temp != 0 { a -= 1 }; rop = a          *)
Definition scale (a : Z) : Z :=
  let q := Z.quot a PREC in
  let r := Z.rem a PREC in
  if (a <? 0) && negb (r =? 0) then q - 1 else q.

(* pub fn div(rop, x, y): (q, r) = x.div_rem(y); temp = q * PRECISION;
     r = r * PRECISION; (q2, _) = r.div_rem(y); rop = temp + q2
   (y = 0 panics in dashu; here Z.quot _ 0 = 0, see dec_div in C17) *)
Definition fp_div (x y : Z) : Z :=
  let q := Z.quot x y in
  let r := Z.rem x y in
  q * PREC + Z.quot (r * PREC) y.

(* impl Mul: data = a * b; scale(data).   impl Add / Sub / Neg: on data. *)
Definition fp_mul (a b : Z) : Z := scale (a * b).
Definition fp_add (a b : Z) : Z := a + b.
Definition fp_sub (a b : Z) : Z := a - b.
Definition fp_neg (a : Z) : Z := - a.
(* From<i64>/From<u64>: data = n * 10^34 *)
Definition fp_of_int (n : Z) : Z := n * PREC.

(* fn div_round_ceil(x, y): (q, r) = x.div_rem(y);
     if q.sign() == Positive && r != 0 { q + 1 } else { q }
   (sign of 0 is Positive) *)
Definition div_round_ceil (x y : Z) : Z :=
  let q := Z.quot x y in
  let r := Z.rem x y in
  if (0 <=? q) && negb (r =? 0) then q + 1 else q.

(* fn ipow_(rop, x, n): n == 0 -> ONE; n even -> r = ipow_(n/2); scale(r*r);
                        n odd -> r = ipow_(n-1); scale(r * x).
   Recursion on the binary structure of n > 0:
     n = 1      : scale(ONE * x)
     n = 2q     : let r = ipow_ q in scale(r*r)
     n = 2q + 1 : let r = ipow_ (2q) = scale(ipow_ q ^2) in scale(r * x) *)
Fixpoint ipow_pos (x : Z) (n : positive) : Z :=
  match n with
  | xH => fp_mul ONE x
  | xO q => let r := ipow_pos x q in fp_mul r r
  | xI q => let r := ipow_pos x q in fp_mul (fp_mul r r) x
  end.
Definition ipow_ (x n : Z) : Z :=
  match n with
  | Zpos p => ipow_pos x p
  | _ => ONE
  end.
(* fn ipow(rop, x, n): n < 0 -> div(ONE, ipow_(x, -n)) else ipow_(x, n) *)
Definition ipow (x n : Z) : Z :=
  if n <? 0 then fp_div ONE (ipow_ x (- n)) else ipow_ x n.

(* fn mp_exp_taylor(rop, max_n, x, epsilon) -> n
     divisor = ONE; last_x = ONE; rop = ONE; n = 0
     while n < max_n:
       next_x = div(scale(x * last_x), divisor)
       if |next_x| < |epsilon| break
       divisor += ONE; rop += next_x; last_x = next_x; n += 1
   Returns (rop, n).  fuel = remaining iterations (max_n - n). *)
Fixpoint taylor_loop (fuel : nat) (x eps rop divisor last_x n : Z) : Z * Z :=
  match fuel with
  | O => (rop, n)
  | S f =>
    let next_x := fp_div (scale (x * last_x)) divisor in
    if Z.abs next_x <? Z.abs eps then (rop, n)
    else taylor_loop f x eps (rop + next_x) (divisor + ONE) next_x (n + 1)
  end.
Definition mp_exp_taylor (max_n x eps : Z) : Z * Z :=
  taylor_loop (Z.to_nat max_n) x eps ONE ONE ONE 0.

(* fn ref_exp(rop, x) -> iterations
     x == 0 : rop = ONE
     x < 0  : rop = div(ONE, ref_exp(-x))
     x > 0  : n = div_round_ceil(x, PRECISION); x_ = x / n;
              rop = mp_exp_taylor(1000, x_, EPS); rop = ipow(rop, n)
   (n is converted to i64 with `expect`: x < 2^63 * 10^34 is assumed) *)
Definition ref_exp_pos_it (x : Z) : Z * Z :=
  let n := div_round_ceil x PREC in
  let x_ := Z.quot x n in
  let '(r, it) := mp_exp_taylor 1000 x_ EPS in
  (ipow r n, it).
Definition ref_exp_it (x : Z) : Z * Z :=
  if x =? 0 then (ONE, 0)
  else if x <? 0 then
    let '(t, it) := ref_exp_pos_it (- x) in (fp_div ONE t, it)
  else ref_exp_pos_it x.
Definition ref_exp (x : Z) : Z := fst (ref_exp_it x).
Definition ref_exp_iterations (x : Z) : Z := snd (ref_exp_it x).

(* static E = ref_exp(ONE) *)
Definition E : Z := Eval vm_compute in ref_exp ONE.

(* fn mp_ln_n(rop, max_n, x, epsilon): continued fraction for ln(1 + x).
   Loop state (one record field per Rust local that lives across iterations). *)
Record ln_state : Type := mk_ln_state {
  ln_n : Z; ln_b : Z;
  ln_an_m2 : Z; ln_bn_m2 : Z; ln_an_m1 : Z; ln_bn_m1 : Z;
  ln_curr_a : Z; ln_first : bool; ln_last : Z; ln_conv : Z }.

Definition ln_init : ln_state :=
  mk_ln_state 1 ONE ONE 0 0 ONE 1 true 0 0.

(* one pass through the loop body; returns (state', stop?) *)
Definition ln_step (x eps : Z) (s : ln_state) : ln_state * bool :=
  let curr_a_2 := ln_curr_a s * ln_curr_a s in
  let a := x * curr_a_2 in
  let curr_a' := if (1 <? ln_n s) && (Z.rem (ln_n s) 2 =? 1) then ln_curr_a s + 1 else ln_curr_a s in
  let ba := scale (ln_b s * ln_an_m1 s) in
  let aa := scale (a * ln_an_m2 s) in
  let a_ := ba + aa in
  let bb := scale (ln_b s * ln_bn_m1 s) in
  let ab := scale (a * ln_bn_m2 s) in
  let b_ := bb + ab in
  let conv := fp_div a_ b_ in
  if negb (ln_first s) && (Z.abs (conv - ln_last s) <? Z.abs eps) then
    (* break: only convergent / curr_a were updated *)
    (mk_ln_state (ln_n s) (ln_b s) (ln_an_m2 s) (ln_bn_m2 s) (ln_an_m1 s) (ln_bn_m1 s)
                 curr_a' false (ln_last s) conv, true)
  else
    (mk_ln_state (ln_n s + 1) (ln_b s + ONE) (ln_an_m1 s) (ln_bn_m1 s) a_ b_
                 curr_a' false conv conv, false).

(* while n <= max_n + 2 *)
Fixpoint ln_loop (fuel : nat) (max_n x eps : Z) (s : ln_state) : ln_state :=
  match fuel with
  | O => s
  | S f =>
    if ln_n s <=? max_n + 2 then
      let '(s', stop) := ln_step x eps s in
      if stop then s' else ln_loop f max_n x eps s'
    else s
  end.
Definition mp_ln_n_state (max_n x eps : Z) : ln_state :=
  ln_loop (Z.to_nat (max_n + 2)) max_n x eps ln_init.
Definition mp_ln_n (max_n x eps : Z) : Z := ln_conv (mp_ln_n_state max_n x eps).

(* fn find_e(x) -> i64
     x_ = div(ONE, E); x__ = E; l = -1; u = 1
     while x_ > x || x__ < x { x_ = scale(x_*x_); x__ = scale(x__*x__); l *= 2; u *= 2 }
     while l + 1 != u { mid = l + (u - l) / 2; x_ = ipow(E, mid);
                        if x < x_ { u = mid } else { l = mid } }
     l
   l, u are i64: `u *= 2` would overflow at the 63rd doubling, so 64 units of
   fuel cover every run of the first loop that does not panic; the second loop
   halves u - l <= 2^63 each time. *)
Fixpoint find_e_grow (fuel : nat) (x x_ x__ l u : Z) : Z * Z :=
  match fuel with
  | O => (l, u)
  | S f =>
    if (x <? x_) || (x__ <? x) then
      find_e_grow f x (fp_mul x_ x_) (fp_mul x__ x__) (l * 2) (u * 2)
    else (l, u)
  end.
Fixpoint find_e_bisect (fuel : nat) (x l u : Z) : Z :=
  match fuel with
  | O => l
  | S f =>
    if l + 1 =? u then l
    else
      let mid := l + Z.quot (u - l) 2 in
      if x <? ipow E mid then find_e_bisect f x l mid else find_e_bisect f x mid u
  end.
Definition find_e (x : Z) : Z :=
  let '(l, u) := find_e_grow 64 x (fp_div ONE E) E (-1) 1 in
  find_e_bisect 70 x l u.

(* fn ref_ln(rop, x) -> bool
     if x <= 0 return false
     n = find_e(x); rop = n * PRECISION; factor = ref_exp(rop);
     x_ = div(x, factor) - ONE; x_ = mp_ln_n(1000, x_, EPS); rop = rop + x_ *)
Definition ref_ln (x : Z) : option Z :=
  if x <=? 0 then None
  else
    let n := find_e x in
    let rop := n * PREC in
    let factor := ref_exp rop in
    let x_ := fp_div x factor - ONE in
    Some (rop + mp_ln_n 1000 x_ EPS).
Definition ref_ln_val (x : Z) : Z := match ref_ln x with Some v => v | None => 0 end.

(* fn ref_pow(rop, base, exponent); the panic ("zero to a negative power is
   undefined") is Panic 1.  The branches are tested in the order of the code. *)
Definition ref_pow (base exponent : Z) : outcome Z :=
  if (exponent =? 0) || (base =? ONE) then Ok ONE
  else if exponent =? ONE then Ok base
  else if (base =? 0) && (0 <? exponent) then Ok (0 * PREC)
  else if (base =? 0) && (exponent <? 0) then Panic 1
  else if base <? 0 then
    let tmp := scale (ref_ln_val (- base) * exponent) in
    let r := ref_exp tmp in
    if Z.rem (Z.quot exponent PREC) 2 =? 0 then Ok r else Ok (- r)
  else
    let tmp := scale (ref_ln_val base * exponent) in
    Ok (ref_exp tmp).
