(* C06: representative schemas, transcribed by hand from the derive attributes of
   pallas-primitives (lib.rs, alonzo/model.rs, conway/model.rs) and of the test structs the
   harness derives with the same minicbor-derive; [wf_schema] of each is decided by
   vm_compute in Props.v on every run. Hash<28>/Hash<32>/Bytes are byte strings. *)
From PV Require Import Lib.Base C06.Model C06.MapStruct.
Open Scope Z_scope.

(* lib.rs ExUnits { #[n(0)] mem: u64, #[n(1)] steps: u64 } *)
Definition s_ex_units : schema := SArray [(false, SUInt 64); (false, SUInt 64)].
(* alonzo VKeyWitness { #[n(0)] vkey: Bytes, #[n(1)] signature: Bytes } *)
Definition s_vkey_witness : schema := SArray [(false, SBytes); (false, SBytes)].
(* alonzo BootstrapWitness: four byte strings *)
Definition s_bootstrap_witness : schema := SArray [(false, SBytes); (false, SBytes); (false, SBytes); (false, SBytes)].
(* conway RedeemerTag #[cbor(index_only)] 0..5; RedeemersKey { tag, index: u32 } *)
Definition s_redeemer_tag : schema := SIndexOnly [0; 1; 2; 3; 4; 5].
Definition s_redeemers_key : schema := SArray [(false, s_redeemer_tag); (false, SUInt 32)].
(* conway Language #[cbor(index_only)] *)
Definition s_language : schema := SIndexOnly [0; 1; 2].
(* lib.rs StakeCredential #[cbor(flat)]: 1 ScriptHash(h), 0 AddrKeyhash(h) *)
Definition s_stake_credential : schema := SFlat [(1, [(false, SBytes)]); (0, [(false, SBytes)])].
(* conway DRep #[cbor(flat)]: 0 Key(h), 1 Script(h), 2 Abstain, 3 NoConfidence *)
Definition s_drep : schema := SFlat [(0, [(false, SBytes)]); (1, [(false, SBytes)]); (2, []); (3, [])].
(* conway Certificate #[cbor(flat)], the arms whose fields are modelled types *)
Definition s_certificate_lite : schema :=
  SFlat [(0, [(false, s_stake_credential)]); (1, [(false, s_stake_credential)]);
         (2, [(false, s_stake_credential); (false, SBytes)]);
         (7, [(false, s_stake_credential); (false, SUInt 64)]);
         (8, [(false, s_stake_credential); (false, SUInt 64)]);
         (9, [(false, s_stake_credential); (false, s_drep)]);
         (17, [(false, s_stake_credential); (false, SUInt 64)])].
(* harness test struct OptTail { #[n(0)] a: u64, #[n(1)] b: Option<u32>, #[n(2)] c: Option<Bytes>,
                                 #[n(3)] d: Option<bool>, #[n(4)] e: Option<Vec<u16>> } *)
Definition s_opt_tail : schema :=
  SArray [(false, SUInt 64); (true, SUInt 32); (true, SBytes); (true, SBool); (true, SVec (SUInt 16))].
(* harness test enum FlatOpt #[cbor(flat)]: 0 A(u8, Option<i64>), 3 B, 5 C(Option<u64>, Option<bool>) *)
Definition s_flat_opt : schema :=
  SFlat [(0, [(false, SUInt 8); (true, SInt64)]); (3, []); (5, [(true, SUInt 64); (true, SBool)])].
(* harness test struct Nested { #[n(0)] x: Vec<OptTail>, #[n(1)] y: Option<FlatOpt> } *)
Definition s_nested : schema := SArray [(false, SVec s_opt_tail); (true, s_flat_opt)].

Definition schemas : list schema :=
  [s_ex_units; s_vkey_witness; s_bootstrap_witness; s_redeemer_tag; s_redeemers_key; s_language;
   s_stake_credential; s_drep; s_certificate_lite; s_opt_tail; s_flat_opt; s_nested].
Definition schema_of (id : Z) : schema := nth (Z.to_nat id) schemas (SIndexOnly []).

(* ---- #[cbor(map)] structs ---- *)
(* babbage CostModels { #[n(0)] plutus_v1: Option<Vec<i64>>, #[n(1)] plutus_v2: Option<Vec<i64>> } *)
Definition ms_cost_models : mschema := [(0, (true, SVec SInt64)); (1, (true, SVec SInt64))].
(* harness test struct MapOpt #[cbor(map)] { #[n(0)] a: u64, #[n(2)] b: Option<u32>, #[n(5)] c: Option<Bytes>,
                                             #[n(9)] d: Vec<u16>, #[n(11)] e: Option<bool> } *)
Definition ms_map_opt : mschema :=
  [(0, (false, SUInt 64)); (2, (true, SUInt 32)); (5, (true, SBytes)); (9, (false, SVec (SUInt 16))); (11, (true, SBool))].
Definition mschemas : list mschema := [ms_cost_models; ms_map_opt].
Definition mschema_of (id : Z) : mschema := nth (Z.to_nat id) mschemas [].
