//! C08: the script integrity hash follows the ledger formula.
//! Cases (Coq type `case` of PV.C08.Run):
//!   CViews m bytes          minicbor::to_vec(LanguageViews)
//!   CRedeemers r bytes      minicbor::to_vec(Redeemers)
//!   CHash r d m pre         ScriptData{redeemers,datums,language_views}.hash(); `pre` = preimage derived HERE
//!   CBuild wr wd lvo res    ScriptData::build_for(decoded witness set, views) (+ hash): None | Some(preimage derived HERE)
//! Oracle (independent of the model and of the pallas encoders for everything except PlutusData
//! items, which C07 ties): the preimage is rebuilt by hand — heads written by `head`, language-view
//! entries sorted by the canonical CBOR order (length, then bytes) of their ENCODED keys with a
//! generic sort, V1 as 41 00 / bytes(9f..ff) — and
//!   * implementation hash == Blake2b-256(hand preimage)            (key "hash-formula")
//!   * to_vec(LanguageViews) == hand encoding                         (key "language-views-encoding")
//!   * to_vec(Redeemers) == hand encoding                             (key "redeemers-encoding")
//!   * build_for == None  <=>  no redeemers and no datums             (key "none-when-empty")
//!   * the five test-vector transactions: hash == body.script_data_hash (key "test-vector")
#[path = "pdata_common/mod.rs"]
mod pdata_common;
#[path = "c08_data/mod.rs"]
mod c08_data;
use pallas_codec::minicbor;
use pallas_codec::utils::{KeepRaw, NonEmptySet};
use pallas_crypto::hash::Hasher;
use pallas_primitives::conway::{
    ExUnits, LanguageViews, Redeemer, RedeemerTag, Redeemers, RedeemersKey, RedeemersValue, ScriptData, Tx, WitnessSet,
};
use pallas_primitives::PlutusData;
use pdata_common::*;
use std::collections::BTreeMap;
use verif_harness::*;

// ---------------------------------------------------------------- hand encoders (oracle side)
fn head(major: u8, n: u64) -> Vec<u8> {
    let m = major << 5;
    if n < 24 { vec![m | n as u8] }
    else if n < 1 << 8 { vec![m | 24, n as u8] }
    else if n < 1 << 16 { let mut v = vec![m | 25]; v.extend_from_slice(&(n as u16).to_be_bytes()); v }
    else if n < 1 << 32 { let mut v = vec![m | 26]; v.extend_from_slice(&(n as u32).to_be_bytes()); v }
    else { let mut v = vec![m | 27]; v.extend_from_slice(&n.to_be_bytes()); v }
}
fn hand_i64(v: i64) -> Vec<u8> { if v >= 0 { head(0, v as u64) } else { head(1, (-1 - v as i128) as u64) } }
fn hand_views(lv: &BTreeMap<u8, Vec<i64>>) -> Vec<u8> {
    let mut entries: Vec<(Vec<u8>, Vec<u8>)> = lv.iter().map(|(k, c)| {
        let ints: Vec<u8> = c.iter().flat_map(|v| hand_i64(*v)).collect();
        if *k == 0 {
            let mut inner = vec![0x9f]; inner.extend(&ints); inner.push(0xff);
            let mut val = head(2, inner.len() as u64); val.extend(inner);
            (vec![0x41, 0x00], val)
        } else {
            let mut val = head(4, c.len() as u64); val.extend(ints);
            (head(0, *k as u64), val)
        }
    }).collect();
    // canonical CBOR map-key order: shorter encoded key first, then bytewise
    entries.sort_by(|a, b| (a.0.len(), &a.0).cmp(&(b.0.len(), &b.0)));
    let mut out = head(5, lv.len() as u64);
    for (k, v) in entries { out.extend(k); out.extend(v); }
    out
}
fn tag_no(t: &RedeemerTag) -> u64 {
    match t { RedeemerTag::Spend => 0, RedeemerTag::Mint => 1, RedeemerTag::Cert => 2, RedeemerTag::Reward => 3, RedeemerTag::Vote => 4, RedeemerTag::Propose => 5 }
}
fn hand_ex(e: &ExUnits) -> Vec<u8> { let mut v = head(4, 2); v.extend(head(0, e.mem)); v.extend(head(0, e.steps)); v }
fn hand_redeemers(r: &Redeemers) -> Vec<u8> {
    match r {
        Redeemers::List(l) => {
            let mut out = head(4, l.len() as u64);
            for x in l {
                out.extend(head(4, 4)); out.extend(head(0, tag_no(&x.tag))); out.extend(head(0, x.index as u64));
                out.extend(minicbor::to_vec(&x.data).unwrap()); out.extend(hand_ex(&x.ex_units));
            }
            out
        }
        Redeemers::Map(m) => {
            let mut out = head(5, m.len() as u64);
            for (k, v) in m.iter() {
                out.extend(head(4, 2)); out.extend(head(0, tag_no(&k.tag))); out.extend(head(0, k.index as u64));
                out.extend(head(4, 2)); out.extend(minicbor::to_vec(&v.data).unwrap()); out.extend(hand_ex(&v.ex_units));
            }
            out
        }
    }
}
/// the ledger's preimage for the fields of a ScriptData value (`d` = the datum bytes expected)
fn hand_preimage(r: &Option<Redeemers>, d: &Option<Vec<u8>>, lv: &Option<BTreeMap<u8, Vec<i64>>>) -> Vec<u8> {
    let mut out = match r { Some(r) => hand_redeemers(r), None => vec![0xa0] };
    if let Some(d) = d { out.extend(d); }
    match lv { Some(m) => out.extend(hand_views(m)), None => out.push(0xa0) }
    out
}

// ---------------------------------------------------------------- printing
fn coq_views(m: &BTreeMap<u8, Vec<i64>>) -> String {
    let v: Vec<String> = m.iter().map(|(k, c)| format!("({},{})", k, coq_list(c, |x| coq_z(*x)))).collect();
    format!("[{}]", v.join(";"))
}
fn coq_red1(tag: &RedeemerTag, index: u32, data: &PlutusData, ex: &ExUnits) -> String {
    format!("(mkRedeemer {} {} {} {} {})", tag_no(tag), index, coq_pd(data), ex.mem, ex.steps)
}
fn coq_redeemers(r: &Redeemers) -> String {
    match r {
        Redeemers::List(l) => format!("(RList {})", coq_list(l, |x| coq_red1(&x.tag, x.index, &x.data, &x.ex_units))),
        Redeemers::Map(m) => {
            let v: Vec<String> = m.iter().map(|(k, v)| coq_red1(&k.tag, k.index, &v.data, &v.ex_units)).collect();
            format!("(RMap [{}])", v.join(";"))
        }
    }
}
fn coq_obytes(b: &Option<Vec<u8>>) -> String { coq_opt(b, |x| coq_bytes(x)) }

// ---------------------------------------------------------------- generators
fn gen_coeff(rng: &mut Rng) -> i64 {
    match rng.below(8) {
        0 => *rng.pick(&[0i64, 1, -1, 23, 24, -24, -25, 255, 256, -256, -257, 65535, 65536, -65536, -65537]),
        1 => *rng.pick(&[i64::MAX, i64::MIN, i64::MAX - 1, i64::MIN + 1, 1 << 32, (1 << 32) - 1, -(1 << 32), -(1 << 32) - 1]),
        2 => { let v = rng.edge_u64() as i64; if v > 0 { -v } else { v } }
        3 => rng.next() as i64,
        _ => rng.below(300000) as i64,
    }
}
fn gen_cost(rng: &mut Rng) -> Vec<i64> {
    let len = match rng.below(6) { 0 => 0, 1 => 23 + rng.below(3) as usize, 2 => 166, 3 => 255 + rng.below(3) as usize, _ => rng.below(8) as usize };
    (0..len).map(|_| gen_coeff(rng)).collect()
}
fn gen_views(rng: &mut Rng, subset: u8) -> BTreeMap<u8, Vec<i64>> {
    let mut m = BTreeMap::new();
    for k in 0..3u8 { if subset & (1 << k) != 0 { m.insert(k, gen_cost(rng)); } }
    if rng.chance(1, 4) {
        for _ in 0..1 + rng.below(3) { m.insert(*rng.pick(&[3u8, 4, 22, 23, 24, 25, 100, 127, 128, 254, 255]), gen_cost(rng)); }
    }
    m
}
fn gen_tag_r(rng: &mut Rng) -> RedeemerTag {
    match rng.below(6) { 0 => RedeemerTag::Spend, 1 => RedeemerTag::Mint, 2 => RedeemerTag::Cert, 3 => RedeemerTag::Reward, 4 => RedeemerTag::Vote, _ => RedeemerTag::Propose }
}
fn gen_index(rng: &mut Rng) -> u32 { match rng.below(4) { 0 => rng.below(4) as u32, 1 => *rng.pick(&[23u32, 24, 255, 256, 65535, 65536, u32::MAX]), _ => rng.below(40) as u32 } }
fn gen_ex(rng: &mut Rng) -> ExUnits { ExUnits { mem: rng.edge_u64(), steps: rng.edge_u64() } }
fn gen_redeemers(rng: &mut Rng, form: u64) -> Redeemers {
    let n = rng.below(4) as usize;
    if form == 0 {
        Redeemers::List((0..n).map(|_| { let d = 1 + rng.below(3) as u32; Redeemer { tag: gen_tag_r(rng), index: gen_index(rng), data: gen_pd(rng, d), ex_units: gen_ex(rng) } }).collect())
    } else {
        let mut m = BTreeMap::new();
        for _ in 0..n.max(1) {
            let d = 1 + rng.below(3) as u32;
            m.insert(RedeemersKey { tag: gen_tag_r(rng), index: gen_index(rng) }, RedeemersValue { data: gen_pd(rng, d), ex_units: gen_ex(rng) });
        }
        Redeemers::Map(m)
    }
}
/// A datum set: its wire bytes (optional tag 258, definite / indefinite / non-minimal array head,
/// elements in the library's encoding or in hand-written non-minimal forms), the wire bytes of each
/// element, and HOW the KeepRaw value handed to the implementation is constructed:
///   0 decoded from the wire bytes            1 decoded, then to_owned()
///   2 decoded, then deref_mut() (raw cleared) 5 decoded, then clear_raw()
///   3 built in memory: KeepRaw::from(NonEmptySet(KeepRaw::from(value)..))  (what pallas-txbuilder does)
///   4 built in memory around decoded elements (the elements keep their bytes)
#[derive(Clone)]
struct DSpec { wire: Vec<u8>, elems: Vec<Vec<u8>>, path: u8 }
const PATHS: [&str; 6] = ["wire", "owned", "deref-mut", "in-memory", "in-memory-around-decoded", "clear-raw"];

fn gen_datums(rng: &mut Rng) -> DSpec {
    let n = 1 + rng.below(3) as usize;
    let mut out = vec![];
    if rng.bool() { out.extend([0xd9, 0x01, 0x02]); }
    let indef = rng.bool();
    if indef { out.push(0x9f) } else if rng.chance(1, 4) { out.extend([0x98, n as u8]) } else { out.extend(head(4, n as u64)) }
    let mut elems = vec![];
    for _ in 0..n {
        let e = if rng.chance(1, 4) {
            let h: &str = *rng.pick(&["1805", "190005", "9f01ff", "d87980", "d8799fff", "5f4101ff", "c2420001", "a10102", "bf0102ff", "d866820080"]);
            hex::decode(h).unwrap()
        } else {
            let d = 1 + rng.below(3) as u32;
            minicbor::to_vec(&gen_pd(rng, d)).unwrap()
        };
        out.extend(&e);
        elems.push(e);
    }
    if indef { out.push(0xff) }
    let path = *rng.pick(&[0u8, 0, 1, 2, 3, 3, 4, 5]);
    DSpec { wire: out, elems, path }
}

type Datums<'b> = KeepRaw<'b, NonEmptySet<KeepRaw<'b, PlutusData>>>;

/// the bytes the datum set contributes (= what the witness set serialises it to), derived from how
/// the value was made, not from the KeepRaw accessors
fn expected_datums(s: &DSpec) -> Vec<u8> {
    match s.path {
        0 | 1 => s.wire.clone(),
        _ => {
            let mut out = vec![0xd9, 0x01, 0x02];
            out.extend(head(4, s.elems.len() as u64));
            for e in &s.elems {
                if s.path == 3 { out.extend(minicbor::to_vec(&minicbor::decode::<PlutusData>(e).unwrap()).unwrap()) } else { out.extend(e) }
            }
            out
        }
    }
}
fn build_datums<'a>(s: &'a DSpec) -> Option<Datums<'a>> {
    match s.path {
        0 => minicbor::decode::<Datums>(&s.wire).ok(),
        1 => minicbor::decode::<Datums>(&s.wire).ok().map(|k| k.to_owned()),
        2 => minicbor::decode::<Datums>(&s.wire).ok().map(|mut k| { let _ = std::ops::DerefMut::deref_mut(&mut k); k }),
        5 => minicbor::decode::<Datums>(&s.wire).ok().map(|mut k| { k.clear_raw(); k }),
        3 => {
            let v: Vec<KeepRaw<PlutusData>> = s.elems.iter().map(|e| KeepRaw::from(minicbor::decode::<PlutusData>(e).unwrap())).collect();
            Some(KeepRaw::from(NonEmptySet::from_vec(v).unwrap()))
        }
        _ => {
            let v: Vec<KeepRaw<'a, PlutusData>> = s.elems.iter().map(|e| minicbor::decode::<KeepRaw<PlutusData>>(e).unwrap()).collect();
            Some(KeepRaw::from(NonEmptySet::from_vec(v).unwrap()))
        }
    }
}
/// the KeepRaw value as the model's `kdatums`: (raw held, [(raw, value)]); elements omitted when raw is held
fn coq_kd(k: &Datums) -> String {
    if !k.raw_cbor().is_empty() { return format!("({},[])", coq_bytes(k.raw_cbor())); }
    let items: Vec<String> = k.iter().map(|e| format!("({},{})", coq_bytes(e.raw_cbor()), coq_pd(e))).collect();
    format!("([],[{}])", items.join(";"))
}
fn coq_okd(k: &Option<Datums>) -> String { coq_opt(k, coq_kd) }
fn show_spec(d: &Option<DSpec>) -> String { match d { None => "none".into(), Some(s) => format!("{}:{}", PATHS[s.path as usize], hex(&s.wire)) } }

fn blake(b: &[u8]) -> Vec<u8> { Hasher::<256>::hash(b).as_ref().to_vec() }

struct Ctx { oracle_only: bool, hashes: u64, builds: u64 }

fn check_views(cx: &mut Ctx, tag: &str, m: &BTreeMap<u8, Vec<i64>>) {
    let lv = LanguageViews(m.clone());
    let bytes = match guard_total(move || minicbor::to_vec(&lv).unwrap()) { Out::Ok(b) => b, _ => { emit_oracle_fail("language-views-encoding", &format!("views={} encoder panicked", coq_views(m))); return; } };
    let hand = hand_views(m);
    if bytes != hand {
        emit_oracle_fail("language-views-encoding", &format!("views={} implementation={} canonical={}", coq_views(m), hex(&bytes), hex(&hand)));
    }
    if !cx.oracle_only { emit_case(tag, &format!("(CViews {} {})", coq_views(m), coq_bytes(&bytes))); }
}

fn check_redeemers(cx: &mut Ctx, tag: &str, r: &Redeemers) {
    let bytes = minicbor::to_vec(r).unwrap();
    let hand = hand_redeemers(r);
    if bytes != hand {
        emit_oracle_fail("redeemers-encoding", &format!("redeemers={} implementation={} expected={}", coq_redeemers(r), hex(&bytes), hex(&hand)));
    }
    if !cx.oracle_only { emit_case(tag, &format!("(CRedeemers {} {})", coq_redeemers(r), coq_bytes(&bytes))); }
}

/// ScriptData::hash on explicitly given fields
fn check_hash(cx: &mut Ctx, tag: &str, r: &Option<Redeemers>, d: &Option<DSpec>, lv: &Option<BTreeMap<u8, Vec<i64>>>) {
    cx.hashes += 1;
    let datums: Option<Datums> = match d { Some(s) => match build_datums(s) { Some(x) => Some(x), None => return }, None => None };
    let db = d.as_ref().map(expected_datums);
    if let (Some(k), Some(b)) = (&datums, &db) {
        // the bytes the value serialises to (KeepRaw's Encode) are the expected ones
        let ser = minicbor::to_vec(k).unwrap();
        if ser != *b { emit_oracle_fail("datums-as-they-appeared", &format!("datums={} serialised={} expected={}", show_spec(d), hex(&ser), hex(b))); }
    }
    let shown = coq_okd(&datums);
    let sd = ScriptData { redeemers: r.clone(), datums, language_views: lv.clone().map(LanguageViews) };
    let h = match guard_total(|| sd.hash().as_ref().to_vec()) { Out::Ok(h) => h, _ => { emit_oracle_fail("hash-formula", "hash() panicked"); return; } };
    let pre = hand_preimage(r, &db, lv);
    if h != blake(&pre) {
        emit_oracle_fail(if d.as_ref().map_or(false, |s| s.path >= 2) { "hash-formula-in-memory-datums" } else { "hash-formula" },
            &format!("redeemers={} datums={} views={} implementation-hash={} blake2b256(ledger preimage {})={}",
            coq_opt(r, coq_redeemers), show_spec(d), coq_opt(lv, coq_views), hex(&h), hex(&pre), hex(&blake(&pre))));
    }
    if !cx.oracle_only {
        let t = match d { Some(s) if s.path >= 1 => format!("{}-datums-{}", tag, PATHS[s.path as usize]), _ => tag.to_string() };
        emit_case(&t, &format!("(CHash {} {} {} {})", coq_opt(r, coq_redeemers), shown, coq_opt(lv, coq_views), coq_bytes(&pre)));
    }
}

/// ScriptData::build_for on a witness set: decoded from bytes assembled here (datum paths 0/1),
/// decoded and then touched through deref_mut / clear_raw (2/5), or built in memory as a struct
/// literal with KeepRaw::from around redeemers and datums (3/4)
fn check_build(cx: &mut Ctx, tag: &str, r: &Option<Redeemers>, d: &Option<DSpec>, lvo: &Option<BTreeMap<u8, Vec<i64>>>) {
    cx.builds += 1;
    let mut wbytes = head(5, r.is_some() as u64 + d.is_some() as u64);
    if let Some(s) = d { wbytes.push(4); wbytes.extend(&s.wire); }
    if let Some(r) = r { wbytes.push(5); wbytes.extend(minicbor::to_vec(r).unwrap()); }
    let path = match d { Some(s) => s.path, None => (cx.builds % 3) as u8 * 2 };   // without datums: decoded / touched / in memory
    let w: WitnessSet = if path == 3 || path == 4 {
        let pd = match d { Some(s) => match build_datums(s) { Some(x) => Some(x), None => return }, None => None };
        WitnessSet { vkeywitness: None, native_script: None, bootstrap_witness: None, plutus_v1_script: None,
            plutus_data: pd, redeemer: r.clone().map(KeepRaw::from), plutus_v2_script: None, plutus_v3_script: None }
    } else {
        let mut w: WitnessSet = match minicbor::decode(&wbytes) { Ok(w) => w, Err(e) => { emit_sample(&format!("witness set not decodable: {} {}", hex(&wbytes), e)); return; } };
        match path {
            1 => { w.plutus_data = w.plutus_data.map(|k| k.to_owned()); w.redeemer = w.redeemer.map(|k| k.to_owned()); }
            2 => { if let Some(k) = w.plutus_data.as_mut() { let _ = std::ops::DerefMut::deref_mut(k); } if let Some(k) = w.redeemer.as_mut() { let _ = std::ops::DerefMut::deref_mut(k); } }
            5 => { if let Some(k) = w.plutus_data.as_mut() { k.clear_raw(); } if let Some(k) = w.redeemer.as_mut() { k.clear_raw(); } }
            _ => {}
        }
        w
    };
    let db = d.as_ref().map(expected_datums);
    let shown_d = coq_okd(&w.plutus_data);
    let lv_opt = lvo.clone().map(LanguageViews);
    let res = match guard_total(|| ScriptData::build_for(&w, &lv_opt).map(|sd| sd.hash().as_ref().to_vec())) {
        Out::Ok(x) => x,
        _ => { emit_oracle_fail("hash-formula", &format!("build_for/hash panicked on witness {}", hex(&wbytes))); return; }
    };
    if res.is_none() != (r.is_none() && d.is_none()) {
        emit_oracle_fail("none-when-empty", &format!("witness={} build_for is_none={}", hex(&wbytes), res.is_none()));
    }
    // ledger: views only together with redeemers
    let views = if r.is_some() { lvo.clone() } else { None };
    let pre = if r.is_none() && d.is_none() { None } else { Some(hand_preimage(r, &db, &views)) };
    if let (Some(h), Some(p)) = (&res, &pre) {
        if *h != blake(p) {
            emit_oracle_fail(if path >= 2 && d.is_some() { "hash-formula-in-memory-datums" } else { "hash-formula" },
                &format!("witness={} ({}) views={} implementation-hash={} blake2b256(ledger preimage {})={}",
                hex(&wbytes), PATHS[path as usize], coq_opt(lvo, coq_views), hex(h), hex(p), hex(&blake(p))));
        }
    }
    if !cx.oracle_only {
        let shown = if res.is_some() { pre.clone() } else { None };
        let t = if path >= 1 { format!("{}-witness-{}", tag, PATHS[path as usize]) } else { tag.to_string() };
        emit_case(&t, &format!("(CBuild {} {} {} {})", coq_opt(r, coq_redeemers), shown_d, coq_opt(lvo, coq_views), coq_obytes(&shown)));
    }
}

fn repo() -> String { std::env::var("VERIF_REPO").unwrap_or_else(|_| "/repo".into()) }

fn test_vectors(cx: &mut Ctx) {
    let v1 = c08_data::COST_V1.to_vec(); let v2 = c08_data::COST_V2.to_vec(); let v3 = c08_data::COST_V3.to_vec();
    let vectors: Vec<(&str, Option<BTreeMap<u8, Vec<i64>>>)> = vec![
        ("conway1.tx", Some(BTreeMap::from([(1u8, v2.clone())]))),
        ("conway2.tx", Some(BTreeMap::from([(0u8, v1.clone())]))),
        ("hydra-init.tx", Some(BTreeMap::from([(1u8, v2.clone())]))),
        ("datum-only.tx", None),
        ("conway9.tx", Some(BTreeMap::from([(0u8, v1), (1u8, v2), (2u8, v3)]))),
    ];
    for (name, lvo) in vectors {
        let path = format!("{}/test_data/{}", repo(), name);
        let Ok(text) = std::fs::read_to_string(&path) else { emit_oracle_fail("test-vector", &format!("cannot read {}", path)); continue; };
        let bytes = hex::decode(text.trim()).unwrap();
        let tx: Tx = match minicbor::decode(&bytes) { Ok(t) => t, Err(e) => { emit_oracle_fail("test-vector", &format!("{} does not decode: {}", name, e)); continue; } };
        let w = &tx.transaction_witness_set;
        let lv_opt = lvo.clone().map(LanguageViews);
        let got = ScriptData::build_for(w, &lv_opt).map(|sd| sd.hash().as_ref().to_vec());
        let expected = tx.transaction_body.script_data_hash.map(|h| h.as_ref().to_vec());
        if got != expected {
            emit_oracle_fail("test-vector", &format!("{}: computed {:?} body has {:?}", name, got.as_ref().map(|h| hex(h)), expected.as_ref().map(|h| hex(h))));
        }
        // the same inputs through the model: decoded redeemers, datum bytes as captured
        let r: Option<Redeemers> = w.redeemer.as_ref().map(|k| k.clone().unwrap());
        let d: Option<Vec<u8>> = w.plutus_data.as_ref().map(|k| k.raw_cbor().to_vec());
        let shown_d = coq_okd(&w.plutus_data);
        if let (Some(k), Some(r)) = (w.redeemer.as_ref(), &r) {
            if k.raw_cbor() != &minicbor::to_vec(r).unwrap()[..] { emit_stat("observation_redeemers_not_in_library_encoding", 1); }
        }
        let views = if r.is_some() { lvo.clone() } else { None };
        let pre = if r.is_none() && d.is_none() { None } else { Some(hand_preimage(&r, &d, &views)) };
        if let (Some(h), Some(p)) = (&got, &pre) {
            if *h != blake(p) { emit_oracle_fail("hash-formula", &format!("{}: implementation-hash={} blake2b256(ledger preimage)={}", name, hex(h), hex(&blake(p)))); }
        }
        if !cx.oracle_only {
            emit_case("test-vector", &format!("(CBuild {} {} {} {})", coq_opt(&r, coq_redeemers), shown_d, coq_opt(&lvo, coq_views), coq_obytes(&pre)));
        }
    }
}

fn main() {
    let args = args();
    let mut rng = Rng::new(args.seed);
    let mut cx = Ctx { oracle_only: args.oracle_only, hashes: 0, builds: 0 };

    test_vectors(&mut cx);

    // every subset of {V1,V2,V3}, with fixed small cost vectors (negative and large coefficients)
    let mut path_ctr = 0u32;
    for subset in 0..8u8 {
        let mut m = BTreeMap::new();
        if subset & 1 != 0 { m.insert(0u8, vec![1, -1, i64::MAX, i64::MIN, 24, -25]); }
        if subset & 2 != 0 { m.insert(1u8, vec![0, 23, 255, 256, -256, -257, i64::MIN, i64::MAX]); }
        if subset & 4 != 0 { m.insert(2u8, vec![-900, 65536, -4294967297, i64::MAX, i64::MIN, -1]); }
        check_views(&mut cx, "views-subset", &m);
        for form in 0..3u64 {
            let r = if form == 2 { None } else { Some(gen_redeemers(&mut rng, form)) };
            for with_d in [false, true] {
                let d = if with_d { let mut s = gen_datums(&mut rng); s.path = (path_ctr % 6) as u8; path_ctr += 1; Some(s) } else { None };
                check_build(&mut cx, "build-subset", &r, &d, &Some(m.clone()));
                check_hash(&mut cx, "hash-subset", &r, &d, &Some(m.clone()));
            }
        }
    }
    // every way of making the datum KeepRaw x {no redeemers, list, map}, through hash and build_for
    for path in 0..6u8 {
        for form in 0..3u64 {
            let r = if form == 2 { None } else { Some(gen_redeemers(&mut rng, form)) };
            let mut s = gen_datums(&mut rng); s.path = path;
            let views = Some(BTreeMap::from([(0u8, vec![-1i64, i64::MIN]), (2u8, vec![i64::MAX, -25])]));
            check_hash(&mut cx, "hash-paths", &r, &Some(s.clone()), &views);
            check_build(&mut cx, "build-paths", &r, &Some(s), &views);
        }
    }
    // single keys around the head-width boundary and the whole key space at once
    for k in [0u8, 1, 2, 3, 22, 23, 24, 25, 127, 128, 254, 255] { check_views(&mut cx, "views-one-key", &BTreeMap::from([(k, vec![k as i64, -(k as i64)])])); }
    check_views(&mut cx, "views-all-keys", &(0..=255u8).map(|k| (k, vec![k as i64])).collect());
    check_views(&mut cx, "views-all-keys", &(0..=255u8).filter(|k| k % 3 != 1).map(|k| (k, vec![])).collect());
    // no views at all / empty views
    for form in 0..3u64 {
        let r = if form == 2 { None } else { Some(gen_redeemers(&mut rng, form)) };
        for with_d in [false, true] {
            let d = if with_d { Some(gen_datums(&mut rng)) } else { None };
            check_build(&mut cx, "build-no-views", &r, &d, &None);
            check_hash(&mut cx, "hash-no-views", &r, &d, &None);
            check_build(&mut cx, "build-empty-views", &r, &d, &Some(BTreeMap::new()));
        }
    }
    // empty redeemer containers
    check_redeemers(&mut cx, "redeemers-empty", &Redeemers::List(vec![]));
    check_redeemers(&mut cx, "redeemers-empty", &Redeemers::Map(BTreeMap::new()));

    for i in 0..args.n {
        let subset = rng.below(8) as u8;
        let m = gen_views(&mut rng, subset);
        let form = rng.below(3);
        let r = if form == 2 { None } else { Some(gen_redeemers(&mut rng, form)) };
        let d = if rng.bool() { Some(gen_datums(&mut rng)) } else { None };
        let lvo = if rng.chance(1, 6) { None } else { Some(m.clone()) };
        if i < 3 { emit_sample(&format!("redeemers={} datums={} views={}", coq_opt(&r, coq_redeemers), show_spec(&d), coq_opt(&lvo, coq_views))); }
        match rng.below(6) {
            0 => check_views(&mut cx, "views", &m),
            1 => { if let Some(r) = &r { check_redeemers(&mut cx, "redeemers", r) } else { check_views(&mut cx, "views", &m) } }
            2 | 3 => check_hash(&mut cx, if r.is_none() { "hash-no-redeemers" } else if d.is_none() { "hash-no-datums" } else { "hash-full" }, &r, &d, &lvo),
            _ => check_build(&mut cx, if r.is_none() && d.is_none() { "trivial-build-empty" } else if r.is_none() { "build-datum-only" } else if form == 0 { "build-list" } else { "build-map" }, &r, &d, &lvo),
        }
    }
    // observation (not a failure): redeemers given in another wire form are re-encoded by build_for
    {
        let r = Redeemers::List(vec![Redeemer { tag: RedeemerTag::Spend, index: 0, data: PlutusData::Array(pallas_codec::utils::MaybeIndefArray::Def(vec![])), ex_units: ExUnits { mem: 1, steps: 2 } }]);
        let canonical = minicbor::to_vec(&r).unwrap();
        let mut indef = vec![0x9f]; indef.extend(&canonical[1..]); indef.push(0xff);
        let mut wbytes = head(5, 1); wbytes.push(5); wbytes.extend(&indef);
        if let Ok(w) = minicbor::decode::<WitnessSet>(&wbytes) {
            let lv = Some(LanguageViews(BTreeMap::from([(1u8, vec![1i64])])));
            if let Some(sd) = ScriptData::build_for(&w, &lv) {
                let mut wire = indef.clone(); wire.extend(hand_views(&BTreeMap::from([(1u8, vec![1i64])])));
                let same = sd.hash().as_ref().to_vec() == blake(&wire);
                emit_stat("observation_indefinite_redeemers_hashed_over_wire_bytes", same as u64);
            }
        }
    }
    emit_stat("hash_calls", cx.hashes);
    emit_stat("build_for_calls", cx.builds);
}
