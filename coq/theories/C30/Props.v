(* C30 — property theorems only. Statements are pinned by vp/check.py. *)
From PV Require Import Lib.Base C30.Model C30.Proofs.
Open Scope Z_scope.

(* the transaction count matches: as many traversed transactions as bodies
   (Byron: payload entries; epoch-boundary blocks: none) *)
Theorem txs_length : forall A B C (m : mblock A B C),
  well_shaped m -> Z.of_nat (length (txs m)) = tx_count m.
Proof. intros A B C m. apply txs_length_proof. Qed.

(* without the shape premise: transactions beyond the shorter of the two lists are dropped *)
Theorem clone_txs_length_min : forall A B C (b : sblock A B C),
  length (clone_txs b) = Nat.min (length (bodies b)) (length (wits b)).
Proof. intros A B C b. apply clone_txs_length. Qed.

(* the i-th traversed transaction is the i-th body, the i-th witness set, the
   auxiliary data keyed by i, and is invalid exactly when i is listed *)
Theorem txs_nth : forall A B C (b : sblock A B C) i body w,
  (length (bodies b) <= length (wits b))%nat -> Z.of_nat (length (bodies b)) <= 2 ^ 32 ->
  nth_error (bodies b) i = Some body -> nth_error (wits b) i = Some w ->
  nth_error (clone_txs b) i =
    Some (body, w, negb (invalid_mem b (Z.of_nat i)), aux_lookup (Z.of_nat i) (aux b)).
Proof. intros A B C b i body w. apply clone_txs_nth. Qed.

Theorem txs_nth_inv : forall A B C (b : sblock A B C) i t,
  (length (bodies b) <= length (wits b))%nat -> Z.of_nat (length (bodies b)) <= 2 ^ 32 ->
  nth_error (clone_txs b) i = Some t ->
  exists body w, nth_error (bodies b) i = Some body /\ nth_error (wits b) i = Some w /\
    t = (body, w, negb (invalid_mem b (Z.of_nat i)), aux_lookup (Z.of_nat i) (aux b)).
Proof. intros A B C b i t. apply clone_txs_nth_inv. Qed.

Theorem invalid_exactly_when_listed : forall A B C (b : sblock A B C) i,
  invalid_mem b i = true <-> exists l, invalid b = Some l /\ In i l.
Proof. intros A B C b i. apply invalid_mem_spec. Qed.

Theorem aux_is_the_entry_keyed_by_index : forall C i (l : list (Z * C)) c,
  NoDup (map fst l) -> (aux_lookup i l = Some c <-> In (i, c) l).
Proof. intros C i l c ND. split; [apply aux_lookup_In|apply aux_lookup_unique; exact ND]. Qed.

Theorem aux_absent_iff_no_key : forall C i (l : list (Z * C)),
  aux_lookup i l = None <-> ~ In i (map fst l).
Proof. intros C i l. apply aux_lookup_none. Qed.

Theorem byron_txs_nth_payload : forall A B C (p : list (A * B)) i,
  nth_error (txs (@BByron A B C p)) i =
    match nth_error p i with Some tw => Some (fst tw, snd tw, true, @None C) | None => None end.
Proof. intros A B C p i. apply byron_txs_nth. Qed.

(* the era is the one the wrapper declares *)
Theorem probe_reads_wrapper_tag : forall tag rest,
  0 <= tag < 24 -> block_era (130 :: tag :: rest) = era_of_variant tag.
Proof. exact probe_canonical. Qed.

Theorem era_is_wrapper_tag : forall A B C tag rest (m : mblock A B C),
  0 <= tag < 24 ->
  decoder_for (block_era (130 :: tag :: rest)) = Some (kind_of m) ->
  era_of_tag tag = Some (block_era_of m).
Proof. intros A B C tag rest m. apply era_is_wrapper_tag_proof. Qed.

Theorem unknown_tag_is_rejected : forall tag rest,
  8 <= tag < 24 -> decoder_for (block_era (130 :: tag :: rest)) = @None variant_kind.
Proof. intros tag rest H. rewrite probe_rejects_large_tag by exact H. reflexivity. Qed.

(* observation (DESIGN §6 C30): a non-minimal wrapper tag (two-byte argument) is
   rejected rather than mapped to a wrong era; an indefinite wrapper array likewise *)
Example non_minimal_tag_inconclusive :
  block_era [130; 25; 0; 5; 1; 2; 3] = Inconclusive /\ block_era [159; 5; 1; 2; 255] = Inconclusive /\
  block_era [130; 24; 5; 1] = Matched Alonzo /\ block_era [152; 2; 6; 1] = Matched Babbage.
Proof. repeat split. Qed.

(* non-vacuity: sparse aux map, invalid list with an out-of-range entry *)
Example c30_example :
  let b := mk_sblock [10; 11; 12] [20; 21; 22] [(0, 30); (2, 32); (7, 37)] (Some [1; 9]) in
  txs (@BConway Z Z Z b) = [(10, 20, true, Some 30); (11, 21, false, None); (12, 22, true, Some 32)] /\
  tx_count (@BConway Z Z Z b) = 3 /\ well_shaped (@BConway Z Z Z b) /\
  era_of_tag 7 = Some (block_era_of (@BConway Z Z Z b)).
Proof. repeat split. cbn. lia. Qed.
