//! C21: message reassembly is independent of segment boundaries (both stacks).
//!
//! Random message sequences of the mini-protocols are encoded, their byte stream
//! is cut into segments (all 2-way split points for short streams, 1-byte
//! segments, random cut sets with empty segments, sender-side chunking), and the
//! segments are fed through the REAL receiving code:
//!   old stack: raw segments written to one end of a UnixStream pair; the other
//!              end is a real `Plexer` + `ChannelBuffer::recv_full_msg::<M>()`
//!              (or a second Plexer + `send_msg_chunks` for the "sent" cases);
//!   new stack: `BearerWriteHalf::write_segment` / `write_message` on one end,
//!              `BearerReadHalf::read_full_msgs::<AnyMessage>` on the other.
//! Oracle: exactly the sent messages, in order, no error, empty residue.
//! Cases (Coq type `case` of C21/Run.v) carry the segments and what the
//! implementation delivered (messages as their re-encoded bytes).
use std::collections::HashMap;
use std::fmt::Debug;
use std::time::Duration;

use pallas_codec::minicbor;
use pallas_codec::utils::AnyCbor;
use pallas_codec::Fragment;
use pallas_network::miniprotocols as mp;
use pallas_network::multiplexer as mux;
use pallas_network2 as n2;
use pallas_network2::behavior::AnyMessage;
use pallas_network2::protocol as np;
use pallas_network2::Message as _;
use tokio::io::AsyncWriteExt;
use tokio::runtime::Runtime;
use verif_harness::*;

// ------------------------------------------------------------------ results
/// 0 channel closed while waiting (all segments consumed), 1 decoding error,
/// 2 timed out (blocked), 3 message cap reached (no progress), 4 other error, 5 panic
#[derive(Clone, Debug)]
struct RunRes { msgs: Vec<Vec<u8>>, status: u8, info: String }

#[derive(Clone, Debug)]
struct NewRes { out: Vec<(u16, Vec<u8>)>, fin: Vec<(u16, Vec<u8>)>, status: u8, info: String }

struct ToolError(String);

static mut SLOW_TIMEOUTS_LEFT: i32 = 2;
fn recv_timeout() -> Duration {
    // generous the first times; once a blocked receive was seen (already a failure) stay short
    unsafe { if SLOW_TIMEOUTS_LEFT > 0 { Duration::from_secs(30) } else { Duration::from_secs(2) } }
}
fn note_timeout() { unsafe { SLOW_TIMEOUTS_LEFT -= 1; } }

fn header(proto: u16, len: usize, ts: u32) -> [u8; 8] {
    let mut h = [0u8; 8];
    h[0..4].copy_from_slice(&ts.to_be_bytes());
    h[4..6].copy_from_slice(&proto.to_be_bytes());
    h[6..8].copy_from_slice(&(len as u16).to_be_bytes());
    h
}

/// a delivered message as bytes; a message the encoder cannot write (error or
/// `todo!()`) is shown as its Debug text so that it still differs from anything sent
fn reencode<M: Fragment + Debug>(m: &M) -> Vec<u8> {
    match guard(|| minicbor::to_vec(m).map_err(|e| e.to_string())) {
        Out::Ok(b) => b,
        _ => format!("<unencodable {:?}>", m).into_bytes(),
    }
}

// ------------------------------------------------------------------ old stack
async fn old_recv_loop<M: Fragment + Debug + Send + Sync + 'static>(mut buf: mux::ChannelBuffer, cap: usize) -> RunRes {
    old_recv_loop_on::<M>(&mut buf, cap).await
}
async fn old_recv_loop_on<M: Fragment + Debug + Send + Sync + 'static>(buf: &mut mux::ChannelBuffer, cap: usize) -> RunRes {
    let mut msgs = Vec::new();
    loop {
        if msgs.len() >= cap { return RunRes { msgs, status: 3, info: "cap".into() }; }
        match tokio::time::timeout(recv_timeout(), buf.recv_full_msg::<M>()).await {
            Err(_) => { note_timeout(); return RunRes { msgs, status: 2, info: "recv_full_msg still waiting".into() }; }
            Ok(Ok(m)) => msgs.push(reencode(&m)),
            Ok(Err(mux::Error::Decoding(e))) => return RunRes { msgs, status: 1, info: e },
            Ok(Err(mux::Error::AgentDequeue)) => return RunRes { msgs, status: 0, info: String::new() },
            Ok(Err(e)) => return RunRes { msgs, status: 4, info: format!("{e:?}") },
        }
    }
}

/// raw segments -> real Plexer + ChannelBuffer
fn run_old<M: Fragment + Debug + Send + Sync + 'static>(rt: &Runtime, proto: u16, as_server: bool, segs: &[Vec<u8>], cap: usize)
    -> Result<RunRes, ToolError> {
    let segs = segs.to_vec();
    rt.block_on(async move {
        let (a, b) = tokio::net::UnixStream::pair().map_err(|e| ToolError(format!("socketpair: {e}")))?;
        let mut plexer = mux::Plexer::new(mux::Bearer::Unix(b));
        let (chan, wire_proto) = if as_server { (plexer.subscribe_server(proto), proto) }
                                 else { (plexer.subscribe_client(proto), proto ^ 0x8000) };
        let running = plexer.spawn();
        let writer = tokio::spawn(async move {
            let mut a = a;
            for (i, s) in segs.iter().enumerate() {
                if a.write_all(&header(wire_proto, s.len(), i as u32)).await.is_err() { return false; }
                if a.write_all(s).await.is_err() { return false; }
            }
            let _ = a.flush().await;
            let _ = a.shutdown().await;
            true
        });
        let reader = tokio::spawn(old_recv_loop::<M>(mux::ChannelBuffer::new(chan), cap));
        let res = match reader.await {
            Ok(r) => r,
            Err(e) => RunRes { msgs: vec![], status: 5, info: format!("panic in recv_full_msg: {e}") },
        };
        writer.abort();
        let _ = writer.await;
        running.abort().await;
        Ok(res)
    })
}

/// a consumer that polls: after each segment recv_full_msg is called under a short timeout
/// (the future is dropped when it expires) until it timed out twice in a row; after the
/// last segment the bearer is closed and the consumer waits.  Returns the run result and
/// the event script (true = poll, false = the next segment was handed over).
fn run_old_poll<M: Fragment + Debug + Send + Sync + 'static>(rt: &Runtime, proto: u16, as_server: bool, segs: &[Vec<u8>], cap: usize)
    -> Result<(RunRes, Vec<bool>), ToolError> {
    let segs = segs.to_vec();
    rt.block_on(async move {
        let (a, b) = tokio::net::UnixStream::pair().map_err(|e| ToolError(format!("socketpair: {e}")))?;
        let mut plexer = mux::Plexer::new(mux::Bearer::Unix(b));
        let (chan, wire_proto) = if as_server { (plexer.subscribe_server(proto), proto) }
                                 else { (plexer.subscribe_client(proto), proto ^ 0x8000) };
        let running = plexer.spawn();
        let job = tokio::spawn(async move {
            let mut a = a;
            let mut buf = mux::ChannelBuffer::new(chan);
            let mut msgs: Vec<Vec<u8>> = Vec::new();
            let mut script: Vec<bool> = Vec::new();
            let n = segs.len();
            for (i, s) in segs.iter().enumerate() {
                if a.write_all(&header(wire_proto, s.len(), i as u32)).await.is_err() || a.write_all(s).await.is_err() {
                    return (RunRes { msgs, status: 4, info: "harness write failed".into() }, script);
                }
                script.push(false);
                if i + 1 == n { break; }
                let mut timeouts = 0;
                while timeouts < 2 {
                    if msgs.len() >= cap { return (RunRes { msgs, status: 3, info: "cap".into() }, script); }
                    script.push(true);
                    match tokio::time::timeout(Duration::from_millis(5), buf.recv_full_msg::<M>()).await {
                        Err(_) => timeouts += 1,            // abandoned while waiting for more
                        Ok(Ok(m)) => { msgs.push(reencode(&m)); timeouts = 0; }
                        Ok(Err(mux::Error::Decoding(e))) => return (RunRes { msgs, status: 1, info: e }, script),
                        Ok(Err(e)) => return (RunRes { msgs, status: 4, info: format!("{e:?}") }, script),
                    }
                }
            }
            let _ = a.flush().await;
            let _ = a.shutdown().await;
            drop(a);
            let mut rest = old_recv_loop_on::<M>(&mut buf, cap.saturating_sub(msgs.len())).await;
            msgs.append(&mut rest.msgs);
            (RunRes { msgs, status: rest.status, info: rest.info }, script)
        });
        let res = match job.await {
            Ok(r) => r,
            Err(e) => (RunRes { msgs: vec![], status: 5, info: format!("panic in recv_full_msg: {e}") }, vec![]),
        };
        running.abort().await;
        Ok(res)
    })
}

/// real sender: Plexer + ChannelBuffer::send_msg_chunks, real receiver; the
/// receiver asks for exactly `encs.len()` messages (the bearer stays open).
fn run_old_sent<M: Fragment + Debug + Send + Sync + 'static>(rt: &Runtime, proto: u16, encs: &[Vec<u8>]) -> Result<RunRes, ToolError> {
    let encs = encs.to_vec();
    rt.block_on(async move {
        let (a, b) = tokio::net::UnixStream::pair().map_err(|e| ToolError(format!("socketpair: {e}")))?;
        let mut pa = mux::Plexer::new(mux::Bearer::Unix(a));
        let mut pb = mux::Plexer::new(mux::Bearer::Unix(b));
        let ca = pa.subscribe_client(proto);
        let cb = pb.subscribe_server(proto);
        let (ra, rb) = (pa.spawn(), pb.spawn());
        let n = encs.len();
        let sender = tokio::spawn(async move {
            let mut buf = mux::ChannelBuffer::new(ca);
            for e in encs.iter() {
                let m: M = match minicbor::decode(e) { Ok(m) => m, Err(_) => return Err("decode".to_string()) };
                buf.send_msg_chunks(&m).await.map_err(|e| format!("{e:?}"))?;
            }
            // keep the channel alive until the receiver is done
            Ok(buf)
        });
        let reader = tokio::spawn(async move {
            let mut buf = mux::ChannelBuffer::new(cb);
            let mut msgs = Vec::new();
            for _ in 0..n {
                match tokio::time::timeout(recv_timeout(), buf.recv_full_msg::<M>()).await {
                    Err(_) => { note_timeout(); return RunRes { msgs, status: 2, info: "recv_full_msg still waiting".into() }; }
                    Ok(Ok(m)) => msgs.push(reencode(&m)),
                    Ok(Err(mux::Error::Decoding(e))) => return RunRes { msgs, status: 1, info: e },
                    Ok(Err(e)) => return RunRes { msgs, status: 4, info: format!("{e:?}") },
                }
            }
            RunRes { msgs, status: 0, info: String::new() }
        });
        let res = match reader.await {
            Ok(r) => r,
            Err(e) => RunRes { msgs: vec![], status: 5, info: format!("panic: {e}") },
        };
        let s = sender.await;
        ra.abort().await;
        rb.abort().await;
        match s {
            Ok(Ok(_)) => Ok(res),
            Ok(Err(e)) if res.status == 0 => Err(ToolError(format!("sender failed: {e}"))),
            _ => Ok(res),
        }
    })
}

// ------------------------------------------------------------------ new stack
fn run_new(rt: &Runtime, segs: &[(u16, Vec<u8>)]) -> Result<NewRes, ToolError> {
    let segs = segs.to_vec();
    rt.block_on(async move {
        let (a, b) = tokio::net::UnixStream::pair().map_err(|e| ToolError(format!("socketpair: {e}")))?;
        let (_ra, mut wa) = n2::bearer::Bearer::Unix(a).into_split();
        let (mut rb, _wb) = n2::bearer::Bearer::Unix(b).into_split();
        let n = segs.len();
        let writer = tokio::spawn(async move {
            for (i, (ch, s)) in segs.iter().enumerate() {
                if wa.write_segment(*ch, i as u32, s).await.is_err() { return false; }
            }
            true
        });
        let reader = tokio::spawn(async move {
            let mut partial: HashMap<u16, Vec<u8>> = HashMap::new();
            let mut out = Vec::new();
            let mut status = 0u8;
            let mut info = String::new();
            for _ in 0..n {
                match tokio::time::timeout(recv_timeout(), rb.read_full_msgs::<AnyMessage>(&mut partial)).await {
                    Err(_) => { note_timeout(); status = 2; info = "read_full_msgs still waiting".into(); break; }
                    Ok(Ok(ms)) => for m in ms { out.push((m.channel(), m.payload())); },
                    Ok(Err(e)) => { status = 4; info = format!("{e:?}"); break; }
                }
            }
            let mut fin: Vec<(u16, Vec<u8>)> = partial.into_iter().collect();
            fin.sort();
            NewRes { out, fin, status, info }
        });
        let res = match reader.await {
            Ok(r) => r,
            Err(e) => NewRes { out: vec![], fin: vec![], status: 5, info: format!("panic in read_full_msgs: {e}") },
        };
        writer.abort();
        let _ = writer.await;
        Ok(res)
    })
}

/// real sender of the new stack: write_message (into_chunks) for each message
fn run_new_sent(rt: &Runtime, msgs: Vec<AnyMessage>, mode: u16) -> Result<NewRes, ToolError> {
    rt.block_on(async move {
        let (a, b) = tokio::net::UnixStream::pair().map_err(|e| ToolError(format!("socketpair: {e}")))?;
        let (_ra, mut wa) = n2::bearer::Bearer::Unix(a).into_split();
        let (mut rb, _wb) = n2::bearer::Bearer::Unix(b).into_split();
        let mut nseg = 0usize;
        for m in &msgs { nseg += m.clone().into_chunks().1.len(); }
        let writer = tokio::spawn(async move {
            for (i, m) in msgs.into_iter().enumerate() {
                if wa.write_message(m, i as u32, mode).await.is_err() { return false; }
            }
            true
        });
        let reader = tokio::spawn(async move {
            let mut partial: HashMap<u16, Vec<u8>> = HashMap::new();
            let mut out = Vec::new();
            let mut status = 0u8;
            let mut info = String::new();
            for _ in 0..nseg {
                match tokio::time::timeout(recv_timeout(), rb.read_full_msgs::<AnyMessage>(&mut partial)).await {
                    Err(_) => { note_timeout(); status = 2; info = "read_full_msgs still waiting".into(); break; }
                    Ok(Ok(ms)) => for m in ms { out.push((m.channel(), m.payload())); },
                    Ok(Err(e)) => { status = 4; info = format!("{e:?}"); break; }
                }
            }
            let mut fin: Vec<(u16, Vec<u8>)> = partial.into_iter().collect();
            fin.sort();
            NewRes { out, fin, status, info }
        });
        let res = match reader.await {
            Ok(r) => r,
            Err(e) => NewRes { out: vec![], fin: vec![], status: 5, info: format!("panic: {e}") },
        };
        writer.abort();
        let _ = writer.await;
        Ok(res)
    })
}

// ------------------------------------------------------------------ generators
#[derive(Clone, Copy, PartialEq)]
enum Size { Small, Medium, Large }

fn blob(rng: &mut Rng, sz: Size) -> Vec<u8> {
    let len = match sz {
        Size::Small => *rng.pick(&[0usize, 1, 2, 3, 5, 8, 23, 24, 28, 32]),
        Size::Medium => *rng.pick(&[0usize, 23, 24, 32, 100, 255, 256, 257, 700, 1500]),
        Size::Large => *rng.pick(&[65520usize, 65535, 65536, 66000, 70000, 131080]),
    };
    if sz == Size::Small || len < 40 { return rng.bytes(len); }
    // opaque payload bytes: a constant fill with random edges (cases print it run-length encoded)
    let mut v = vec![rng.byte(); len];
    for j in 0..3 { v[j] = rng.byte(); v[len - 1 - j] = rng.byte(); }
    v
}
/// bytes as a Coq term of type list Z; runs of >= 24 equal bytes become `rep b n`
fn cb(bs: &[u8]) -> String {
    let mut parts: Vec<String> = Vec::new();
    let mut lit: Vec<u8> = Vec::new();
    let mut i = 0;
    while i < bs.len() {
        let mut j = i;
        while j < bs.len() && bs[j] == bs[i] { j += 1; }
        if j - i >= 24 {
            if !lit.is_empty() { parts.push(coq_bytes(&lit)); lit.clear(); }
            parts.push(format!("rep {} {}", bs[i], j - i));
        } else { lit.extend_from_slice(&bs[i..j]); }
        i = j;
    }
    if !lit.is_empty() || parts.is_empty() { parts.push(coq_bytes(&lit)); }
    if parts.len() == 1 && parts[0].starts_with('[') { parts.pop().unwrap() } else { format!("({})", parts.join(" ++ ")) }
}
fn hash(rng: &mut Rng, sz: Size) -> Vec<u8> { if sz == Size::Small && rng.chance(1, 2) { rng.bytes(4) } else { rng.bytes(32) } }
fn text(rng: &mut Rng) -> String {
    let n = rng.below(12) as usize;
    (0..n).map(|_| *rng.pick(&['a', 'Z', '0', ' ', 'é', '€', '𝄞', '\n'])).collect()
}
fn small_u64(rng: &mut Rng) -> u64 { rng.edge_u64() }

/// a random well-formed CBOR item (definite and indefinite containers, tags,
/// nested byte strings, non-minimal heads, simple values, floats)
fn cbor_head(out: &mut Vec<u8>, major: u8, n: u64, rng: &mut Rng) {
    let m = major << 5;
    let minimal = !rng.chance(1, 8);
    let w = if n < 24 && minimal { 0 } else if n < 256 && (minimal || rng.bool()) { 1 }
            else if n < 65536 && (minimal || rng.bool()) { 2 } else if n < (1 << 32) && (minimal || rng.bool()) { 4 } else { 8 };
    match w {
        0 => out.push(m | n as u8),
        1 => { out.push(m | 24); out.push(n as u8); }
        2 => { out.push(m | 25); out.extend_from_slice(&(n as u16).to_be_bytes()); }
        4 => { out.push(m | 26); out.extend_from_slice(&(n as u32).to_be_bytes()); }
        _ => { out.push(m | 27); out.extend_from_slice(&n.to_be_bytes()); }
    }
}
fn cbor_item(out: &mut Vec<u8>, rng: &mut Rng, depth: u32) {
    let k = if depth == 0 { rng.below(6) } else { rng.below(13) };
    match k {
        0 => { let n = small_u64(rng); cbor_head(out, 0, n, rng); }
        1 => { let n = small_u64(rng); cbor_head(out, 1, n, rng); }
        2 => { let b = blob(rng, Size::Small); cbor_head(out, 2, b.len() as u64, rng); out.extend_from_slice(&b); }
        3 => { let t = text(rng); cbor_head(out, 3, t.len() as u64, rng); out.extend_from_slice(t.as_bytes()); }
        4 => out.push(*rng.pick(&[0xf4u8, 0xf5, 0xf6, 0xf7, 0xe0, 0xf3])),
        5 => match rng.below(3) {
            0 => { out.push(0xf9); out.extend_from_slice(&rng.bytes(2)); }
            1 => { out.push(0xfa); out.extend_from_slice(&rng.bytes(4)); }
            _ => { out.push(0xfb); out.extend_from_slice(&rng.bytes(8)); }
        },
        6 => { let n = rng.below(4); cbor_head(out, 4, n, rng); for _ in 0..n { cbor_item(out, rng, depth - 1); } }
        7 => { let n = rng.below(3); cbor_head(out, 5, n, rng); for _ in 0..2 * n { cbor_item(out, rng, depth - 1); } }
        8 => { let t = *rng.pick(&[0u64, 2, 24, 30, 121, 258, 1280, 55799]); cbor_head(out, 6, t, rng); cbor_item(out, rng, depth - 1); }
        9 => { out.push(0x9f); for _ in 0..rng.below(4) { cbor_item(out, rng, depth - 1); } out.push(0xff); }
        10 => { out.push(0xbf); for _ in 0..2 * rng.below(3) { cbor_item(out, rng, depth - 1); } out.push(0xff); }
        11 => { out.push(0x5f); for _ in 0..rng.below(3) { let b = blob(rng, Size::Small); cbor_head(out, 2, b.len() as u64, rng); out.extend_from_slice(&b); } out.push(0xff); }
        _ => { // nested CBOR in bytes (tag 24)
            let mut inner = Vec::new(); cbor_item(&mut inner, rng, depth - 1);
            out.push(0xd8); out.push(24); cbor_head(out, 2, inner.len() as u64, rng); out.extend_from_slice(&inner);
        }
    }
}
fn any_cbor(rng: &mut Rng, sz: Size) -> AnyCbor {
    let mut out = Vec::new();
    match sz {
        Size::Small => cbor_item(&mut out, rng, 2),
        Size::Medium => cbor_item(&mut out, rng, 4),
        Size::Large => { let b = blob(rng, Size::Large); out.push(0x5a); out.extend_from_slice(&(b.len() as u32).to_be_bytes()); out.extend_from_slice(&b); }
    }
    AnyCbor::from(out)
}

// ---- old stack message generators
fn o_point(rng: &mut Rng, sz: Size) -> mp::Point {
    if rng.chance(1, 4) { mp::Point::Origin } else { mp::Point::Specific(small_u64(rng), hash(rng, sz)) }
}
fn o_tip(rng: &mut Rng, sz: Size) -> mp::chainsync::Tip { mp::chainsync::Tip(o_point(rng, sz), small_u64(rng)) }
fn o_header(rng: &mut Rng, sz: Size) -> mp::chainsync::HeaderContent {
    if rng.chance(1, 3) {
        mp::chainsync::HeaderContent { variant: 0, byron_prefix: Some((rng.byte() % 2, small_u64(rng))), cbor: blob(rng, sz) }
    } else {
        mp::chainsync::HeaderContent { variant: 1 + rng.byte() % 7, byron_prefix: None, cbor: blob(rng, sz) }
    }
}
fn o_chainsync<C>(rng: &mut Rng, sz: Size, content: fn(&mut Rng, Size) -> C) -> mp::chainsync::Message<C> {
    use mp::chainsync::Message::*;
    match rng.below(8) {
        0 => RequestNext,
        1 => AwaitReply,
        2 => RollForward(content(rng, sz), o_tip(rng, sz)),
        3 => RollBackward(o_point(rng, sz), o_tip(rng, sz)),
        4 => FindIntersect((0..rng.below(4)).map(|_| o_point(rng, sz)).collect()),
        5 => IntersectFound(o_point(rng, sz), o_tip(rng, sz)),
        6 => IntersectNotFound(o_tip(rng, sz)),
        _ => Done,
    }
}
fn o_chainsync_n2n(rng: &mut Rng, sz: Size) -> mp::chainsync::Message<mp::chainsync::HeaderContent> { o_chainsync(rng, sz, o_header) }
fn o_chainsync_n2c(rng: &mut Rng, sz: Size) -> mp::chainsync::Message<mp::chainsync::BlockContent> {
    o_chainsync(rng, sz, |r, s| mp::chainsync::BlockContent(blob(r, s)))
}
fn o_blockfetch(rng: &mut Rng, sz: Size) -> mp::blockfetch::Message {
    use mp::blockfetch::Message::*;
    match rng.below(6) {
        0 => RequestRange { range: (o_point(rng, sz), o_point(rng, sz)) },
        1 => ClientDone,
        2 => StartBatch,
        3 => NoBlocks,
        4 => Block { body: blob(rng, sz) },
        _ => BatchDone,
    }
}
fn o_txsub(rng: &mut Rng, sz: Size) -> mp::txsubmission::Message<mp::txsubmission::EraTxId, mp::txsubmission::EraTxBody> {
    use mp::txsubmission::{EraTxBody, EraTxId, Message::*, TxIdAndSize};
    match rng.below(6) {
        0 => Init,
        1 => RequestTxIds(rng.bool(), rng.next() as u16, rng.next() as u16),
        2 => ReplyTxIds((0..rng.below(4)).map(|_| TxIdAndSize(EraTxId(rng.byte() as u16 % 8, hash(rng, sz)), rng.edge_u64() as u32)).collect()),
        3 => RequestTxs((0..rng.below(4)).map(|_| EraTxId(rng.byte() as u16 % 8, hash(rng, sz))).collect()),
        4 => ReplyTxs((0..rng.below(3)).map(|_| EraTxBody(rng.byte() as u16 % 8, blob(rng, sz))).collect()),
        _ => Done,
    }
}
fn o_keepalive(rng: &mut Rng, _sz: Size) -> mp::keepalive::Message {
    use mp::keepalive::Message::*;
    let c = *rng.pick(&[0u16, 1, 23, 24, 255, 256, 65535]);
    match rng.below(3) { 0 => KeepAlive(c), 1 => ResponseKeepAlive(c), _ => Done }
}
fn o_peeraddr(rng: &mut Rng) -> mp::peersharing::PeerAddress {
    use mp::peersharing::PeerAddress::*;
    if rng.chance(2, 3) { V4(std::net::Ipv4Addr::from(rng.edge_u64() as u32), rng.edge_u64() as u16 as u32) }
    else { V6(std::net::Ipv6Addr::from(((rng.next() as u128) << 64) | rng.next() as u128), rng.edge_u64() as u16 as u32) }
}
fn o_peersharing(rng: &mut Rng, _sz: Size) -> mp::peersharing::Message {
    use mp::peersharing::Message::*;
    match rng.below(3) {
        0 => ShareRequest(rng.byte()),
        1 => SharePeers((0..rng.below(4)).map(|_| o_peeraddr(rng)).collect()),
        _ => Done,
    }
}
fn o_refuse(rng: &mut Rng) -> mp::handshake::RefuseReason {
    use mp::handshake::RefuseReason::*;
    match rng.below(3) {
        0 => VersionMismatch((0..rng.below(4)).map(|_| small_u64(rng)).collect()),
        1 => HandshakeDecodeError(small_u64(rng), text(rng)),
        _ => Refused(small_u64(rng), text(rng)),
    }
}
fn o_hs_n2n(rng: &mut Rng, _sz: Size) -> mp::handshake::Message<mp::handshake::n2n::VersionData> {
    use mp::handshake::{n2n::VersionData, Message::*, VersionTable};
    let vd = |rng: &mut Rng| if rng.bool() { VersionData::new(small_u64(rng), rng.bool(), None, None) }
                             else { VersionData::new(small_u64(rng), rng.bool(), Some(rng.byte() % 3), Some(rng.bool())) };
    let table = |rng: &mut Rng| VersionTable { values: (0..rng.below(5)).map(|_| (7 + rng.below(30), vd(rng))).collect() };
    match rng.below(4) { 0 => Propose(table(rng)), 1 => Accept(small_u64(rng), vd(rng)), 2 => Refuse(o_refuse(rng)), _ => QueryReply(table(rng)) }
}
fn o_hs_n2c(rng: &mut Rng, _sz: Size) -> mp::handshake::Message<mp::handshake::n2c::VersionData> {
    use mp::handshake::{n2c::VersionData, Message::*, VersionTable};
    let vd = |rng: &mut Rng| VersionData::new(small_u64(rng), if rng.bool() { None } else { Some(rng.bool()) });
    let table = |rng: &mut Rng| VersionTable { values: (0..rng.below(5)).map(|_| (32768 + rng.below(30), vd(rng))).collect() };
    match rng.below(4) { 0 => Propose(table(rng)), 1 => Accept(small_u64(rng), vd(rng)), 2 => Refuse(o_refuse(rng)), _ => QueryReply(table(rng)) }
}
fn o_localstate(rng: &mut Rng, sz: Size) -> mp::localstate::Message {
    use mp::localstate::{AcquireFailure, Message::*};
    match rng.below(10) {
        0 => Acquire(Some(o_point(rng, sz))),
        1 => Acquire(None),
        2 => Failure(if rng.bool() { AcquireFailure::PointTooOld } else { AcquireFailure::PointNotOnChain }),
        3 => Acquired,
        4 => Query(any_cbor(rng, sz)),
        5 => Result(any_cbor(rng, sz)),
        6 => ReAcquire(Some(o_point(rng, sz))),
        7 => ReAcquire(None),
        8 => Release,
        _ => Done,
    }
}
type LtsMsg = mp::localtxsubmission::Message<mp::localtxsubmission::EraTx, mp::localtxsubmission::TxValidationError>;
fn o_localtx(rng: &mut Rng, sz: Size) -> LtsMsg {
    use mp::localtxsubmission::{EraTx, Message::*};
    match rng.below(4) {
        0 | 1 => SubmitTx(EraTx(rng.byte() as u16 % 8, blob(rng, sz))),
        2 => AcceptTx,
        _ => Done,
    }
}
fn o_txmonitor(rng: &mut Rng, sz: Size) -> mp::txmonitor::Message {
    use mp::txmonitor::{MempoolSizeAndCapacity, Message::*};
    // ResponseNextTx (with and without a transaction) is the one variant whose shape depends on the array length
    match if rng.chance(1, 3) { 7 + rng.below(2) } else { rng.below(11) } {
        0 => Acquire,
        1 => AwaitAcquire,
        2 => Acquired(small_u64(rng)),
        3 => RequestHasTx(text(rng)),
        4 => RequestNextTx,
        5 => RequestSizeAndCapacity,
        6 => ResponseHasTx(rng.bool()),
        7 => ResponseNextTx(None),
        8 => ResponseNextTx(Some((rng.byte() % 8, pallas_codec::utils::TagWrap::new(blob(rng, sz).into())))),
        9 => ResponseSizeAndCapacity(MempoolSizeAndCapacity { capacity_in_bytes: rng.edge_u64() as u32, size_in_bytes: rng.edge_u64() as u32, number_of_txs: rng.edge_u64() as u32 }),
        _ => if rng.bool() { Release } else { Done },
    }
}

// ---- new stack message generators
fn n_point(rng: &mut Rng, sz: Size) -> np::Point {
    if rng.chance(1, 4) { np::Point::Origin } else { np::Point::Specific(small_u64(rng), hash(rng, sz)) }
}
fn n_tip(rng: &mut Rng, sz: Size) -> np::chainsync::Tip { np::chainsync::Tip(n_point(rng, sz), small_u64(rng)) }
fn n_msg(rng: &mut Rng, which: usize, sz: Size) -> AnyMessage {
    match which {
        0 => {
            use np::handshake::{n2n::VersionData, Message::*, RefuseReason::*, VersionTable};
            let vd = |rng: &mut Rng| if rng.bool() { VersionData::new(small_u64(rng), rng.bool(), None, None) }
                                     else { VersionData::new(small_u64(rng), rng.bool(), Some(rng.byte() % 3), Some(rng.bool())) };
            let table = |rng: &mut Rng| VersionTable { values: (0..rng.below(5)).map(|_| (7 + rng.below(30), vd(rng))).collect() };
            AnyMessage::Handshake(match rng.below(6) {
                0 => Propose(table(rng)), 1 => Accept(small_u64(rng), vd(rng)), 2 => QueryReply(table(rng)),
                3 => Refuse(VersionMismatch((0..rng.below(4)).map(|_| small_u64(rng)).collect())),
                4 => Refuse(HandshakeDecodeError(small_u64(rng), text(rng))),
                _ => Refuse(Refused(small_u64(rng), text(rng))),
            })
        }
        1 => {
            use np::keepalive::Message::*;
            let c = *rng.pick(&[0u16, 1, 23, 24, 255, 256, 65535]);
            AnyMessage::KeepAlive(match rng.below(3) { 0 => KeepAlive(c), 1 => ResponseKeepAlive(c), _ => Done })
        }
        2 => {
            use np::chainsync::{HeaderContent, Message::*};
            let hc = |rng: &mut Rng| if rng.chance(1, 3) { HeaderContent { variant: 0, byron_prefix: Some((rng.byte() % 2, small_u64(rng))), cbor: blob(rng, sz) } }
                                     else { HeaderContent { variant: 1 + rng.byte() % 7, byron_prefix: None, cbor: blob(rng, sz) } };
            AnyMessage::ChainSync(match rng.below(8) {
                0 => RequestNext, 1 => AwaitReply, 2 => RollForward(hc(rng), n_tip(rng, sz)),
                3 => RollBackward(n_point(rng, sz), n_tip(rng, sz)),
                4 => FindIntersect((0..rng.below(4)).map(|_| n_point(rng, sz)).collect()),
                5 => IntersectFound(n_point(rng, sz), n_tip(rng, sz)), 6 => IntersectNotFound(n_tip(rng, sz)), _ => Done,
            })
        }
        3 => {
            use np::peersharing::{Message::*, PeerAddress::*};
            let addr = |rng: &mut Rng| if rng.chance(2, 3) { V4(std::net::Ipv4Addr::from(rng.edge_u64() as u32), rng.edge_u64() as u16) }
                                       else { V6(std::net::Ipv6Addr::from(((rng.next() as u128) << 64) | rng.next() as u128), rng.edge_u64() as u16) };
            AnyMessage::PeerSharing(match rng.below(3) { 0 => ShareRequest(rng.byte()), 1 => SharePeers((0..rng.below(4)).map(|_| addr(rng)).collect()), _ => Done })
        }
        4 => {
            use np::blockfetch::Message::*;
            AnyMessage::BlockFetch(match rng.below(6) {
                0 => RequestRange((n_point(rng, sz), n_point(rng, sz))), 1 => ClientDone, 2 => StartBatch, 3 => NoBlocks,
                4 => Block(blob(rng, sz)), _ => BatchDone,
            })
        }
        5 => {
            use np::txsubmission::{EraTxBody, EraTxId, Message::*, TxIdAndSize};
            AnyMessage::TxSubmission(match rng.below(6) {
                0 => Init,
                1 => RequestTxIds(rng.bool(), rng.next() as u16, rng.next() as u16),
                2 => ReplyTxIds((0..rng.below(4)).map(|_| TxIdAndSize(EraTxId(rng.byte() as u16 % 8, hash(rng, sz)), rng.edge_u64() as u32)).collect()),
                3 => RequestTxs((0..rng.below(4)).map(|_| EraTxId(rng.byte() as u16 % 8, hash(rng, sz))).collect()),
                4 => ReplyTxs((0..rng.below(3)).map(|_| EraTxBody(rng.byte() as u16 % 8, blob(rng, sz))).collect()),
                _ => Done,
            })
        }
        6 => {
            use np::leiosnotify::Message::*;
            AnyMessage::LeiosNotify(match rng.below(6) {
                0 => RequestNext, 1 => BlockAnnouncement(any_cbor(rng, sz)), 2 => BlockOffer(n_point(rng, sz), rng.edge_u64() as u32),
                3 => BlockTxsOffer(n_point(rng, sz)), 4 => Votes((0..rng.below(3)).map(|_| any_cbor(rng, Size::Small)).collect()), _ => Done,
            })
        }
        _ => {
            use np::leiosfetch::{Bitmaps, Message::*};
            let bm = |rng: &mut Rng| Bitmaps((0..rng.below(3)).map(|_| (rng.next() as u16 % 40, rng.edge_u64())).collect());
            AnyMessage::LeiosFetch(match rng.below(5) {
                0 => BlockRequest(n_point(rng, sz)), 1 => Block(any_cbor(rng, sz)), 2 => BlockTxsRequest(n_point(rng, sz), bm(rng)),
                3 => BlockTxs { point: n_point(rng, sz), bitmaps: bm(rng), txs: (0..rng.below(3)).map(|_| any_cbor(rng, Size::Small)).collect() },
                _ => Done,
            })
        }
    }
}
/// a new-stack message carrying a byte payload (chainsync header, blockfetch block, tx body, leios block)
fn n_filler(which: usize, b: Vec<u8>) -> AnyMessage {
    match which {
        2 => AnyMessage::ChainSync(np::chainsync::Message::RollForward(np::chainsync::HeaderContent { variant: 6, byron_prefix: None, cbor: b },
                                   np::chainsync::Tip(np::Point::Origin, 7))),
        5 => AnyMessage::TxSubmission(np::txsubmission::Message::ReplyTxs(vec![np::txsubmission::EraTxBody(6, b)])),
        7 => AnyMessage::LeiosFetch(np::leiosfetch::Message::Block(AnyCbor::from_encode(minicbor::bytes::ByteVec::from(b)))),
        _ => AnyMessage::BlockFetch(np::blockfetch::Message::Block(b)),
    }
}
const NEW_NAMES: [&str; 8] = ["handshake", "keepalive", "chainsync", "peersharing", "blockfetch", "txsubmission", "leiosnotify", "leiosfetch"];

// ------------------------------------------------------------------ protocol table (old stack)
struct OldProto {
    name: &'static str,
    proto: u16,
    gen: Box<dyn Fn(&mut Rng, Size) -> Option<Vec<u8>>>,       // encoding of a random message (None: not a one-shot round trip)
    run: Box<dyn Fn(&Runtime, bool, &[Vec<u8>], usize) -> Result<RunRes, ToolError>>,
    sent: Box<dyn Fn(&Runtime, &[Vec<u8>]) -> Result<RunRes, ToolError>>,
    poll: Box<dyn Fn(&Runtime, bool, &[Vec<u8>], usize) -> Result<(RunRes, Vec<bool>), ToolError>>,
    filler: Option<Box<dyn Fn(usize, u8) -> Vec<u8>>>,   // encoding of a message carrying a byte payload of that length
}
fn old_proto<M: Fragment + Debug + Send + Sync + 'static>(name: &'static str, proto: u16, gen: fn(&mut Rng, Size) -> M) -> OldProto {
    OldProto {
        name, proto,
        gen: Box::new(move |rng, sz| {
            let m = gen(rng, sz);
            let enc = minicbor::to_vec(&m).ok()?;
            // C21 is about reassembly, not about the codec: only messages that
            // survive a one-shot decode/encode are used (others belong to C22)
            let back: M = match guard(|| minicbor::decode::<M>(&enc).map_err(|e| e.to_string())) { Out::Ok(v) => v, _ => return None };
            if minicbor::to_vec(&back).ok()? != enc { return None; }
            Some(enc)
        }),
        run: Box::new(move |rt, as_server, segs, cap| run_old::<M>(rt, proto, as_server, segs, cap)),
        sent: Box::new(move |rt, encs| run_old_sent::<M>(rt, proto, encs)),
        poll: Box::new(move |rt, as_server, segs, cap| run_old_poll::<M>(rt, proto, as_server, segs, cap)),
        filler: None,
    }
}
fn with_filler<M: Fragment + 'static>(mut p: OldProto, make: fn(Vec<u8>) -> M) -> OldProto {
    p.filler = Some(Box::new(move |len, fill| minicbor::to_vec(&make(vec![fill; len])).unwrap_or_default()));
    p
}
/// an encoding of exactly `target` bytes from a constructor parameterised by its payload length
fn fit(target: usize, make: &dyn Fn(usize) -> Vec<u8>) -> Option<Vec<u8>> {
    let mut len = target.saturating_sub(16);
    for _ in 0..5 {
        let e = make(len);
        if e.len() == target { return Some(e); }
        let want = len as i64 + target as i64 - e.len() as i64;
        if want < 0 { return None; }
        len = want as usize;
    }
    None
}
/// message lists whose byte stream ends exactly at the end of a FULL (65535-byte) segment:
/// (name, messages, segments)
fn full_segment_streams(rng: &mut Rng, small: &mut dyn FnMut(&mut Rng) -> Option<Vec<u8>>, filler: &dyn Fn(usize, u8) -> Vec<u8>)
    -> Vec<(&'static str, Vec<Vec<u8>>, Vec<Vec<u8>>)> {
    let mut out = Vec::new();
    let fill = rng.byte();
    let mut smalls = |rng: &mut Rng, k: usize| -> Vec<Vec<u8>> { let mut v = Vec::new(); let mut t = 0; while v.len() < k && t < 30 { t += 1; if let Some(e) = small(rng) { v.push(e); } } v };
    // one message of exactly 65535 bytes; one of exactly 2 x 65535
    for (name, total) in [("one-full-segment", 65535usize), ("two-full-segments", 131070)] {
        if let Some(e) = fit(total, &|l| filler(l, fill)) { let segs = e.chunks(65535).map(|c| c.to_vec()).collect(); out.push((name, vec![e], segs)); }
    }
    // small messages, then a filler that ends the full segment; and the filler first, small ones packed behind it
    let npre = rng.range(1, 3) as usize;
    let pre = smalls(rng, npre);
    let plen: usize = pre.iter().map(|e| e.len()).sum();
    if plen < 60000 {
        if let Some(e) = fit(65535 - plen, &|l| filler(l, fill)) {
            let mut ms = pre.clone(); ms.push(e.clone());
            out.push(("small-then-filler-one-full-segment", ms.clone(), vec![ms.concat()]));
            let mut ms2 = vec![e]; ms2.extend(pre.clone());
            out.push(("filler-then-small-one-full-segment", ms2.clone(), vec![ms2.concat()]));
        }
        // a stream of 65535 + r bytes: the first r bytes cut at random, the last segment full
        if let Some(e) = fit(65535 + rng.range(1, 40) as usize, &|l| filler(l, fill)) {
            let mut ms = pre.clone(); ms.push(e);
            let stream = ms.concat();
            let r = stream.len() - 65535;
            let mut segs = cut(&stream[..r], &random_cuts(rng, r));
            segs.push(stream[r..].to_vec());
            out.push(("random-cuts-then-full-last-segment", ms, segs));
        }
    }
    out
}

/// strict RFC 8949 well-formedness: length of the first item of `b`, if it is complete and well-formed
/// (minicbor's own skip() is lenient: it lets a break byte stand for an element of a definite array)
fn item_len(b: &[u8]) -> Option<usize> {
    // stack entries: Some(n) = n items still expected, None = indefinite container (until break)
    let mut stack: Vec<Option<u64>> = vec![Some(1)];
    let mut i = 0usize;
    while let Some(top) = stack.last().copied() {
        if top == Some(0) { stack.pop(); continue; }
        let ib = *b.get(i)?;
        i += 1;
        if ib == 0xff {
            if top.is_some() { return None; }
            stack.pop();
            continue;
        }
        if let Some(Some(n)) = stack.last_mut() { *n -= 1; }
        let (major, info) = (ib >> 5, ib & 31);
        let arg: Option<u64> = match info {
            0..=23 => Some(info as u64),
            24 => { let v = *b.get(i)? as u64; i += 1; Some(v) }
            25 => { let v = b.get(i..i + 2)?; i += 2; Some(u16::from_be_bytes([v[0], v[1]]) as u64) }
            26 => { let v = b.get(i..i + 4)?; i += 4; Some(u32::from_be_bytes([v[0], v[1], v[2], v[3]]) as u64) }
            27 => { let v = b.get(i..i + 8)?; i += 8; Some(u64::from_be_bytes([v[0], v[1], v[2], v[3], v[4], v[5], v[6], v[7]])) }
            31 => None,
            _ => return None,
        };
        match (major, arg) {
            (0, Some(_)) | (1, Some(_)) | (7, Some(_)) => {}
            (2, Some(n)) | (3, Some(n)) => { let n = usize::try_from(n).ok()?; b.get(i..i.checked_add(n)?)?; i += n; }
            (2, None) | (3, None) => loop {
                let cb = *b.get(i)?; i += 1;
                if cb == 0xff { break; }
                if cb >> 5 != major { return None; }
                let n = match cb & 31 { x @ 0..=23 => x as usize, 24 => { let v = *b.get(i)? as usize; i += 1; v }
                    25 => { let v = b.get(i..i + 2)?; i += 2; u16::from_be_bytes([v[0], v[1]]) as usize }
                    26 => { let v = b.get(i..i + 4)?; i += 4; u32::from_be_bytes([v[0], v[1], v[2], v[3]]) as usize }
                    _ => return None };
                b.get(i..i.checked_add(n)?)?; i += n;
            },
            (4, Some(n)) => stack.push(Some(n)),
            (5, Some(n)) => stack.push(Some(n.checked_mul(2)?)),
            (4, None) | (5, None) => stack.push(None),
            (6, Some(_)) => stack.push(Some(1)),
            _ => return None,
        }
    }
    Some(i)
}
/// is `b` exactly one well-formed CBOR item?
fn single_item(b: &[u8]) -> bool { item_len(b) == Some(b.len()) }

// ------------------------------------------------------------------ splitting
fn cut(stream: &[u8], cuts: &[usize]) -> Vec<Vec<u8>> {
    let mut segs = Vec::new();
    let mut prev = 0;
    for &c in cuts { segs.push(stream[prev..c].to_vec()); prev = c; }
    segs.push(stream[prev..].to_vec());
    // a segment's length field is 16 bits
    let mut out = Vec::new();
    for s in segs { if s.len() > 65535 { for c in s.chunks(65535) { out.push(c.to_vec()); } } else { out.push(s); } }
    out
}
fn random_cuts(rng: &mut Rng, len: usize) -> Vec<usize> {
    let k = match rng.below(4) { 0 => 1, 1 => 2, 2 => rng.range(3, 8), _ => rng.range(8, 40) } as usize;
    let mut cuts: Vec<usize> = (0..k).map(|_| match rng.below(8) {
        0 => 0, 1 => len, 2 => len.min(1), 3 => len.saturating_sub(1), _ => rng.below(len as u64 + 1) as usize }).collect();
    if rng.chance(1, 3) && !cuts.is_empty() { let c = cuts[0]; cuts.push(c); } // an empty segment in the middle
    cuts.sort();
    cuts
}

fn coq_segs(segs: &[Vec<u8>]) -> String { coq_list(segs, |s| cb(s)) }
fn coq_tagged(segs: &[(u16, Vec<u8>)]) -> String { coq_list(segs, |(c, s)| format!("({},{})", c, cb(s))) }

fn classify(expected: &[Vec<u8>], got: &[Vec<u8>], status: u8) -> Option<&'static str> {
    let agree = got.iter().zip(expected.iter()).take_while(|(a, b)| a == b).count();
    // a delivered message that was never sent (at that position) comes first
    if agree < got.len() && agree < expected.len() { return Some("wrong-message"); }
    match status {
        1 => return Some("decode-error"),
        2 => return Some("blocked"),
        3 => return Some("no-progress"),
        4 => return Some("io-error"),
        5 => return Some("panic"),
        _ => {}
    }
    if got.len() < expected.len() { return Some("missing"); }
    if got.len() > expected.len() { return Some("extra"); }
    None
}

fn hexs(v: &[Vec<u8>]) -> String { v.iter().map(|b| hex(b)).collect::<Vec<_>>().join(",") }
fn short(s: &str) -> String { if s.len() > 1200 { format!("{}…({} chars)", &s[..1200], s.len()) } else { s.to_string() } }

fn tool_fail(e: ToolError) -> ! {
    eprintln!("c21 harness tool error: {}", e.0);
    std::process::exit(3);
}

fn main() {
    let args = args();
    let mut rng = Rng::new(args.seed);
    let thorough = args.tier == "thorough";
    let rt = tokio::runtime::Builder::new_multi_thread().worker_threads(4).enable_all().build().expect("tokio runtime");

    let olds: Vec<OldProto> = vec![
        with_filler(old_proto("chainsync-n2n", mp::PROTOCOL_N2N_CHAIN_SYNC, o_chainsync_n2n),
            |b| mp::chainsync::Message::RollForward(mp::chainsync::HeaderContent { variant: 6, byron_prefix: None, cbor: b }, mp::chainsync::Tip(mp::Point::Origin, 7))),
        with_filler(old_proto("chainsync-n2c", mp::PROTOCOL_N2C_CHAIN_SYNC, o_chainsync_n2c),
            |b| mp::chainsync::Message::RollForward(mp::chainsync::BlockContent(b), mp::chainsync::Tip(mp::Point::Origin, 7))),
        with_filler(old_proto("blockfetch", mp::PROTOCOL_N2N_BLOCK_FETCH, o_blockfetch), |b| mp::blockfetch::Message::Block { body: b }),
        with_filler(old_proto("txsubmission", mp::PROTOCOL_N2N_TX_SUBMISSION, o_txsub),
            |b| mp::txsubmission::Message::<mp::txsubmission::EraTxId, mp::txsubmission::EraTxBody>::ReplyTxs(vec![mp::txsubmission::EraTxBody(6, b)])),
        old_proto("keepalive", mp::PROTOCOL_N2N_KEEP_ALIVE, o_keepalive),
        old_proto("peersharing", mp::PROTOCOL_N2N_PEER_SHARING, o_peersharing),
        old_proto("handshake-n2n", mp::PROTOCOL_N2N_HANDSHAKE, o_hs_n2n),
        old_proto("handshake-n2c", mp::PROTOCOL_N2C_HANDSHAKE, o_hs_n2c),
        with_filler(old_proto("localstate", mp::PROTOCOL_N2C_STATE_QUERY, o_localstate),
            |b| mp::localstate::Message::Result(AnyCbor::from_encode(minicbor::bytes::ByteVec::from(b)))),
        with_filler(old_proto("localtxsubmission", mp::PROTOCOL_N2C_TX_SUBMISSION, o_localtx),
            |b| { let m: LtsMsg = mp::localtxsubmission::Message::SubmitTx(mp::localtxsubmission::EraTx(6, b)); m }),
        with_filler(old_proto("txmonitor", mp::PROTOCOL_N2C_TX_MONITOR, o_txmonitor),
            |b| mp::txmonitor::Message::ResponseNextTx(Some((6, pallas_codec::utils::TagWrap::new(b.into()))))),
    ];
    let mut skipped_codec = 0u64;
    let mut not_single = 0u64;
    let mut runs = 0u64;
    let mut large_left = if thorough { 12 } else { 3 };

    for i in 0..args.n {
        let use_new = i % 2 == 1;
        let sz = if large_left > 0 && i % 37 == 5 { large_left -= 1; Size::Large } else if rng.chance(1, 5) { Size::Medium } else { Size::Small };
        let k = if sz == Size::Large { 2 } else { rng.range(1, 5) as usize };
        if !use_new {
            // ---------------------------------------------------------- old stack
            let p = &olds[(i / 2) % olds.len()];
            let mut encs: Vec<Vec<u8>> = Vec::new();
            let mut tries = 0;
            while encs.len() < k && tries < 50 {
                tries += 1;
                let s = if sz == Size::Large && !encs.is_empty() { Size::Small } else { sz };
                match (p.gen)(&mut rng, s) { Some(e) => encs.push(e), None => skipped_codec += 1 }
            }
            // regression inputs of the two repaired decoders, replayed first (all split points, empty first segment)
            if i / 2 < olds.len() {
                let fixed: Option<Vec<Vec<u8>>> = match p.name {
                    "txmonitor" => Some(vec![vec![0x81, 0x06], vec![0x81, 0x01], vec![0x82, 0x06, 0x82, 0x05, 0xd8, 0x18, 0x42, 0x01, 0x02], vec![0x81, 0x06]]),
                    "localtxsubmission" => Some(vec![vec![0x81, 0x01], vec![0x82, 0x00, 0x82, 0x01, 0xd8, 0x18, 0x41, 0x00], vec![0x81, 0x03]]),
                    _ => None,
                };
                if let Some(f) = fixed { encs = f; }
            }
            let sentinel = loop { if let Some(e) = (p.gen)(&mut rng, Size::Small) { break e; } };
            let stream: Vec<u8> = encs.concat();
            let mut expected = encs.clone();
            expected.push(sentinel.clone());
            let to_model = encs.iter().all(|e| single_item(e)) && single_item(&sentinel);
            if !to_model { not_single += 1; }
            let as_server = rng.bool();
            let cap = expected.len() + 4;
            if i < 6 { emit_sample(&format!("old:{} msgs={} sentinel={}", p.name, hexs(&encs), hex(&sentinel))); }
            let mut check = |segs: &[Vec<u8>], res: &RunRes, how: &str| -> bool {
                match classify(&expected, &res.msgs, res.status) {
                    None => true,
                    Some(kind) => {
                        emit_oracle_fail(&format!("old:{}:{}", p.name, kind), &short(&format!(
                            "stack=old protocol={} split={} segments(hex)=[{}] sent messages=[{}] (last one is the residue sentinel, sent as its own segment) delivered=[{}] status={} {}",
                            p.name, how, hexs(segs), hexs(&expected), hexs(&res.msgs), res.status, res.info)));
                        false
                    }
                }
            };
            // (a) all two-way split points of a short stream
            if stream.len() <= 64 {
                let mut all_ok = true;
                for pnt in 0..=stream.len() {
                    let mut segs = cut(&stream, &[pnt]);
                    segs.push(sentinel.clone());
                    let res = (p.run)(&rt, as_server, &segs, cap).unwrap_or_else(|e| tool_fail(e));
                    runs += 1;
                    let ok = check(&segs, &res, &format!("2-way@{}", pnt));
                    if !ok {
                        all_ok = false;
                        if to_model && !args.oracle_only {
                            emit_case(&format!("old:{}:split-fail", p.name), &format!("(COld {} {} {})", coq_segs(&segs), coq_segs(&res.msgs), res.status));
                        }
                    }
                }
                if all_ok && to_model && !args.oracle_only {
                    emit_case(&format!("old:{}:all-2way-splits", p.name), &format!("(COldSplits {} {} {})", cb(&stream), coq_segs(&[sentinel.clone()]), coq_segs(&expected)));
                }
            }
            // (b) 1-byte segments, random cut sets, whole stream in one segment
            let mut plans: Vec<(String, Vec<Vec<u8>>)> = Vec::new();
            if stream.len() <= 600 { plans.push(("1-byte".into(), stream.iter().map(|b| vec![*b]).collect())); }
            plans.push(("whole".into(), cut(&stream, &[])));
            let nr = if stream.len() <= 64 { 2 } else if sz == Size::Large { 2 } else { 6 };
            for _ in 0..nr { let cuts = random_cuts(&mut rng, stream.len()); plans.push((format!("cuts{:?}", cuts), cut(&stream, &cuts))); }
            if sz == Size::Large { plans.push(("chunks65535".into(), stream.chunks(65535).map(|c| c.to_vec()).collect())); }
            // a truncated stream (outside the property: model tie only)
            for (how, mut segs) in plans {
                segs.push(sentinel.clone());
                let res = (p.run)(&rt, as_server, &segs, cap).unwrap_or_else(|e| tool_fail(e));
                runs += 1;
                check(&segs, &res, &how);
                if to_model && !args.oracle_only {
                    let tag = if how.starts_with("cuts") { "random-cuts" } else { how.as_str() };
                    emit_case(&format!("old:{}:{}", p.name, tag), &format!("(COld {} {} {})", coq_segs(&segs), coq_segs(&res.msgs), res.status));
                }
            }
            // (c) truncated / corrupted tails: not in the property's domain, model tie only
            if to_model && !args.oracle_only && stream.len() > 1 && rng.chance(1, 2) {
                let cutlen = rng.range(1, stream.len() as u64 - 1) as usize;
                let mut segs = cut(&stream[..cutlen], &random_cuts(&mut rng, cutlen));
                // (a corrupted tail is not compared: the typed decoders legitimately reject more than "malformed CBOR")
                let bad = false;
                if bad { segs.push(vec![0x1c]); }
                let res = (p.run)(&rt, as_server, &segs, cap).unwrap_or_else(|e| tool_fail(e));
                runs += 1;
                // a truncated prefix must deliver a prefix of the messages (and never a wrong one)
                let full = res.msgs.iter().zip(encs.iter()).take_while(|(a, b)| a == b).count();
                if !bad && (full != res.msgs.len() || res.status != 0) {
                    emit_oracle_fail(&format!("old:{}:truncated-stream", p.name), &short(&format!(
                        "stack=old protocol={} truncated stream segments=[{}] messages=[{}] delivered=[{}] status={} {}",
                        p.name, hexs(&segs), hexs(&encs), hexs(&res.msgs), res.status, res.info)));
                }
                emit_case(&format!("trivial-old:{}:{}", p.name, if bad { "bad-tail" } else { "truncated" }),
                          &format!("(COld {} {} {})", coq_segs(&segs), coq_segs(&res.msgs), res.status));
            }
            // (e) a consumer that polls under a timeout and abandons the call between segments
            if stream.len() >= 2 && stream.len() <= 64 {
                let mut plans: Vec<(String, Vec<Vec<u8>>)> = Vec::new();
                let points: Vec<usize> = if thorough || stream.len() <= 24 { (1..stream.len()).collect() }
                                         else { (0..6).map(|_| rng.range(1, stream.len() as u64 - 1) as usize).collect() };
                for pnt in points { plans.push((format!("poll-2-way@{}", pnt), cut(&stream, &[pnt]))); }
                if stream.len() <= 36 { plans.push(("poll-3-byte-segments".into(), stream.chunks(3).map(|c| c.to_vec()).collect())); }
                for (how, mut segs) in plans {
                    segs.push(sentinel.clone());
                    let (res, script) = (p.poll)(&rt, as_server, &segs, cap).unwrap_or_else(|e| tool_fail(e));
                    runs += 1;
                    check(&segs, &res, &how);
                    if to_model && !args.oracle_only {
                        let mut k = 0;
                        let evs: Vec<String> = script.iter().map(|poll| if *poll { "EPoll".to_string() } else { k += 1; format!("EArrive {}", cb(&segs[k - 1])) }).collect();
                        let tag = if how.starts_with("poll-2") { "poll-2-way" } else { "poll-3-byte-segments" };
                        emit_case(&format!("old:{}:{}", p.name, tag), &format!("(COldPoll [{}] {} {})", evs.join(";"), coq_segs(&res.msgs), res.status));
                    }
                }
            }
            // (f) streams that end exactly at the end of a full 65535-byte segment; nothing is sent after it
            if i % 16 == 2 {
                let fp = if p.filler.is_some() { p } else { &olds[2] };
                let filler = fp.filler.as_ref().unwrap();
                let mut small = |rng: &mut Rng| (fp.gen)(rng, Size::Small);
                for (how, ms, segs) in full_segment_streams(&mut rng, &mut small, filler.as_ref()) {
                    let srv = rng.bool();
                    let res = (fp.run)(&rt, srv, &segs, ms.len() + 4).unwrap_or_else(|e| tool_fail(e));
                    runs += 1;
                    if let Some(kind) = classify(&ms, &res.msgs, res.status) {
                        emit_oracle_fail(&format!("old:{}:full-last-segment:{}", fp.name, kind), &short(&format!(
                            "stack=old protocol={} {}: segment lengths {:?}, the last one is full and ends on a message boundary, nothing sent after it; sent message lengths {:?}; delivered message lengths {:?} status={} {}",
                            fp.name, how, segs.iter().map(|s| s.len()).collect::<Vec<_>>(), ms.iter().map(|m| m.len()).collect::<Vec<_>>(),
                            res.msgs.iter().map(|m| m.len()).collect::<Vec<_>>(), res.status, res.info)));
                    }
                    if ms.iter().all(|e| single_item(e)) && !args.oracle_only {
                        emit_case(&format!("old:{}:full-last-segment", fp.name), &format!("(COld {} {} {})", coq_segs(&segs), coq_segs(&res.msgs), res.status));
                    }
                }
            }
            // (d) the real sender (send_msg_chunks) towards the real receiver
            if i % 6 == 0 || sz == Size::Large {
                let res = (p.sent)(&rt, &encs).unwrap_or_else(|e| tool_fail(e));
                runs += 1;
                if let Some(kind) = classify(&encs, &res.msgs, res.status) {
                    emit_oracle_fail(&format!("old:{}:sent:{}", p.name, kind), &short(&format!(
                        "stack=old protocol={} send_msg_chunks of messages=[{}] delivered=[{}] status={} {}",
                        p.name, hexs(&encs), hexs(&res.msgs), res.status, res.info)));
                }
                if to_model && !args.oracle_only {
                    emit_case(&format!("old:{}:send_msg_chunks", p.name), &format!("(COldSent {} {} {})", coq_segs(&encs), coq_segs(&res.msgs), res.status));
                }
            }
        } else {
            // ---------------------------------------------------------- new stack
            let which = (i / 2) % 8;
            let msgs: Vec<AnyMessage> = (0..k).map(|j| n_msg(&mut rng, which, if sz == Size::Large && j > 0 { Size::Small } else { sz })).collect();
            let chan = msgs[0].channel();
            let mut encs: Vec<Vec<u8>> = Vec::new();
            let mut keep: Vec<AnyMessage> = Vec::new();
            for m in msgs {
                let enc = m.payload();
                let mut b = enc.clone();
                let back = match guard_total(|| AnyMessage::from_payload(chan, &mut b)) { Out::Ok(Some(x)) => x, _ => { skipped_codec += 1; continue; } };
                if !b.is_empty() || back.payload() != enc { skipped_codec += 1; continue; }
                encs.push(enc);
                keep.push(m);
            }
            let stream: Vec<u8> = encs.concat();
            let to_model = encs.iter().all(|e| single_item(e));
            if !to_model { not_single += 1; }
            let raw = if rng.bool() { chan } else { chan | 0x8000 };
            let name = NEW_NAMES[which];
            if i < 6 { emit_sample(&format!("new:{} msgs={}", name, hexs(&encs))); }
            let expected: Vec<(u16, Vec<u8>)> = encs.iter().map(|e| (chan, e.clone())).collect();
            let mut check = |segs: &[(u16, Vec<u8>)], res: &NewRes, how: &str| -> bool {
                let got: Vec<Vec<u8>> = res.out.iter().map(|(_, b)| b.clone()).collect();
                let mut kind = classify(&encs, &got, res.status);
                if kind.is_none() && res.out != expected { kind = Some("wrong-channel"); }
                if kind.is_none() && !res.fin.is_empty() { kind = Some("residue"); }
                match kind {
                    None => true,
                    Some(kind) => {
                        emit_oracle_fail(&format!("new:{}:{}", name, kind), &short(&format!(
                            "stack=new protocol={} raw_channel={} split={} segments(hex)=[{}] sent messages=[{}] delivered=[{}] left in partial_chunks=[{}] status={} {}",
                            name, raw, how, segs.iter().map(|(_, s)| hex(s)).collect::<Vec<_>>().join(","), hexs(&encs), hexs(&got),
                            res.fin.iter().map(|(c, b)| format!("{}:{}", c, hex(b))).collect::<Vec<_>>().join(","), res.status, res.info)));
                        false
                    }
                }
            };
            let tagseg = |segs: Vec<Vec<u8>>| -> Vec<(u16, Vec<u8>)> { segs.into_iter().map(|s| (raw, s)).collect() };
            if stream.len() <= 64 {
                let mut all_ok = true;
                for pnt in 0..=stream.len() {
                    let segs = tagseg(cut(&stream, &[pnt]));
                    let res = run_new(&rt, &segs).unwrap_or_else(|e| tool_fail(e));
                    runs += 1;
                    if !check(&segs, &res, &format!("2-way@{}", pnt)) {
                        all_ok = false;
                        if to_model && !args.oracle_only {
                            emit_case(&format!("new:{}:split-fail", name), &format!("(CNew {} {} {} {})", coq_tagged(&segs), coq_tagged(&res.out), coq_tagged(&res.fin), res.status));
                        }
                    }
                }
                if all_ok && to_model && !args.oracle_only {
                    emit_case(&format!("new:{}:all-2way-splits", name), &format!("(CNewSplits {} {} {})", raw, cb(&stream), coq_segs(&encs)));
                }
            }
            let mut plans: Vec<(String, Vec<Vec<u8>>)> = Vec::new();
            if stream.len() <= 600 { plans.push(("1-byte".into(), stream.iter().map(|b| vec![*b]).collect())); }
            plans.push(("whole".into(), cut(&stream, &[])));
            let nr = if stream.len() <= 64 { 2 } else if sz == Size::Large { 2 } else { 6 };
            for _ in 0..nr { let cuts = random_cuts(&mut rng, stream.len()); plans.push((format!("cuts{:?}", cuts), cut(&stream, &cuts))); }
            for (how, segs) in plans {
                let segs = tagseg(segs);
                let res = run_new(&rt, &segs).unwrap_or_else(|e| tool_fail(e));
                runs += 1;
                check(&segs, &res, &how);
                if to_model && !args.oracle_only {
                    let tag = if how.starts_with("cuts") { "random-cuts" } else { how.as_str() };
                    emit_case(&format!("new:{}:{}", name, tag), &format!("(CNew {} {} {} {})", coq_tagged(&segs), coq_tagged(&res.out), coq_tagged(&res.fin), res.status));
                }
            }
            // two channels interleaved (+ an unsupported channel and a truncated tail): per-channel buffers
            if sz != Size::Large && rng.chance(1, 2) {
                let which2 = (which + 1 + rng.below(7) as usize) % 8;
                let m2: Vec<AnyMessage> = (0..rng.range(1, 3)).map(|_| n_msg(&mut rng, which2, Size::Small)).collect();
                let chan2 = m2[0].channel();
                let mut encs2 = Vec::new();
                for m in &m2 {
                    let enc = m.payload();
                    let mut b = enc.clone();
                    match guard_total(|| AnyMessage::from_payload(chan2, &mut b)) { Out::Ok(Some(x)) if b.is_empty() && x.payload() == enc => encs2.push(enc), _ => { skipped_codec += 1; } }
                }
                let stream2: Vec<u8> = encs2.concat();
                let s1 = cut(&stream, &random_cuts(&mut rng, stream.len()));
                let s2 = cut(&stream2, &random_cuts(&mut rng, stream2.len()));
                let junk: Vec<(u16, Vec<u8>)> = if rng.bool() { vec![(*rng.pick(&[1u16, 5, 7, 0x8009, 77]), rng.bytes(5))] } else { vec![] };
                let (mut i1, mut i2, mut ij) = (0, 0, 0);
                let mut segs: Vec<(u16, Vec<u8>)> = Vec::new();
                while i1 < s1.len() || i2 < s2.len() || ij < junk.len() {
                    match rng.below(3) {
                        0 if i1 < s1.len() => { segs.push((raw, s1[i1].clone())); i1 += 1; }
                        1 if i2 < s2.len() => { segs.push((chan2 | if rng.bool() { 0x8000 } else { 0 }, s2[i2].clone())); i2 += 1; }
                        2 if ij < junk.len() => { segs.push(junk[ij].clone()); ij += 1; }
                        _ => {}
                    }
                }
                let res = run_new(&rt, &segs).unwrap_or_else(|e| tool_fail(e));
                runs += 1;
                let got1: Vec<Vec<u8>> = res.out.iter().filter(|(c, _)| *c == chan).map(|(_, b)| b.clone()).collect();
                let got2: Vec<Vec<u8>> = res.out.iter().filter(|(c, _)| *c == chan2).map(|(_, b)| b.clone()).collect();
                let others = res.out.iter().filter(|(c, _)| *c != chan && *c != chan2).count();
                if res.status != 0 || got1 != encs || got2 != encs2 || others != 0 || !res.fin.is_empty() {
                    emit_oracle_fail(&format!("new:{}+{}:interleaved", name, NEW_NAMES[which2]), &short(&format!(
                        "stack=new two channels interleaved segments=[{}] sent ch{}=[{}] ch{}=[{}] delivered=[{}] left=[{}] status={} {}",
                        segs.iter().map(|(c, s)| format!("{}:{}", c, hex(s))).collect::<Vec<_>>().join(","), chan, hexs(&encs), chan2, hexs(&encs2),
                        res.out.iter().map(|(c, s)| format!("{}:{}", c, hex(s))).collect::<Vec<_>>().join(","),
                        res.fin.iter().map(|(c, b)| format!("{}:{}", c, hex(b))).collect::<Vec<_>>().join(","), res.status, res.info)));
                }
                if to_model && encs2.iter().all(|e| single_item(e)) && !args.oracle_only {
                    emit_case(&format!("new:{}:interleaved-channels", name), &format!("(CNew {} {} {} {})", coq_tagged(&segs), coq_tagged(&res.out), coq_tagged(&res.fin), res.status));
                }
            }
            // truncated stream: model tie only
            if to_model && !args.oracle_only && stream.len() > 1 && rng.chance(1, 2) {
                let cutlen = rng.range(1, stream.len() as u64 - 1) as usize;
                let mut segs = tagseg(cut(&stream[..cutlen], &random_cuts(&mut rng, cutlen)));
                let res = run_new(&rt, &segs).unwrap_or_else(|e| tool_fail(e));
                runs += 1;
                emit_case(&format!("trivial-new:{}:truncated", name), &format!("(CNew {} {} {} {})", coq_tagged(&segs), coq_tagged(&res.out), coq_tagged(&res.fin), res.status));
            }
            // streams that end exactly at the end of a full 65535-byte segment (both mode bits); nothing follows
            if i % 16 == 3 {
                let fw = *rng.pick(&[2usize, 4, 5, 7]);
                let fchan = n_msg(&mut rng, fw, Size::Small).channel();
                let filler = |len: usize, fill: u8| -> Vec<u8> { n_filler(fw, vec![fill; len]).payload() };
                let mut small = |rng: &mut Rng| Some(n_msg(rng, fw, Size::Small).payload());
                for (how, ms, segs) in full_segment_streams(&mut rng, &mut small, &filler) {
                    for mode in [0u16, 0x8000] {
                        let tsegs: Vec<(u16, Vec<u8>)> = segs.iter().map(|s| (fchan | mode, s.clone())).collect();
                        let res = run_new(&rt, &tsegs).unwrap_or_else(|e| tool_fail(e));
                        runs += 1;
                        let got: Vec<Vec<u8>> = res.out.iter().map(|(_, b)| b.clone()).collect();
                        let mut kind = classify(&ms, &got, res.status);
                        if kind.is_none() && !res.fin.is_empty() { kind = Some("residue"); }
                        if let Some(kind) = kind {
                            emit_oracle_fail(&format!("new:{}:full-last-segment:{}", NEW_NAMES[fw], kind), &short(&format!(
                                "stack=new protocol={} raw_channel={} {}: segment lengths {:?}, the last one is full and ends on a message boundary, nothing sent after it; sent message lengths {:?}; delivered message lengths {:?}; left in partial_chunks {:?} status={} {}",
                                NEW_NAMES[fw], fchan | mode, how, segs.iter().map(|s| s.len()).collect::<Vec<_>>(), ms.iter().map(|m| m.len()).collect::<Vec<_>>(),
                                got.iter().map(|m| m.len()).collect::<Vec<_>>(), res.fin.iter().map(|(c, b)| (*c, b.len())).collect::<Vec<_>>(), res.status, res.info)));
                        }
                        if ms.iter().all(|e| single_item(e)) && !args.oracle_only {
                            emit_case(&format!("new:{}:full-last-segment", NEW_NAMES[fw]), &format!("(CNew {} {} {} {})", coq_tagged(&tsegs), coq_tagged(&res.out), coq_tagged(&res.fin), res.status));
                        }
                    }
                }
            }
            // the real sender (write_message / into_chunks)
            if i % 6 == 1 || sz == Size::Large {
                let mode = raw & 0x8000;
                let res = run_new_sent(&rt, keep.clone(), mode).unwrap_or_else(|e| tool_fail(e));
                runs += 1;
                let got: Vec<Vec<u8>> = res.out.iter().map(|(_, b)| b.clone()).collect();
                let mut kind = classify(&encs, &got, res.status);
                if kind.is_none() && !res.fin.is_empty() { kind = Some("residue"); }
                if let Some(kind) = kind {
                    emit_oracle_fail(&format!("new:{}:sent:{}", name, kind), &short(&format!(
                        "stack=new protocol={} write_message of messages=[{}] delivered=[{}] left=[{}] status={} {}", name, hexs(&encs), hexs(&got),
                        res.fin.iter().map(|(c, b)| format!("{}:{}", c, hex(b))).collect::<Vec<_>>().join(","), res.status, res.info)));
                }
                if to_model && !args.oracle_only {
                    emit_case(&format!("new:{}:write_message", name), &format!("(CNewSent {} {} {} {} {})", chan | mode, coq_segs(&encs), coq_tagged(&res.out), coq_tagged(&res.fin), res.status));
                }
            }
        }
    }
    emit_stat("socket_runs_oracle", runs);
    emit_stat("messages_skipped_not_roundtrip", skipped_codec);
    emit_stat("sequences_not_single_cbor_item_oracle_only", not_single);
}
