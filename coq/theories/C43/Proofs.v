(* C43 proofs: the (repaired) readers never panic, the fuel of the model's loops is
   always sufficient, and the blocks a chunk reader yields are disjoint, ordered
   spans inside the chunk file. *)
From PV Require Import Lib.Base Immutable.ChunkList C43.Model.
Open Scope Z_scope.

Definition len (l : list Z) : Z := Z.of_nat (length l).

Ltac splits := repeat match goal with |- _ /\ _ => split end.

(* ------------------------------------------------------------------ primary *)

Definition next_slot (s : pstate) : Z := match p_last_slot s with Some x => x + 1 | None => 0 end.

(* While both offsets are present, 4 bytes per slot already handed out plus the
   9-byte prefix plus what is still unread fit in the file (of length L). *)
Definition pinv (L : Z) (s : pstate) : Prop :=
  0 <= next_slot s /\
  match p_last s, p_nxt s with
  | Some _, Some _ => 4 * next_slot s + 9 + len (p_rest s) <= L
  | _, _ => True
  end.

(* potential: bounds the number of further entries *)
Definition phi_p (s : pstate) : nat :=
  match p_last s, p_nxt s with
  | Some _, Some _ => S (length (p_rest s))
  | _, _ => O
  end.

Lemma read_offset_cases rest :
  (exists v r, read_offset rest = (Some v, r) /\ length rest = (4 + length r)%nat) \/
  read_offset rest = (None, []).
Proof.
  destruct rest as [|a [|b [|c [|d r]]]]; cbn [read_offset]; try (right; reflexivity).
  left. exists (be32 a b c d), r. split; [reflexivity | cbn [length]; lia].
Qed.

Lemma p_open_ok data :
  match p_open data with
  | Ok s => pinv (len data) s /\ (phi_p s <= length data)%nat
  | Err e => e = E_VERSION /\ data = []
  | Panic _ => False
  end.
Proof.
  unfold p_open. destruct data as [|v r]; [split; reflexivity|].
  destruct (read_offset_cases r) as [(v1 & r1 & E1 & L1)|E1]; rewrite E1.
  - destruct (read_offset_cases r1) as [(v2 & r2 & E2 & L2)|E2]; rewrite E2.
    + unfold pinv, phi_p, next_slot, len. cbn [p_last p_nxt p_rest p_last_slot length]. lia.
    + unfold pinv, phi_p, next_slot. cbn [p_last p_nxt p_rest p_last_slot]. lia.
  - cbn [read_offset]. unfold pinv, phi_p, next_slot. cbn [p_last p_nxt p_rest p_last_slot]. lia.
Qed.

Section WithProfile.
Variable ovf : bool.
Variable L : Z.
Hypothesis HL : ovf = true -> L < 17179869184.   (* 2^34 *)

Definition pgood (s : pstate) : Prop := ovf = true -> pinv L s.

Definition entry_occ (e : option pentry) : Prop :=
  match e with Some (PEmpty _) => False | _ => True end.

Lemma pgood_clear s : pgood s -> pgood (p_clear s).
Proof.
  intros G Ho. destruct (G Ho) as [H0 _]. unfold pinv, p_clear, next_slot in *.
  cbn [p_last p_nxt p_last_slot]. split; [exact H0 | exact I].
Qed.

Lemma p_next_ok s : pgood s ->
  exists r s', p_next ovf s = Ok (r, s') /\ pgood s' /\
    (phi_p s' <= phi_p s)%nat /\ (r <> None -> (phi_p s' < phi_p s)%nat).
Proof.
  intros G. unfold p_next, phi_p.
  destruct (p_last s) as [last|] eqn:El.
  2:{ exists None, (p_clear s). split; [reflexivity|]. split; [apply pgood_clear, G|].
      unfold p_clear; cbn [p_last p_nxt]. split; [lia | congruence]. }
  destruct (p_nxt s) as [next|] eqn:En.
  2:{ exists None, (p_clear s). split; [reflexivity|]. split; [apply pgood_clear, G|].
      unfold p_clear; cbn [p_last p_nxt]. split; [lia | congruence]. }
  fold (next_slot s).
  assert (Hno : (ovf && (U32_MAX <? next_slot s)) = false).
  { assert (Hb : ovf = true \/ ovf = false) by (destruct ovf; auto).
    destruct Hb as [Ho|Ho]; rewrite Ho; [|reflexivity]. cbn [andb].
    destruct (G Ho) as [H0 H1]. rewrite El, En in H1. specialize (HL Ho).
    unfold U32_MAX, len in *. lia. }
  rewrite Hno.
  set (slot := next_slot s mod 4294967296).
  assert (Hslot : ovf = true -> slot = next_slot s).
  { intros Ho. destruct (G Ho) as [H0 H1]. rewrite El, En in H1. specialize (HL Ho).
    unfold slot, len in *. rewrite Z.mod_small; lia. }
  destruct (read_offset_cases (p_rest s)) as [(v & r & E & Lr)|E]; rewrite E.
  - eexists _, _. split; [reflexivity|]. cbn [p_last p_nxt p_rest]. split; [|split; [lia | intros _; lia]].
    intros Ho. destruct (G Ho) as [H0 H1]. rewrite El, En in H1.
    unfold pinv, next_slot. cbn [p_last p_nxt p_rest p_last_slot].
    rewrite (Hslot Ho). unfold len in *. lia.
  - eexists _, _. split; [reflexivity|]. cbn [p_last p_nxt p_rest]. split; [|split; [lia | intros _; lia]].
    intros Ho. destruct (G Ho) as [H0 H1].
    unfold pinv, next_slot. cbn [p_last p_nxt p_rest p_last_slot].
    rewrite (Hslot Ho). split; [lia | exact I].
Qed.

Lemma p_loop_ok fuel : forall s, pgood s -> (phi_p s < length fuel)%nat ->
  exists r s', p_next_occupied_loop ovf fuel s = Ok (r, s') /\ pgood s' /\ entry_occ r /\
    (phi_p s' <= phi_p s)%nat /\ (r <> None -> (phi_p s' < phi_p s)%nat).
Proof.
  induction fuel as [|x f IH]; intros s G Hf; [cbn [length] in Hf; lia|].
  cbn [p_next_occupied_loop].
  destruct (p_next_ok s G) as (r & s' & E & G' & Hle & Hlt). rewrite E.
  destruct r as [[slot|slot off]|].
  - assert (Hs : (phi_p s' < phi_p s)%nat) by (apply Hlt; congruence).
    cbn [length] in Hf.
    destruct (IH s' G') as (r2 & s2 & E2 & G2 & O2 & Hle2 & Hlt2); [lia|].
    exists r2, s2. split; [exact E2|]. split; [exact G2|]. split; [exact O2|].
    split; [lia|]. intros Hr. specialize (Hlt2 Hr). lia.
  - exists (Some (POcc slot off)), s'. split; [reflexivity|]. split; [exact G'|]. split; [exact I|].
    split; [exact Hle | exact Hlt].
  - exists None, s'. split; [reflexivity|]. split; [exact G'|]. split; [exact I|].
    split; [exact Hle | exact Hlt].
Qed.

Lemma p_next_occupied_ok s : pgood s ->
  exists r s', p_next_occupied ovf s = Ok (r, s') /\ pgood s' /\ entry_occ r /\
    (phi_p s' <= phi_p s)%nat /\ (r <> None -> (phi_p s' < phi_p s)%nat).
Proof.
  intros G. apply p_loop_ok; [exact G|].
  unfold phi_p. cbn [length]. destruct (p_last s), (p_nxt s); lia.
Qed.

(* ---------------------------------------------------------------- secondary *)

Definition phi_s (s : sstate) : nat :=
  match s_cur s with None => O | Some _ => S (phi_p (s_idx s)) end.
Definition sgood (s : sstate) : Prop := pgood (s_idx s).

Definition sres_ok (r : option sres) : Prop :=
  match r with Some (SErr e) => e = E_INCONSISTENT | _ => True end.

Lemma s_next_ok s : sgood s ->
  exists r s', s_next ovf s = Ok (r, s') /\ sgood s' /\ sres_ok r /\
    (phi_s s' <= phi_s s)%nat /\ (r <> None -> (phi_s s' < phi_s s)%nat).
Proof.
  intros G. unfold s_next, phi_s.
  destruct (s_cur s) as [[slot|slot current]|] eqn:Ec.
  - exists None, (s_stop s). split; [reflexivity|]. split; [exact G|]. split; [exact I|].
    unfold s_stop; cbn [s_cur]. split; [lia | congruence].
  - destruct (current <? s_pos s) eqn:Ecmp.
    + eexists _, _. split; [reflexivity|]. unfold s_stop; cbn [s_cur s_idx sres_ok].
      split; [exact G|]. split; [reflexivity|]. split; [lia | intros _; lia].
    + destruct (split_n ENTRY_SIZE (skipz (current - s_pos s) (s_rest s))) as [[e rest2]|] eqn:Es.
      * destruct (p_next_occupied_ok (s_idx s) G) as (r & p' & E & G' & O' & Hle & Hlt).
        rewrite E. cbn [bind]. eexists _, _. split; [reflexivity|]. cbn [s_cur s_idx sres_ok].
        split; [exact G'|]. split; [exact I|]. split.
        -- destruct r; lia.
        -- intros _. destruct r as [e0|]; [assert (phi_p p' < phi_p (s_idx s))%nat by (apply Hlt; congruence)|]; lia.
      * eexists _, _. split; [reflexivity|]. cbn [s_cur s_idx sres_ok].
        split; [exact G|]. split; [reflexivity|]. split; [lia | intros _; lia].
  - exists None, s. split; [reflexivity|]. split; [exact G|]. split; [exact I|].
    rewrite Ec. split; [lia | congruence].
Qed.

Lemma s_open_ok p sec : pgood p ->
  exists s, s_open ovf p sec = Ok s /\ sgood s /\ (phi_s s <= S (phi_p p))%nat.
Proof.
  intros G. unfold s_open.
  destruct (p_next_occupied_ok p G) as (r & p' & E & G' & O' & Hle & Hlt). rewrite E. cbn [bind].
  eexists. split; [reflexivity|]. split; [exact G'|]. unfold phi_s; cbn [s_cur s_idx]. destruct r; lia.
Qed.

(* -------------------------------------------------------------------- chunk *)

Definition phi_c (c : cstate) : nat :=
  match c_cur c with
  | None => O
  | Some _ => match c_nxt c with
              | Some (SOk _) => S (S (phi_s (c_idx c)))
              | _ => 1%nat
              end
  end.
Definition cgood (c : cstate) : Prop := sgood (c_idx c) /\ sres_ok (c_nxt c).

(* an item that is neither a panic nor the model's out-of-fuel marker *)
Definition item_fine (it : item) : Prop :=
  match it with Boom _ => False | Bad e => e = E_INCONSISTENT \/ e = E_READ_BLOCK | Blk _ _ => True end.

Lemma read_middle_block_spec clen start no :
  0 <= start <= clen ->
  let '(it, pos') := read_middle_block clen start no in
  start <= pos' <= clen /\
  match it with
  | Blk s l => s = start /\ 0 <= l /\ pos' = s + l
  | Bad e => e = E_READ_BLOCK
  | Boom _ => False
  end.
Proof.
  intros H. unfold read_middle_block.
  destruct (no <? start) eqn:E1; [split; [lia|reflexivity]|].
  destruct (Z.min (no - start) (clen - start) <? no - start) eqn:E2.
  - split; [lia|reflexivity].
  - split; [lia|]. splits; lia.
Qed.

Definition cpos_ok (c : cstate) : Prop := 0 <= c_pos c <= c_len c.

(* what one produced item tells about the cursor *)
Definition item_span (c c' : cstate) (it : item) : Prop :=
  match it with
  | Blk s l => s = c_pos c /\ 0 <= l /\ c_pos c' = s + l
  | _ => True
  end.

Lemma c_next_ok c : cgood c -> cpos_ok c ->
  exists r c', c_next ovf c = Ok (r, c') /\ cgood c' /\ cpos_ok c' /\ c_len c' = c_len c /\
    c_pos c <= c_pos c' /\
    match r with
    | None => True
    | Some it => item_fine it /\ item_span c c' it /\ (phi_c c' < phi_c c)%nat
    end.
Proof.
  intros [G GN] P. unfold c_next, phi_c, cpos_ok, cgood in *.
  destruct (c_cur c) as [cur|] eqn:Ec.
  2:{ eexists None, _. split; [reflexivity|]. cbn [c_idx c_pos c_len c_nxt sres_ok].
      split; [split; [exact G | exact I]|]. split; [lia|]. split; [reflexivity|]. split; [lia | exact I]. }
  destruct (c_nxt c) as [[no|e]|] eqn:En.
  - pose proof (read_middle_block_spec (c_len c) (c_pos c) no P) as RM.
    destruct (read_middle_block (c_len c) (c_pos c) no) as [it pos'].
    destruct RM as [Hp Hit].
    destruct (s_next_ok (c_idx c) G) as (r & s' & E & G' & R' & Hle & Hlt). rewrite E. cbn [bind].
    eexists (Some it), _. split; [reflexivity|]. cbn [c_idx c_pos c_len c_cur c_nxt].
    split; [split; [exact G' | exact R']|]. split; [lia|]. split; [reflexivity|]. split; [lia|].
    split; [|split].
    + destruct it; cbn [item_fine]; try tauto.
    + destruct it; cbn [item_span c_pos]; try exact I. tauto.
    + destruct r as [[b|e]|]; try lia.
      assert (phi_s s' < phi_s (c_idx c))%nat by (apply Hlt; congruence). lia.
  - eexists (Some (Bad e)), _. split; [reflexivity|]. cbn [c_idx c_pos c_len c_cur c_nxt sres_ok].
    split; [split; [exact G | exact I]|]. split; [lia|]. split; [reflexivity|]. split; [lia|].
    cbn [sres_ok] in GN. cbn [item_fine item_span]. split; [left; exact GN|]. split; [exact I | lia].
  - unfold read_last_block.
    eexists (Some _), _. split; [reflexivity|]. cbn [c_idx c_pos c_len c_cur c_nxt sres_ok].
    split; [split; [exact G | exact I]|]. split; [lia|]. split; [reflexivity|]. split; [lia|].
    cbn [item_fine item_span c_pos]. split; [exact I|]. split; [|lia]. split; [reflexivity|]. lia.
Qed.

Lemma c_open_ok s clen : sgood s ->
  exists c, c_open ovf s clen = Ok c /\ cgood c /\ c_pos c = 0 /\ c_len c = clen /\
    (phi_c c <= 2 + phi_s s)%nat.
Proof.
  intros G. unfold c_open.
  destruct (s_next_ok s G) as (r1 & s1 & E1 & G1 & R1 & Hle1 & _). rewrite E1. cbn [bind].
  destruct (s_next_ok s1 G1) as (r2 & s2 & E2 & G2 & R2 & Hle2 & _). rewrite E2. cbn [bind].
  eexists. split; [reflexivity|]. unfold cgood, phi_c. cbn [c_idx c_nxt c_cur c_pos c_len].
  split; [split; [exact G2 | exact R2]|]. split; [reflexivity|]. split; [reflexivity|].
  destruct r1; [|lia]. destruct r2 as [[b|e]|]; lia.
Qed.

(* blocks are ordered, disjoint spans inside [pos, clen] *)
Fixpoint spans_from (clen pos : Z) (its : list item) : Prop :=
  match its with
  | [] => True
  | Blk s l :: r => pos <= s /\ 0 <= l /\ s + l <= clen /\ spans_from clen (s + l) r
  | _ :: r => spans_from clen pos r
  end.

Lemma spans_from_mono clen its : forall p p', p' <= p -> spans_from clen p its -> spans_from clen p' its.
Proof.
  induction its as [|[s l|e|q] r IH]; intros p p' Hp H; cbn [spans_from] in *; try exact I.
  - destruct H as (H1 & H2 & H3 & H4). splits; try lia. exact H4.
  - apply (IH p p' Hp H).
  - apply (IH p p' Hp H).
Qed.

Lemma c_collect_ok fuel : forall c, cgood c -> cpos_ok c -> (phi_c c < length fuel)%nat ->
  Forall item_fine (c_collect ovf fuel c) /\ spans_from (c_len c) (c_pos c) (c_collect ovf fuel c).
Proof.
  induction fuel as [|x f IH]; intros c G P Hf; [cbn [length] in Hf; lia|].
  cbn [c_collect].
  destruct (c_next_ok c G P) as (r & c' & E & G' & P' & HL' & Hpos & Hr). rewrite E.
  destruct r as [it|]; [|split; [constructor | exact I]].
  destruct Hr as (Hfine & Hspan & Hphi). cbn [length] in Hf.
  destruct (IH c' G' P') as [F S]; [lia|].
  split; [constructor; assumption|].
  rewrite HL' in S. unfold cpos_ok in P'. rewrite HL' in P'.
  destruct it as [s l|e|q]; cbn [spans_from item_span] in *.
  - destruct Hspan as (Hs & Hl & Hc). rewrite Hc in S, P'. splits; try lia. exact S.
  - apply (spans_from_mono _ _ _ _ Hpos S).
  - apply (spans_from_mono _ _ _ _ Hpos S).
Qed.

End WithProfile.

(* -------------------------------------------------- one chunk, any file sizes *)

Definition small_primary (ovf : bool) (f : cfiles) : Prop :=
  ovf = true -> len (f_primary f) < 17179869184.

Lemma chunk_ok ovf f : small_primary ovf f -> 0 <= f_chunk_len f ->
  match chunk_open ovf f with
  | Ok c => Forall item_fine (c_collect ovf (collect_fuel f) c) /\
            spans_from (f_chunk_len f) 0 (c_collect ovf (collect_fuel f) c)
  | Err e => e = E_VERSION /\ f_primary f = []
  | Panic _ => False
  end.
Proof.
  intros HS Hc. unfold chunk_open.
  pose proof (p_open_ok (f_primary f)) as HP.
  destruct (p_open (f_primary f)) as [p|e|q]; cbn [bind]; [|exact HP|exact HP].
  destruct HP as [Hinv Hphi].
  assert (G : pgood ovf (len (f_primary f)) p) by (intros _; exact Hinv).
  destruct (s_open_ok ovf _ HS p (f_secondary f) G) as (s & Es & Gs & Hs). rewrite Es. cbn [bind].
  destruct (c_open_ok ovf _ HS s (f_chunk_len f) Gs) as (c & Ec & Gc & Hp0 & Hlen & Hc').
  rewrite Ec.
  destruct (c_collect_ok ovf _ HS (collect_fuel f) c Gc) as [F S].
  - unfold cpos_ok. lia.
  - unfold collect_fuel. cbn [length]. lia.
  - split; [exact F|]. rewrite Hlen, Hp0 in S. exact S.
Qed.

(* ------------------------------------------------------------ whole results *)

Lemma fine_no_boom its : Forall item_fine its -> existsb is_boom its = false.
Proof.
  induction 1 as [|it r H _ IH]; [reflexivity|]. cbn [existsb]. rewrite IH.
  destruct it; cbn in *; try reflexivity. contradiction.
Qed.

Lemma fine_first_boom its : Forall item_fine its -> first_boom its = None.
Proof.
  unfold first_boom. induction 1 as [|it r H _ IH]; [reflexivity|]. cbn [find].
  destruct it; cbn [is_boom item_fine] in *; try exact IH. contradiction.
Qed.

Lemma fine_no_fuel its : Forall item_fine its -> ~ In (Bad E_FUEL) its.
Proof.
  intros F Hin. rewrite Forall_forall in F. specialize (F _ Hin). cbn in F.
  unfold E_FUEL, E_INCONSISTENT, E_READ_BLOCK in F. lia.
Qed.

Definition files_ok (ovf : bool) (f : cfiles) : Prop :=
  0 <= f_chunk_len f /\ (ovf = true -> Zlength (f_primary f) < 17179869184).

Lemma files_ok_small ovf f : files_ok ovf f -> small_primary ovf f /\ 0 <= f_chunk_len f.
Proof.
  intros [H1 H2]. split; [|exact H1]. intros Ho. specialize (H2 Ho).
  unfold len. rewrite <- Zlength_correct. exact H2.
Qed.

Lemma read_chunk_ok ovf f : files_ok ovf f ->
  match read_chunk ovf f with
  | Ok its => Forall item_fine its /\ spans_from (f_chunk_len f) 0 its
  | Err e => e = E_VERSION /\ f_primary f = []
  | Panic _ => False
  end.
Proof.
  intros H. destruct (files_ok_small _ _ H) as [HS Hc].
  pose proof (chunk_ok ovf f HS Hc) as C. unfold read_chunk.
  destruct (chunk_open ovf f) as [c|e|q] eqn:E; cbn [bind]; exact C.
Qed.

Lemma read_one_ok ovf f : files_ok ovf f ->
  match read_one ovf f with
  | Ok its => read_chunk ovf f = Ok its /\ Forall item_fine its /\ spans_from (f_chunk_len f) 0 its
  | Err e => e = E_VERSION /\ f_primary f = []
  | Panic _ => False
  end.
Proof.
  intros H. pose proof (read_chunk_ok ovf f H) as C. unfold read_one.
  destruct (read_chunk ovf f) as [its|e|q]; try exact C.
  destruct C as [F S]. rewrite (fine_first_boom _ F). split; [reflexivity|]. split; assumption.
Qed.

Lemma read_chunks_ok ovf l : Forall (files_ok ovf) l -> Forall item_fine (read_chunks ovf l).
Proof.
  induction 1 as [|f r H _ IH]; [constructor|]. cbn [read_chunks].
  destruct (files_ok_small _ _ H) as [HS Hc].
  pose proof (chunk_ok ovf f HS Hc) as C.
  destruct (chunk_open ovf f) as [c|e|q]; [|constructor|contradiction].
  destruct C as [F _]. rewrite (fine_no_boom _ F). apply Forall_app. split; assumption.
Qed.

Lemma lookup_ok ovf db n : Forall (fun e => files_ok ovf (snd e)) db -> files_ok ovf (lookup db n).
Proof.
  intros H. unfold lookup. destruct (find (fun e => fst e =? n) db) as [e|] eqn:E.
  - apply find_some in E. destruct E as [Hin _]. rewrite Forall_forall in H. apply (H _ Hin).
  - split; cbn; [lia | intros _; reflexivity].
Qed.

Lemma read_db_ok ovf db : Forall (fun e => files_ok ovf (snd e)) db -> Forall item_fine (read_db ovf db).
Proof.
  intros H. unfold read_db. apply read_chunks_ok. apply Forall_forall. intros f Hin.
  apply in_map_iff in Hin. destruct Hin as (n & <- & _). apply lookup_ok, H.
Qed.

Lemma read_total ovf db : Forall (fun e => files_ok ovf (snd e)) db -> read ovf db = Ok (read_db ovf db).
Proof.
  intros H. unfold read. rewrite (fine_first_boom _ (read_db_ok ovf db H)). reflexivity.
Qed.

(* ------------------------------------------------------------------ history *)
(* The two subtractions as they were before the repair (`current as u64 - start`,
   `next_offset - start`, both u64) and the allocation `vec![0u8; delta as usize]`:
   kept as a record of the defect the check reproduced (replay corpus/C43). *)
Definition old_sub (ovf : bool) (a b : Z) : outcome Z :=
  if a <? b then (if ovf then Panic P_SUB else Ok (18446744073709551616 + a - b)) else Ok (a - b).
Definition old_alloc (delta : Z) : outcome Z :=
  if 9223372036854775807 <? delta then Panic P_CAP else Ok delta.
Lemma old_sub_refuted : old_sub true 10 56 = Panic P_SUB /\
  bind (old_sub false 3 5) old_alloc = Panic P_CAP.
Proof. split; vm_compute; reflexivity. Qed.
