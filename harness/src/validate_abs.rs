//! Abstraction of a materialised scenario into the Coq terms of PV.C33.Model (shared by c33 / c38):
//! `tx`, `utxo`, `env`.  Everything the model treats as external data (hashes, address parsing,
//! signature bits, CBOR sizes, expected integrity hashes, certificate outcome) is computed here
//! with the same public functions the validator calls.
#![allow(dead_code)]
use super::vfx::AnyTx;
use super::vo::{Obs, Oc};
use pallas_addresses::byron::{AddrType, AddressPayload, ByronAddress, SpendingData};
use pallas_addresses::{Address, ShelleyPaymentPart};
use pallas_codec::minicbor;
use pallas_crypto::hash::Hasher;
use pallas_crypto::key::ed25519::{PublicKey, Signature};
use pallas_primitives::{alonzo, babbage, byron, conway};
use pallas_traverse::{Era, MultiEraOutput, MultiEraTx, OriginalHash};
use pallas_validate::phase1 as p1;
use pallas_validate::utils::{
    aux_data_from_alonzo_tx, aux_data_from_babbage_tx, aux_data_from_conway_tx, compute_native_script_hash,
    compute_plutus_v1_script_hash, compute_plutus_v2_script_hash, compute_plutus_v3_script_hash,
    conway_get_val_size_in_words, get_shelley_address, get_val_size_in_words, is_byron_address, Environment,
    MultiEraProtocolParameters as PP, UTxOs,
};
use verif_harness::{coq_bool, coq_list, coq_opt, guard_total, Out};

pub fn zh(b: &[u8]) -> String { if b.is_empty() { "0".into() } else { format!("0x{}", verif_harness::hex(b)) } }
/// asset names have variable length: prefix a 01 byte so that the integer is injective
pub fn zname(b: &[u8]) -> String { let mut v = vec![1u8]; v.extend_from_slice(b); zh(&v) }
fn z<T: std::fmt::Display>(v: T) -> String { verif_harness::coq_z(v) }

pub fn addr_term(bytes: &[u8]) -> String {
    // pallas-addresses directly (not the validator's get_shelley_address / is_byron_address wrappers)
    match Address::from_bytes(bytes) {
        Ok(Address::Shelley(sa)) => {
            let p = match sa.payment() { ShelleyPaymentPart::Key(h) => format!("(PKey {})", zh(h.as_ref())), ShelleyPaymentPart::Script(h) => format!("(PScript {})", zh(h.as_ref())) };
            format!("(AShelley {} {})", sa.network().value(), p)
        }
        Ok(Address::Byron(_)) => "AByron".into(),
        _ => "AOther".into(),
    }
}
fn assets_term<Q, F: Fn(&Q) -> String>(m: &std::collections::BTreeMap<pallas_primitives::PolicyId, std::collections::BTreeMap<pallas_primitives::AssetName, Q>>, f: F) -> String {
    let v: Vec<String> = m.iter().map(|(p, a)| format!("({},{})", zh(p.as_ref()), coq_list(&a.iter().collect::<Vec<_>>(), |(n, q)| format!("({},{})", zname(n.as_slice()), f(q))))).collect();
    format!("[{}]", v.join(";"))
}
pub fn value_term(v: &alonzo::Value) -> String {
    match v { alonzo::Value::Coin(c) => format!("(VCoin {})", c), alonzo::Value::Multiasset(c, m) => format!("(VMulti {} {})", c, assets_term(m, |q| q.to_string())) }
}
pub fn cvalue_term(v: &conway::Value) -> String {
    match v { conway::Value::Coin(c) => format!("(VCoin {})", c), conway::Value::Multiasset(c, m) => format!("(VMulti {} {})", c, assets_term(m, |q| u64::from(*q).to_string())) }
}
/// conway.rs: conversion of a Legacy-format output value (zero quantities dropped, policies kept)
pub fn legacy_to_conway(v: &alonzo::Value) -> conway::Value {
    match v {
        alonzo::Value::Coin(c) => conway::Value::Coin(*c),
        alonzo::Value::Multiasset(c, m) => {
            let mut assets = Vec::new();
            for (k, val) in m.iter() {
                let mut cv = Vec::new();
                for (ik, iv) in val.iter() { if let Ok(p) = conway::PositiveCoin::try_from(*iv) { cv.push((ik.clone(), p)) } }
                assets.push((*k, cv.into_iter().collect()));
            }
            conway::Value::Multiasset(*c, assets.into_iter().collect())
        }
    }
}
fn datum_term(d: Option<conway::DatumOption>) -> &'static str { unreachable_datum(d.is_some()) }
fn unreachable_datum(_: bool) -> &'static str { "DNone" }
fn datum_of(o: &MultiEraOutput) -> String {
    match o.datum() { None => "DNone".into(), Some(conway::DatumOption::Hash(h)) => format!("(DHash {})", zh(h.as_ref())), Some(conway::DatumOption::Data(_)) => "DInline".into() }
}
fn h224(tag: u8, body: &[u8]) -> String { let mut v = vec![tag]; v.extend_from_slice(body); zh(Hasher::<224>::hash(&v).as_ref()) }
/// (kind, hash) of the script_ref of a PostAlonzo output, as get_script_hash_from_reference_input computes it
fn sref_of(o: &MultiEraOutput) -> Option<(u8, String)> {
    match o {
        MultiEraOutput::Babbage(x) => match &***x {
            babbage::TransactionOutput::PostAlonzo(out) => out.script_ref.as_ref().map(|w| match w.clone().unwrap() {
                babbage::ScriptRef::NativeScript(n) => (0, h224(0, n.raw_cbor())),
                babbage::ScriptRef::PlutusV1Script(s) => (1, h224(1, s.as_ref())),
                babbage::ScriptRef::PlutusV2Script(s) => (2, h224(2, s.as_ref())),
            }),
            _ => None,
        },
        MultiEraOutput::Conway(x) => match &***x {
            conway::TransactionOutput::PostAlonzo(out) => out.script_ref.as_ref().map(|w| match w.clone().unwrap() {
                conway::ScriptRef::NativeScript(n) => (0, h224(0, n.raw_cbor())),
                conway::ScriptRef::PlutusV1Script(s) => (1, h224(1, s.as_ref())),
                conway::ScriptRef::PlutusV2Script(s) => (2, h224(2, s.as_ref())),
                conway::ScriptRef::PlutusV3Script(s) => (3, h224(3, s.as_ref())),
            }),
            _ => None,
        },
        _ => None,
    }
}
/// (legacy, address bytes, value term, words as the validator of that output's era computes them)
fn out_parts(o: &MultiEraOutput, conway_tx: bool) -> (bool, Vec<u8>, String, u64) {
    match o {
        MultiEraOutput::AlonzoCompatible(x, _) => (true, x.address.to_vec(), value_term(&x.amount), get_val_size_in_words(&x.amount)),
        MultiEraOutput::Babbage(x) => match &***x {
            babbage::TransactionOutput::Legacy(l) => (true, l.address.to_vec(), value_term(&l.amount), get_val_size_in_words(&l.amount)),
            babbage::TransactionOutput::PostAlonzo(p) => (false, p.address.to_vec(), value_term(&p.value), get_val_size_in_words(&p.value)),
        },
        MultiEraOutput::Conway(x) => match &***x {
            conway::TransactionOutput::Legacy(l) => (true, l.address.to_vec(), value_term(&l.amount),
                if conway_tx { conway_get_val_size_in_words(&legacy_to_conway(&l.amount)) } else { get_val_size_in_words(&l.amount) }),
            conway::TransactionOutput::PostAlonzo(p) => (false, p.address.to_vec(), cvalue_term(&p.value), conway_get_val_size_in_words(&p.value)),
        },
        MultiEraOutput::Byron(x) => (true, vec![], format!("(VCoin {})", x.amount), 0),
        _ => (true, vec![], "(VCoin 0)".into(), 0),
    }
}
/// value size in words of every output, as the era validator measures it
pub fn output_words(metx: &MultiEraTx) -> Vec<u64> {
    let cw = matches!(metx, MultiEraTx::Conway(_));
    metx.outputs().iter().map(|o| out_parts(o, cw).3).collect()
}
pub fn tout_term(o: &MultiEraOutput, conway_tx: bool) -> String {
    let (legacy, addr, val, words) = out_parts(o, conway_tx);
    format!("(Build_tout {} {} {} {} {} {})", coq_bool(legacy), addr_term(&addr), val, words, datum_of(o), coq_bool(sref_of(o).is_some()))
}
fn byron_wit_parts(w: &byron::Twit) -> Option<(u8, &byron::PubKey, &byron::Signature)> {
    match w { byron::Twit::PkWitness(c) => Some((0, &c.0 .0, &c.0 .1)), byron::Twit::RedeemWitness(c) => Some((2, &c.0 .0, &c.0 .1)), _ => None }
}
pub fn uout_term(o: &MultiEraOutput, bwits: &[byron::Twit]) -> String {
    let (legacy, addr, val, _) = out_parts(o, false);
    let (era, ae) = match o {
        MultiEraOutput::Byron(_) => ("EByron", 0),
        MultiEraOutput::AlonzoCompatible(_, e) => ("EAlonzoC", match e { Era::Shelley => 1, Era::Allegra => 2, Era::Mary => 3, _ => 4 }),
        MultiEraOutput::Babbage(_) => ("EBabbage", 5),
        _ => ("EConway", 6),
    };
    let (mut btype, mut bmatch) = (0i64, vec![]);
    if let MultiEraOutput::Byron(x) = o {
        let a = ByronAddress::new(x.address.payload.0.as_slice(), x.address.crc);
        match a.decode() {
            Err(_) => btype = 4,
            Ok(p) => {
                btype = match p.addrtype { AddrType::PubKey => 0, AddrType::Script => 1, AddrType::Redeem => 2, _ => 3 };
                for w in bwits {
                    let m = match (byron_wit_parts(w), &p.addrtype) {
                        (Some((_, pk, _)), AddrType::PubKey) => AddressPayload::hash_address_id(&p.addrtype, &SpendingData::PubKey(pk.clone()), &p.attributes) == p.root,
                        (Some((_, pk, _)), AddrType::Redeem) => AddressPayload::hash_address_id(&p.addrtype, &SpendingData::Redeem(pk.clone()), &p.attributes) == p.root,
                        _ => false,
                    };
                    bmatch.push(m);
                }
            }
        }
    }
    let sref = sref_of(o).map(|(k, h)| format!("({},{})", k, h));
    format!("(Build_uout {} {} {} {} {} {} {} {} {})", era, ae, coq_bool(legacy), if matches!(o, MultiEraOutput::Byron(_)) { "AOther".to_string() } else { addr_term(&addr) },
            val, datum_of(o), coq_opt(&sref, |s| s.clone()), btype, coq_list(&bmatch, |b| coq_bool(*b).to_string()))
}
pub fn utxo_term(utxos: &UTxOs, bwits: &[byron::Twit]) -> String {
    let mut es: Vec<(bool, Vec<u8>, u64, String)> = utxos.iter().map(|(k, v)| (matches!(k, pallas_traverse::MultiEraInput::Byron(_)), k.hash().to_vec(), k.index(), uout_term(v, bwits))).collect();
    es.sort_by(|a, b| (&a.1, a.2, a.0).cmp(&(&b.1, b.2, b.0)));
    coq_list(&es, |(b, h, i, o)| format!("(({},{},{}),{})", coq_bool(*b), zh(h), i, o))
}
pub fn env_term(env: &Environment) -> String {
    let d = "0";
    let pp = match &env.prot_params {
        PP::Byron(p) => format!("(Build_params 0 0 0 {} 0 0 0 0 0 0 0 0 0 false false false {} {} 0 0)", p.max_tx_size, p.summand, p.multiplier),
        PP::Shelley(p) => format!("(Build_params 1 {} {} {} {} {} {} 0 0 0 0 0 0 false false false 0 0 {} {})", p.minfee_a, p.minfee_b, p.max_transaction_size, p.min_utxo_value, p.key_deposit, p.pool_deposit, p.min_pool_cost, p.maximum_epoch),
        PP::Alonzo(p) => format!("(Build_params 4 {} {} {} 0 {} {} {} {} {} {} {} {} false false false 0 0 0 0)", p.minfee_a, p.minfee_b, p.max_transaction_size, p.key_deposit, p.pool_deposit,
            p.ada_per_utxo_byte, p.max_value_size, p.collateral_percentage, p.max_collateral_inputs, p.max_tx_ex_units.mem, p.max_tx_ex_units.steps),
        PP::Babbage(p) => format!("(Build_params 5 {} {} {} 0 {} {} {} {} {} {} {} {} false false false 0 0 0 0)", p.minfee_a, p.minfee_b, p.max_transaction_size, p.key_deposit, p.pool_deposit,
            p.ada_per_utxo_byte, p.max_value_size, p.collateral_percentage, p.max_collateral_inputs, p.max_tx_ex_units.mem, p.max_tx_ex_units.steps),
        PP::Conway(p) => format!("(Build_params 6 {} {} {} 0 {} {} {} {} {} {} {} {} {} {} {} 0 0 0 0)", p.minfee_a, p.minfee_b, p.max_transaction_size, p.key_deposit, p.pool_deposit,
            p.ada_per_utxo_byte, p.max_value_size, p.collateral_percentage, p.max_collateral_inputs, p.max_tx_ex_units.mem, p.max_tx_ex_units.steps,
            coq_bool(p.cost_models_for_script_languages.plutus_v1.is_some()), coq_bool(p.cost_models_for_script_languages.plutus_v2.is_some()), coq_bool(p.cost_models_for_script_languages.plutus_v3.is_some())),
        _ => format!("(Build_params 9 {d} {d} {d} {d} {d} {d} {d} {d} {d} {d} {d} {d} false false false {d} {d} {d} {d})"),
    };
    format!("(Build_env {} {} {} {} {} {} {})", pp, env.prot_magic, env.block_slot, env.network_id, coq_bool(env.acnt.is_some()),
            env.acnt.as_ref().map(|a| a.treasury).unwrap_or(0), env.acnt.as_ref().map(|a| a.reserves).unwrap_or(0))
}
fn inref_list(l: &[pallas_traverse::MultiEraInput]) -> String { coq_list(l, |i| format!("({},{})", zh(i.hash().as_ref()), i.index())) }
fn ed_ok(vk: &[u8], sig: &[u8], msg: &[u8]) -> bool {
    if vk.len() != 32 || sig.len() != 64 { return false }
    let mut k = [0u8; 32]; k.copy_from_slice(vk); let mut s = [0u8; 64]; s.copy_from_slice(sig);
    PublicKey::from(k).verify(msg, &Signature::from(s))
}
/// expected script-integrity hashes (computed with the validator's own exported functions; a panic there yields none)
pub fn sdh_expected_of(tx: &AnyTx, utxos: &UTxOs, env: &Environment) -> Vec<Vec<u8>> {
    match tx {
        AnyTx::AC(t, Era::Alonzo) => match (&t.transaction_witness_set.plutus_data, &t.transaction_witness_set.redeemer) {
            (Some(pd), Some(rd)) => { let pd: Vec<alonzo::PlutusData> = pd.iter().map(|x| x.clone().unwrap()).collect();
                match guard_total(|| p1::alonzo::verif::compute_script_integrity_hash(&pd, rd)) { Out::Ok(h) => vec![h.to_vec()], _ => vec![] } }
            _ => vec![] },
        AnyTx::Babbage(t) => match (&t.transaction_witness_set.plutus_data, &t.transaction_witness_set.redeemer) {
            (Some(pd), Some(rd)) => { let pd: Vec<alonzo::PlutusData> = pd.iter().map(|x| x.clone().unwrap()).collect();
                match guard_total(|| { let langs = p1::babbage::verif::tx_languages(t, utxos);
                    p1::babbage::verif::compute_script_integrity_hash(&langs, &pd, rd, &env.prot_magic, &env.network_id, &env.block_slot) }) { Out::Ok((a, b)) => vec![a.to_vec(), b.to_vec()], _ => vec![] } }
            _ => vec![] },
        AnyTx::Conway(t) => match &env.prot_params {
            PP::Conway(pp) => match guard_total(|| { let langs = p1::conway::verif::tx_languages(t, utxos);
                    let lv = p1::conway::verif::cost_model_for_tx(&langs, pp)?;
                    Some(conway::ScriptData::build_for(&t.transaction_witness_set, &Some(lv))?.hash()) }) { Out::Ok(Some(h)) => vec![h.to_vec()], _ => vec![] },
            _ => vec![] },
        _ => vec![],
    }
}
struct Flags { coll: bool, refs: bool, vk: bool, nat: bool, v1: bool, v2: bool, v3: bool, dat: bool, red: bool, reqs: bool, mint: bool }

pub fn tx_term(tx: &AnyTx, metx: &MultiEraTx, utxos: &UTxOs, env: &Environment, obs: &Obs, cs: &pallas_validate::utils::CertState, counts: Option<(u64, u64, u64)>) -> String {
    let none = "None".to_string();
    if let AnyTx::Byron(p) = tx {
        let t = &p.transaction;
        let ins: Vec<String> = t.inputs.iter().filter_map(|i| match i { byron::TxIn::Variant0(w) => Some(format!("({},{})", zh(w.0 .0.as_ref()), w.0 .1)), _ => None }).collect();
        let tx_hash = t.original_hash();
        let wits: Vec<String> = p.witness.iter().map(|w| match byron_wit_parts(w) {
            Some((kind, pk, sg)) => {
                let mut data: Vec<u8> = Vec::new();
                { let mut e = minicbor::Encoder::new(&mut data); let _ = e.encode(if kind == 0 { 1u64 } else { 2u64 }); let _ = e.encode(env.prot_magic); let _ = e.encode(tx_hash); }
                let vok = pk.len() >= 32 && ed_ok(&pk.as_slice()[0..32], sg.as_slice(), &data);
                format!("({},{},{},{})", kind, pk.len(), sg.len(), coq_bool(vok))
            }
            None => "(1,0,0,false)".into(),
        }).collect();
        return format!("(Build_tx 0 {} [{}] [] 0 None None None None None None None None None None None [] None None None None None None None None None None (Build_cstate [] [] [] [] [] [] []) None {} [{}])",
            obs.size, ins.join(";"), coq_list(&t.outputs.iter().collect::<Vec<_>>(), |o| o.amount.to_string()), wits.join(";"));
    }
    let (era, conway_tx) = match tx { AnyTx::AC(_, Era::Shelley) => (1, false), AnyTx::AC(_, Era::Allegra) => (2, false), AnyTx::AC(_, Era::Mary) => (3, false), AnyTx::AC(..) => (4, false), AnyTx::Babbage(_) => (5, false), _ => (6, true) };
    macro_rules! flags_ab { ($t:expr, $v1:ident, $v2:expr, $refs:expr) => {{ let b = &$t.transaction_body; let w = &$t.transaction_witness_set;
        Flags { coll: b.collateral.is_some(), refs: $refs, vk: w.vkeywitness.is_some(), nat: w.native_script.is_some(), v1: w.$v1.is_some(), v2: $v2, v3: false,
                dat: w.plutus_data.is_some(), red: w.redeemer.is_some(), reqs: b.required_signers.is_some(), mint: b.mint.is_some() } }} }
    let f = match tx {
        AnyTx::AC(t, _) => flags_ab!(t, plutus_script, false, false),
        AnyTx::Babbage(t) => flags_ab!(t, plutus_v1_script, t.transaction_witness_set.plutus_v2_script.is_some(), t.transaction_body.reference_inputs.is_some()),
        AnyTx::Conway(t) => { let b = &t.transaction_body; let w = &t.transaction_witness_set;
            Flags { coll: b.collateral.is_some(), refs: b.reference_inputs.is_some(), vk: w.vkeywitness.is_some(), nat: w.native_script.is_some(), v1: w.plutus_v1_script.is_some(),
                    v2: w.plutus_v2_script.is_some(), v3: w.plutus_v3_script.is_some(), dat: w.plutus_data.is_some(), red: w.redeemer.is_some(), reqs: b.required_signers.is_some(), mint: b.mint.is_some() } }
        _ => unreachable!(),
    };
    let opt = |flag: bool, s: String| if flag { format!("(Some {})", s) } else { none.clone() };
    let body_hash = metx.hash();
    // mint
    let mint = match tx {
        AnyTx::AC(t, _) => t.transaction_body.mint.as_ref().map(|m| assets_term(m, |q| z(*q))),
        AnyTx::Babbage(t) => t.transaction_body.mint.as_ref().map(|m| assets_term(m, |q| z(*q))),
        AnyTx::Conway(t) => t.transaction_body.mint.as_ref().map(|m| assets_term(m, |q| z(i64::from(q)))),
        _ => None,
    };
    let (aux_hash, sdh, aux_raw): (Option<Vec<u8>>, Option<Vec<u8>>, Option<Vec<u8>>) = match tx {
        AnyTx::AC(t, _) => (t.transaction_body.auxiliary_data_hash.as_ref().map(|h| h.to_vec()), t.transaction_body.script_data_hash.map(|h| h.to_vec()), aux_data_from_alonzo_tx(t).map(|x| x.to_vec())),
        AnyTx::Babbage(t) => (t.transaction_body.auxiliary_data_hash.as_ref().map(|h| h.to_vec()), t.transaction_body.script_data_hash.map(|h| h.to_vec()), aux_data_from_babbage_tx(t).map(|x| x.to_vec())),
        AnyTx::Conway(t) => (t.transaction_body.auxiliary_data_hash.as_ref().map(|h| h.to_vec()), t.transaction_body.script_data_hash.map(|h| h.to_vec()), aux_data_from_conway_tx(t).map(|x| x.to_vec())),
        _ => (None, None, None),
    };
    let aux_actual = aux_raw.map(|a| Hasher::<256>::hash(&a).to_vec());
    let sdh_expected: Vec<Vec<u8>> = sdh_expected_of(tx, utxos, env);
    let _unused: Vec<Vec<u8>> = match tx { _ if true => vec![],
        AnyTx::AC(t, Era::Alonzo) => match (&t.transaction_witness_set.plutus_data, &t.transaction_witness_set.redeemer) {
            (Some(pd), Some(rd)) => { let pd: Vec<alonzo::PlutusData> = pd.iter().map(|x| x.clone().unwrap()).collect();
                match guard_total(|| p1::alonzo::verif::compute_script_integrity_hash(&pd, rd)) { Out::Ok(h) => vec![h.to_vec()], _ => vec![] } }
            _ => vec![] },
        AnyTx::Babbage(t) => match (&t.transaction_witness_set.plutus_data, &t.transaction_witness_set.redeemer) {
            (Some(pd), Some(rd)) => { let pd: Vec<alonzo::PlutusData> = pd.iter().map(|x| x.clone().unwrap()).collect();
                match guard_total(|| { let langs = p1::babbage::verif::tx_languages(t, utxos);
                    p1::babbage::verif::compute_script_integrity_hash(&langs, &pd, rd, &env.prot_magic, &env.network_id, &env.block_slot) }) { Out::Ok((a, b)) => vec![a.to_vec(), b.to_vec()], _ => vec![] } }
            _ => vec![] },
        AnyTx::Conway(t) => match &env.prot_params {
            PP::Conway(pp) => match guard_total(|| { let langs = p1::conway::verif::tx_languages(t, utxos);
                    let lv = p1::conway::verif::cost_model_for_tx(&langs, pp)?;
                    Some(conway::ScriptData::build_for(&t.transaction_witness_set, &Some(lv))?.hash()) }) { Out::Ok(Some(h)) => vec![h.to_vec()], _ => vec![] },
            _ => vec![] },
        _ => vec![],
    };
    let reqs: Vec<Vec<u8>> = match tx {
        AnyTx::AC(t, _) => t.transaction_body.required_signers.iter().flatten().map(|h| h.to_vec()).collect(),
        AnyTx::Babbage(t) => t.transaction_body.required_signers.iter().flatten().map(|h| h.to_vec()).collect(),
        AnyTx::Conway(t) => t.transaction_body.required_signers.iter().flat_map(|s| s.iter()).map(|h| h.to_vec()).collect(),
        _ => vec![],
    };
    let netid: Option<u8> = metx.network_id().map(u8::from);
    let wdls: Option<String> = match tx {
        AnyTx::Conway(t) => t.transaction_body.withdrawals.as_ref().map(|w| {
            let v: Vec<String> = w.keys().map(|k| match Address::from_bytes(k) {
                Ok(Address::Stake(a)) => { let n = match a.network() { pallas_addresses::Network::Testnet => 0, pallas_addresses::Network::Mainnet => 1, pallas_addresses::Network::Other(t) => t };
                    format!("(WStake {} {} {})", n, coq_bool(a.is_script()), zh(a.payload().as_hash().as_ref())) }
                _ => "WBad".into() }).collect();
            format!("[{}]", v.join(";")) }),
        _ => None,
    };
    // witnesses
    let vkeys: Vec<String> = metx.vkey_witnesses().iter().map(|w| format!("(Build_vkw {} {} {} {})", w.vkey.len(), w.signature.len(),
        zh(Hasher::<224>::hash(&w.vkey.clone()).as_ref()), coq_bool(ed_ok(&w.vkey, &w.signature, body_hash.as_ref())))).collect();
    let vk_vec: Vec<alonzo::VKeyWitness> = metx.vkey_witnesses().to_vec();
    let (low, upp) = (metx.validity_start(), metx.ttl());
    let mut payload: Vec<u8> = vec![0u8];
    let native: Vec<String> = metx.native_scripts().iter().map(|s| {
        let ns: alonzo::NativeScript = (**s).clone();
        let _ = minicbor::encode(&ns, &mut payload);
        let cum = Hasher::<224>::hash(&payload);
        let ev = if era <= 3 { matches!(guard_total(|| p1::shelley_ma::verif::check_native_scripts(&vk_vec, &vec![ns.clone()], &low, &upp)), Out::Ok(Ok(()))) } else { true };
        format!("(Build_nsw {} {} {})", zh(compute_native_script_hash(&ns).as_ref()), zh(cum.as_ref()), coq_bool(ev))
    }).collect();
    let v1: Vec<String> = metx.plutus_v1_scripts().iter().map(|s| zh(compute_plutus_v1_script_hash(s).as_ref())).collect();
    let v2: Vec<String> = metx.plutus_v2_scripts().iter().map(|s| zh(compute_plutus_v2_script_hash(s).as_ref())).collect();
    let v3: Vec<String> = metx.plutus_v3_scripts().iter().map(|s| zh(compute_plutus_v3_script_hash(s).as_ref())).collect();
    let datums: Vec<String> = metx.plutus_data().iter().map(|d| zh(Hasher::<256>::hash(d.raw_cbor()).as_ref())).collect();
    let reds: Vec<String> = metx.redeemers().iter().map(|r| { let ex = r.ex_units();
        let tag = match r.tag() { conway::RedeemerTag::Spend => 0, conway::RedeemerTag::Mint => 1, conway::RedeemerTag::Cert => 2, conway::RedeemerTag::Reward => 3, conway::RedeemerTag::Vote => 4, conway::RedeemerTag::Propose => 5 };
        format!("(Build_redeemer {} {} {} {})", tag, r.index(), ex.mem, ex.steps) }).collect();
    let certs = match tx { AnyTx::AC(t, _) if era <= 3 => super::vcert::certs_term(&t.transaction_body.certificates), _ => "None".to_string() };
    let cstate = if era <= 3 { super::vcert::cstate_term(cs) } else { "(Build_cstate [] [] [] [] [] [] [])".to_string() };
    let counts_t = match counts { Some((a, b, c)) if era <= 3 => format!("(Some ({},{},{}))", a, b, c), _ => "None".to_string() };
    let j = |v: &Vec<String>| format!("[{}]", v.join(";"));
    format!("(Build_tx {} {} {} {} {} {} {} {} {} {} {} {} {} {} {} {} {} {} {} {} {} {} {} {} {} {} {} {} {} [] [])",
        era, obs.size, inref_list(&metx.inputs()), coq_list(&metx.outputs(), |o| tout_term(o, conway_tx)), metx.fee().unwrap_or(0),
        coq_opt(&metx.ttl(), |v| v.to_string()), coq_opt(&metx.validity_start(), |v| v.to_string()), coq_opt(&mint, |m| m.clone()),
        opt(f.coll, inref_list(&metx.collateral())), coq_opt(&metx.collateral_return(), |o| tout_term(o, conway_tx)), coq_opt(&metx.total_collateral(), |v| v.to_string()),
        opt(f.refs, inref_list(&metx.reference_inputs())), coq_opt(&netid, |v| v.to_string()),
        coq_opt(&aux_hash, |h| zh(h)), coq_opt(&aux_actual, |h| zh(h)), coq_opt(&sdh, |h| zh(h)), coq_list(&sdh_expected, |h| zh(h)),
        opt(f.reqs, coq_list(&reqs, |h| zh(h))), coq_opt(&wdls, |w| w.clone()),
        opt(f.vk, j(&vkeys)), opt(f.nat, j(&native)), opt(f.v1, j(&v1)), opt(f.v2, j(&v2)), opt(f.v3, j(&v3)), opt(f.dat, j(&datums)), opt(f.red, j(&reds)),
        certs, cstate, counts_t)
}
