(* C42 model: what an immutable-db read returns
   (pallas-hardano/src/storage/immutable/mod.rs: build_stack_of_chunk_names,
   ChunkReaders, chunk_binary_search, iterate_till_point, read_blocks,
   read_blocks_from_point, get_tip), over an abstract database:

     a database is a list of (chunk name, blocks of that chunk file), in any order;
     a block is (slot, hash, block number).

   A hash is a byte string encoded injectively as a Z (big-endian value of
   0x01 :: bytes); EMPTY_HASH is the empty byte string — a point with an empty hash
   is a "fuzzy" point.  Abstracted away (PARTIAL): the file system, read_dir order,
   BufReader, block decoding; every chunk file is readable and every block decodes
   (the byte-level readers are the subject of C43).

   Definitions only. *)
From PV Require Import Lib.Base Immutable.ChunkList.
Open Scope Z_scope.

Definition block : Type := (Z * Z * Z).
Definition bslot (b : block) : Z := fst (fst b).
Definition bhash (b : block) : Z := snd (fst b).
Definition bnum (b : block) : Z := snd b.
Definition chunk : Type := list block.
Definition db : Type := list (Z * chunk).

Definition EMPTY_HASH : Z := 1.
Inductive point := Origin | Specific (slot hash : Z).

(* error classes of immutable::Error *)
Definition E_CANNOT_FIND : Z := 1.   (* CannotFindBlock *)
Definition E_ORIGIN_MISSING : Z := 2.
Definition E_FUEL : Z := 99.         (* model artefact, never produced *)
(* panic classes *)
Definition P_INDEX : Z := 1.         (* index out of bounds *)
Definition P_SUB : Z := 2.           (* usize subtraction overflow *)

Definition lookup (d : db) (n : Z) : chunk :=
  match find (fun e => fst e =? n) d with Some e => snd e | None => [] end.

(* build_stack_of_chunk_names: the chunk files considered, greatest name first
   (sorted, last one popped, reversed) *)
Definition stack (d : db) : list chunk := map (lookup d) (build_stack (map fst d)).

(* ChunkReaders(dir, names).map_while(Result::ok).flatten(): pops names from the end *)
Definition flatten_stack (s : list chunk) : list block := concat (rev s).

(* pub fn read_blocks(dir) *)
Definition read_blocks (d : db) : list block := flatten_stack (stack d).

(* the comparator closure of read_blocks_from_point: first block of the chunk vs.
   the slot; a chunk without blocks compares Greater *)
Definition cmp_chunk (c : chunk) (p : Z) : comparison :=
  match c with
  | [] => Gt
  | b :: _ => bslot b ?= p
  end.

(* chunk_binary_search(chunks, point, cmp) over usize indices.
     let mut size = chunks.len(); let mut left = 0; let mut right = size;
     while size > 0 { let mid = left + size / 2;
        match cmp(&chunks[mid], point)? { Less => right = mid, Greater => left = mid + 1,
                                          Equal => return Ok(Some(mid)) };
        size = right - left; }
     if right < chunks.len() { Ok(Some(right)) } else { Ok(None) }                       *)
Fixpoint bs_loop (fuel : nat) (n : Z) (cmp_at : Z -> comparison) (left right size : Z)
  : outcome (option Z) :=
  match fuel with
  | O => Err E_FUEL
  | S f =>
      if 0 <? size then
        let mid := left + size / 2 in
        if n <=? mid then Panic P_INDEX else           (* chunks[mid] *)
        match cmp_at mid with
        | Lt => if mid <? left then Panic P_SUB else bs_loop f n cmp_at left mid (mid - left)
        | Gt => if right <? mid + 1 then Panic P_SUB else bs_loop f n cmp_at (mid + 1) right (right - (mid + 1))
        | Eq => Ok (Some mid)
        end
      else if right <? n then Ok (Some right) else Ok None
  end.

Definition chunk_binary_search (chunks : list chunk) (p : Z) : outcome (option Z) :=
  let n := Z.of_nat (length chunks) in
  bs_loop (S (length chunks)) n (fun i => cmp_chunk (nth (Z.to_nat i) chunks []) p) 0 n n.

(* iterate_till_point(iter, slot, block_hash): [cur] is the peeked block, [rest]
   what follows it.
     while block.slot() < slot { iter.next(); match iter.peek() {
          Some(Ok(data)) => block = decode(data), Some(Err(_)) => return Ok(iter),
          None if block_hash.is_empty() => return Ok(iter),
          None => return Err(CannotFindBlock) } }      (after commit 0a823ff2; before it
                                                        None also returned Ok(iter))
     if (block_hash.is_empty() && block.slot() >= slot)
        || (block.hash() == block_hash && block.slot() == slot) { Ok(iter) }
     else { Err(CannotFindBlock) }                                                        *)
Fixpoint till_loop (cur : block) (rest : list block) (slot hash : Z) : outcome (list block) :=
  if bslot cur <? slot then
    match rest with
    | b' :: rest' => till_loop b' rest' slot hash
    | [] => if hash =? EMPTY_HASH then Ok [] else Err E_CANNOT_FIND   (* None *)
    end
  else if ((hash =? EMPTY_HASH) && (slot <=? bslot cur)) || ((bhash cur =? hash) && (bslot cur =? slot))
       then Ok (cur :: rest)
       else Err E_CANNOT_FIND.

Definition iterate_till_point (l : list block) (slot hash : Z) : outcome (list block) :=
  match l with
  | [] => Ok []                                  (* peek() = None => Ok(iter) *)
  | b :: rest => till_loop b rest slot hash
  end.

(* pub fn read_blocks_from_point(dir, point) *)
Definition read_blocks_from_point (d : db) (pt : point) : outcome (list block) :=
  let names := stack d in
  match pt with
  | Origin =>
      let all := flatten_stack names in
      match all with
      | [] => Ok []
      | b :: _ => if (bslot b =? 0) && (bnum b =? 0) then Ok all else Err E_ORIGIN_MISSING
      end
  | Specific slot hash =>
      match chunk_binary_search names slot with
      | Ok (Some i) =>
          (* names[..chunk_index + 1] *)
          iterate_till_point (flatten_stack (firstn (Z.to_nat (i + 1)) names)) slot hash
      | Ok None => Err E_CANNOT_FIND
      | Err e => Err e
      | Panic p => Panic p
      end
  end.

(* pub fn get_tip(dir): the last block of the first name of the stack *)
Definition get_tip (d : db) : option block :=
  match stack d with
  | [] => None
  | c :: _ => last (map Some c) None
  end.

(* ------------------------------------------------------------------------------
   Specification side (independent of the search code above). *)

(* the chunk files that count as immutable: every one but the greatest name, by
   increasing name *)
Definition considered (d : db) : list chunk :=
  map (lookup d) (removelast (sort_names (map fst d))).

(* the immutable chain *)
Definition chain (d : db) : list block := concat (considered d).

Fixpoint increasing (l : list Z) : Prop :=
  match l with
  | [] => True
  | x :: r => Forall (fun y => x < y) r /\ increasing r
  end.

(* well-formed: no considered chunk file is empty, slots strictly increase along the chain *)
Definition wf_db (d : db) : Prop :=
  Forall (fun c => c <> []) (considered d) /\ increasing (map bslot (chain d)).

(* the suffix of a block list from the first block at or after a slot *)
Fixpoint suffix_from_slot (s : Z) (l : list block) : list block :=
  match l with
  | [] => []
  | b :: r => if bslot b <? s then suffix_from_slot s r else l
  end.

Definition first_slot (l : list block) : option Z :=
  match l with [] => None | b :: _ => Some (bslot b) end.
