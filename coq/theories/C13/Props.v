(* C13 — property theorems only. Statements are pinned by vp/check.py.
   d : depth (any nat), b : caller's key buffer before keygen, s : the caller's seed, a
   genuine seed (is_seed: a secret atom split any number of times — NOT e.g. the all-zero
   string, which equals the wiping pattern), n : number of update() calls, n < 2^d.
   The signing key of period t' is leaf_seed d s t' (SigningKey::to_bytes is the seed). *)
From PV Require Import Lib.Base Kes.Model Kes.KeyAt C12.Model C12.Proofs C13.Model C13.Proofs.
Open Scope Z_scope.

(* no slot of the key buffer is, or derives by the seed-splitting hashes, the signing key
   of an earlier period *)
Theorem kes_forward_secure : forall d b s n k x t',
  length b = ksize d -> is_seed s = true -> Z.of_nat n < total d ->
  evolve d b s n = Some k -> In x (key_buf k) -> 0 <= t' < total d ->
  desc x (leaf_seed d s t') -> Z.of_nat n <= t'.
Proof.
  intros d b s n k x t' Hb Hs Hn Hev Hin Ht' Hd.
  rewrite (evolve_closed d b s n Hb Hn) in Hev. injection Hev as <-. cbn [key_buf fst] in Hin.
  apply (key_at_secure d s (Z.of_nat n) t' x); try assumption; lia.
Qed.

(* the same with the computable set the harness is compared against; and the set is
   exactly the current and future periods (so the statement is not vacuous) *)
Theorem kes_forward_secure_derivable : forall d b s n k t',
  length b = ksize d -> is_seed s = true -> Z.of_nat n < total d ->
  evolve d b s n = Some k ->
  (In t' (derivable d s (key_buf k)) <-> Z.of_nat n <= t' < total d).
Proof.
  intros d b s n k t' Hb Hs Hn Hev.
  rewrite (evolve_closed d b s n Hb Hn) in Hev. injection Hev as <-. cbn [key_buf fst].
  rewrite derivable_spec. split.
  - intros [Hr (x & Hin & Hd)]. split; [|lia].
    apply (key_at_secure d s (Z.of_nat n) t' x); try assumption; lia.
  - intros Hr. split; [lia|]. apply key_at_complete; lia.
Qed.

(* Dolev-Yao form: an attacker holding the whole buffer, computing with every public
   algorithm, cannot obtain the signing key of an earlier period (nor, since knowledge
   is closed under L/R, any seed from which it derives) *)
Theorem kes_forward_secure_attacker : forall d b s n k t',
  length b = ksize d -> is_seed s = true -> Z.of_nat n < total d ->
  evolve d b s n = Some k -> 0 <= t' < total d ->
  know (key_buf k) (leaf_seed d s t') -> Z.of_nat n <= t'.
Proof.
  intros d b s n k t' Hb Hs Hn Hev Ht' Hk.
  destruct (know_seed _ _ Hk (leaf_seed_is_seed d s t' Hs)) as (x & Hin & Hd).
  rewrite (evolve_closed d b s n Hb Hn) in Hev. injection Hev as <-. cbn [key_buf fst] in Hin.
  apply (key_at_secure d s (Z.of_nat n) t' x); try assumption; lia.
Qed.

Theorem kes_attacker_no_ancestor : forall d b s n k t' y,
  length b = ksize d -> is_seed s = true -> Z.of_nat n < total d ->
  evolve d b s n = Some k -> 0 <= t' < total d -> t' < Z.of_nat n ->
  desc y (leaf_seed d s t') -> ~ know (key_buf k) y.
Proof.
  intros d b s n k t' y Hb Hs Hn Hev Ht' Hlt Hd Hk.
  pose proof (kes_forward_secure_attacker d b s n k t' Hb Hs Hn Hev Ht' (desc_know _ _ _ Hk Hd)). lia.
Qed.

(* ... and therefore cannot forge: (the first half of) a signature by an earlier period's
   key on ANY message is not computable from the captured buffer *)
Theorem kes_no_past_forgery : forall d b s n k t' m,
  length b = ksize d -> is_seed s = true -> Z.of_nat n < total d ->
  evolve d b s n = Some k -> 0 <= t' < total d ->
  know (key_buf k) (SigR (leaf_seed d s t') m) -> Z.of_nat n <= t'.
Proof.
  intros d b s n k t' m Hb Hs Hn Hev Ht' Hk.
  apply know_sigR_inv in Hk as [Hin|Hk].
  - rewrite (evolve_closed d b s n Hb Hn) in Hev. injection Hev as <-. cbn [key_buf fst] in Hin.
    exfalso. exact (key_at_no_sig _ _ _ _ _ Hs Hin).
  - exact (kes_forward_secure_attacker d b s n k t' Hb Hs Hn Hev Ht' Hk).
Qed.

(* keygen wipes the caller's seed *)
Theorem kes_keygen_wipes_seed : forall d b s, length b = ksize d ->
  snd (keygen d b s) = Zero.
Proof. intros d b s Hb. rewrite (keygen_closed d b s Hb). reflexivity. Qed.

(* non-vacuity: depth 3, 5 updates: exactly the keys of periods 5, 6, 7 are derivable *)
Example kes_forward_secure_example :
  let b := repeat (Master (-1)) (ksize 3) in
  is_seed (Master 7) = true /\
  exists k, evolve 3 b (Master 7) 5 = Some k /\ derivable 3 (Master 7) (key_buf k) = [5; 6; 7].
Proof. cbv zeta. split; [reflexivity|]. eexists. split; vm_compute; reflexivity. Qed.
