From PV Require Import Lib.Base C35.Model.
Open Scope Z_scope.

Section Sigs.
Variable W : Type.
Variable kh : W -> Z.
Variable verify : W -> bool.

Notation check_vk_wit := (check_vk_wit W kh verify).
Notation check_inputs := (check_inputs W kh verify).
Notation check_gen := (check_vkey_input_wits_gen W kh verify).
Notation check_remaining := (check_remaining_vk_wits W verify).

(* covered witnesses have been verified *)
Definition inv (ws : list (bool * W)) : Prop :=
  Forall (fun cw => fst cw = true -> verify (snd cw) = true) ws.

Lemma vk_wit_spec h : forall ws ws',
  check_vk_wit h ws = Ok ws' ->
  map snd ws' = map snd ws /\ (inv ws -> inv ws') /\
  (exists w, In w (map snd ws) /\ kh w = h /\ verify w = true).
Proof.
  induction ws as [|[c w] r IH]; intros ws' H; cbn [Model.check_vk_wit] in H; [discriminate|].
  destruct (kh w =? h) eqn:E.
  - destruct (verify w) eqn:V; [|discriminate]. inversion H; subst. cbn. split; [reflexivity|]. split.
    + intros Hi. inversion Hi; subst. constructor; [cbn; auto|assumption].
    + exists w. split; [left; reflexivity|]. split; [lia|assumption].
  - destruct (check_vk_wit h r) as [r'| |] eqn:R; try discriminate. inversion H; subst.
    destruct (IH r' eq_refl) as [Hm [Hi [w' [Hin [Hk Hv]]]]]. cbn. split; [f_equal; assumption|]. split.
    + intros Hc. inversion Hc; subst. constructor; [assumption|apply Hi; assumption].
    + exists w'. split; [right; assumption|auto].
Qed.

Lemma inputs_spec sok : forall ins ws ws',
  check_inputs sok ins ws = Ok ws' ->
  map snd ws' = map snd ws /\ (inv ws -> inv ws') /\
  (forall h, In (PKey h) ins -> exists w, In w (map snd ws) /\ kh w = h /\ verify w = true).
Proof.
  induction ins as [|[h|] r IH]; intros ws ws' H; cbn [Model.check_inputs] in H.
  - inversion H; subst. split; [reflexivity|]. split; [auto|]. intros h [].
  - destruct (check_vk_wit h ws) as [ws1| |] eqn:E1; try discriminate.
    destruct (vk_wit_spec h ws ws1 E1) as [Hm1 [Hi1 Hex1]].
    destruct (IH ws1 ws' H) as [Hm [Hi Hall]].
    split; [congruence|]. split; [auto|].
    intros h' [Heq|Hin].
    + inversion Heq; subst. exact Hex1.
    + rewrite <- Hm1. apply Hall. exact Hin.
  - destruct sok; [|discriminate].
    destruct (IH ws ws' H) as [Hm [Hi Hall]]. split; [assumption|]. split; [assumption|].
    intros h' [Heq|Hin]; [discriminate|auto].
Qed.

Lemma remaining_spec : forall ws,
  check_remaining ws = Ok tt -> inv ws -> Forall (fun w => verify w = true) (map snd ws).
Proof.
  induction ws as [|[c w] r IH]; intros H Hi; cbn [Model.check_remaining_vk_wits] in H; cbn; [constructor|].
  inversion Hi as [|? ? Hc Hr]; subst. cbn in Hc.
  destruct c.
  - constructor; [auto|apply IH; assumption].
  - destruct (verify w) eqn:V; [|discriminate]. constructor; [assumption|apply IH; assumption].
Qed.

Lemma inv_mk l : inv (mk_check_list W l).
Proof. unfold inv, mk_check_list. apply Forall_forall. intros [c w] Hin. apply in_map_iff in Hin as [x [Hx _]]. inversion Hx; subst. cbn. discriminate. Qed.

Lemma snd_mk l : map snd (mk_check_list W l) = l.
Proof. unfold mk_check_list. rewrite map_map. cbn. apply map_id. Qed.

Lemma input_wits_spec sok wits ins :
  check_gen sok wits ins = Ok tt ->
  exists l, wits = Some l /\ Forall (fun w => verify w = true) l /\
    (forall h, In (PKey h) ins -> exists w, In w l /\ kh w = h /\ verify w = true).
Proof.
  unfold check_vkey_input_wits_gen. destruct wits as [l|]; [|discriminate].
  destruct (check_inputs sok ins (mk_check_list W l)) as [ws| |] eqn:E; try discriminate.
  intros H. destruct (inputs_spec sok ins _ ws E) as [Hm [Hi Hall]].
  exists l. split; [reflexivity|]. rewrite snd_mk in *. split.
  - rewrite <- Hm. apply remaining_spec; [assumption|]. apply Hi, inv_mk.
  - exact Hall.
Qed.

Lemma find_req_spec h : forall l,
  find_and_check_req_signer W kh verify h l = Ok tt -> exists w, In w l /\ kh w = h /\ verify w = true.
Proof.
  induction l as [|w r IH]; cbn; intros H; [discriminate|].
  destruct (kh w =? h) eqn:E.
  - destruct (verify w) eqn:V; [|discriminate]. exists w. split; [left; reflexivity|]. split; [lia|assumption].
  - destruct (IH H) as [w' [Hin Hr]]. exists w'. split; [right; assumption|assumption].
Qed.

Lemma req_list_spec : forall req l,
  check_req_list W kh verify req l = Ok tt -> forall h, In h req -> exists w, In w l /\ kh w = h /\ verify w = true.
Proof.
  induction req as [|h0 r IH]; cbn; intros l H h Hin; [contradiction|].
  destruct (find_and_check_req_signer W kh verify h0 l) as [[]| |] eqn:E; try discriminate.
  destruct Hin as [->|Hin]; [apply find_req_spec; assumption|apply IH; assumption].
Qed.

Definition req_of (req : option (list Z)) : list Z := match req with Some r => r | None => [] end.

Lemma sigs_spec req wits ins :
  check_sigs W kh verify req wits ins = Ok tt ->
  exists l, wits = Some l /\ Forall (fun w => verify w = true) l /\
    (forall h, In (PKey h) ins -> exists w, In w l /\ kh w = h /\ verify w = true) /\
    (forall h, In h (req_of req) -> exists w, In w l /\ kh w = h /\ verify w = true).
Proof.
  unfold check_sigs. destruct (check_required_signers W kh verify req wits) as [[]| |] eqn:R; try discriminate.
  intros H. destruct (input_wits_spec true wits ins H) as [l [-> [Hall Hins]]].
  exists l. split; [reflexivity|]. split; [assumption|]. split; [assumption|].
  unfold check_required_signers in R. destruct req as [rs|]; cbn; [|intros h []].
  apply req_list_spec. exact R.
Qed.

(* completeness: valid witnesses covering everything needed are accepted *)
Lemma vk_wit_complete h : forall ws,
  Forall (fun w => verify w = true) (map snd ws) -> (exists w, In w (map snd ws) /\ kh w = h) ->
  exists ws', check_vk_wit h ws = Ok ws' /\ map snd ws' = map snd ws.
Proof.
  induction ws as [|[c w] r IH]; intros Hv [w0 [Hin Hk]]; [destruct Hin|].
  cbn in Hv. apply Forall_cons_iff in Hv as [Hvw Hvr]. cbn [Model.check_vk_wit].
  destruct (kh w =? h) eqn:E.
  - rewrite Hvw. eexists; split; [reflexivity|reflexivity].
  - destruct Hin as [<-|Hin]; [cbn in *; lia|].
    destruct (IH Hvr (ex_intro _ w0 (conj Hin Hk))) as [r' [Hr Hm]]. rewrite Hr.
    eexists; split; [reflexivity|]. cbn. f_equal. exact Hm.
Qed.

Lemma inputs_complete : forall ins ws,
  Forall (fun w => verify w = true) (map snd ws) ->
  (forall h, In (PKey h) ins -> exists w, In w (map snd ws) /\ kh w = h) ->
  exists ws', check_inputs true ins ws = Ok ws' /\ map snd ws' = map snd ws.
Proof.
  induction ins as [|[h|] r IH]; intros ws Hv Hall; cbn [Model.check_inputs].
  - eexists; split; reflexivity.
  - destruct (vk_wit_complete h ws Hv (Hall h (or_introl eq_refl))) as [ws1 [E1 Hm1]]. rewrite E1.
    destruct (IH ws1) as [ws' [E Hm]]; [rewrite Hm1; assumption| |].
    + intros h' Hin. rewrite Hm1. apply Hall. right. exact Hin.
    + exists ws'. split; [assumption|congruence].
  - apply IH; [assumption|]. intros h' Hin. apply Hall. right. exact Hin.
Qed.

Lemma remaining_complete : forall ws,
  Forall (fun w => verify w = true) (map snd ws) -> check_remaining ws = Ok tt.
Proof.
  induction ws as [|[c w] r IH]; intros Hv; cbn [Model.check_remaining_vk_wits]; [reflexivity|].
  cbn in Hv. apply Forall_cons_iff in Hv as [Hvw Hvr]. rewrite Hvw. destruct c; apply IH; assumption.
Qed.

Lemma input_wits_complete l ins :
  Forall (fun w => verify w = true) l ->
  (forall h, In (PKey h) ins -> exists w, In w l /\ kh w = h) ->
  check_vkey_input_wits W kh verify (Some l) ins = Ok tt.
Proof.
  intros Hv Hall. unfold check_vkey_input_wits, check_vkey_input_wits_gen.
  destruct (inputs_complete ins (mk_check_list W l)) as [ws [E Hm]]; try (rewrite snd_mk; assumption).
  rewrite E. apply remaining_complete. rewrite Hm, snd_mk. assumption.
Qed.

End Sigs.

(* the repaired rule is refuted for the old code: [good, uncovered; bad, uncovered] *)
Lemma old_refuted :
  exists (l : list cw), check_vkey_input_wits_old cw fst snd (Some l) [] = Ok tt /\
    ~ Forall (fun w => snd w = true) l.
Proof.
  exists [(7, true); (8, false)]. split; [vm_compute; reflexivity|].
  intros H. inversion H as [|? ? _ H2]; subst. inversion H2 as [|? ? H3 _]; subst. discriminate.
Qed.
