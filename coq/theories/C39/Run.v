(* C39 correspondence: a case is
     (table of observed validate_tx behaviour, initial state id, tx ids,
      implementation result (None = Ok, Some e = Err e, Some (-2) = panic),
      id of the caller's CertState after validate_txs). *)
From PV Require Import Lib.Base C39.Model.
Open Scope Z_scope.

Definition case : Type := (table * Z * list Z * option Z * Z).

Definition res_code (r : outcome unit) : option Z :=
  match r with Ok _ => None | Err e => Some e | Panic _ => Some (-2) end.

Definition case_out (c : case) : Z * option Z :=
  let '(t, s0, txs, _, _) := c in
  let '(s, r) := validate_txs (table_step t) s0 txs in (s, res_code r).

Definition opt_eqb (a b : option Z) : bool :=
  match a, b with Some x, Some y => x =? y | None, None => true | _, _ => false end.

Definition case_ok (c : case) : bool :=
  let '(t, s0, txs, r, s) := c in
  let '(ms, mr) := validate_txs (table_step t) s0 txs in
  (ms =? s) && opt_eqb (res_code mr) r.
