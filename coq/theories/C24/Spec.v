(* Ouroboros mini-protocol state machines, written from the network specification
   ("The Shelley Networking Protocol", ch. 3 "Mini Protocols": the state-machine
   figures and the agency / transition tables of each mini-protocol; CIP-0164 /
   cardano-blueprint `leios-prototype` for the two Leios protocols).
   NOT derived from the Rust: states, who has agency in each, and the labelled
   transitions. Names are the specification's without the St/Msg prefix.
   Shared by C24 (pallas-network2 `State::apply`) and C23 (pallas-network agents). *)
From Coq Require Import String List Bool.
Import ListNotations.
Open Scope string_scope.

Inductive agency := Client | Server | Nobody.

Definition agency_eqb (a b : agency) : bool :=
  match a, b with Client, Client | Server, Server | Nobody, Nobody => true | _, _ => false end.

Record proto_spec := {
  sp_name   : string;
  sp_init   : string;
  sp_states : list (string * agency);
  sp_msgs   : list string;
  sp_trans  : list (string * string * string)      (* (from, message, to) *)
}.

(* ------------------------------------------------------------------ lookup *)
Fixpoint assoc {B} (k : string) (l : list (string * B)) : option B :=
  match l with
  | [] => None
  | (k', v) :: r => if String.eqb k k' then Some v else assoc k r
  end.

Fixpoint trans_lookup (s m : string) (l : list (string * string * string)) : option string :=
  match l with
  | [] => None
  | (s', m', t) :: r => if String.eqb s s' && String.eqb m m' then Some t else trans_lookup s m r
  end.

Definition spec_next (sp : proto_spec) (s m : string) : option string := trans_lookup s m (sp_trans sp).
Definition spec_agency (sp : proto_spec) (s : string) : option agency := assoc s (sp_states sp).
Definition state_names (sp : proto_spec) : list string := map fst (sp_states sp).

(* who may send message m: the agency of the states it leaves *)
Definition senders (sp : proto_spec) (m : string) : list (option agency) :=
  map (fun tr => spec_agency sp (fst (fst tr)))
      (filter (fun tr => String.eqb (snd (fst tr)) m) (sp_trans sp)).

(* ------------------------------------------------------------ the protocols *)

(* Handshake (spec §3.6): MsgReplyVersions (TCP simultaneous open) shares the wire
   encoding of MsgProposeVersions and is not a separate message here. *)
Definition handshake_spec : proto_spec := {|
  sp_name := "handshake"; sp_init := "Propose";
  sp_states := [("Propose", Client); ("Confirm", Server); ("Done", Nobody)];
  sp_msgs := ["ProposeVersions"; "AcceptVersion"; "Refuse"; "QueryReply"];
  sp_trans := [
    ("Propose", "ProposeVersions", "Confirm");
    ("Confirm", "AcceptVersion",   "Done");
    ("Confirm", "Refuse",          "Done");
    ("Confirm", "QueryReply",      "Done") ] |}.

(* Chain-Sync (spec §3.7) *)
Definition chainsync_spec : proto_spec := {|
  sp_name := "chainsync"; sp_init := "Idle";
  sp_states := [("Idle", Client); ("CanAwait", Server); ("MustReply", Server);
                ("Intersect", Server); ("Done", Nobody)];
  sp_msgs := ["RequestNext"; "AwaitReply"; "RollForward"; "RollBackward";
              "FindIntersect"; "IntersectFound"; "IntersectNotFound"; "Done"];
  sp_trans := [
    ("Idle",      "RequestNext",       "CanAwait");
    ("CanAwait",  "AwaitReply",        "MustReply");
    ("CanAwait",  "RollForward",       "Idle");
    ("CanAwait",  "RollBackward",      "Idle");
    ("MustReply", "RollForward",       "Idle");
    ("MustReply", "RollBackward",      "Idle");
    ("Idle",      "FindIntersect",     "Intersect");
    ("Intersect", "IntersectFound",    "Idle");
    ("Intersect", "IntersectNotFound", "Idle");
    ("Idle",      "Done",              "Done") ] |}.

(* Block-Fetch (spec §3.8) *)
Definition blockfetch_spec : proto_spec := {|
  sp_name := "blockfetch"; sp_init := "Idle";
  sp_states := [("Idle", Client); ("Busy", Server); ("Streaming", Server); ("Done", Nobody)];
  sp_msgs := ["RequestRange"; "ClientDone"; "StartBatch"; "NoBlocks"; "Block"; "BatchDone"];
  sp_trans := [
    ("Idle",      "RequestRange", "Busy");
    ("Idle",      "ClientDone",   "Done");
    ("Busy",      "NoBlocks",     "Idle");
    ("Busy",      "StartBatch",   "Streaming");
    ("Streaming", "Block",        "Streaming");
    ("Streaming", "BatchDone",    "Idle") ] |}.

(* Tx-Submission v2 (spec §3.9): the *client* (initiator) owns the transactions, the
   server requests them. MsgRequestTxIds is two transitions, chosen by its blocking flag. *)
Definition txsubmission_spec : proto_spec := {|
  sp_name := "txsubmission"; sp_init := "Init";
  sp_states := [("Init", Client); ("Idle", Server); ("TxIdsBlocking", Client);
                ("TxIdsNonBlocking", Client); ("Txs", Client); ("Done", Nobody)];
  sp_msgs := ["Init"; "RequestTxIdsBlocking"; "RequestTxIdsNonBlocking"; "ReplyTxIds";
              "RequestTxs"; "ReplyTxs"; "Done"];
  sp_trans := [
    ("Init",             "Init",                    "Idle");
    ("Idle",             "RequestTxIdsBlocking",    "TxIdsBlocking");
    ("Idle",             "RequestTxIdsNonBlocking", "TxIdsNonBlocking");
    ("TxIdsBlocking",    "ReplyTxIds",              "Idle");
    ("TxIdsNonBlocking", "ReplyTxIds",              "Idle");
    ("Idle",             "RequestTxs",              "Txs");
    ("Txs",              "ReplyTxs",                "Idle");
    ("TxIdsBlocking",    "Done",                    "Done") ] |}.

(* Keep-Alive (spec §3.10) *)
Definition keepalive_spec : proto_spec := {|
  sp_name := "keepalive"; sp_init := "Client";
  sp_states := [("Client", Client); ("Server", Server); ("Done", Nobody)];
  sp_msgs := ["KeepAlive"; "KeepAliveResponse"; "Done"];
  sp_trans := [
    ("Client", "KeepAlive",         "Server");
    ("Server", "KeepAliveResponse", "Client");
    ("Client", "Done",              "Done") ] |}.

(* Peer-Sharing (spec §3.11) *)
Definition peersharing_spec : proto_spec := {|
  sp_name := "peersharing"; sp_init := "Idle";
  sp_states := [("Idle", Client); ("Busy", Server); ("Done", Nobody)];
  sp_msgs := ["ShareRequest"; "SharePeers"; "Done"];
  sp_trans := [
    ("Idle", "ShareRequest", "Busy");
    ("Busy", "SharePeers",   "Idle");
    ("Idle", "Done",         "Done") ] |}.

(* Leios-Notify (CIP-0164 / leios-prototype blueprint, protocol 18): the client asks for the
   next notification, the server answers with exactly one of four notifications. *)
Definition leiosnotify_spec : proto_spec := {|
  sp_name := "leiosnotify"; sp_init := "Idle";
  sp_states := [("Idle", Client); ("Busy", Server); ("Done", Nobody)];
  sp_msgs := ["RequestNext"; "BlockAnnouncement"; "BlockOffer"; "BlockTxsOffer"; "Votes"; "Done"];
  sp_trans := [
    ("Idle", "RequestNext",       "Busy");
    ("Busy", "BlockAnnouncement", "Idle");
    ("Busy", "BlockOffer",        "Idle");
    ("Busy", "BlockTxsOffer",     "Idle");
    ("Busy", "Votes",             "Idle");
    ("Idle", "Done",              "Done") ] |}.

(* Leios-Fetch (protocol 19), restricted to the message set of the prototype CDDL that the
   implementation carries (block and block-txs requests). *)
Definition leiosfetch_spec : proto_spec := {|
  sp_name := "leiosfetch"; sp_init := "Idle";
  sp_states := [("Idle", Client); ("Block", Server); ("BlockTxs", Server); ("Done", Nobody)];
  sp_msgs := ["BlockRequest"; "Block"; "BlockTxsRequest"; "BlockTxs"; "Done"];
  sp_trans := [
    ("Idle",     "BlockRequest",    "Block");
    ("Block",    "Block",           "Idle");
    ("Idle",     "BlockTxsRequest", "BlockTxs");
    ("BlockTxs", "BlockTxs",        "Idle");
    ("Idle",     "Done",            "Done") ] |}.

(* Node-to-client protocols of the original stack (C23). *)

(* Local State Query (spec §3.13) *)
Definition localstate_spec : proto_spec := {|
  sp_name := "localstate"; sp_init := "Idle";
  sp_states := [("Idle", Client); ("Acquiring", Server); ("Acquired", Client);
                ("Querying", Server); ("Done", Nobody)];
  sp_msgs := ["Acquire"; "Failure"; "Acquired"; "Query"; "Result"; "ReAcquire"; "Release"; "Done"];
  sp_trans := [
    ("Idle",      "Acquire",   "Acquiring");
    ("Acquiring", "Failure",   "Idle");
    ("Acquiring", "Acquired",  "Acquired");
    ("Acquired",  "Query",     "Querying");
    ("Querying",  "Result",    "Acquired");
    ("Acquired",  "ReAcquire", "Acquiring");
    ("Acquired",  "Release",   "Idle");
    ("Idle",      "Done",      "Done") ] |}.

(* Local Tx-Submission (spec §3.12) *)
Definition localtxsubmission_spec : proto_spec := {|
  sp_name := "localtxsubmission"; sp_init := "Idle";
  sp_states := [("Idle", Client); ("Busy", Server); ("Done", Nobody)];
  sp_msgs := ["SubmitTx"; "AcceptTx"; "RejectTx"; "Done"];
  sp_trans := [
    ("Idle", "SubmitTx", "Busy");
    ("Busy", "AcceptTx", "Idle");
    ("Busy", "RejectTx", "Idle");
    ("Idle", "Done",     "Done") ] |}.

(* Local Tx-Monitor (spec §3.14). "Busy" is indexed by the pending request in the
   specification (StBusy NextTx / HasTx / GetSizes); one reply per request kind. *)
Definition txmonitor_spec : proto_spec := {|
  sp_name := "txmonitor"; sp_init := "Idle";
  sp_states := [("Idle", Client); ("Acquiring", Server); ("Acquired", Client);
                ("BusyNextTx", Server); ("BusyHasTx", Server); ("BusyGetSizes", Server);
                ("Done", Nobody)];
  sp_msgs := ["Acquire"; "Acquired"; "AwaitAcquire"; "NextTx"; "ReplyNextTx"; "HasTx"; "ReplyHasTx";
              "GetSizes"; "ReplyGetSizes"; "Release"; "Done"];
  sp_trans := [
    ("Idle",         "Acquire",       "Acquiring");
    ("Acquiring",    "Acquired",      "Acquired");
    ("Acquired",     "AwaitAcquire",  "Acquiring");
    ("Acquired",     "NextTx",        "BusyNextTx");
    ("BusyNextTx",   "ReplyNextTx",   "Acquired");
    ("Acquired",     "HasTx",         "BusyHasTx");
    ("BusyHasTx",    "ReplyHasTx",    "Acquired");
    ("Acquired",     "GetSizes",      "BusyGetSizes");
    ("BusyGetSizes", "ReplyGetSizes", "Acquired");
    ("Acquired",     "Release",       "Idle");
    ("Idle",         "Done",          "Done") ] |}.

Definition all_specs : list proto_spec :=
  [handshake_spec; chainsync_spec; blockfetch_spec; txsubmission_spec; keepalive_spec;
   peersharing_spec; leiosnotify_spec; leiosfetch_spec;
   localstate_spec; localtxsubmission_spec; txmonitor_spec].

(* --------------------------------------------------------- well-formedness *)
Definition mem (x : string) (l : list string) : bool := existsb (String.eqb x) l.

Fixpoint nodupb (l : list string) : bool :=
  match l with [] => true | x :: r => negb (mem x r) && nodupb r end.

Fixpoint nodup_keys (l : list (string * string * string)) : bool :=
  match l with
  | [] => true
  | (s, m, _) :: r => (match trans_lookup s m r with None => true | Some _ => false end) && nodup_keys r
  end.

Definition all_same (l : list (option agency)) : bool :=
  match l with
  | [] => true
  | Some a :: r => negb (agency_eqb a Nobody) &&
                   forallb (fun b => match b with Some b' => agency_eqb a b' | None => false end) r
  | None :: _ => false
  end.

(* A specification is well formed when: declared names are unique; the initial state is
   declared; every transition joins declared states over a declared message and leaves a
   state in which somebody has agency; terminal (Nobody) states have no way out; the
   relation is deterministic; every message is used and is always sent by the same role. *)
Definition spec_wf (sp : proto_spec) : bool :=
  nodupb (state_names sp) && nodupb (sp_msgs sp) && mem (sp_init sp) (state_names sp) &&
  forallb (fun tr => let '(s, m, t) := tr in
                     mem s (state_names sp) && mem t (state_names sp) && mem m (sp_msgs sp) &&
                     match spec_agency sp s with Some Nobody | None => false | Some _ => true end)
          (sp_trans sp) &&
  nodup_keys (sp_trans sp) &&
  forallb (fun m => match senders sp m with [] => false | l => all_same l end) (sp_msgs sp).
