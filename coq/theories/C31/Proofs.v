(* C31 proofs: first-occurrence dedup, enumeration / lookup, stable sort + adjacent dedup. *)
From PV Require Import Lib.Base C31.Model.
From Coq Require Import Sorted.
Open Scope Z_scope.

Lemma input_eqb_eq a b : input_eqb a b = true <-> a = b.
Proof.
  destruct a as [a1 a2], b as [b1 b2]. unfold input_eqb. cbn [fst snd].
  rewrite andb_true_iff, !Z.eqb_eq. split; [intros [-> ->]; reflexivity|intros H; inversion H; auto].
Qed.
Lemma input_eqb_refl a : input_eqb a a = true.
Proof. apply input_eqb_eq. reflexivity. Qed.
Lemma input_eqb_neq a b : input_eqb a b = false <-> a <> b.
Proof.
  split; intros H.
  - intros E. apply input_eqb_eq in E. congruence.
  - destruct (input_eqb a b) eqn:E; [apply input_eqb_eq in E; contradiction|reflexivity].
Qed.

Lemma memb_In x l : memb x l = true <-> In x l.
Proof.
  unfold memb. rewrite existsb_exists. split.
  - intros (y & Hy & E). apply input_eqb_eq in E. subst. assumption.
  - intros H. exists x. split; [assumption|apply input_eqb_refl].
Qed.
Lemma memb_nIn x l : memb x l = false <-> ~ In x l.
Proof.
  pose proof (memb_In x l) as H. destruct (memb x l).
  - split; [discriminate|]. intros N. exfalso. apply N, H. reflexivity.
  - split; [|reflexivity]. intros _ N. apply H in N. discriminate.
Qed.

(* ---- consumes: first-occurrence dedup ---- *)

(* specification: keep the head, drop its later copies *)
Fixpoint first_occurrences (l : list input) : list input :=
  match l with
  | [] => []
  | x :: r => x :: filter (fun y => negb (input_eqb x y)) (first_occurrences r)
  end.

Lemma dedup_from_In seen l x :
  In x (dedup_from seen l) <-> In x l /\ ~ In x seen.
Proof.
  revert seen. induction l as [|y r IH]; intros seen; cbn [dedup_from In].
  - tauto.
  - destruct (memb y seen) eqn:E.
    + apply memb_In in E. rewrite IH. split.
      * intros [H1 H2]. tauto.
      * intros [[->|H1] H2]; [contradiction|tauto].
    + apply memb_nIn in E. cbn [In]. rewrite IH. cbn [In]. split.
      * intros [->|[H1 H2]]; [tauto|]. split; [tauto|]. intros H; apply H2; right; assumption.
      * intros [[->|H1] H2]; [tauto|].
        destruct (input_eqb y x) eqn:E2; [apply input_eqb_eq in E2; tauto|].
        apply input_eqb_neq in E2. right. split; [assumption|]. intros [H|H]; [congruence|tauto].
Qed.

Lemma dedup_from_NoDup seen l : NoDup (dedup_from seen l).
Proof.
  revert seen. induction l as [|y r IH]; intros seen; cbn [dedup_from].
  - constructor.
  - destruct (memb y seen) eqn:E; [apply IH|].
    constructor; [|apply IH]. rewrite dedup_from_In. cbn [In]. tauto.
Qed.

Lemma filter_filter_and (f g : input -> bool) l :
  filter f (filter g l) = filter (fun y => g y && f y) l.
Proof.
  induction l as [|x r IH]; cbn [filter]; [reflexivity|].
  destruct (g x); cbn [andb filter]; [destruct (f x); rewrite IH; reflexivity|exact IH].
Qed.

Lemma input_eqb_sym a b : input_eqb a b = input_eqb b a.
Proof. unfold input_eqb. rewrite (Z.eqb_sym (fst a)), (Z.eqb_sym (snd a)). reflexivity. Qed.

Lemma dedup_from_spec seen l :
  dedup_from seen l = filter (fun y => negb (memb y seen)) (first_occurrences l).
Proof.
  revert seen. induction l as [|x r IH]; intros seen; cbn [dedup_from first_occurrences filter]; [reflexivity|].
  destruct (memb x seen) eqn:E; cbn [negb].
  - rewrite IH, filter_filter_and. apply filter_ext. intros y.
    destruct (input_eqb x y) eqn:E2; cbn [negb andb]; [|reflexivity].
    apply input_eqb_eq in E2. subst y. rewrite E. reflexivity.
  - f_equal. rewrite IH, filter_filter_and. apply filter_ext. intros y.
    unfold memb. cbn [existsb]. rewrite negb_orb, (input_eqb_sym y x). reflexivity.
Qed.

Lemma filter_true (l : list input) : filter (fun _ => true) l = l.
Proof. induction l as [|a l IH]; cbn [filter]; [reflexivity|]. f_equal. exact IH. Qed.

Lemma dedup_first_occurrences l : dedup_from [] l = first_occurrences l.
Proof. rewrite dedup_from_spec. cbn [memb existsb negb]. apply filter_true. Qed.

Lemma first_occurrences_NoDup_id l : NoDup l -> first_occurrences l = l.
Proof.
  induction 1 as [|x r Hx Hr IH]; cbn [first_occurrences]; [reflexivity|].
  rewrite IH. f_equal.
  rewrite (filter_ext_in _ (fun _ => true)); [apply filter_true|].
  intros a Ha. destruct (input_eqb x a) eqn:E; [|reflexivity]. apply input_eqb_eq in E. subst. contradiction.
Qed.

(* ---- produces / produces_at ---- *)
Section Out.
Context {A : Type}.

Lemma enumerate_from_fst i (l : list A) :
  map fst (enumerate_from i l) = map (fun k => i + Z.of_nat k) (seq 0 (length l)).
Proof.
  revert i. induction l as [|x r IH]; intros i; cbn [enumerate_from map length seq]; [reflexivity|].
  f_equal; [cbn [fst]; lia|]. rewrite IH. rewrite <- seq_shift, map_map. apply map_ext. intros k. lia.
Qed.

Lemma enumerate_from_snd i (l : list A) : map snd (enumerate_from i l) = l.
Proof. revert i. induction l as [|x r IH]; intros i; cbn [enumerate_from map snd]; [reflexivity|]. f_equal. apply IH. Qed.

Lemma enumerate_from_length i (l : list A) : length (enumerate_from i l) = length l.
Proof. revert i. induction l as [|x r IH]; intros i; cbn [enumerate_from length]; [reflexivity|]. f_equal. apply IH. Qed.

Lemma zget_nth_error (l : list A) i : 0 <= i -> zget l i = nth_error l (Z.to_nat i).
Proof.
  revert i. induction l as [|x r IH]; intros i Hi; cbn [zget].
  - destruct (Z.to_nat i); reflexivity.
  - destruct (i =? 0) eqn:E.
    + apply Z.eqb_eq in E. subst. reflexivity.
    + apply Z.eqb_neq in E. rewrite IH by lia.
      replace (Z.to_nat i) with (S (Z.to_nat (i - 1))) by lia. reflexivity.
Qed.

Lemma assoc_enumerate i k (l : list A) :
  assoc i (enumerate_from k l) = if i <? k then None else zget l (i - k).
Proof.
  revert k. induction l as [|x r IH]; intros k; cbn [enumerate_from assoc zget].
  - destruct (i <? k); reflexivity.
  - destruct (i =? k) eqn:E.
    + apply Z.eqb_eq in E. subst. rewrite Z.ltb_irrefl, Z.sub_diag. reflexivity.
    + apply Z.eqb_neq in E. rewrite IH.
      destruct (i <? k) eqn:E1; destruct (i <? k + 1) eqn:E2; try lia; try reflexivity.
      destruct (i - k =? 0) eqn:E3; [lia|]. f_equal. lia.
Qed.

Lemma produces_at_agrees_proof (t : tx A) i : produces_at t i = assoc i (produces t).
Proof.
  unfold produces_at, produces. destruct (is_valid t).
  - unfold get. rewrite assoc_enumerate, Z.sub_0_r. reflexivity.
  - destruct (collateral_return t) as [o|]; cbn [assoc].
    + destruct (i =? zlength (outputs t)); reflexivity.
    + destruct (i =? zlength (outputs t)); reflexivity.
Qed.
End Out.

(* ---- inputs_sorted_set ---- *)

Definition key_le (a b : input) : Prop := fst a < fst b \/ (fst a = fst b /\ snd a <= snd b).

Lemma key_ltb_lt a b : key_ltb a b = true <-> key_lt a b.
Proof. unfold key_ltb, key_lt. lia. Qed.
Lemma key_ltb_ge a b : key_ltb a b = false <-> key_le b a.
Proof. unfold key_ltb, key_le. lia. Qed.
Lemma key_lt_le a b : key_lt a b -> key_le a b.
Proof. unfold key_lt, key_le. lia. Qed.
Lemma key_le_trans a b c : key_le a b -> key_le b c -> key_le a c.
Proof. unfold key_le. lia. Qed.
Lemma key_lt_le_trans a b c : key_lt a b -> key_le b c -> key_lt a c.
Proof. unfold key_lt, key_le. lia. Qed.
Lemma key_le_neq_lt a b : key_le a b -> a <> b -> key_lt a b.
Proof.
  destruct a as [a1 a2], b as [b1 b2]. unfold key_le, key_lt. cbn [fst snd]. intros H N.
  destruct (Z.eq_dec a1 b1) as [->|]; [|lia]. destruct (Z.eq_dec a2 b2) as [->|]; [congruence|lia].
Qed.
Lemma key_lt_irrefl a : ~ key_lt a a.
Proof. unfold key_lt. lia. Qed.

Lemma insert_In x l y : In y (insert_sorted x l) <-> y = x \/ In y l.
Proof.
  induction l as [|z r IH]; cbn [insert_sorted In]; [intuition congruence|].
  destruct (key_ltb x z); cbn [In]; [intuition congruence|]. rewrite IH. intuition congruence.
Qed.

Lemma insert_sorted_sorted x l : StronglySorted key_le l -> StronglySorted key_le (insert_sorted x l).
Proof.
  induction 1 as [|z r Hr IH Hz]; cbn [insert_sorted].
  - constructor; constructor.
  - destruct (key_ltb x z) eqn:E.
    + apply key_ltb_lt in E. constructor; [constructor; assumption|].
      constructor; [apply key_lt_le; assumption|].
      rewrite Forall_forall in *. intros y Hy. eapply key_le_trans; [apply key_lt_le; eassumption|auto].
    + apply key_ltb_ge in E. constructor; [exact IH|].
      rewrite Forall_forall in *. intros y Hy. apply insert_In in Hy. destruct Hy as [->|Hy]; auto.
Qed.

Lemma sort_fold_sorted l acc :
  StronglySorted key_le acc -> StronglySorted key_le (fold_left (fun a x => insert_sorted x a) l acc).
Proof. revert acc. induction l as [|x r IH]; intros acc H; cbn [fold_left]; [assumption|]. apply IH, insert_sorted_sorted, H. Qed.

Lemma sort_fold_In l acc y :
  In y (fold_left (fun a x => insert_sorted x a) l acc) <-> In y l \/ In y acc.
Proof.
  revert acc. induction l as [|x r IH]; intros acc; cbn [fold_left In]; [tauto|].
  rewrite IH, insert_In. intuition congruence.
Qed.

Lemma sort_fold_length l acc :
  length (fold_left (fun a x => insert_sorted x a) l acc) = (length l + length acc)%nat.
Proof.
  revert acc. induction l as [|x r IH]; intros acc; cbn [fold_left length]; [reflexivity|].
  rewrite IH. assert (L : forall l0, length (insert_sorted x l0) = S (length l0)).
  { induction l0 as [|z q IHq]; cbn [insert_sorted length]; [reflexivity|]. destruct (key_ltb x z); cbn [length]; [reflexivity|]. rewrite IHq. reflexivity. }
  rewrite L. lia.
Qed.

Lemma sort_by_key_sorted l : StronglySorted key_le (sort_by_key l).
Proof. apply sort_fold_sorted. constructor. Qed.
Lemma sort_by_key_In l y : In y (sort_by_key l) <-> In y l.
Proof. unfold sort_by_key. rewrite sort_fold_In. cbn [In]. tauto. Qed.

Lemma dedup_adj_from_In prev l y : In y (prev :: dedup_adj_from prev l) <-> In y (prev :: l).
Proof.
  revert prev. induction l as [|z r IH]; intros prev; cbn [dedup_adj_from]; [tauto|].
  destruct (input_eqb prev z) eqn:E.
  - apply input_eqb_eq in E. subst z. rewrite IH. cbn [In]. tauto.
  - cbn [In] in *. rewrite (IH z). cbn [In]. tauto.
Qed.

Lemma dedup_adj_from_sorted prev l :
  StronglySorted key_le (prev :: l) -> StronglySorted key_lt (prev :: dedup_adj_from prev l).
Proof.
  revert prev. induction l as [|z r IH]; intros prev H; cbn [dedup_adj_from].
  - constructor; constructor.
  - inversion H as [|? ? Hs Hf]; subst. inversion Hs as [|? ? Hs' Hf']; subst.
    inversion Hf as [|? ? Hpz Hpr]; subst.
    destruct (input_eqb prev z) eqn:E.
    + apply input_eqb_eq in E. subst z. apply IH. constructor; assumption.
    + apply input_eqb_neq in E. pose proof (key_le_neq_lt _ _ Hpz E) as L.
      constructor; [apply IH; assumption|].
      rewrite Forall_forall. intros y Hy. apply (dedup_adj_from_In z r y) in Hy.
      destruct Hy as [<-|Hy]; [exact L|].
      rewrite Forall_forall in Hf'. eapply key_lt_le_trans; [exact L|auto].
Qed.

Lemma strongly_sorted_lt_NoDup l : StronglySorted key_lt l -> NoDup l.
Proof.
  induction 1 as [|x r Hr IH Hx]; constructor; [|exact IH].
  intros Hin. rewrite Forall_forall in Hx. exact (key_lt_irrefl x (Hx x Hin)).
Qed.

Lemma sorted_set_proof {A} (t : tx A) :
  StronglySorted key_lt (inputs_sorted_set t) /\ NoDup (inputs_sorted_set t) /\
  (forall x, In x (inputs_sorted_set t) <-> In x (inputs t)).
Proof.
  unfold inputs_sorted_set. pose proof (sort_by_key_sorted (inputs t)) as S.
  assert (M : forall x, In x (dedup_adjacent (sort_by_key (inputs t))) <-> In x (inputs t)).
  { intros x. rewrite <- (sort_by_key_In (inputs t) x). destruct (sort_by_key (inputs t)) as [|p l]; [unfold dedup_adjacent; reflexivity|].
    unfold dedup_adjacent. apply dedup_adj_from_In. }
  assert (SS : StronglySorted key_lt (dedup_adjacent (sort_by_key (inputs t)))).
  { destruct (sort_by_key (inputs t)) as [|p l]; [constructor|]. apply dedup_adj_from_sorted, S. }
  split; [exact SS|]. split; [apply strongly_sorted_lt_NoDup, SS|exact M].
Qed.

(* an already strictly sorted input list is returned unchanged *)
Lemma insert_sorted_last x l :
  StronglySorted key_lt l -> Forall (fun y => key_lt y x) l -> insert_sorted x l = l ++ [x].
Proof.
  induction 1 as [|z r Hr IH Hz]; intros F; cbn [insert_sorted app]; [reflexivity|].
  inversion F as [|? ? Fz Fr]; subst.
  destruct (key_ltb x z) eqn:E; [apply key_ltb_lt in E; unfold key_lt in *; lia|].
  rewrite IH by assumption. reflexivity.
Qed.

(* ---- assembled statements ---- *)
Section Assembled.
Context {A : Type}.

Lemma consumes_spec (t : tx A) :
  consumes t = first_occurrences (if is_valid t then inputs t else collateral t).
Proof. unfold consumes. apply dedup_first_occurrences. Qed.

Lemma consumes_nodup_proof (t : tx A) :
  NoDup (consumes t) /\
  forall x, In x (consumes t) <-> In x (if is_valid t then inputs t else collateral t).
Proof.
  unfold consumes. split; [apply dedup_from_NoDup|].
  intros x. rewrite dedup_from_In. cbn [In]. tauto.
Qed.

Lemma produces_valid_proof (t : tx A) : is_valid t = true ->
  produces t = enumerate_from 0 (outputs t) /\
  map snd (produces t) = outputs t /\
  map fst (produces t) = map Z.of_nat (seq 0 (length (outputs t))).
Proof.
  intros V. unfold produces. rewrite V. split; [reflexivity|]. split; [apply enumerate_from_snd|].
  rewrite enumerate_from_fst. apply map_ext. intros k. lia.
Qed.

Lemma produces_invalid_proof (t : tx A) : is_valid t = false ->
  produces t = match collateral_return t with Some o => [(zlength (outputs t), o)] | None => [] end.
Proof. intros V. unfold produces. rewrite V. reflexivity. Qed.
End Assembled.
