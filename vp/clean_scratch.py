#!/usr/bin/env python3
"""Remove the cargo project/target dirs that `./check --repo <path>` created for ONE scratch repo path."""
import hashlib, os, shutil, sys
V = os.path.dirname(os.path.dirname(os.path.abspath(__file__)))
for repo in sys.argv[1:]:
    key = hashlib.sha1(os.path.realpath(repo).encode()).hexdigest()[:10]
    for d in ("harness-" + key, "target-" + key):
        shutil.rmtree(os.path.join(V, ".cache", d), ignore_errors=True)
    print("removed .cache/*-%s" % key)
