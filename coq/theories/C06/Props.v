(* C06 — property theorems only. Statements are pinned by vp/check.py. *)
From PV Require Import Lib.Base Cbor.Item Cbor.Enc Cbor.Dec Cbor.Api C06.Model C06.Leaves C06.Proofs C06.MapStruct C06.Schemas.
Open Scope Z_scope.

(* FULL STATEMENT (differential only): for every era, encode (decode bytes) = bytes on chain
   data and decode (encode v) = v for every value of every era type.
   Proved: the derive semantics modelled by [codec_of] round-trip every typed value of every
   well-formed schema (array structs with optional trailing fields, flat and index-only
   enums, Vec, integer / bytes / bool leaves), with any trailing input. *)
Theorem schema_roundtrip :
  forall (s : schema) (v : value) (r : list Z),
    wf_schema s = true -> has_type v s -> dec_schema s (enc_schema s v ++ r) = DOk (v, r).
Proof. exact schema_roundtrip_proof. Qed.

(* an encoding is never empty and never read as null by an enclosing Option<T> *)
Theorem schema_encoding_not_null :
  forall (s : schema) (v : value) (r : list Z),
    wf_schema s = true -> has_type v s -> enc_schema s v <> [] /\ not_null (enc_schema s v) r.
Proof.
  intros s v r Hwf Hty. destruct (codec_of_ok s Hwf v r Hty) as (_ & Hn & He). split; assumption.
Qed.

(* the transcribed schemas are well-formed (unique enum indices in range, integer widths,
   field counts): decided by computation on every run *)
Theorem representative_schemas_wf : forallb wf_schema schemas = true.
Proof. vm_compute. reflexivity. Qed.

(* #[cbor(map)] structs: integer keys, nil fields omitted, unknown keys skipped, any key order *)
Theorem map_struct_roundtrip :
  forall (ms : mschema) (v : value) (r : list Z),
    wf_mschema ms = true -> c_ty (map_codec ms) v ->
    c_dec (map_codec ms) (c_enc (map_codec ms) v ++ r) = DOk (v, r).
Proof. exact map_struct_roundtrip_proof. Qed.

Theorem representative_map_schemas_wf : forallb wf_mschema mschemas = true.
Proof. vm_compute. reflexivity. Qed.

Example map_struct_examples :
  c_enc (map_codec ms_map_opt) (VRec [VInt 7; VNone; VSome (VBytes [1]); VList []; VNone]) = [163; 0; 7; 5; 65; 1; 9; 128] /\
  (* the decoder takes the entries in any order, skips unknown keys, and null is None *)
  c_dec (map_codec ms_map_opt) [164; 9; 128; 24; 77; 130; 1; 2; 0; 7; 2; 246] = DOk (VRec [VInt 7; VNone; VNone; VList []; VNone], []) /\
  c_dec (map_codec ms_map_opt) [161; 0; 7] = DErr.
Proof. repeat split; vm_compute; reflexivity. Qed.

(* non-vacuity *)
Example opt_tail_examples :
  (* trailing None fields are dropped, a None in the middle is written as null *)
  enc_schema s_opt_tail (VRec [VInt 7; VNone; VNone; VNone; VNone]) = [129; 7] /\
  enc_schema s_opt_tail (VRec [VInt 7; VNone; VSome (VBytes [1; 2]); VNone; VNone]) = [131; 7; 246; 66; 1; 2] /\
  (* the decoder also accepts nulls at the end and an indefinite array *)
  dec_schema s_opt_tail [133; 7; 246; 246; 246; 246] = DOk (VRec [VInt 7; VNone; VNone; VNone; VNone], []) /\
  dec_schema s_opt_tail [159; 7; 24; 9; 255] = DOk (VRec [VInt 7; VSome (VInt 9); VNone; VNone; VNone], []) /\
  (* a missing required field is an error *)
  dec_schema s_opt_tail [128] = DErr /\
  enc_schema s_certificate_lite (VVar 7 [VVar 0 [VBytes [9]]; VInt 5]) = [131; 7; 130; 0; 65; 9; 5] /\
  dec_schema s_drep [129; 2] = DOk (VVar 2 [], []) /\
  (* an enum arm, unlike a struct, writes its trailing None fields *)
  enc_schema s_flat_opt (VVar 5 [VNone; VNone]) = [131; 5; 246; 246] /\
  dec_schema s_flat_opt [129; 5] = DOk (VVar 5 [VNone; VNone], []).
Proof. repeat split; vm_compute; reflexivity. Qed.
