(* C22 — property theorems only. Statements are pinned by vp/check.py.
   For every modelled protocol P (one model for both stacks, see Model.v):
     P_msg_wellformed : a message in the representable domain ([P_wf]) encodes to exactly
                        ONE well-formed CBOR item (declared container lengths = contents);
     P_msg_dec_enc    : decoding the encoding (followed by any bytes [r]) returns the
                        message and leaves exactly [r]. *)
From PV Require Import Lib.Base Cbor.Item Cbor.Enc Cbor.Dec Cbor.Api C22.Model C22.Proofs C22.Proofs2 C22.Proofs3.
Open Scope Z_scope.

(* keepalive *)
Theorem ka_msg_wellformed : forall m, ka_wf m = true -> exists i, ka_enc m = encode_item i /\ wf_item i = true.
Proof. exact ka_wellformed. Qed.
Theorem ka_msg_dec_enc : forall m r, ka_wf m = true -> ka_dec (ka_enc m ++ r) = DOk (m, r).
Proof. exact ka_dec_enc. Qed.

(* blockfetch *)
Theorem bf_msg_wellformed : forall m, bf_wf m = true -> exists i, bf_enc m = encode_item i /\ wf_item i = true.
Proof. exact bf_wellformed. Qed.
Theorem bf_msg_dec_enc : forall m r, bf_wf m = true -> bf_dec (bf_enc m ++ r) = DOk (m, r).
Proof. exact bf_dec_enc. Qed.

(* chainsync, HeaderContent (node-to-node) *)
Theorem csh_msg_wellformed : forall m, csh_wf m = true -> exists i, csh_enc m = encode_item i /\ wf_item i = true.
Proof. exact csh_wellformed. Qed.
Theorem csh_msg_dec_enc : forall m r, csh_wf m = true -> csh_dec (csh_enc m ++ r) = DOk (m, r).
Proof. exact csh_dec_enc. Qed.

(* chainsync, BlockContent (node-to-client) *)
Theorem csb_msg_wellformed : forall m, csb_wf m = true -> exists i, csb_enc m = encode_item i /\ wf_item i = true.
Proof. exact csb_wellformed. Qed.
Theorem csb_msg_dec_enc : forall m r, csb_wf m = true -> csb_dec (csb_enc m ++ r) = DOk (m, r).
Proof. exact csb_dec_enc. Qed.

(* chainsync, SkippedContent *)
Theorem css_msg_wellformed : forall m, css_wf m = true -> exists i, css_enc m = encode_item i /\ wf_item i = true.
Proof. exact css_wellformed. Qed.
Theorem css_msg_dec_enc : forall m r, css_wf m = true -> css_dec (css_enc m ++ r) = DOk (m, r).
Proof. exact css_dec_enc. Qed.

(* txsubmission *)
Theorem ts_msg_wellformed : forall m, ts_wf m = true -> exists i, ts_enc m = encode_item i /\ wf_item i = true.
Proof. exact ts_wellformed. Qed.
Theorem ts_msg_dec_enc : forall m r, ts_wf m = true -> ts_dec (ts_enc m ++ r) = DOk (m, r).
Proof. exact ts_dec_enc. Qed.

(* handshake node-to-node *)
Theorem hsn_msg_wellformed : forall m, hsn_wf m = true -> exists i, hsn_enc m = encode_item i /\ wf_item i = true.
Proof. exact hsn_wellformed. Qed.
Theorem hsn_msg_dec_enc : forall m r, hsn_wf m = true -> hsn_dec (hsn_enc m ++ r) = DOk (m, r).
Proof. exact hsn_dec_enc. Qed.

(* handshake node-to-client *)
Theorem hsc_msg_wellformed : forall m, hsc_wf m = true -> exists i, hsc_enc m = encode_item i /\ wf_item i = true.
Proof. exact hsc_wellformed. Qed.
Theorem hsc_msg_dec_enc : forall m r, hsc_wf m = true -> hsc_dec (hsc_enc m ++ r) = DOk (m, r).
Proof. exact hsc_dec_enc. Qed.

(* localstate (framing; query/result opaque items) *)
Theorem ls_msg_wellformed : forall m, ls_wf m = true -> exists i, ls_enc m = encode_item i /\ wf_item i = true.
Proof. exact ls_wellformed. Qed.
Theorem ls_msg_dec_enc : forall m r, ls_wf m = true -> ls_dec (ls_enc m ++ r) = DOk (m, r).
Proof. exact ls_dec_enc. Qed.

(* localtxsubmission (framing; reject reason an opaque item) *)
Theorem ltx_msg_wellformed : forall m, ltx_wf m = true -> exists i, ltx_enc m = encode_item i /\ wf_item i = true.
Proof. exact ltx_wellformed. Qed.
Theorem ltx_msg_dec_enc : forall m r, ltx_wf m = true -> ltx_dec (ltx_enc m ++ r) = DOk (m, r).
Proof. exact ltx_dec_enc. Qed.

(* txmonitor *)
Theorem tm_msg_wellformed : forall m, tm_wf m = true -> exists i, tm_enc m = encode_item i /\ wf_item i = true.
Proof. exact tm_wellformed. Qed.
Theorem tm_msg_dec_enc : forall m r, tm_wf m = true -> tm_dec (tm_enc m ++ r) = DOk (m, r).
Proof. exact tm_dec_enc. Qed.

(* leiosnotify (network2) *)
Theorem ln_msg_wellformed : forall m, ln_wf m = true -> exists i, ln_enc m = encode_item i /\ wf_item i = true.
Proof. exact ln_wellformed. Qed.
Theorem ln_msg_dec_enc : forall m r, ln_wf m = true -> ln_dec (ln_enc m ++ r) = DOk (m, r).
Proof. exact ln_dec_enc. Qed.

(* leiosfetch (network2) *)
Theorem lf_msg_wellformed : forall m, lf_wf m = true -> exists i, lf_enc m = encode_item i /\ wf_item i = true.
Proof. exact lf_wellformed. Qed.
Theorem lf_msg_dec_enc : forall m r, lf_wf m = true -> lf_dec (lf_enc m ++ r) = DOk (m, r).
Proof. exact lf_dec_enc. Qed.

(* peersharing; pb = bound of the stack's Port type (2^32 pallas-network, 2^16 pallas-network2) *)
Theorem ps_msg_wellformed : forall pb m, pb <= u64b -> ps_wf pb m = true -> exists i, ps_enc m = encode_item i /\ wf_item i = true.
Proof. intros pb m. exact (ps6_wellformed pb m). Qed.
Theorem ps_msg_dec_enc : forall pb m r, pb <= u64b -> ps_wf pb m = true -> ps_dec pb (ps_enc m ++ r) = DOk (m, r).
Proof. intros pb m r. exact (ps6_dec_enc pb m r). Qed.

(* the tree before the repair (both stacks): PeerAddress::V6 declared array(8) and wrote six items *)
Theorem peeraddr_v6_malformed_refuted : exists m, ps_wf u16b m = true /\ ~ (exists i, ps_enc_pre m = encode_item i /\ wf_item i = true).
Proof. exact ps_pre_refuted. Qed.

(* inside the domain the HeaderContent encoder never refuses *)
Theorem csh_msg_encodable : forall m, csh_wf m = true -> csh_enc_err m = false.
Proof. exact csh_no_err. Qed.

(* the four u32 words of an IPv6 address recombine to the address *)
Theorem v6_words_roundtrip : forall bits, 0 <= bits < u128b -> v6_join (v6_word1 bits) (v6_word2 bits) (v6_word3 bits) (v6_word4 bits) = bits.
Proof. exact v6_join_words. Qed.

(* localmsgsubmission (DMQ; localtxsubmission framing with DmqMsg / DmqMsgValidationError) *)
Theorem lms_msg_wellformed : forall m, lms_wf m = true -> exists i, lms_enc m = encode_item i /\ wf_item i = true.
Proof. exact lms_wellformed. Qed.
Theorem lms_msg_dec_enc : forall m r, lms_wf m = true -> lms_dec (lms_enc m ++ r) = DOk (m, r).
Proof. exact lms_dec_enc. Qed.

(* localmsgnotification (DMQ) *)
Theorem lmn_msg_wellformed : forall m, lmn_wf m = true -> exists i, lmn_enc m = encode_item i /\ wf_item i = true.
Proof. exact lmn_wellformed. Qed.
Theorem lmn_msg_dec_enc : forall m r, lmn_wf m = true -> lmn_dec (lmn_enc m ++ r) = DOk (m, r).
Proof. exact lmn_dec_enc. Qed.

(* localstate queries_v16 Request framing, parameterless queries *)
Theorem lq_msg_wellformed : forall m, lq_wf m = true -> exists i, lq_enc m = encode_item i /\ wf_item i = true.
Proof. exact lq_wellformed. Qed.
Theorem lq_msg_dec_enc : forall m r, lq_wf m = true -> lq_dec (lq_enc m ++ r) = DOk (m, r).
Proof. exact lq_dec_enc. Qed.

(* chainsync / handshake are generic in their content / version-data codec: both theorems hold
   for ANY such codec that itself writes one well-formed item and round-trips *)
Theorem cs_msg_generic : forall (C : Type) (encC : C -> list Z) (decC : list Z -> dres (C * list Z)) (wfC : C -> bool), (forall c, wfC c = true -> exists i, encC c = encode_item i /\ wf_item i = true) -> (forall c r, wfC c = true -> decC (encC c ++ r) = DOk (c, r)) -> forall m, cs_wf wfC m = true -> (exists i, cs_enc encC m = encode_item i /\ wf_item i = true) /\ (forall r, cs_dec decC (cs_enc encC m ++ r) = DOk (m, r)).
Proof.
  intros C encC decC wfC He Hr m Hm. split.
  - exact (cs_wellformed encC decC wfC He Hr m Hm).
  - intros r. exact (cs_dec_enc encC decC wfC He Hr m r Hm).
Qed.
Theorem hs_msg_generic : forall (D : Type) (encD : D -> list Z) (decD : list Z -> dres (D * list Z)) (wfD : D -> bool), (forall d, wfD d = true -> exists i, encD d = encode_item i /\ wf_item i = true) -> (forall d r, wfD d = true -> decD (encD d ++ r) = DOk (d, r)) -> forall m, hs_wf wfD m = true -> (exists i, hs_enc encD m = encode_item i /\ wf_item i = true) /\ (forall r, hs_dec decD (hs_enc encD m ++ r) = DOk (m, r)).
Proof.
  intros D encD decD wfD He Hr m Hm. split.
  - exact (hs_wellformed encD decD wfD He Hr m Hm).
  - intros r. exact (hs_dec_enc encD decD wfD He Hr m r Hm).
Qed.

(* non-vacuity: non-trivial messages inside the domains, with their encodings *)
Example ps_example :
  ps_wf u16b (PsSharePeers [PaV6 1 3001; PaV4 2130706433 80]) = true /\
  ps_enc (PsSharePeers [PaV6 1 3001]) = [130; 1; 159; 134; 1; 0; 0; 0; 1; 25; 11; 185; 255].
Proof. split; reflexivity. Qed.
Example cs_example :
  csh_wf (CsRollForward (Header 0 (Some (1, 7)) [1; 2]) (Tip (Specific 5 [9]) 6)) = true /\
  csb_wf (CsFindIntersect [Origin; Specific 300 [1; 2; 3]]) = true.
Proof. split; reflexivity. Qed.
Example hs_example :
  hsn_wf (HsPropose [(13, N2nData 764824073 true (Some 0) (Some false)); (14, N2nData 764824073 false None None)]) = true /\
  hsc_wf (HsAccept 32784 (764824073, Some false)) = true /\
  hsn_wf (HsRefuse (RRefused 14 [226; 130; 172])) = true.
Proof. repeat split; reflexivity. Qed.
Example misc_example :
  ts_wf (TsReplyTxIds [((6, [1; 2]), 300)]) = true /\ tm_wf (TmResponseNextTx (Some (6, [130; 0; 1]))) = true /\
  ls_wf (LsQuery [130; 0; 159; 1; 255]) = true /\ lf_wf (LfBlockTxs Origin [(0, 5); (3, 1)] [[1]; [129; 2]]) = true.
Proof. repeat split; reflexivity. Qed.
Example dmq_example :
  lms_wf (LmsReject (DrInvalid [75; 69; 83])) = true /\ lq_wf (LqBlock 6 3) = true /\
  lmn_wf (LmnReplyNonBlocking [DmqMsg [1] [2; 3] 7 8 [9] [10] 0 0 [11] [12]] true) = true /\
  lq_enc (LqBlock 6 3) = [130; 0; 130; 0; 130; 6; 129; 3].
Proof. repeat split; reflexivity. Qed.
