//! C33: phase-1 validation is total (never panics).
//! Structural mutations of the accepted fixtures of pallas-validate/tests (all five eras) are fed
//! to the real `validate_tx` and to every rule function of the era validator; a panic anywhere is
//! an oracle failure keyed by `<era>.<rule fn>:<panic class>`.
#[path = "../validate_fx.rs"]
mod vfx;
#[path = "../validate_common.rs"]
mod vc;
#[path = "../validate_mut.rs"]
mod vm;
#[path = "../validate_obs.rs"]
mod vo;
#[path = "../validate_abs.rs"]
mod va;
#[path = "../validate_certs.rs"]
mod vcert;
#[path = "../validate_mut2.rs"]
mod vm2;
use vc::*;
use verif_harness::*;
use vfx::*;
use vo::*;

fn main() {
    let args = args();
    install_panic_hook();
    let mut profile = String::from("dev");
    let mut i = 0;
    while i < args.extra.len() { if args.extra[i] == "--profile" { profile = args.extra[i + 1].clone(); i += 1 } i += 1 }
    let mut rng = Rng::new(args.seed ^ if profile == "release" { 0x5151 } else { 0 });
    let fixtures = all_fixtures();
    let muts = vm::all_mutators();
    // lift every fixture once
    let mut base: Vec<(&'static str, Scen)> = vec![];
    for (name, fx) in &fixtures {
        fx(&mut |tx, utxos, env, cs| { base.push((name, lift(tx, utxos, env, cs))) });
    }
    // corpus: minimised / past failing scenarios are replayed first
    let mut corpus: Vec<(&'static str, Scen)> = vec![];
    let cdir = std::path::Path::new(&std::env::var("VERIF_DIR").unwrap_or("/verif".into())).join("corpus/C33");
    if let Ok(rd) = std::fs::read_dir(&cdir) {
        let mut files: Vec<_> = rd.filter_map(|e| e.ok()).map(|e| e.path()).collect(); files.sort();
        for f in files { if let Ok(txt) = std::fs::read_to_string(&f) { for l in txt.lines() { if let Some(x) = scen_parse(l, &base, &clone_scen) { corpus.push(x) } } } }
    }
    emit_stat("corpus_scenarios", corpus.len() as u64);
    // deterministic boundary sweep over every fixture: mint quantities at the i64 boundaries for assets
    // the inputs do / do not hold, N-of-K thresholds, empty and one-byte addresses on every UTxO path
    let mut n_sweep = 0u64;
    for (name, b) in &base {
        for (label, mut sc) in vm2::sweep(b, &mut rng) { sc.trail.push(label); corpus.push((*name, sc)); n_sweep += 1 }
    }
    emit_stat("boundary_sweep_scenarios", n_sweep);
    let mut n_undecodable = 0u64; let mut n_run = 0u64; let mut n_accept = 0u64; let mut n_panic = 0u64;
    let mut seen = std::collections::HashSet::new();
    let nfix = base.len() + corpus.len();
    let total = args.n + nfix;
    for it in 0..total {
        // the unmutated fixtures and the corpus first
        let (fname, b) = if it < base.len() { (&base[it].0, &base[it].1) } else if it < nfix { (&corpus[it - base.len()].0, &corpus[it - base.len()].1) }
                         else { let k = rng.below(base.len() as u64) as usize; (&base[k].0, &base[k].1) };
        let mut s = clone_scen(b);
        if it < nfix && it >= base.len() { s.trail = if b.trail.is_empty() { vec!["corpus".into()] } else { b.trail.clone() } }
        if it >= nfix {
            let k = 1 + rng.below(3);
            let mut applied = 0; let mut tries = 0;
            while applied < k && tries < 40 {
                tries += 1;
                let (mn, m) = rng.pick(&muts);
                if m(&mut s, &mut rng) { s.trail.push(mn.to_string()); applied += 1 }
            }
            if rng.chance(2, 5) && vm::resign(&mut s, &mut rng) { s.trail.push("resign".into()) }
        }
        let trail = s.trail.join("+");
        let r = materialize(&s, |tx, metx, utxos, env| {
            let o = observe(&tx, metx, utxos, env, &s.cs, s.counts);
            let term = if args.oracle_only { String::new() } else {
                let bw: Vec<pallas_primitives::byron::Twit> = if let AnyTx::Byron(p) = &tx { p.witness.iter().cloned().collect() } else { vec![] };
                // the abstraction calls public helpers of the implementation (sizes, hashes): a panic there is an
                // implementation panic too and must surface as an oracle failure, never kill the harness
                match guard_total(|| format!("({},{},{},{},{},{})", coq_bool(profile != "release"), va::tx_term(&tx, metx, utxos, env, &o, &s.cs, s.counts), va::utxo_term(utxos, &bw), va::env_term(env),
                        o.e2e.coq(), coq_list(&o.checks, |c| c.1.coq()))) {
                    Out::Ok(t) => t,
                    Out::Panic(m) => { emit_oracle_fail(&format!("{}.abstraction-helper:{}@{}", fam_name(&tx), msg_class(&m), last_site()), &format!("profile={} mutators={} panic={} {}", profile, s.trail.join("+"), m, scen_text(&s, "?"))); String::new() }
                    Out::Err(_) => String::new(),
                }
            };
            (fam_name(&tx), o, term)
        });
        let Some((fam, o, term)) = r else { n_undecodable += 1; continue };
        n_run += 1;
        if o.e2e == Oc::Ok { n_accept += 1 }
        if !args.oracle_only {
            let tag = if it < base.len() { format!("{}:fixture", fam) } else if it < nfix { format!("{}:{}", fam, if trail.starts_with("sweep") { trail.split('(').next().unwrap_or("sweep") } else { "corpus" }) }
                      else { format!("{}:{}", fam, match &o.e2e { Oc::Ok => "mutant-accepted".to_string(), Oc::Err(c) => format!("mutant-err{}", c / 100 * 100), Oc::Panic(_) => "mutant-panic".to_string() }) };
            if !term.is_empty() { emit_case(&tag, &term); }
        }
        let mut any = false;
        for (cn, c) in &o.checks {
            if let Oc::Panic(m) = c {
                any = true;
                let mut p = m.split('@');
                let key = format!("{}.{}:{}@{}", fam, cn, p.next().unwrap_or(""), p.next().unwrap_or(""));
                if seen.insert(key.clone()) || rng.chance(1, 50) {
                    emit_oracle_fail(&key, &format!("profile={} mutators={} rule={} panic={} {}", profile, trail, cn, m, scen_text(&s, fname)));
                }
            }
        }
        if let Oc::Panic(m) = &o.e2e {
            n_panic += 1;
            if !any {
                let mut p = m.split('@');
                let key = format!("{}.validate_tx:{}@{}", fam, p.next().unwrap_or(""), p.next().unwrap_or(""));
                if seen.insert(key.clone()) || rng.chance(1, 50) {
                    emit_oracle_fail(&key, &format!("profile={} mutators={} rule=validate_tx panic={} {}", profile, trail, m, scen_text(&s, fname)));
                }
            }
        }
        if it < 3 + nfix && it >= nfix { emit_sample(&format!("fixture={} mutators={} e2e={:?}", fname, trail, o.e2e)); }
    }
    inventory();
    emit_stat("cases_run", n_run);
    emit_stat("undecodable_mutants_dropped", n_undecodable);
    emit_stat("accepted", n_accept);
    emit_stat("e2e_panics", n_panic);
}


// ---------------------------------------------------------------- inventory of panic-capable sites
/// Functions of the anchored files whose bodies are transcribed in PV.C33.Model / ModelPA. Everything
/// else (certificates and their helpers, native-script evaluation, Byron address-root recomputation,
/// hashing / CBOR-size helpers, script-integrity hash construction) enters the model as data.
const NOT_MODELLED: &[&str] = &[
    "check_native_scripts", "eval_native_script", "redeems", "mk_spending_data", "get_data_to_verify", "mk_byron_address", "get_tx_size",
    "compute_script_integrity_hash", "cost_model_cbor", "cost_model_for_tx", "compute_script_hash", "compute_native_script_hash",
    "compute_plutus_script_hash", "compute_plutus_v1_script_hash", "compute_plutus_v2_script_hash", "compute_plutus_v3_script_hash",
    "get_alonzo_comp_tx_size", "get_babbage_tx_size", "get_conway_tx_size", "get_val_size_in_words", "conway_get_val_size_in_words",
    "get_payment_part", "get_shelley_address", "is_byron_address", "aux_data_from_alonzo_tx", "aux_data_from_babbage_tx", "aux_data_from_conway_tx",
    "get_script_hash_from_reference_input", "sort_reward_accounts", "system_start", "protocol_version", "epoch_length", "slot_length", "validate_txs",
];
fn inventory() {
    // the harness Cargo.toml names the pallas-validate checkout under test
    let manifest = std::fs::read_to_string(concat!(env!("CARGO_MANIFEST_DIR"), "/Cargo.toml")).unwrap_or_default();
    let Some(line) = manifest.lines().find(|l| l.starts_with("pallas-validate")) else { return };
    let Some(a) = line.find("path = \"") else { return };
    let rest = &line[a + 8..];
    let root = &rest[..rest.find('"').unwrap_or(rest.len())];
    let files = ["src/phase1/mod.rs", "src/phase1/byron.rs", "src/phase1/shelley_ma.rs", "src/phase1/alonzo.rs", "src/phase1/babbage.rs", "src/phase1/conway.rs", "src/utils.rs", "src/utils/environment.rs"];
    let kinds: [(&str, fn(&str) -> u64); 6] = [
        ("unwrap_expect", |l| (l.matches(".unwrap()").count() + l.matches(".expect(").count()) as u64),
        ("panic_macro", |l| (l.matches("unreachable!").count() + l.matches("unimplemented!").count() + l.matches("todo!").count() + l.matches("panic!").count()) as u64),
        ("index_or_slice", |l| { let mut n = 0; let b = l.as_bytes(); for i in 1..b.len() { if b[i] == b'[' && (b[i - 1].is_ascii_alphanumeric() || b[i - 1] == b')' || b[i - 1] == b']' || b[i - 1] == b'_') { n += 1 } } n }),
        ("copy_from_slice", |l| l.matches("copy_from_slice").count() as u64),
        ("as_cast", |l| [" as u8", " as u16", " as u32", " as u64", " as u128", " as i64", " as usize"].iter().map(|p| l.matches(p).count()).sum::<usize>() as u64),
        ("unchecked_arith", |l| { if l.trim_start().starts_with("//") { return 0 } [" + ", " - ", " * ", " += ", " -= "].iter().map(|p| l.matches(p).count()).sum::<usize>() as u64 }),
    ];
    let (mut tot, mut modelled) = (0u64, 0u64);
    for f in files {
        let Ok(src) = std::fs::read_to_string(format!("{}/{}", root, f)) else { continue };
        let mut cur = String::new();
        let mut per: std::collections::BTreeMap<&str, (u64, u64)> = Default::default();
        for l in src.lines() {
            if l.starts_with("#[cfg(pallas_verif)]") || l.starts_with("#[cfg(test)]") { break }
            let t = l.trim_start();
            if (l.starts_with("fn ") || l.starts_with("pub fn ") || l.starts_with("    pub fn ") || l.starts_with("    fn ")) && t.contains('(') {
                let s = t.trim_start_matches("pub ").trim_start_matches("fn ");
                cur = s.chars().take_while(|c| c.is_alphanumeric() || *c == '_').collect();
            }
            if t.starts_with("//") || t.starts_with("hex::decode") || t.starts_with('"') { continue }
            for (k, cnt) in kinds.iter() {
                let n = cnt(l); if n == 0 { continue }
                let e = per.entry(k).or_insert((0, 0));
                e.0 += n; if !NOT_MODELLED.contains(&cur.as_str()) && !cur.is_empty() { e.1 += n }
            }
        }
        let fname = f.rsplit('/').next().unwrap().trim_end_matches(".rs");
        for (k, (a, m)) in per { emit_stat(&format!("inventory_{}_{}_sites", fname, k), a); emit_stat(&format!("inventory_{}_{}_in_modelled_fns", fname, k), m); tot += a; modelled += m }
    }
    emit_stat("inventory_total_sites", tot);
    emit_stat("inventory_sites_in_modelled_functions", modelled);
}
