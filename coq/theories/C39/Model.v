(* C39 model: pallas-validate/src/phase1/mod.rs, validate_txs.

     pub fn validate_txs(metxs, env, utxos, cert_state: &mut CertState) -> ValidationResult {
         let mut delta_state: CertState = cert_state.clone();
         for (txix, metx) in metxs.iter().enumerate() {
             validate_tx(metx, txix.try_into().unwrap(), env, utxos, &mut delta_state)?;
         }
         *cert_state = delta_state;
         Ok(())
     }

   Two memory cells are modelled explicitly: the caller's `*cert_state` and the
   local `delta_state`.  `validate_tx` takes `&mut delta_state` and the era
   validators (shelley_ma::check_certificates ...) mutate it IN PLACE while they
   go, also on the path that ends in `Err` (a certificate is applied, then a
   later check of the same transaction fails): so the per-transaction step is a
   function returning the mutated state TOGETHER WITH an optional error, not a
   `result state`.  The model is generic in that step (environment and UTxO set
   are read-only and are part of the step's closure).

   `txix.try_into().unwrap()` converts usize to TransactionIndex = u32 and
   panics from index 2^32 on. *)
From PV Require Import Lib.Base.
Open Scope Z_scope.

Section ValidateTxs.
  Context {St Tx : Type}.
  (* validate_tx(metx, txix, env, utxos, &mut st): state after the call, None = Ok(()) / Some e = Err(e) *)
  Variable step : St -> Z -> Tx -> St * option Z.

  Record mem : Type := { caller : St; delta : St }.

  Definition u32_max : Z := 4294967295.

  (* the for loop; the error / panic leaves the function at once *)
  Fixpoint loop (txix : Z) (m : mem) (txs : list Tx) : mem * outcome unit :=
    match txs with
    | [] => (m, Ok tt)
    | tx :: r =>
        if u32_max <? txix then (m, Panic 1)                      (* try_into().unwrap() *)
        else
          let '(d', res) := step (delta m) txix tx in
          let m' := {| caller := caller m; delta := d' |} in      (* &mut delta_state *)
          match res with
          | Some e => (m', Err e)                                  (* `?` *)
          | None => loop (txix + 1) m' r
          end
    end.

  (* returns the caller's CertState after the call and the call's outcome *)
  Definition validate_txs (cert_state : St) (txs : list Tx) : St * outcome unit :=
    let m0 := {| caller := cert_state; delta := cert_state |} in  (* clone() *)
    let '(m, r) := loop 0 m0 txs in
    match r with
    | Ok _ => (delta m, Ok tt)                                     (* *cert_state = delta_state; Ok(()) *)
    | _ => (caller m, r)
    end.

  (* ---- specification: apply every transaction in order, all must succeed ---- *)
  Fixpoint apply_all (txix : Z) (st : St) (txs : list Tx) : option St :=
    match txs with
    | [] => Some st
    | tx :: r => match step st txix tx with
                 | (st', None) => apply_all (txix + 1) st' r
                 | (_, Some _) => None
                 end
    end.

  (* ---- the variant the property rules out: validating straight on the
          caller's state (no copy) ---- *)
  Fixpoint validate_txs_inplace_from (txix : Z) (cert_state : St) (txs : list Tx) : St * outcome unit :=
    match txs with
    | [] => (cert_state, Ok tt)
    | tx :: r =>
        let '(s', res) := step cert_state txix tx in
        match res with
        | Some e => (s', Err e)
        | None => validate_txs_inplace_from (txix + 1) s' r
        end
    end.
End ValidateTxs.

(* ---- instance used by the correspondence run: states, transactions and
        errors are small identifiers; the step is a finite table observed on
        the real validate_tx ---- *)
Definition table := list ((Z * Z * Z) * (Z * option Z)).   (* (state, txix, tx) -> (state', err) *)

Fixpoint lookup (t : table) (s i x : Z) : option (Z * option Z) :=
  match t with
  | [] => None
  | ((s', i', x'), v) :: r => if (s =? s') && (i =? i') && (x =? x') then Some v else lookup r s i x
  end.

(* an unobserved triple is reported as error -1 (never produced by the harness) *)
Definition table_step (t : table) (s i x : Z) : Z * option Z :=
  match lookup t s i x with Some v => v | None => (s, Some (-1)) end.
