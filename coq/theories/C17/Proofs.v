(* C17 proofs: operators, rounding, comparison, printing. *)
From Coq Require Import QArith Qround.
From PV Require Import Lib.Base Fixed.Model Fixed.Proofs C17.Model.
Open Scope Z_scope.

Lemma pow10_pos p : 0 <= p -> 0 < pow10 p.
Proof. intros. unfold pow10. apply Z.pow_pos_nonneg; lia. Qed.

(* ================= operators ================= *)
Lemma mul_floor_proof a b :
  dec_mul a b = a * b / PREC /\ dec_mul a b * PREC <= a * b < (dec_mul a b + 1) * PREC.
Proof. unfold dec_mul. split; [apply scale_floor | apply scale_spec]. Qed.

Lemma div_trunc_proof a b : b <> 0 ->
  dec_div a b = Ok (Z.quot (a * PREC) b) /\
  forall q, dec_div a b = Ok q ->
    Z.abs q * Z.abs b <= Z.abs a * PREC < (Z.abs q + 1) * Z.abs b /\
    (0 <= a * b -> 0 <= q) /\ (a * b <= 0 -> q <= 0).
Proof.
  intros Hb. unfold dec_div. destruct (b =? 0) eqn:E; [lia|]. split.
  - rewrite fp_div_quot by exact Hb. reflexivity.
  - intros q Hq. inversion Hq; subst q. apply fp_div_spec. exact Hb.
Qed.

Lemma div_zero_panics_proof a : dec_div a 0 = Panic 1.
Proof. reflexivity. Qed.

(* ---- the same facts over the rationals ---- *)

Lemma pow10_34 : pow10 34 = PREC. Proof. reflexivity. Qed.

Lemma add_exact_Q_proof a b : (qval 34 (dec_add a b) == qval 34 a + qval 34 b)%Q.
Proof.
  unfold qval, dec_add, Qeq, Qplus. cbn [Qnum Qden]. rewrite Pos2Z.inj_mul. ring.
Qed.
Lemma sub_exact_Q_proof a b : (qval 34 (dec_sub a b) == qval 34 a - qval 34 b)%Q.
Proof.
  unfold qval, dec_sub, Qeq, Qminus, Qplus, Qopp. cbn [Qnum Qden]. rewrite Pos2Z.inj_mul. ring.
Qed.

Lemma mul_floor_Q_proof a b :
  dec_mul a b = Qfloor (qval 34 a * qval 34 b * inject_Z PREC).
Proof.
  unfold Qfloor, Qmult, qval, inject_Z. cbn [Qnum Qden].
  rewrite !Pos2Z.inj_mul. rewrite pow10_34. rewrite Z2Pos.id by exact PREC_pos.
  rewrite Z.mul_1_r. rewrite Z.div_mul_cancel_r by (pose proof PREC_pos; lia).
  apply mul_floor_proof.
Qed.

(* truncation of the exact quotient: floor when the quotient is >= 0, ceiling when <= 0 *)
Lemma div_trunc_Q_proof a b : b <> 0 ->
  let x := (qval 34 a / qval 34 b * inject_Z PREC)%Q in
  dec_div a b = Ok (if Qle_bool 0 x then Qfloor x else Qceiling x).
Proof.
  intros Hb x. destruct (div_trunc_proof a b Hb) as [-> _]. f_equal.
  assert (Hx : (x == Qmake (a * PREC * Z.sgn b) (Z.to_pos (Z.abs b)))%Q).
  { unfold x, Qdiv, Qinv, qval. cbn [Qnum Qden]. rewrite pow10_34.
    pose proof PREC_pos as HP.
    destruct b as [|b'|b']; [lia| |]; unfold Qeq, Qmult, inject_Z; cbn [Qnum Qden Z.abs Z.sgn Z.to_pos];
      rewrite <- ?Pos2Z.opp_pos, ?Pos2Z.inj_mul, ?Z2Pos.id by exact HP; ring. }
  assert (Hfl : Qfloor x = a * PREC * Z.sgn b / Z.abs b).
  { rewrite (Qfloor_comp _ _ Hx). unfold Qfloor. cbn [Qnum Qden]. rewrite Z2Pos.id by lia. reflexivity. }
  assert (Hce : Qceiling x = - (- (a * PREC * Z.sgn b) / Z.abs b)).
  { rewrite (Qceiling_comp _ _ Hx). unfold Qceiling, Qfloor, Qopp. cbn [Qnum Qden]. rewrite Z2Pos.id by lia. reflexivity. }
  assert (Hle : Qle_bool 0 x = (0 <=? a * PREC * Z.sgn b)).
  { rewrite (Qleb_comp 0%Q 0%Q (Qeq_refl 0%Q) _ _ Hx). unfold Qle_bool. cbn [Qnum Qden]. f_equal; lia. }
  rewrite Hle, Hfl, Hce. clear Hx Hfl Hce Hle x.
  set (n := a * PREC) in *. clearbody n.
  assert (Hq : Z.quot n b = Z.quot (n * Z.sgn b) (Z.abs b)).
  { destruct b as [|b'|b']; [lia| |]; cbn [Z.sgn Z.abs].
    - rewrite Z.mul_1_r. reflexivity.
    - replace (n * -1) with (- n) by ring. rewrite <- (Z.quot_opp_opp n (Z.neg b')) by lia. reflexivity. }
  rewrite Hq. set (k := n * Z.sgn b) in *. clearbody k. assert (Hc : 0 < Z.abs b) by lia.
  set (c := Z.abs b) in *. clearbody c.
  destruct (0 <=? k) eqn:E.
  - apply Z.quot_div_nonneg; lia.
  - rewrite <- (Z.opp_involutive k) at 1. rewrite Z.quot_opp_l by lia.
    rewrite Z.quot_div_nonneg by lia. reflexivity.
Qed.

(* ================= rounding ================= *)
Lemma floor_div p d : 0 <= p -> dec_floor p d = d / pow10 p * pow10 p.
Proof.
  intros Hp. pose proof (pow10_pos p Hp) as Hm. unfold dec_floor. set (m := pow10 p) in *. clearbody m.
  qr d m Hm.
  destruct (d <? 0) eqn:?; destruct (r =? 0) eqn:?; cbn [andb negb].
  - rewrite <- (Z.div_unique_pos d m q 0); lia.
  - rewrite <- (Z.div_unique_pos d m (q - 1) (m + r)); lia.
  - rewrite <- (Z.div_unique_pos d m q r); lia.
  - rewrite <- (Z.div_unique_pos d m q r); lia.
Qed.
Lemma ceil_div p d : 0 <= p -> dec_ceil p d = - ((- d) / pow10 p) * pow10 p.
Proof.
  intros Hp. pose proof (pow10_pos p Hp) as Hm. unfold dec_ceil. set (m := pow10 p) in *. clearbody m.
  qr d m Hm.
  destruct (0 <=? d) eqn:?; destruct (r =? 0) eqn:?; cbn [andb negb].
  - rewrite <- (Z.div_unique_pos (-d) m (-q) 0); lia.
  - rewrite <- (Z.div_unique_pos (-d) m (- q - 1) (m - r)); lia.
  - rewrite <- (Z.div_unique_pos (-d) m (-q) (-r)); lia.
  - rewrite <- (Z.div_unique_pos (-d) m (-q) (-r)); lia.
Qed.
Lemma trunc_quot p d : 0 <= p -> dec_trunc p d = Z.quot d (pow10 p) * pow10 p.
Proof.
  intros Hp. pose proof (pow10_pos p Hp) as Hm. unfold dec_trunc. set (m := pow10 p) in *. clearbody m.
  qr d m Hm. lia.
Qed.

(* floor <= x <= ceil, both integral (multiples of 10^p), each within one unit,
   and they coincide exactly on integral x *)
Lemma floor_ceil_proof p d : 0 <= p ->
  (pow10 p | dec_floor p d) /\ (pow10 p | dec_ceil p d) /\
  dec_floor p d <= d <= dec_ceil p d /\
  d - dec_floor p d < pow10 p /\ dec_ceil p d - d < pow10 p /\
  ((pow10 p | d) -> dec_floor p d = d /\ dec_ceil p d = d).
Proof.
  intros Hp. pose proof (pow10_pos p Hp) as Hm.
  rewrite floor_div, ceil_div by exact Hp. set (m := pow10 p) in *. clearbody m.
  pose proof (Z.div_mod d m ltac:(lia)) as H1. pose proof (Z.mod_pos_bound d m Hm) as H2.
  pose proof (Z.div_mod (-d) m ltac:(lia)) as H3. pose proof (Z.mod_pos_bound (-d) m Hm) as H4.
  split; [exists (d / m); reflexivity|]. split; [exists (- (- d / m)); reflexivity|].
  split; [lia|]. split; [lia|]. split; [lia|].
  intros [k Hk]. subst d. rewrite <- Z.mul_opp_l. rewrite !Z.div_mul by lia. lia.
Qed.

(* trunc: integral, toward zero, within one unit *)
Lemma trunc_proof p d : 0 <= p ->
  (pow10 p | dec_trunc p d) /\ Z.abs (dec_trunc p d) <= Z.abs d /\
  Z.abs (d - dec_trunc p d) < pow10 p /\ 0 <= dec_trunc p d * d.
Proof.
  intros Hp. pose proof (pow10_pos p Hp) as Hm. unfold dec_trunc. set (m := pow10 p) in *. clearbody m.
  pose proof (quot_sign d m) as [Hs1 Hs2].
  qr d m Hm. split; [exists q; lia|].
  destruct (Z_lt_le_dec d 0).
  - specialize (Hrn ltac:(lia)). assert (q <= 0) by (apply Hs2; nia). assert (m * q <= 0) by nia.
    split; [lia|]. split; [lia|]. nia.
  - specialize (Hrp ltac:(lia)). assert (0 <= q) by (apply Hs1; nia). assert (0 <= m * q) by nia.
    split; [lia|]. split; [lia|]. nia.
Qed.

(* round: integral, within one half, ties away from zero *)
Lemma round_proof p d : 0 <= p ->
  (pow10 p | dec_round p d) /\ 2 * Z.abs (dec_round p d - d) <= pow10 p /\
  (2 * Z.abs (dec_round p d - d) = pow10 p -> Z.abs d < Z.abs (dec_round p d)).
Proof.
  intros Hp. pose proof (pow10_pos p Hp) as Hm. unfold dec_round. set (m := pow10 p) in *. clearbody m.
  qr d m Hm.
  destruct (m <=? Z.abs r * 2) eqn:E1; [destruct (d <? 0) eqn:E2|].
  - split; [exists (q - 1); lia|]. split; lia.
  - split; [exists (q + 1); lia|]. split; lia.
  - split; [exists q; lia|]. split; lia.
Qed.

(* integral values are fixed points of all four *)
Lemma round_integral_proof p d : 0 <= p -> (pow10 p | d) ->
  dec_round p d = d /\ dec_trunc p d = d.
Proof.
  intros Hp [k Hk]. pose proof (pow10_pos p Hp) as Hm. unfold dec_round, dec_trunc.
  set (m := pow10 p) in *. clearbody m. subst d. rewrite Z.rem_mul by lia.
  cbn [Z.abs]. destruct (m <=? 0 * 2) eqn:E; lia.
Qed.

(* the code before the fix: wrong at precision 0, same as the fixed code from 1 on *)
Lemma round_before_fix_refuted_proof :
  exists p d, 0 <= p /\ ~ (2 * Z.abs (dec_round_before_fix p d - d) <= pow10 p).
Proof. exists 0, 5. vm_compute. split; intros H; discriminate H || (apply H; reflexivity). Qed.

Lemma round_before_fix_prec0 d : dec_round_before_fix 0 d = if d <? 0 then d - 1 else d + 1.
Proof.
  unfold dec_round_before_fix. change (pow10 0) with 1. rewrite Z.rem_1_r. cbn [Z.abs].
  change (Z.quot 1 2) with 0. cbn. destruct (d <? 0); lia.
Qed.

Lemma pow10_even p : 1 <= p -> pow10 p = 2 * Z.quot (pow10 p) 2.
Proof.
  intros Hp. unfold pow10. replace p with (Z.succ (p - 1)) by lia. rewrite Z.pow_succ_r by lia.
  replace (10 * 10 ^ (p - 1)) with (5 * 10 ^ (p - 1) * 2) by ring. rewrite Z.quot_mul by lia. ring.
Qed.
Lemma round_before_fix_same p d : 1 <= p -> dec_round_before_fix p d = dec_round p d.
Proof.
  intros Hp. unfold dec_round_before_fix, dec_round. pose proof (pow10_even p Hp) as He.
  set (m := pow10 p) in *. set (h := Z.quot m 2) in *. clearbody h.
  replace (h <=? Z.abs (Z.rem d m)) with (m <=? Z.abs (Z.rem d m) * 2) by lia. reflexivity.
Qed.

(* ================= comparison ================= *)

Lemma cmp_agrees_Q_proof p d1 d2 :
  dec_cmp p d1 p d2 = ord_z (qval p d1 ?= qval p d2)%Q /\
  (dec_eqb p d1 p d2 = true <-> (qval p d1 == qval p d2)%Q).
Proof.
  unfold dec_cmp, dec_eqb, qval, Qcompare, Qeq. cbn [Qnum Qden]. rewrite Z.eqb_refl. cbn [negb andb].
  set (P := Z.to_pos (pow10 p)). split.
  - rewrite <- Zmult_compare_compat_r by lia. reflexivity.
  - rewrite Z.eqb_eq. split; [intros ->; reflexivity | intros H; nia].
Qed.

(* ================= printing ================= *)
Lemma fold_value s a :
  fold_left (fun a c => 10 * a + (c - 48)) s a = a * 10 ^ Z.of_nat (length s) + digits_value s.
Proof.
  unfold digits_value. revert a. induction s as [|c s IH]; intros a; cbn [fold_left length].
  - cbn. lia.
  - rewrite IH. rewrite (IH (10 * 0 + (c - 48))). rewrite Nat2Z.inj_succ, Z.pow_succ_r by lia. ring.
Qed.
Lemma digits_value_app a b :
  digits_value (a ++ b) = digits_value a * 10 ^ Z.of_nat (length b) + digits_value b.
Proof. unfold digits_value at 1. rewrite fold_left_app. rewrite fold_value. reflexivity. Qed.

Lemma digits_aux_spec f : forall n acc, (0 < f)%nat -> 0 <= n < 2 ^ Z.of_nat f ->
  exists l, digits_aux f n acc = l ++ acc /\ forallb is_digit l = true /\ l <> [] /\ digits_value l = n /\
    (forall k, (1 <= k)%nat -> n < 10 ^ Z.of_nat k -> (length l <= k)%nat).
Proof.
  induction f as [|f IH]; intros n acc Hf Hn; [lia|].
  cbn [digits_aux]. destruct (n <? 10) eqn:E.
  - exists [48 + n mod 10]. split; [reflexivity|]. split; [cbn; unfold is_digit; lia|].
    split; [discriminate|]. split; [unfold digits_value; cbn; lia|]. intros k Hk _. cbn. lia.
  - assert (Hn10 : 1 <= n / 10) by lia.
    assert (Hlt : n / 10 < 2 ^ Z.of_nat f).
    { rewrite Nat2Z.inj_succ, Z.pow_succ_r in Hn by lia. lia. }
    assert (Hf' : (0 < f)%nat).
    { destruct f; [cbn in Hlt; lia | lia]. }
    destruct (IH (n / 10) ((48 + n mod 10) :: acc) Hf' ltac:(lia)) as (l & E1 & E2 & E3 & E4 & E5).
    exists (l ++ [48 + n mod 10]). split; [rewrite E1, <- app_assoc; reflexivity|].
    split; [rewrite forallb_app, E2; cbn; unfold is_digit; lia|].
    split; [destruct l; discriminate|].
    split; [rewrite digits_value_app, E4; unfold digits_value; cbn; lia|].
    intros k Hk Hnk. rewrite app_length. cbn [length].
    destruct k as [|k]; [lia|]. destruct k as [|k]; [cbn in Hnk; lia|].
    assert (length l <= S k)%nat; [|lia]. apply E5; [lia|].
    rewrite (Nat2Z.inj_succ (S k)), Z.pow_succ_r in Hnk by lia. lia.
Qed.

Lemma digits_spec n : 0 <= n ->
  forallb is_digit (digits n) = true /\ digits n <> [] /\ digits_value (digits n) = n /\
  (forall k, (1 <= k)%nat -> n < 10 ^ Z.of_nat k -> (length (digits n) <= k)%nat).
Proof.
  intros Hn. unfold digits.
  destruct (digits_aux_spec (S (Z.to_nat (Z.log2 n))) n []) as (l & E1 & E2 & E3 & E4 & E5); [lia| |].
  - split; [lia|]. rewrite Nat2Z.inj_succ, Z2Nat.id by apply Z.log2_nonneg.
    destruct (Z.eq_dec n 0) as [->|]; [cbn; lia|]. apply Z.log2_spec. lia.
  - rewrite app_nil_r in E1. rewrite E1. auto.
Qed.

Lemma repeat0_value j : digits_value (repeat 48 j) = 0.
Proof.
  induction j as [|j IH]; [reflexivity|]. cbn [repeat]. change (48 :: repeat 48 j) with ([48] ++ repeat 48 j).
  rewrite digits_value_app, IH. unfold digits_value. cbn. lia.
Qed.
Lemma repeat0_digits j : forallb is_digit (repeat 48 j) = true.
Proof. induction j as [|j IH]; [reflexivity|]. cbn [repeat forallb]. rewrite IH. reflexivity. Qed.

Lemma pad0_spec w s : forallb is_digit s = true ->
  forallb is_digit (pad0 w s) = true /\ digits_value (pad0 w s) = digits_value s /\
  length (pad0 w s) = Nat.max (Z.to_nat w) (length s).
Proof.
  intros Hs. unfold pad0. split; [rewrite forallb_app, repeat0_digits, Hs; reflexivity|]. split.
  - rewrite digits_value_app, repeat0_value. lia.
  - rewrite app_length, repeat_length. lia.
Qed.

Lemma split_dot_app i f : forall acc, forallb is_digit i = true ->
  split_dot (i ++ 46 :: f) acc = Some (rev acc ++ i, f).
Proof.
  induction i as [|c i IH]; intros acc Hi; cbn [app split_dot].
  - rewrite Z.eqb_refl. rewrite app_nil_r. reflexivity.
  - cbn [forallb] in Hi. apply andb_true_iff in Hi as [Hc Hi]. unfold is_digit in Hc.
    destruct (c =? 46) eqn:E; [lia|]. rewrite IH by exact Hi. cbn [rev]. rewrite <- app_assoc. reflexivity.
Qed.

Lemma unsigned_value_spec i f : forallb is_digit i = true -> forallb is_digit f = true ->
  i <> [] -> f <> [] ->
  unsigned_value (i ++ 46 :: f) = Some (digits_value i * 10 ^ Z.of_nat (length f) + digits_value f, Z.of_nat (length f)).
Proof.
  intros Hi Hf Hin Hfn. unfold unsigned_value. rewrite split_dot_app by exact Hi. cbn [rev app].
  rewrite Hi, Hf. destruct i; [congruence|]. destruct f; [congruence|]. reflexivity.
Qed.

(* the printed string denotes n / 10^k with n / 10^k = d / 10^p; k = p and n = d when p >= 1 *)
Lemma display_value p d : 0 <= p ->
  string_value (display p d) = Some (if p =? 0 then (10 * d, 1) else (d, p)).
Proof.
  intros Hp. pose proof (pow10_pos p Hp) as Hm. unfold display.
  set (m := pow10 p) in *.
  assert (Hq0 : 0 <= Z.abs (Z.quot d m)) by lia. assert (Hr0 : 0 <= Z.abs (Z.rem d m)) by lia.
  destruct (digits_spec _ Hq0) as (Iq1 & Iq2 & Iq3 & _).
  destruct (digits_spec _ Hr0) as (Ir1 & Ir2 & Ir3 & Ir4).
  destruct (pad0_spec p _ Ir1) as (F1 & F2 & F3).
  set (I := digits (Z.abs (Z.quot d m))) in *. set (F := pad0 p (digits (Z.abs (Z.rem d m)))) in *.
  assert (Fne : F <> []).
  { intros E. rewrite E in F3. cbn [length] in F3. destruct (digits (Z.abs (Z.rem d m))); [congruence | cbn [length] in F3; lia]. }
  assert (Hrb : Z.abs (Z.rem d m) < m) by (pose proof (Z.rem_bound_abs d m ltac:(lia)); lia).
  assert (Hlen : Z.of_nat (length F) = if p =? 0 then 1 else p).
  { rewrite F3. destruct (p =? 0) eqn:E.
    - assert (p = 0) by lia. subst p. change (pow10 0) with 1 in m. subst m.
      assert (Z.abs (Z.rem d 1) = 0) by lia. rewrite H. reflexivity.
    - assert (length (digits (Z.abs (Z.rem d m))) <= Z.to_nat p)%nat.
      { apply Ir4; [lia|]. rewrite Z2Nat.id by lia. exact Hrb. }
      lia. }
  assert (Hval : digits_value I * 10 ^ Z.of_nat (length F) + digits_value F
                 = Z.abs d * (if p =? 0 then 10 else 1)).
  { rewrite Iq3, F2, Ir3, Hlen. pose proof (Z.quot_rem' d m) as Hqr.
    pose proof (Z.rem_sign_nz d m) as Hs. pose proof (quot_sign d m) as [Hs1 Hs2].
    assert (Habs : Z.abs d = Z.abs (Z.quot d m) * m + Z.abs (Z.rem d m)).
    { destruct (Z_lt_le_dec d 0).
      - destruct (quot_rem_facts d m Hm) as (_ & _ & Hn). specialize (Hn ltac:(lia)).
        assert (Z.quot d m <= 0) by (apply Hs2; nia). lia.
      - destruct (quot_rem_facts d m Hm) as (_ & Hn & _). specialize (Hn ltac:(lia)).
        assert (0 <= Z.quot d m) by (apply Hs1; nia). lia. }
    destruct (p =? 0) eqn:E.
    - assert (p = 0) by lia. subst p. change (pow10 0) with 1 in m. subst m.
      assert (Z.abs (Z.rem d 1) = 0) by lia. lia.
    - fold (pow10 p). fold m. lia. }
  pose proof (unsigned_value_spec I F Iq1 F1 Iq2 Fne) as HU. rewrite Hval, Hlen in HU.
  destruct (d <? 0) eqn:Ed.
  - cbn [app string_value]. change (45 =? 45) with true. cbn iota.
    change (I ++ [46] ++ F) with (I ++ 46 :: F). rewrite HU.
    destruct (p =? 0); f_equal; f_equal; lia.
  - cbn [app]. change (I ++ [46] ++ F) with (I ++ 46 :: F).
    destruct I as [|c I'] eqn:EI; [congruence|]. cbn [app string_value].
    cbn [forallb] in Iq1. apply andb_true_iff in Iq1 as [Hc _]. unfold is_digit in Hc.
    destruct (c =? 45) eqn:E45; [lia|]. change (c :: I' ++ 46 :: F) with ((c :: I') ++ 46 :: F).
    rewrite HU. destruct (p =? 0); f_equal; f_equal; lia.
Qed.

(* from_str reads back what an integer prints as *)
Lemma from_str_int_string_proof d : from_str (int_string d) = Ok d.
Proof.
  unfold int_string. destruct (digits_spec (Z.abs d) ltac:(lia)) as (D1 & D2 & D3 & _).
  set (I := digits (Z.abs d)) in *. destruct (d <? 0) eqn:E.
  - cbn [app from_str]. change (45 =? 45) with true. cbn iota. rewrite D1.
    destruct I; [congruence|]. cbn [length Nat.eqb negb andb]. rewrite D3. f_equal. lia.
  - cbn [app]. destruct I as [|c I'] eqn:EI; [congruence|]. cbn [from_str].
    pose proof D1 as D1'. cbn [forallb] in D1'. apply andb_true_iff in D1' as [Hc _]. unfold is_digit in Hc.
    destruct (c =? 45) eqn:E45; [lia|]. rewrite D1, D3. f_equal. lia.
Qed.
