(* C06 correspondence: minicbor(-derive) encodes the value to exactly the bytes the schema
   codec produces, and the schema decoder reads them back. The schema is looked up by the
   Rust type's name among the GENERATED schemas (and the four test schemas). *)
From Coq Require String.
From PV Require Import Lib.Base Cbor.Item Cbor.Dec C06.Model C06.Schemas.
From PV Require Generated.Schemas.
Open Scope Z_scope.

Fixpoint value_eqb (a b : value) : bool :=
  let fix go (x y : list value) : bool :=
    match x, y with
    | [], [] => true
    | p :: x', q :: y' => value_eqb p q && go x' y'
    | _, _ => false
    end in
  match a, b with
  | VInt x, VInt y => x =? y
  | VBytes x, VBytes y => list_eqb Z.eqb x y
  | VText x, VText y => list_eqb Z.eqb x y
  | VRaw x, VRaw y => list_eqb Z.eqb x y
  | VBool x, VBool y => Bool.eqb x y
  | VNone, VNone => true
  | VSome x, VSome y => value_eqb x y
  | VList x, VList y => go x y
  | VRec x, VRec y => go x y
  | VVar i x, VVar j y => (i =? j) && go x y
  | _, _ => false
  end.

(* type name, value, the bytes minicbor::to_vec produced, whether minicbor::decode of those
   bytes gave back an equal value *)
Inductive case : Type := CGen (name : String.string) (v : value) (bytes : list Z) (rt : bool).

Definition schema_named (name : String.string) : schema :=
  match lookup_schema name (Generated.Schemas.all_schemas ++ test_schemas) with
  | Some s => s
  | None => SIndexOnly []          (* unknown name: nothing encodes to it, the case fails *)
  end.

Definition case_out (c : case) : list Z * option value :=
  let '(CGen name v _ _) := c in
  let s := schema_named name in
  (enc_schema s v, match dec_schema s (enc_schema s v) with DOk (x, _) => Some x | _ => None end).

Definition case_ok (c : case) : bool :=
  let '(CGen name v bytes rt) := c in
  let s := schema_named name in
  list_eqb Z.eqb (enc_schema s v) bytes && rt &&
  match dec_schema s bytes with DOk (x, r) => value_eqb x v && match r with [] => true | _ => false end | _ => false end.
