(* C05 correspondence: the hashes the model computes (H := the Gallina Blake2b of
   Crypto.Blake2b) for an input pallas accepted must be the hashes pallas reported. *)
From PV Require Import Lib.Base Cbor.Item Cbor.Dec Cbor.Api Crypto.Blake2b C05.Model.
Open Scope Z_scope.

Inductive case : Type :=
| CBlock (bs : list Z) (hh : list Z) (ids : list (list Z))     (* MultiEraBlock::decode: block hash, tx ids *)
| CTx (era : Z) (bs : list Z) (id : list Z) (datums scripts : list (list Z))
      (* MultiEraTx::decode_for_era; era 0 = byron, 1 = shelley..babbage, 2 = conway *)
| CHeader (kind : Z) (bs : list Z) (h : list Z)                (* 0 = EBB, 1 = byron, 2 = shelley and later *)
| CDatum (bs : list Z) (h : list Z)                            (* KeepRaw<PlutusData> *)
| CScript (bs : list Z) (h : list Z).                          (* KeepRaw<NativeScript> *)

Definition hashes_eqb (a b : list (list Z)) : bool := list_eqb (list_eqb Z.eqb) a b.

(* model output: None = rejected; otherwise groups of hashes *)
Definition case_out (c : case) : option (list (list (list Z))) :=
  match c with
  | CBlock bs _ _ =>
    match dec_block blake2b bs with DOk (hh, ids) => Some [[hh]; ids] | _ => None end
  | CTx era bs _ _ _ =>
    match (if era =? 0 then dec_byron_tx blake2b bs else dec_tx blake2b (era =? 2) bs) with
    | DOk t => Some [[txh_id t]; txh_datums t; txh_scripts t]
    | _ => None
    end
  | CHeader kind bs _ => match dec_header blake2b kind bs with DOk h => Some [[h]] | _ => None end
  | CDatum bs _ => match dec_datum blake2b bs with DOk h => Some [[h]] | _ => None end
  | CScript bs _ => match dec_script blake2b bs with DOk h => Some [[h]] | _ => None end
  end.

Definition case_impl (c : case) : list (list (list Z)) :=
  match c with
  | CBlock _ hh ids => [[hh]; ids]
  | CTx _ _ id ds ss => [[id]; ds; ss]
  | CHeader _ _ h | CDatum _ h | CScript _ h => [[h]]
  end.

(* a datum that starts with tag 102 goes through the hand-written Constr branch: the model of
   that branch must accept it and consume all of it (the artefact is exactly one item) *)
Definition constr_ok (c : case) : bool :=
  match c with
  | CDatum bs _ =>
    match d_tag bs with
    | DOk (t, _) =>
      if t =? 102 then
        match dec_constr102 bs with DOk (_, r) => match r with [] => true | _ => false end | _ => false end
      else true
    | _ => true
    end
  | _ => true
  end.

Definition case_ok (c : case) : bool :=
  match case_out c with
  | Some o => list_eqb hashes_eqb o (case_impl c) && constr_ok c
  | None => false
  end.
