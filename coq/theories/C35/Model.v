(* C35 model: the verification-key witness bookkeeping of the phase-1 validators
     pallas-validate/src/utils.rs            mk_alonzo_vk_wits_check_list, verify_signature (abstract)
     pallas-validate/src/phase1/alonzo.rs    check_vkey_input_wits, check_vk_wit, check_remaining_vk_wits,
                                             check_required_signers, find_and_check_req_signer
     babbage.rs / conway.rs                  the same functions (same structure, PostAlonzo errors)
     shelley_ma.rs                           check_witnesses (inputs only; no collateral, no required signers)
   transcribed as repaired by the `fix:` commit recorded for C35 (check_remaining_vk_wits
   goes on to the next witness after a valid one; it used to return Ok at the first valid
   uncovered witness — kept as check_remaining_vk_wits_old).

   A witness is an abstract value; `kh` is the blake2b-224 hash of its verification key and
   `verify` is Ed25519 verification of its signature over the transaction id — both are
   Section variables (external code). A payment credential is Key h or Script. *)
From PV Require Import Lib.Base.
Open Scope Z_scope.

Definition E_WRONG_SIG : Z := 1.     (* VKWrongSignature / WrongSignature *)
Definition E_WIT_MISSING : Z := 2.   (* VKWitnessMissing / MissingVKWitness *)
Definition E_REQ_MISSING : Z := 3.   (* ReqSignerMissing *)
Definition E_REQ_WRONG_SIG : Z := 4. (* ReqSignerWrongSig *)
Definition E_SCRIPT_MISSING : Z := 9. (* MissingScriptWitness (any other error class) *)

Inductive payment : Type := PKey (h : Z) | PScript.

Section Sigs.
Variable W : Type.
Variable kh : W -> Z.
Variable verify : W -> bool.

(* mk_alonzo_vk_wits_check_list: every witness starts uncovered *)
Definition mk_check_list (l : list W) : list (bool * W) := map (fun w => (false, w)) l.

(* check_vk_wit: first witness whose key hashes to h; its signature must verify; mark covered *)
Fixpoint check_vk_wit (h : Z) (ws : list (bool * W)) : outcome (list (bool * W)) :=
  match ws with
  | [] => Err E_WIT_MISSING
  | (c, w) :: r =>
      if kh w =? h then
        if verify w then Ok ((true, w) :: r) else Err E_WRONG_SIG
      else
        match check_vk_wit h r with
        | Ok r' => Ok ((c, w) :: r')
        | Err e => Err e
        | Panic p => Panic p
        end
  end.

(* for input in inputs ++ collaterals: Key h => check_vk_wit h ; Script => ()
   (Shelley-MA: Script => check_native_script_witness, abstracted to the bit script_ok:
    is a native script with that hash among the witnesses; Alonzo+ checks scripts elsewhere) *)
Fixpoint check_inputs (script_ok : bool) (ins : list payment) (ws : list (bool * W)) : outcome (list (bool * W)) :=
  match ins with
  | [] => Ok ws
  | PScript :: r => if script_ok then check_inputs script_ok r ws else Err E_SCRIPT_MISSING
  | PKey h :: r =>
      match check_vk_wit h ws with
      | Ok ws' => check_inputs script_ok r ws'
      | Err e => Err e
      | Panic p => Panic p
      end
  end.

(* check_remaining_vk_wits: every witness not matched to an input must verify too *)
Fixpoint check_remaining_vk_wits (ws : list (bool * W)) : outcome unit :=
  match ws with
  | [] => Ok tt
  | (c, w) :: r =>
      if c then check_remaining_vk_wits r
      else if verify w then check_remaining_vk_wits r      (* `continue` *)
      else Err E_WRONG_SIG
  end.

(* check_vkey_input_wits (Alonzo, Babbage, Conway); ins = payment parts of inputs ++ collaterals *)
Definition check_vkey_input_wits_gen (script_ok : bool) (wits : option (list W)) (ins : list payment) : outcome unit :=
  match wits with
  | None => Err E_WIT_MISSING
  | Some l =>
      match check_inputs script_ok ins (mk_check_list l) with
      | Ok ws => check_remaining_vk_wits ws
      | Err e => Err e
      | Panic p => Panic p
      end
  end.
Definition check_vkey_input_wits := check_vkey_input_wits_gen true.

(* find_and_check_req_signer *)
Fixpoint find_and_check_req_signer (h : Z) (l : list W) : outcome unit :=
  match l with
  | [] => Err E_REQ_MISSING
  | w :: r =>
      if kh w =? h then (if verify w then Ok tt else Err E_REQ_WRONG_SIG)
      else find_and_check_req_signer h r
  end.

Fixpoint check_req_list (req : list Z) (l : list W) : outcome unit :=
  match req with
  | [] => Ok tt
  | h :: r =>
      match find_and_check_req_signer h l with
      | Ok _ => check_req_list r l
      | Err e => Err e
      | Panic p => Panic p
      end
  end.

(* check_required_signers *)
Definition check_required_signers (req : option (list Z)) (wits : option (list W)) : outcome unit :=
  match req with
  | None => Ok tt
  | Some rs =>
      match wits with
      | Some l => check_req_list rs l
      | None => Err E_REQ_MISSING
      end
  end.

(* the witness part of check_witness_set: required signers first, then inputs *)
Definition check_sigs (req : option (list Z)) (wits : option (list W)) (ins : list payment) : outcome unit :=
  match check_required_signers req wits with
  | Ok _ => check_vkey_input_wits wits ins
  | Err e => Err e
  | Panic p => Panic p
  end.

(* Shelley-MA check_witnesses: inputs only (native-script evaluation, which reads only the
   keys of the witnesses, sits between the two steps and is outside this model) *)
Definition check_witnesses_shelley (script_ok : bool) (wits : option (list W)) (ins : list payment) : outcome unit :=
  check_vkey_input_wits_gen script_ok wits ins.

(* ---- before the repair: `return Ok(())` at the first valid uncovered witness *)
Fixpoint check_remaining_vk_wits_old (ws : list (bool * W)) : outcome unit :=
  match ws with
  | [] => Ok tt
  | (c, w) :: r =>
      if c then check_remaining_vk_wits_old r
      else if verify w then Ok tt
      else Err E_WRONG_SIG
  end.
Definition check_vkey_input_wits_old (wits : option (list W)) (ins : list payment) : outcome unit :=
  match wits with
  | None => Err E_WIT_MISSING
  | Some l =>
      match check_inputs true ins (mk_check_list l) with
      | Ok ws => check_remaining_vk_wits_old ws
      | Err e => Err e
      | Panic p => Panic p
      end
  end.

End Sigs.

(* concrete instance used by the runner: a witness is (key hash id, signature valid?) *)
Definition cw : Type := (Z * bool).
Definition out_code (o : outcome unit) : Z :=
  match o with Ok _ => 0 | Err e => e | Panic _ => -1 end.
