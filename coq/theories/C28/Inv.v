(* C28 proofs, part F (Inv): see Proofs.v for the theorem [exec_sync_conformant]. *)
From PV Require Import Lib.Base P2p.Proto P2p.Initiator P2p.Spec C27.Proofs C28.Model.
From PV Require Import C28.Abs C28.Refine C28.Visitors C28.Emit C28.SettleBlock.
Open Scope Z_scope.

Definition PInvS (s : pstate) (x : penv) : Prop :=
  pend x = [] /\ Acc s /\ (live x = true -> Rel s (wire x)) /\ (live x = false -> DefaultProto s).
Definition UInv (x : penv) : Prop := pend x = [] /\ (live x = true -> wire x = w0).
Definition SInv (st : ist) (e : env) : Prop :=
  NoDup (map fst (peers st)) /\
  forall p, match lookup p (peers st) with Some s => PInvS s (eget p e) | None => UInv (eget p e) end.

(* protocol fields equal; the initialised flag may only drop *)
Definition PF (s s1 : pstate) : Prop :=
  (is_init s1 = true -> is_init s = true) /\ hs s1 = hs s /\ ka s1 = ka s /\ ps s1 = ps s /\ bf s1 = bf s /\ cs s1 = cs s /\
  tx s1 = tx s /\ ln s1 = ln s /\ lf s1 = lf s.
Lemma SFi_PF s s1 : SFi s s1 -> PF s s1.
Proof. intros (A1&A2&A3&A4&A5&A6&A7&A8&A9). repeat split; try assumption. intros H. congruence. Qed.
Lemma PF_trans a b c : PF a b -> PF b c -> PF a c.
Proof. intros (A1&A2&A3&A4&A5&A6&A7&A8&A9) (B1&B2&B3&B4&B5&B6&B7&B8&B9). repeat split; try congruence. auto. Qed.
Lemma PF_Rel s s1 w : PF s s1 -> Rel s w -> Rel s1 w.
Proof. intros (A1&A2&A3&A4&A5&A6&A7&A8&A9) (R1&R2&R3&R4&R5&R6&R7). unfold Rel. rewrite A2, A3, A4, A5, A6, A8, A9. repeat split; assumption. Qed.
Lemma PF_Acc s s1 : PF s s1 -> Acc s -> Acc s1.
Proof. intros (A1&A2&A3&A4&A5&A6&A7&A8&A9) A. unfold Acc. rewrite A2, A6. intros [H|H]; apply A; [left; apply A1, H | right; exact H]. Qed.
Lemma PF_Default s s1 : PF s s1 -> DefaultProto s -> DefaultProto s1.
Proof. intros (A1&A2&A3&A4&A5&A6&A7&A8&A9) D. unfold DefaultProto. rewrite A2, A3, A4, A5, A6, A7, A8, A9. exact D. Qed.
Lemma pinv_PF s s1 x : PInvS s x -> PF s s1 -> PInvS s1 x.
Proof.
  intros (P & A & R & D) F. split; [exact P|]. split; [eapply PF_Acc; eassumption|].
  split; [intros L; eapply PF_Rel; [exact F | apply R, L] | intros L; eapply PF_Default; [exact F | apply D, L]].
Qed.
Lemma default_not_init s : DefaultProto s -> Acc s -> is_init s = false.
Proof.
  intros (D1 & _) A. destruct (is_init s) eqn:I; [|reflexivity].
  destruct (A (or_introl I)) as (v & p & H). congruence.
Qed.

(* a step that touched only peer p, whose visit produced the sends [ms] *)
Lemma settle_peer c i e0 st e p s ms :
  NoDup (map fst (peers st)) ->
  (forall q, q <> p -> match lookup q (peers st) with Some t => PInvS t (eget q e) | None => UInv (eget q e) end) ->
  lookup p (peers st) = Some s -> PInvS s (eget p e) ->
  Forall (fun m => proto_of m <> 0 /\ epre s m) ms \/ (live (eget p e) = true /\ Forall (epre s) ms) ->
  NoDup (map proto_of ms) ->
  exists st2 e2, settle c i e0 st e (map (pair p) ms) = inl (st2, e2) /\ SInv st2 e2.
Proof.
  intros ND Oth L (P & A & R & D) F N.
  destruct (live (eget p e)) eqn:Lv.
  - assert (F' : Forall (epre s) ms).
    { destruct F as [F|[_ F]]; [|exact F]. eapply Forall_impl; [|exact F]. cbn. intros m [_ X]; exact X. }
    destruct (settle_block c i e0 p ms st e s [] L P (R eq_refl) A F' N)
      as (st' & e' & s' & H1 & H2 & H3 & H4 & H5 & H6 & H7 & H8 & H9 & H10 & H11 & H12 & H13).
    rewrite app_nil_r in H1. cbn [settle] in H1. exists st', e'. split; [exact H1|].
    split; [rewrite H4; exact ND|]. intros q. destruct (Z.eq_dec q p) as [->|Nq].
    + rewrite H6. split; [exact H9|]. split; [exact H13|].
      unfold live in *. rewrite H10, H11. split; [intros _; exact H12 | intros X; congruence].
    + destruct (H5 q Nq) as [X Y]. rewrite X, Y. apply Oth, Nq.
  - assert (E : ms = []).
    { destruct F as [F|[X _]]; [|discriminate]. destruct ms as [|m r]; [reflexivity|]. exfalso.
      inversion F as [|? ? [Nz Em] _]; subst. exact (default_no_emit s m (D eq_refl) A Nz Em). }
    subst ms. cbn [map settle]. exists st, e. split; [reflexivity|]. split; [exact ND|].
    intros q. destruct (Z.eq_dec q p) as [->|Nq]; [rewrite L; split; [exact P|]; split; [exact A|]; split; [rewrite Lv; exact R | rewrite Lv; exact D] | apply Oth, Nq].
Qed.
