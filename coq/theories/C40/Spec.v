(* C40 specification vocabulary (definitions only): what "the built transaction
   reflects the staged content" and "a redeemer points at its target" mean. *)
From PV Require Import Lib.Base C40.Model.
From Coq Require Import Sorting.Sorted.
Open Scope Z_scope.

Definition input_lt (a b : input) : Prop := fst a < fst b \/ (fst a = fst b /\ snd a < snd b).

Definition entry_in (m : amap) (p : hash) (n : bytes) (q : Z) : Prop :=
  exists l, In (p, l) m /\ In (n, q) l.

Definition names_sorted (l : inner) : Prop := Sorted (fun a b => bytes_leb (fst a) (fst b) = true) l.
Definition policies_sorted (m : amap) : Prop := Sorted (fun a b => (fst a <=? fst b) = true) m.

(* n is m without zero quantities and without emptied policies, in BTreeMap order *)
Definition amap_reflects (m n : amap) : Prop :=
  (forall p nm q, entry_in n p nm q <-> entry_in m p nm q /\ q <> 0) /\
  policies_sorted n /\
  (forall p l, In (p, l) n -> l <> [] /\ names_sorted l).

Definition out_reflects (o : output) (a : aout) : Prop :=
  let '(ad, lov, assets, dat, scr) := a in
  ad = o_addr o /\ lov = o_lovelace o /\ amap_reflects (o_assets o) assets /\
  dat = option_map (fun d => (d_inline d, d_bytes d)) (o_datum o) /\
  scr = option_map (fun s => (s_kind s, s_bytes s)) (o_script o).

(* the built redeemer carries the staged data and budget, and its index addresses the
   staged target in the input list / policy list of the built transaction *)
Definition rdmr_points (ins : list input) (pols : list hash) (pr : purpose * rdmr) (a : ardmr) : Prop :=
  let '(tag, ix, data, mem, steps) := a in
  data = r_data (snd pr) /\ r_ex (snd pr) = Some (mem, steps) /\ 0 <= ix /\
  match fst pr with
  | PSpend i => tag = 0 /\ nth_error ins (Z.to_nat ix) = Some i
  | PMint p => tag = 1 /\ nth_error pols (Z.to_nat ix) = Some p
  end.

Definition has_exunits (st : staging) : Prop := forall pr, In pr (s_rdmrs st) -> r_ex (snd pr) <> None.

Definition inner_wf (l : inner) : Prop := NoDup (map fst l).
Definition amap_wf (m : amap) : Prop := NoDup (map fst m) /\ Forall (fun e => inner_wf (snd e)) m.

(* the quantity staged for (p, n) after a history: mint_asset adds, remove_mint_asset forgets *)
Fixpoint mint_spec (ops : list sop) (cur : option Z) (p : hash) (n : bytes) : option Z :=
  match ops with
  | [] => cur
  | o :: r =>
    mint_spec r
      (match o with
       | OMint p' n' a => if (p' =? p) && bytes_eqb n' n
                          then Some (match cur with Some v => v + a | None => a end) else cur
       | ORemoveMint p' n' => if (p' =? p) && bytes_eqb n' n then None else cur
       | _ => cur
       end) p n
  end.


(* the scripts of language k in the witness set are exactly the staged scripts of that language *)
Definition scripts_reflect (st : staging) (k : Z) (l : list blob) : Prop :=
  forall b, In b l <-> exists key s, In (key, s) (s_scripts st) /\ s_kind s = k /\ s_bytes s = b.

(* every staged field appears in the built transaction, and nothing else *)
Definition reflects (st : staging) (t : atx) : Prop :=
  StronglySorted input_lt (t_inputs t) /\ (forall i, In i (t_inputs t) <-> In i (s_inputs st)) /\
  Forall2 out_reflects (s_outputs st) (t_outputs t) /\
  t_fee t = match s_fee st with Some f => f | None => 0 end /\
  t_ttl t = s_ifrom st /\ t_vstart t = s_vfrom st /\
  amap_reflects (s_mint st) (t_mint t) /\
  t_collateral t = s_colls st /\ t_refs t = s_refs st /\ t_signers t = s_signers st /\
  t_network t = s_net st /\
  match s_collout st, t_collret t with
  | Some o, Some a => out_reflects o a
  | None, None => True
  | _, _ => False
  end /\
  scripts_reflect st 0 (t_native t) /\ scripts_reflect st 1 (t_pv1 t) /\
  scripts_reflect st 2 (t_pv2 t) /\ scripts_reflect st 3 (t_pv3 t) /\
  t_datums t = map (fun e => fst (snd e)) (s_datums st) /\
  t_aux t = s_aux st /\ t_sdh t = s_lv st.
