(* P2p/Responder.v — shared by C29 (and available to C28's environment).
   pallas-network2/src/behavior/responder/{mod,connection,handshake,keepalive,
   chainsync,blockfetch,peersharing,txsubmission,leiosnotify,leiosfetch}.rs as
   an event-driven state machine, transcribed branch for branch.  A peer id p
   stands for PeerId { host = p / 16, port = p mod 16 } (so several peers share
   a host and the per-IP limit is reachable).  The housekeeping loop takes the
   HashMap iteration order from the event.  Arithmetic that can overflow in a
   debug build and the table index in the handshake negotiation are explicit
   [Panic]s.  Definitions only. *)
From PV Require Import Lib.Base P2p.Proto P2p.Initiator.
Open Scope Z_scope.

Definition P_R_ERRC := 11.     (* error_count += 1 (u32)                     responder/mod.rs on_errored *)
Definition P_R_COUNT := 12.    (* *count += 1 (usize)                        responder/connection.rs visit_connected *)
Definition P_R_ACTIVE := 13.   (* active_peers += 1 (usize)                  responder/connection.rs visit_connected *)
Definition P_R_INDEX := 14.    (* supported_version.values[num]              responder/handshake.rs try_accept_handshake *)
Definition USIZE_MAX := 18446744073709551615.

Record rcfg := mkRCfg { rmax_err : Z; rmax_ip : Z; rvers : list (Z * Z) }.   (* versions: (number, network magic) *)

Record rstate := mkR {
  rconn : conn_state;
  rhs : hs_state; rka : ka_state; rps : ps_state; rbf : bf_state; rcs : cs_state;
  rtx : tx_state; rln : ln_state; rlf : lf_state;
  rviol : bool; rerrc : Z }.
Definition rnew : rstate :=
  mkR CNew HsSPropose (KaSClient None) (PsSIdle None) BfSIdle (CsSIdle CdNew) TxSInit (LnSIdle None) (LfSIdle None) false 0.
Definition rset_conn x s := mkR x (rhs s) (rka s) (rps s) (rbf s) (rcs s) (rtx s) (rln s) (rlf s) (rviol s) (rerrc s).
Definition rset_hs x s := mkR (rconn s) x (rka s) (rps s) (rbf s) (rcs s) (rtx s) (rln s) (rlf s) (rviol s) (rerrc s).
Definition rset_ka x s := mkR (rconn s) (rhs s) x (rps s) (rbf s) (rcs s) (rtx s) (rln s) (rlf s) (rviol s) (rerrc s).
Definition rset_ps x s := mkR (rconn s) (rhs s) (rka s) x (rbf s) (rcs s) (rtx s) (rln s) (rlf s) (rviol s) (rerrc s).
Definition rset_bf x s := mkR (rconn s) (rhs s) (rka s) (rps s) x (rcs s) (rtx s) (rln s) (rlf s) (rviol s) (rerrc s).
Definition rset_cs x s := mkR (rconn s) (rhs s) (rka s) (rps s) (rbf s) x (rtx s) (rln s) (rlf s) (rviol s) (rerrc s).
Definition rset_tx x s := mkR (rconn s) (rhs s) (rka s) (rps s) (rbf s) (rcs s) x (rln s) (rlf s) (rviol s) (rerrc s).
Definition rset_ln x s := mkR (rconn s) (rhs s) (rka s) (rps s) (rbf s) (rcs s) (rtx s) x (rlf s) (rviol s) (rerrc s).
Definition rset_lf x s := mkR (rconn s) (rhs s) (rka s) (rps s) (rbf s) (rcs s) (rtx s) (rln s) x (rviol s) (rerrc s).
Definition rset_viol x s := mkR (rconn s) (rhs s) (rka s) (rps s) (rbf s) (rcs s) (rtx s) (rln s) (rlf s) x (rerrc s).
Definition rset_errc x s := mkR (rconn s) (rhs s) (rka s) (rps s) (rbf s) (rcs s) (rtx s) (rln s) (rlf s) (rviol s) x.

Definition r_is_init (s : rstate) : bool := match rconn s with CInitialized => true | _ => false end.

Definition rvia {S} (r : option S) (setter : S -> rstate -> rstate) (s : rstate) : rstate :=
  match r with Some n => setter n s | None => rset_viol true s end.
Definition r_apply_msg (s : rstate) (m : msg) : rstate :=
  match proto_of m with
  | 0 => rvia (hs_apply (rhs s) m) rset_hs s
  | 8 => rvia (ka_apply (rka s) m) rset_ka s
  | 10 => rvia (ps_apply (rps s) m) rset_ps s
  | 3 => rvia (bf_apply (rbf s) m) rset_bf s
  | 2 => rvia (cs_apply (rcs s) m) rset_cs s
  | 4 => rvia (tx_apply (rtx s) m) rset_tx s
  | 18 => rvia (ln_apply (rln s) m) rset_ln s
  | _ => rvia (lf_apply (rlf s) m) rset_lf s
  end.
(* ResponderState::reset: everything but error_count *)
Definition r_reset (s : rstate) : rstate :=
  mkR CNew HsSPropose (KaSClient None) (PsSIdle None) BfSIdle (CsSIdle CdNew) TxSInit (LnSIdle None) (LfSIdle None) false (rerrc s).

(* ConnectionResponder *)
Record rconnb := mkRC { rbanned : list Z; per_ip : list (Z * Z); accepted : list Z; active : Z }.
Definition rconnb0 : rconnb := mkRC [] [] [] 0.
Definition host_of (p : Z) : Z := p / 16.

Fixpoint ip_get (h : Z) (l : list (Z * Z)) : option Z :=
  match l with [] => None | (k, v) :: r => if k =? h then Some v else ip_get h r end.
Fixpoint ip_set (h v : Z) (l : list (Z * Z)) : list (Z * Z) :=
  match l with [] => [(h, v)] | (k, w) :: r => if k =? h then (k, v) :: r else (k, w) :: ip_set h v r end.
Definition ip_del (h : Z) (l : list (Z * Z)) : list (Z * Z) := filter (fun e => negb (fst e =? h)) l.

Record rst := mkRS { rc : rconnb; rpeers : list (Z * rstate) }.
Definition rinit : rst := mkRS rconnb0 [].

Fixpoint rlookup (p : Z) (l : list (Z * rstate)) : option rstate :=
  match l with [] => None | (q, s) :: r => if q =? p then Some s else rlookup p r end.
Fixpoint rinsert (p : Z) (s : rstate) (l : list (Z * rstate)) : list (Z * rstate) :=
  match l with [] => [(p, s)] | (q, s') :: r => if q =? p then (q, s) :: r else (q, s') :: rinsert p s r end.
Definition rremove (p : Z) (l : list (Z * rstate)) : list (Z * rstate) := filter (fun e => negb (fst e =? p)) l.

(* connection.rs visit_connected *)
Definition r_visit_connected (cf : rcfg) (p : Z) (cb : rconnb) : outcome (rconnb * list output) :=
  if mem p (rbanned cb) then Ok (cb, [ODisconnect p])
  else
    let old := match ip_get (host_of p) (per_ip cb) with Some v => v | None => 0 end in
    if old >=? USIZE_MAX then Panic P_R_COUNT
    else
      let count := old + 1 in
      let cb1 := mkRC (rbanned cb) (ip_set (host_of p) count (per_ip cb)) (accepted cb) (active cb) in
      if count >? rmax_ip cf then Ok (cb1, [ODisconnect p])
      else if mem p (accepted cb1) then Ok (cb1, [])
      else if active cb1 >=? USIZE_MAX then Panic P_R_ACTIVE
      else Ok (mkRC (rbanned cb1) (per_ip cb1) (sadd p (accepted cb1)) (active cb1 + 1), []).

(* connection.rs visit_disconnected *)
Definition r_visit_disconnected (p : Z) (cb : rconnb) : rconnb :=
  let ips := match ip_get (host_of p) (per_ip cb) with
             | Some v => let v' := Z.max 0 (v - 1) in
                         if v' =? 0 then ip_del (host_of p) (per_ip cb) else ip_set (host_of p) v' (per_ip cb)
             | None => per_ip cb
             end in
  if mem p (accepted cb)
  then mkRC (rbanned cb) ips (srem p (accepted cb)) (Z.max 0 (active cb - 1))
  else mkRC (rbanned cb) ips (accepted cb) (active cb).

Definition r_needs_disconnect (p : Z) (cb : rconnb) (s : rstate) : bool :=
  if mem p (rbanned cb) then true else match rconn s with CErrored => true | _ => false end.
Definition r_needs_ban (cf : rcfg) (p : Z) (cb : rconnb) (s : rstate) : bool :=
  if mem p (rbanned cb) then false else rviol s || (rerrc s >? rmax_err cf).

(* handshake.rs try_accept_handshake *)
Fixpoint vlookup (v : Z) (l : list (Z * Z)) : option Z :=
  match l with [] => None | (k, m) :: r => if k =? v then Some m else vlookup v r end.
(* .filter(contains_key).max_by_key(num): the last maximal element *)
Definition negotiate (ours proposed : list (Z * Z)) : option (Z * Z) :=
  fold_left (fun best e =>
    match vlookup (fst e) ours with
    | None => best
    | Some _ => match best with
                | None => Some e
                | Some b => if fst b <=? fst e then Some e else best
                end
    end) proposed None.
Definition r_try_accept (cf : rcfg) (p : Z) (s : rstate) : outcome (rstate * list output) :=
  match rhs s with
  | HsSConfirm proposed =>
      match negotiate (rvers cf) proposed with
      | Some (version, peer_magic) =>
          match vlookup version (rvers cf) with
          | None => Panic P_R_INDEX
          | Some our_magic =>
              if negb (peer_magic =? our_magic) then Ok (s, [OSend p (HsRefuse 2)])
              else Ok (rset_conn CInitialized s, [OSend p (HsAccept version 1); OEvent p 11 [version]])
          end
      | None => Ok (s, [OSend p (HsRefuse 0)])
      end
  | _ => Ok (s, [])
  end.

(* the owning protocol's visit_inbound_msg *)
Definition r_proto_inbound (cf : rcfg) (p : Z) (m : msg) (s : rstate) : outcome (rstate * list output) :=
  match proto_of m with
  | 0 => r_try_accept cf p s
  | 8 => if negb (r_is_init s) then Ok (s, [])
         else match rka s with KaSServer c => Ok (s, [OSend p (KaResponse c)]) | _ => Ok (s, []) end
  | 2 => if negb (r_is_init s) then Ok (s, [])
         else match rcs s with
              | CsSIntersect k => Ok (s, [OEvent p 13 [k]])
              | CsSCanAwait | CsSMustReply => Ok (s, [OEvent p 14 []])
              | _ => Ok (s, [])
              end
  | 3 => if negb (r_is_init s) then Ok (s, [])
         else match rbf s with BfSBusy r => Ok (s, [OEvent p 15 [r]]) | _ => Ok (s, []) end
  | 10 => if negb (r_is_init s) then Ok (s, [])
          else match rps s with PsSBusy n => Ok (s, [OEvent p 16 [n]]) | _ => Ok (s, []) end
  | 4 => match rtx s with
         | TxSTxs n => Ok (s, map (fun i => OEvent p 17 [i]) (zrangeZ 0 n))
         | _ => Ok (s, [])
         end
  | 18 => if negb (r_is_init s) then Ok (s, [])
          else match rln s with LnSBusy => Ok (s, [OEvent p 18 []]) | _ => Ok (s, []) end
  | _ => if negb (r_is_init s) then Ok (s, [])
         else match rlf s with
              | LfSAwaitBlock pt => Ok (s, [OEvent p 19 [pt]])
              | LfSAwaitTxs pt => Ok (s, [OEvent p 20 [pt]])
              | _ => Ok (s, [])
              end
  end.

Definition rres : Type := rst * list output.

Definition r_on_inbound (cf : rcfg) (p : Z) (r : rres) (m : msg) : outcome rres :=
  let '(st, out) := r in
  match rlookup p (rpeers st) with
  | None => Ok r
  | Some s =>
      let s1 := r_apply_msg s m in
      if rviol s1 then Ok (mkRS (rc st) (rinsert p s1 (rpeers st)), out)
      else
        x <- r_proto_inbound cf p m s1 ;;
        let '(s2, o) := x in
        Ok (mkRS (rc st) (rinsert p s2 (rpeers st)), out ++ o)
  end.
Fixpoint r_on_inbound_all (cf : rcfg) (p : Z) (r : rres) (ms : list msg) : outcome rres :=
  match ms with
  | [] => Ok r
  | m :: rest => r1 <- r_on_inbound cf p r m ;; r_on_inbound_all cf p r1 rest
  end.

(* housekeeping visitors for one peer: connection, then txsubmission (the others are no-ops) *)
Definition r_visit_hk (cf : rcfg) (p : Z) (cb : rconnb) (s : rstate) : rconnb * list output :=
  let '(cb1, o1) :=
    if r_needs_ban cf p cb s then (mkRC (sadd p (rbanned cb)) (per_ip cb) (accepted cb) (active cb), [ODisconnect p])
    else if r_needs_disconnect p cb s then (cb, [ODisconnect p]) else (cb, []) in
  let o2 := if r_is_init s && match rtx s with TxSInit => true | _ => false end then [OSend p TxInit] else [] in
  let o3 := if r_is_init s && match rtx s with TxSIdle => true | _ => false end then [OSend p TxRequestTxIds] else [] in
  (cb1, o1 ++ o2 ++ o3).

Fixpoint r_hk_loop (cf : rcfg) (order : list Z) (r : rres) : rres :=
  match order with
  | [] => r
  | p :: rest =>
      let '(st, out) := r in
      match rlookup p (rpeers st) with
      | None => r_hk_loop cf rest r
      | Some s => let '(cb1, o) := r_visit_hk cf p (rc st) s in
                  r_hk_loop cf rest (mkRS cb1 (rpeers st), out ++ o)
      end
  end.
Definition rkeys (st : rst) : list Z := map fst (rpeers st).

Inductive revent :=
| RHousekeeping (order : list Z)                       (* ResponderCommand::Housekeeping and InterfaceEvent::Idle *)
| RProvide (p : Z) (ms : list msg)                     (* the Provide* commands: Send each message, no state check *)
| RBan (p : Z) | RDisconnectPeer (p : Z)
| RConnected (p : Z) | RDisconnected (p : Z) | RError (p : Z)
| RRecv (p : Z) (ms : list msg) | RSent (p : Z) (m : msg).

Definition rstep (cf : rcfg) (st : rst) (e : revent) : outcome rres :=
  match e with
  | RHousekeeping order => Ok (r_hk_loop cf (canon order (rkeys st)) (st, []))
  | RProvide p ms => Ok (st, map (OSend p) ms)
  | RBan p => Ok (mkRS (mkRC (sadd p (rbanned (rc st))) (per_ip (rc st)) (accepted (rc st)) (active (rc st))) (rpeers st),
                  [ODisconnect p])
  | RDisconnectPeer p => Ok (st, [ODisconnect p])
  | RConnected p =>
      x <- r_visit_connected cf p (rc st) ;;
      let '(cb1, o) := x in
      Ok (mkRS cb1 (rinsert p (rset_conn CConnected rnew) (rpeers st)), o)
  | RDisconnected p =>
      let cb1 := match rlookup p (rpeers st) with Some _ => r_visit_disconnected p (rc st) | None => rc st end in
      Ok (mkRS cb1 (rremove p (rpeers st)), [OEvent p 12 []])
  | RError p =>
      match rlookup p (rpeers st) with
      | None => Ok (st, [])
      | Some s =>
          if rerrc s >=? U32_MAX then Panic P_R_ERRC
          else
            let s1 := rset_errc (rerrc s + 1) (rset_conn CErrored s) in
            Ok (mkRS (rc st) (rinsert p s1 (rpeers st)),
                if r_needs_disconnect p (rc st) s1 then [ODisconnect p] else [])
      end
  | RRecv p ms => r_on_inbound_all cf p (st, []) ms
  | RSent p m =>
      match rlookup p (rpeers st) with
      | None => Ok (st, [])
      | Some s => Ok (mkRS (rc st) (rinsert p (r_apply_msg s m) (rpeers st)), [])
      end
  end.

Fixpoint rrun (cf : rcfg) (st : rst) (evs : list revent) : outcome (rst * list (list output)) :=
  match evs with
  | [] => Ok (st, [])
  | e :: rest =>
      r <- rstep cf st e ;;
      let '(st1, out) := r in
      r2 <- rrun cf st1 rest ;;
      let '(st2, outs) := r2 in
      Ok (st2, out :: outs)
  end.
