#!/usr/bin/env python3
"""Per-property check driver (see DESIGN.md §1.3, §3.4).

  ./check <ID> [--tier quick|thorough] [--seed N] [--repo PATH] [--keep]

Steps: translators -> Coq build of the property's cone + audit (pinned
statements, Print Assumptions allowlist, forbidden-construct gate) -> cargo
build of the harness binary against the repository under test -> harness run
(implementation outputs + the property's own oracle) -> the same cases
evaluated on the Gallina model inside Coq (vm_compute) and compared there ->
verdict, replay file, evidence/<ID>.json.

Exit 0: property held on everything explored (KNOWN-FINDING lines allowed).
Exit 1: `VIOLATION property=<ID> replay=<path>[ no-failing-input-found]`.
Exit 2: tool failure (never reported as a violation, never as success).
"""
import fcntl
import hashlib
import json
import os
import re
import shutil
import subprocess
import sys
import time
from concurrent.futures import ThreadPoolExecutor

VERIF = os.path.dirname(os.path.dirname(os.path.abspath(__file__)))
COQ = os.path.join(VERIF, "coq")
CACHE = os.path.join(VERIF, ".cache")
CARGO_ENV = {"CARGO_NET_OFFLINE": "true"}
REPO_UNDER_TEST = "/repo"

FORBIDDEN = [
    r"\bAdmitted\b", r"\badmit\b", r"\bAxiom\b", r"\bAxioms\b", r"\bParameter\b", r"\bParameters\b",
    r"\bConjecture\b", r"\bAdmit\s+Obligations\b", r"Unset\s+Guard", r"Unset\s+Positivity",
    r"Unset\s+Universe", r"bypass_check", r"type-in-type", r"impredicative-set", r"\bgive_up\b",
]


class ToolError(Exception):
    pass


def jobs():
    """Worker threads; the number of coqc actually running is capped machine-wide by Slot."""
    if os.environ.get("VERIF_JOBS"):
        return max(1, int(os.environ["VERIF_JOBS"]))
    try:
        load = os.getloadavg()[0]
    except OSError:
        load = 0
    return 16


def log(*a):
    print(*a, file=sys.stderr, flush=True)


def sh(cmd, cwd=None, env=None, timeout=None, check=False):
    e = dict(os.environ)
    if env:
        e.update(env)
    try:
        p = subprocess.run(cmd, cwd=cwd, env=e, timeout=timeout, stdout=subprocess.PIPE,
                           stderr=subprocess.STDOUT, text=True, errors="replace")
    except subprocess.TimeoutExpired as ex:
        out = ex.stdout if isinstance(ex.stdout, str) else (ex.stdout or b"").decode(errors="replace")
        return 124, out + "\n[timeout after %ss]" % timeout
    if check and p.returncode != 0:
        raise ToolError("command failed: %s\n%s" % (" ".join(cmd), p.stdout[-4000:]))
    return p.returncode, p.stdout


class Lock:
    def __init__(self, name):
        os.makedirs(CACHE, exist_ok=True)
        self.path = os.path.join(CACHE, name + ".lock")

    def __enter__(self):
        self.f = open(self.path, "w")
        fcntl.flock(self.f, fcntl.LOCK_EX)

    def __exit__(self, *a):
        fcntl.flock(self.f, fcntl.LOCK_UN)
        self.f.close()


# ---------------------------------------------------------------- Coq side

def strip_comments(src):
    out, depth, i, n = [], 0, 0, len(src)
    in_str = False
    while i < n:
        c = src[i]
        if depth == 0 and c == '"':
            in_str = not in_str
            out.append(c)
            i += 1
            continue
        if not in_str and src.startswith("(*", i):
            depth += 1
            i += 2
            continue
        if not in_str and depth > 0 and src.startswith("*)", i):
            depth -= 1
            i += 2
            continue
        if depth == 0:
            out.append(c)
        elif c == "\n":
            out.append(c)
        i += 1
    return "".join(out)


def forbidden_scan(only=None):
    """Gate over the .v files of the property's dependency cone (`only` = paths
    relative to coq/), or over every .v file of the development when None."""
    hits = []
    for root, _, files in os.walk(os.path.join(COQ, "theories")):
        for f in sorted(files):
            if not f.endswith(".v"):
                continue
            path = os.path.join(root, f)
            if only is not None and os.path.relpath(path, COQ) not in only:
                continue
            src = strip_comments(open(path).read())
            for pat in FORBIDDEN:
                for m in re.finditer(pat, src):
                    line = src.count("\n", 0, m.start()) + 1
                    hits.append("%s:%d: %s" % (os.path.relpath(path, VERIF), line, m.group(0)))
            # Variable/Hypothesis/Context outside a Section declares an axiom
            depth = 0
            for ln, line in enumerate(src.split("\n"), 1):
                s = line.strip()
                if re.match(r"^(Section|Module\s+Type)\b", s):
                    depth += 1
                elif re.match(r"^End\b", s) and depth > 0:
                    depth -= 1
                elif depth == 0 and re.match(r"^(Variable|Variables|Hypothesis|Hypotheses|Context)\b", s):
                    hits.append("%s:%d: %s outside Section" % (os.path.relpath(path, VERIF), ln, s.split()[0]))
    return hits


def all_vfiles():
    vs = []
    for root, _, files in os.walk(os.path.join(COQ, "theories")):
        for f in files:
            if f.endswith(".v") and not f.startswith("."):
                vs.append(os.path.relpath(os.path.join(root, f), COQ))
    return sorted(vs)


def coq_deps():
    """file.v -> list of .v files of this development it Requires (via coqdep)."""
    vs = all_vfiles()
    rc, out = sh(["coqdep", "-Q", "theories", "PV"] + vs, cwd=COQ, timeout=600)
    deps = {v: [] for v in vs}
    for line in out.split("\n"):
        if ":" not in line:
            continue
        lhs, rhs = line.split(":", 1)
        tgt = [t for t in lhs.split() if t.endswith(".vo")]
        if not tgt:
            continue
        v = tgt[0][:-1]
        if v not in deps:
            continue
        for d in rhs.split():
            if d.endswith(".vo") and d[:-1] in deps and d[:-1] != v:
                deps[v].append(d[:-1])
    return deps


def cone_of(targets):
    deps = coq_deps()
    want = [t[:-1] if t.endswith(".vo") else t for t in targets]
    cone, stack = set(), list(want)
    while stack:
        v = stack.pop()
        if v in cone or v not in deps:
            continue
        cone.add(v)
        stack += deps[v]
    return cone


class Slot:
    """Machine-wide cap on concurrent coqc processes started by checks (16 slots)."""
    N = 16

    def __enter__(self):
        d = os.path.join(CACHE, "slots")
        os.makedirs(d, exist_ok=True)
        start = os.getpid()
        while True:
            for k in range(self.N):
                f = open(os.path.join(d, "slot-%d" % ((start + k) % self.N)), "w")
                try:
                    fcntl.flock(f, fcntl.LOCK_EX | fcntl.LOCK_NB)
                    self.f = f
                    return self
                except OSError:
                    f.close()
            time.sleep(0.2)

    def __exit__(self, *a):
        fcntl.flock(self.f, fcntl.LOCK_UN)
        self.f.close()


def _compile_one(v, deps, timeout):
    """Compile v (deps already up to date) unless its .vo is fresh. Per-file lock."""
    vo = os.path.join(COQ, v + "o")
    src = os.path.join(COQ, v)

    def fresh():
        if not os.path.exists(vo):
            return False
        t = os.path.getmtime(vo)
        if os.path.getmtime(src) > t:
            return False
        for d in deps[v]:
            dvo = os.path.join(COQ, d + "o")
            if not os.path.exists(dvo) or os.path.getmtime(dvo) > t:
                return False
        return True

    if fresh():
        return 0, ""
    with Lock("vo-" + v.replace("/", "_")):
        if fresh():
            return 0, ""
        with Slot():
            rc, out = sh(["coqc", "-noglob", "-Q", "theories", "PV", "-w",
                          "-notation-overridden,-deprecated-hint-without-locality,-deprecated-instance-without-locality",
                          v], cwd=COQ, timeout=timeout)
        if rc != 0 and os.path.exists(vo):
            os.remove(vo)
        return rc, "COQC %s\n%s" % (v, out)


def coq_build(targets, clean=False, timeout=3000):
    """Full .vo build (never -vos/-vok) of the dependency cone of `targets`
    (paths like theories/C14/Props.vo; empty list = everything)."""
    deps = coq_deps()
    if clean:
        for v in deps:
            for ext in ("o", "os", "ok"):
                pth = os.path.join(COQ, v + ext)
                if os.path.exists(pth):
                    os.remove(pth)
    want = [t[:-1] if t.endswith(".vo") else t for t in targets] or list(deps)
    cone, stack = set(), list(want)
    while stack:
        v = stack.pop()
        if v in cone:
            continue
        if v not in deps:
            return 1, "no such Coq file: %s" % v
        cone.add(v)
        stack += deps[v]
    done, outs, failed = set(), [], []
    pending = set(cone)
    with ThreadPoolExecutor(max_workers=jobs()) as ex:
        running = {}
        while pending or running:
            ready = [v for v in pending if all(d in done for d in deps[v])]
            for v in ready:
                pending.discard(v)
                running[ex.submit(_compile_one, v, deps, timeout)] = v
            if not running:
                break  # cycle or failed deps
            fin = next(iter(__import__("concurrent.futures").futures.wait(
                list(running), return_when="FIRST_COMPLETED")[0]))
            v = running.pop(fin)
            rc, out = fin.result()
            if out.strip():
                outs.append(out)
            if rc == 0:
                done.add(v)
            else:
                failed.append(v)
    if failed or pending:
        return 1, "\n".join(outs) + "\nfailed: %s; not built: %s" % (failed, sorted(pending))
    return 0, "\n".join(outs)


def run_translators(cfg, repo):
    outs = []
    for t in cfg.get("translators", []):
        script = os.path.join(VERIF, "translators", t + ".py")
        with Lock("translator-" + t):
            rc, out = sh([sys.executable, script, "--repo", repo, "--out", os.path.join(COQ, "theories", "Generated")],
                         timeout=300)
        outs.append((t, rc, out))
    return outs


def audit(cfg, workdir):
    """Re-check pinned statements and collect Print Assumptions, every run."""
    pid = cfg["id"]
    thms = cfg["theorems"]
    lines = [cfg.get("audit_prelude", "From PV Require Import Lib.Base %s.Props." % cfg["coq_dir"])]
    for t in thms:
        lines.append('Goal True. idtac "@@THM %s". Abort.' % t["name"])
        lines.append("Check (%s : %s)." % (t["name"], t["statement"]))
        lines.append("Print Assumptions %s." % t["name"])
    lines.append('Goal True. idtac "@@END". Abort.')
    path = os.path.join(workdir, "%s_audit.v" % pid)
    open(path, "w").write("\n".join(lines) + "\n")
    rc, out = sh(["coqc", "-noglob", "-Q", os.path.join(COQ, "theories"), "PV", path], timeout=600)
    res = {}
    parts = re.split(r"@@THM (\S+)", out)
    # parts: [pre, name1, body1, name2, body2...]
    for i in range(1, len(parts) - 1, 2):
        name, body = parts[i], parts[i + 1].split("@@END")[0]
        axioms = []
        if "Closed under the global context" in body:
            axioms = []
        elif "Axioms:" in body:
            ax = body.split("Axioms:", 1)[1]
            axioms = re.findall(r"^([A-Za-z_][\w.']*)\s*:", ax, flags=re.M)
        else:
            axioms = ["<unparsed>"]
        res[name] = axioms
    return rc, out, res


# ---------------------------------------------------------------- Rust side

def harness_dir(repo):
    """Cargo project dir for the repo under test (default repo: /verif/harness)."""
    src = os.path.join(VERIF, "harness")
    if os.path.realpath(repo) == "/repo":
        d, tgt = src, os.path.join(CACHE, "target")
    else:
        key = hashlib.sha1(os.path.realpath(repo).encode()).hexdigest()[:10]
        d = os.path.join(CACHE, "harness-" + key)
        tgt = os.path.join(CACHE, "target-" + key)
        os.makedirs(d, exist_ok=True)
        link = os.path.join(d, "src")
        if not os.path.islink(link):
            os.symlink(os.path.join(src, "src"), link)
    tmpl = open(os.path.join(src, "Cargo.toml.in")).read().replace("@REPO@", os.path.realpath(repo))
    ct = os.path.join(d, "Cargo.toml")
    if not os.path.exists(ct) or open(ct).read() != tmpl:
        open(ct, "w").write(tmpl)
    lock_src = os.path.join(repo, "Cargo.lock")
    for cand in (lock_src, "/repo/Cargo.lock", os.path.join(src, "Cargo.lock.seed")):
        if os.path.exists(cand):
            lock_src = cand
            break
    lock_dst = os.path.join(d, "Cargo.lock")
    if not os.path.exists(lock_dst):
        shutil.copyfile(lock_src, lock_dst)
    return d, tgt


def features_of(cfg):
    """Cargo features (= pallas crates) a property's harness binary needs."""
    return cfg.get("features") or ["all"]


def cargo_build(repo, bins, profile="dev", timeout=3000, features=("all",)):
    d, tgt = harness_dir(repo)
    env = dict(CARGO_ENV)
    env["CARGO_TARGET_DIR"] = tgt
    env.setdefault("CARGO_BUILD_JOBS", os.environ.get("CARGO_BUILD_JOBS", "8"))
    env["RUSTFLAGS"] = (os.environ.get("RUSTFLAGS", "") + " --cfg pallas_verif -Awarnings").strip()
    cmd = ["cargo", "build", "--offline", "-q", "--features", ",".join(features)]
    if profile == "release":
        cmd.append("--release")
    for b in bins:
        cmd += ["--bin", b]
    if not bins:
        cmd.append("--bins")
    rc, out = sh(cmd, cwd=d, env=env, timeout=timeout)
    if rc != 0 and "Cargo.lock" in out and "needs to be updated" in out:
        os.remove(os.path.join(d, "Cargo.lock"))
        harness_dir(repo)
        rc, out = sh(cmd, cwd=d, env=env, timeout=timeout)
    sub = "release" if profile == "release" else "debug"
    return rc, out, os.path.join(tgt, sub)


def run_harness(binpath, seed, n, tier, extra, timeout, env=None):
    cmd = [binpath, "--seed", str(seed), "--n", str(n), "--tier", tier] + extra
    e = dict(os.environ)
    e["VERIF_DIR"] = VERIF
    e["VERIF_REPO"] = REPO_UNDER_TEST
    if env:
        e.update(env)
    t0 = time.time()
    try:
        p = subprocess.run(cmd, stdout=subprocess.PIPE, stderr=subprocess.PIPE, timeout=timeout, env=e, cwd=VERIF)
    except subprocess.TimeoutExpired:
        raise ToolError("harness timed out: " + " ".join(cmd))
    out = p.stdout.decode(errors="replace")
    err = p.stderr.decode(errors="replace")
    if p.returncode != 0:
        raise ToolError("harness exited %d: %s\n%s" % (p.returncode, " ".join(cmd), err[-3000:]))
    cases, fails, samples, stats = [], [], [], {}
    for line in out.split("\n"):
        if not line:
            continue
        f = line.split("\t")
        if f[0] == "CASE" and len(f) >= 3:
            cases.append((f[1], f[2]))
        elif f[0] == "ORACLE_FAIL" and len(f) >= 3:
            fails.append((f[1], f[2]))
        elif f[0] == "SAMPLE":
            samples.append(f[1] if len(f) > 1 else "")
        elif f[0] == "STAT" and len(f) >= 3:
            stats[f[1]] = stats.get(f[1], 0) + int(f[2])
    return cases, fails, samples, stats, time.time() - t0


# ---------------------------------------------------------------- model run

def eval_cases(cfg, cases, workdir, shard, timeout):
    """Evaluate the model on every case inside Coq; return bad global indices."""
    prelude = cfg.get("run_prelude", "From PV Require Import Lib.Base %s.Run.\nOpen Scope Z_scope." % cfg["coq_dir"])
    shards = [cases[i:i + shard] for i in range(0, len(cases), shard)]

    def one(k):
        path = os.path.join(workdir, "cases_%d.v" % k)
        with open(path, "w") as f:
            f.write(prelude + "\n")
            f.write("Definition cases : list case := [\n")
            f.write(";\n".join(t for _, t in shards[k]))
            f.write("\n].\n")
            f.write("Eval vm_compute in (bad_indices case_ok cases).\n")
        with Slot():
            rc, out = sh(["coqc", "-noglob", "-Q", os.path.join(COQ, "theories"), "PV", path], timeout=timeout)
        if rc != 0:
            return k, None, out
        m = re.search(r"=\s*(\[.*?\]|nil)\s*(%\w+)?\s*:\s*list N", out, flags=re.S)
        if not m:
            return k, None, out
        idx = [int(x) for x in re.findall(r"\d+", m.group(1))]
        return k, idx, out

    bad = []
    with ThreadPoolExecutor(max_workers=jobs()) as ex:
        for k, idx, out in ex.map(one, range(len(shards))):
            if idx is None:
                raise ToolError("model evaluation failed on shard %d:\n%s" % (k, out[-3000:]))
            bad += [k * shard + i for i in idx]
    return sorted(bad)


def model_outputs(cfg, cases, idxs, workdir):
    prelude = cfg.get("run_prelude", "From PV Require Import Lib.Base %s.Run.\nOpen Scope Z_scope." % cfg["coq_dir"])
    path = os.path.join(workdir, "mismatch.v")
    with open(path, "w") as f:
        f.write(prelude + "\n")
        for i in idxs:
            f.write("Eval vm_compute in (case_out (%s)).\n" % cases[i][1])
    rc, out = sh(["coqc", "-noglob", "-Q", os.path.join(COQ, "theories"), "PV", path], timeout=600)
    return out


# ---------------------------------------------------------------- main

def load_known():
    p = os.path.join(VERIF, "KNOWN_FINDINGS.json")
    if not os.path.exists(p):
        return []
    return json.load(open(p)).get("findings", [])


def write_replay(pid, payload):
    d = os.path.join(VERIF, "replays")
    os.makedirs(d, exist_ok=True)
    k = 1
    while os.path.exists(os.path.join(d, "%s-%d.json" % (pid, k))):
        k += 1
    path = os.path.join(d, "%s-%d.json" % (pid, k))
    json.dump(payload, open(path, "w"), indent=1)
    return os.path.relpath(path, VERIF)


def main():
    import argparse
    ap = argparse.ArgumentParser()
    ap.add_argument("pid")
    ap.add_argument("--tier", default=os.environ.get("VERIF_TIER", "quick"))
    ap.add_argument("--seed", type=int, default=int(os.environ.get("VERIF_SEED", "1") or "1"))
    ap.add_argument("--repo", default=os.environ.get("VERIF_REPO", "/repo"))
    ap.add_argument("--n", type=int, default=None)
    ap.add_argument("--keep", action="store_true")
    a = ap.parse_args()
    global REPO_UNDER_TEST
    REPO_UNDER_TEST = os.path.realpath(a.repo)
    pid, tier = a.pid, a.tier
    if tier not in ("quick", "thorough"):
        tier = "quick"
    cfg = json.load(open(os.path.join(VERIF, "props", pid + ".json")))
    tcfg = cfg.get(tier, cfg.get("quick", {}))
    n = a.n if a.n is not None else tcfg.get("n", 500)
    t0 = time.time()
    workdir = os.path.join(CACHE, "run", "%s-%d" % (pid, os.getpid()))
    os.makedirs(workdir, exist_ok=True)
    ev_path = os.path.join(VERIF, "evidence", pid + ".json")
    if REPO_UNDER_TEST != "/repo":
        # runs against a scratch copy (seeded changes) must not overwrite the evidence of /repo runs
        ev_path = os.path.join(CACHE, "evidence-scratch", pid + ".json")
    os.makedirs(os.path.dirname(ev_path), exist_ok=True)

    broken = []        # proof / tie obligations that no longer check
    violations = []    # (key, what) oracle failures not covered by known findings
    known_hits = {}
    notes = []
    cases, fails, samples, stats = [], [], [], {}
    bad = []
    assumptions_seen = {}
    discharged = 0
    obligations = len(cfg["theorems"])
    checker_cmd = "coqc (full .vo build, dependency order via coqdep) of the cone of coq/theories/%s/Props.v and Run.v ; coqc <audit file: Check (thm : pinned statement) + Print Assumptions thm, for each theorem>" % cfg["coq_dir"]
    rc_code = 0
    known = [k for k in load_known() if k["property"] == pid]
    kkeys = {k["key"]: k for k in known}
    try:
        # 1. translators
        for (t, rc, out) in run_translators(cfg, a.repo):
            if rc != 0:
                broken.append("translator %s rejects the current source: %s" % (t, out.strip()[-600:]))
        # 2. Coq
        targets = ["theories/%s/Props.vo" % cfg["coq_dir"], "theories/%s/Run.vo" % cfg["coq_dir"]]
        hits = forbidden_scan(cone_of(targets))
        if hits:
            raise ToolError("forbidden constructs in the cone of this property:\n" + "\n".join(hits))
        other = forbidden_scan()
        if other:
            notes.append("forbidden constructs elsewhere in the development (outside this cone): " + "; ".join(other[:10]))
        rc, out = coq_build(targets, clean=(tier == "thorough" and cfg.get("thorough_clean", False)))
        props_ok = rc == 0
        if rc != 0:
            if cfg.get("translators"):
                broken.append("Coq cone no longer compiles over the regenerated model: " + out.strip()[-1500:])
                # Run.vo may still build (model runs even when a proof breaks)
                rc2, out2 = coq_build([targets[1]])
                if rc2 != 0:
                    raise ToolError("model runner does not compile:\n" + out2[-3000:])
            else:
                raise ToolError("Coq build failed (hand-written cone):\n" + out[-4000:])
        if props_ok:
            rc, out, res = audit(cfg, workdir)
            allowed = set(cfg.get("allowed_axioms", []))
            for t in cfg["theorems"]:
                ax = res.get(t["name"])
                if ax is None:
                    msg = "theorem %s: pinned statement no longer checks" % t["name"]
                    if cfg.get("translators"):
                        broken.append(msg + ": " + out.strip()[-800:])
                        continue
                    raise ToolError(msg + "\n" + out[-3000:])
                extra = [x for x in ax if x not in allowed]
                if extra:
                    raise ToolError("theorem %s depends on axioms outside the allowlist: %s" % (t["name"], extra))
                assumptions_seen[t["name"]] = ax
                discharged += 1
            if rc != 0 and discharged == obligations:
                raise ToolError("audit file failed:\n" + out[-3000:])
        if tier == "thorough" and cfg.get("coqchk", True) and props_ok:
            rc, out = sh(["coqchk", "-o", "-silent", "-Q", os.path.join(COQ, "theories"), "PV",
                          "PV.%s.Props" % cfg["coq_dir"]], timeout=3000)
            if rc != 0:
                raise ToolError("coqchk failed:\n" + out[-3000:])
            axs = re.findall(r"^\s+([\w.]+)\s*$", out.split("Axioms:")[-1], flags=re.M) if "Axioms:" in out else []
            notes.append("coqchk -o: " + " ".join(out.split())[-600:])
            checker_cmd += " ; coqchk -o -silent PV.%s.Props" % cfg["coq_dir"]
        # 3. harness
        harness_ok = True
        profiles = tcfg.get("profiles", ["dev"])
        for prof in profiles:
            rc, out, bindir = cargo_build(a.repo, [cfg["bin"]], profile=prof, features=features_of(cfg))
            if rc != 0:
                # only a genuine compile error (rustc error code) against the source under test counts as
                # a broken tie; linker/IO/lockfile/cargo failures are tool errors
                if "error[E" not in out:
                    raise ToolError("cargo could not build the harness:\n" + out[-3000:])
                harness_ok = False
                broken.append("correspondence harness does not build against the current source (%s): %s" % (prof, out.strip()[-1500:]))
                continue
            binpath = os.path.join(bindir, cfg["bin"])
            extra = tcfg.get("args", [])
            c, f, s, st, dt = run_harness(binpath, a.seed, n, tier, extra + (["--profile", prof] if len(profiles) > 1 else []),
                                          tcfg.get("harness_timeout", 3000))
            cases += c
            fails += f
            samples += s
            for k, v in st.items():
                stats[k] = stats.get(k, 0) + v
            stats["harness_seconds_" + prof] = int(dt)
        # 4. model evaluation
        if cases:
            bad = eval_cases(cfg, cases, workdir, cfg.get("shard", 200), tcfg.get("coq_timeout", 1500))
        elif harness_ok and not cfg.get("oracle_only_ok"):
            raise ToolError("harness produced no cases")
        if bad:
            outs = model_outputs(cfg, cases, bad[:5], workdir)
            broken.append("model/implementation correspondence: %d of %d cases disagree; first: %s ; model says: %s"
                          % (len(bad), len(cases), cases[bad[0]][1][:1500], " ".join(outs.split())[:1500]))
        # 5. oracle failures vs known findings
        for key, what in fails:
            if key in kkeys:
                known_hits.setdefault(key, what)
            else:
                violations.append((key, what))
        # 6. broken tie with no oracle failure: search for a failing input
        if broken and not violations and harness_ok and cfg.get("search", True):
            rc, out, bindir = cargo_build(a.repo, [cfg["bin"]], features=features_of(cfg))
            if rc == 0:
                sn = cfg.get("search_n", max(n * 10, 20000))
                for sseed in (a.seed, a.seed + 1):
                    c, f, s, st, dt = run_harness(os.path.join(bindir, cfg["bin"]), sseed, sn, "thorough",
                                                  ["--oracle-only"], cfg.get("search_timeout", 1800))
                    for key, what in f:
                        if key not in kkeys:
                            violations.append((key, what))
                    if violations:
                        break
                notes.append("search: %d extra oracle evaluations" % sn)
    except ToolError as ex:
        log("TOOL-ERROR %s: %s" % (pid, ex))
        rc_code = 2

    # verdict
    for key, what in known_hits.items():
        print("KNOWN-FINDING: property=%s %s [%s] e.g. %s" % (pid, kkeys[key]["what"], key, what[:300]))
    for k in [k for k in (load_known()) if k["property"] == pid and k["key"] not in known_hits]:
        notes.append("known finding '%s' did not reproduce in this run" % k["key"])
    replay = None
    if rc_code == 0 and violations:
        violations.sort(key=lambda kv: len(kv[1]))
        key, what = violations[0]
        replay = write_replay(pid, {
            "property": pid, "kind": "failing-input", "key": key, "what": what,
            "others": [w for _, w in violations[1:20]], "broken": broken,
            "reproduce": "./check %s --tier %s --seed %d" % (pid, tier, a.seed), "repo": a.repo})
        print("VIOLATION property=%s replay=%s" % (pid, replay))
        rc_code = 1
    elif rc_code == 0 and broken:
        replay = write_replay(pid, {
            "property": pid, "kind": "no-failing-input-found", "no_longer_checks": broken,
            "reproduce": "./check %s --tier %s --seed %d" % (pid, tier, a.seed), "repo": a.repo})
        print("VIOLATION property=%s replay=%s no-failing-input-found" % (pid, replay))
        rc_code = 1

    # evidence (always rewritten)
    distinct = {}
    for tag, term in cases:
        distinct.setdefault(term, tag)
    nontrivial = sum(1 for term, tag in distinct.items() if not tag.startswith("trivial"))
    tagc = {}
    for tag, _ in cases:
        tagc[tag] = tagc.get(tag, 0) + 1
    tb = [
        "Coq 8.16.1 kernel incl. vm_compute (no native_compute); coqchk -o in the thorough tier",
        "axioms per theorem (Print Assumptions, this run): " + json.dumps(assumptions_seen),
        "hand-written Gallina model coq/theories/%s/Model.v tied to the Rust by running both on the same cases (this run: %d cases, %d disagreements); the tie is differential testing, not proof" % (cfg["coq_dir"], len(cases), len(bad)),
        "Rust harness harness/src/bin/%s.rs + harness/src/lib.rs (case generation, Coq-term printing, property oracle)" % cfg["bin"],
        "vp/check.py (sharding, parsing of `bad_indices` output, verdict logic)",
    ] + cfg.get("trusted_base", [])
    if cfg.get("translators"):
        tb.append("translators: " + ", ".join(cfg["translators"]) + " (regenerated from the source on this run)")
    ev = {
        "property_id": pid, "tier": tier, "seed": a.seed, "level": "proof",
        "coverage": {
            "obligations": obligations, "discharged": discharged,
            "checker_cmd": checker_cmd, "trusted_base": tb,
            "theorems": [t["name"] for t in cfg["theorems"]],
            "evaluations": len(cases) + sum(v for k, v in stats.items() if k.endswith("_oracle")),
            "cases_compared_with_model": len(cases),
            "model_disagreements": len(bad),
            "oracle_failures": len(fails),
            "known_finding_hits": sorted(known_hits),
            "distinct_nontrivial": nontrivial,
            "rule": cfg.get("nontrivial_rule", "distinct case terms whose generator tag does not start with 'trivial'"),
            "case_tags": tagc, "stats": stats,
            "samples": (samples[:5] + [c[1][:400] for c in cases[:3]]) or ["<no cases>"],
            "exhaustive": False, "notes": notes, "broken": broken,
        },
        "assumptions": cfg.get("assumptions", []),
        "wall_s": round(time.time() - t0, 2),
        "violations": (1 if rc_code == 1 else 0),
    }
    if rc_code == 2:
        ev["coverage"]["notes"].append("TOOL ERROR: run incomplete")
    json.dump(ev, open(ev_path, "w"), indent=1)
    if not a.keep:
        shutil.rmtree(workdir, ignore_errors=True)
    log("%s %s: exit %d, %d theorems, %d cases, %d disagreements, %d oracle failures (%d known), %.1fs"
        % (pid, tier, rc_code, discharged, len(cases), len(bad), len(fails), len(fails) - len(violations), time.time() - t0))
    sys.exit(rc_code)


if __name__ == "__main__":
    main()
