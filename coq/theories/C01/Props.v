(* C01 — property theorems only. Statements are pinned by vp/check.py. *)
From PV Require Import Lib.Base Flat.Model Flat.Encoder Flat.Bits Flat.DecSafe Flat.DecProofs Flat.DecProofs2 Flat.Roundtrip.
Open Scope Z_scope.

(* Any sequence of well-formed values (bool, u8, usize word, isize integer, char,
   byte string, UTF-8 string, string(), bits(n,v), homogeneous lists, nested)
   written one after another by ONE encoder and closed by the filler is read back
   by the same sequence of decoder calls + filler: same values, no error, and the
   cursor ends exactly at the end of the buffer with used_bits = 0. The values
   start at whatever bit offset the preceding ones left. *)
Theorem flat_roundtrip : forall vs, Forall wf_val vs ->
  exists buf, encode_seq vs = Ok buf /\ bytes_wf buf /\
    (Z.of_nat (length buf) < 2 ^ 60 ->
     run_script (map kind_of vs ++ [OFiller]) (mk_dec buf)
     = (map (fun v => Ok (dval_of v)) vs ++ [Ok DUnit], mkDec buf (Z.of_nat (length buf)) 0)).
Proof. exact flat_roundtrip_proof. Qed.

(* One value from ANY encoder state allowed by the invariant (every used_bits
   0..7, every partial byte, every buffer): the encoder appends some bits [tail]
   to the bit string written so far, and any decoder standing at the same offset
   in front of [tail] (whatever follows) returns the value and stops right after. *)
Theorem flat_value_roundtrip_any_offset : forall v, wf_val v ->
  forall s, einv s -> exists s' tail,
    enc_val v s = Ok s' /\ ebits s' = ebits s ++ tail /\ einv s' /\
    forall st post, dinv st -> d_used st = e_used s -> drest st = tail ++ post ->
      exists st', run_op (kind_of v) st = (Ok (dval_of v), st') /\ dinv st' /\ d_buf st' = d_buf st /\
                  drest st' = post /\ d_off st' = d_off st + Z.of_nat (length tail).
Proof. intros v Hv. exact (val_rt_wf v Hv). Qed.

Theorem zigzag_roundtrip : forall i, - 2 ^ 63 <= i < 2 ^ 63 ->
  0 <= zigzag i < 2 ^ 64 /\ unzigzag (zigzag i) = i.
Proof. exact unzigzag_zigzag. Qed.

(* non-vacuity: a mixed sequence whose values start mid-byte, with a 600-byte string *)
Definition example_vs : list val :=
  [VBool true; VBits 3 5; VBytes (repeat 7 600); VInt (- 2 ^ 63); VWord (2 ^ 64 - 1); VBool false;
   VChar 1114111; VUtf8 [104; 195; 169]; VString [97; 2047]; VList OWord [VWord 300; VWord 0];
   VList (OList OBool) [VList OBool [VBool true]; VList OBool []]; VU8 255].
Example flat_roundtrip_example :
  Forall wf_val example_vs /\
  exists buf, encode_seq example_vs = Ok buf /\ length buf = 643%nat /\
    run_script (map kind_of example_vs ++ [OFiller]) (mk_dec buf)
    = (map (fun v => Ok (dval_of v)) example_vs ++ [Ok DUnit], mkDec buf 643 0).
Proof.
  split.
  - unfold example_vs.
    apply Forall_cons; [exact I|].
    apply Forall_cons; [cbn [wf_val]; change (2 ^ 3) with 8; lia|].
    apply Forall_cons; [cbn [wf_val]; apply bytes_wfb_spec; reflexivity|].
    apply Forall_cons; [cbn [wf_val]; lia|].
    apply Forall_cons; [cbn [wf_val]; lia|].
    apply Forall_cons; [exact I|].
    apply Forall_cons; [reflexivity|].
    apply Forall_cons; [split; [apply bytes_wfb_spec|]; reflexivity|].
    apply Forall_cons; [cbn [wf_val]; repeat constructor|].
    apply Forall_cons; [cbn [wf_val kind_of]; repeat split; try reflexivity; try lia|].
    apply Forall_cons; [cbn [wf_val kind_of]; repeat split; try reflexivity|].
    apply Forall_cons; [cbn [wf_val]; lia|]. apply Forall_nil.
  - eexists. split; [vm_compute; reflexivity|]. split; vm_compute; reflexivity.
Qed.
