(* C32 — property theorems only. Statements are pinned by vp/check.py.
   [m] is the build mode (overflow checks on / wrapping): the results hold in both. *)
From PV Require Import Lib.Base Generated.Wellknown C32.Model C32.Known C32.Proofs.
Open Scope Z_scope.

(* the constants regenerated from wellknown.rs are well-formed *)
Theorem wellknown_wf : Forall wf well_known.
Proof. exact wellknown_wf_proof. Qed.

(* --- any well-formed genesis record ------------------------------------ *)

Theorem shelley_roundtrip : forall m g slot,
  wf g -> shelley_known_slot g <= slot < 2 ^ 40 ->
  (slot - shelley_known_slot g) mod shelley_epoch_length g < shelley_slots_per_epoch g ->
  exists e r, absolute_slot_to_relative m g slot = Ok (e, r) /\
              relative_slot_to_absolute m g e r = Ok slot.
Proof.
  intros m g slot W Hs Hc.
  destruct (shelley_roundtrip_proof m g slot W Hs Hc) as (e & r & A & _ & _ & _ & B). exists e, r. auto.
Qed.

Theorem shelley_slot_in_epoch_lt : forall m g slot,
  wf g -> shelley_known_slot g <= slot < 2 ^ 40 ->
  (slot - shelley_known_slot g) mod shelley_epoch_length g < shelley_slots_per_epoch g ->
  exists e r, absolute_slot_to_relative m g slot = Ok (e, r) /\
              0 <= r < shelley_slots_per_epoch g /\
              r = (slot - shelley_known_slot g) mod shelley_slots_per_epoch g /\
              e = shelley_known_slot g / byron_slots_per_epoch g
                  + (slot - shelley_known_slot g) / shelley_slots_per_epoch g.
Proof.
  intros m g slot W Hs Hc.
  destruct (shelley_roundtrip_proof m g slot W Hs Hc) as (e & r & A & B & C & D & _). exists e, r. auto.
Qed.

(* the side condition of the two theorems above is void for one-second slots *)
Theorem shelley_unit_slot_length_unconditional : forall g es,
  wf g -> shelley_slot_length g = 1 -> es mod shelley_epoch_length g < shelley_slots_per_epoch g.
Proof. exact unit_slot_all. Qed.

Theorem byron_roundtrip_outside_known_class : forall m g slot,
  wf g -> 0 <= slot < shelley_known_slot g -> ~ byron_known_class g slot ->
  exists e r, absolute_slot_to_relative m g slot = Ok (e, r) /\
              0 <= r < byron_slots_per_epoch g /\
              r = slot mod byron_slots_per_epoch g /\ e = slot / byron_slots_per_epoch g /\
              relative_slot_to_absolute m g e r = Ok slot.
Proof.
  intros m g slot W Hs NK. apply byron_roundtrip_proof; [assumption|assumption|].
  destruct (Z_lt_ge_dec (slot mod byron_epoch_length g) (byron_slots_per_epoch g)) as [L|G]; [exact L|].
  exfalso. apply NK. split; [lia|exact G].
Qed.

Theorem byron_known_class_violates : forall m g slot,
  wf g -> 0 <= slot -> byron_known_class g slot ->
  exists e r, absolute_slot_to_relative m g slot = Ok (e, r) /\
              r >= byron_slots_per_epoch g /\
              exists back, relative_slot_to_absolute m g e r = Ok back /\ back <> slot.
Proof. exact byron_class_fails_proof. Qed.

Theorem wallclock_step_within_era : forall m g slot,
  wf g -> byron_known_slot g <= slot < 2 ^ 40 -> same_era g slot (slot + 1) ->
  exists w w', slot_to_wallclock m g slot = Ok w /\ slot_to_wallclock m g (slot + 1) = Ok w' /\
               w' = w + era_slot_length g slot.
Proof. exact wallclock_step_within_era_proof. Qed.

Theorem wallclock_strict_mono_within_era : forall m g s1 s2,
  wf g -> byron_known_slot g <= s1 -> s1 < s2 <= 2 ^ 40 -> same_era g s1 s2 ->
  exists w1 w2, slot_to_wallclock m g s1 = Ok w1 /\ slot_to_wallclock m g s2 = Ok w2 /\
                w1 < w2 /\ w2 - w1 = (s2 - s1) * era_slot_length g s1.
Proof. exact wallclock_strict_mono_within_era_proof. Qed.

Theorem wallclock_boundary_step_iff_continuous : forall m g,
  wf g -> byron_known_slot g < shelley_known_slot g ->
  exists w w', slot_to_wallclock m g (shelley_known_slot g - 1) = Ok w /\
               slot_to_wallclock m g (shelley_known_slot g) = Ok w' /\
               (w' = w + byron_slot_length g <-> continuousb g = true).
Proof. exact wallclock_boundary_step_proof. Qed.

Theorem wallclock_strict_mono : forall m g s1 s2,
  wf g -> continuousb g = true -> byron_known_slot g <= s1 -> s1 < s2 <= 2 ^ 40 ->
  exists w1 w2, slot_to_wallclock m g s1 = Ok w1 /\ slot_to_wallclock m g s2 = Ok w2 /\ w1 < w2.
Proof. exact wallclock_strict_mono_proof. Qed.

(* --- the well-known networks, outside the two known classes ------------- *)

Theorem wellknown_consistent : forall m n slot,
  0 <= slot < 2 ^ 40 -> ~ Known n slot -> consistent m (genesis_of n) slot.
Proof. exact wellknown_consistent_proof. Qed.

Theorem wellknown_wallclock_strict_mono : forall m n s1 s2,
  0 <= s1 -> s1 < s2 <= 2 ^ 40 -> ~ (n = Testnet /\ s1 <= 1598399 < s2) ->
  exists w1 w2, slot_to_wallclock m (genesis_of n) s1 = Ok w1 /\
                slot_to_wallclock m (genesis_of n) s2 = Ok w2 /\ w1 < w2.
Proof. exact wellknown_mono_proof. Qed.

(* the known classes are tight: every slot in them violates the property *)
Theorem known_class_violates : forall m n slot,
  0 <= slot < 2 ^ 40 -> Known n slot -> ~ consistent m (genesis_of n) slot.
Proof. exact known_violates_proof. Qed.

(* --- refutations (failing inputs of the unchanged code) ----------------- *)

(* compute_era_epoch takes the remainder modulo the epoch length in seconds *)
Theorem byron_slot_in_epoch_refuted :
  exists g slot e r, wf g /\ 0 <= slot < shelley_known_slot g /\
    absolute_slot_to_relative Debug g slot = Ok (e, r) /\
    ~ r < byron_slots_per_epoch g /\
    relative_slot_to_absolute Debug g e r <> Ok slot.
Proof. exact byron_refuted_proof. Qed.

Theorem byron_slot_in_epoch_refuted_mainnet :
  absolute_slot_to_relative Debug mainnet 21600 = Ok (1, 21600) /\
  relative_slot_to_absolute Debug mainnet 1 21600 = Ok 43200.
Proof. exact mainnet_21600_proof. Qed.

(* testnet: the clock runs backwards across the era boundary *)
Theorem testnet_boundary_refuted :
  slot_to_wallclock Debug testnet 1598399 = Ok 1595978396 /\
  slot_to_wallclock Debug testnet 1598400 = Ok 1595967616.
Proof. exact testnet_refuted_proof. Qed.

(* --- non-vacuity --------------------------------------------------------- *)
Example consistent_examples :
  consistent Debug mainnet 21599 /\ consistent Debug mainnet 432005 /\
  consistent Release testnet 1296005 /\ consistent Debug testnet 1598400 /\
  consistent Debug preview 27556036 /\ consistent Debug preprod 86400.
Proof.
  repeat split.
  - apply (wellknown_consistent _ Mainnet); [lia|]. apply not_known_by_compute; [reflexivity|left; discriminate].
  - apply (wellknown_consistent _ Mainnet); [lia|]. apply not_known_by_compute; [reflexivity|left; discriminate].
  - apply (wellknown_consistent _ Testnet); [lia|]. apply not_known_by_compute; [reflexivity|right; lia].
  - apply (wellknown_consistent _ Testnet); [lia|]. apply not_known_by_compute; [reflexivity|right; lia].
  - apply (wellknown_consistent _ Preview); [lia|]. apply not_known_by_compute; [reflexivity|left; discriminate].
  - apply (wellknown_consistent _ Preprod); [lia|]. apply not_known_by_compute; [reflexivity|left; discriminate].
Qed.

Example known_examples : Known Mainnet 21600 /\ Known Testnet 1598399 /\ Known Preprod 21600.
Proof.
  split; [|split].
  - left. split; [reflexivity|]. vm_compute. congruence.
  - right. split; reflexivity.
  - left. split; [reflexivity|]. vm_compute. congruence.
Qed.

Example generic_wf_example :
  wf (mk_genesis 7 0 3000 5 0 100 86400 2 1800 9100) /\
  ~ byron_known_class (mk_genesis 7 0 3000 5 0 100 86400 2 1800 9100) 3001 /\
  continuousb (mk_genesis 7 0 3000 5 0 100 86400 2 1800 9100) = true.
Proof. split; [reflexivity|]. split; [|reflexivity]. intros [_ K]. vm_compute in K. congruence. Qed.
