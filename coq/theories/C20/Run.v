(* C20 correspondence: a case is one direction of one run of two real Plexers:
   (recorded byte stream with timestamps zeroed,
    [(wire id, chunks enqueued by the sending agent)],
    [(wire id, chunks dequeued by the agent listening on that id)]). *)
From PV Require Import Lib.Base C20.Model C20.Sched.
Open Scope Z_scope.

Definition rep (b n : Z) : list Z := repeat b (Z.to_nat n).

(* observable events of one direction of a real run, in the order they were logged *)
Inductive ev : Type :=
| EFrag (n : Z)                       (* the tap forwarded n more bytes to the receiving Plexer *)
| EDeq (id : Z) (chunk : list Z).     (* the agent listening on id got chunk from dequeue_chunk *)

Inductive case : Type :=
(* one direction of a run of two real Plexers: recorded bytes (timestamps zeroed),
   [(wire id, chunks enqueued)], [(wire id, chunks dequeued by the listener on that id)] *)
| CPlex (bytes : list Z) (sent recvd : list (Z * list (list Z)))
(* pallas-network2 bearer: segments written by write_segment, the raw bytes it
   produced, and what read_segment returned over those bytes *)
| CNet2 (segs : list segment) (bytes : list Z) (back : list (Z * list Z))
(* a recorded run replayed as a schedule of the transition system: subscribed ids,
   the segments in wire order, the logged events, what every agent had dequeued at the end *)
| CSched (subs : list Z) (wire : list (Z * list Z)) (events : list ev) (recvd : list (Z * list (list Z))).

Definition bytes_eqb := list_eqb Z.eqb.
Definition chunks_eqb := list_eqb bytes_eqb.
Definition segs_eqb := list_eqb (fun a b : Z * list Z => (fst a =? fst b) && bytes_eqb (snd a) (snd b)).

(* ---- replay: the logged events are completed to a schedule (the unobservable
   steps - enqueue, mux, demux - are inserted as late as possible; the log order of
   two different agents' dequeues is not reliable, so a dequeue that the model
   needs in order to unblock the demuxer is pulled forward) and run through exec_step *)
Definition bind {A B} (o : option A) (f : A -> option B) : option B := match o with Some a => f a | None => None end.

Fixpoint feed (fuel : nat) (cfg : config) (st : state) (todo : list (Z * list Z)) (n : nat)
  : option (state * list (Z * list Z)) :=
  if (n <=? length (inflight st))%nat then Some (st, todo) else
  match fuel, todo with
  | S f, (id, x) :: r =>
    bind (exec_step cfg st (CEnqueue id x)) (fun st1 =>
    bind (exec_step cfg st1 (CMux 0)) (fun st2 => feed f cfg st2 r n))
  | _, _ => None
  end.

Fixpoint take_deq (p : Z) (evs : list ev) : option (list Z * list ev) :=
  match evs with
  | [] => None
  | EDeq id c :: r => if id =? p then Some (c, r)
                      else bind (take_deq p r) (fun '(c', r') => Some (c', EDeq id c :: r'))
  | e :: r => bind (take_deq p r) (fun '(c', r') => Some (c', e :: r'))
  end.

Definition deq_check (cfg : config) (st : state) (id : Z) (chunk : list Z) : option state :=
  match egress st id with
  | x :: _ => if bytes_eqb x chunk then exec_step cfg st (CDequeue id) else None
  | [] => None
  end.

Fixpoint pump (fuel : nat) (cfg : config) (st : state) (id : Z) (later : list ev) : option (state * list ev) :=
  match egress st id with
  | _ :: _ => Some (st, later)
  | [] =>
    match fuel with
    | O => None
    | S f =>
      match exec_step cfg st CDemux with
      | Some st' => pump f cfg st' id later
      | None =>
        match dmx st with
        | DHolding p _ =>
          bind (take_deq p later) (fun '(c, later') =>
          bind (deq_check cfg st p c) (fun st1 => pump f cfg st1 id later'))
        | _ => None
        end
      end
    end
  end.

Fixpoint replay (fuel : nat) (cfg : config) (st : state) (todo : list (Z * list Z)) (evs : list ev)
  : option (state * list (Z * list Z)) :=
  match fuel with
  | O => None
  | S f =>
    match evs with
    | [] => Some (st, todo)
    | EFrag n :: r =>
      bind (feed (S (length todo)) cfg st todo (Z.to_nat n)) (fun '(st1, todo1) =>
      bind (exec_step cfg st1 (CArrive (Z.to_nat n))) (fun st2 => replay f cfg st2 todo1 r))
    | EDeq id c :: r =>
      bind (pump (4 * length todo + 4 * length evs + 400) cfg st id r) (fun '(st1, r1) =>
      bind (deq_check cfg st1 id c) (fun st2 => replay f cfg st2 todo r1))
    end
  end.

Definition run_sched (subs : list Z) (wire : list (Z * list Z)) (events : list ev) :=
  replay (S (length events)) (plexer_cfg subs) init wire events.

Definition idle (st : state) (subs : list Z) : bool :=
  match ingress st, inflight st, arrived st, dmx st with
  | [], [], [], DIdle => forallb (fun id => match egress st id with [] => true | _ => false end) subs
  | _, _, _, _ => false
  end.

(* model run: cut the bytes into segments, route them *)
Definition case_out (c : case) :=
  match c with
  | CPlex bytes sent _ => let '(w, fin) := parse bytes in (demux (map fst sent) w, fin, [])
  | CNet2 segs _ _ => let '(w, fin) := parse (mux_bytes segs) in ([], fin, w)
  | CSched subs wire events _ =>
    match run_sched subs wire events with
    | Some (st, todo) => (map (fun id => (id, delivered st id)) subs, Ok tt, todo)
    | None => ([], Err 9, [])
    end
  end.

Definition case_ok (c : case) : bool :=
  match c with
  | CPlex bytes sent recvd =>
    let '(w, fin) := parse bytes in
    match fin with Ok _ => true | _ => false end
    (* every agent dequeued exactly the model's queue for its id *)
    && forallb (fun q => chunks_eqb (delivered_to (fst q) w) (snd q)) recvd
    (* the wire is an interleaving of what the agents enqueued: per id, in order, nothing else *)
    && forallb (fun q => chunks_eqb (delivered_to (fst q) w) (snd q)) sent
    && forallb (fun s => existsb (fun q => fst q =? fst s) sent) w
    (* the muxer wrote exactly the model's frames *)
    && bytes_eqb (mux_bytes (map (fun s => (0, fst s, snd s)) w)) bytes
  | CNet2 segs bytes back =>
    bytes_eqb (mux_bytes segs) bytes &&
    let '(w, fin) := parse bytes in
    match fin with Ok _ => true | _ => false end && segs_eqb w back
  | CSched subs wire events recvd =>
    match run_sched subs wire events with
    | Some (st, todo) =>
      (* every logged step was enabled in the model and returned the same chunk; at the end each
         agent holds exactly the model's delivered sequence, which is everything sent to it,
         and nothing is left anywhere *)
      match todo with [] => true | _ => false end && idle st subs
      && forallb (fun q => chunks_eqb (delivered st (fst q)) (snd q)) recvd
      && forallb (fun id => chunks_eqb (delivered st id) (sent st id)) subs
    | None => false
    end
  end.
