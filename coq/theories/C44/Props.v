(* C44 — property theorems only. Statements are pinned by vp/check.py. *)
From PV Require Import Lib.Base C44.Model C44.Proofs.
Open Scope Z_scope.

(* every Plutus integer is represented exactly, never truncated *)
Theorem bigint_exact : forall b, pbig_wf b -> ubig_val (map_bigint b) = Some (pbig_val b).
Proof. exact map_bigint_exact_proof. Qed.

(* small values as integers, larger ones as 8 big-integer bytes *)
Theorem bigint_small_is_int : forall z, i64_min <= z <= i64_max -> map_bigint (PInt z) = UInt z.
Proof. exact map_bigint_small_proof. Qed.

Theorem bigint_large_is_bytes : forall z, z < i64_min \/ i64_max < z ->
  exists bs, (map_bigint (PInt z) = UBigU bs \/ map_bigint (PInt z) = UBigN bs) /\ length bs = 8%nat.
Proof. exact map_bigint_large_proof. Qed.

(* the code as it was before the `fix:` commit truncated: replayable witness 2^63 *)
Theorem bigint_trunc_refuted :
  exists b, pbig_wf b /\ ubig_val (map_bigint_unfixed b) <> Some (pbig_val b).
Proof. exact map_bigint_unfixed_refuted_proof. Qed.

Theorem u64_to_bigint_exact : forall v, 0 <= v < 2 ^ 64 -> ubig_val (u64_to_bigint v) = Some v.
Proof. exact u64_to_bigint_exact_proof. Qed.

(* datum content preserved: structure, bytes, constructor tags and every integer, at any depth *)
Theorem datum_map_structure_preserved : forall d, pdata_wf d -> usem (map_datum d) = psem d.
Proof. exact map_datum_sem_proof. Qed.

(* hash, fee, validity, inputs (as the sorted duplicate-free set) and output address/coin preserved *)
Theorem map_tx_preserves : forall t,
  0 <= r_fee t < 2 ^ 64 ->
  Forall (fun i : txin => 0 <= snd i < 2 ^ 32) (r_inputs t) ->
  Forall (fun o : rout => 0 <= snd (fst o) < 2 ^ 64) (r_outputs t) ->
  let m := map_tx t in
  m_hash m = r_hash t /\ ubig_val (m_fee m) = Some (r_fee t) /\
  m_start m = r_start t /\ m_ttl m = r_ttl t /\ m_ok m = r_ok t /\
  (forall i, In i (m_inputs m) <-> In i (r_inputs t)) /\ strictly_sorted (m_inputs m) /\
  map (fun o : mout => (fst (fst o), ubig_val (snd (fst o)))) (m_outputs m)
    = map (fun o : rout => (fst (fst o), Some (snd (fst o)))) (r_outputs t).
Proof. exact map_tx_preserves_proof. Qed.

(* non-vacuity *)
Example datum_example :
  let d := PConstr 122 None [PBig (PInt (2 ^ 64 - 1)); PMap [(PBytes [1; 2], PBig (PInt (- 2 ^ 64)))]; PArr [PBig (PBigN [1; 0])]] in
  pdata_wf d /\ usem (map_datum d) = psem d /\
  map_datum d = UConstr 122 0 [UBig (UBigU [255; 255; 255; 255; 255; 255; 255; 255]);
                               UMap [(UBytes [1; 2], UBig (UBigN [255; 255; 255; 255; 255; 255; 255; 255]))];
                               UArr [UBig (UBigN [1; 0])]].
Proof. cbn zeta. split; [cbn; lia|]. split; vm_compute; reflexivity. Qed.
