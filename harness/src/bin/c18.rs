//! C18: Shelley / stake addresses round-trip with a faithful header; varuint codec.
//! Cases are terms of `C18.Run.case` (see coq/theories/C18/Run.v).
use pallas_addresses::{
    varuint, Address, Error, Network, Pointer, ShelleyAddress, ShelleyDelegationPart,
    ShelleyPaymentPart, StakeAddress, StakePayload,
};
use pallas_crypto::hash::Hash;
use std::io::Cursor;
use std::str::FromStr;
use verif_harness::*;

fn err_class(e: &Error) -> i64 {
    match e {
        Error::MissingHeader => 1,
        Error::InvalidHeader(_) => 2,
        Error::InvalidAddressLength(_) => 3,
        Error::InvalidHashSize(_) => 4,
        Error::VarUintError(varuint::Error::UnexpectedEof) => 5,
        Error::VarUintError(varuint::Error::VarUintOverflow) => 6,
        Error::InvalidByronCbor(_) => 7,
        Error::BadHex => 8,
        Error::BadBech32(_) => 9,
        Error::UnknownNetworkHrp(_) => 10,
        Error::InvalidForByron => 11,
        Error::UnknownStringFormat(_) => 12,
        Error::BadBase58(_) => 13,
        Error::InvalidForContent => 14,
        Error::InvalidPointerData => 15,
    }
}

fn coq_net(n: &Network) -> String {
    match n {
        Network::Testnet => "Testnet".into(),
        Network::Mainnet => "Mainnet".into(),
        Network::Other(x) => format!("(Other {})", x),
    }
}
fn coq_addr(a: &Address) -> Option<String> {
    match a {
        Address::Byron(_) => None,
        Address::Shelley(s) => {
            let p = match s.payment() {
                ShelleyPaymentPart::Key(h) => format!("(PayKey {})", coq_bytes(h.as_ref())),
                ShelleyPaymentPart::Script(h) => format!("(PayScript {})", coq_bytes(h.as_ref())),
            };
            let d = match s.delegation() {
                ShelleyDelegationPart::Key(h) => format!("(DelKey {})", coq_bytes(h.as_ref())),
                ShelleyDelegationPart::Script(h) => format!("(DelScript {})", coq_bytes(h.as_ref())),
                ShelleyDelegationPart::Pointer(p) => format!("(DelPointer {} {} {})", p.slot(), p.tx_idx(), p.cert_idx()),
                ShelleyDelegationPart::Null => "DelNull".into(),
            };
            Some(format!("(Shelley {} {} {})", coq_net(&s.network()), p, d))
        }
        Address::Stake(s) => {
            let p = match s.payload() {
                StakePayload::Stake(h) => format!("(StStake {})", coq_bytes(h.as_ref())),
                StakePayload::Script(h) => format!("(StScript {})", coq_bytes(h.as_ref())),
            };
            Some(format!("(Stake {} {})", coq_net(&s.network()), p))
        }
    }
}
/// outcome term; None when the value cannot be expressed in C18's model (Byron)
fn coq_addr_out(o: &Out<Address>) -> Option<String> {
    match o {
        Out::Ok(a) => coq_addr(a).map(|s| format!("(Ok {})", s)),
        Out::Err(c) => Some(format!("(Err {})", c)),
        Out::Panic(_) => Some("(Panic 1)".into()),
    }
}
fn out_eq(o: &Out<Address>, a: &Address) -> bool { matches!(o, Out::Ok(b) if b == a) }
fn show(o: &Out<Address>) -> String {
    match o {
        Out::Ok(a) => format!("Ok({:?})", a),
        Out::Err(c) => format!("Err(class {})", c),
        Out::Panic(m) => format!("PANIC({})", m),
    }
}

fn from_bytes(bs: &[u8]) -> Out<Address> { guard(|| Address::from_bytes(bs).map_err(|e| err_class(&e).to_string())) }
fn from_hex(s: &str) -> Out<Address> { guard(|| Address::from_hex(s).map_err(|e| err_class(&e).to_string())) }
fn from_bech32(s: &str) -> Out<Address> { guard(|| Address::from_bech32(s).map_err(|e| err_class(&e).to_string())) }
fn from_str(s: &str) -> Out<Address> { guard(|| Address::from_str(s).map_err(|e| err_class(&e).to_string())) }

fn read_obs(bs: &[u8]) -> String {
    let o = guard(|| {
        let mut c = Cursor::new(bs);
        let v = varuint::read(&mut c).map_err(|e| match e {
            varuint::Error::UnexpectedEof => "5".to_string(),
            varuint::Error::VarUintOverflow => "6".to_string(),
        })?;
        Ok((v, c.position()))
    });
    match o {
        Out::Ok((v, p)) => format!("(Ok ({},{}))", v, p),
        Out::Err(c) => format!("(Err {})", c),
        Out::Panic(_) => "(Panic 1)".into(),
    }
}

fn varuint_case(n: u64, suffix: &[u8], tag: &str, oo: bool) {
    let w = guard_total(|| {
        let mut c = Cursor::new(vec![]);
        varuint::write(&mut c, n);
        c.into_inner()
    });
    let written = match w {
        Out::Ok(v) => v,
        _ => { emit_oracle_fail("varuint-write-panic", &format!("varuint::write({}) panicked", n)); return; }
    };
    let mut all = written.clone();
    all.extend_from_slice(suffix);
    // oracle: read back n and stop exactly behind the written bytes
    let back = guard(|| {
        let mut c = Cursor::new(&all[..]);
        let v = varuint::read(&mut c).map_err(|_| "err".to_string())?;
        Ok((v, c.position()))
    });
    match back {
        Out::Ok((v, p)) if v == n && p as usize == written.len() => {}
        Out::Ok((v, p)) => emit_oracle_fail("varuint-roundtrip", &format!("n={} written={} suffix={} read=({}, consumed {})", n, hex(&written), hex(suffix), v, p)),
        _ => emit_oracle_fail("varuint-roundtrip", &format!("n={} written={} suffix={} read failed", n, hex(&written), hex(suffix))),
    }
    if !oo {
        emit_case(tag, &format!("(CWrite {} {} {} {})", n, coq_bytes(suffix), coq_bytes(&written), read_obs(&all)));
    }
}

fn hash28(rng: &mut Rng) -> Hash<28> {
    let mut b = [0u8; 28];
    match rng.below(8) {
        0 => { for x in b.iter_mut() { *x = 0; } }
        1 => { for x in b.iter_mut() { *x = 0xff; } }
        2 => { for x in b.iter_mut() { *x = 0x80 | rng.byte(); } }
        _ => { for x in b.iter_mut() { *x = rng.byte(); } }
    }
    Hash::from(b)
}

fn ptr_u64(rng: &mut Rng) -> u64 {
    match rng.below(5) {
        0 => { let k = rng.range(1, 9); let base = 1u128 << (7 * k); let d = rng.below(3) as i64 - 1; ((base as i128 + d as i128) as u128).min(u64::MAX as u128) as u64 }
        1 => u64::MAX - rng.below(2),
        2 => rng.below(200),
        _ => rng.edge_u64(),
    }
}

/// typ in {0..7, 14, 15}
fn build(typ: u8, net: Network, rng: &mut Rng) -> Address {
    let h1 = hash28(rng);
    let h2 = hash28(rng);
    let pay = if typ & 1 == 0 { ShelleyPaymentPart::key_hash(h1) } else { ShelleyPaymentPart::script_hash(h1) };
    match typ {
        0 | 1 => ShelleyAddress::new(net, pay, ShelleyDelegationPart::key_hash(h2)).into(),
        2 | 3 => ShelleyAddress::new(net, pay, ShelleyDelegationPart::script_hash(h2)).into(),
        4 | 5 => {
            let p = Pointer::new(ptr_u64(rng), ptr_u64(rng), ptr_u64(rng));
            ShelleyAddress::new(net, pay, ShelleyDelegationPart::Pointer(p)).into()
        }
        6 | 7 => ShelleyAddress::new(net, pay, ShelleyDelegationPart::Null).into(),
        14 => StakeAddress::new(net, StakePayload::Stake(h1)).into(),
        _ => StakeAddress::new(net, StakePayload::Script(h1)).into(),
    }
}

/// The property's predicate on one address value (independent of the model).
/// `typ`/`net` = None when the address came out of the parser rather than `build`.
fn oracle_addr(a: &Address, expect: Option<(u8, u8)>, origin: &str) {
    let vec = match guard_total(|| a.to_vec()) { Out::Ok(v) => v, _ => { emit_oracle_fail("to_vec-panic", &format!("{} {:?}", origin, a)); return; } };
    let typeid = a.typeid();
    let netv = a.network().map(|n| n.value()).unwrap_or(255);
    let header = match a { Address::Shelley(s) => s.to_header(), Address::Stake(s) => s.to_header(), _ => 0 };
    if let Some((t, n)) = expect {
        if typeid != t { emit_oracle_fail("typeid", &format!("{} built type {} but typeid()={} addr={:?}", origin, t, typeid, a)); }
        if netv != n { emit_oracle_fail("network", &format!("{} built network {} but network().value()={} addr={:?}", origin, n, netv, a)); }
    }
    if header as u32 != (typeid as u32) * 16 + netv as u32 || vec.first() != Some(&header) {
        emit_oracle_fail("header", &format!("{} header={:#04x} first byte={:?} typeid={} network={} addr={:?}", origin, header, vec.first(), typeid, netv, a));
    }
    let b = from_bytes(&vec);
    if !out_eq(&b, a) { emit_oracle_fail("bytes-roundtrip", &format!("{} addr={:?} to_vec={} from_bytes={}", origin, a, hex(&vec), show(&b))); }
    let t = guard(|| Address::try_from(&vec[..]).map_err(|e| err_class(&e).to_string()));
    if !out_eq(&t, a) { emit_oracle_fail("bytes-roundtrip-tryfrom", &format!("{} addr={:?} to_vec={} try_from={}", origin, a, hex(&vec), show(&t))); }
    let hx = a.to_hex();
    if hx != hex(&vec) { emit_oracle_fail("hex-text", &format!("{} addr={:?} to_hex={} bytes={}", origin, a, hx, hex(&vec))); }
    let h = from_hex(&hx);
    if !out_eq(&h, a) { emit_oracle_fail("hex-roundtrip", &format!("{} addr={:?} to_hex={} from_hex={}", origin, a, hx, show(&h))); }
    let hu = from_hex(&hx.to_uppercase());
    if !out_eq(&hu, a) { emit_oracle_fail("hex-roundtrip-upper", &format!("{} addr={:?} HEX={} from_hex={}", origin, a, hx.to_uppercase(), show(&hu))); }
    // bech32 for testnet / mainnet, with the prefix of the network
    let be = guard(|| a.to_bech32().map_err(|e| err_class(&e).to_string()));
    let is_stake = matches!(a, Address::Stake(_));
    match (netv, &be) {
        (0, Out::Ok(s)) | (1, Out::Ok(s)) => {
            let want = format!("{}{}1", if is_stake { "stake" } else { "addr" }, if netv == 0 { "_test" } else { "" });
            if !s.starts_with(&want) { emit_oracle_fail("hrp", &format!("{} network={} bech32={} expected prefix {}", origin, netv, s, want)); }
            let hr = a.hrp().ok();
            if hr.map(|x| format!("{}1", x)) != Some(want.clone()) { emit_oracle_fail("hrp", &format!("{} network={} hrp()={:?} expected {}", origin, netv, hr, want)); }
            let d = from_bech32(s);
            if !out_eq(&d, a) { emit_oracle_fail("bech32-roundtrip", &format!("{} addr={:?} bech32={} from_bech32={}", origin, a, s, show(&d))); }
        }
        (0, o) | (1, o) => emit_oracle_fail("bech32-encode", &format!("{} addr={:?} network={} to_bech32 failed: {}", origin, a, netv, match o { Out::Err(c) => c.clone(), _ => "panic".into() })),
        (_, Out::Ok(s)) => emit_oracle_fail("hrp", &format!("{} network={} has no hrp but to_bech32={}", origin, netv, s)),
        (_, Out::Err(_)) => {}
        (_, Out::Panic(m)) => emit_oracle_fail("bech32-encode", &format!("{} addr={:?} to_bech32 panicked: {}", origin, a, m)),
    }
    let st = match guard_total(|| a.to_string()) { Out::Ok(s) => s, _ => { emit_oracle_fail("to_string-panic", &format!("{} {:?}", origin, a)); return; } };
    let back = from_str(&st);
    if !out_eq(&back, a) { emit_oracle_fail("string-roundtrip", &format!("{} addr={:?} to_string={} from_str={}", origin, a, st, show(&back))); }
}

fn addr_case(a: &Address, tag: &str, oo: bool) {
    if oo { return; }
    let vec = a.to_vec();
    let (header, hrp) = match a {
        Address::Shelley(s) => (s.to_header(), s.hrp()),
        Address::Stake(s) => (s.to_header(), s.hrp()),
        _ => return,
    };
    let hrp = match hrp { Ok(s) => format!("(Ok {})", coq_bytes(s.as_bytes())), Err(e) => format!("(Err {})", err_class(&e)) };
    let back = from_bytes(&vec);
    let (Some(at), Some(bt)) = (coq_addr(a), coq_addr_out(&back)) else { return };
    emit_case(tag, &format!("(CAddr {} {} {} {} {} {} {})", at, coq_bytes(&vec), header, a.typeid(), hrp, coq_bytes(a.to_hex().as_bytes()), bt));
    let be = match guard(|| a.to_bech32().map_err(|e| err_class(&e).to_string())) {
        Out::Ok(s) => format!("(Ok {})", coq_bytes(s.as_bytes())), Out::Err(c) => format!("(Err {})", c), Out::Panic(_) => "(Panic 1)".into() };
    emit_case(&format!("{}/to_bech32", tag), &format!("(CBech {} {})", at, be));
    if let Address::Shelley(sa) = a {
        let (ph, pd) = (if sa.payment().is_script() { "addr_shared_vkh" } else { "addr_vkh" }, sa.payment().to_vec());
        emit_case("part-to_bech32", &format!("(CPartBech {} {} {})", coq_bytes(ph.as_bytes()), coq_bytes(&pd), coq_bytes(sa.payment().to_bech32().as_bytes())));
        if let Ok(ds) = sa.delegation().to_bech32() {
            let dh = if sa.delegation().is_script() { "stake_shared_vkh" } else { "stake_vkh" };
            emit_case("part-to_bech32", &format!("(CPartBech {} {} {})", coq_bytes(dh.as_bytes()), coq_bytes(&sa.delegation().to_vec()), coq_bytes(ds.as_bytes())));
        }
    }
}

fn bytes_case(bs: &[u8], tag: &str, oo: bool) {
    let r = from_bytes(bs);
    if let Out::Ok(a) = &r {
        if !matches!(a, Address::Byron(_)) { oracle_addr(a, None, &format!("parsed-from={}", hex(bs))); }
    }
    if oo { return; }
    if let Some(t) = coq_addr_out(&r) { emit_case(tag, &format!("(CBytes {} {})", coq_bytes(bs), t)); }
}

fn hex_case(s: &str, tag: &str, oo: bool) {
    let r = from_hex(s);
    if oo { return; }
    if let Some(t) = coq_addr_out(&r) { emit_case(tag, &format!("(CHex {} {})", coq_bytes(s.as_bytes()), t)); }
}

fn ptr_case(bs: &[u8], tag: &str, oo: bool) {
    if oo { return; }
    let r = guard(|| Pointer::parse(bs).map_err(|e| err_class(&e).to_string()));
    let t = match r {
        Out::Ok(p) => format!("(Ok ({},{},{}))", p.slot(), p.tx_idx(), p.cert_idx()),
        Out::Err(c) => format!("(Err {})", c),
        Out::Panic(_) => "(Panic 1)".into(),
    };
    emit_case(tag, &format!("(CPtr {} {})", coq_bytes(bs), t));
}

/// a varuint byte string of a chosen shape (valid, over-long, over-large, truncated)
fn varuint_bytes(rng: &mut Rng) -> (Vec<u8>, &'static str) {
    let canon = |n: u64| { let mut c = Cursor::new(vec![]); varuint::write(&mut c, n); c.into_inner() };
    match rng.below(8) {
        0 => (canon(rng.edge_u64()), "read-canonical"),
        1 => { // over-long: leading zero groups
            let mut v = vec![0x80u8; rng.range(1, 12) as usize]; v.extend(canon(rng.edge_u64())); (v, "read-overlong-leading-zeros") }
        2 => { // exactly 10 groups, first group 1..=3: at / just above the u64 boundary
            let mut v = vec![0x80 | rng.range(1, 3) as u8];
            for _ in 0..8 { v.push(0x80 | if rng.bool() { 0x7f } else { rng.byte() & 0x7f }); }
            v.push(if rng.bool() { 0x7f } else { rng.byte() & 0x7f });
            if rng.bool() { v.push(rng.byte()); }
            (v, "read-10-groups-boundary") }
        3 => { // over-large: many groups
            let k = rng.range(10, 30) as usize;
            let mut v: Vec<u8> = (0..k).map(|_| 0x80 | rng.byte()).collect(); v.push(rng.byte() & 0x7f); (v, "read-overlarge") }
        4 => { // truncated: continuation bit on the last byte
            let k = rng.range(0, 9) as usize;
            (((0..k).map(|_| 0x80 | (rng.byte() & 0x0f)).collect()), "read-truncated") }
        5 => { let k = rng.range(0, 14) as usize; (rng.bytes(k), "read-random") }
        6 => { let mut v = vec![0xffu8; rng.range(9, 12) as usize]; v.push(0x7f); (v, "read-all-ones") }
        _ => { let mut v = canon(u64::MAX - rng.below(2)); if rng.bool() { let l = v.len(); v[l - 1] |= 0x80; v.push(rng.byte() & 0x7f); } (v, "read-max-then-more") }
    }
}

// ---- reference bech32 (BIP-173), independent of the bech32 crate and of the Coq model
const B32: &[u8] = b"qpzry9x8gf2tvdw0s3jn54khce6mua7l";
fn b32_polymod(v: &[u8]) -> u32 {
    const GEN: [u32; 5] = [0x3b6a57b2, 0x26508e6d, 0x1ea119fa, 0x3d4233dd, 0x2a1462b3];
    let mut chk = 1u32;
    for &x in v {
        let b = chk >> 25;
        chk = ((chk & 0x1ffffff) << 5) ^ x as u32;
        for i in 0..5 { if (b >> i) & 1 == 1 { chk ^= GEN[i]; } }
    }
    chk
}
fn b32_to5(data: &[u8]) -> Vec<u8> {
    let (mut acc, mut bits, mut out) = (0u32, 0u32, vec![]);
    for &b in data {
        acc = (acc << 8) | b as u32; bits += 8;
        while bits >= 5 { bits -= 5; out.push(((acc >> bits) & 31) as u8); }
    }
    if bits > 0 { out.push(((acc << (5 - bits)) & 31) as u8); }
    out
}
/// hrp bytes as given (the checksum uses the lower-cased hrp), then '1', symbols, checksum
fn b32_string(hrp: &[u8], fes: &[u8], konst: u32) -> Vec<u8> {
    let low: Vec<u8> = hrp.iter().map(|c| c.to_ascii_lowercase()).collect();
    let mut v: Vec<u8> = low.iter().map(|c| c >> 5).collect();
    v.push(0);
    v.extend(low.iter().map(|c| c & 31));
    v.extend_from_slice(fes);
    v.extend([0u8; 6]);
    let pm = b32_polymod(&v) ^ konst;
    let mut s = hrp.to_vec();
    s.push(b'1');
    for &f in fes { s.push(B32[f as usize]); }
    for i in 0..6 { s.push(B32[((pm >> (5 * (5 - i))) & 31) as usize]); }
    s
}

/// Address::from_bech32 and Address::from_str on one string
fn bech_case(bytes: &[u8], tag: &str, expect: Option<&Address>, oo: bool) {
    let Ok(s) = std::str::from_utf8(bytes) else { return };
    let r = from_bech32(s);
    if let Some(a) = expect {
        if !out_eq(&r, a) { emit_oracle_fail("bech32-parse", &format!("valid bech32 string {} of address {:?} parses to {}", s, a, show(&r))); }
    }
    if oo { return; }
    if let Some(t) = coq_addr_out(&r) { emit_case(tag, &format!("(CFromBech {} {})", coq_bytes(bytes), t)); }
    // from_str: bech32, then Byron base58 (not modelled here: only when it fails), then hex
    let b58_fails = !matches!(guard(|| pallas_addresses::ByronAddress::from_base58(s).map_err(|e| err_class(&e).to_string())), Out::Ok(_));
    if b58_fails {
        let rs = from_str(s);
        if let Some(t) = coq_addr_out(&rs) { emit_case(&format!("{}/from_str", tag), &format!("(CFromStr {} {})", coq_bytes(bytes), t)); }
    }
}

fn rand_hrp(rng: &mut Rng, len: usize) -> Vec<u8> {
    // valid lower-case hrp characters: 33..=126 without 'A'..='Z'
    (0..len).map(|_| loop { let c = rng.range(33, 126) as u8; if !c.is_ascii_uppercase() { break c; } }).collect()
}

fn bech32_stream(rng: &mut Rng, n: usize, oo: bool) {
    for _ in 0..n {
        let t = *rng.pick(&TYPES);
        let a = build(t, Network::from(rng.below(16) as u8), rng);
        let abytes = a.to_vec();
        let hl = match rng.below(4) { 0 => 1, 1 => rng.range(2, 10) as usize, 2 => rng.range(11, 83) as usize, _ => 4 };
        let hrp = match rng.below(3) { 0 => b"addr".to_vec(), 1 => b"stake_test".to_vec(), _ => rand_hrp(rng, hl) };
        let fes = b32_to5(&abytes);
        let good = b32_string(&hrp, &fes, 1);
        match rng.below(16) {
            0 | 1 => bech_case(&good, "bech32-valid-any-hrp", Some(&a), oo),
            2 => { let up: Vec<u8> = good.iter().map(|c| c.to_ascii_uppercase()).collect(); bech_case(&up, "bech32-valid-uppercase", Some(&a), oo) }
            3 => { // mixed case: upper-case one letter of a lower-case string
                let mut m = good.clone();
                let idx: Vec<usize> = (0..m.len()).filter(|&i| m[i].is_ascii_lowercase()).collect();
                if idx.len() >= 2 { let k = *rng.pick(&idx); m[k] = m[k].to_ascii_uppercase(); bech_case(&m, "bech32-mixed-case", None, oo) } }
            4 => bech_case(&b32_string(&hrp, &fes, 0x2bc830a3), "bech32m-checksum", None, oo),
            5 => { // bad checksum: another charset character somewhere in the data part
                let mut m = good.clone(); let k = hrp.len() + 1 + rng.below((m.len() - hrp.len() - 1) as u64) as usize;
                let c = loop { let c = *rng.pick(B32); if c != m[k] { break c; } }; m[k] = c; bech_case(&m, "bech32-bad-checksum", None, oo) }
            6 => { let mut m = good.clone(); let k = hrp.len() + 1 + rng.below((m.len() - hrp.len() - 1) as u64) as usize;
                   m[k] = *rng.pick(&[b'b', b'i', b'o', b'B', b' ', b'!', b'1', 0x7f]); bech_case(&m, "bech32-bad-character", None, oo) }
            7 => { // arbitrary data bytes, incl. empty
                let l = match rng.below(4) { 0 => 0, 1 => rng.range(1, 5) as usize, 2 => rng.range(28, 58) as usize, _ => rng.range(0, 70) as usize };
                let d = rng.bytes(l); bech_case(&b32_string(&hrp, &b32_to5(&d), 1), "bech32-valid-arbitrary-data", None, oo) }
            8 => { let m: Vec<u8> = good.iter().copied().filter(|&c| c != b'1').collect(); bech_case(&m, "bech32-no-separator", None, oo) }
            9 => bech_case(&b32_string(b"", &fes, 1), "bech32-empty-hrp", None, oo),
            10 => { let hl2 = if rng.bool() { 83 } else { 84 }; let h = rand_hrp(rng, hl2); bech_case(&b32_string(&h, &fes, 1), "bech32-hrp-83-84", None, oo) }
            11 => { let k = rng.below(6) as usize; let mut m = hrp.clone(); m.push(b'1'); for _ in 0..k { m.push(*rng.pick(B32)); } bech_case(&m, "bech32-short-data-part", None, oo) }
            12 => { let dl = rng.range(60, 120) as usize; let d = rng.bytes(dl); bech_case(&b32_string(&hrp, &b32_to5(&d), 1), "bech32-valid-long-data", None, oo) }
            13 => { // non-zero padding bits / one surplus symbol: byte_iter drops them
                let mut f = fes.clone();
                if rng.bool() { let l = f.len(); let pad = (5 * l - 8 * abytes.len()) as u32; if pad > 0 { f[l - 1] |= (rng.range(1, (1u64 << pad) - 1)) as u8; } } else { f.push(rng.below(4) as u8); }
                bech_case(&b32_string(&hrp, &f, 1), "bech32-nonzero-padding", None, oo) }
            14 => { let mut h = rand_hrp(rng, 6); h[rng.below(6) as usize] = b'1'; h[rng.below(6) as usize] = *rng.pick(&[b'!', b'~', b'_', b'1']);
                    bech_case(&b32_string(&h, &fes, 1), "bech32-hrp-with-separator-char", Some(&a), oo) }
            _ => { let mut h = rand_hrp(rng, 5);
                   match rng.below(3) { 0 => h[2] = b' ', 1 => h[2] = 0x7f, _ => { h.truncate(3); h.extend("é".as_bytes()); } }
                   bech_case(&b32_string(&h, &fes, 1), "bech32-hrp-invalid-character", None, oo) }
        }
    }
}

const TYPES: [u8; 10] = [0, 1, 2, 3, 4, 5, 6, 7, 14, 15];

fn main() {
    let args = args();
    // a panic that escapes the guards comes from an unguarded implementation call
    // (to_vec / to_base58 / constructors): report it as an observation, not a tool crash
    if let Out::Panic(m) = guard_total(|| run(args)) {
        emit_oracle_fail("panic/unguarded-call", &format!("an unguarded implementation call panicked: {}", m));
    }
}

fn run(args: Args) {
    let oo = args.oracle_only;
    let mut rng = Rng::new(args.seed);
    let thorough = args.tier == "thorough";

    // ---- varuint: deterministic boundaries (every 7-bit boundary +-1, extremes)
    let mut bounds: Vec<u64> = vec![0, 1, 2, 126, 127, 128, 129, 255, 256, u64::MAX, u64::MAX - 1, 1 << 63, (1 << 63) - 1, (1 << 63) + 1];
    for k in 1..=9u32 { let b = 1u64 << (7 * k); bounds.extend([b - 1, b, b + 1]); }
    for &n in &bounds {
        varuint_case(n, &[], "varuint-boundary", oo);
        let sfx = [0x80 | rng.byte(), rng.byte()];
        varuint_case(n, &sfx, "varuint-boundary-suffix", oo);
    }
    for _ in 0..(args.n / 4).max(50) {
        let n = rng.edge_u64();
        let k = rng.below(4) as usize; let sfx = rng.bytes(k);
        varuint_case(n, &sfx, "varuint-random", oo);
    }
    // exhaustive small scope for the oracle: every n < 2^17 (thorough: 2^22)
    let lim = if thorough { 1u64 << 22 } else { 1u64 << 17 };
    for n in 0..lim {
        let mut c = Cursor::new(vec![]);
        varuint::write(&mut c, n);
        let v = c.into_inner();
        let mut c2 = Cursor::new(&v[..]);
        let r = varuint::read(&mut c2);
        if !matches!(r, Ok(x) if x == n) || c2.position() as usize != v.len() {
            emit_oracle_fail("varuint-roundtrip", &format!("n={} written={} read={:?} consumed {}", n, hex(&v), r.ok(), c2.position()));
            break;
        }
    }
    emit_stat("varuint_small_scope_oracle", lim);

    // ---- varuint::read / Pointer::parse on shaped and malformed bytes
    for _ in 0..(args.n / 4).max(50) {
        let (v, tag) = varuint_bytes(&mut rng);
        if !oo { emit_case(tag, &format!("(CRead {} {})", coq_bytes(&v), read_obs(&v))); }
    }
    for _ in 0..(args.n / 8).max(30) {
        let mut v = vec![];
        let k = rng.range(0, 4);
        for _ in 0..k { v.extend(varuint_bytes(&mut rng).0); }
        ptr_case(&v, "pointer-parse-shaped", oo);
    }

    // ---- addresses: all 10 types x 16 networks (deterministic sweep), then random
    for &t in &TYPES { for net in 0..16u8 {
        let a = build(t, Network::from(net), &mut rng);
        oracle_addr(&a, Some((t, net)), "built");
        addr_case(&a, "addr-sweep-type-x-network", oo);
    } }
    // pointer boundaries: shortest (3 bytes) and longest (30 bytes) encodings, 7-bit edges
    for (x, y, z) in [(0u64, 0u64, 0u64), (127, 127, 127), (128, 0, 0), (0, 128, 0), (0, 0, 128), (u64::MAX, u64::MAX, u64::MAX),
                      (u64::MAX, 0, 0), (0, u64::MAX, 0), (0, 0, u64::MAX), (1 << 63, (1 << 56) - 1, 1 << 56), (2498243, 27, 3)] {
        for t in [4u8, 5] {
            let net = rng.below(16) as u8;
            let h = hash28(&mut rng);
            let pay = if t == 4 { ShelleyPaymentPart::key_hash(h) } else { ShelleyPaymentPart::script_hash(h) };
            let a: Address = ShelleyAddress::new(Network::from(net), pay, ShelleyDelegationPart::Pointer(Pointer::new(x, y, z))).into();
            oracle_addr(&a, Some((t, net)), "built");
            addr_case(&a, "addr-pointer-boundary", oo);
        }
    }
    for i in 0..args.n {
        let t = *rng.pick(&TYPES);
        let net = if rng.chance(1, 3) { rng.below(2) as u8 } else { rng.below(16) as u8 };
        let a = build(t, Network::from(net), &mut rng);
        if i < 3 { emit_sample(&format!("{:?} -> {}", a, a.to_hex())); }
        oracle_addr(&a, Some((t, net)), "built");
        addr_case(&a, if t == 4 || t == 5 { "addr-random-pointer" } else if t >= 14 { "addr-random-stake" } else { "addr-random-shelley" }, oo);
        // the same bytes with trailing garbage must parse to the same address (observed behaviour; model agrees)
        if rng.chance(1, 4) && !(t == 4 || t == 5) {
            let mut v = a.to_vec(); let k = rng.range(1, 5) as usize; v.extend(rng.bytes(k));
            bytes_case(&v, "bytes-trailing", oo);
        }
    }
    // network ids outside the property's domain (>= 16, or Other(0)/Other(1)): model tie only
    for _ in 0..(args.n / 20).max(10) {
        let t = *rng.pick(&TYPES);
        let net = match rng.below(3) { 0 => Network::Other(rng.below(2) as u8), _ => Network::Other(rng.range(16, 255) as u8) };
        let a = build(t, net, &mut rng);
        addr_case(&a, "trivial-out-of-domain-network", oo);
    }

    // ---- malformed / boundary lengths for every header
    let lens: [usize; 12] = [0, 1, 27, 28, 29, 30, 55, 56, 57, 58, 64, 100];
    for hi in 0..16u8 {
        for &l in &lens {
            let header = (hi << 4) | rng.below(16) as u8;
            let mut v = vec![header];
            let mut p = rng.bytes(l);
            if (hi == 4 || hi == 5) && l > 28 {
                // pointer area: shaped varuints rather than noise
                p.truncate(28);
                for _ in 0..rng.range(0, 4) { p.extend(varuint_bytes(&mut rng).0); }
            }
            v.extend(p);
            bytes_case(&v, if hi == 8 { "bytes-byron-header-garbage" } else if (9..=13).contains(&hi) { "bytes-invalid-header" } else { "bytes-length-boundary" }, oo);
        }
    }
    bytes_case(&[], "bytes-empty", oo);
    for _ in 0..(args.n / 4).max(40) {
        let hi = *rng.pick(&[0u8, 1, 2, 3, 4, 5, 6, 7, 14, 15, 9, 12]);
        let header = (hi << 4) | rng.below(16) as u8;
        let l = match rng.below(3) { 0 => *rng.pick(&lens), 1 => rng.range(26, 60) as usize, _ => rng.range(0, 120) as usize };
        let mut v = vec![header];
        let mut p = rng.bytes(l);
        if (hi == 4 || hi == 5) && l >= 28 { p.truncate(28); for _ in 0..rng.range(0, 4) { p.extend(varuint_bytes(&mut rng).0); } }
        v.extend(p);
        bytes_case(&v, if hi == 4 || hi == 5 { "bytes-pointer-shaped" } else { "bytes-random-length" }, oo);
    }
    // the two "minted on chain" vectors of the crate's tests
    for s in ["40C19D7D05E90EEB6394B53313FE79D47077DE33068C6B813BBE5C9D5681FFFFFFFFFFFFFFFFFFFFFFFFFFFFFFFFFFFFFFFFFFFFFFFFFFFFFFFFFFFFFFFFFFFFFFFFFFFFFFFFFFFFFFFFFFFFFFFFFFFFFFFFFFFFFFFFFFFFFFFFFFFFFFFFFFFFFFFFFFFFFFFFFFFFFFFFFFFFFFFFFFFFFFFFFFFFFFFFFFFFFFFFFFFFFFFFFFFFFFFFFFFFFFFFFFFFFFFFFFFFFFFFFFFFFFFFFFFFFFFFFFFFFFFFFFFFFFFFFFFFFFFFFFFFFFFFFFFFFFFFFFFFFFFFFFFFFFFFFFFFFFFFFFFFFFFFFFFFFFFFFFFFFFFFFFFFFFFF7F81FFFFFFFFFFFFFFFF7F81FFFFFFFFFFFFFFFF7F",
              "015bad085057ac10ecc7060f7ac41edd6f63068d8963ef7d86ca58669e5ecf2d283418a60be5a848a2380eb721000da1e0bbf39733134beca4cb57afb0b35fc89c63061c9914e055001a518c7516"] {
        hex_case(s, "hex-crate-test-vector", oo);
        bytes_case(&::hex::decode(s).unwrap(), "bytes-crate-test-vector", oo);
    }

    // ---- bech32 text: arbitrary hrp / data, case rules, checksums, characters, lengths
    bech32_stream(&mut rng, (args.n / 2).max(100), oo);
    // code length limit: total length exactly 1023 (accepted) and 1024 (rejected); costly in the model, so only four
    for hl in [4usize, 5, 4, 5] {
        let d = rng.bytes(632); let h = rand_hrp(&mut rng, hl);
        bech_case(&b32_string(&h, &b32_to5(&d), 1), "bech32-length-1023-1024", None, oo);
    }
    for v in ["addr1qx2fxv2umyhttkxyxp8x0dlpdt3k6cwng5pxj3jhsydzer3n0d3vllmyqwsx5wktcd8cc3sq835lu7drv2xwl2wywfgse35a3x",
              "stake1uyehkck0lajq8gr28t9uxnuvgcqrc6070x3k9r8048z8y5gh6ffgw", "addr1vx2fxv2umyhttkxyxp8x0dlpdt3k6cwng5pxj3jhsydzers66hrl8",
              "a12uel5l", "A12UEL5L", "a1lqfn3a", "1pzry9x0s0muk", "pzry9x0s0muk", "x1b4n0q5v", "li1dgmt3", "de1lg7wt\u{ff}", ""] {
        bech_case(v.as_bytes(), "bech32-fixed-vector", None, oo);
    }

    // ---- hex text: case, odd length, bad characters
    for _ in 0..(args.n / 8).max(30) {
        let t = *rng.pick(&TYPES);
        let a = build(t, Network::from(rng.below(16) as u8), &mut rng);
        let hx = a.to_hex();
        let (s, tag) = match rng.below(7) {
            0 => (hx.clone(), "hex-lower"),
            1 => (hx.to_uppercase(), "hex-upper"),
            2 => (hx.chars().map(|c| if rng.bool() { c.to_ascii_uppercase() } else { c }).collect(), "hex-mixed-case"),
            3 => (hx[..hx.len() - 1].to_string(), "hex-odd-length"),
            4 => { let mut b = hx.clone().into_bytes(); let k = rng.below(b.len() as u64) as usize;
                   b[k] = *rng.pick(&[b'g', b'G', b'/', b':', b'@', b'`', b' ', b'x']); (String::from_utf8(b).unwrap(), "hex-bad-char") }
            5 => (format!("0x{}", hx), "hex-0x-prefix"),
            _ => { let k = (2 * rng.range(0, 30) as usize).min(hx.len()); (hx[..k].to_string(), "hex-truncated") }
        };
        hex_case(&s, tag, oo);
    }
    hex_case("", "hex-empty", oo);
}
