(* C37 correspondence.
   case = (kind, era, has_plutus, redeemers, max_mem, max_steps, observed)
   kind 0: per rule — `check_tx_ex_units` through the hook; observed = verdict class
           (0 Ok, 1 TxExUnitsExceeded, 2 RedeemerMissing, 9 other error, -1 panic)
   kind 1: end to end — `validate_tx` on a fixture mutant; observed = 0 accepted / 1 rejected;
           the model's rule rejecting must imply the validator rejecting.
   era: 0 Alonzo, 1 Babbage, 2 Conway; redeemers = None | Some (enc, [(mem, steps)]), enc 0 list / 1 map. *)
From PV Require Import Lib.Base C37.Model.
Open Scope Z_scope.
Definition case : Type := (Z * Z * bool * option (Z * list (Z * Z)) * Z * Z * Z).
Definition case_out (c : case) : Z :=
  let '(kind, era, has, rdm, maxm, maxs, obs) := c in check_era era has rdm maxm maxs.
Definition case_ok (c : case) : bool :=
  let '(kind, era, has, rdm, maxm, maxs, obs) := c in
  let m := check_era era has rdm maxm maxs in
  if kind =? 0 then m =? obs
  else (m =? V_OK) || (obs =? 1).
