(* C18 proofs, part 2: hex, hrp, no-panic, string level (bech32 as an oracle). *)
From PV Require Import Lib.Base C18.Model C18.Proofs C18.Bech32.
Open Scope Z_scope.

(* ---------------------------------------------------------------- hex *)
Definition hex_byte_ok (b : Z) : bool :=
  match hex_val (hex_digit (b / 16)), hex_val (hex_digit (b mod 16)) with
  | Some a, Some c => Z.lor (Z.shiftl a 4) c =? b
  | _, _ => false
  end.
Lemma hex_byte_sweep : forallb hex_byte_ok (zrangeZ 0 256) = true.
Proof. vm_compute. reflexivity. Qed.

Lemma hex_pairs_encode bs : bytes_wf bs -> hex_pairs (hex_encode bs) = Some bs.
Proof.
  induction 1 as [|b bs Hb _ IH]; [reflexivity|].
  cbn [hex_encode flat_map app]. fold (hex_encode bs). cbn [hex_pairs]. rewrite IH.
  pose proof hex_byte_sweep as S. rewrite forallb_forall in S.
  specialize (S b ltac:(apply zrangeZ_In; unfold byte in Hb; lia)). unfold hex_byte_ok in S.
  destruct (hex_val (hex_digit (b / 16))); [|discriminate].
  destruct (hex_val (hex_digit (b mod 16))); [|discriminate].
  apply Z.eqb_eq in S. rewrite S. reflexivity.
Qed.

Lemma hex_encode_len bs : len (hex_encode bs) = 2 * len bs.
Proof.
  unfold len. induction bs as [|b bs IH]; [reflexivity|].
  cbn [hex_encode flat_map app length]. fold (hex_encode bs). lia.
Qed.

Lemma hex_roundtrip_proof bs : bytes_wf bs -> hex_decode (hex_encode bs) = Some bs.
Proof.
  intros H. unfold hex_decode. rewrite hex_encode_len.
  assert (E : (2 * len bs) mod 2 =? 0 = true) by lia. rewrite E. apply hex_pairs_encode, H.
Qed.

Lemma hex_encode_inj a b : bytes_wf a -> bytes_wf b -> hex_encode a = hex_encode b -> a = b.
Proof.
  intros Ha Hb E. apply hex_roundtrip_proof in Ha, Hb. rewrite E in Ha. congruence.
Qed.

(* the other direction: whatever decodes is a byte string, and on canonical
   (lowercase) text encode inverts decode: hex is a bijection between byte
   strings and even-length lowercase hex text. *)
Definition lower_hexb (c : Z) : bool := ((48 <=? c) && (c <=? 57)) || ((97 <=? c) && (c <=? 102)).
Definition hex_pair_ok (c1 c2 : Z) : bool :=
  match hex_val c1, hex_val c2 with
  | Some a, Some c =>
      let b := Z.lor (Z.shiftl a 4) c in
      byteb b && (negb (lower_hexb c1 && lower_hexb c2) || ((hex_digit (b / 16) =? c1) && (hex_digit (b mod 16) =? c2)))
  | _, _ => true
  end.
Lemma hex_pair_sweep : forallb (fun c1 => forallb (hex_pair_ok c1) (zrangeZ 0 128)) (zrangeZ 0 128) = true.
Proof. vm_compute. reflexivity. Qed.

Lemma hex_val_range c v : hex_val c = Some v -> 0 <= c < 128.
Proof.
  unfold hex_val. intros H.
  destruct ((65 <=? c) && (c <=? 70)) eqn:E1; [lia|].
  destruct ((97 <=? c) && (c <=? 102)) eqn:E2; [lia|].
  destruct ((48 <=? c) && (c <=? 57)) eqn:E3; [lia|discriminate].
Qed.

Lemma hex_pairs_sound_n n : forall s bs, (length s <= n)%nat -> hex_pairs s = Some bs ->
  bytes_wf bs /\ (forallb lower_hexb s = true -> hex_encode bs = s).
Proof.
  induction n as [|n IH]; intros s bs Hlen H.
  { destruct s; [|cbn in Hlen; lia]. inversion H; subst. split; [constructor|reflexivity]. }
  destruct s as [|c1 [|c2 r]]; cbn [hex_pairs] in H.
  - inversion H; subst. split; [constructor|reflexivity].
  - discriminate.
  - destruct (hex_val c1) as [a|] eqn:V1; [|discriminate].
    destruct (hex_val c2) as [c|] eqn:V2; [|discriminate].
    destruct (hex_pairs r) as [l|] eqn:R; [|discriminate].
    inversion H; subst bs. clear H.
    destruct (IH r l ltac:(cbn in Hlen; lia) R) as [W C].
    pose proof hex_pair_sweep as S. rewrite forallb_forall in S.
    specialize (S c1 ltac:(apply zrangeZ_In; pose proof (hex_val_range _ _ V1); lia)).
    rewrite forallb_forall in S.
    specialize (S c2 ltac:(apply zrangeZ_In; pose proof (hex_val_range _ _ V2); lia)).
    unfold hex_pair_ok in S. rewrite V1, V2 in S. cbv zeta in S.
    apply andb_true_iff in S as [S1 S2]. split.
    + constructor; [apply byteb_spec, S1 | exact W].
    + intros L. cbn [forallb] in L. apply andb_true_iff in L as [L1 L].
      apply andb_true_iff in L as [L2 L]. rewrite L1, L2 in S2. cbn in S2.
      apply andb_true_iff in S2 as [S2 S3].
      cbn [hex_encode flat_map app]. fold (hex_encode l). rewrite (C L). f_equal; [lia|f_equal; lia].
Qed.

Lemma hex_pairs_sound s bs : hex_pairs s = Some bs ->
  bytes_wf bs /\ (forallb lower_hexb s = true -> hex_encode bs = s).
Proof. apply (hex_pairs_sound_n (length s)). lia. Qed.

Lemma hex_decode_sound s bs : hex_decode s = Some bs ->
  bytes_wf bs /\ (forallb lower_hexb s = true -> hex_encode bs = s).
Proof.
  unfold hex_decode. destruct (len s mod 2 =? 0); [|discriminate]. apply hex_pairs_sound.
Qed.

Lemma to_vec_wf a net : 0 <= net < 16 -> addr_wf a -> addr_network a = Some (network_from net) ->
  bytes_wf (to_vec a).
Proof.
  intros Hn Hw Ha. destruct a as [pl c|n p d|n s]; cbn in Ha; [discriminate| |]; inversion Ha; subst n.
  - pose proof (shelley_typeid_range p d) as Ht.
    destruct (header_facts (shelley_typeid p d) net ltac:(lia) Hn) as (_ & _ & _ & _ & _ & H6 & _).
    cbn [to_vec to_vec_with to_header]. constructor; [exact H6|].
    cbn [addr_wf] in Hw. destruct Hw as [[_ Hp] Hd]. apply Forall_app. split; [exact Hp|].
    destruct d as [h|h|x y z|]; cbn [delegation_to_vec].
    + apply Hd. + apply Hd.
    + destruct Hd as (Hx & Hy & Hz). unfold pointer_to_vec.
      repeat (apply Forall_app; split); apply write_wf; assumption.
    + constructor.
  - pose proof (stake_typeid_range s) as Ht.
    destruct (header_facts (stake_typeid s) net ltac:(lia) Hn) as (_ & _ & _ & _ & _ & H6 & _).
    cbn [to_vec to_vec_with to_header]. constructor; [exact H6|]. apply Hw.
Qed.

Lemma addr_hex_roundtrip_proof p8 a net : 0 <= net < 16 -> addr_wf a ->
  addr_network a = Some (network_from net) -> from_hex p8 (to_hex a) = Ok a.
Proof.
  intros Hn Hw Ha. unfold from_hex, to_hex.
  rewrite hex_roundtrip_proof by (eapply to_vec_wf; eassumption).
  eapply addr_bytes_roundtrip_proof; eassumption.
Qed.

(* ---------------------------------------------------------------- hrp *)
Definition hrp_base (a : address) : list Z :=
  match a with Stake _ _ => s_stake | _ => s_addr end.

Lemma hrp_matches_network_proof a net : 0 <= net < 16 -> addr_network a = Some (network_from net) ->
  hrp a = if net =? 0 then Ok (hrp_base a ++ s_test)
          else if net =? 1 then Ok (hrp_base a) else Err E_UNKNOWN_HRP.
Proof.
  intros Hn Ha. destruct a as [pl c|n p d|n s]; cbn in Ha; [discriminate| |]; inversion Ha; subst n;
    unfold network_from; destruct (net =? 0) eqn:E0; try reflexivity;
    destruct (net =? 1) eqn:E1; reflexivity.
Qed.

(* ---------------------------------------------------------------- no panic *)
Lemma slice_ok l lo hi : 0 <= lo <= hi -> hi <= len l -> exists s, slice l lo hi = Ok s /\ len s = hi - lo.
Proof.
  intros H1 H2. unfold slice.
  assert (E : (hi <=? len l) && (lo <=? hi) = true) by lia. rewrite E. eexists. split; [reflexivity|].
  unfold len in *. rewrite firstn_length, skipn_length. lia.
Qed.

Lemma from_bytes_no_panic_proof p8 bs :
  (forall h p, is_panic (p8 h p) = false) -> is_panic (from_bytes p8 bs) = false.
Proof.
  intros H8. unfold from_bytes, bytes_to_address. destruct bs as [|header payload]; [reflexivity|].
  assert (HH : forall mkp mkd, is_panic (parse_shelley_hh mkp mkd header payload) = false).
  { intros. unfold parse_shelley_hh. destruct (len payload <? 56) eqn:E; [reflexivity|].
    destruct (slice_ok payload 0 28 ltac:(lia) ltac:(lia)) as (s1 & -> & L1).
    destruct (slice_ok payload 28 56 ltac:(lia) ltac:(lia)) as (s2 & -> & L2).
    cbn [bind]. unfold slice_to_hash. rewrite L1. cbn [bind Z.sub Z.eqb Pos.eqb Z.opp Z.add Z.pos_sub].
    rewrite L2. reflexivity. }
  assert (HP : forall mkp, is_panic (parse_shelley_ptr mkp header payload) = false).
  { intros. unfold parse_shelley_ptr. destruct (len payload <? 29) eqn:E; [reflexivity|].
    destruct (slice_ok payload 0 28 ltac:(lia) ltac:(lia)) as (s1 & -> & L1).
    cbn [bind]. unfold slice_to_hash. rewrite L1. cbn [bind Z.sub Z.eqb Pos.eqb Z.opp Z.add Z.pos_sub].
    unfold slice_from. assert (E2 : (28 <=? len payload) = true) by lia. rewrite E2. cbn [bind].
    unfold pointer_parse, varuint_read.
    assert (R : forall acc l, is_panic (read_go acc l) = false).
    { intros acc l; revert acc; induction l as [|b l IH]; intros acc; cbn [read_go]; [reflexivity|].
      destruct (_ >? u64_max); [reflexivity|]. destruct (_ =? 0); [reflexivity|apply IH]. }
    pose proof (R 0 (skipn (Z.to_nat 28) payload)) as R1.
    destruct (read_go 0 (skipn (Z.to_nat 28) payload)) as [[a r1]| |]; cbn [bind]; try reflexivity; [|discriminate].
    pose proof (R 0 r1) as R2.
    destruct (read_go 0 r1) as [[b r2]| |]; cbn [bind]; try reflexivity; [|discriminate].
    pose proof (R 0 r2) as R3.
    destruct (read_go 0 r2) as [[c r3]| |]; cbn [bind]; try reflexivity; discriminate. }
  assert (H1 : forall mkp, is_panic (parse_shelley_h mkp header payload) = false).
  { intros. unfold parse_shelley_h. destruct (len payload <? 28) eqn:E; [reflexivity|].
    destruct (slice_ok payload 0 28 ltac:(lia) ltac:(lia)) as (s1 & -> & L1).
    cbn [bind]. unfold slice_to_hash. rewrite L1. reflexivity. }
  assert (HS : forall mks, is_panic (parse_stake mks header payload) = false).
  { intros. unfold parse_stake. destruct (len payload <? 28) eqn:E; [reflexivity|].
    destruct (slice_ok payload 0 28 ltac:(lia) ltac:(lia)) as (s1 & -> & L1).
    cbn [bind]. unfold slice_to_hash. rewrite L1. reflexivity. }
  cbv zeta.
  repeat match goal with |- context [if ?c then _ else _] => destruct c end; auto.
Qed.

(* ---------------------------------------------------------------- strings *)
Lemma addr_hrp_valid a net : 0 <= net <= 1 ->
  hrp_valid (hrp_base a ++ (if net =? 0 then s_test else [])).
Proof.
  intros Hn. assert (H : net = 0 \/ net = 1) by lia.
  destruct H as [-> | ->], a; cbn [hrp_base Z.eqb]; unfold hrp_valid;
    (split; [discriminate|split; [vm_compute; discriminate|]]);
    repeat constructor; vm_compute; try discriminate; reflexivity.
Qed.

Lemma to_vec_len a : addr_wf a -> (length (to_vec a) <= 62)%nat.
Proof.
  destruct a as [pl c|n p d|n s]; cbn [addr_wf]; [tauto| |].
  - intros [[Lp _] Hd]. cbn [to_vec to_vec_with length]. rewrite app_length, Lp.
    destruct d as [h|h|x y z|]; cbn [delegation_to_vec].
    + destruct Hd as [-> _]. lia.
    + destruct Hd as [-> _]. lia.
    + destruct Hd as (Hx & Hy & Hz). unfold pointer_to_vec. rewrite !app_length.
      pose proof (proj2 (write_wf x Hx)). pose proof (proj2 (write_wf y Hy)). pose proof (proj2 (write_wf z Hz)). lia.
    + cbn. lia.
  - intros [L _]. cbn [to_vec to_vec_with length]. rewrite L. lia.
Qed.

Section Bech32.
  Variable bech32_encode : list Z -> list Z -> list Z.
  Variable bech32_decode : list Z -> option (list Z * list Z).
  Variable byron_from_base58 : list Z -> outcome address.
  Variable p8 : Z -> list Z -> outcome address.
  (* the only thing assumed of the bech32 codec: round trip for a valid lower-case
     hrp and at most 64 data bytes (discharged for the Gallina bech32 in Bech32Addr.v) *)
  Hypothesis bech32_roundtrip : forall h d, hrp_valid h -> bytes_wf d -> blen d <= 64 ->
    bech32_decode (bech32_encode h d) = Some (h, d).

  Lemma addr_bech32_roundtrip_sec a net : 0 <= net <= 1 -> addr_wf a ->
    addr_network a = Some (network_from net) ->
    to_bech32 bech32_encode a = Ok (bech32_encode (hrp_base a ++ (if net =? 0 then s_test else [])) (to_vec a)) /\
    from_bech32 bech32_decode p8 (bech32_encode (hrp_base a ++ (if net =? 0 then s_test else [])) (to_vec a)) = Ok a /\
    from_str bech32_decode byron_from_base58 p8 (to_string bech32_encode a) = Ok a.
  Proof.
    intros Hn Hw Ha.
    assert (Hb : to_bech32 bech32_encode a =
                 Ok (bech32_encode (hrp_base a ++ (if net =? 0 then s_test else [])) (to_vec a))).
    { unfold to_bech32. rewrite (hrp_matches_network_proof a net) by (try lia; exact Ha).
      destruct (net =? 0) eqn:E0; [reflexivity|].
      assert (E1 : (net =? 1) = true) by lia. rewrite E1. cbn [bind]. rewrite app_nil_r. reflexivity. }
    assert (Hf : from_bech32 bech32_decode p8
                   (bech32_encode (hrp_base a ++ (if net =? 0 then s_test else [])) (to_vec a)) = Ok a).
    { unfold from_bech32. rewrite bech32_roundtrip.
      2:{ apply addr_hrp_valid. lia. }
      2:{ apply (to_vec_wf a net); try lia; assumption. }
      2:{ pose proof (to_vec_len a Hw). unfold blen. lia. }
      apply (addr_bytes_roundtrip_proof p8 a net); try lia; assumption. }
    split; [exact Hb|]. split; [exact Hf|].
    unfold to_string. rewrite Hb. unfold from_str. rewrite Hf. reflexivity.
  Qed.
End Bech32.
