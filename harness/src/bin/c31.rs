//! C31: UTxO effects of a transaction (MultiEraTx::{is_valid, consumes, produces,
//! produces_at, inputs_sorted_set}) against the fields of the era structs.
//!
//! case := (mk_tx byron success inputs outputs collateral collateral_return, indices,
//!          Ok (is_valid, consumes, produces, [produces_at i], inputs_sorted_set) | Panic 0)
//! inputs are (tx id as a big-endian number, index); outputs are a 62-bit digest of
//! the output's CBOR.
use pallas_codec::minicbor;
use pallas_codec::utils::{MaybeIndefArray, NonEmptySet, Set};
use pallas_crypto::hash::Hash;
use pallas_primitives::{alonzo, babbage, byron, conway};
use pallas_traverse::{Era, MultiEraBlock, MultiEraInput, MultiEraOutput, MultiEraTx};
use std::collections::HashMap;
use verif_harness::*;

type In = ([u8; 32], u64);

#[derive(Clone, Debug, PartialEq)]
struct Abs { byron: bool, success: bool, inputs: Vec<In>, outputs: Vec<u64>, collateral: Vec<In>, coll_ret: Option<u64> }

fn digest(bytes: &[u8]) -> u64 {
    let mut h: u64 = 0xcbf29ce484222325;
    for b in bytes { h ^= *b as u64; h = h.wrapping_mul(0x100000001b3); }
    h >> 2
}
fn enc<T: minicbor::Encode<()>>(x: &T) -> Vec<u8> { minicbor::to_vec(x).unwrap() }
fn tin(i: &alonzo::TransactionInput) -> In { (*i.transaction_id, i.index) }

/// The abstract transaction, read off the fields of the era struct (not through MultiEraTx accessors).
fn abstract_tx(tx: &MultiEraTx) -> Option<Abs> {
    match tx {
        MultiEraTx::AlonzoCompatible(x, _) => Some(Abs {
            byron: false, success: x.success,
            inputs: x.transaction_body.inputs.iter().map(tin).collect(),
            outputs: x.transaction_body.outputs.iter().map(|o| digest(&enc(o))).collect(),
            collateral: x.transaction_body.collateral.iter().flatten().map(tin).collect(),
            coll_ret: None,
        }),
        MultiEraTx::Babbage(x) => Some(Abs {
            byron: false, success: x.success,
            inputs: x.transaction_body.inputs.iter().map(tin).collect(),
            outputs: x.transaction_body.outputs.iter().map(|o| { let o: &babbage::TransactionOutput = o; digest(&enc(o)) }).collect(),
            collateral: x.transaction_body.collateral.iter().flatten().map(tin).collect(),
            coll_ret: x.transaction_body.collateral_return.as_ref().map(|o| { let o: &babbage::TransactionOutput = o; digest(&enc(o)) }),
        }),
        MultiEraTx::Conway(x) => Some(Abs {
            byron: false, success: x.success,
            inputs: x.transaction_body.inputs.iter().map(tin).collect(),
            outputs: x.transaction_body.outputs.iter().map(|o| digest(&enc(o))).collect(),
            collateral: x.transaction_body.collateral.iter().flat_map(|c| c.iter()).map(tin).collect(),
            coll_ret: x.transaction_body.collateral_return.as_ref().map(|o| digest(&enc(o))),
        }),
        MultiEraTx::Byron(x) => {
            let mut inputs = vec![];
            for i in x.transaction.inputs.iter() {
                match i { byron::TxIn::Variant0(w) => { let (id, idx) = &w.0; inputs.push((**id, *idx as u64)); } byron::TxIn::Other(..) => return None }
            }
            Some(Abs { byron: true, success: true, inputs, outputs: x.transaction.outputs.iter().map(|o| digest(&enc(o))).collect(), collateral: vec![], coll_ret: None })
        }
        _ => None,
    }
}

#[derive(Clone, Debug, PartialEq)]
struct Obs { valid: bool, consumes: Vec<In>, produces: Vec<(u64, u64)>, at: Vec<Option<u64>>, sorted: Vec<In> }

fn mi(i: &MultiEraInput) -> In { let r = i.output_ref(); (**r.hash(), r.index()) }
fn mo(o: &MultiEraOutput) -> u64 { digest(&o.encode()) }

fn observe(tx: &MultiEraTx, idx: &[u64]) -> Out<Obs> {
    guard_total(|| Obs {
        valid: tx.is_valid(),
        consumes: tx.consumes().iter().map(mi).collect(),
        produces: tx.produces().iter().map(|(i, o)| (*i as u64, mo(o))).collect(),
        at: idx.iter().map(|i| tx.produces_at(*i as usize).map(|o| mo(&o))).collect(),
        sorted: tx.inputs_sorted_set().iter().map(mi).collect(),
    })
}

fn coq_in(i: &In) -> String { format!("(0x{},{})", hex(&i.0), i.1) }

/// Compact names for the Coq terms (number literals are expensive to parse in Coq):
/// a tx id is printed as its rank in byte-wise order among the ids of the case
/// (computed here on the raw [u8; 32], not through Hash's Ord), an output digest as
/// its number of first appearance.  Equality and order are preserved exactly.
struct Names { ids: Vec<[u8; 32]>, outs: Vec<u64> }
impl Names {
    fn new(a: &Abs, o: &Out<Obs>) -> Names {
        let mut ids: Vec<[u8; 32]> = a.inputs.iter().chain(a.collateral.iter()).map(|x| x.0).collect();
        let mut outs: Vec<u64> = a.outputs.clone();
        outs.extend(a.coll_ret.iter());
        if let Out::Ok(o) = o {
            ids.extend(o.consumes.iter().chain(o.sorted.iter()).map(|x| x.0));
            outs.extend(o.produces.iter().map(|x| x.1));
            outs.extend(o.at.iter().flatten());
        }
        ids.sort_by(|x, y| x.as_slice().cmp(y.as_slice()));
        ids.dedup();
        let mut seen = vec![]; for x in outs { if !seen.contains(&x) { seen.push(x); } }
        Names { ids, outs: seen }
    }
    fn input(&self, i: &In) -> String { format!("({},{})", self.ids.iter().position(|x| *x == i.0).unwrap(), i.1) }
    fn out(&self, o: &u64) -> String { self.outs.iter().position(|x| x == o).unwrap().to_string() }
}
fn coq_abs(a: &Abs, n: &Names) -> String {
    format!("(mk_tx {} {} {} {} {} {})", coq_bool(a.byron), coq_bool(a.success), coq_list(&a.inputs, |i| n.input(i)),
        coq_list(&a.outputs, |o| n.out(o)), coq_list(&a.collateral, |i| n.input(i)), coq_opt(&a.coll_ret, |o| n.out(o)))
}
fn coq_obs(o: &Out<Obs>, n: &Names) -> String {
    match o {
        Out::Ok(o) => format!("(Ok ({},{},{},{},{}))", coq_bool(o.valid), coq_list(&o.consumes, |i| n.input(i)),
            coq_list(&o.produces, |(i, x)| format!("({},{})", i, n.out(x))), coq_list(&o.at, |x| coq_opt(x, |v| n.out(v))), coq_list(&o.sorted, |i| n.input(i))),
        _ => "(Panic 0)".into(),
    }
}

fn first_occ(l: &[In]) -> Vec<In> { let mut r: Vec<In> = vec![]; for x in l { if !r.contains(x) { r.push(*x); } } r }

struct Ctx { oracle_only: bool, per_key: HashMap<String, u64>, evals: u64, stats: HashMap<&'static str, u64> }
impl Ctx {
    fn fail(&mut self, key: &str, text: String) {
        let c = self.per_key.entry(key.to_string()).or_insert(0); *c += 1;
        if *c <= 20 { emit_oracle_fail(key, &text); }
    }
    fn bump(&mut self, k: &'static str) { *self.stats.entry(k).or_insert(0) += 1; }

    /// the property's predicate, straight from its statement
    fn oracle(&mut self, a: &Abs, idx: &[u64], o: &Out<Obs>, replay: &str) {
        self.evals += 1;
        let o = match o { Out::Ok(o) => o, Out::Panic(m) => { self.fail("panic", format!("{} panicked: {}", replay, m)); return; } Out::Err(_) => return };
        let valid = a.byron || a.success;
        if o.valid != valid { self.fail("is-valid", format!("{} is_valid={} expected {}", replay, o.valid, valid)); }
        let n = a.outputs.len() as u64;
        if valid {
            if o.consumes != first_occ(&a.inputs) { self.fail("consumes-valid", format!("{} consumes={:?} inputs={:?}", replay, o.consumes.iter().map(coq_in).collect::<Vec<_>>(), a.inputs.iter().map(coq_in).collect::<Vec<_>>())); }
            let exp: Vec<(u64, u64)> = a.outputs.iter().enumerate().map(|(i, x)| (i as u64, *x)).collect();
            if o.produces != exp { self.fail("produces-valid", format!("{} produces={:?} expected {:?}", replay, o.produces, exp)); }
        } else {
            if o.consumes != first_occ(&a.collateral) { self.fail("consumes-invalid", format!("{} consumes={:?} collateral={:?}", replay, o.consumes.iter().map(coq_in).collect::<Vec<_>>(), a.collateral.iter().map(coq_in).collect::<Vec<_>>())); }
            let exp: Vec<(u64, u64)> = a.coll_ret.iter().map(|x| (n, *x)).collect();
            if o.produces != exp { self.fail("produces-invalid", format!("{} produces={:?} expected {:?}", replay, o.produces, exp)); }
        }
        // each consumed input once
        for (k, x) in o.consumes.iter().enumerate() { if o.consumes[..k].contains(x) { self.fail("consumes-duplicate", format!("{} consumes {} twice", replay, coq_in(x))); } }
        // produces_at agrees with produces
        for (k, i) in idx.iter().enumerate() {
            let exp = o.produces.iter().find(|(j, _)| j == i).map(|(_, x)| *x);
            if o.at.get(k).copied().flatten() != exp || o.at.len() != idx.len() { self.fail("produces-at", format!("{} produces_at({})={:?} but produces gives {:?}", replay, i, o.at.get(k), exp)); }
        }
        // sorted set: strictly increasing by (tx id, index), same members as the inputs
        for w in o.sorted.windows(2) { if !(w[0] < w[1]) { self.fail("sorted-set-order", format!("{} inputs_sorted_set has {} before {}", replay, coq_in(&w[0]), coq_in(&w[1]))); } }
        if a.inputs.iter().any(|x| !o.sorted.contains(x)) || o.sorted.iter().any(|x| !a.inputs.contains(x)) { self.fail("sorted-set-members", format!("{} inputs_sorted_set differs from the inputs as a set", replay)); }
    }

    fn run(&mut self, tag: &str, tx: &MultiEraTx, rng: &mut Rng, replay_hint: &str) {
        let Some(a) = abstract_tx(tx) else { return };
        let n = a.outputs.len() as u64;
        let mut idx: Vec<u64> = (0..=(n + 1).min(6)).collect();
        idx.extend_from_slice(&[n.saturating_sub(1), n, n + 1, u64::MAX, rng.below(n + 3), rng.edge_u64()]);
        let o = observe(tx, &idx);
        let replay = format!("{} era={:?} tx={}", replay_hint, tx.era(), hex(&tx.encode()));
        self.oracle(&a, &idx, &o, &if replay.len() > 3000 { format!("{}…", &replay[..3000]) } else { replay });
        if a.byron { self.bump("byron") } else if a.success { self.bump("valid") } else { self.bump("invalid") }
        if first_occ(&a.inputs).len() != a.inputs.len() { self.bump("dup-inputs") }
        if first_occ(&a.collateral).len() != a.collateral.len() { self.bump("dup-collateral") }
        if a.coll_ret.is_some() { self.bump("with-collateral-return") }
        if !self.oracle_only { let nm = Names::new(&a, &o); emit_case(tag, &format!("({},{},{})", coq_abs(&a, &nm), coq_list(&idx, |i| i.to_string()), coq_obs(&o, &nm))); }
    }
}

fn pool_input(rng: &mut Rng, existing: &[In], byron: bool) -> In {
    if !existing.is_empty() && rng.chance(3, 5) {
        let mut x = *rng.pick(existing);
        match rng.below(5) {
            0 => { x.0[31] = x.0[31].wrapping_add(1); }          // differs in the last byte of the id
            1 => { x.0[0] = x.0[0].wrapping_sub(1); }            // differs in the first byte
            2 => { x.1 = x.1.wrapping_add(1); }
            3 => { x.1 = if byron { (x.1 ^ 0x100) & 0xffff_ffff } else { x.1 ^ (1 << 32) }; }
            _ => {}
        }
        x
    } else {
        let mut h = [0u8; 32];
        match rng.below(4) { 0 => {} 1 => { h = [0xff; 32]; } 2 => { h[31] = 1; } _ => { for b in h.iter_mut() { *b = rng.byte(); } } }
        let i = match rng.below(5) { 0 => 0, 1 => 1, 2 => 255 + rng.below(3), 3 => u32::MAX as u64, _ => if byron { rng.below(1 << 32) } else { rng.edge_u64() } };
        (h, if byron { i & 0xffff_ffff } else { i })
    }
}

fn mutate_inputs(rng: &mut Rng, base: &[In], byron: bool) -> Vec<In> {
    let mut v: Vec<In> = base.to_vec();
    if rng.chance(1, 6) { v.truncate(rng.below(3) as usize); }
    for _ in 0..rng.below(4) { let x = pool_input(rng, &v, byron); let p = rng.below(v.len() as u64 + 1) as usize; v.insert(p, x); }
    // duplicates on purpose: adjacent, far apart, triple
    for _ in 0..rng.below(4) { if v.is_empty() { break; } let x = *rng.pick(&v); let p = rng.below(v.len() as u64 + 1) as usize; v.insert(p, x); }
    if rng.chance(1, 3) { for i in (1..v.len()).rev() { let j = rng.below(i as u64 + 1) as usize; v.swap(i, j); } }
    if rng.chance(1, 8) { v.sort(); v.reverse(); }
    v
}
fn to_tin(x: &In) -> alonzo::TransactionInput { alonzo::TransactionInput { transaction_id: Hash::<32>::from(x.0), index: x.1 } }

/// re-assemble a transaction with mutated inputs / collateral / collateral return / validity flag,
/// encode it with the era's encoder; the caller decodes it again with MultiEraTx::decode_for_era
fn generate(rng: &mut Rng, base: &MultiEraTx) -> Option<(Era, Vec<u8>)> {
    let a = abstract_tx(base)?;
    let era = base.era();
    match base {
        MultiEraTx::AlonzoCompatible(x, _) => {
            let mut t: alonzo::Tx = (***x).clone();
            let ins = mutate_inputs(rng, &a.inputs, false);
            let col = match rng.below(3) { 0 => None, _ => Some(mutate_inputs(rng, &a.collateral, false)) };
            let drop_out = rng.chance(1, 5);
            { let b = &mut *t.transaction_body; b.inputs = ins.iter().map(to_tin).collect(); b.collateral = col.map(|c| c.iter().map(to_tin).collect());
              if drop_out && !b.outputs.is_empty() { let k = rng.below(b.outputs.len() as u64) as usize; b.outputs.truncate(k); } }
            t.success = rng.bool();
            Some((era, enc(&t)))
        }
        MultiEraTx::Babbage(x) => {
            let mut t: babbage::Tx = (***x).clone();
            let ins = mutate_inputs(rng, &a.inputs, false);
            let col = match rng.below(3) { 0 => None, _ => Some(mutate_inputs(rng, &a.collateral, false)) };
            let cr_mode = rng.below(3);
            let drop_out = rng.chance(1, 5);
            { let b = &mut *t.transaction_body; b.inputs = ins.iter().map(to_tin).collect(); b.collateral = col.map(|c| c.iter().map(to_tin).collect());
              match cr_mode { 0 => { b.collateral_return = None; } 1 => { if !b.outputs.is_empty() { let k = rng.below(b.outputs.len() as u64) as usize; b.collateral_return = Some(b.outputs[k].clone()); } } _ => {} }
              if drop_out && !b.outputs.is_empty() { let k = rng.below(b.outputs.len() as u64) as usize; b.outputs.truncate(k); } }
            t.success = rng.bool();
            Some((era, enc(&t)))
        }
        MultiEraTx::Conway(x) => {
            let mut t: conway::Tx = (***x).clone();
            let ins = mutate_inputs(rng, &a.inputs, false);
            let col = match rng.below(3) { 0 => None, _ => Some(mutate_inputs(rng, &a.collateral, false)) };
            let cr_mode = rng.below(3);
            let drop_out = rng.chance(1, 5);
            { let b = &mut *t.transaction_body; b.inputs = Set::from(ins.iter().map(to_tin).collect::<Vec<_>>());
              b.collateral = col.and_then(|c| NonEmptySet::from_vec(c.iter().map(to_tin).collect()));
              match cr_mode { 0 => { b.collateral_return = None; } 1 => { if !b.outputs.is_empty() { let k = rng.below(b.outputs.len() as u64) as usize; b.collateral_return = Some(b.outputs[k].clone()); } } _ => {} }
              if drop_out && b.outputs.len() > 1 { let k = 1 + rng.below(b.outputs.len() as u64 - 1) as usize; b.outputs.truncate(k); } }
            t.success = rng.bool();
            Some((era, enc(&t)))
        }
        MultiEraTx::Byron(x) => {
            let mut t: byron::TxPayload = (***x).clone();
            let ins = mutate_inputs(rng, &a.inputs, true);
            if ins.is_empty() { return None; }
            let v: Vec<byron::TxIn> = ins.iter().map(|i| byron::TxIn::Variant0(pallas_codec::utils::CborWrap((Hash::<32>::from(i.0), i.1 as u32)))).collect();
            { let b = &mut *t.transaction; b.inputs = if rng.bool() { MaybeIndefArray::Def(v) } else { MaybeIndefArray::Indef(v) }; }
            Some((era, enc(&t)))
        }
        _ => None,
    }
}

/// flip the phase-2 validity flag by re-encoding
fn flipped(base: &MultiEraTx) -> Option<(Era, Vec<u8>)> {
    let era = base.era();
    match base {
        MultiEraTx::AlonzoCompatible(x, _) => { let mut t: alonzo::Tx = (***x).clone(); t.success = !t.success; Some((era, enc(&t))) }
        MultiEraTx::Babbage(x) => { let mut t: babbage::Tx = (***x).clone(); t.success = !t.success; Some((era, enc(&t))) }
        MultiEraTx::Conway(x) => { let mut t: conway::Tx = (***x).clone(); t.success = !t.success; Some((era, enc(&t))) }
        _ => None,
    }
}

fn repo_root() -> String {
    let manifest = std::path::Path::new(env!("CARGO_MANIFEST_DIR")).join("Cargo.toml");
    if let Ok(t) = std::fs::read_to_string(manifest) {
        for line in t.lines() {
            if line.starts_with("pallas-traverse") {
                if let Some(i) = line.find("path = \"") { let rest = &line[i + 8..]; if let Some(j) = rest.find("/pallas-traverse\"") { return rest[..j].to_string(); } }
            }
        }
    }
    "/repo".into()
}

/// every transaction of test_data: the blocks' transactions and the stand-alone .tx files, as (era, cbor)
fn corpus() -> Vec<(String, Era, Vec<u8>)> {
    let td = format!("{}/test_data", repo_root());
    let mut files: Vec<_> = std::fs::read_dir(&td).map(|rd| rd.filter_map(|e| e.ok()).map(|e| e.path()).collect()).unwrap_or_default();
    files.sort();
    let mut out = vec![];
    for p in files {
        let ext = p.extension().and_then(|x| x.to_str()).unwrap_or("").to_string();
        if ext != "block" && ext != "tx" { continue; }
        let name = p.file_name().unwrap().to_string_lossy().to_string();
        let Ok(txt) = std::fs::read_to_string(&p) else { continue };
        let Ok(bytes) = hex::decode(txt.trim()) else { continue };
        let r = guard_total(|| {
            let mut v = vec![];
            if ext == "block" {
                if let Ok(b) = MultiEraBlock::decode(&bytes) { for (i, t) in b.txs().iter().enumerate() { v.push((format!("{}#{}", name, i), t.era(), t.encode())); } }
            } else if let Ok(t) = MultiEraTx::decode(&bytes) { v.push((name.clone(), t.era(), t.encode())); }
            v
        });
        if let Out::Ok(v) = r { out.extend(v); }
    }
    out
}

fn main() {
    let args = args();
    let mut rng = Rng::new(args.seed);
    let thorough = args.tier == "thorough";
    let mut cx = Ctx { oracle_only: args.oracle_only, per_key: HashMap::new(), evals: 0, stats: HashMap::new() };
    let corpus = corpus();
    emit_stat("corpus_txs", corpus.len() as u64);
    if corpus.is_empty() { eprintln!("no transactions found under test_data"); std::process::exit(3); }

    // 1. every corpus transaction under both validity flags.  Large ones go to the oracle only in the quick tier.
    let budget = if thorough { usize::MAX } else { 700 };
    let mut printed = 0usize;
    for (k, (name, era, bytes)) in corpus.iter().enumerate() {
        let Ok(tx) = MultiEraTx::decode_for_era(*era, bytes) else { cx.fail("corpus-redecode", format!("{} does not decode again", name)); continue };
        let small = bytes.len() < 3000;
        let to_model = small && (printed < budget || (k as u64 + args.seed) % 7 == 0);
        let save = cx.oracle_only; if !to_model { cx.oracle_only = true; }
        cx.run("corpus", &tx, &mut rng, name);
        if let Some((e2, b2)) = flipped(&tx) {
            match MultiEraTx::decode_for_era(e2, &b2) {
                Ok(t2) => cx.run("corpus-flag-flipped", &t2, &mut rng, &format!("{} flag flipped", name)),
                Err(_) => cx.fail("flip-redecode", format!("{} with the flag flipped does not decode", name)),
            }
        }
        cx.oracle_only = save;
        if to_model { printed += 1; }
    }

    // 2. generated transactions: duplicate inputs / collateral, with and without collateral return
    let smalls: Vec<&(String, Era, Vec<u8>)> = corpus.iter().filter(|c| c.2.len() < 4000).collect();
    let mut made = 0usize; let mut tries = 0usize;
    while made < args.n && tries < args.n * 4 {
        tries += 1;
        // spread over the eras: pick an era class first
        let want = rng.below(4);
        let cands: Vec<&&(String, Era, Vec<u8>)> = smalls.iter().filter(|c| match (want, c.1) { (0, Era::Byron) => true, (1, Era::Conway) => true, (2, Era::Babbage) => true, (3, Era::Shelley | Era::Allegra | Era::Mary | Era::Alonzo) => true, _ => false }).collect();
        if cands.is_empty() { continue; }
        let (name, era, bytes) = **rng.pick(&cands);
        let Ok(base) = MultiEraTx::decode_for_era(*era, bytes) else { continue };
        let Out::Ok(Some((e2, b2))) = guard_total(|| generate(&mut rng, &base)) else { continue };
        match MultiEraTx::decode_for_era(e2, &b2) {
            Ok(t2) => {
                let tag = match t2 { MultiEraTx::Byron(_) => "generated-byron", MultiEraTx::Conway(_) => "generated-conway", MultiEraTx::Babbage(_) => "generated-babbage", _ => "generated-alonzo-compatible" };
                if made < 3 { emit_sample(&format!("generated from {}: {}", name, hex(&b2[..b2.len().min(120)]))); }
                cx.run(tag, &t2, &mut rng, &format!("generated from {}", name));
                made += 1;
            }
            Err(_) => { cx.bump("generated-undecodable"); }
        }
    }
    emit_stat("generated", made as u64);
    emit_stat("tx_evaluations_oracle", if cx.oracle_only { cx.evals } else { 0 });
    let st: Vec<(&'static str, u64)> = cx.stats.iter().map(|(k, v)| (*k, *v)).collect();
    for (k, v) in st { emit_stat(k, v); }
    let ks: Vec<(String, u64)> = cx.per_key.iter().map(|(k, v)| (k.clone(), *v)).collect();
    for (k, v) in ks { emit_stat(&format!("oracle_fail[{}]", k), v); }
}
