//! C35: accepted transactions carry only valid signatures and all needed ones.
//!
//! Per rule (hook): check_vkey_input_wits / check_required_signers of Alonzo,
//! Babbage, Conway and check_witnesses of Shelley-MA on synthetic transactions:
//! a pool of harness keys, inputs and collateral locked by pool keys or scripts,
//! witness lists with any order, duplicates, extras, invalid signatures.
//! End to end: validate_tx on every valid post-Byron fixture with witnesses
//! added (valid / invalid, every position), duplicated, reordered, dropped,
//! corrupted, and required signers added (re-signed fixtures).
//! History: everything runs on the main thread in a fixed order (replayable); valid transactions are
//! followed by transactions with another id that carry the same witness bytes, and vice versa.
//! Length mutations of key and signature (+-1, x2, empty, valid bytes as prefix / suffix).
//! Oracle (independent of model and validator): every vkey witness of the final
//! bytes verifies (pallas-crypto Ed25519) over blake2b-256(body bytes); every
//! key-locked input / collateral and every required signer has a verifying witness.
//!
//! case := (kind, era, witnesses, inputs, required signers, observed) — see C35/Run.v
mod val_common;
use pallas_codec::minicbor::{self, Decoder};
use pallas_codec::utils::Bytes;
use pallas_crypto::key::ed25519::{PublicKey, Signature};
use pallas_primitives::{alonzo, babbage, conway};
use pallas_traverse::{Era, MultiEraInput, MultiEraOutput};
use pallas_validate::phase1::validate_tx;
use pallas_validate::utils::{UTxOs, ValidationError};
use std::borrow::Cow;
use val_common::mutate::*;
use val_common::*;
use verif_harness::*;

fn era_code(e: EraK) -> i64 { match e { EraK::ShelleyMA => 0, EraK::Alonzo => 1, EraK::Babbage => 2, EraK::Conway => 3, _ => -9 } }
fn era_name(e: EraK) -> &'static str { match e { EraK::Alonzo => "alonzo", EraK::Babbage => "babbage", EraK::Conway => "conway", EraK::ShelleyMA => "shelley_ma", EraK::Byron => "byron" } }
fn e(r: Result<(), ValidationError>) -> Result<(), String> { r.map_err(|e| format!("{e:?}")) }

fn class_of(r: &Out<()>) -> i64 {
    match r {
        Out::Ok(_) => 0,
        Out::Err(x) => {
            if x.contains("ReqSignerMissing") { 3 } else if x.contains("ReqSignerWrongSig") { 4 }
            else if x.contains("WrongSignature") { 1 }
            else if x.contains("VKWitnessMissing") || x.contains("MissingVKWitness") { 2 }
            else { 9 }
        }
        Out::Panic(_) => -1,
    }
}

/// independent signature check
fn sig_ok(vkey: &[u8], sig: &[u8], msg: &[u8]) -> bool {
    if vkey.len() != 32 || sig.len() != 64 { return false; }
    let mut k = [0u8; 32]; k.copy_from_slice(vkey);
    let mut s = [0u8; 64]; s.copy_from_slice(sig);
    PublicKey::from(k).verify(msg, &Signature::from(s))
}

fn utxo_output(era: EraK, addr: &[u8]) -> MultiEraOutput<'static> {
    let mut b = vec![0x82];
    b.extend(enc_bytes(addr));
    b.extend(enc_u64(1_000_000));
    let b: &'static [u8] = Box::leak(b.into_boxed_slice());
    let te = match era { EraK::ShelleyMA => Era::Mary, EraK::Alonzo => Era::Alonzo, EraK::Babbage => Era::Babbage, _ => Era::Conway };
    MultiEraOutput::decode(te, b).expect("utxo output")
}
fn utxo_input(hash: &[u8], idx: u64) -> MultiEraInput<'static> {
    let mut h = [0u8; 32]; h.copy_from_slice(hash);
    MultiEraInput::AlonzoCompatible(Box::new(Cow::Owned(alonzo::TransactionInput { transaction_id: h.into(), index: idx })))
}
fn enc_input(hash: &[u8], idx: u64) -> Vec<u8> { let mut v = vec![0x82]; v.extend(enc_bytes(hash)); v.extend(enc_u64(idx)); v }

#[derive(Clone, Debug)]
struct Wit { key: usize, valid: bool, shape: u8 }
fn wit(key: usize, valid: bool) -> Wit { Wit { key, valid, shape: 0 } }

/// length mutations of a (vkey, signature) pair, the valid bytes kept as prefix / suffix:
/// 1 sig+1 byte, 2 sig twice, 3 sig-1 byte, 4 empty sig, 5 1 byte+sig, 6 sig+32 bytes,
/// 7 key+1 byte, 8 key twice, 9 key-1 byte, 10 empty key, 11 1 byte+key
const N_SHAPES: u8 = 12;
fn shape_name(s: u8) -> &'static str {
    ["as is", "signature + 1 byte", "signature twice (128 bytes)", "signature - 1 byte", "empty signature", "1 byte + signature", "signature + 32 bytes (96)",
     "key + 1 byte", "key twice (64 bytes)", "key - 1 byte", "empty key", "1 byte + key"][s as usize]
}
fn reshape(w: &(Vec<u8>, Vec<u8>), shape: u8) -> (Vec<u8>, Vec<u8>) {
    let (mut k, mut s) = w.clone();
    match shape {
        1 => s.push(0x00),
        2 => { let c = s.clone(); s.extend(c); }
        3 => { s.pop(); }
        4 => s.clear(),
        5 => s.insert(0, 0x00),
        6 => s.extend(vec![0u8; 32]),
        7 => k.push(0x00),
        8 => { let c = k.clone(); k.extend(c); }
        9 => { k.pop(); }
        10 => k.clear(),
        11 => k.insert(0, 0x00),
        _ => {}
    }
    (k, s)
}

struct Ctx { oracle_only: bool, n_rule: u64, n_e2e: u64, acc: u64, rej_sig: u64, rej_other: u64, rej: std::collections::BTreeMap<String, u64> }

fn coq_wits(w: &Option<Vec<(i64, bool)>>) -> String {
    match w { None => "None".into(), Some(l) => format!("(Some {})", coq_list(l, |(k, v)| format!("({},{})", k, coq_bool(*v)))) }
}
fn coq_req(r: &Option<Vec<i64>>) -> String {
    match r { None => "None".into(), Some(l) => format!("(Some {})", coq_list(l, |k| coq_z(*k))) }
}

/// synthetic transaction for the rule level
#[allow(clippy::too_many_arguments)]
fn run_rule(cx: &mut Ctx, era: EraK, base_body: &RawMap, ins: &[i64], cols: &[i64], req: &Option<Vec<i64>>, wits: &Option<Vec<Wit>>, tag: &str, rng_salt: u64, reuse: Option<&Vec<(Vec<u8>, Vec<u8>)>>) -> Option<Vec<(Vec<u8>, Vec<u8>)>> {
    use pallas_validate::phase1 as p1;
    let pool = |j: usize| -> Vec<u8> { vec![b'k', j as u8] };
    // body
    let mut body = base_body.clone();
    let mut utxos: UTxOs = UTxOs::new();
    let mut mk = |pays: &[i64], off: u64| -> Vec<Vec<u8>> {
        pays.iter().enumerate().map(|(i, p)| {
            let mut h = vec![0u8; 32];
            h[0] = off as u8; h[1] = i as u8; h[2] = rng_salt as u8;
            let addr: Vec<u8> = if *p >= 0 { let mut a = vec![0x61]; a.extend(my_hash(&pool(*p as usize))); a } else { let mut a = vec![0x71]; a.extend(vec![0xee; 28]); a };
            utxos.insert(utxo_input(&h, i as u64), utxo_output(era, &addr));
            enc_input(&h, i as u64)
        }).collect()
    };
    let in_items = mk(ins, 1);
    body.set(0, encode_array(false, &in_items));
    if era != EraK::ShelleyMA && !cols.is_empty() { let c = mk(cols, 2); body.set(13, encode_array(false, &c)); } else { body.remove(13); }
    body.remove(14);
    if era != EraK::ShelleyMA { if let Some(r) = req { if !(r.is_empty() && era == EraK::Conway) {
        let items: Vec<Vec<u8>> = r.iter().map(|k| enc_bytes(&my_hash(&pool(*k as usize)))).collect();
        body.set(14, encode_array(false, &items));
    } } }
    let bb = body.encode();
    let id = tx_id(&bb);
    // witnesses
    // `reuse`: the witness BYTES of an earlier call (another transaction id) are carried over unchanged
    let wl: Option<Vec<(Vec<u8>, Vec<u8>)>> = match reuse { Some(r) => Some(r.clone()), None => wits.as_ref().map(|l| l.iter().map(|w| {
        let sig = if w.valid { sign_with(&pool(w.key), &id) } else { sign_with(&pool(w.key), b"another message") };
        reshape(&(my_pub(&pool(w.key)), sig), w.shape)
    }).collect()) };
    let mut wm = RawMap(vec![]);
    if let Some(l) = &wl { set_vkey_wits(&mut wm, false, l); }
    let tx = join(&Parts { head: vec![0x84], body: bb.clone(), wits: wm.encode(), tail: vec![0xf5, 0xf6] });
    let vk: Option<Vec<alonzo::VKeyWitness>> = wl.as_ref().map(|l| l.iter().map(|(k, s)| alonzo::VKeyWitness { vkey: Bytes::from(k.clone()), signature: Bytes::from(s.clone()) }).collect());
    let all_ins: Vec<i64> = ins.iter().chain(if era == EraK::ShelleyMA { [].iter() } else { cols.iter() }).cloned().collect();
    // what the model is told: key id (a key of another length hashes to something else: id 50+) and
    // validity as the harness's own Ed25519 check of the bytes against this transaction id sees it
    let model_w: Option<Vec<(i64, bool)>> = wl.as_ref().map(|l| l.iter().zip(wits.as_ref().unwrap().iter()).map(|((k, sg), w)| (if k.len() == 32 { w.key as i64 } else { 50 + w.key as i64 }, sig_ok(k, sg, &id))).collect());
    if reuse.is_none() { if let (Some(m), Some(l)) = (&model_w, wits) { for (a, w) in m.iter().zip(l) { assert_eq!(a.1, w.valid && w.shape == 0, "harness signing self-check"); } } }
    // rule 0: input witnesses
    let r0: Option<Out<()>> = match era {
        EraK::ShelleyMA => minicbor::decode::<alonzo::Tx>(&tx).ok().map(|m| guard(|| e(p1::shelley_ma::verif::check_witnesses(&m.transaction_body, &m.transaction_witness_set, &utxos)))),
        EraK::Alonzo => minicbor::decode::<alonzo::Tx>(&tx).ok().map(|m| guard(|| e(p1::alonzo::verif::check_vkey_input_wits(&m, &vk, &utxos)))),
        EraK::Babbage => minicbor::decode::<babbage::Tx>(&tx).ok().map(|m| guard(|| e(p1::babbage::verif::check_vkey_input_wits(&m, &vk, &utxos)))),
        _ => minicbor::decode::<conway::Tx>(&tx).ok().map(|m| guard(|| e(p1::conway::verif::check_vkey_input_wits(&m, &vk, &utxos)))),
    };
    let Some(r0) = r0 else { emit_stat("rule_tx_not_decodable", 1); return wl; };
    let c0 = class_of(&r0);
    cx.n_rule += 1;
    // oracle on the abstract data (who is valid is known by construction and re-checked)
    let all_valid = wl.as_ref().map(|l| l.iter().all(|(k, s)| sig_ok(k, s, &id))).unwrap_or(true);
    let covered = |k: i64| model_w.as_ref().map(|l| l.iter().any(|w| w.0 == k && w.1)).unwrap_or(false);
    if c0 == 0 {
        if !all_valid {
            emit_oracle_fail(&format!("rule:{}:input-wits-ok-with-invalid-witness", era_name(era)),
                &format!("{} witness rule answers Ok although a witness does not verify: witnesses (key, valid)={:?} inputs={:?} collateral={:?}; tx={}", era_name(era), model_w, ins, cols, hex(&tx)));
        }
        if let Some(k) = all_ins.iter().find(|k| **k >= 0 && !covered(**k)) {
            emit_oracle_fail(&format!("rule:{}:input-wits-ok-with-uncovered-input", era_name(era)),
                &format!("{} witness rule answers Ok although key {} of an input has no valid witness: witnesses={:?} inputs={:?} collateral={:?}; tx={}", era_name(era), k, model_w, ins, cols, hex(&tx)));
        }
    }
    if !cx.oracle_only {
        emit_case(&format!("rule-inputs-{}", tag), &format!("(0,{},{},{},None,{})", era_code(era), coq_wits(&model_w), coq_list(&all_ins, |k| coq_z(*k)), coq_z(c0)));
    }
    // rule 1: required signers
    if era != EraK::ShelleyMA {
        let r1: Option<Out<()>> = match era {
            EraK::Alonzo => minicbor::decode::<alonzo::Tx>(&tx).ok().map(|m| guard(|| e(p1::alonzo::verif::check_required_signers(&m.transaction_body.required_signers, &vk, &id)))),
            EraK::Babbage => minicbor::decode::<babbage::Tx>(&tx).ok().map(|m| guard(|| e(p1::babbage::verif::check_required_signers(&m.transaction_body.required_signers, &vk, &id)))),
            _ => minicbor::decode::<conway::Tx>(&tx).ok().map(|m| guard(|| e(p1::conway::verif::check_required_signers(&m.transaction_body.required_signers, &vk, &id)))),
        };
        if let Some(r1) = r1 {
            let c1 = class_of(&r1);
            cx.n_rule += 1;
            let req_eff: Option<Vec<i64>> = if body.get(14).is_some() { req.clone() } else { None };
            if c1 == 0 { if let Some(k) = req_eff.as_ref().and_then(|r| r.iter().find(|k| !covered(**k))) {
                emit_oracle_fail(&format!("rule:{}:required-signers-ok-without-valid-witness", era_name(era)),
                    &format!("{} check_required_signers answers Ok although required signer {} has no valid witness: witnesses={:?} required={:?}; tx={}", era_name(era), k, model_w, req_eff, hex(&tx)));
            } }
            if !cx.oracle_only {
                emit_case(&format!("rule-reqsigners-{}", tag), &format!("(1,{},{},[],{},{})", era_code(era), coq_wits(&model_w), coq_req(&req_eff), coq_z(c1)));
            }
        }
    }
    wl
}

/// payment key hash of a Shelley address with a key payment part
fn payment_key(addr: &[u8]) -> Option<Vec<u8>> {
    if addr.len() >= 29 && matches!(addr[0] >> 4, 0 | 2 | 4 | 6) { Some(addr[1..29].to_vec()) } else { None }
}

fn run_e2e(cx: &mut Ctx, f: &Fixture, tx: &[u8], rekeyed: bool, tag: &str, what: &str) { run_e2e_x(cx, f, tx, rekeyed, None, false, tag, what) }

/// `bump`: the UTxO entry of that input holds one lovelace more (so that a body with fee + 1 still balances);
/// `via_txs`: through validate_txs instead of validate_tx
#[allow(clippy::too_many_arguments)]
fn run_e2e_x(cx: &mut Ctx, f: &Fixture, tx: &[u8], rekeyed: bool, bump: Option<usize>, via_txs: bool, tag: &str, what: &str) {
    let p = split(tx);
    let body = RawMap::parse(&p.body);
    let wm = RawMap::parse(&p.wits);
    let id = tx_id(&p.body);
    let (_, ws) = vkey_wits(&wm);
    let present = wm.get(0).is_some();
    let mut res: Option<Out<()>> = None;
    let mut needed: Vec<Vec<u8>> = vec![];
    let mut unresolved = false;
    (f.run)(tx, &mut |metx, utxos, env, cs| {
        let mut u2: UTxOs = if rekeyed { rekey_utxos(utxos).expect("rekey") } else { utxos.clone() };
        if let Some(k) = bump {
            let it = parse_array(body.get(0).unwrap()).1[k].clone();
            let mut d = Decoder::new(&it); d.array().unwrap();
            let h = d.bytes().unwrap().to_vec(); let ix = d.u64().unwrap();
            let key = utxo_input(&h, ix);
            let old = u2.get(&key).expect("input in utxo");
            let ob = old.encode();
            let v = output_value(&ob);
            let nb: &'static [u8] = Box::leak(output_with_value(&ob, &value_with_coin(&v, value_coin(&v) + 1)).into_boxed_slice());
            let no = MultiEraOutput::decode(old.era(), nb).expect("bumped utxo entry");
            u2.insert(key, no);
        }
        let u: &UTxOs = &u2;
        // needed keys: inputs (0) and collateral (13), from the UTxO addresses
        for key in [0u64, 13] {
            if f.era == EraK::ShelleyMA && key == 13 { continue; }
            if let Some(b) = body.get(key) {
                for it in parse_array(b).1 {
                    let mut d = Decoder::new(&it);
                    d.array().unwrap();
                    let h = d.bytes().unwrap().to_vec();
                    let ix = d.u64().unwrap();
                    match u.get(&utxo_input(&h, ix)) {
                        Some(o) => match o.address() { Ok(a) => { if let Some(k) = payment_key(&a.to_vec()) { needed.push(k); } } Err(_) => unresolved = true },
                        None => unresolved = true,
                    }
                }
            }
        }
        // fee and size rules out of play: the mutations change the size of the transaction
        let env2 = env_with(env, with_fee_size_params(env.prot_params(), 0, 0, 1 << 30));
        res = Some(if via_txs { guard(|| e(pallas_validate::phase1::validate_txs(std::slice::from_ref(metx), &env2, u, cs))) } else { guard(|| e(validate_tx(metx, 0, &env2, u, cs))) });
    });
    let r = res.expect("ran");
    let accepted = matches!(r, Out::Ok(_));
    cx.n_e2e += 1;
    match class_of(&r) { 0 => cx.acc += 1, 1 | 2 | 3 | 4 => cx.rej_sig += 1, _ => cx.rej_other += 1 }
    if let Out::Err(x) = &r { *cx.rej.entry(x.clone()).or_insert(0) += 1; }
    let req: Vec<Vec<u8>> = if f.era == EraK::ShelleyMA { vec![] } else { body.get(14).map(|b| parse_array(b).1.iter().map(|i| Decoder::new(i).bytes().unwrap().to_vec()).collect()).unwrap_or_default() };
    let valid: Vec<bool> = ws.iter().map(|(k, s)| sig_ok(k, s, &id)).collect();
    let has_valid = |h: &Vec<u8>| ws.iter().zip(&valid).any(|((k, _), v)| *v && &hash224(k) == h);
    let rtxt = match &r { Out::Ok(_) => "accepted".to_string(), Out::Err(x) => format!("rejected with {x}"), Out::Panic(p) => format!("PANIC {p}") };
    if accepted {
        if let Some(i) = valid.iter().position(|v| !*v) {
            emit_oracle_fail(&format!("e2e:{}:accepted-with-invalid-witness", era_name(f.era)),
                &format!("fixture {} ({}): {} although vkey witness #{} of {} does not verify over the transaction id (validity per witness: {:?}); tx={}", f.name, what, rtxt, i, ws.len(), valid, hex(tx)));
        }
        if let Some(h) = needed.iter().find(|h| !has_valid(h)) {
            emit_oracle_fail(&format!("e2e:{}:accepted-without-witness-for-input", era_name(f.era)),
                &format!("fixture {} ({}): {} although no valid witness hashes to the payment key {} of a spent/collateral input; tx={}", f.name, what, rtxt, hex(h), hex(tx)));
        }
        if let Some(h) = req.iter().find(|h| !has_valid(h)) {
            emit_oracle_fail(&format!("e2e:{}:accepted-without-witness-for-required-signer", era_name(f.era)),
                &format!("fixture {} ({}): {} although required signer {} has no valid witness; tx={}", f.name, what, rtxt, hex(h), hex(tx)));
        }
    }
    if let Out::Panic(pm) = &r { emit_sample(&format!("panic in validate_tx on fixture {} ({}): {}", f.name, what, pm)); }
    if !cx.oracle_only && !unresolved {
        // key ids: index in the list of distinct hashes
        let mut ids: Vec<Vec<u8>> = vec![];
        let mut id_of = |h: &Vec<u8>| -> i64 { if let Some(i) = ids.iter().position(|x| x == h) { i as i64 } else { ids.push(h.clone()); ids.len() as i64 - 1 } };
        let mw: Vec<(i64, bool)> = ws.iter().zip(&valid).map(|((k, _), v)| (id_of(&hash224(k)), *v)).collect();
        let ins: Vec<i64> = needed.iter().map(|h| id_of(h)).collect();
        let rq: Vec<i64> = req.iter().map(|h| id_of(h)).collect();
        let model_w = if present || f.era == EraK::Conway { Some(mw) } else { None };
        let model_r = if f.era != EraK::ShelleyMA && body.get(14).is_some() { Some(rq) } else { None };
        emit_case(tag, &format!("(2,{},{},{},{},{})", era_code(f.era), coq_wits(&model_w), coq_list(&ins, |k| coq_z(*k)), coq_req(&model_r), if accepted { 1 } else { 0 }));
    }
}

fn with_wits(p: &Parts, wm: &RawMap, tagged: bool, ws: &[(Vec<u8>, Vec<u8>)]) -> Vec<u8> {
    let mut w = wm.clone();
    if ws.is_empty() { w.remove(0); } else { set_vkey_wits(&mut w, tagged, ws); }
    join(&Parts { head: p.head.clone(), body: p.body.clone(), wits: w.encode(), tail: p.tail.clone() })
}

fn main() {
    let args = args();
    let mut rng = Rng::new(args.seed);
    let thorough = args.tier == "thorough";
    let mut cx = Ctx { oracle_only: args.oracle_only, n_rule: 0, n_e2e: 0, acc: 0, rej_sig: 0, rej_other: 0, rej: Default::default() };
    let fx: Vec<Fixture> = fixtures().into_iter().filter(|f| f.era != EraK::Byron).collect();

    let mut bases: Vec<(EraK, RawMap)> = vec![];
    for (era, name) in [(EraK::ShelleyMA, "shelley1"), (EraK::Alonzo, "alonzo1"), (EraK::Babbage, "babbage3"), (EraK::Conway, "conway3")] {
        let f = fx.iter().find(|f| f.name == name).unwrap();
        bases.push((era, RawMap::parse(&split(&load_tx(f)).body)));
    }
    // fixed shapes first: the witness orders a first-match / early-return bug needs
    let shapes: Vec<(Vec<i64>, Vec<i64>, Option<Vec<i64>>, Option<Vec<Wit>>)> = vec![
        (vec![-1], vec![], None, Some(vec![wit(7, true), wit(8, false)])),   // [good uncovered; bad uncovered]
        (vec![-1], vec![], None, Some(vec![wit(8, false), wit(7, true)])),
        (vec![1], vec![], None, Some(vec![wit(1, true), wit(7, true), wit(8, false)])),
        (vec![1], vec![], None, Some(vec![wit(7, true), wit(1, true), wit(8, true), wit(9, false)])),
        (vec![1, 1], vec![2], None, Some(vec![wit(1, true), wit(2, true), wit(1, false)])), // bad duplicate after a good one
        (vec![1], vec![], None, Some(vec![wit(1, false), wit(1, true)])),
        (vec![1], vec![2], None, Some(vec![wit(1, true)])),                                   // collateral uncovered
        (vec![1], vec![], Some(vec![3]), Some(vec![wit(1, true), wit(3, false)])),
        (vec![1], vec![], Some(vec![3]), Some(vec![wit(1, true)])),
        (vec![1], vec![], Some(vec![3]), None),
        (vec![-1], vec![], None, None),
        (vec![1], vec![], None, Some(vec![])),
    ];
    for (i, (ins, cols, req, wits)) in shapes.iter().enumerate() {
        for (era, body) in &bases { run_rule(&mut cx, *era, body, ins, cols, req, wits, "shape", i as u64, None); }
    }
    // every length mutation: on the payment-key witness, on a spare witness, on a required signer's witness
    for sh in 1..N_SHAPES {
        for (era, body) in &bases {
            run_rule(&mut cx, *era, body, &[1], &[], &None, &Some(vec![Wit { key: 1, valid: true, shape: sh }]), "length-payment-key", 60 + sh as u64, None);
            run_rule(&mut cx, *era, body, &[1], &[], &None, &Some(vec![wit(1, true), Wit { key: 7, valid: true, shape: sh }]), "length-spare", 80 + sh as u64, None);
            run_rule(&mut cx, *era, body, &[1], &[2], &Some(vec![3]), &Some(vec![wit(1, true), wit(2, true), Wit { key: 3, valid: true, shape: sh }]), "length-required-signer", 100 + sh as u64, None);
            run_rule(&mut cx, *era, body, &[1], &[], &Some(vec![3]), &Some(vec![wit(1, true), Wit { key: 3, valid: true, shape: sh }, wit(3, true)]), "length-required-signer", 120 + sh as u64, None);
        }
    }
    // history (all calls of this process run on the main thread, in this fixed order): a transaction
    // whose witnesses verify, then OTHER transactions (other inputs => other id) carrying the very same
    // witness bytes, and once more the first one; a validator must not remember verdicts across calls
    for (era, body) in &bases {
        let w = Some(vec![wit(1, true), wit(7, true), wit(3, true)]);
        let first = run_rule(&mut cx, *era, body, &[1], &[1], &Some(vec![3]), &w, "history-first", 200, None);
        run_rule(&mut cx, *era, body, &[1], &[1], &Some(vec![3]), &w, "history-witnesses-of-earlier-tx", 201, first.as_ref());
        run_rule(&mut cx, *era, body, &[-1], &[], &None, &w, "history-witnesses-of-earlier-tx", 202, first.as_ref());
        run_rule(&mut cx, *era, body, &[1], &[1], &Some(vec![3]), &w, "history-first-again", 200, first.as_ref());
        // the other way round: the stale witnesses first (rejected), then the transaction they belong to
        let w2 = Some(vec![wit(2, true), wit(8, true)]);
        let mut own: Option<Vec<(Vec<u8>, Vec<u8>)>> = None;
        { // signatures for salt 210, obtained without calling the validator: sign here
            let pool = |j: usize| -> Vec<u8> { vec![b'k', j as u8] };
            let mut b2 = body.clone();
            let mut h = vec![0u8; 32]; h[0] = 1; h[1] = 0; h[2] = 210;
            b2.set(0, encode_array(false, &[enc_input(&h, 0)])); b2.remove(13); b2.remove(14);
            let id = tx_id(&b2.encode());
            own = Some(vec![(my_pub(&pool(2)), sign_with(&pool(2), &id)), (my_pub(&pool(8)), sign_with(&pool(8), &id))]);
        }
        run_rule(&mut cx, *era, body, &[2], &[], &None, &w2, "history-witnesses-of-later-tx", 211, own.as_ref());
        run_rule(&mut cx, *era, body, &[2], &[], &None, &w2, "history-later-tx", 210, own.as_ref());
        run_rule(&mut cx, *era, body, &[2], &[], &None, &w2, "history-witnesses-of-earlier-tx", 211, own.as_ref());
    }
    for i in 0..args.n {
        let (era, body) = &bases[rng.below(4) as usize];
        let nk = rng.range(1, 4) as i64; // keys 0..nk used by inputs
        let n_in = rng.range(1, 4) as usize;
        let ins: Vec<i64> = (0..n_in).map(|_| if rng.chance(1, 4) { -1 } else { rng.below(nk as u64) as i64 }).collect();
        let cols: Vec<i64> = (0..rng.below(3)).map(|_| if rng.chance(1, 6) { -1 } else { rng.below(nk as u64 + 1) as i64 }).collect();
        let req: Option<Vec<i64>> = match rng.below(4) { 0 | 1 => None, _ => Some((0..rng.range(1, 3)).map(|_| rng.below(nk as u64 + 3) as i64).collect()) };
        let wits: Option<Vec<Wit>> = if rng.chance(1, 20) { None } else {
            // mostly: one valid witness per needed key, then perturbations
            let mut l: Vec<Wit> = vec![];
            let mut needed: Vec<i64> = ins.iter().chain(cols.iter()).chain(req.iter().flatten()).cloned().filter(|k| *k >= 0).collect();
            needed.sort(); needed.dedup();
            for k in &needed { if !rng.chance(1, 10) { l.push(wit(*k as usize, !rng.chance(1, 12))); } }
            for _ in 0..rng.below(4) {
                match rng.below(4) {
                    0 => l.push(wit(10 + rng.below(3) as usize, true)),          // valid extra
                    1 => l.push(wit(10 + rng.below(3) as usize, false)),         // invalid extra
                    2 => if !l.is_empty() { let w = rng.pick(&l).clone(); l.push(wit(w.key, rng.bool())); }, // duplicate key
                    _ => l.push(wit(rng.below(nk as u64 + 3) as usize, rng.bool())),
                }
            }
            if rng.chance(1, 5) && !l.is_empty() { let j = rng.below(l.len() as u64) as usize; l[j].shape = rng.range(1, N_SHAPES as u64 - 1) as u8; }
            // order
            match rng.below(3) { 0 => l.reverse(), 1 => { for j in (1..l.len()).rev() { let k = rng.below(j as u64 + 1) as usize; l.swap(j, k); } } _ => {} }
            Some(l)
        };
        if i < 3 { emit_sample(&format!("rule era={} inputs={:?} collateral={:?} required={:?} witnesses={:?}", era_name(*era), ins, cols, req, wits)); }
        run_rule(&mut cx, *era, body, &ins, &cols, &req, &wits, era_name(*era), (i % 199) as u64, None);
    }

    // ---- end to end
    for f in &fx {
        let tx = load_tx(f);
        let p = split(&tx);
        let wm = RawMap::parse(&p.wits);
        let (tagged, w0) = vkey_wits(&wm);
        let id = tx_id(&p.body);
        let good = |n: u8| (my_pub(&[b'x', n]), sign_with(&[b'x', n], &id));
        let bad = |n: u8| (my_pub(&[b'x', n]), sign_with(&[b'x', n], b"not the transaction id"));
        let t = format!("e2e-{}", era_name(f.era));
        run_e2e(&mut cx, f, &tx, false, &format!("{t}-orig"), "unchanged");
        let mut muts: Vec<(String, Vec<(Vec<u8>, Vec<u8>)>)> = vec![];
        for pos in 0..=w0.len() {
            let mut a = w0.clone(); a.insert(pos, good(1)); muts.push((format!("valid extra witness inserted at {pos}"), a));
            let mut b = w0.clone(); b.insert(pos, bad(2)); muts.push((format!("invalid extra witness inserted at {pos}"), b));
            let mut c = w0.clone(); c.insert(pos, bad(2)); c.insert(pos, good(1)); muts.push((format!("valid then invalid extra witness inserted at {pos}"), c));
            let mut d = w0.clone(); d.insert(pos, good(1)); d.insert(pos, bad(2)); muts.push((format!("invalid then valid extra witness inserted at {pos}"), d));
        }
        { let mut a = w0.clone(); a.push(good(1)); a.push(good(3)); a.push(bad(2)); muts.push(("two valid extras then an invalid one appended".into(), a)); }
        for i in 0..w0.len() {
            let mut a = w0.clone(); a.push(w0[i].clone()); muts.push((format!("witness {i} duplicated"), a));
            let mut b = w0.clone(); let mut dup = w0[i].clone(); dup.1[5] ^= 0x10; b.push(dup); muts.push((format!("witness {i} duplicated with a corrupted signature"), b));
            let mut c = w0.clone(); c.remove(i); muts.push((format!("witness {i} dropped"), c));
            let mut d = w0.clone(); d[i].1[rng.below(64) as usize] ^= 1 << rng.below(8); muts.push((format!("signature of witness {i} corrupted"), d));
            let mut g = w0.clone(); g[i].0[rng.below(32) as usize] ^= 1 << rng.below(8); muts.push((format!("key of witness {i} corrupted"), g));
            let mut h = w0.clone(); h[i] = (good(1).0, w0[i].1.clone()); muts.push((format!("key of witness {i} replaced"), h));
        }
        for sh in 1..N_SHAPES {
            for i in 0..w0.len() { if !thorough && i > 0 && !matches!(sh, 1 | 2 | 7) { continue; } let mut a = w0.clone(); a[i] = reshape(&w0[i], sh); muts.push((format!("length of witness {i}: {}", shape_name(sh)), a)); }
            { let mut a = w0.clone(); a.push(reshape(&good(1), sh)); muts.push((format!("length of a spare (otherwise valid) extra witness: {}", shape_name(sh)), a)); }
            { let mut a = w0.clone(); a.insert(0, good(3)); a.push(reshape(&good(1), sh)); muts.push((format!("length of a spare extra witness after a valid extra one: {}", shape_name(sh)), a)); }
        }
        { let mut a = w0.clone(); a.reverse(); muts.push(("witnesses reversed".into(), a)); }
        { let mut a = w0.clone(); a.reverse(); a.push(good(1)); a.push(bad(2)); muts.push(("witnesses reversed, valid and invalid extras appended".into(), a)); }
        if w0.len() > 1 { let mut a = w0.clone(); a.rotate_left(1); muts.push(("witnesses rotated".into(), a)); }
        muts.push(("all witnesses removed".into(), vec![]));
        muts.push(("only extras: valid, invalid".into(), vec![good(1), bad(2)]));
        let extra_rounds = if thorough { 30 } else { 4 };
        for _ in 0..extra_rounds {
            let mut a = w0.clone();
            for _ in 0..rng.range(1, 4) {
                let pos = rng.below(a.len() as u64 + 1) as usize;
                match rng.below(5) {
                    0 => a.insert(pos, good(rng.range(1, 6) as u8)),
                    1 => a.insert(pos, bad(rng.range(1, 6) as u8)),
                    2 => if !a.is_empty() { let i = rng.below(a.len() as u64) as usize; let w = a[i].clone(); a.insert(pos, w); },
                    3 => if !a.is_empty() { let i = rng.below(a.len() as u64) as usize; a.remove(i); },
                    _ => if !a.is_empty() { let i = rng.below(a.len() as u64) as usize; let k = rng.below(64) as usize; a[i].1[k] ^= 0x80; },
                }
            }
            muts.push(("random witness edits".into(), a));
        }
        for (what, ws) in &muts {
            let tagm = if what.contains("length") { "length" } else if what.contains("extra") { "extra" } else if what.contains("dupl") { "duplicate" } else if what.contains("dropped") || what.contains("removed") { "drop" } else if what.contains("corrupt") || what.contains("replaced") { "corrupt" } else if what.contains("random") { "random" } else { "reorder" };
            run_e2e(&mut cx, f, &with_wits(&p, &wm, tagged, ws), false, &format!("{t}-{tagm}"), what);
        }
        // history: the fixture was accepted above on this thread; now the SAME witness bytes on a transaction
        // with another id (fee + 1, the first input's UTxO entry one lovelace larger, so every other rule
        // still holds) — through validate_tx and validate_txs — and then the fixture again
        {
            let mut b2 = RawMap::parse(&p.body);
            b2.set(2, enc_u64(body_fee(&b2) + 1));
            let stale = join(&Parts { head: p.head.clone(), body: b2.encode(), wits: p.wits.clone(), tail: p.tail.clone() });
            run_e2e_x(&mut cx, f, &tx, false, None, true, &format!("{t}-history-valid-first"), "unchanged, through validate_txs (fills any cross-call state)");
            run_e2e_x(&mut cx, f, &stale, false, Some(0), false, &format!("{t}-history-stale-witnesses"), "HISTORY (main thread, after the unchanged fixture was validated): fee + 1 and input 0's UTxO + 1 lovelace, witnesses copied unchanged from the fixture");
            run_e2e_x(&mut cx, f, &stale, false, Some(0), true, &format!("{t}-history-stale-witnesses"), "HISTORY (main thread, after the unchanged fixture was validated): fee + 1 and input 0's UTxO + 1 lovelace, witnesses copied unchanged from the fixture, through validate_txs");
            run_e2e(&mut cx, f, &tx, false, &format!("{t}-history-valid-again"), "unchanged, after the stale-witness transactions");
        }
        // required signers (Alonzo+), on the re-keyed + re-signed transaction
        if f.era != EraK::ShelleyMA {
            let mut resignable = false;
            let t0 = finish(&p, RawMap::parse(&p.body), wm.clone());
            (f.run)(&t0, &mut |metx, utxos, env, cs| {
                if let Some(u2) = rekey_utxos(utxos) { resignable = matches!(guard(|| e(validate_tx(metx, 0, env, &u2, cs))), Out::Ok(_)); }
            });
            if resignable {
                run_e2e(&mut cx, f, &t0, true, &format!("{t}-resigned"), "re-keyed and re-signed, otherwise unchanged");
                let kstar = vec![0x5au8; 32];
                let hstar = hash224(&kstar);
                for variant in 0..4 {
                    let mut body = RawMap::parse(&p.body);
                    let (tg, mut items) = body.get(14).map(|b| parse_array(b)).unwrap_or((false, vec![]));
                    items.push(enc_bytes(&hstar));
                    body.set(14, encode_array(tg, &items));
                    let mut w = wm.clone();
                    let mut ws = w0.clone();
                    if variant != 2 { ws.push((kstar.clone(), vec![0u8; 64])); }
                    if variant == 3 { ws.insert(0, (vec![0x5bu8; 32], vec![0u8; 64])); } // an unrelated valid extra in front
                    set_vkey_wits(&mut w, tagged, &ws);
                    let mut txm = finish(&p, body, w);
                    let what = match variant { 0 => "required signer added, witness present", 1 => "required signer added, its witness has a wrong signature", 2 => "required signer added, no witness for it", _ => "required signer added, witness present, valid extra witness in front" };
                    if variant == 1 {
                        let pm = split(&txm);
                        let mut w2 = RawMap::parse(&pm.wits);
                        let (tg2, mut l2) = vkey_wits(&w2);
                        let last = l2.len() - 1; l2[last].1[0] ^= 1;
                        set_vkey_wits(&mut w2, tg2, &l2);
                        txm = join(&Parts { head: pm.head.clone(), body: pm.body.clone(), wits: w2.encode(), tail: pm.tail.clone() });
                    }
                    run_e2e(&mut cx, f, &txm, true, &format!("{t}-reqsigner"), what);
                    if variant == 0 {
                        // the required signer's (valid) witness with every length mutation
                        for sh in 1..N_SHAPES {
                            let pm = split(&txm);
                            let mut w2 = RawMap::parse(&pm.wits);
                            let (tg2, mut l2) = vkey_wits(&w2);
                            let last = l2.len() - 1; l2[last] = reshape(&l2[last], sh);
                            set_vkey_wits(&mut w2, tg2, &l2);
                            let t2 = join(&Parts { head: pm.head.clone(), body: pm.body.clone(), wits: w2.encode(), tail: pm.tail.clone() });
                            run_e2e(&mut cx, f, &t2, true, &format!("{t}-reqsigner-length"), &format!("required signer added, length of its witness: {}", shape_name(sh)));
                        }
                        // history on the re-signed transaction: its witnesses on a body with fee + 1
                        let pm = split(&txm);
                        let mut b2 = RawMap::parse(&pm.body);
                        b2.set(2, enc_u64(body_fee(&b2) + 1));
                        let stale = join(&Parts { head: pm.head.clone(), body: b2.encode(), wits: pm.wits.clone(), tail: pm.tail.clone() });
                        run_e2e_x(&mut cx, f, &stale, true, Some(0), false, &format!("{t}-history-stale-witnesses"), "HISTORY (main thread, after the re-signed transaction with a required signer was validated): fee + 1 and input 0's UTxO + 1 lovelace, witnesses copied unchanged");
                    }
                }
            }
        }
    }
    emit_sample(&format!("end-to-end rejections by error: {:?}", cx.rej));
    emit_stat("rule_cases", cx.n_rule);
    emit_stat("e2e_cases", cx.n_e2e);
    emit_stat("e2e_accepted", cx.acc);
    emit_stat("e2e_rejected_signature_rules", cx.rej_sig);
    emit_stat("e2e_rejected_other", cx.rej_other);
}
