(* C43 correspondence.  A case is (overflow-checks?, call, what the implementation did).

   Index files of the real test database are referenced by name and a list of
   edits (truncation / byte patch) applied to the pristine file, which is Coq data
   regenerated from <repo>/test_data on every run (Generated/ImmutableTestDb.v);
   synthetic files are literal byte lists.  The implementation's answer is
   summarised as (number of items, polynomial hash over the item classes and block
   lengths) — the model's item list is summarised the same way and compared. *)
From PV Require Import Lib.Base Immutable.ChunkList C43.Model Generated.ImmutableTestDb.
Open Scope Z_scope.

Inductive edit := Trunc (k : Z) | Patch (off : Z) (bytes : list Z).
Inductive src := Lit (bytes : list Z) | RealP (name : Z) (edits : list edit) | RealS (name : Z) (edits : list edit).
Definition spec : Type := (Z * src * src * Z).       (* name, primary, secondary, chunk length *)
Inductive call := ChunkCall (s : spec) | DbCall (l : list spec).
Inductive expect := XErr (e : Z) | XPanic (p : Z) | XItems (n : Z) (h : Z).
Definition case : Type := (bool * call * expect).

Fixpoint takez (n : Z) (l : list Z) : list Z :=
  match l with
  | [] => []
  | x :: r => if n <=? 0 then [] else x :: takez (n - 1) r
  end.
(* overwrite l[off..off+|bs|) (positions beyond the end of l are dropped) *)
Fixpoint patch (off : Z) (bs : list Z) (l : list Z) : list Z :=
  match l with
  | [] => []
  | x :: r => if 0 <? off then x :: patch (off - 1) bs r
              else match bs with
                   | [] => l
                   | b :: bs' => b :: patch 0 bs' r
                   end
  end.
Definition apply_edit (l : list Z) (e : edit) : list Z :=
  match e with Trunc k => takez k l | Patch off bs => patch off bs l end.

Definition real (n : Z) : option db_entry := find (fun e => db_name e =? n) testdb.
Definition src_bytes (s : src) : list Z :=
  match s with
  | Lit b => b
  | RealP n es => match real n with Some e => fold_left apply_edit es (primary_bytes e) | None => [] end
  | RealS n es => match real n with Some e => fold_left apply_edit es (secondary_bytes e) | None => [] end
  end.
Definition spec_files (s : spec) : Z * cfiles :=
  let '(n, p, q, clen) := s in (n, mk_files (src_bytes p) (src_bytes q) clen).

Definition MODULUS : Z := 2305843009213693951.
Definition mix (h v : Z) : Z := (h * 1000003 + v) mod MODULUS.
Definition item_hash (h : Z) (it : item) : Z :=
  match it with
  | Blk _ l => mix (mix h 1) l
  | Bad e => mix (mix h 2) e
  | Boom p => mix (mix h 3) p
  end.
Definition summarize (its : list item) : expect := XItems (Zlength its) (fold_left item_hash its 7).

Definition run_call (ovf : bool) (c : call) : outcome (list item) :=
  match c with
  | ChunkCall s => read_chunk ovf (snd (spec_files s))
  | DbCall l => Ok (read_db ovf (map spec_files l))
  end.

Definition case_out (c : case) : outcome (list item) :=
  let '(ovf, cl, _) := c in run_call ovf cl.

Definition expect_eqb (a b : expect) : bool :=
  match a, b with
  | XErr x, XErr y => x =? y
  | XPanic x, XPanic y => x =? y
  | XItems n h, XItems m g => (n =? m) && (h =? g)
  | _, _ => false
  end.

Definition case_ok (c : case) : bool :=
  let '(ovf, cl, x) := c in
  expect_eqb x (match run_call ovf cl with
                | Ok its => summarize its
                | Err e => XErr e
                | Panic p => XPanic p
                end).
