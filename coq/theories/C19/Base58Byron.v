(* C19: the base58 parameter of Model.v discharged with the Gallina base58. *)
From PV Require Import Lib.Base Cbor.Item Cbor.Dec.
From PV Require Import C19.Model C19.Proofs C19.Base58 C19.Base58Proofs.
From PV Require C18.Bech32.
Open Scope Z_scope.

Lemma b58_roundtrip_len bs : bytes_wf bs -> len bs <= 132 -> pallas_decode_base58 (b58_encode bs) = Ok bs.
Proof. intros Hw Hl. apply pallas_b58_roundtrip_proof; [exact Hw|exact Hl]. Qed.

Lemma byron_base58_closed skip p : bytes_wf p -> len (byron_to_vec (from_decoded p)) <= 132 ->
  from_base58 skip pallas_decode_base58 (to_base58 b58_encode (from_decoded p)) = Ok (from_decoded p).
Proof.
  intros Hp Hl. apply (base58_roundtrip_sec skip b58_encode pallas_decode_base58 b58_roundtrip_len); [|reflexivity|exact Hl].
  apply from_decoded_wf; [exact Hp|].
  assert (len p <= len (byron_to_vec (from_decoded p))); [|lia].
  unfold byron_to_vec, Cbor.Api.e_bytes, from_decoded. cbn [fst snd]. unfold len. rewrite !app_length. lia.
Qed.

Lemma from_base58_never_panics skip s : is_panic (from_base58 skip pallas_decode_base58 s) = false.
Proof.
  unfold from_base58. pose proof (pallas_decode_never_panics s) as H.
  destruct (pallas_decode_base58 s); try reflexivity; [apply from_bytes_never_panics|discriminate].
Qed.
