(* C07 model: pallas-primitives/src/plutus_data.rs transcribed —
   PlutusData / BigInt / Constr / BoundedBytes: Ord (and Eq = "cmp is Equal"),
   Encode, Decode — over the shared CBOR core (heads, minicbor call models).

   Rust types:  Int = minicbor::data::Int (-2^64 .. 2^64-1)  ->  Z
                BoundedBytes(Vec<u8>)                         ->  list Z
                MaybeIndefArray<A> = Def(Vec) | Indef(Vec)    ->  (indef : bool, list)
                KeyValuePairs<K,V> = Def(Vec) | Indef(Vec)    ->  (indef : bool, list of pairs)
   Definitions only; proofs are in Order.v / Codec.v. *)
From PV Require Import Lib.Base Cbor.Item Cbor.Enc Cbor.Dec Cbor.Api.
Open Scope Z_scope.

Inductive bigint : Type :=
| BInt (n : Z)
| BigUInt (b : list Z)
| BigNInt (b : list Z).

Inductive pdata : Type :=
| PConstr (tag : Z) (anyc : option Z) (indef : bool) (fields : list pdata)
| PMap (indef : bool) (kvs : list (pdata * pdata))
| PArray (indef : bool) (xs : list pdata)
| PBigInt (i : bigint)
| PBytes (b : list Z).

(* ------------------------------------------------------------------ Ord *)

(* <[T] as Ord>::cmp / Vec<T>::cmp: lexicographic, a proper prefix is smaller *)
Section ListCmp.
  Context {A : Type} (cmp : A -> A -> comparison).
  Fixpoint list_cmp (l1 l2 : list A) : comparison :=
    match l1, l2 with
    | [], [] => Eq
    | [], _ :: _ => Lt
    | _ :: _, [] => Gt
    | x :: t1, y :: t2 => match cmp x y with Eq => list_cmp t1 t2 | o => o end
    end.
End ListCmp.

(* Vec<u8>::cmp *)
Definition vec_u8_cmp : list Z -> list Z -> comparison := list_cmp Z.compare.

(* iter().skip_while(|b| b == &0) *)
Fixpoint strip0 (l : list Z) : list Z :=
  match l with
  | x :: t => if x =? 0 then strip0 t else l
  | [] => []
  end.

(* fn to_bytes(i: &BigInt) -> (bool, Vec<u8>)   (i128::abs cannot overflow: |Int| <= 2^64) *)
Definition to_bytes (i : bigint) : bool * list Z :=
  match i with
  | BInt n => (n <? 0, strip0 (be_bytes 16 (Z.abs n)))
  | BigUInt b => (false, strip0 b)
  | BigNInt b => (true, strip0 b)
  end.

Definition is_nil {A} (l : list A) : bool := match l with [] => true | _ => false end.

(* impl Ord for BigInt *)
Definition bigint_cmp (a b : bigint) : comparison :=
  let '(ln, l) := to_bytes a in
  let '(rn, r) := to_bytes b in
  if is_nil l && is_nil r then Eq
  else if ln && negb rn then Lt
  else if negb ln && rn then Gt
  else
    let when_positives := match len l ?= len r with Eq => vec_u8_cmp l r | o => o end in
    if ln && rn then CompOpp when_positives else when_positives.

(* Constr::constr_index; None = panic ("malformed Constr") *)
Definition constr_index (tag : Z) (anyc : option Z) : option Z :=
  if (121 <=? tag) && (tag <=? 127) then Some (tag - 121)
  else if (1280 <=? tag) && (tag <=? 1400) then Some (tag - 1280 + 7)
  else if tag =? 102 then anyc
  else None.
(* total version used inside the comparison; on a malformed Constr the Rust code
   panics when the comparison reaches it ([wf_pdata] excludes those) *)
Definition constr_index_tot (tag : Z) (anyc : option Z) : Z :=
  match constr_index tag anyc with Some i => i | None => 0 end.

Definition lex (c1 c2 : comparison) : comparison := match c1 with Eq => c2 | o => o end.

(* impl Ord for PlutusData (+ Constr<A>, tuples, Vec) *)
Fixpoint pdata_cmp (a b : pdata) {struct a} : comparison :=
  match a, b with
  | PConstr t1 c1 _ f1, PConstr t2 c2 _ f2 =>
    match constr_index_tot t1 c1 ?= constr_index_tot t2 c2 with
    | Eq => list_cmp pdata_cmp f1 f2
    | o => o
    end
  | PConstr _ _ _ _, _ => Lt
  | _, PConstr _ _ _ _ => Gt
  | PMap _ k1, PMap _ k2 =>
    list_cmp (fun p q => let '(pk, pv) := p in let '(qk, qv) := q in
                         match pdata_cmp pk qk with Eq => pdata_cmp pv qv | o => o end) k1 k2
  | PMap _ _, _ => Lt
  | _, PMap _ _ => Gt
  | PArray _ x1, PArray _ x2 => list_cmp pdata_cmp x1 x2
  | PArray _ _, _ => Lt
  | _, PArray _ _ => Gt
  | PBigInt i1, PBigInt i2 => bigint_cmp i1 i2
  | PBigInt _, _ => Lt
  | _, PBigInt _ => Gt
  | PBytes b1, PBytes b2 => vec_u8_cmp b1 b2
  end.

Definition pair_cmp (p q : pdata * pdata) : comparison :=
  let '(pk, pv) := p in let '(qk, qv) := q in
  match pdata_cmp pk qk with Eq => pdata_cmp pv qv | o => o end.

Definition is_eq (c : comparison) : bool := match c with Eq => true | _ => false end.
(* impl PartialEq: self.cmp(other) == Ordering::Equal *)
Definition pdata_eqb (a b : pdata) : bool := is_eq (pdata_cmp a b).
Definition bigint_eqb (a b : bigint) : bool := is_eq (bigint_cmp a b).

(* ------------------------------------------------------------------ Encode *)

(* slice::chunks(64): consecutive 64-byte pieces, the last one may be shorter; none for [] *)
Fixpoint chunks_aux (fuel : nat) (l : list Z) : list (list Z) :=
  match fuel with
  | O => []
  | S f => match l with [] => [] | _ :: _ => firstn 64 l :: chunks_aux f (skipn 64 l) end
  end.
Definition chunks64 (l : list Z) : list (list Z) := chunks_aux (length l) l.

(* impl Encode for BoundedBytes *)
Definition enc_bounded (b : list Z) : list Z :=
  if len b <=? 64 then e_bytes b
  else enc_indef MajBytes ++ concat (map e_bytes (chunks64 b)) ++ e_end.

(* impl Encode for BigInt *)
Definition enc_bigint (i : bigint) : list Z :=
  match i with
  | BInt n => e_int n
  | BigUInt b => e_tag 2 ++ enc_bounded b
  | BigNInt b => e_tag 3 ++ enc_bounded b
  end.

(* impl Encode for MaybeIndefArray<A> *)
Definition enc_mia {A} (enc : A -> list Z) (indef : bool) (xs : list A) : list Z :=
  if indef then e_begin_array ++ concat (map enc xs) ++ e_end else e_vec enc xs.

(* impl Encode for KeyValuePairs<K,V> *)
Definition enc_kvp {A} (enc : A -> list Z) (indef : bool) (kvs : list (A * A)) : list Z :=
  let body := concat (map (fun kv => enc (fst kv) ++ enc (snd kv)) kvs) in
  if indef then e_begin_map ++ body ++ e_end else e_map (len kvs) ++ body.

Definition opt_default (o : option Z) : Z := match o with Some v => v | None => 0 end.

(* impl Encode for PlutusData / Constr<A> *)
Fixpoint enc_pdata (d : pdata) : list Z :=
  match d with
  | PConstr tag anyc indef fs =>
    e_tag tag ++
    (if tag =? 102
     then e_array 2 ++ e_uint (opt_default anyc) ++ enc_mia enc_pdata indef fs   (* (u64, &fields) *)
     else enc_mia enc_pdata indef fs)
  | PMap indef kvs =>
    let body := concat (map (fun kv => let '(k, v) := kv in enc_pdata k ++ enc_pdata v) kvs) in
    if indef then e_begin_map ++ body ++ e_end else e_map (len kvs) ++ body
  | PArray indef xs => enc_mia enc_pdata indef xs
  | PBigInt i => enc_bigint i
  | PBytes b => enc_bounded b
  end.

(* ------------------------------------------------------------------ Decode *)

(* Decoder::bytes_iter + the collecting loop of BoundedBytes::decode: one definite string, or
   definite chunks until the break *)
Definition d_bounded (bs : list Z) : dres (list Z * list Z) :=
  match bs with
  | [] => DEoi
  | b :: r =>
    if negb (byteb b) then DErr
    else if negb (major_eqb (major_of_code (b / 32)) MajBytes) then mismatch b r
    else if b mod 32 =? 31 then
      dbind (until_loop d_bytes (budget r) r) (fun '(cs, r') => DOk (concat cs, r'))
    else dbind (expect_arg (major_eqb MajBytes) bs) (fun '(_, n, r') => take n r')
  end.

Definition is_int_type (t : ctype) : bool :=
  match t with
  | TU8 | TU16 | TU32 | TU64 | TI8 | TI16 | TI32 | TI64 | TInt => true
  | _ => false
  end.

(* impl Decode for BigInt *)
Definition d_bigint (bs : list Z) : dres (bigint * list Z) :=
  dbind (d_datatype bs) (fun t =>
    if is_int_type t then dbind (d_int bs) (fun '(n, r) => DOk (BInt n, r))
    else if ctype_eqb t TTag then
      dbind (d_tag bs) (fun '(tag, r) =>
        if tag =? 2 then dbind (d_bounded r) (fun '(b, r') => DOk (BigUInt b, r'))
        else if tag =? 3 then dbind (d_bounded r) (fun '(b, r') => DOk (BigNInt b, r'))
        else DErr)
    else DErr).

Definition is_constr_tag (t : Z) : bool :=
  ((121 <=? t) && (t <=? 127)) || ((1280 <=? t) && (t <=? 1400)) || (t =? 102).

Section Containers.
  Context {A : Type} (dec : list Z -> dres (A * list Z)).

  (* impl Decode for MaybeIndefArray<A> *)
  Definition d_mia (bs : list Z) : dres ((bool * list A) * list Z) :=
    dbind (d_datatype bs) (fun t =>
      if ctype_eqb t TArray then dbind (d_vec dec bs) (fun '(xs, r) => DOk ((false, xs), r))
      else if ctype_eqb t TArrayIndef then dbind (d_vec dec bs) (fun '(xs, r) => DOk ((true, xs), r))
      else DErr).

  (* impl Decode for KeyValuePairs<K,V>: the items are collected first, then the datatype is looked at *)
  Definition d_kvp (bs : list Z) : dres ((bool * list (A * A)) * list Z) :=
    dbind (d_datatype bs) (fun t =>
      dbind (d_map_pairs dec dec bs) (fun '(kvs, r) =>
        if ctype_eqb t TMap then DOk ((false, kvs), r)
        else if ctype_eqb t TMapIndef then DOk ((true, kvs), r)
        else DErr)).

  (* impl Decode for Constr<A> *)
  Definition d_constr (bs : list Z) : dres ((Z * option Z * bool * list A) * list Z) :=
    dbind (d_tag bs) (fun '(x, r) =>
      if ((121 <=? x) && (x <=? 127)) || ((1280 <=? x) && (x <=? 1400)) then
        dbind (d_mia r) (fun '((indef, fs), r') => DOk ((x, None, indef, fs), r'))
      else if x =? 102 then
        (* [constructor, fields]: a 2-element array, definite or indefinite (as repaired in
           /repo commit becf41cb: the length is checked and the closing break is consumed) *)
        dbind (d_array r) (fun '(l, r1) =>
        if negb (match l with None => true | Some n => n =? 2 end) then DErr else
        dbind (d_u64 r1) (fun '(c, r2) =>
        dbind (d_mia r2) (fun '((indef, fs), r3) =>
        match l with
        | Some _ => DOk ((x, Some c, indef, fs), r3)
        | None =>
          (* d.datatype()? != Type::Break -> error; d.skip() on a break consumes that byte *)
          dbind (d_datatype r3) (fun t =>
            if ctype_eqb t TBreak then DOk ((x, Some c, indef, fs), tl r3) else DErr)
        end)))
      else DErr).
End Containers.

(* impl Decode for PlutusData; fuel = nesting depth (the Rust recursion has no explicit bound) *)
Fixpoint d_pdata (fuel : nat) (bs : list Z) {struct fuel} : dres (pdata * list Z) :=
  match fuel with
  | O => DErr
  | S f =>
    dbind (d_datatype bs) (fun t =>
      if ctype_eqb t TTag then
        dbind (d_tag bs) (fun '(tag, _) =>            (* probe: nothing consumed *)
          if (tag =? 2) || (tag =? 3) then dbind (d_bigint bs) (fun '(i, r) => DOk (PBigInt i, r))
          else if is_constr_tag tag then
            dbind (d_constr (d_pdata f) bs) (fun '((x, c, indef, fs), r) => DOk (PConstr x c indef fs, r))
          else DErr)
      else if is_int_type t then dbind (d_bigint bs) (fun '(i, r) => DOk (PBigInt i, r))
      else if ctype_eqb t TMap || ctype_eqb t TMapIndef then
        dbind (d_kvp (d_pdata f) bs) (fun '((indef, kvs), r) => DOk (PMap indef kvs, r))
      else if ctype_eqb t TBytes || ctype_eqb t TBytesIndef then
        dbind (d_bounded bs) (fun '(b, r) => DOk (PBytes b, r))
      else if ctype_eqb t TArray || ctype_eqb t TArrayIndef then
        dbind (d_mia (d_pdata f) bs) (fun '((indef, xs), r) => DOk (PArray indef xs, r))
      else DErr)
  end.

(* minicbor::decode::<PlutusData>(bytes): trailing bytes are not looked at *)
Definition decode_pdata (bs : list Z) : dres (pdata * list Z) := d_pdata (budget bs) bs.

(* ------------------------------------------------------------------ well-formedness *)
Definition u64b (n : Z) : bool := (0 <=? n) && (n <? 18446744073709551616).
Definition int_rangeb (n : Z) : bool := (-18446744073709551616 <=? n) && (n <? 18446744073709551616).

Definition wf_bigint (i : bigint) : bool :=
  match i with BInt n => int_rangeb n | BigUInt b => bytes_wfb b | BigNInt b => bytes_wfb b end.

(* values of the Rust type whose Constr tags are the ones the codec knows:
   121..127 | 1280..1400 | 102 with Some(any_constructor) *)
Fixpoint wf_pdata (d : pdata) : bool :=
  match d with
  | PConstr tag anyc _ fs =>
    match constr_index tag anyc with Some i => u64b i | None => false end
    && match anyc with Some c => u64b c | None => true end
    && u64b (len fs) && forallb wf_pdata fs
  | PMap _ kvs => u64b (len kvs) && forallb (fun kv => let '(k, v) := kv in wf_pdata k && wf_pdata v) kvs
  | PArray _ xs => u64b (len xs) && forallb wf_pdata xs
  | PBigInt i => wf_bigint i
  | PBytes b => bytes_wfb b
  end.

(* ... and additionally any_constructor is None for the compact tags: exactly the values the
   decoder produces *)
Fixpoint strict_pdata (d : pdata) : bool :=
  match d with
  | PConstr tag anyc _ fs =>
    (if tag =? 102 then true else match anyc with None => true | Some _ => false end)
    && forallb strict_pdata fs
  | PMap _ kvs => forallb (fun kv => let '(k, v) := kv in strict_pdata k && strict_pdata v) kvs
  | PArray _ xs => forallb strict_pdata xs
  | _ => true
  end.

(* nesting depth = fuel the decoder needs *)
Fixpoint depth (d : pdata) : nat :=
  match d with
  | PConstr _ _ _ fs => S (fold_right (fun x m => Nat.max (depth x) m) O fs)
  | PMap _ kvs => S (fold_right (fun kv m => let '(k, v) := kv in Nat.max (Nat.max (depth k) (depth v)) m) O kvs)
  | PArray _ xs => S (fold_right (fun x m => Nat.max (depth x) m) O xs)
  | _ => 1%nat
  end.

(* ------------------------------------------------------------------ specification side *)
(* the integer a BigInt denotes in the comparison: BigNInt(bytes) is treated as -(be bytes)
   (NOT CBOR's -1-n) *)
Definition bigint_val (i : bigint) : Z :=
  match i with BInt n => n | BigUInt b => be_val b | BigNInt b => - be_val b end.

(* what the equality looks at: constructor index, integer value, element lists *)
Inductive ntree : Type :=
| NConstr (ix : Z) (fs : list ntree)
| NMap (kvs : list (ntree * ntree))
| NArray (xs : list ntree)
| NInt (v : Z)
| NBytes (b : list Z).

Fixpoint norm (d : pdata) : ntree :=
  match d with
  | PConstr tag anyc _ fs => NConstr (constr_index_tot tag anyc) (map norm fs)
  | PMap _ kvs => NMap (map (fun kv => let '(k, v) := kv in (norm k, norm v)) kvs)
  | PArray _ xs => NArray (map norm xs)
  | PBigInt i => NInt (bigint_val i)
  | PBytes b => NBytes b
  end.

(* the same value with other definite/indefinite choices *)
Fixpoint set_indef (f : bool) (d : pdata) : pdata :=
  match d with
  | PConstr tag anyc _ fs => PConstr tag anyc f (map (set_indef f) fs)
  | PMap _ kvs => PMap f (map (fun kv => let '(k, v) := kv in (set_indef f k, set_indef f v)) kvs)
  | PArray _ xs => PArray f (map (set_indef f) xs)
  | _ => d
  end.
