(* C20 — property theorems only. Statements are pinned by props/C20.json. *)
From PV Require Import Lib.Base C20.Model C20.Proofs C20.Sched C20.SchedProofs.
Open Scope Z_scope.

Theorem header_roundtrip : forall h, header_wf h -> header_decode (header_encode h) = Ok h.
Proof. exact header_roundtrip_proof. Qed.

Theorem header_encode_wf : forall h, header_wf h ->
  length (header_encode h) = 8%nat /\ bytes_wf (header_encode h).
Proof. intros h H. split; [apply header_encode_length|now apply header_encode_bytes]. Qed.

(* framing is self-delimiting: the demuxer cuts the byte stream written by the
   muxer back into exactly the segments, for any list of segments of 0..65535 bytes *)
Theorem segments_parse : forall w, Forall segment_wf w -> parse (mux_bytes w) = (map untimed w, Ok tt).
Proof. exact segments_parse_proof. Qed.

(* exactly once, in order: for ANY interleaving of the per-channel chunk
   sequences (and any timestamps) the agent subscribed as (r, p) on the receiving
   side gets precisely what the opposite-role agent on p enqueued *)
Theorem mux_per_channel_fifo : forall (sent : Z -> list (list Z)) (wire : list segment),
  Forall segment_wf wire -> Interleaving sent (map untimed wire) ->
  forall r p, received r p wire = sent (send_id (peer r) p).
Proof. exact received_fifo. Qed.

(* the routing core of the above, on the parsed wire sequence *)
Theorem interleaving_per_channel : forall sent w,
  Interleaving sent w -> forall id, delivered_to id w = sent id.
Proof. exact delivered_interleaving. Qed.

(* chunks never leak to another protocol or role *)
Theorem no_cross_delivery : forall sent wire r p r' p',
  Forall segment_wf wire -> Interleaving sent (map untimed wire) ->
  0 <= p < 32768 -> 0 <= p' < 32768 -> (r, p) <> (r', p') ->
  recv_id r p <> recv_id r' p' /\
  received r p wire = sent (recv_id r p) /\ received r' p' wire = sent (recv_id r' p').
Proof. exact no_cross_delivery_proof. Qed.

Theorem queue_contents_sent_with_its_id : forall id x w, In x (delivered_to id w) -> In (id, x) w.
Proof. exact delivered_in. Qed.

Theorem demux_queues_only_for_subscribers : forall subs w id q,
  In (id, q) (demux subs w) -> In id subs /\ q = delivered_to id w.
Proof. exact demux_only_subscribed. Qed.

Theorem direction_bit_involutive : forall p, flip (flip p) = p.
Proof. exact flip_involutive. Qed.

Theorem direction_bit_flips : forall p, u16 p ->
  u16 (flip p) /\ flip p <> p /\ flip p = (if p <? 32768 then p + 32768 else p - 32768).
Proof. intros p H. split; [now apply flip_u16|]. split; [now apply flip_neq|now apply flip_spec]. Qed.

Theorem client_server_ids_match : forall r p, recv_id r p = send_id (peer r) p.
Proof. exact recv_id_peer. Qed.

(* the premise of mux_per_channel_fifo is inhabited for every finite family of channels *)
Theorem interleaving_exists : forall ids sent,
  NoDup ids -> (forall id, ~ In id ids -> sent id = []) -> Interleaving sent (sequential ids sent).
Proof. exact sequential_interleaving. Qed.

(* non-vacuity: two agents (chainsync client id 2, blockfetch server id 0x8003), chunks
   interleaved, one empty chunk, checked through bytes *)
Example mux_example :
  let wire : list segment := [(7, 2, [1; 2]); (9, 32771, []); (11, 2, [3]); (4294967295, 32771, [255; 0])] in
  Forall segment_wf wire /\
  received Server 2 wire = [[1; 2]; [3]] /\ received Client 3 wire = [[]; [255; 0]] /\
  received Client 2 wire = [] /\
  firstn 10 (mux_bytes wire) = [0; 0; 0; 7; 0; 2; 0; 2; 1; 2].
Proof. cbv zeta. split; [repeat constructor; unfold u32, u16, len; cbn; lia|]. repeat split; vm_compute; reflexivity. Qed.

(* outside the property's domain (chunks <= 65535 bytes): payload.len() as u16
   wraps, so a 65536-byte chunk is framed with length 0 and the receiver reads
   its bytes as 8193 segments *)
Example oversize_chunk_misframed :
  len (fst (parse (mux_bytes [(0, 2, repeat 0 (Z.to_nat 65536))]))) = 8193.
Proof. vm_compute. reflexivity. Qed.

(* ------------------------------------------------------------------ schedule level *)
(* the multiplexer as a transition system (C20/Sched.v): agents enqueue into the muxer's
   bounded queue, the muxer frames one segment at a time onto the bearer, bytes become
   readable in arbitrary fragments, the demuxer reads header / payload and routes by
   protocol id, BLOCKING while the subscriber's bounded queue is full, consumers dequeue
   at arbitrary times.  A schedule is any list of such steps. *)

(* safety, for EVERY schedule, every reachable state and any queue capacities: per channel,
   delivered ++ (egress queue ++ segments on the bearer ++ ingress queue) = sent - nothing
   lost, duplicated, reordered or cross-delivered at any point *)
Theorem schedule_safety : forall cfg sched st,
  lossy cfg = false -> Forall choice_wf sched -> exec cfg init sched = Some st -> safe cfg st.
Proof. exact safety_all_schedules. Qed.

Theorem schedule_safety_roles : forall cfg sched st r p,
  lossy cfg = false -> Forall choice_wf sched -> exec cfg init sched = Some st ->
  subscribed cfg (recv_id r p) = true ->
  delivered st (recv_id r p) ++ in_flight (recv_id r p) st = sent st (send_id (peer r) p).
Proof. exact safety_roles. Qed.

(* progress: no reachable state with data on its way is stuck - some step other than a new
   enqueue is enabled (with capacities >= 1) *)
Theorem schedule_no_stuck_state : forall cfg sched st,
  lossy cfg = false -> (1 <= cap_out cfg)%nat -> Forall choice_wf sched ->
  exec cfg init sched = Some st -> pending st ->
  exists c, is_enqueue c = false /\ exec_step cfg st c <> None.
Proof. exact no_stuck_reachable. Qed.

(* a demuxer blocked in send().await is released by one dequeue of the full queue *)
Theorem blocked_demuxer_released_by_dequeue : forall cfg sched st p x,
  (1 <= cap_out cfg)%nat -> exec cfg init sched = Some st ->
  dmx st = DHolding p x -> exec_step cfg st CDemux = None ->
  exists st1 st2, exec_step cfg st (CDequeue p) = Some st1 /\ exec_step cfg st1 CDemux = Some st2 /\ dmx st2 = DIdle.
Proof. exact blocked_released_reachable. Qed.

(* bounded progress: from any reachable state, ANY run of steps other than new enqueues is at
   most [mu] steps long (every such step moves data forward) - together with the two theorems
   above: whatever the scheduler does, as long as it keeps taking enabled steps and consumers
   keep dequeuing, after at most mu steps nothing is pending and everything sent is delivered *)
Theorem schedule_bounded_progress : forall cfg ids pre sched st st',
  lossy cfg = false -> NoDup ids -> (forall id, subscribed cfg id = true -> In id ids) ->
  Forall choice_wf pre -> exec cfg init pre = Some st ->
  Forall choice_wf sched -> Forall (fun c => is_enqueue c = false) sched ->
  exec cfg st sched = Some st' -> (length sched <= mu ids st)%nat.
Proof. exact bounded_progress_reachable. Qed.

(* once nothing is pending every subscriber has received exactly what was sent to it *)
Theorem schedule_all_delivered_when_idle : forall cfg sched st,
  lossy cfg = false -> Forall choice_wf sched -> exec cfg init sched = Some st -> ~ pending st ->
  forall id, subscribed cfg id = true -> delivered st id = sent st id.
Proof. exact all_delivered_reachable. Qed.

(* the try_send variant of demux violates safety under a slow consumer (101 chunks reach the
   demuxer before the first dequeue); the code's blocking demuxer refuses that schedule *)
Theorem try_send_demuxer_refuted :
  Forall choice_wf slow_consumer_schedule /\
  exists st, exec (plexer_cfg_try_send [2]) init slow_consumer_schedule = Some st /\
             ~ safe (plexer_cfg_try_send [2]) st.
Proof. exact try_send_unsafe. Qed.

Theorem slow_consumer_blocks_blocking_demuxer : exec (plexer_cfg [2]) init slow_consumer_schedule = None.
Proof. exact slow_consumer_blocks_the_code. Qed.

(* non-vacuity: a two-channel schedule with fragmented arrival *)
Example schedule_example :
  let sched := [CEnqueue 2 [1; 2]; CEnqueue 32771 []; CMux 5; CMux 6; CArrive 3; CArrive 15; CDemux; CDemux; CDemux;
                CDemux; CDemux; CDemux; CDequeue 32771; CEnqueue 2 [3]; CDequeue 2] in
  Forall choice_wf sched /\
  match exec (plexer_cfg [2; 32771]) init sched with
  | Some st => delivered st 2 = [[1; 2]] /\ delivered st 32771 = [[]] /\ in_flight 2 st = [[3]] /\ sent st 2 = [[1; 2]; [3]]
  | None => False
  end.
Proof. cbv zeta. split; [repeat constructor; unfold u16, u32, len; cbn; lia|vm_compute; repeat split]. Qed.
