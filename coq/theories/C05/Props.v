(* C05 — property theorems only. Statements are pinned by vp/check.py. *)
From PV Require Import Lib.Base Cbor.Item Cbor.Enc Cbor.Dec Cbor.Api C05.Model C05.Proofs C05.Constr.
Open Scope Z_scope.

(* the reported hash is H over (era / language prefix ++ exactly the bytes the decoder consumed) *)
Theorem hash_over_wire :
  forall (H : Z -> list Z -> list Z) (T : Type) (view : item -> option T) (enc : T -> list Z)
         (a : artefact) (bs : list Z) (k : keepraw T) (r : list Z),
    kr_decode (typed view) bs = DOk (k, r) ->
    original_hash H enc a k = H (digest_len a) (prefix a ++ consumed bs r).
Proof. intros H T view enc a bs k r. exact (hash_over_wire_proof H view enc a bs k r). Qed.

(* ... and those bytes are the encoding of the item that was on the wire, whatever its form *)
Theorem wire_is_encoding :
  forall (T : Type) (view : item -> option T) (bs : list Z) (k : keepraw T) (r : list Z),
    kr_decode (typed view) bs = DOk (k, r) ->
    exists i, view i = Some (kr_inner k) /\ wf_item i = true /\
              consumed bs r = encode_item i /\ kr_raw k = encode_item i /\ bs = encode_item i ++ r.
Proof. intros T view bs k r. exact (wire_is_encoding_proof view bs k r). Qed.

(* equal wire bytes hash equal, whatever the types, the decoded values and their re-encoders are *)
Theorem hash_indep_of_reencoding :
  forall (H : Z -> list Z -> list Z) (T1 T2 : Type) (view1 : item -> option T1) (view2 : item -> option T2)
         (enc1 : T1 -> list Z) (enc2 : T2 -> list Z) (a : artefact)
         (bs1 bs2 : list Z) (k1 : keepraw T1) (k2 : keepraw T2) (r1 r2 : list Z),
    kr_decode (typed view1) bs1 = DOk (k1, r1) -> kr_decode (typed view2) bs2 = DOk (k2, r2) ->
    consumed bs1 r1 = consumed bs2 r2 ->
    original_hash H enc1 a k1 = original_hash H enc2 a k2.
Proof. intros H T1 T2 v1 v2 e1 e2 a b1 b2 k1 k2 r1 r2. exact (hash_indep_proof H v1 v2 e1 e2 a b1 b2 k1 k2 r1 r2). Qed.

(* conversely: ANY well-formed encoding the type accepts (non-minimal heads, indefinite
   containers, ...) is decoded and hashed as it is, not as [enc] would write the value *)
Theorem noncanonical_hashed_as_is :
  forall (H : Z -> list Z -> list Z) (T : Type) (view : item -> option T) (enc : T -> list Z)
         (a : artefact) (i : item) (v : T) (r : list Z),
    wf_item i = true -> view i = Some v ->
    exists k, kr_decode (typed view) (encode_item i ++ r) = DOk (k, r) /\ kr_inner k = v /\
              kr_raw k = encode_item i /\
              original_hash H enc a k = H (digest_len a) (prefix a ++ encode_item i).
Proof. intros H T view enc a i v r. exact (noncanonical_as_is_proof H view enc a i v r). Qed.

(* ComputeHash, by contrast, hashes the re-encoding *)
Theorem compute_hash_spec :
  forall (H : Z -> list Z -> list Z) (T : Type) (enc : T -> list Z) (a : artefact) (v : T),
    compute_hash H enc a v = H (digest_len a) (prefix a ++ enc v).
Proof. intros H T enc a v. exact (compute_hash_spec_proof H enc a v). Qed.

(* structure: every hash MultiEraBlock / MultiEraTx report is H over a contiguous slice of the
   input that is exactly the encoding of one well-formed item (with the era prefix) *)
Theorem block_hashes_over_wire :
  forall (H : Z -> list Z -> list Z) (bs hh : list Z) (ids : list (list Z)),
    dec_block H bs = DOk (hh, ids) ->
    exists tag, probe bs = Some tag /\
      hashed_slice H (header_kind tag) bs hh /\ Forall (hashed_slice H (tx_kind tag) bs) ids.
Proof. exact dec_block_over_wire_proof. Qed.

Theorem tx_hashes_over_wire :
  forall (H : Z -> list Z -> list Z) (conway : bool) (bs : list Z) (t : tx_hashes),
    dec_tx H conway bs = DOk t ->
    hashed_slice H ATxBody bs (txh_id t) /\
    Forall (hashed_slice H APlutusData bs) (txh_datums t) /\
    Forall (hashed_slice H ANativeScript bs) (txh_scripts t).
Proof. exact dec_tx_over_wire_proof. Qed.

Theorem byron_tx_hash_over_wire :
  forall (H : Z -> list Z -> list Z) (bs : list Z) (t : tx_hashes),
    dec_byron_tx H bs = DOk t -> hashed_slice H AByronTx bs (txh_id t).
Proof. exact dec_byron_tx_over_wire_proof. Qed.

Theorem single_hash_over_wire :
  forall (H : Z -> list Z -> list Z) (a : artefact) (bs : list Z) (k : keepraw item) (r : list Z),
    kr_item bs = DOk (k, r) -> hashed_slice H a bs (ohash H a k) /\ bs = kr_raw k ++ r.
Proof. exact dec_single_over_wire_proof. Qed.

(* the premise "a typed decoder consumes exactly one item", for the hand-written decoder in
   which the defect sat (Constr, tag 102), after the repair ... *)
Theorem constr102_consumes_item :
  forall (bs : list Z) (v : Z * item) (r : list Z),
    dec_constr102 bs = DOk (v, r) ->
    exists i, decode bs = DOk (i, r) /\ wf_item i = true /\ bs = encode_item i ++ r.
Proof. exact constr102_consumes_item_proof. Qed.

(* ... and the witness that the unrepaired branch stopped in front of the break byte *)
Theorem constr102_old_refuted :
  exists bs v r, dec_constr102_old bs = DOk (v, r) /\ r <> [] /\
                 decode bs = DOk (Tag W8 102 (ArrayIndef [UInt W0 0; Array W0 []]), []).
Proof. exact constr102_old_refuted_proof. Qed.

(* ---- non-vacuity: an "identity hash" exposes the preimage ---- *)
Definition idH (_ : Z) (m : list Z) : list Z := m.
Definition view_uint (i : item) : option Z := match i with UInt _ n => Some n | _ => None end.

(* [18 05] and [05] are the same number; the first is hashed as 18 05, ComputeHash would hash 05 *)
Example noncanonical_uint :
  exists k, kr_decode (typed view_uint) [24; 5; 99] = DOk (k, [99]) /\ kr_inner k = 5 /\
            original_hash idH e_uint ATxBody k = [24; 5] /\
            compute_hash idH e_uint ATxBody (kr_inner k) = [5] /\
            original_hash idH e_uint AByronBlockHead k = [130; 1; 24; 5] /\
            original_hash idH e_uint ANativeScript k = [0; 24; 5].
Proof. eexists. repeat split; vm_compute; reflexivity. Qed.

(* a Babbage-shaped block [6, [hdr, [body], [wits], {}, []]]; canonical and with an indefinite
   body list + a non-minimal map head inside the body: the tx id follows the wire bytes *)
Example block_example :
  dec_block idH [130; 6; 133; 129; 1; 129; 161; 0; 1; 129; 160; 160; 128] = DOk ([129; 1], [[161; 0; 1]]) /\
  dec_block idH [130; 6; 133; 129; 1; 159; 184; 1; 0; 1; 255; 129; 160; 160; 128] = DOk ([129; 1], [[184; 1; 0; 1]]) /\
  dec_block idH [130; 1; 131; 129; 1; 132; 129; 130; 129; 7; 128; 128; 128; 128; 128] = DOk ([130; 1; 129; 1], [[129; 7]]).
Proof. repeat split; vm_compute; reflexivity. Qed.
