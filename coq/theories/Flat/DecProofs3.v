(* C01, decoder side, continued: byte_array / bytes / utf8 at any alignment. *)
From PV Require Import Lib.Base Flat.Model Flat.Encoder Flat.Bits Flat.DecSafe Flat.DecTotal Flat.EncProofs Flat.DecProofs Flat.DecProofs2.
Open Scope Z_scope.

Lemma skipn_wf n l : bytes_wf l -> bytes_wf (skipn n l).
Proof.
  unfold bytes_wf. rewrite !Forall_forall. intros H x Hx. apply H.
  rewrite <- (firstn_skipn n l). apply in_or_app. right. exact Hx.
Qed.

(* fn byte_array on a byte-aligned cursor *)
Lemma dec_byte_array_dec arr st R : dinv st -> d_used st = 0 ->
  skipn (Z.to_nat (d_pos st)) (d_buf st) = blocks arr ++ R ->
  exists st', dec_byte_array st = (Ok arr, st') /\ d_buf st' = d_buf st /\ d_used st' = 0 /\
              d_pos st' = d_pos st + Z.of_nat (length (blocks arr)).
Proof.
  intros Hs Hu0 Hsk. pose proof Hs as (Hp & Hu & He & Hl & Hw). unfold d_len in *.
  pose proof (f_equal (@length Z) Hsk) as HskL. rewrite skipn_length, app_length in HskL.
  pose proof (blocks_go_nonempty (length arr) arr) as Hne. fold (blocks arr) in Hne.
  assert (Hb1 : (1 <= length (blocks arr))%nat) by (destruct (blocks arr); [congruence | cbn [length]; lia]).
  unfold dec_byte_array, ensure_bytes; unfold bind, get, lift, idx, set_pos, ret, fail.
  cbn [fst snd d_buf d_pos d_used]. unfold d_len. rewrite Hu0. cbn [Z.eqb negb].
  replace (1 >? Z.of_nat (length (d_buf st)) - d_pos st) with false by lia.
  replace ((0 <=? d_pos st) && (d_pos st <? Z.of_nat (length (d_buf st)))) with true by lia.
  cbn [fst snd d_buf d_pos d_used].
  assert (Hhd : nth (Z.to_nat (d_pos st)) (d_buf st) 0 = nth 0 (blocks arr ++ R) 0).
  { rewrite <- Hsk, nth_skipn_add. f_equal. lia. }
  rewrite Hhd.
  destruct arr as [|a0 arr'] eqn:Earr.
  - cbn [blocks blocks_go length app nth]. unfold blk_loop. destruct (dec_fuel st); cbn [Z.eqb]; unfold ret;
      eexists; (split; [reflexivity|]); cbn [d_buf d_pos d_used]; repeat split; lia.
  - rewrite <- Earr in *. assert (Hane : arr <> []) by (rewrite Earr; discriminate).
    assert (Hlen : exists f, length arr = S f) by (rewrite Earr; cbn [length]; eauto). destruct Hlen as (f & Hlen).
    assert (Hbl : blocks arr = Z.of_nat (length (firstn 255 arr)) :: firstn 255 arr ++ blocks_go f (skipn 255 arr)).
    { unfold blocks. rewrite Hlen. rewrite Earr. reflexivity. }
    rewrite Hbl in *. cbn [app nth].
    match goal with |- exists st', blk_loop _ _ _ ?s2 = _ /\ _ => set (st2 := s2) end.
    assert (Hs2 : dinv st2).
    { unfold st2, dinv, d_len. cbn [d_buf d_pos d_used]. cbn [length] in HskL. repeat split; auto; lia. }
    destruct (blk_loop_dec f arr [] st2 (dec_fuel st) R Hane) as (st' & E' & Hb' & Hu' & Hp'); auto.
    + lia.
    + unfold st2. cbn [d_buf d_pos d_used].
      replace (Z.to_nat (d_pos st + 1)) with (Z.to_nat (d_pos st) + 1)%nat by lia.
      rewrite skipn_add, Hsk. cbn [app skipn]. rewrite <- app_assoc. reflexivity.
    + unfold st2, d_len, dec_fuel. cbn [d_buf d_pos d_used]. lia.
    + exists st'. rewrite E'. cbn [app]. split; [reflexivity|]. split; [exact Hb'|]. split; [exact Hu'|].
      rewrite Hp'. unfold st2. cbn [d_pos length]. lia.
Qed.

(* pub fn bytes: filler to the byte boundary, then 255-byte blocks *)
Lemma dec_bytes_ok u l : 0 <= u < 8 -> bytes_wf l ->
  dstep u dec_bytes l (filler_bits u ++ bytes_bits (blocks l)).
Proof.
  intros Hu Hl st post Hs Hus Hr. rewrite <- app_assoc in Hr.
  destruct (dec_filler_ok u Hu st _ Hs Hus Hr) as (st1 & E1 & Hs1 & Hb1 & Hr1 & Ho1).
  assert (HfL : Z.of_nat (length (filler_bits u)) = 8 - u).
  { unfold filler_bits. rewrite app_length, repeat_length. cbn [length]. lia. }
  rewrite HfL in Ho1.
  pose proof Hs as (Hp & Hu' & _). pose proof Hs1 as (Hp1 & Hu1 & He1 & Hl1 & Hw1).
  assert (Hu10 : d_used st1 = 0) by (unfold d_off in Ho1; lia).
  assert (Hd1 : drest st1 = bytes_bits (skipn (Z.to_nat (d_pos st1)) (d_buf st1))).
  { unfold drest, d_off. rewrite Hu10. replace (Z.to_nat (8 * d_pos st1 + 0)) with (8 * Z.to_nat (d_pos st1))%nat by lia.
    apply skipn_bytes_bits. }
  rewrite Hd1 in Hr1.
  destruct (bytes_bits_inv (blocks l) _ post (skipn_wf _ _ Hw1) (blocks_go_wf _ l Hl) Hr1) as (R & HR & HRp).
  destruct (dec_byte_array_dec l st1 R Hs1 Hu10 HR) as (st2 & E2 & Hb2 & Hu2 & Hp2).
  assert (Hs2 : dinv st2).
  { destruct (good_byte_array st1 Hs1) as (_ & _ & G & _). rewrite E2 in G. exact G. }
  assert (Ho2 : d_off st2 = d_off st + Z.of_nat (length (filler_bits u ++ bytes_bits (blocks l)))).
  { rewrite app_length, Nat2Z.inj_add, HfL, bytes_bits_length. unfold d_off in *. lia. }
  exists st2. unfold dec_bytes, bind. rewrite E1, E2. split5; auto; try congruence.
  apply (drest_after st st2 (filler_bits u ++ bytes_bits (blocks l)) post); [congruence | apply dinv_off, Hs | exact Ho2 |].
  rewrite <- app_assoc. assumption.
Qed.

(* pub fn utf8 *)
Lemma dec_utf8_ok u l : 0 <= u < 8 -> bytes_wf l -> utf8_valid l = true ->
  dstep u dec_utf8 l (filler_bits u ++ bytes_bits (blocks l)).
Proof.
  intros Hu Hl Hv st post Hs Hus Hr.
  destruct (dec_bytes_ok u l Hu Hl st post Hs Hus Hr) as (st' & E & H).
  exists st'. unfold dec_utf8, bind. rewrite E, Hv. exact (conj eq_refl H).
Qed.
