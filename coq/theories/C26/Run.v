(* C26 correspondence: a case is (operations, the implementation's observation
   after every operation, the implementation's final contents via peek()). *)
From PV Require Import Lib.Base C26.Model.
Open Scope Z_scope.

Definition case : Type := (list op * list obs * list point).

Definition opt_eqb {A} (e : A -> A -> bool) (a b : option A) : bool :=
  match a, b with Some x, Some y => e x y | None, None => true | _, _ => false end.

Definition out_eqb (a b : out) : bool :=
  match a, b with
  | OFwd, OFwd => true
  | OBack x, OBack y => Bool.eqb x y
  | OPop x, OPop y => list_eqb point_eqb x y
  | OPos x, OPos y => opt_eqb Z.eqb x y
  | _, _ => false
  end.

Definition obs_eqb (a b : obs) : bool :=
  let '(x1, n1, l1, o1) := a in let '(x2, n2, l2, o2) := b in
  out_eqb x1 x2 && (n1 =? n2) && opt_eqb point_eqb l1 l2 && opt_eqb point_eqb o1 o2.

Definition case_out (c : case) : list obs * list point :=
  let '(ops, _, _) := c in run buf_new ops.

Definition case_ok (c : case) : bool :=
  let '(ops, tr, fin) := c in
  let '(t, b) := run buf_new ops in
  list_eqb obs_eqb t tr && list_eqb point_eqb b fin.
