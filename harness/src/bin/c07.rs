//! C07: PlutusData round-trips through CBOR and its Ord is a total order.
//! Cases (Coq type `case` of PV.C07.Run):
//!   CCmp a b o              Ord::cmp(a,b) as -1/0/1
//!   CCodec d enc res pos    minicbor::to_vec(d), decode of those bytes, bytes consumed
//!   CDecode bs res pos      decode of mutated / hand-written bytes
//!   CIndex tag anyc res     Constr::constr_index(), None = panic
//! Oracle (independent of the model), on the real code only:
//!   * decode(encode(d)) == d (library equality) and consumes all bytes;
//!   * BoundedBytes: <= 64 bytes -> one definite string, else 5f + 64-byte definite chunks + ff
//!     (computed here by hand), also below tag 2 / tag 3;
//!   * cmp(a,a) == Equal; cmp(b,a) == cmp(a,b).reverse(); for triples every ordered permutation
//!     (x,y,z): x<=y & y<=z => x<=z, strict if one side strict; x==y => cmp(x,z)==cmp(y,z);
//!   * (a == b) <=> cmp == Equal, partial_cmp == Some(cmp);
//!   * a value and the same value with other definite/indefinite choices are equal;
//!   * BigInt: cmp == comparison of the denoted integers (i128/big-endian evaluation done here).
#[path = "pdata_common/mod.rs"]
mod pdata_common;
use pallas_codec::minicbor::{self, Decoder};
use pallas_codec::utils::{KeyValuePairs, MaybeIndefArray};
use pallas_primitives::{BigInt, BoundedBytes, Constr};
use pdata_common::*;
use std::cmp::Ordering;
use verif_harness::*;

fn ord_z(o: Ordering) -> i32 { match o { Ordering::Less => -1, Ordering::Equal => 0, Ordering::Greater => 1 } }

// ---------------------------------------------------------------- running the real code
enum Dout { Ok(PD), Eoi, Err, Panic }
fn coq_dout(d: &Dout) -> String {
    match d { Dout::Ok(p) => format!("(ROk {})", coq_pd(p)), Dout::Eoi => "REoi".into(), Dout::Err => "RErr".into(), Dout::Panic => "RPanic".into() }
}
fn run_decode(bytes: &[u8]) -> (Dout, usize) {
    let b = bytes.to_vec();
    match guard_total(move || {
        let mut d = Decoder::new(&b);
        match d.decode::<PD>() {
            Ok(v) => (Dout::Ok(v), d.position()),
            Err(e) => (if e.is_end_of_input() { Dout::Eoi } else { Dout::Err }, 0),
        }
    }) { Out::Ok(x) => x, _ => (Dout::Panic, 0) }
}
fn run_encode(d: &PD) -> Option<Vec<u8>> {
    let d = d.clone();
    match guard_total(move || minicbor::to_vec(&d).ok()) { Out::Ok(x) => x, _ => None }
}
fn run_cmp(a: &PD, b: &PD) -> Option<Ordering> {
    let (a, b) = (a.clone(), b.clone());
    match guard_total(move || a.cmp(&b)) { Out::Ok(o) => Some(o), _ => None }
}

// ---------------------------------------------------------------- oracle helpers (independent)
/// the integer a BigInt denotes when it fits 2^120 (sign, magnitude as u128); None when larger
fn bigint_value(i: &BigInt) -> Option<(bool, u128)> {
    fn be(bs: &[u8]) -> Option<u128> {
        let s: Vec<u8> = bs.iter().copied().skip_while(|b| *b == 0).collect();
        if s.len() > 15 { return None; }
        Some(s.iter().fold(0u128, |a, b| a * 256 + *b as u128))
    }
    match i {
        BigInt::Int(x) => { let v = i128::from(*x); Some((v < 0, v.unsigned_abs())) }
        BigInt::BigUInt(b) => be(b).map(|m| (false, m)),
        BigInt::BigNInt(b) => be(b).map(|m| (m != 0, m)),
    }
}
fn value_cmp(a: (bool, u128), b: (bool, u128)) -> Ordering {
    let sa = if a.1 == 0 { 0i8 } else if a.0 { -1 } else { 1 };
    let sb = if b.1 == 0 { 0i8 } else if b.0 { -1 } else { 1 };
    if sa != sb { return sa.cmp(&sb); }
    if sa < 0 { b.1.cmp(&a.1) } else { a.1.cmp(&b.1) }
}
/// the Haskell-style encoding of a byte string, written by hand
fn expected_bytes_enc(b: &[u8]) -> Vec<u8> {
    fn def(b: &[u8], out: &mut Vec<u8>) {
        let n = b.len();
        if n < 24 { out.push(0x40 | n as u8) } else if n < 256 { out.push(0x58); out.push(n as u8) }
        else { out.push(0x59); out.push((n >> 8) as u8); out.push(n as u8) }
        out.extend_from_slice(b);
    }
    let mut out = vec![];
    if b.len() <= 64 { def(b, &mut out) } else {
        out.push(0x5f);
        let mut i = 0;
        while i < b.len() { let j = (i + 64).min(b.len()); def(&b[i..j], &mut out); i = j; }
        out.push(0xff);
    }
    out
}
fn flip_indef(d: &PD, rng: &mut Rng, all: bool) -> PD {
    let mut f = |rng: &mut Rng, cur: bool| if all || rng.bool() { !cur } else { cur };
    match d {
        PD::Constr(c) => {
            let (i, xs) = mia_parts(&c.fields);
            let ni = f(rng, i);
            let ys: Vec<PD> = xs.iter().map(|x| flip_indef(x, rng, all)).collect();
            PD::Constr(Constr { tag: c.tag, any_constructor: c.any_constructor, fields: if ni { MaybeIndefArray::Indef(ys) } else { MaybeIndefArray::Def(ys) } })
        }
        PD::Map(m) => {
            let (i, kvs) = match m { KeyValuePairs::Def(x) => (false, x), KeyValuePairs::Indef(x) => (true, x) };
            let ni = f(rng, i);
            let ys: Vec<(PD, PD)> = kvs.iter().map(|(k, v)| (flip_indef(k, rng, all), flip_indef(v, rng, all))).collect();
            PD::Map(if ni { KeyValuePairs::Indef(ys) } else { KeyValuePairs::Def(ys) })
        }
        PD::Array(a) => {
            let (i, xs) = mia_parts(a);
            let ni = f(rng, i);
            let ys: Vec<PD> = xs.iter().map(|x| flip_indef(x, rng, all)).collect();
            PD::Array(if ni { MaybeIndefArray::Indef(ys) } else { MaybeIndefArray::Def(ys) })
        }
        other => other.clone(),
    }
}

/// a value close to `d`: equal under another representation, or differing in one place
fn perturb(rng: &mut Rng, d: &PD) -> PD {
    match d {
        PD::BigInt(i) => {
            match bigint_value(i) {
                Some((neg, mag)) if rng.chance(3, 4) => {
                    // same or adjacent number, other representation
                    let (mut s, mut m) = (neg, mag);
                    match rng.below(3) {
                        0 => {}
                        1 => { if s { if m > 0 { m -= 1 } } else { m += 1 } }          // +1
                        _ => { if s { m += 1 } else if m == 0 { s = true; m = 1 } else { m -= 1 } }  // -1
                    }
                    if m == 0 { s = rng.bool(); }
                    PD::BigInt(repr(rng, s, m))
                }
                _ => PD::BigInt(gen_bigint(rng)),
            }
        }
        PD::BoundedBytes(b) => {
            let mut v: Vec<u8> = b.to_vec();
            match rng.below(4) {
                0 => { v.push(rng.byte()) }
                1 => { v.pop(); }
                2 => { if !v.is_empty() { let k = rng.below(v.len() as u64) as usize; v[k] = v[k].wrapping_add(1) } }
                _ => {}
            }
            PD::BoundedBytes(BoundedBytes::from(v))
        }
        PD::Array(a) => {
            let (i, xs) = mia_parts(a);
            let ys = perturb_vec(rng, xs);
            PD::Array(if rng.bool() != i { MaybeIndefArray::Indef(ys) } else { MaybeIndefArray::Def(ys) })
        }
        PD::Map(m) => {
            let (i, kvs) = match m { KeyValuePairs::Def(x) => (false, x), KeyValuePairs::Indef(x) => (true, x) };
            let mut ys = kvs.clone();
            match rng.below(4) {
                0 => { ys.pop(); }
                1 => { ys.push((gen_pd(rng, 0), gen_pd(rng, 0))) }
                _ => { if !ys.is_empty() { let k = rng.below(ys.len() as u64) as usize;
                        if rng.bool() { ys[k].0 = perturb(rng, &ys[k].0) } else { ys[k].1 = perturb(rng, &ys[k].1) } } }
            }
            PD::Map(if rng.bool() != i { KeyValuePairs::Indef(ys) } else { KeyValuePairs::Def(ys) })
        }
        PD::Constr(c) => {
            let (i, xs) = mia_parts(&c.fields);
            let ys = if rng.bool() { xs.clone() } else { perturb_vec(rng, xs) };
            // same or neighbouring constructor index under another tag form
            let ix = c.constr_index();
            let nix = match rng.below(4) { 0 => ix.saturating_add(1), 1 => ix.saturating_sub(1), _ => ix };
            let (tag, any_constructor) = if rng.bool() || nix > 127 { (102, Some(nix)) }
                else if nix < 7 { (121 + nix, None) } else { (1280 + nix - 7, None) };
            PD::Constr(Constr { tag, any_constructor, fields: if rng.bool() != i { MaybeIndefArray::Indef(ys) } else { MaybeIndefArray::Def(ys) } })
        }
    }
}
fn perturb_vec(rng: &mut Rng, xs: &Vec<PD>) -> Vec<PD> {
    let mut ys = xs.clone();
    match rng.below(5) {
        0 => { ys.pop(); }
        1 => { ys.push(gen_pd(rng, 0)) }
        2 => {}
        _ => { if !ys.is_empty() { let k = rng.below(ys.len() as u64) as usize; ys[k] = perturb(rng, &ys[k]) } }
    }
    ys
}

fn mutate(rng: &mut Rng, b: &[u8]) -> Vec<u8> {
    let mut v = b.to_vec();
    let specials = [0xffu8, 0x1f, 0x5f, 0x7f, 0x9f, 0xbf, 0x1c, 0x3b, 0x38, 0x39, 0xf8, 0xdf, 0xc2, 0xc3, 0xc4,
        0xd8, 0xd9, 0x66, 0x79, 0x7f, 0x80, 0x40, 0x58, 0x00, 0x18, 0x1b, 0xa0, 0xf6, 0xd8];
    match rng.below(7) {
        0 => { if !v.is_empty() { let k = rng.below(v.len() as u64) as usize; v.truncate(k) } }
        1 => { if !v.is_empty() { let k = rng.below(v.len() as u64) as usize; v[k] ^= 1 << rng.below(8) } }
        2 => { if !v.is_empty() { let k = rng.below(v.len() as u64) as usize; v[k] = *rng.pick(&specials) } }
        3 => { let k = rng.below(v.len() as u64 + 1) as usize; v.insert(k, *rng.pick(&specials)) }
        4 => { if !v.is_empty() { let k = rng.below(v.len() as u64) as usize; v.remove(k); } }
        5 => { let k = rng.below(v.len() as u64 + 1) as usize; v.insert(k, rng.byte()) }
        _ => { v.push(rng.byte()) }
    }
    v
}

// ---------------------------------------------------------------- checks
struct Ctx { oracle_only: bool, n_cmp: u64, n_codec: u64 }

fn check_cmp(cx: &mut Ctx, tag: &str, a: &PD, b: &PD) -> Option<Ordering> {
    let o = run_cmp(a, b);
    cx.n_cmp += 1;
    match o {
        None => { emit_oracle_fail("cmp-panic", &format!("a={} b={}", coq_pd(a), coq_pd(b))); None }
        Some(o) => {
            let rev = run_cmp(b, a);
            if rev != Some(o.reverse()) {
                emit_oracle_fail("antisymmetry", &format!("a={} b={} cmp(a,b)={:?} cmp(b,a)={:?}", coq_pd(a), coq_pd(b), o, rev));
            }
            if (a == b) != (o == Ordering::Equal) || a.partial_cmp(b) != Some(o) {
                emit_oracle_fail("eq-vs-cmp", &format!("a={} b={} cmp={:?} eq={}", coq_pd(a), coq_pd(b), o, a == b));
            }
            if let (PD::BigInt(x), PD::BigInt(y)) = (a, b) {
                if let (Some(vx), Some(vy)) = (bigint_value(x), bigint_value(y)) {
                    if value_cmp(vx, vy) != o {
                        emit_oracle_fail("bigint-numeric", &format!("a={} b={} cmp={:?} numeric={:?}", coq_pd(a), coq_pd(b), o, value_cmp(vx, vy)));
                    }
                }
            }
            if !cx.oracle_only { emit_case(tag, &format!("(CCmp {} {} {})", coq_pd(a), coq_pd(b), coq_z(ord_z(o)))); }
            Some(o)
        }
    }
}

fn check_refl(a: &PD) {
    if run_cmp(a, a) != Some(Ordering::Equal) {
        emit_oracle_fail("reflexivity", &format!("a={} cmp(a,a)={:?}", coq_pd(a), run_cmp(a, a)));
    }
}

fn check_triple(cx: &mut Ctx, tag: &str, t: [&PD; 3]) { check_triple_opt(cx, tag, t, true) }
fn check_triple_opt(cx: &mut Ctx, tag: &str, t: [&PD; 3], emit: bool) {
    let mut o = [[Ordering::Equal; 3]; 3];
    for i in 0..3 { for j in 0..3 {
        match run_cmp(t[i], t[j]) { Some(x) => o[i][j] = x, None => { emit_oracle_fail("cmp-panic", &format!("a={} b={}", coq_pd(t[i]), coq_pd(t[j]))); return; } }
    } }
    for x in 0..3 { for y in 0..3 { for z in 0..3 {
        if x == y || y == z || x == z { continue; }
        let (xy, yz, xz) = (o[x][y], o[y][z], o[x][z]);
        let mut bad = false;
        if xy != Ordering::Greater && yz != Ordering::Greater {
            if xz == Ordering::Greater { bad = true; }
            if (xy == Ordering::Less || yz == Ordering::Less) && xz != Ordering::Less { bad = true; }
        }
        if xy == Ordering::Equal && xz != yz { bad = true; }
        if bad {
            emit_oracle_fail("transitivity", &format!("x={} y={} z={} cmp(x,y)={:?} cmp(y,z)={:?} cmp(x,z)={:?}",
                coq_pd(t[x]), coq_pd(t[y]), coq_pd(t[z]), xy, yz, xz));
        }
    } } }
    if emit {
        check_cmp(cx, tag, t[0], t[1]);
        check_cmp(cx, tag, t[1], t[2]);
        check_cmp(cx, tag, t[0], t[2]);
    } else { cx.n_cmp += 9; }
    for a in t { check_refl(a); }
}

fn check_codec(cx: &mut Ctx, tag: &str, d: &PD) {
    cx.n_codec += 1;
    let enc = match run_encode(d) {
        Some(e) => e,
        None => { emit_oracle_fail("encode-fails", &format!("d={}", coq_pd(d))); return; }
    };
    let (res, pos) = run_decode(&enc);
    match &res {
        Dout::Ok(back) => {
            if run_cmp(back, d) != Some(Ordering::Equal) || !(back == d) || pos != enc.len() {
                emit_oracle_fail("roundtrip", &format!("d={} enc={} decoded={} consumed={}", coq_pd(d), hex(&enc), coq_pd(back), pos));
            }
        }
        _ => emit_oracle_fail("roundtrip", &format!("d={} enc={} decode={}", coq_pd(d), hex(&enc), coq_dout(&res))),
    }
    // chunking, checked by hand for byte strings and big integers at the top level
    let expect = match d {
        PD::BoundedBytes(b) => Some(expected_bytes_enc(b)),
        PD::BigInt(BigInt::BigUInt(b)) => { let mut v = vec![0xc2]; v.extend(expected_bytes_enc(b)); Some(v) }
        PD::BigInt(BigInt::BigNInt(b)) => { let mut v = vec![0xc3]; v.extend(expected_bytes_enc(b)); Some(v) }
        _ => None,
    };
    if let Some(x) = expect {
        if x != enc { emit_oracle_fail("chunking", &format!("d={} enc={} expected={}", coq_pd(d), hex(&enc), hex(&x))); }
    }
    if !cx.oracle_only {
        emit_case(tag, &format!("(CCodec {} {} {} {})", coq_pd(d), coq_bytes(&enc), coq_dout(&res), pos));
    }
}

fn check_decode(cx: &mut Ctx, tag: &str, bs: &[u8]) {
    let (res, pos) = run_decode(bs);
    if let Dout::Panic = res { /* recorded as data; C09 owns the no-panic property */ }
    if let Dout::Ok(v) = &res {
        // whatever decodes must re-encode and decode to an equal value
        if let Some(e2) = run_encode(v) {
            if let (Dout::Ok(v2), _) = run_decode(&e2) {
                if !(v2 == *v) { emit_oracle_fail("roundtrip", &format!("bytes={} decoded={} reencoded={} again={}", hex(bs), coq_pd(v), hex(&e2), coq_pd(&v2))); }
            } else { emit_oracle_fail("roundtrip", &format!("bytes={} decoded={} reencoded={} does not decode", hex(bs), coq_pd(v), hex(&e2))); }
        }
    }
    if !cx.oracle_only { emit_case(tag, &format!("(CDecode {} {} {})", coq_bytes(bs), coq_dout(&res), pos)); }
}

fn check_index(cx: &mut Ctx, tag: u64, anyc: Option<u64>) {
    let c: Constr<PD> = Constr { tag, any_constructor: anyc, fields: MaybeIndefArray::Def(vec![]) };
    let r = match guard_total(move || c.constr_index()) { Out::Ok(v) => Some(v), _ => None };
    if !cx.oracle_only {
        emit_case("constr-index", &format!("(CIndex {} {} {})", tag, coq_opt(&anyc, |v| v.to_string()), coq_opt(&r, |v| v.to_string())));
    }
}

fn unhex(s: &str) -> Vec<u8> { hex::decode(s).unwrap() }

fn main() {
    let args = args();
    let mut rng = Rng::new(args.seed);
    let mut cx = Ctx { oracle_only: args.oracle_only, n_cmp: 0, n_codec: 0 };
    let bytes_pd = |v: Vec<u8>| PD::BoundedBytes(BoundedBytes::from(v));
    let int_pd = |v: i128| PD::BigInt(BigInt::Int(int_of(v)));
    let bu = |v: &[u8]| PD::BigInt(BigInt::BigUInt(BoundedBytes::from(v.to_vec())));
    let bn = |v: &[u8]| PD::BigInt(BigInt::BigNInt(BoundedBytes::from(v.to_vec())));

    // ---- fixed boundary cases: chunk boundaries for byte strings and bignums
    for len in [0usize, 1, 23, 24, 63, 64, 65, 127, 128, 129, 191, 192, 193, 200, 255, 256, 257, 320] {
        let b = rng.bytes(len);
        check_codec(&mut cx, "bytes-boundary", &bytes_pd(b.clone()));
        check_codec(&mut cx, "bignum-boundary", &PD::BigInt(BigInt::BigUInt(BoundedBytes::from(b.clone()))));
        check_codec(&mut cx, "bignum-boundary", &PD::BigInt(BigInt::BigNInt(BoundedBytes::from(b.clone()))));
        let inner = PD::Array(MaybeIndefArray::Indef(vec![bytes_pd(b.clone()), bytes_pd(b)]));
        check_codec(&mut cx, "bytes-boundary", &inner);
    }
    for v in [0i128, 1, -1, 23, 24, -24, -25, 255, 256, 65535, 65536, (1 << 32) - 1, 1 << 32, i64::MAX as i128, i64::MIN as i128,
              (i64::MAX as i128) + 1, (i64::MIN as i128) - 1, u64::MAX as i128, -(1i128 << 64)] {
        check_codec(&mut cx, "int-boundary", &int_pd(v));
    }
    // ---- fixed comparison cases: -0/+0, leading zeros, Int vs BigUInt vs BigNInt
    let zeros = [int_pd(0), bu(&[]), bn(&[]), bu(&[0]), bn(&[0, 0])];
    for a in &zeros { for b in &zeros { check_cmp(&mut cx, "zero-forms", a, b); } }
    let ones = [int_pd(1), bu(&[1]), bu(&[0, 0, 1]), int_pd(-1), bn(&[1]), bn(&[0, 1]), int_pd(256), bu(&[1, 0]), bn(&[1, 0]), int_pd(-256),
                int_pd(u64::MAX as i128), bu(&[255; 8]), bu(&[1, 0, 0, 0, 0, 0, 0, 0, 0]), int_pd(-(1i128 << 64)), bn(&[1, 0, 0, 0, 0, 0, 0, 0, 0]), bn(&[255; 8])];
    for a in &ones { for b in &ones { check_cmp(&mut cx, "small-forms", a, b); } }
    for a in &ones { for b in &zeros { for c in &ones { check_triple_opt(&mut cx, "small-forms", [a, b, c], false); } } }
    // ---- one empty and one non-empty representative of every variant: all ordered triples
    //      (a cycle in the variant order breaks transitivity only), bare and nested in a list
    let reps: Vec<PD> = vec![
        PD::Constr(Constr { tag: 121, any_constructor: None, fields: MaybeIndefArray::Def(vec![]) }),
        PD::Constr(Constr { tag: 102, any_constructor: Some(200), fields: MaybeIndefArray::Indef(vec![bytes_pd(vec![1])]) }),
        PD::Map(KeyValuePairs::Def(vec![])), PD::Map(KeyValuePairs::Indef(vec![(int_pd(1), bytes_pd(vec![]))])),
        PD::Array(MaybeIndefArray::Def(vec![])), PD::Array(MaybeIndefArray::Indef(vec![bytes_pd(vec![9]), int_pd(-1)])),
        int_pd(0), bn(&[7, 7]), bytes_pd(vec![]), bytes_pd(vec![0, 255]),
    ];
    for (i, a) in reps.iter().enumerate() { for (j, b) in reps.iter().enumerate() { for (k, c) in reps.iter().enumerate() {
        if i < j && j < k {
            check_triple_opt(&mut cx, "variant-triple", [a, b, c], (i + j + k) % 7 == 0);
            let (wa, wb, wc) = (PD::Array(MaybeIndefArray::Def(vec![a.clone()])), PD::Array(MaybeIndefArray::Indef(vec![b.clone()])), PD::Array(MaybeIndefArray::Def(vec![c.clone(), a.clone()])));
            check_triple_opt(&mut cx, "variant-triple", [&wa, &wb, &wc], false);
        }
    } } }
    // ---- constr_index on every interesting tag
    for tag in [0u64, 101, 102, 103, 120, 121, 127, 128, 1279, 1280, 1400, 1401, u64::MAX] {
        check_index(&mut cx, tag, None);
        check_index(&mut cx, tag, Some(0));
        check_index(&mut cx, tag, Some(u64::MAX));
    }
    // ---- the compact tags and the general form 102 name the same constructors (Plutus: 121+i = i for
    //      i in 0..6, 1280+j = 7+j for j in 0..120): equal as values, ordered by constructor number
    for ix in (0u64..=127).chain([128u64, 1000]) {
        let general = PD::Constr(Constr { tag: 102, any_constructor: Some(ix), fields: MaybeIndefArray::Def(vec![]) });
        if ix <= 127 {
            let tag = if ix < 7 { 121 + ix } else { 1280 + ix - 7 };
            let compact = PD::Constr(Constr { tag, any_constructor: None, fields: MaybeIndefArray::Indef(vec![]) });
            if run_cmp(&compact, &general) != Some(Ordering::Equal) {
                emit_oracle_fail("constr-forms", &format!("tag {} and 102/{} differ: {:?}", tag, ix, run_cmp(&compact, &general)));
            }
            check_cmp(&mut cx, "constr-forms", &compact, &general);
            check_codec(&mut cx, "constr-forms", &compact);
        }
        let next = PD::Constr(Constr { tag: 102, any_constructor: Some(ix + 1), fields: MaybeIndefArray::Def(vec![]) });
        let prev_tag = if ix < 7 { 121 + ix } else if ix <= 127 { 1280 + ix - 7 } else { 1400 };
        let below = PD::Constr(Constr { tag: prev_tag, any_constructor: None, fields: MaybeIndefArray::Def(vec![int_pd(5)]) });
        if run_cmp(&below, &next) != Some(Ordering::Less) {
            emit_oracle_fail("constr-forms", &format!("tag {} should be below 102/{}: {:?}", prev_tag, ix + 1, run_cmp(&below, &next)));
        }
        check_codec(&mut cx, "constr-forms", &general);
    }
    // ---- hand-written decoder inputs
    for h in ["d8669f0080", "d8669f0080ff", "d866820080", "d86682009fff", "d8668100", "d866a0", "d86600", "d87980", "d8799fff", "d879a0",
              "d87a9f01ff", "d90500" , "d9050080", "d9057880", "d9057980", "d904ff80", "d87880", "d88080", "c240", "c24101", "c25f4101ff", "c25f5f4101ffff",
              "c201", "c2", "c35f", "c35fff", "c44101", "c0", "5f", "5fff", "5f41", "5f4101", "5f4101ff", "5f01ff", "5f6101ff", "5f5f41ffff",
              "40", "41", "5800", "58", "5a00000001", "5b0000000000000001ff", "7f", "6161", "f6", "f4", "fb0000000000000000", "ff", "",
              "80", "9f", "9fff", "9f01", "8101", "8201", "a0", "bf", "bfff", "bf01ff", "bf0102ff", "a101", "a10102", "a2010203",
              "1b ffffffffffffffff", "3b ffffffffffffffff", "3b", "38", "3801", "1c", "1f", "3f", "18", "19", "1900", "db0000000000000079 80",
              "d8 79 82 01 02", "d9 0080 80", "da 00000079 80", "c2 58 01 ff", "98 01 00", "b8 01 00 00", "9b 0000000000000001 00"] {
        let b = unhex(&h.replace(' ', ""));
        check_decode(&mut cx, "hand-bytes", &b);
    }

    // ---- generated stream
    for i in 0..args.n {
        let depth = 1 + rng.below(4) as u32;
        let a = gen_pd(&mut rng, depth);
        if i < 3 { emit_sample(&coq_pd(&a)); }
        match rng.below(10) {
            0 | 1 | 2 => {
                // triple: a, a neighbour of a, a neighbour of that (or an unrelated value)
                let b = perturb(&mut rng, &a);
                let c = if rng.chance(2, 3) { perturb(&mut rng, &b) } else { let dd = 1 + rng.below(3) as u32; gen_pd(&mut rng, dd) };
                check_triple(&mut cx, "triple", [&a, &b, &c]);
            }
            3 => {
                // bigint triples: equal and adjacent numbers in mixed representations
                let m = gen_mag(&mut rng); let neg = rng.bool();
                let x = PD::BigInt(repr(&mut rng, neg, m));
                let y = perturb(&mut rng, &x);
                let z = perturb(&mut rng, &y);
                check_triple(&mut cx, "bigint-triple", [&x, &y, &z]);
            }
            4 => {
                let all = rng.bool(); let b = flip_indef(&a, &mut rng, all);
                if let Some(o) = check_cmp(&mut cx, "indef-flipped", &a, &b) {
                    if o != Ordering::Equal { emit_oracle_fail("eq-ignores-indef", &format!("a={} b={} cmp={:?}", coq_pd(&a), coq_pd(&b), o)); }
                }
            }
            5 => {
                let dd = 1 + rng.below(4) as u32;
                let b = gen_pd(&mut rng, dd);
                if rng.bool() {
                    check_cmp(&mut cx, "pair-random", &a, &b);
                    check_refl(&a);
                } else {
                    // three unrelated values (usually three different variants), sharing a prefix in a list
                    let c = gen_pd(&mut rng, 1);
                    let p = gen_pd(&mut rng, 0);
                    let wrap = |x: &PD| PD::Array(MaybeIndefArray::Def(vec![p.clone(), x.clone()]));
                    check_triple(&mut cx, "triple-unrelated", [&a, &b, &c]);
                    check_triple_opt(&mut cx, "triple-unrelated", [&wrap(&a), &wrap(&b), &wrap(&c)], false);
                }
            }
            6 | 7 => { check_codec(&mut cx, "codec", &a); }
            _ => {
                if let Some(e) = run_encode(&a) {
                    let mut m = mutate(&mut rng, &e);
                    if rng.chance(1, 4) { m = mutate(&mut rng, &m); }
                    check_decode(&mut cx, "mutated-bytes", &m);
                }
            }
        }
    }
    emit_stat("cmp_calls", cx.n_cmp);
    emit_stat("codec_roundtrips", cx.n_codec);
}
