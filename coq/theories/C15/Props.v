(* C15 — property theorems only. Statements are pinned by vp/check.py.
   The Gallina functions ref_exp / ref_ln / ref_pow of Fixed/Model.v ARE the
   reference algorithm (Taylor exp with scaling, continued-fraction ln with
   e-bracketing, pow via exp(y ln x)) at 34 digits; "digit-for-digit" is the
   differential tie of Run.v.  Proved here: the arithmetic the reference is
   built from is what the property says (scale = floor, div = truncation), the
   structure of exp (exp 0 = 1, reciprocal for negative arguments, scaling into
   [0,1], the series stops by itself long before the cap of 1000 terms,
   positivity and range), the domain of ln and the special cases of pow. *)
From Coq Require Import QArith Reals.
From PV Require Import Lib.Base Fixed.Model Fixed.Proofs C15.Proofs C15.ErrorBound C15.LnPow C15.ExpReal C15.Run C15.RunFacts.
Open Scope Z_scope.

Theorem scale_is_floor : forall a, scale a = a / PREC /\ scale a * PREC <= a < (scale a + 1) * PREC.
Proof. intros a. split; [apply scale_floor | apply scale_spec]. Qed.

Theorem div_is_trunc : forall x y, y <> 0 ->
  fp_div x y = Z.quot (x * PREC) y /\
  Z.abs (fp_div x y) * Z.abs y <= Z.abs x * PREC < (Z.abs (fp_div x y) + 1) * Z.abs y.
Proof. intros x y Hy. split; [apply fp_div_quot; exact Hy | apply fp_div_spec; exact Hy]. Qed.

Theorem ipow_basic : forall x, ipow x 0 = ONE /\ ipow x 1 = x /\
  (forall n, 0 <= n -> ONE <= x -> ONE <= ipow x n).
Proof. intros x. split; [apply ipow_zero|]. split; [apply ipow_one|]. intros n Hn Hx. apply ipow_ge_ONE; assumption. Qed.

(* the Taylor loop on an argument in [0,1]: at most 24 terms, the cap (1000, or any cap >= 25) is never reached *)
Theorem exp_taylor_terminates : forall x max_n, 0 <= x <= ONE -> 25 <= max_n ->
  ONE <= fst (mp_exp_taylor max_n x EPS) /\ 0 <= snd (mp_exp_taylor max_n x EPS) <= 24 /\
  mp_exp_taylor max_n x EPS = mp_exp_taylor 1000 x EPS.
Proof. exact mp_exp_taylor_spec. Qed.

(* ceil-scaling brings every positive argument into [0,1] *)
Theorem exp_scaling : forall x, 0 < x ->
  1 <= div_round_ceil x PREC /\ 0 <= Z.quot x (div_round_ceil x PREC) <= ONE.
Proof. exact div_round_ceil_scaling. Qed.

Theorem exp_zero : ref_exp 0 = ONE /\ ref_exp_iterations 0 = 0.
Proof. exact exp_zero_proof. Qed.

Theorem exp_neg_recip : forall x, 0 < x ->
  ref_exp (- x) = fp_div ONE (ref_exp x) /\ ref_exp_iterations (- x) = ref_exp_iterations x /\
  0 <= ref_exp (- x) <= ONE.
Proof. exact exp_neg_proof. Qed.

Theorem exp_range : forall x,
  0 <= ref_exp x /\ (0 <= x -> ONE <= ref_exp x) /\ (x <= 0 -> ref_exp x <= ONE) /\
  0 <= ref_exp_iterations x <= 24.
Proof. exact exp_range_proof. Qed.

(* Error-bound component (exact rational arithmetic, no Reals): on [0,1] the value returned by the
   Taylor loop lies at most 3n units (n <= 24 terms: < 7.2e-33) below the exact rational partial sum
   qsum x n = 10^34 * sum_{k<=n} (x/10^34)^k / k!, never above it, and the first omitted exact term
   is below EPS + 3 units (1e-24).
   FULL STATEMENT NOT PROVED (exp_error, kept as a comment):
     forall x, |ref_exp x - e^(x/10^34) * 10^34| <= ceil|x/10^34| * 3e-24 * e^(x/10^34) * 10^34 + 3
   missing: the analytic tail e^x - S_n(x) <= 2 * x^(n+1)/(n+1)! (needs Reals/Coquelicot) and the
   propagation of the relative error through ipow and the final division; the harness oracle checks
   exactly this bound against an independent 90-digit computation on every run. *)
Theorem exp_taylor_partial_sum_partial : forall x, 0 <= x <= ONE ->
  exists n, snd (mp_exp_taylor 1000 x EPS) = Z.of_nat n /\ (n <= 24)%nat /\
    (inject_Z (fst (mp_exp_taylor 1000 x EPS)) <= qsum x n /\
     qsum x n <= inject_Z (fst (mp_exp_taylor 1000 x EPS)) + 3 * inject_Z (Z.of_nat n))%Q /\
    (qterm x (S n) < inject_Z EPS + 3)%Q.
Proof. exact exp_taylor_partial_sum_proof. Qed.

Theorem ln_domain : forall x, ref_ln x = None <-> x <= 0.
Proof. exact ln_domain_proof. Qed.

Theorem pow_special : forall base e,
  ref_pow base 0 = Ok ONE /\ ref_pow ONE e = Ok ONE /\
  (base <> ONE -> ref_pow base ONE = Ok base) /\
  (0 < e -> e <> ONE -> ref_pow 0 e = Ok 0) /\
  (ref_pow base e = Panic 1 <-> base = 0 /\ e < 0).
Proof. exact pow_special_proof. Qed.

(* ---------------- exp: analytic bound on (0,1] (Reals; Taylor-Lagrange via Coquelicot) ----------------
   the reference never exceeds the real exponential and is at most 3.1e-24 below it *)
Theorem exp_error_unit_interval : forall x, 0 < x <= ONE ->
  (IZR (ref_exp x) / IZR PREC <= exp (IZR x / IZR PREC) /\
   exp (IZR x / IZR PREC) - IZR (ref_exp x) / IZR PREC <= 31 / 10 * / 10 ^ 24)%R.
Proof. intros x Hx. exact (exp_error_unit_proof x Hx). Qed.

Theorem exp_at_integers : forall n, ref_exp (n * PREC) = ipow E n.
Proof. exact ref_exp_int. Qed.

(* ---------------- ln ---------------- *)
(* every convergent is a quotient by a denominator >= 1 (no division by zero anywhere in the
   loop) and the result is non-negative, for every non-negative argument and every cap *)
Theorem ln_cf_step_quotient : forall x eps s,
  ln_conv (fst (ln_step x eps s)) = fp_div (ln_num x s) (ln_den x s).
Proof. exact ln_step_conv. Qed.
Theorem ln_cf_well_defined : forall max_n x eps, 0 <= x ->
  ln_inv (mp_ln_n_state max_n x eps) /\ 0 <= mp_ln_n max_n x eps /\
  (forall s, ln_inv s -> ONE <= ln_den x s).
Proof. exact mp_ln_n_wf_proof. Qed.
Theorem ln_cf_invariant : ln_inv ln_init /\
  (forall x eps s, 0 <= x -> ln_inv s -> ln_inv (fst (ln_step x eps s))).
Proof. split; [exact ln_init_inv | exact ln_step_inv]. Qed.

(* find_e: e^n <= x <= e^(n+1) in the fixed-point sense for every x >= 1/e (so for every x >= 1),
   strict on the right unless n + 1 is the power of two where the doubling loop stopped *)
Theorem find_e_bracket : forall x, fp_div ONE E <= x -> x <= hi 63 ->
  exists j, (j <= 63)%nat /\ - 2 ^ Z.of_nat j <= find_e x < 2 ^ Z.of_nat j /\
    ipow E (find_e x) <= x /\ x <= ipow E (find_e x + 1) /\
    (find_e x + 1 < 2 ^ Z.of_nat j -> x < ipow E (find_e x + 1)).
Proof. exact find_e_bracket_proof. Qed.
(* ... and below 1/e the lower half can fail by one unit (a quirk of the reference itself:
   the doubling loop squares 1/e, the bisection divides by the square of e) *)
Theorem find_e_lower_refuted : exists x, 0 < x < fp_div ONE E /\ ~ (ipow E (find_e x) <= x).
Proof. exact find_e_lower_refuted_proof. Qed.

Theorem ln_one : ref_ln ONE = Some 0.
Proof. exact ln_one_proof. Qed.
Theorem ln_decomposition : forall x, 0 < x ->
  ref_ln x = Some (find_e x * PREC + mp_ln_n 1000 (fp_div x (ipow E (find_e x)) - ONE) EPS).
Proof. exact ref_ln_decomp. Qed.
Theorem ln_ge_one : forall x, ONE <= x -> x <= hi 63 ->
  exists v, ref_ln x = Some v /\ 0 <= find_e x /\ find_e x * PREC <= v.
Proof. exact ln_ge_one_proof. Qed.
(* the sign rule "ln x <= 0 for x < 1" does NOT hold for the reference: ln(1 - 1e-34) = +1.16e-25 *)
Theorem ln_below_one_positive : exists x v, 0 < x < ONE /\ ref_ln x = Some v /\ 0 < v.
Proof. exact ln_below_one_positive_proof. Qed.
(* the runner's ref_ln_it (value, iterations) is ref_ln; termination of the continued fraction
   before its cap is NOT proved: it is checked on every CLn case (iterations <= 1002) *)
Theorem run_ln_is_ref_ln : forall x, ref_ln x = option_map fst (ref_ln_it x).
Proof. exact ref_ln_it_fst. Qed.

(* ---------------- pow ---------------- *)
Theorem pow_one : forall base, ref_pow base ONE = Ok base.
Proof. exact pow_one_proof. Qed.
Theorem pow_decomposition : forall base e, e <> 0 -> e <> ONE -> base <> ONE -> base <> 0 ->
  exists l, ref_ln (Z.abs base) = Some l /\
    ref_pow base e =
      Ok (if (base <? 0) && negb (Z.rem (Z.quot e PREC) 2 =? 0)
          then - ref_exp (scale (l * e)) else ref_exp (scale (l * e))).
Proof. exact pow_decomp_proof. Qed.
Theorem pow_outcome : forall base e,
  (base = 0 /\ e < 0 -> ref_pow base e = Panic 1) /\
  (~ (base = 0 /\ e < 0) -> exists v, ref_pow base e = Ok v).
Proof. exact pow_outcome_proof. Qed.

(* non-vacuity / anchor values: exp(1) is the value pinned by the crate's own test *)
Example c15_examples :
  ref_exp ONE = 27182818284590452353602874043083282 /\ E = ref_exp ONE /\
  ref_exp_iterations ONE = 24 /\
  ref_ln (2 * ONE) = Some 6931471805599453094172321818152860 /\
  ref_ln E = Some 10000000000000000000000001160449920 (* not exactly 1: find_e brackets e into [1, e] *) /\
  ref_pow (-2 * ONE) (3 * ONE) = Ok (-79999999999999999999999979824238600) /\
  ref_exp (- ONE) = 3678794411714423215955237792349248.
Proof. vm_compute. repeat split; reflexivity. Qed.
