(* C05: the hand-written Constr tag-102 decoder consumes exactly one CBOR item (after the
   repair); before the repair it did not (witness). This is the "typed decoder = one item"
   premise of the KeepRaw theorems, for the decoder in which the defect sat. *)
From PV Require Import Lib.Base Cbor.Item Cbor.Enc Cbor.Dec Cbor.HeadLaws Cbor.Laws Cbor.Api C05.Model.
Open Scope Z_scope.

Lemma enc_constr_def wt wa wc c f :
  encode_item (Tag wt 102 (Array wa [UInt wc c; f])) =
  enc_head MajTag wt 102 ++ enc_head MajArray wa 2 ++ enc_head MajUInt wc c ++ encode_item f.
Proof. cbn [encode_item map concat]. rewrite app_nil_r. reflexivity. Qed.

Lemma enc_constr_indef wt wc c f :
  encode_item (Tag wt 102 (ArrayIndef [UInt wc c; f])) =
  enc_head MajTag wt 102 ++ enc_indef MajArray ++ enc_head MajUInt wc c ++ encode_item f ++ [break_byte].
Proof. cbn [encode_item map concat]. rewrite app_nil_r, <- !app_assoc. reflexivity. Qed.

Theorem constr102_consumes_item_proof bs v r :
  dec_constr102 bs = DOk (v, r) ->
  exists i, decode bs = DOk (i, r) /\ wf_item i = true /\ bs = encode_item i ++ r.
Proof.
  unfold dec_constr102. intros Hd.
  apply dbind_ok in Hd as ([t r0] & Ht & Hd). cbv beta iota in Hd.
  destruct (t =? 102) eqn:Et; [|discriminate]. apply Z.eqb_eq in Et. subst t.
  apply dbind_ok in Hd as ([l r1] & Hl & Hd). cbv beta iota in Hd.
  apply d_tag_sound in Ht as (wt & -> & Hft).
  unfold d_array in Hl. apply d_len_sound in Hl.
  destruct l as [n|].
  - destruct (n =? 2) eqn:En; [|discriminate]. apply Z.eqb_eq in En. subst n.
    destruct Hl as (wa & -> & Hfa).
    apply dbind_ok in Hd as ([c r2] & Hc & Hd). cbv beta iota in Hd.
    apply dbind_ok in Hd as ([f r3] & Hf & Hd). cbv beta iota in Hd. inversion Hd; subst; clear Hd.
    unfold d_u64 in Hc. apply d_uint_sound in Hc as (wc & -> & Hfc & _).
    apply decode_sound in Hf as [-> Hwf].
    set (i := Tag wt 102 (Array wa [UInt wc c; f])).
    assert (Hwi : wf_item i = true).
    { unfold i. cbn [wf_item forallb]. rewrite !andb_true_iff.
      repeat split; try (apply arg_fitsb_spec; assumption); try exact Hwf. }
    assert (Hb : enc_head MajTag wt 102 ++ enc_head MajArray wa 2 ++ enc_head MajUInt wc c ++ encode_item f ++ r
                 = encode_item i ++ r).
    { unfold i. rewrite enc_constr_def, <- !app_assoc. reflexivity. }
    exists i. rewrite Hb. split; [apply decode_complete, Hwi|]. split; [exact Hwi|reflexivity].
  - subst r0.
    apply dbind_ok in Hd as ([c r2] & Hc & Hd). cbv beta iota in Hd.
    apply dbind_ok in Hd as ([f r3] & Hf & Hd). cbv beta iota in Hd.
    destruct r3 as [|b r4]; [discriminate|].
    destruct (b =? break_byte) eqn:Eb; [|discriminate]. apply Z.eqb_eq in Eb. subst b.
    inversion Hd; subst; clear Hd.
    unfold d_u64 in Hc. apply d_uint_sound in Hc as (wc & -> & Hfc & _).
    apply decode_sound in Hf as [-> Hwf].
    set (i := Tag wt 102 (ArrayIndef [UInt wc c; f])).
    assert (Hwi : wf_item i = true).
    { unfold i. cbn [wf_item forallb]. rewrite !andb_true_iff.
      repeat split; try (apply arg_fitsb_spec; assumption); try exact Hwf. }
    assert (Hb : enc_head MajTag wt 102 ++ enc_indef MajArray ++ enc_head MajUInt wc c ++ encode_item f ++ break_byte :: r
                 = encode_item i ++ r).
    { unfold i. rewrite enc_constr_indef, <- !app_assoc. reflexivity. }
    exists i. rewrite Hb. split; [apply decode_complete, Hwi|]. split; [exact Hwi|reflexivity].
Qed.

(* the unrepaired branch accepts [d8 66 9f 00 80 ff] and stops in front of the break:
   what it consumed is not an item, so a KeepRaw around it captured truncated bytes *)
Theorem constr102_old_refuted_proof :
  exists bs v r, dec_constr102_old bs = DOk (v, r) /\ r <> [] /\ decode bs = DOk (Tag W8 102 (ArrayIndef [UInt W0 0; Array W0 []]), []).
Proof.
  exists [216; 102; 159; 0; 128; 255], (0, Array W0 []), [255].
  split; [vm_compute; reflexivity|]. split; [discriminate|vm_compute; reflexivity].
Qed.
