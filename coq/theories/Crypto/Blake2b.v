(* RFC 7693 BLAKE2b (unkeyed), executable on Z words.  Definitions only.

   - words are Z in [0, 2^64); every addition is reduced mod 2^64 explicitly
     ([add64]; the reduction is [Z.land _ (2^64-1)], i.e. [_ mod 2^64]);
   - [F] is the compression function of RFC 7693 section 3.2 on a 128-byte block;
   - [blake2b n msg] is the one-shot function of section 3.3 (kk = 0);
   - [bstate]/[binit]/[absorb]/[blake2b_fin] is the streaming interface as
     implemented by cryptoxide 0.4.4 `hashing::blake2b::ContextDyn`
     ({eng.h, eng.t, buf[..buflen]}; update_mut; internal_final), which is
     what pallas_crypto::hash::Hasher wraps.
   The compression function is specification level: cryptoxide's engine is
   tied to it only by the differential run. *)
From PV Require Import Lib.Base.
Open Scope Z_scope.

Definition mask64 : Z := 18446744073709551615.          (* 2^64 - 1 *)
Definition add64 (a b : Z) : Z := Z.land (a + b) mask64.  (* (a + b) mod 2^64 *)
Definition rotr64 (x : Z) (r : Z) : Z :=
  Z.lor (Z.shiftr x r) (Z.land (Z.shiftl x (64 - r)) mask64).

Definition IV : list Z :=
  [ 0x6a09e667f3bcc908; 0xbb67ae8584caa73b; 0x3c6ef372fe94f82b; 0xa54ff53a5f1d36f1;
    0x510e527fade682d1; 0x9b05688c2b3e6c1f; 0x1f83d9abfb41bd6b; 0x5be0cd19137e2179 ].

Definition SIGMA : list (list nat) :=
  [ [ 0; 1; 2; 3; 4; 5; 6; 7; 8; 9;10;11;12;13;14;15];
    [14;10; 4; 8; 9;15;13; 6; 1;12; 0; 2;11; 7; 5; 3];
    [11; 8;12; 0; 5; 2;15;13;10;14; 3; 6; 7; 1; 9; 4];
    [ 7; 9; 3; 1;13;12;11;14; 2; 6; 5;10; 4; 0;15; 8];
    [ 9; 0; 5; 7; 2; 4;10;15;14; 1;11;12; 6; 8; 3;13];
    [ 2;12; 6;10; 0;11; 8; 3; 4;13; 7; 5;15;14; 1; 9];
    [12; 5; 1;15;14;13; 4;10; 0; 7; 6; 3; 9; 2; 8;11];
    [13;11; 7;14;12; 1; 3; 9; 5; 0;15; 4; 8; 6; 2;10];
    [ 6;15;14; 9;11; 3; 0; 8;12; 2;13; 7; 1; 4;10; 5];
    [10; 2; 8; 4; 7; 6; 1; 5;15;11; 9;14; 3;12;13; 0];
    (* rounds 10 and 11 reuse rows 0 and 1 *)
    [ 0; 1; 2; 3; 4; 5; 6; 7; 8; 9;10;11;12;13;14;15];
    [14;10; 4; 8; 9;15;13; 6; 1;12; 0; 2;11; 7; 5; 3] ]%nat.

(* mixing function G (section 3.1), rotations 32 24 16 63 *)
Definition G (a b c d x y : Z) : Z * Z * Z * Z :=
  let a := add64 (add64 a b) x in
  let d := rotr64 (Z.lxor d a) 32 in
  let c := add64 c d in
  let b := rotr64 (Z.lxor b c) 24 in
  let a := add64 (add64 a b) y in
  let d := rotr64 (Z.lxor d a) 16 in
  let c := add64 c d in
  let b := rotr64 (Z.lxor b c) 63 in
  (a, b, c, d).

Definition vstate : Type := (Z*Z*Z*Z * (Z*Z*Z*Z) * (Z*Z*Z*Z) * (Z*Z*Z*Z))%type.

Definition bround (m : list Z) (v : vstate) (s : list nat) : vstate :=
  let w (i : nat) := nth (nth i s 0%nat) m 0 in
  let '((v0,v1,v2,v3),(v4,v5,v6,v7),(v8,v9,v10,v11),(v12,v13,v14,v15)) := v in
  let '(v0,v4,v8,v12)  := G v0 v4 v8  v12 (w 0%nat)  (w 1%nat) in
  let '(v1,v5,v9,v13)  := G v1 v5 v9  v13 (w 2%nat)  (w 3%nat) in
  let '(v2,v6,v10,v14) := G v2 v6 v10 v14 (w 4%nat)  (w 5%nat) in
  let '(v3,v7,v11,v15) := G v3 v7 v11 v15 (w 6%nat)  (w 7%nat) in
  let '(v0,v5,v10,v15) := G v0 v5 v10 v15 (w 8%nat)  (w 9%nat) in
  let '(v1,v6,v11,v12) := G v1 v6 v11 v12 (w 10%nat) (w 11%nat) in
  let '(v2,v7,v8,v13)  := G v2 v7 v8  v13 (w 12%nat) (w 13%nat) in
  let '(v3,v4,v9,v14)  := G v3 v4 v9  v14 (w 14%nat) (w 15%nat) in
  ((v0,v1,v2,v3),(v4,v5,v6,v7),(v8,v9,v10,v11),(v12,v13,v14,v15)).

(* little-endian words *)
Definition le_word (bs : list Z) : Z := fold_right (fun b acc => b + 256 * acc) 0 bs.
Fixpoint le_words (n : nat) (bs : list Z) : list Z :=
  match n with
  | O => []
  | S n' => le_word (firstn 8 bs) :: le_words n' (skipn 8 bs)
  end.
Fixpoint word_le_bytes (n : nat) (w : Z) : list Z :=
  match n with
  | O => []
  | S n' => Z.land w 255 :: word_le_bytes n' (Z.shiftr w 8)
  end.

(* compression function F(h, m, t, f) (section 3.2); [blk] = 128 bytes *)
Definition F (h : list Z) (blk : list Z) (t : Z) (last : bool) : list Z :=
  let m := le_words 16 blk in
  let hh i := nth i h 0 in
  let iv i := nth i IV 0 in
  let t0 := Z.land t mask64 in
  let t1 := Z.land (Z.shiftr t 64) mask64 in
  let v : vstate :=
    ((hh 0%nat, hh 1%nat, hh 2%nat, hh 3%nat), (hh 4%nat, hh 5%nat, hh 6%nat, hh 7%nat),
     (iv 0%nat, iv 1%nat, iv 2%nat, iv 3%nat),
     (Z.lxor (iv 4%nat) t0, Z.lxor (iv 5%nat) t1,
      (if last then Z.lxor (iv 6%nat) mask64 else iv 6%nat), iv 7%nat)) in
  let '((v0,v1,v2,v3),(v4,v5,v6,v7),(v8,v9,v10,v11),(v12,v13,v14,v15)) :=
    fold_left (bround m) SIGMA v in
  [ Z.lxor (Z.lxor (hh 0%nat) v0) v8;  Z.lxor (Z.lxor (hh 1%nat) v1) v9;
    Z.lxor (Z.lxor (hh 2%nat) v2) v10; Z.lxor (Z.lxor (hh 3%nat) v3) v11;
    Z.lxor (Z.lxor (hh 4%nat) v4) v12; Z.lxor (Z.lxor (hh 5%nat) v5) v13;
    Z.lxor (Z.lxor (hh 6%nat) v6) v14; Z.lxor (Z.lxor (hh 7%nat) v7) v15 ].

(* parameter block: h0 = IV ^ 0x0101kknn with kk = 0 *)
Definition h0 (outlen : Z) : list Z :=
  match IV with
  | i0 :: r => Z.lxor i0 (Z.lxor 0x01010000 outlen) :: r
  | [] => []
  end.

Definition zlen (l : list Z) : Z := Z.of_nat (length l).
Definition pad128 (bs : list Z) : list Z := bs ++ repeat 0 (128 - length bs)%nat.

(* the non-final blocks: while more than 128 bytes remain, compress 128 of
   them with the counter advanced by 128 (RFC: "for i = 0 .. dd-2").  A final
   (possibly full) block always stays behind: result = (h, t, remaining). *)
Fixpoint run (fuel : nat) (h : list Z) (t : Z) (msg : list Z) : list Z * Z * list Z :=
  match fuel with
  | O => (h, t, msg)
  | S f =>
      if 128 <? zlen msg
      then run f (F h (firstn 128 msg) (t + 128) false) (t + 128) (skipn 128 msg)
      else (h, t, msg)
  end.

Definition finish (outlen : Z) (hts : list Z * Z * list Z) : list Z :=
  let '(h, t, rest) := hts in
  firstn (Z.to_nat outlen)
         (flat_map (word_le_bytes 8) (F h (pad128 rest) (t + zlen rest) true)).

(* one-shot BLAKE2b, unkeyed (section 3.3) *)
Definition blake2b (outlen : Z) (msg : list Z) : list Z :=
  finish outlen (run (length msg) (h0 outlen) 0 msg).

(* ---- streaming context (cryptoxide ContextDyn) ---- *)
Record bstate : Type := mkB { bh : list Z; bt : Z; bbuf : list Z; bout : Z }.

Definition blake2b_init (outlen : Z) : bstate := mkB (h0 outlen) 0 [] outlen.

(* update_mut *)
Definition absorb (s : bstate) (input : list Z) : bstate :=
  match input with
  | [] => s                                            (* if input.is_empty() return *)
  | _ =>
      let fill := (128 - length (bbuf s))%nat in
      if (fill <? length input)%nat then
        let h1 := F (bh s) (bbuf s ++ firstn fill input) (bt s + 128) false in
        let '(h2, t2, rest) := run (length input) h1 (bt s + 128) (skipn fill input) in
        mkB h2 t2 rest (bout s)
      else mkB (bh s) (bt s) (bbuf s ++ input) (bout s)
  end.

(* internal_final + copy of the first outlen bytes *)
Definition blake2b_fin (s : bstate) : list Z := finish (bout s) (bh s, bt s, bbuf s).

(* ---- RFC 7693 section 3.3 literally, indexed over the padded blocks d[0..dd-1] ----
   dd = max 1 (ceil (ll / 128)); d[i] = bytes 128 i .. 128 i + 127 of the message,
   zero padded; for i = 0 .. dd-2: h := F(h, d[i], (i+1)*128, FALSE);
   h := F(h, d[dd-1], ll, TRUE); first nn bytes of h little-endian.
   [blake2b] above is proved equal to it (Blake2bProofs.blake2b_rfc_eq). *)
Definition nblocks (ll : nat) : nat := if (ll =? 0)%nat then 1%nat else ((ll + 127) / 128)%nat.
Definition dblock (msg : list Z) (i : nat) : list Z := pad128 (firstn 128 (skipn (128 * i) msg)).
(* (argument order: the two arguments that differ between a call and its
   recursive call come first and last, so that a conversion check between the
   two fails at once instead of weak-head normalising an application of F) *)
Fixpoint rfc_loop (c : nat) (msg : list Z) (h : list Z) (i : nat) : list Z :=
  match c with
  | O => h
  | S c' => rfc_loop c' msg (F h (dblock msg i) ((Z.of_nat i + 1) * 128) false) (S i)
  end.
Definition blake2b_rfc (nn : Z) (msg : list Z) : list Z :=
  let dd := nblocks (length msg) in
  let h := rfc_loop (dd - 1) msg (h0 nn) 0 in
  firstn (Z.to_nat nn)
         (flat_map (word_le_bytes 8) (F h (dblock msg (dd - 1)) (zlen msg) true)).
