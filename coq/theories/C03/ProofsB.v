(* C03 proofs, part B: the generic wrappers, for any payload codec. *)
From PV Require Import Lib.Base Cbor.Item Cbor.Enc Cbor.Dec Cbor.HeadLaws Cbor.Laws Cbor.Api Cbor.Skip.
From PV Require Import C03.Model C03.ProofsA.
Open Scope Z_scope.

(* ---- what is assumed about a payload codec ---- *)
Section Specs.
  Context {T : Type} (dec : decoder T) (enc : T -> list Z) (P : T -> Prop).
  (* values satisfying P round-trip, whatever follows *)
  Definition roundtrips : Prop := forall v r, P v -> dec (enc v ++ r) = DOk (v, r).
  (* every accepted input is reproduced exactly *)
  Definition exact : Prop := forall bs v r, dec bs = DOk (v, r) -> enc v ++ r = bs.
  (* encodings are non-empty and do not start with the break byte *)
  Definition starts_ok : Prop := forall v, P v -> exists b t, enc v = b :: t /\ b <> break_byte.
  (* the decoder returns a proper suffix of its input *)
  Definition consumes : Prop := forall bs v r, dec bs = DOk (v, r) -> exists c, bs = c ++ r /\ c <> [].
  (* the result depends only on the consumed bytes *)
  Definition local : Prop := forall c r v r', dec (c ++ r) = DOk (v, r) -> dec (c ++ r') = DOk (v, r').
End Specs.

Lemma exact_sound {T} (dec : decoder T) enc : exact dec enc -> dec_sound_for dec enc (fun _ => True).
Proof. intros H bs x r Hd. split; [symmetry; apply H, Hd|exact I]. Qed.

Definition nonminimal_head (m : major) (bs : list Z) : Prop :=
  exists w n rest, bs = enc_head m w n ++ rest /\ arg_fits w n /\ w <> min_width n.

Lemma minimal_of_not_known m w n rest :
  ~ nonminimal_head m (enc_head m w n ++ rest) -> arg_fits w n -> w = min_width n.
Proof.
  intros Hk Hfit. destruct (width_eqb w (min_width n)) eqn:E; [apply width_eqb_spec, E|].
  exfalso. apply Hk. exists w, n, rest. repeat split; try assumption; try apply Hfit.
  intros ->. rewrite (proj2 (width_eqb_spec _ _) eq_refl) in E. discriminate.
Qed.

Lemma consumed_app c r : consumed (c ++ r) r = c.
Proof.
  unfold consumed. rewrite app_length. replace (length c + length r - length r)%nat with (length c) by lia.
  rewrite firstn_app, Nat.sub_diag, firstn_all, firstn_O, app_nil_r. reflexivity.
Qed.

Lemma ready_of {T} (dec : decoder T) enc (P : T -> Prop) xs :
  roundtrips dec enc P -> starts_ok enc P -> Forall P xs ->
  Forall (fun x => (forall r, dec (enc x ++ r) = DOk (x, r)) /\
                   exists b t, enc x = b :: t /\ b <> break_byte) xs.
Proof.
  intros Hrt Hst Hxs. eapply Forall_impl; [|exact Hxs]. intros x Px. split; [intros r; apply Hrt, Px|apply Hst, Px].
Qed.

(* ================================================================ Vec<T> *)
Section VecLaws.
  Context {T : Type} (dec : decoder T) (enc : T -> list Z) (P : T -> Prop).

  Lemma vec_roundtrip xs r :
    roundtrips dec enc P -> starts_ok enc P -> Forall P xs -> len xs < u64_bound ->
    dec_vec dec (enc_vec enc xs ++ r) = DOk (xs, r).
  Proof.
    intros Hrt Hst Hxs Hl. unfold dec_vec, enc_vec. apply d_vec_e_vec; [|exact Hl].
    eapply Forall_impl; [|exact (ready_of dec enc P xs Hrt Hst Hxs)].
    intros x [H1 (b & t & E & _)]. split; [exact H1|rewrite E; discriminate].
  Qed.

  Lemma indef_array_roundtrip xs r :
    roundtrips dec enc P -> starts_ok enc P -> Forall P xs ->
    dec_vec dec (e_begin_array ++ concat (map enc xs) ++ e_end ++ r) = DOk (xs, r).
  Proof.
    intros Hrt Hst Hxs. unfold dec_vec, d_vec, d_array.
    change e_begin_array with (enc_indef MajArray). rewrite d_len_indef by auto. cbn [dbind].
    pose proof (ready_of dec enc P xs Hrt Hst Hxs) as Hready.
    change (e_end ++ r) with (break_byte :: r).
    rewrite (until_loop_complete dec enc xs Hready); [reflexivity|].
    apply ready_nonempty in Hready as [_ Hne]. apply (budget_app_ge enc xs (break_byte :: r)) in Hne. exact Hne.
  Qed.

  (* shape of whatever dec_vec accepts, when the payload is exact *)
  Lemma vec_shape bs xs r :
    exact dec enc -> dec_vec dec bs = DOk (xs, r) ->
    (exists w, bs = enc_head MajArray w (len xs) ++ concat (map enc xs) ++ r /\ arg_fits w (len xs)) \/
    bs = enc_indef MajArray ++ concat (map enc xs) ++ break_byte :: r.
  Proof.
    intros Hex H. unfold dec_vec, d_vec in H. apply dbind_ok in H as ([l r0] & Hl & H).
    apply d_len_sound in Hl. destruct l as [n|].
    - destruct Hl as (w & -> & Hfit). left. exists w.
      eapply seq_loop_sound in H as (-> & _ & Hlen); [|apply exact_sound, Hex|unfold arg_fits in Hfit; lia].
      subst n. auto.
    - right. subst bs. eapply until_loop_sound in H as (-> & _); [|apply exact_sound, Hex]. reflexivity.
  Qed.
End VecLaws.

(* ================================================================ MaybeIndefArray<T> *)
Section MiaLaws.
  Context {T : Type} (dec : decoder T) (enc : T -> list Z) (P : T -> Prop).

  Definition mia_ok (m : mia T) : Prop :=
    match m with MDef xs => Forall P xs /\ len xs < u64_bound | MIndef xs => Forall P xs end.

  Theorem mia_roundtrip m r :
    roundtrips dec enc P -> starts_ok enc P -> mia_ok m -> dec_mia dec (enc_mia enc m ++ r) = DOk (m, r).
  Proof.
    intros Hrt Hst Hm. unfold dec_mia. destruct m as [xs|xs]; cbn [enc_mia mia_ok] in *.
    - destruct Hm as [Hxs Hl].
      assert (Hfit : arg_fits (min_width (len xs)) (len xs))
        by (apply min_width_fits; pose proof (len_nonneg xs); unfold u64_bound in Hl; lia).
      assert (Hdt : d_datatype (enc_vec enc xs ++ r) = DOk TArray).
      { unfold enc_vec, e_vec, e_array, enc_head_min. rewrite <- app_assoc. apply datatype_array, Hfit. }
      rewrite Hdt. cbn [dbind]. change (ctype_eqb TArray TArray) with true. cbn iota.
      rewrite (vec_roundtrip dec enc P xs r Hrt Hst Hxs Hl). reflexivity.
    - rewrite <- !app_assoc. change (d_datatype (e_begin_array ++ concat (map enc xs) ++ e_end ++ r)) with (DOk (A:=ctype) TArrayIndef).
      cbn [dbind]. change (ctype_eqb TArrayIndef TArray) with false. change (ctype_eqb TArrayIndef TArrayIndef) with true. cbn iota.
      rewrite (indef_array_roundtrip dec enc P xs r Hrt Hst Hm). reflexivity.
  Qed.

  (* exact re-encoding, for every accepted input whose definite length head is minimal *)
  Theorem mia_reencode_exact_partial bs m r :
    exact dec enc -> dec_mia dec bs = DOk (m, r) -> ~ nonminimal_head MajArray bs -> enc_mia enc m ++ r = bs.
  Proof.
    intros Hex H Hk. unfold dec_mia in H. apply dbind_ok in H as (t & Ht & H).
    destruct (ctype_eqb t TArray) eqn:Ea.
    - apply dbind_ok in H as ([xs r'] & Hv & H). inversion H; subst; clear H.
      destruct (vec_shape dec enc _ _ _ Hex Hv) as [(w & -> & Hfit)| ->].
      + apply minimal_of_not_known in Hk; [|exact Hfit]. subst w.
        cbn [enc_mia]. unfold enc_vec, e_vec, e_array, enc_head_min. rewrite <- app_assoc. reflexivity.
      + rewrite datatype_array_indef in Ht. inversion Ht; subst. discriminate.
    - destruct (ctype_eqb t TArrayIndef) eqn:Ei; [|discriminate].
      apply dbind_ok in H as ([xs r'] & Hv & H). inversion H; subst; clear H.
      destruct (vec_shape dec enc _ _ _ Hex Hv) as [(w & -> & Hfit)| ->].
      + rewrite datatype_array in Ht by exact Hfit. inversion Ht; subst. discriminate.
      + cbn [enc_mia]. rewrite <- !app_assoc. reflexivity.
  Qed.
End MiaLaws.

(* ================================================================ KeyValuePairs<K,V> *)
Section KvpLaws.
  Context {K V : Type} (dk : decoder K) (dv : decoder V) (ek : K -> list Z) (ev : V -> list Z)
          (Pk : K -> Prop) (Pv : V -> Prop).

  Definition pair_okp (kv : K * V) : Prop := Pk (fst kv) /\ Pv (snd kv).
  Definition kvp_ok (m : kvp K V) : Prop :=
    match m with KDef l => Forall pair_okp l /\ len l < u64_bound | KIndef l => Forall pair_okp l end.

  Lemma pairs_ready l :
    roundtrips dk ek Pk -> roundtrips dv ev Pv -> starts_ok ek Pk -> Forall pair_okp l ->
    Forall (fun kv => (forall r, pair_dec dk dv (enc_pair_kv ek ev kv ++ r) = DOk (kv, r)) /\
                      exists b t, enc_pair_kv ek ev kv = b :: t /\ b <> break_byte) l.
  Proof.
    intros Hk Hv Hst Hl. eapply Forall_impl; [|exact Hl]. intros [k v] [Pk' Pv']. cbn [fst snd] in *. split.
    - intros r. unfold enc_pair_kv. cbn [fst snd]. apply pair_dec_complete; intros r'; [apply Hk, Pk'|apply Hv, Pv'].
    - destruct (Hst k Pk') as (b & t & E & Hb). unfold enc_pair_kv. cbn [fst snd]. rewrite E. cbn [app]. eauto.
  Qed.

  Theorem kvp_roundtrip m r :
    roundtrips dk ek Pk -> roundtrips dv ev Pv -> starts_ok ek Pk -> kvp_ok m ->
    dec_kvp dk dv (enc_kvp ek ev m ++ r) = DOk (m, r).
  Proof.
    intros Hk Hv Hst Hm. unfold dec_kvp. destruct m as [l|l]; cbn [enc_kvp kvp_ok] in *.
    - destruct Hm as [Hl Hlen].
      assert (Hfit : arg_fits (min_width (len l)) (len l))
        by (apply min_width_fits; pose proof (len_nonneg l); unfold u64_bound in Hlen; lia).
      unfold e_map, enc_head_min. rewrite <- app_assoc. rewrite datatype_map by exact Hfit. cbn [dbind].
      unfold d_map_pairs, d_map. rewrite d_len_enc by exact Hfit. cbn [dbind].
      pose proof (pairs_ready l Hk Hv Hst Hl) as Hready. apply ready_nonempty in Hready as [Hdec Hne].
      rewrite (seq_loop_complete _ _ l Hdec); [reflexivity|].
      apply (budget_app_ge _ l r) in Hne. lia.
    - rewrite <- !app_assoc.
      change (d_datatype (e_begin_map ++ concat (map (enc_pair_kv ek ev) l) ++ e_end ++ r)) with (DOk (A:=ctype) TMapIndef).
      cbn [dbind]. unfold d_map_pairs, d_map. change e_begin_map with (enc_indef MajMap).
      rewrite d_len_indef by auto. cbn [dbind]. change (e_end ++ r) with (break_byte :: r).
      pose proof (pairs_ready l Hk Hv Hst Hm) as Hready.
      rewrite (until_loop_complete _ _ l Hready); [reflexivity|].
      apply ready_nonempty in Hready as [_ Hne]. apply (budget_app_ge _ l (break_byte :: r)) in Hne. exact Hne.
  Qed.

  Lemma pair_exact_sound :
    exact dk ek -> exact dv ev -> dec_sound_for (pair_dec dk dv) (enc_pair_kv ek ev) (fun _ => True).
  Proof.
    intros Hk Hv bs [k v] r H. unfold pair_dec in H.
    apply dbind_ok in H as ([k' r1] & Hk' & H). apply dbind_ok in H as ([v' r2] & Hv' & H).
    inversion H; subst; clear H. apply Hk in Hk'. apply Hv in Hv'. subst. unfold enc_pair_kv. cbn [fst snd].
    rewrite <- app_assoc. auto.
  Qed.

  Theorem kvp_reencode_exact_partial bs m r :
    exact dk ek -> exact dv ev -> dec_kvp dk dv bs = DOk (m, r) -> ~ nonminimal_head MajMap bs ->
    enc_kvp ek ev m ++ r = bs.
  Proof.
    intros Hk Hv H Hkn. unfold dec_kvp in H. apply dbind_ok in H as (t & Ht & H).
    apply dbind_ok in H as ([l r'] & Hp & H).
    unfold d_map_pairs in Hp. apply dbind_ok in Hp as ([n r0] & Hn & Hp). apply d_len_sound in Hn.
    destruct n as [n|].
    - destruct Hn as (w & -> & Hfit).
      eapply seq_loop_sound in Hp as (-> & _ & Hlen); [|apply pair_exact_sound; assumption|unfold arg_fits in Hfit; lia].
      subst n. rewrite datatype_map in Ht by exact Hfit. inversion Ht; subst t.
      change (ctype_eqb TMap TMap) with true in H. cbn iota in H. inversion H; subst; clear H.
      apply minimal_of_not_known in Hkn; [|exact Hfit]. subst w.
      cbn [enc_kvp]. unfold e_map, enc_head_min. rewrite <- app_assoc. reflexivity.
    - subst bs. eapply until_loop_sound in Hp as (-> & _); [|apply pair_exact_sound; assumption].
      rewrite datatype_map_indef in Ht. inversion Ht; subst t.
      change (ctype_eqb TMapIndef TMap) with false in H. change (ctype_eqb TMapIndef TMapIndef) with true in H.
      cbn iota in H. inversion H; subst; clear H.
      cbn [enc_kvp]. rewrite <- !app_assoc. reflexivity.
  Qed.
End KvpLaws.

(* ================================================================ Nullable<T> *)
Section NullableLaws.
  Context {T : Type} (dec : decoder T) (enc : T -> list Z) (P : T -> Prop).

  (* the payload never encodes as null / undefined *)
  Definition not_nullish : Prop :=
    forall v r, P v -> exists t, d_datatype (enc v ++ r) = DOk t /\
                                 ctype_eqb t TNull = false /\ ctype_eqb t TUndefined = false.

  Definition nullable_ok (n : nullable T) : Prop := match n with NSome x => P x | _ => True end.

  Theorem nullable_roundtrip n r :
    roundtrips dec enc P -> not_nullish -> nullable_ok n ->
    dec_nullable dec (enc_nullable enc n ++ r) = DOk (n, r).
  Proof.
    intros Hrt Hnn Hn. unfold dec_nullable. destruct n as [x| |]; cbn [enc_nullable nullable_ok] in *.
    - destruct (Hnn x r Hn) as (t & Ht & H1 & H2). rewrite Ht. cbn [dbind]. rewrite H1, H2.
      rewrite (Hrt x r Hn). reflexivity.
    - reflexivity.
    - reflexivity.
  Qed.

  (* exact for every accepted input: f6 <-> Null, f7 <-> Undefined *)
  Theorem nullable_reencode_exact bs n r :
    exact dec enc -> dec_nullable dec bs = DOk (n, r) -> enc_nullable enc n ++ r = bs.
  Proof.
    intros Hex H. unfold dec_nullable in H. apply dbind_ok in H as (t & Ht & H).
    destruct (ctype_eqb t TNull).
    { apply dbind_ok in H as ([u r'] & Hn & H). inversion H; subst; clear H.
      unfold d_null in Hn. destruct bs as [|b t']; [discriminate|].
      destruct (b =? 246) eqn:E; [|destruct (negb (byteb b)); [discriminate|unfold mismatch in Hn;
        destruct ((56 <=? b) && (b <=? 59)); [destruct t' as [|? [|? ?]]|]; discriminate]].
      inversion Hn; subst. cbn. f_equal. lia. }
    destruct (ctype_eqb t TUndefined).
    { apply dbind_ok in H as ([u r'] & Hn & H). inversion H; subst; clear H.
      unfold d_undefined in Hn. destruct bs as [|b t']; [discriminate|].
      destruct (b =? 247) eqn:E; [|destruct (negb (byteb b)); [discriminate|unfold mismatch in Hn;
        destruct ((56 <=? b) && (b <=? 59)); [destruct t' as [|? [|? ?]]|]; discriminate]].
      inversion Hn; subst. cbn. f_equal. lia. }
    apply dbind_ok in H as ([x r'] & Hx & H). inversion H; subst; clear H. cbn [enc_nullable]. apply Hex, Hx.
  Qed.
End NullableLaws.

(* ================================================================ Set / CborWrap / TagWrap / ZeroOrOne / OPP *)
Section OtherLaws.
  Context {T : Type} (dec : decoder T) (enc : T -> list Z) (P : T -> Prop).

  Lemma fits_u64 n : 0 <= n < u64_bound -> arg_fits (min_width n) n.
  Proof. intros H. apply min_width_fits. unfold u64_bound in H. lia. Qed.

  Theorem set_roundtrip xs r :
    roundtrips dec enc P -> starts_ok enc P -> Forall P xs -> len xs < u64_bound ->
    dec_set dec (enc_set enc xs ++ r) = DOk (xs, r).
  Proof.
    intros Hrt Hst Hxs Hl. unfold dec_set, enc_set, e_tag, enc_head_min. rewrite <- app_assoc.
    assert (Hfit : arg_fits (min_width 258) 258) by (apply fits_u64; unfold u64_bound; lia).
    rewrite datatype_tag by exact Hfit. cbn [dbind]. change (ctype_eqb TTag TTag) with true. cbn iota.
    rewrite d_tag_enc by exact Hfit. cbn [dbind]. change (258 =? 258) with true. cbn iota.
    apply (vec_roundtrip dec enc P); assumption.
  Qed.

  (* a set written without the tag (the pre-Conway form) decodes to the same set *)
  Theorem set_untagged_accepted xs r :
    roundtrips dec enc P -> starts_ok enc P -> Forall P xs -> len xs < u64_bound ->
    dec_set dec (enc_vec enc xs ++ r) = DOk (xs, r).
  Proof.
    intros Hrt Hst Hxs Hl. unfold dec_set.
    assert (Hfit : arg_fits (min_width (len xs)) (len xs)) by (apply fits_u64; pose proof (len_nonneg xs); lia).
    assert (Hdt : d_datatype (enc_vec enc xs ++ r) = DOk TArray).
    { unfold enc_vec, e_vec, e_array, enc_head_min. rewrite <- app_assoc. apply datatype_array, Hfit. }
    rewrite Hdt. cbn [dbind]. change (ctype_eqb TArray TTag) with false. cbn iota.
    apply (vec_roundtrip dec enc P xs r Hrt Hst Hxs Hl).
  Qed.

  Theorem cborwrap_roundtrip x r :
    roundtrips dec enc P -> P x -> bytes_wf (enc x) -> len (enc x) < u64_bound ->
    dec_cborwrap dec (enc_cborwrap enc x ++ r) = DOk (x, r).
  Proof.
    intros Hrt Px Hb Hl. unfold dec_cborwrap, enc_cborwrap, e_tag, enc_head_min. rewrite <- app_assoc.
    rewrite d_tag_enc by (apply fits_u64; unfold u64_bound; lia). cbn [dbind].
    unfold e_bytes, enc_head_min. rewrite <- app_assoc.
    rewrite d_bytes_enc; [|apply fits_u64; pose proof (len_nonneg (enc x)); lia|exact Hb]. cbn [dbind].
    rewrite <- (app_nil_r (enc x)), (Hrt x [] Px). reflexivity.
  Qed.

  Theorem tagwrap_roundtrip tag x r :
    roundtrips dec enc P -> P x -> 0 <= tag < u64_bound ->
    dec_tagwrap dec (enc_tagwrap enc tag x ++ r) = DOk (x, r).
  Proof.
    intros Hrt Px Ht. unfold dec_tagwrap, enc_tagwrap, e_tag, enc_head_min. rewrite <- app_assoc.
    rewrite d_tag_enc by (apply fits_u64; exact Ht). cbn [dbind]. apply Hrt, Px.
  Qed.

  Theorem zoo_roundtrip o r :
    roundtrips dec enc P -> match o with Some x => P x | None => True end ->
    dec_zoo dec (enc_zoo enc o ++ r) = DOk (o, r).
  Proof.
    intros Hrt Ho. unfold dec_zoo, d_array. destruct o as [x|]; cbn [enc_zoo].
    - unfold e_array, enc_head_min. rewrite <- app_assoc.
      rewrite d_len_enc by (apply fits_u64; unfold u64_bound; lia). cbn [dbind].
      change (1 =? 0) with false. change (1 =? 1) with true. cbn iota. rewrite (Hrt x r Ho). reflexivity.
    - unfold e_array, enc_head_min. rewrite d_len_enc by (apply fits_u64; unfold u64_bound; lia). reflexivity.
  Qed.

  Theorem opp_roundtrip xs r :
    roundtrips dec enc P -> starts_ok enc P -> Forall P xs -> len xs < u64_bound ->
    dec_opp dec (enc_opp enc xs ++ r) = DOk (xs, r).
  Proof.
    intros Hrt Hst Hxs Hl. unfold dec_opp, enc_opp, e_map, enc_head_min, d_map. rewrite <- app_assoc.
    rewrite d_len_enc by (apply fits_u64; pose proof (len_nonneg xs); lia). cbn [dbind].
    pose proof (ready_of dec enc P xs Hrt Hst Hxs) as Hready. apply ready_nonempty in Hready as [Hdec Hne].
    rewrite (seq_loop_complete dec enc xs Hdec); [reflexivity|].
    apply (budget_app_ge enc xs r) in Hne. lia.
  Qed.
End OtherLaws.

(* ================================================================ KeepRaw<T> *)
Section KeepRawLaws.
  Context {T : Type} (dec : decoder T) (enc : T -> list Z) (P : T -> Prop).

  (* the raw bytes kept at decode are exactly the consumed input, and are what is written back *)
  Theorem keepraw_reencode_exact bs k r :
    consumes dec -> dec_keepraw dec bs = DOk (k, r) -> enc_keepraw enc k ++ r = bs /\ fst k = consumed bs r.
  Proof.
    intros Hc H. unfold dec_keepraw in H. apply dbind_ok in H as ([x r'] & Hx & H). inversion H; subst; clear H.
    destruct (Hc _ _ _ Hx) as (c & -> & Hne). rewrite consumed_app. split; [|reflexivity].
    unfold enc_keepraw. cbn [fst snd]. destruct c; [congruence|reflexivity].
  Qed.

  (* a value built with From (no raw): its encoding decodes to the same inner value, raw = the encoding *)
  Theorem keepraw_roundtrip_from x r :
    roundtrips dec enc P -> P x ->
    dec_keepraw dec (enc_keepraw enc (keepraw_from x) ++ r) = DOk ((enc x, x), r).
  Proof.
    intros Hrt Px. unfold dec_keepraw, keepraw_from, enc_keepraw. cbn [fst snd].
    rewrite (Hrt x r Px). cbn [dbind]. rewrite consumed_app. reflexivity.
  Qed.

  (* a decoded value: decoding its encoding yields an equal value (same raw, same inner) *)
  Theorem keepraw_roundtrip_decoded bs k r r' :
    consumes dec -> local dec -> dec_keepraw dec bs = DOk (k, r) ->
    dec_keepraw dec (enc_keepraw enc k ++ r') = DOk (k, r').
  Proof.
    intros Hc Hloc H. unfold dec_keepraw in H. apply dbind_ok in H as ([x r0] & Hx & H). inversion H; subst; clear H.
    destruct (Hc _ _ _ Hx) as (c & -> & Hne). rewrite consumed_app.
    assert (E : enc_keepraw enc (c, x) = c) by (unfold enc_keepraw; cbn [fst snd]; destruct c; [congruence|reflexivity]).
    rewrite E. unfold dec_keepraw. rewrite (Hloc c r x r' Hx). cbn [dbind]. rewrite consumed_app. reflexivity.
  Qed.

  (* the owned / detached life cycle: to_owned() and clone() keep the captured bytes, so a detached
     value still re-encodes exactly the bytes it was decoded from; mutating it afterwards drops them *)
  Theorem keepraw_to_owned_exact bs k r :
    consumes dec -> dec_keepraw dec bs = DOk (k, r) ->
    enc_keepraw enc (keepraw_to_owned k) ++ r = bs /\
    enc_keepraw enc (keepraw_clone (keepraw_to_owned k)) ++ r = bs /\
    fst (keepraw_to_owned k) = consumed bs r.
  Proof.
    intros Hc H. destruct (keepraw_reencode_exact bs k r Hc H) as [H1 H2]. destruct k as [raw x].
    unfold keepraw_to_owned, keepraw_clone. cbn [fst snd] in *. auto.
  Qed.

  Theorem keepraw_to_owned_then_mutate k x' :
    enc_keepraw enc (keepraw_deref_mut_set (keepraw_to_owned k) x') = enc x'.
  Proof. reflexivity. Qed.

  (* mutation through deref_mut: the stale raw is dropped, the new content is encoded *)
  Theorem keepraw_mutation k x' : enc_keepraw enc (keepraw_deref_mut_set k x') = enc x'.
  Proof. reflexivity. Qed.
End KeepRawLaws.
