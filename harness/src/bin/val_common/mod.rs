//! Shared fixture loading for the `validate` engine harnesses (C34..C37).
//!
//! `common.rs` is a verbatim copy of /repo/pallas-validate/tests/common.rs and
//! the `fx_*.rs` files are the *positive* tests of /repo/pallas-validate/tests/
//! (UTxO set, environment, cert state of every fixture that the crate's own
//! suite validates successfully), turned into functions that take the
//! transaction CBOR and a continuation instead of calling `validate_txs`, so the
//! harness can feed mutated transactions through the same UTxO/env builders.
#![allow(dead_code, unused_imports, unused_variables, unused_macros)]

/// `chrono` is not a dependency of the harness crate; get a
/// `DateTime<FixedOffset>` through the crate's own Byron accessor.
macro_rules! sys_start {
    ($s:expr) => {
        pallas_validate::utils::MultiEraProtocolParameters::Byron(
            pallas_validate::utils::ByronProtParams {
                block_version: (1, 0, 0),
                start_time: $crate::val_common::ts_of($s),
                script_version: 0,
                slot_duration: 20000,
                max_block_size: 2000000,
                max_header_size: 2000000,
                max_tx_size: 4096,
                max_proposal_size: 700,
                mpc_thd: 0,
                heavy_del_thd: 0,
                update_vote_thd: 0,
                update_proposal_thd: 0,
                update_implicit: 0,
                soft_fork_rule: (0, 0, 0),
                summand: 0,
                multiplier: 0,
                unlock_stake_epoch: 0,
            },
        )
        .system_start()
    };
}

pub mod common;
pub mod fx_alonzo;
pub mod fx_babbage;
pub mod fx_byron;
pub mod fx_conway;
pub mod fx_shelley_ma;
pub mod mutate;

use pallas_traverse::MultiEraTx;
use pallas_validate::utils::{CertState, Environment, UTxOs};

pub fn ts_of(s: &str) -> u64 {
    match s {
        "2017-09-23T21:44:51Z" => 1506203091,
        "2022-10-25T00:00:00Z" => 1666656000,
        _ => panic!("unknown system start {s}"),
    }
}

#[derive(Clone, Copy, PartialEq, Eq, Debug)]
pub enum EraK {
    Byron,
    ShelleyMA,
    Alonzo,
    Babbage,
    Conway,
}

pub type Cont<'x> = &'x mut dyn FnMut(&MultiEraTx, &UTxOs, &Environment, &mut CertState);

pub struct Fixture {
    pub name: &'static str,
    pub era: EraK,
    pub file: &'static str,
    pub run: fn(&[u8], Cont),
}

pub fn fixtures() -> Vec<Fixture> {
    use fx_alonzo::alonzo_tests as al;
    use fx_babbage::babbage_tests as ba;
    use fx_byron::byron_tests as by;
    use fx_conway::conway_tests as co;
    use fx_shelley_ma::shelley_ma_tests as sh;
    use EraK::*;
    let f = |name, era, file, run| Fixture { name, era, file, run };
    vec![
        f("byron2", Byron, "byron2.tx", by::successful_mainnet_tx_with_genesis_utxos),
        f("byron1", Byron, "byron1.tx", by::successful_mainnet_tx),
        f("shelley1", ShelleyMA, "shelley1.tx", sh::successful_mainnet_shelley_tx),
        f("shelley2-script", ShelleyMA, "shelley2.tx", sh::successful_mainnet_shelley_tx_with_script),
        f("shelley4-changed-script", ShelleyMA, "shelley4.tx", sh::successful_mainnet_shelley_tx_with_changed_script),
        f("shelley3-metadata", ShelleyMA, "shelley3.tx", sh::successful_mainnet_shelley_tx_with_metadata),
        f("mary1-minting", ShelleyMA, "mary1.tx", sh::successful_mainnet_mary_tx_with_minting),
        f("mary2-pool-reg", ShelleyMA, "mary2.tx", sh::successful_mainnet_mary_tx_with_pool_reg),
        f("mary3-stk-deleg", ShelleyMA, "mary3.tx", sh::successful_mainnet_mary_tx_with_stk_deleg),
        f("allegra1-mir", ShelleyMA, "allegra1.tx", sh::successful_mainnet_allegra_tx_with_mir),
        f("alonzo1", Alonzo, "alonzo1.tx", al::successful_mainnet_tx),
        f("alonzo2-plutus", Alonzo, "alonzo2.tx", al::successful_mainnet_tx_with_plutus_script),
        f("alonzo3-minting", Alonzo, "alonzo3.tx", al::successful_mainnet_tx_with_minting),
        f("alonzo4-metadata", Alonzo, "alonzo4.tx", al::successful_mainnet_tx_with_metadata),
        f("babbage3", Babbage, "babbage3.tx", ba::successful_mainnet_tx),
        f("babbage4-plutus-v1", Babbage, "babbage4.tx", ba::successful_mainnet_tx_with_plutus_v1_script),
        f("babbage7-plutus-v2", Babbage, "babbage7.tx", ba::successful_mainnet_tx_with_plutus_v2_script),
        f("babbage12-preview-plutus-v2", Babbage, "babbage12.tx", ba::successful_preview_tx_with_plutus_v2_script),
        f("babbage13-preprod-plutus-v2", Babbage, "babbage13.tx", ba::successful_preprod_tx_with_plutus_v2_script),
        f("babbage5-minting", Babbage, "babbage5.tx", ba::successful_mainnet_tx_with_minting),
        f("babbage6-metadata", Babbage, "babbage6.tx", ba::successful_mainnet_tx_with_metadata),
        f("conway3", Conway, "conway3.tx", co::successful_mainnet_tx),
        f("conway4-preview-plutus-v3", Conway, "conway4.tx", co::successful_preview_tx_with_plutus_v3_script),
        f("conway5-plutus-v3", Conway, "conway5.tx", co::successful_mainnet_tx_with_plutus_v3_script),
    ]
}

/// Transaction CBOR of a fixture, from `$VERIF_REPO/test_data` (the repository under test).
pub fn load_tx(f: &Fixture) -> Vec<u8> {
    let repo = std::env::var("VERIF_REPO").unwrap_or_else(|_| "/repo".into());
    let p = format!("{}/test_data/{}", repo, f.file);
    let s = std::fs::read_to_string(&p).unwrap_or_else(|e| panic!("fixture {p}: {e}"));
    let tx = hex::decode(s.trim()).unwrap_or_else(|e| panic!("fixture {p}: {e}"));
    if f.name == "shelley4-changed-script" {
        // as the crate's test does: keep only the second vkey witness
        let mut parts = mutate::split(&tx);
        let mut w = mutate::RawMap::parse(&parts.wits);
        let (t, ws) = mutate::vkey_wits(&w);
        mutate::set_vkey_wits(&mut w, t, &ws[1..2]);
        parts.wits = w.encode();
        return mutate::join(&parts);
    }
    tx
}

/// Small class code of a validation result (canonical form for the Coq cases):
/// the Debug text of the error.
pub fn err_text(e: &pallas_validate::utils::ValidationError) -> String {
    format!("{e:?}")
}

/// `Environment` is not `Clone`: same environment with other protocol parameters.
pub fn env_with(env: &Environment, pp: pallas_validate::utils::MultiEraProtocolParameters) -> Environment {
    Environment {
        prot_params: pp,
        prot_magic: *env.prot_magic(),
        block_slot: *env.block_slot(),
        network_id: *env.network_id(),
        acnt: env.acnt().as_ref().map(|a| pallas_validate::utils::AccountState { treasury: a.treasury, reserves: a.reserves }),
    }
}

/// protocol parameters with other fee coefficients / size limit (so that a mutation that
/// changes the size of a transaction does not run into the fee or size rules)
pub fn with_fee_size_params(pp: &pallas_validate::utils::MultiEraProtocolParameters, a: u32, b: u32, max: u32) -> pallas_validate::utils::MultiEraProtocolParameters {
    use pallas_validate::utils::MultiEraProtocolParameters as PP;
    let mut p = pp.clone();
    match &mut p {
        PP::Shelley(x) => { x.minfee_a = a; x.minfee_b = b; x.max_transaction_size = max; }
        PP::Alonzo(x) => { x.minfee_a = a; x.minfee_b = b; x.max_transaction_size = max; }
        PP::Babbage(x) => { x.minfee_a = a; x.minfee_b = b; x.max_transaction_size = max; }
        PP::Conway(x) => { x.minfee_a = a; x.minfee_b = b; x.max_transaction_size = max; }
        _ => {}
    }
    p
}
