(* C21: the generic "one well-formed CBOR item" message codec, built on the
   shared CBOR core.  Definitions only (used by Run.v and by the instance
   theorems). *)
From PV Require Import Lib.Base Cbor.Item Cbor.Enc Cbor.Dec C21.Model.
Open Scope Z_scope.

(* a message = one CBOR item; the decoder reports how many bytes it consumed *)
Definition item_dec (bs : list Z) : dec_result item :=
  match decode bs with
  | DOk (i, r) => DecOk i (length bs - length r)
  | DEoi => DecEoi
  | DErr => DecErr
  end.

Definition item_valid (i : item) : Prop := wf_item i = true.

(* AnyMessage::from_payload's channel table (pallas-network2 protocol::*::CHANNEL_ID):
   handshake 0, chainsync 2, blockfetch 3, txsubmission 4, keepalive 8,
   peersharing 10, leiosnotify 18, leiosfetch 19; anything else is unsupported *)
Definition supported_channel (c : Z) : bool :=
  (c =? 0) || (c =? 2) || (c =? 3) || (c =? 4) || (c =? 8) || (c =? 10) || (c =? 18) || (c =? 19).
Definition any_chan_dec (c : Z) : option (list Z -> dec_result item) :=
  if supported_channel c then Some item_dec else None.
