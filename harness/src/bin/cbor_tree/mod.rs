//! Independent CBOR item tree (no minicbor): parser with byte spans, serializer that
//! reproduces the exact head forms, and a structural mutator. Shared by c05 / c06 / c09.
#![allow(dead_code)]
use verif_harness::Rng;

/// Head width: 0 = argument in the initial byte, 1/2/3/4 = 1/2/4/8 following bytes.
pub type W = u8;

#[derive(Clone, Debug, PartialEq)]
pub enum Kind {
    UInt(W, u64),
    NInt(W, u64),
    Bytes(W, Vec<u8>),
    BytesIndef(Vec<(W, Vec<u8>)>),
    Text(W, Vec<u8>),
    TextIndef(Vec<(W, Vec<u8>)>),
    Array(Option<W>, Vec<Item>),
    Map(Option<W>, Vec<(Item, Item)>),
    Tag(W, u64, Box<Item>),
    Simple(W, u64),
}

/// `start..end` is the span of the item in the buffer it was parsed from (0..0 for built items).
#[derive(Clone, Debug, PartialEq)]
pub struct Item { pub start: usize, pub end: usize, pub kind: Kind }

pub fn min_w(n: u64) -> W { if n < 24 { 0 } else if n < 0x100 { 1 } else if n < 0x1_0000 { 2 } else if n < 0x1_0000_0000 { 3 } else { 4 } }
fn fits(w: W, n: u64) -> bool { match w { 0 => n < 24, 1 => n < 0x100, 2 => n < 0x1_0000, 3 => n < 0x1_0000_0000, _ => true } }

fn head(b: &[u8], p: usize) -> Result<(u8, Option<(W, u64)>, usize), String> {
    let ib = *b.get(p).ok_or("eoi")?;
    let (m, info) = (ib >> 5, ib & 31);
    let need = |k: usize| -> Result<u64, String> {
        if p + 1 + k > b.len() { return Err("eoi".into()); }
        let mut v = 0u64;
        for i in 0..k { v = (v << 8) | b[p + 1 + i] as u64; }
        Ok(v)
    };
    match info {
        0..=23 => Ok((m, Some((0, info as u64)), p + 1)),
        24 => Ok((m, Some((1, need(1)?)), p + 2)),
        25 => Ok((m, Some((2, need(2)?)), p + 3)),
        26 => Ok((m, Some((3, need(4)?)), p + 5)),
        27 => Ok((m, Some((4, need(8)?)), p + 9)),
        31 => Ok((m, None, p + 1)),
        _ => Err("reserved".into()),
    }
}

fn take(b: &[u8], p: usize, n: u64) -> Result<(Vec<u8>, usize), String> {
    let n = usize::try_from(n).map_err(|_| "eoi".to_string())?;
    let e = p.checked_add(n).ok_or("eoi")?;
    if e > b.len() { return Err("eoi".into()); }
    Ok((b[p..e].to_vec(), e))
}

/// Parse one item starting at `p`; `depth` bounds the nesting.
pub fn parse_at(b: &[u8], p: usize, depth: usize) -> Result<Item, String> {
    if depth == 0 { return Err("depth".into()); }
    let (m, arg, q) = head(b, p)?;
    let mk = |end: usize, kind: Kind| Item { start: p, end, kind };
    match (m, arg) {
        (0, Some((w, n))) => Ok(mk(q, Kind::UInt(w, n))),
        (1, Some((w, n))) => Ok(mk(q, Kind::NInt(w, n))),
        (2, Some((w, n))) => { let (d, e) = take(b, q, n)?; Ok(mk(e, Kind::Bytes(w, d))) }
        (3, Some((w, n))) => { let (d, e) = take(b, q, n)?; Ok(mk(e, Kind::Text(w, d))) }
        (2, None) | (3, None) => {
            let mut cs = vec![]; let mut q = q;
            loop {
                if *b.get(q).ok_or("eoi")? == 0xff { q += 1; break; }
                let (m2, a2, q2) = head(b, q)?;
                let Some((w, n)) = a2 else { return Err("chunk".into()) };
                if m2 != m { return Err("chunk".into()); }
                let (d, e) = take(b, q2, n)?; cs.push((w, d)); q = e;
            }
            Ok(mk(q, if m == 2 { Kind::BytesIndef(cs) } else { Kind::TextIndef(cs) }))
        }
        (4, Some((w, n))) => {
            let mut xs = vec![]; let mut q = q;
            for _ in 0..n { let it = parse_at(b, q, depth - 1)?; q = it.end; xs.push(it); }
            Ok(mk(q, Kind::Array(Some(w), xs)))
        }
        (4, None) => {
            let mut xs = vec![]; let mut q = q;
            loop {
                if *b.get(q).ok_or("eoi")? == 0xff { q += 1; break; }
                let it = parse_at(b, q, depth - 1)?; q = it.end; xs.push(it);
            }
            Ok(mk(q, Kind::Array(None, xs)))
        }
        (5, Some((w, n))) => {
            let mut xs = vec![]; let mut q = q;
            for _ in 0..n {
                let k = parse_at(b, q, depth - 1)?; let v = parse_at(b, k.end, depth - 1)?; q = v.end; xs.push((k, v));
            }
            Ok(mk(q, Kind::Map(Some(w), xs)))
        }
        (5, None) => {
            let mut xs = vec![]; let mut q = q;
            loop {
                if *b.get(q).ok_or("eoi")? == 0xff { q += 1; break; }
                let k = parse_at(b, q, depth - 1)?; let v = parse_at(b, k.end, depth - 1)?; q = v.end; xs.push((k, v));
            }
            Ok(mk(q, Kind::Map(None, xs)))
        }
        (6, Some((w, t))) => { let it = parse_at(b, q, depth - 1)?; let e = it.end; Ok(mk(e, Kind::Tag(w, t, Box::new(it)))) }
        (7, Some((w, n))) => Ok(mk(q, Kind::Simple(w, n))),
        _ => Err("bad indefinite".into()),
    }
}

/// The whole buffer starts with one item (trailing bytes allowed; see `Item::end`).
pub fn parse(b: &[u8]) -> Result<Item, String> { parse_at(b, 0, 256) }

fn put_head(out: &mut Vec<u8>, m: u8, w: W, n: u64) {
    match w {
        0 => out.push((m << 5) | (n as u8 & 31)),
        1 => { out.push((m << 5) | 24); out.push(n as u8); }
        2 => { out.push((m << 5) | 25); out.extend_from_slice(&(n as u16).to_be_bytes()); }
        3 => { out.push((m << 5) | 26); out.extend_from_slice(&(n as u32).to_be_bytes()); }
        _ => { out.push((m << 5) | 27); out.extend_from_slice(&n.to_be_bytes()); }
    }
}

impl Item {
    pub fn new(kind: Kind) -> Item { Item { start: 0, end: 0, kind } }
    pub fn uint(n: u64) -> Item { Item::new(Kind::UInt(min_w(n), n)) }
    pub fn bytes(d: &[u8]) -> Item { Item::new(Kind::Bytes(min_w(d.len() as u64), d.to_vec())) }
    pub fn array(xs: Vec<Item>) -> Item { Item::new(Kind::Array(Some(min_w(xs.len() as u64)), xs)) }
    pub fn span<'a>(&self, b: &'a [u8]) -> &'a [u8] { &b[self.start..self.end] }

    pub fn write(&self, out: &mut Vec<u8>) {
        match &self.kind {
            Kind::UInt(w, n) => put_head(out, 0, *w, *n),
            Kind::NInt(w, n) => put_head(out, 1, *w, *n),
            Kind::Bytes(w, d) => { put_head(out, 2, *w, d.len() as u64); out.extend_from_slice(d); }
            Kind::Text(w, d) => { put_head(out, 3, *w, d.len() as u64); out.extend_from_slice(d); }
            Kind::BytesIndef(cs) => { out.push(0x5f); for (w, d) in cs { put_head(out, 2, *w, d.len() as u64); out.extend_from_slice(d); } out.push(0xff); }
            Kind::TextIndef(cs) => { out.push(0x7f); for (w, d) in cs { put_head(out, 3, *w, d.len() as u64); out.extend_from_slice(d); } out.push(0xff); }
            Kind::Array(Some(w), xs) => { put_head(out, 4, *w, xs.len() as u64); for x in xs { x.write(out); } }
            Kind::Array(None, xs) => { out.push(0x9f); for x in xs { x.write(out); } out.push(0xff); }
            Kind::Map(Some(w), xs) => { put_head(out, 5, *w, xs.len() as u64); for (k, v) in xs { k.write(out); v.write(out); } }
            Kind::Map(None, xs) => { out.push(0xbf); for (k, v) in xs { k.write(out); v.write(out); } out.push(0xff); }
            Kind::Tag(w, t, x) => { put_head(out, 6, *w, *t); x.write(out); }
            Kind::Simple(w, n) => put_head(out, 7, *w, *n),
        }
    }
    pub fn to_vec(&self) -> Vec<u8> { let mut v = vec![]; self.write(&mut v); v }

    /// Array elements (through an optional tag when `through_tag`).
    pub fn elems(&self) -> Option<&Vec<Item>> { match &self.kind { Kind::Array(_, xs) => Some(xs), _ => None } }
    pub fn elems_untag(&self) -> Option<&Vec<Item>> {
        match &self.kind { Kind::Array(_, xs) => Some(xs), Kind::Tag(_, _, x) => x.elems(), _ => None }
    }
    pub fn entries(&self) -> Option<&Vec<(Item, Item)>> { match &self.kind { Kind::Map(_, xs) => Some(xs), _ => None } }
    pub fn as_uint(&self) -> Option<u64> { match &self.kind { Kind::UInt(_, n) => Some(*n), _ => None } }
    /// value of the LAST entry whose key is the unsigned integer `k` (derive map structs: last wins)
    pub fn get(&self, k: u64) -> Option<&Item> {
        self.entries()?.iter().rev().find(|(key, _)| key.as_uint() == Some(k)).map(|(_, v)| v)
    }
    pub fn at(&self, i: usize) -> Option<&Item> { self.elems()?.get(i) }

    pub fn count(&self) -> usize {
        1 + match &self.kind {
            Kind::Array(_, xs) => xs.iter().map(|x| x.count()).sum::<usize>(),
            Kind::Map(_, xs) => xs.iter().map(|(k, v)| k.count() + v.count()).sum::<usize>(),
            Kind::Tag(_, _, x) => x.count(),
            _ => 0,
        }
    }
    /// n-th node in pre-order (0 = self)
    pub fn nth_mut(&mut self, n: &mut usize) -> Option<&mut Item> {
        if *n == 0 { return Some(self); }
        *n -= 1;
        match &mut self.kind {
            Kind::Array(_, xs) => { for x in xs { if let Some(r) = x.nth_mut(n) { return Some(r); } } None }
            Kind::Map(_, xs) => { for (k, v) in xs { if let Some(r) = k.nth_mut(n) { return Some(r); } if let Some(r) = v.nth_mut(n) { return Some(r); } } None }
            Kind::Tag(_, _, x) => x.nth_mut(n),
            _ => None,
        }
    }
    /// pre-order indices of the nodes at depth <= d
    pub fn shallow(&self, d: usize, idx: &mut usize, out: &mut Vec<usize>) {
        out.push(*idx); *idx += 1;
        let deeper = d > 0;
        let mut rec = |x: &Item, idx: &mut usize, out: &mut Vec<usize>| {
            if deeper { x.shallow(d - 1, idx, out) } else { *idx += x.count() }
        };
        match &self.kind {
            Kind::Array(_, xs) => for x in xs { rec(x, idx, out) },
            Kind::Map(_, xs) => for (k, v) in xs { rec(k, idx, out); rec(v, idx, out) },
            Kind::Tag(_, _, x) => rec(x, idx, out),
            _ => {}
        }
    }
}

/// Names of the structural (meaning-preserving) mutations, for tags / statistics.
pub const MUT_NAMES: [&str; 7] = ["widen-head", "toggle-indef", "chunk-string", "swap-map-entries", "tag258", "unchunk", "embedded"];

fn wider(rng: &mut Rng, w: W, n: u64) -> W {
    let lo = min_w(n).max(0);
    let mut c: Vec<W> = (lo..=4).filter(|x| *x != w && fits(*x, n)).collect();
    if c.is_empty() { c.push(w); }
    *rng.pick(&c)
}

/// Apply one random meaning-preserving re-encoding to the node; returns its name when it applied.
pub fn mutate_node(rng: &mut Rng, it: &mut Item) -> Option<&'static str> {
    let choice = rng.below(10);
    match &mut it.kind {
        Kind::UInt(w, n) | Kind::NInt(w, n) | Kind::Tag(w, n, _) if choice < 8 => { *w = wider(rng, *w, *n); Some("widen-head") }
        Kind::Tag(_, 258, x) => { let inner = (**x).clone(); *it = inner; Some("tag258") }
        // CBOR-in-bytes (tag 24): re-encode the embedded item
        Kind::Tag(_, 24, x) if matches!(x.kind, Kind::Bytes(..)) => {
            let Kind::Bytes(w, d) = &mut x.kind else { unreachable!() };
            let Ok(mut inner) = parse(d) else { return None };
            if inner.end != d.len() { return None; }
            let names = mutate(rng, &mut inner, 1);
            if names.is_empty() { return None; }
            *d = inner.to_vec(); if !fits(*w, d.len() as u64) { *w = min_w(d.len() as u64); }
            Some("embedded")
        }
        Kind::Bytes(w, d) | Kind::Text(w, d) => {
            if choice < 7 { *w = wider(rng, *w, d.len() as u64); Some("widen-head") }
            else {
                let is_b = matches!(it.kind, Kind::Bytes(..));
                let d = match &it.kind { Kind::Bytes(_, d) | Kind::Text(_, d) => d.clone(), _ => unreachable!() };
                // split at an ASCII-safe point for text (keep UTF-8 valid per chunk): only split when all ASCII
                let cut = if d.is_empty() || (!is_b && d.iter().any(|c| *c >= 0x80)) { d.len() } else { rng.below(d.len() as u64 + 1) as usize };
                let cs: Vec<(W, Vec<u8>)> = if cut == 0 || cut == d.len() { vec![(min_w(d.len() as u64), d.clone())] }
                    else { vec![(min_w(cut as u64), d[..cut].to_vec()), (min_w((d.len() - cut) as u64), d[cut..].to_vec())] };
                it.kind = if is_b { Kind::BytesIndef(cs) } else { Kind::TextIndef(cs) };
                Some("chunk-string")
            }
        }
        Kind::BytesIndef(cs) => { let d: Vec<u8> = cs.iter().flat_map(|c| c.1.clone()).collect(); it.kind = Kind::Bytes(min_w(d.len() as u64), d); Some("unchunk") }
        Kind::TextIndef(cs) => { let d: Vec<u8> = cs.iter().flat_map(|c| c.1.clone()).collect(); it.kind = Kind::Text(min_w(d.len() as u64), d); Some("unchunk") }
        Kind::Array(w, xs) => {
            if choice < 4 { *w = match *w { Some(_) => None, None => Some(min_w(xs.len() as u64)) }; Some("toggle-indef") }
            else if choice < 8 { match w { Some(x) => { *x = wider(rng, *x, xs.len() as u64); Some("widen-head") } None => { *w = Some(min_w(xs.len() as u64)); Some("toggle-indef") } } }
            else { let inner = it.clone(); *it = Item::new(Kind::Tag(2, 258, Box::new(inner))); Some("tag258") }
        }
        Kind::Map(w, xs) => {
            if choice < 3 { *w = match *w { Some(_) => None, None => Some(min_w(xs.len() as u64)) }; Some("toggle-indef") }
            else if choice < 6 { match w { Some(x) => { *x = wider(rng, *x, xs.len() as u64); Some("widen-head") } None => { *w = Some(min_w(xs.len() as u64)); Some("toggle-indef") } } }
            else if xs.len() >= 2 {
                let i = rng.below(xs.len() as u64) as usize; let mut j = rng.below(xs.len() as u64 - 1) as usize; if j >= i { j += 1; }
                xs.swap(i, j); Some("swap-map-entries")
            } else { None }
        }
        Kind::Simple(..) => None,
        _ => None,
    }
}

/// `k` random structural mutations of the tree (half of them near the root); returns the names applied.
pub fn mutate(rng: &mut Rng, root: &mut Item, k: usize) -> Vec<&'static str> {
    let mut names = vec![];
    let total = root.count();
    let mut shallow = vec![]; let mut idx = 0; root.shallow(3, &mut idx, &mut shallow);
    for _ in 0..k {
        for _try in 0..8 {
            let mut n = if rng.bool() { *rng.pick(&shallow) } else { rng.below(total as u64) as usize };
            // the tree may have changed shape (tag258 adds/removes one node): clamp
            let cnt = root.count(); if n >= cnt { n = cnt - 1; }
            if let Some(node) = root.nth_mut(&mut n) {
                if let Some(name) = mutate_node(rng, node) { names.push(name); break; }
            }
        }
    }
    names
}

/// Byte-level corruptions (for the totality checks): returns the name of what was done.
pub fn corrupt(rng: &mut Rng, b: &mut Vec<u8>, other: &[u8]) -> &'static str {
    if b.is_empty() { b.push(rng.byte()); return "grow"; }
    match rng.below(8) {
        0 => { let i = rng.below(b.len() as u64) as usize; b[i] ^= 1 << rng.below(8); "bit-flip" }
        1 => { let n = rng.below(b.len() as u64) as usize; b.truncate(n); "truncate" }
        2 => { let i = rng.below(b.len() as u64) as usize; b[i] = rng.byte(); "byte-set" }
        3 => { // length-field corruption: find a head with a following argument and change the argument
            let i = rng.below(b.len() as u64) as usize;
            let mut j = i; while j < b.len() && (b[j] & 31) < 24 && (b[j] >> 5) < 2 { j += 1; }
            if j >= b.len() { j = i; }
            let info = b[j] & 31;
            if info < 24 { b[j] = (b[j] & 0xe0) | (rng.below(28) as u8); }
            else if j + 1 < b.len() { let k = j + 1 + rng.below(((1usize << (info.saturating_sub(24)).min(3)) as u64).min((b.len() - j - 1) as u64)) as usize; b[k] = *rng.pick(&[0u8, 1, 0x7f, 0x80, 0xff, 0xfe]); }
            "length-field" }
        4 => { // splice a slice of another artefact in
            if other.is_empty() { return "noop"; }
            let i = rng.below(b.len() as u64 + 1) as usize; let s = rng.below(other.len() as u64) as usize;
            let l = rng.range(1, 24.min((other.len() - s) as u64)) as usize;
            let tail = b.split_off(i); b.extend_from_slice(&other[s..s + l]); b.extend_from_slice(&tail); "splice-insert" }
        5 => { let i = rng.below(b.len() as u64) as usize; let l = rng.range(1, 8.min((b.len() - i) as u64)) as usize; b.drain(i..i + l); "delete" }
        6 => { let i = rng.below(b.len() as u64) as usize; b[i] = *rng.pick(&[0x1bu8, 0x3b, 0x5b, 0x7b, 0x9b, 0xbb, 0xdb, 0xfb, 0x9f, 0xbf, 0x5f, 0x7f, 0xff, 0x1f, 0x3f, 0xdf, 0xf8, 0xf9]); "head-swap" }
        _ => { let i = rng.below(b.len() as u64) as usize; let l = rng.range(1, 9) as usize; for _ in 0..l { b.insert(i, 0xff); } if rng.bool() { for k in 0..l { b[i + k] = rng.byte(); } } "insert" }
    }
}

// ---------------------------------------------------------------- targeted corruptions
fn head_len(ib: u8) -> usize { match ib & 31 { 0..=23 => 1, 24 => 2, 25 => 3, 26 => 5, 27 => 9, _ => 1 } }

/// (start, head length, major) of every definite array / map / byte string / text string head, pre-order
pub fn container_heads(root: &Item, b: &[u8], out: &mut Vec<(usize, usize, u8)>) {
    let ib = b[root.start];
    match &root.kind {
        Kind::Array(Some(_), xs) => { out.push((root.start, head_len(ib), 4)); for x in xs { container_heads(x, b, out); } }
        Kind::Array(None, xs) => for x in xs { container_heads(x, b, out); },
        Kind::Map(Some(_), xs) => { out.push((root.start, head_len(ib), 5)); for (k, v) in xs { container_heads(k, b, out); container_heads(v, b, out); } }
        Kind::Map(None, xs) => for (k, v) in xs { container_heads(k, b, out); container_heads(v, b, out); },
        Kind::Bytes(..) => out.push((root.start, head_len(ib), 2)),
        Kind::Text(..) => out.push((root.start, head_len(ib), 3)),
        Kind::Tag(_, _, x) => container_heads(x, b, out),
        _ => {}
    }
}

/// the same bytes with the head at `start` declaring the length `l` (contents untouched)
pub fn with_declared_len(b: &[u8], start: usize, hl: usize, major: u8, l: u64) -> Vec<u8> {
    let mut v = b[..start].to_vec();
    if l <= u32::MAX as u64 { v.push((major << 5) | 26); v.extend_from_slice(&(l as u32).to_be_bytes()); }
    else { v.push((major << 5) | 27); v.extend_from_slice(&l.to_be_bytes()); }
    v.extend_from_slice(&b[start + hl..]);
    v
}

pub const HUGE_LENS: [u64; 5] = [0xffff_ffff, 1 << 32, 1 << 62, u64::MAX - 1, u64::MAX];

/// every map of the tree with one of its entries repeated (one mutant per map, up to `cap`)
pub fn duplicate_key_mutants(rng: &mut Rng, root: &Item, cap: usize) -> Vec<Vec<u8>> {
    let mut out = vec![];
    let total = root.count();
    for n in 0..total {
        if out.len() >= cap { break; }
        let mut r = root.clone();
        let mut k = n;
        let Some(node) = r.nth_mut(&mut k) else { continue };
        if let Kind::Map(_, xs) = &mut node.kind {
            if xs.is_empty() { continue; }
            let i = rng.below(xs.len() as u64) as usize;
            let e = xs[i].clone();
            if rng.bool() { xs.push(e); } else { xs.insert(i, e); }
            out.push(r.to_vec());
        }
    }
    out
}

/// texts that straddle typical truncation limits with a multi-byte character
pub fn nasty_texts() -> Vec<Vec<u8>> {
    let mut v: Vec<Vec<u8>> = vec![];
    for n in [23usize, 24, 63, 64, 127, 255, 256, 1023, 1024, 4095, 65535] {
        for tail in ["é", "€", "𝄞", "ééé"] {
            let mut s = vec![b'a'; n]; s.extend_from_slice(tail.as_bytes()); v.push(s.clone());
            if n > 0 { let mut s2 = vec![b'a'; n - 1]; s2.extend_from_slice(tail.as_bytes()); s2.extend_from_slice(b"zz"); v.push(s2); }
        }
    }
    v.push(vec![b'x'; 70_000]);
    v.push(vec![0xc3]); v.push(vec![b'a', 0xe2, 0x82]); v.push(vec![0xff, 0xfe]);
    v
}

/// every text string of the tree replaced by `txt` (one mutant per text node, up to `cap`)
pub fn text_mutants(root: &Item, txt: &[u8], cap: usize) -> Vec<Vec<u8>> {
    let mut out = vec![];
    let total = root.count();
    for n in 0..total {
        if out.len() >= cap { break; }
        let mut r = root.clone();
        let mut k = n;
        let Some(node) = r.nth_mut(&mut k) else { continue };
        if let Kind::Text(..) = node.kind { node.kind = Kind::Text(min_w(txt.len() as u64), txt.to_vec()); out.push(r.to_vec()); }
    }
    out
}

/// every array / map node toggled between definite and indefinite form, one node per mutant
pub fn single_toggles(root: &Item, cap: usize) -> Vec<Vec<u8>> {
    let mut out = vec![];
    let total = root.count();
    for n in 0..total {
        if out.len() >= cap { break; }
        let mut r = root.clone();
        let mut k = n;
        let Some(node) = r.nth_mut(&mut k) else { continue };
        match &mut node.kind {
            Kind::Array(w, xs) => { *w = match *w { Some(_) => None, None => Some(min_w(xs.len() as u64)) }; out.push(r.to_vec()); }
            Kind::Map(w, xs) => { *w = match *w { Some(_) => None, None => Some(min_w(xs.len() as u64)) }; out.push(r.to_vec()); }
            _ => {}
        }
    }
    out
}

/// every integer / length / tag head written with 8 argument bytes, one node per mutant
pub fn single_widens(root: &Item, cap: usize) -> Vec<Vec<u8>> {
    let mut out = vec![];
    let total = root.count();
    for n in 0..total {
        if out.len() >= cap { break; }
        let mut r = root.clone();
        let mut k = n;
        let Some(node) = r.nth_mut(&mut k) else { continue };
        let done = match &mut node.kind {
            Kind::UInt(w, _) | Kind::NInt(w, _) | Kind::Tag(w, _, _) | Kind::Bytes(w, _) | Kind::Text(w, _) if *w != 4 => { *w = 4; true }
            Kind::Array(Some(w), _) | Kind::Map(Some(w), _) if *w != 4 => { *w = 4; true }
            _ => false,
        };
        if done { out.push(r.to_vec()); }
    }
    out
}
