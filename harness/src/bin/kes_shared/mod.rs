//! Shared by c12.rs and c13.rs (included with `#[path]`): uniform access to the 14 real
//! Sum{1..7}Kes / Sum{1..7}CompactKes types, and an INDEPENDENT recomputation of the whole
//! key tree (blake2b seed tree, Ed25519 keys/signatures via pallas_crypto::key::ed25519 =
//! cryptoxide, not the dalek code the KES module uses) used to classify every 32-byte
//! slot the real code writes.
#![allow(dead_code)]
use pallas_crypto::hash::Hasher;
use pallas_crypto::kes::common::PublicKey;
use pallas_crypto::kes::errors::Error;
use pallas_crypto::kes::summed_kes::*;
use pallas_crypto::kes::traits::{KesCompactSig, KesSig, KesSk};
use pallas_crypto::key::ed25519::SecretKey;
use std::collections::HashMap;
use verif_harness::*;

pub const JUNK: u8 = 0xAA;

/// Stateless access to one KES type; the key lives in the caller's byte buffer
/// (`SIZE + 4` bytes) exactly as the crate's API prescribes. Key objects are
/// `mem::forget`-ed so their Drop (which wipes the buffer) does not hide what the
/// operation itself left in the buffer.
pub trait KesOps {
    const NAME: &'static str;
    const DEPTH: u32;
    const COMPACT: bool;
    const SIZE: usize;
    const SIG_SIZE: usize;
    fn keygen(buf: &mut [u8], seed: &mut [u8]) -> Out<Vec<u8>>;
    /// Ok(true) = updated, Ok(false) = Err(KeyCannotBeUpdatedMore)
    fn update(buf: &mut [u8]) -> Out<bool>;
    fn period(buf: &mut [u8]) -> Out<u32>;
    fn to_pk(buf: &mut [u8]) -> Out<Vec<u8>>;
    /// (signature bytes, from_bytes(to_bytes(sig)) == Ok(sig))
    fn sign(buf: &mut [u8], m: &[u8]) -> Out<(Vec<u8>, bool)>;
    /// from_bytes(sig) and then verify(period, pk, m) both succeed
    fn verify(sig: &[u8], period: u32, pk: &[u8], m: &[u8]) -> Out<bool>;
}

macro_rules! kes_ops {
    ($ty:ident, $sig:ident, $depth:expr, $compact:expr, $vtrait:ident) => {
        impl KesOps for $sig {
            const NAME: &'static str = stringify!($ty);
            const DEPTH: u32 = $depth;
            const COMPACT: bool = $compact;
            const SIZE: usize = <$ty<'static> as KesSk<'static>>::SIZE;
            const SIG_SIZE: usize = $sig::SIZE;
            fn keygen(buf: &mut [u8], seed: &mut [u8]) -> Out<Vec<u8>> {
                guard_total(|| {
                    let (sk, pk) = $ty::keygen(buf, seed);
                    std::mem::forget(sk);
                    pk.as_bytes().to_vec()
                })
            }
            fn update(buf: &mut [u8]) -> Out<bool> {
                guard(|| {
                    let mut sk = $ty::from_bytes(buf).map_err(|e| format!("{e:?}"))?;
                    let r = sk.update();
                    std::mem::forget(sk);
                    match r {
                        Ok(()) => Ok(true),
                        Err(Error::KeyCannotBeUpdatedMore) => Ok(false),
                        Err(e) => Err(format!("{e:?}")),
                    }
                })
            }
            fn period(buf: &mut [u8]) -> Out<u32> {
                guard(|| {
                    let sk = $ty::from_bytes(buf).map_err(|e| format!("{e:?}"))?;
                    let p = sk.get_period();
                    std::mem::forget(sk);
                    Ok(p)
                })
            }
            fn to_pk(buf: &mut [u8]) -> Out<Vec<u8>> {
                guard(|| {
                    let sk = $ty::from_bytes(buf).map_err(|e| format!("{e:?}"))?;
                    let p = sk.to_pk();
                    std::mem::forget(sk);
                    Ok(p.as_bytes().to_vec())
                })
            }
            fn sign(buf: &mut [u8], m: &[u8]) -> Out<(Vec<u8>, bool)> {
                guard(|| {
                    let sk = $ty::from_bytes(buf).map_err(|e| format!("{e:?}"))?;
                    let sig = sk.sign(m);
                    std::mem::forget(sk);
                    let bytes = sig.to_bytes().to_vec();
                    let rt = match $sig::from_bytes(&bytes) { Ok(s2) => s2 == sig, Err(_) => false };
                    Ok((bytes, rt))
                })
            }
            fn verify(sig: &[u8], period: u32, pk: &[u8], m: &[u8]) -> Out<bool> {
                guard_total(|| {
                    let s = match $sig::from_bytes(sig) { Ok(s) => s, Err(_) => return false };
                    let pk = match PublicKey::from_bytes(pk) { Ok(p) => p, Err(_) => return false };
                    $vtrait::verify(&s, period, &pk, m).is_ok()
                })
            }
        }
    };
}

kes_ops!(Sum1Kes, Sum1KesSig, 1, false, KesSig);
kes_ops!(Sum2Kes, Sum2KesSig, 2, false, KesSig);
kes_ops!(Sum3Kes, Sum3KesSig, 3, false, KesSig);
kes_ops!(Sum4Kes, Sum4KesSig, 4, false, KesSig);
kes_ops!(Sum5Kes, Sum5KesSig, 5, false, KesSig);
kes_ops!(Sum6Kes, Sum6KesSig, 6, false, KesSig);
kes_ops!(Sum7Kes, Sum7KesSig, 7, false, KesSig);
kes_ops!(Sum1CompactKes, Sum1CompactKesSig, 1, true, KesCompactSig);
kes_ops!(Sum2CompactKes, Sum2CompactKesSig, 2, true, KesCompactSig);
kes_ops!(Sum3CompactKes, Sum3CompactKesSig, 3, true, KesCompactSig);
kes_ops!(Sum4CompactKes, Sum4CompactKesSig, 4, true, KesCompactSig);
kes_ops!(Sum5CompactKes, Sum5CompactKesSig, 5, true, KesCompactSig);
kes_ops!(Sum6CompactKes, Sum6CompactKesSig, 6, true, KesCompactSig);
kes_ops!(Sum7CompactKes, Sum7CompactKesSig, 7, true, KesCompactSig);

/// Calls `$f::<T>($args)` for the KES type selected by (compact, depth).
#[macro_export]
macro_rules! dispatch_kes {
    ($compact:expr, $depth:expr, $f:ident, $($args:expr),*) => {
        match ($compact, $depth) {
            (false, 1) => $f::<Sum1KesSig>($($args),*),
            (false, 2) => $f::<Sum2KesSig>($($args),*),
            (false, 3) => $f::<Sum3KesSig>($($args),*),
            (false, 4) => $f::<Sum4KesSig>($($args),*),
            (false, 5) => $f::<Sum5KesSig>($($args),*),
            (false, 6) => $f::<Sum6KesSig>($($args),*),
            (false, 7) => $f::<Sum7KesSig>($($args),*),
            (true, 1) => $f::<Sum1CompactKesSig>($($args),*),
            (true, 2) => $f::<Sum2CompactKesSig>($($args),*),
            (true, 3) => $f::<Sum3CompactKesSig>($($args),*),
            (true, 4) => $f::<Sum4CompactKesSig>($($args),*),
            (true, 5) => $f::<Sum5CompactKesSig>($($args),*),
            (true, 6) => $f::<Sum6CompactKesSig>($($args),*),
            (true, 7) => $f::<Sum7CompactKesSig>($($args),*),
            _ => panic!("no such KES type"),
        }
    };
}

pub type B32 = [u8; 32];

pub fn blake2b_256(parts: &[&[u8]]) -> B32 {
    let mut h = Hasher::<256>::new();
    for p in parts { h.input(p); }
    *h.finalize()
}
pub fn split_left(s: &B32) -> B32 { blake2b_256(&[&[1u8], s]) }
pub fn split_right(s: &B32) -> B32 { blake2b_256(&[&[2u8], s]) }
pub fn ed_public(s: &B32) -> B32 {
    let sk = SecretKey::from(*s);
    let mut out = [0u8; 32];
    out.copy_from_slice(sk.public_key().as_ref());
    out
}
pub fn ed_sign(s: &B32, m: &[u8]) -> [u8; 64] {
    let sk = SecretKey::from(*s);
    let mut out = [0u8; 64];
    out.copy_from_slice(sk.sign(m).as_ref());
    out
}

/// message number -> bytes (distinct numbers give distinct byte strings)
pub fn msg_bytes(id: u64) -> Vec<u8> {
    match id {
        0 => vec![],
        1 => b"tilin".to_vec(),
        _ => { let mut r = Rng::new(0x6d73_6700 + id); let len = 1 + (id * 37 % 300) as usize; let mut v = r.bytes(len); v.extend_from_slice(&id.to_be_bytes()); v }
    }
}

/// The whole depth-d key tree recomputed from the master seed, independently of the KES code.
pub struct Tree {
    pub d: u32,
    pub k: i64,
    pub seeds: Vec<Vec<B32>>, // seeds[lvl][idx], lvl 0 = master, lvl d = leaf secrets
    pub pks: Vec<Vec<B32>>,   // pks[lvl][idx] = public key of the subtree rooted there
}
impl Tree {
    pub fn new(d: u32, k: i64, master: &B32) -> Tree {
        let mut seeds = vec![vec![*master]];
        for l in 0..d as usize {
            let mut next = Vec::with_capacity(2 << l);
            for s in &seeds[l] { next.push(split_left(s)); next.push(split_right(s)); }
            seeds.push(next);
        }
        let mut pks: Vec<Vec<B32>> = vec![vec![]; d as usize + 1];
        pks[d as usize] = seeds[d as usize].iter().map(ed_public).collect();
        for l in (0..d as usize).rev() {
            pks[l] = (0..1usize << l).map(|i| blake2b_256(&[&pks[l + 1][2 * i], &pks[l + 1][2 * i + 1]])).collect();
        }
        Tree { d, k, seeds, pks }
    }
    pub fn root_pk(&self) -> B32 { self.pks[0][0] }
    /// first leaf below node (lvl, idx), and one past the last
    pub fn leaves_of(&self, lvl: usize, idx: usize) -> (usize, usize) {
        let w = 1usize << (self.d as usize - lvl);
        (idx * w, (idx + 1) * w)
    }
}

/// 32-byte value -> Coq `cls` term
pub struct Classifier { pub map: HashMap<B32, String> }
impl Classifier {
    pub fn new() -> Classifier {
        let mut map = HashMap::new();
        map.insert([0u8; 32], "KZero".to_string());
        map.insert([JUNK; 32], "KJunk".to_string());
        Classifier { map }
    }
    pub fn add_tree(&mut self, t: &Tree) {
        for (l, row) in t.seeds.iter().enumerate() {
            for (i, s) in row.iter().enumerate() { self.map.entry(*s).or_insert(format!("(KSeed {} {} {})", coq_z(t.k), l, i)); }
        }
        for (l, row) in t.pks.iter().enumerate() {
            for (i, s) in row.iter().enumerate() { self.map.entry(*s).or_insert(format!("(KPk {} {} {})", coq_z(t.k), l, i)); }
        }
    }
    /// signatures of every leaf of `t` on message number `m`
    pub fn add_sigs(&mut self, t: &Tree, m: u64) {
        let mb = msg_bytes(m);
        for (i, s) in t.seeds[t.d as usize].iter().enumerate() {
            let sg = ed_sign(s, &mb);
            let mut a = [0u8; 32]; a.copy_from_slice(&sg[..32]);
            let mut b = [0u8; 32]; b.copy_from_slice(&sg[32..]);
            self.map.entry(a).or_insert(format!("(KSigR {} {} {})", coq_z(t.k), i, m));
            self.map.entry(b).or_insert(format!("(KSigS {} {} {})", coq_z(t.k), i, m));
        }
    }
    pub fn cls(&self, b: &[u8]) -> String {
        let mut k = [0u8; 32];
        k.copy_from_slice(b);
        self.map.get(&k).cloned().unwrap_or_else(|| "KOther".to_string())
    }
    /// classify a byte string slot by slot (length must be a multiple of 32)
    pub fn slots(&self, b: &[u8]) -> String {
        let v: Vec<String> = b.chunks(32).map(|c| if c.len() == 32 { self.cls(c) } else { "KOther".to_string() }).collect();
        format!("[{}]", v.join(";"))
    }
}

pub fn out_string<T, F: Fn(&T) -> String>(o: &Out<T>, f: F) -> String {
    match o { Out::Ok(v) => f(v), Out::Err(e) => format!("Err({})", e), Out::Panic(p) => format!("PANIC({})", p) }
}

/// One real key, driven through its life. `buf` is the caller's buffer the crate works in.
pub struct Live {
    pub buf: Vec<u8>,
    pub seed_after: Vec<u8>,
    pub pk: Vec<u8>,
}
pub fn live_keygen<K: KesOps>(master: &B32) -> Result<Live, String> {
    let mut buf = vec![JUNK; K::SIZE + 4];
    let mut seed = master.to_vec();
    match K::keygen(&mut buf, &mut seed) {
        Out::Ok(pk) => Ok(Live { buf, seed_after: seed, pk }),
        Out::Err(e) => Err(format!("keygen error {}", e)),
        Out::Panic(p) => Err(format!("keygen panic {}", p)),
    }
}
