(* CBOR core — Decoder::skip consumes exactly one well-formed item:

     skip_item : wf_item i = true -> len (encode_item i) < u64_max ->
                 d_skip (encode_item i ++ r) = DOk r

   The transcribed loop (Skip.v) keeps a counter pair (nrounds, irounds) until it
   meets an indefinite container while two or more items are pending, and a stack
   afterwards. The proof runs the loop token by token ([iter], [runs]) and shows,
   by induction on the item, that a whole item has the effect of one scalar token
   ([eff]): exactly in stack mode, and up to the change of representation
   counter -> stack ([rep]) in counter mode. *)
From PV Require Import Lib.Base Cbor.Item Cbor.Enc Cbor.Dec Cbor.HeadLaws Cbor.Laws Cbor.Api Cbor.Skip.
Open Scope Z_scope.

Definition state : Type := (Z * Z * sstack)%type.
Inductive outcome : Type := Running (s : state) | Done.

Definition running (s : state) : bool :=
  let '(n, i, st) := s in negb (idle n i && match st with [] => true | _ => false end).

Definition post_outcome (n i : Z) (st : sstack) : outcome :=
  match skip_post n i st with None => Done | Some s2 => Running s2 end.

(* one iteration of the loop body on a running state *)
Definition iter (s : state) (bs : list Z) : dres (outcome * list Z) :=
  let '(n, i, st) := s in
  match bs with
  | [] => DEoi
  | b :: r0 =>
    if negb (byteb b) then DErr
    else if (192 <=? b) && (b <=? 219) then
      dbind (dec_head bs) (fun '(_, h, r) =>
        match h with HArg _ _ => DOk (Running s, r) | HIndef => DErr end)
    else
      dbind (skip_token n i st b bs r0) (fun '(n1, i1, st1, r) => DOk (post_outcome n1 i1 st1, r))
  end.

Definition cont (o : outcome) (f : nat) (r : list Z) : dres (list Z) :=
  match o with Done => DOk r | Running (n, i, st) => skip_loop f n i st r end.

Lemma skip_loop_step f n i st bs o r :
  running (n, i, st) = true -> iter (n, i, st) bs = DOk (o, r) ->
  skip_loop (S f) n i st bs = cont o f r.
Proof.
  intros Hr Hi. cbn [skip_loop]. unfold running in Hr.
  destruct (idle n i && match st with [] => true | _ => false end); [discriminate|].
  unfold iter in Hi. destruct bs as [|b r0]; [discriminate|].
  destruct (negb (byteb b)); [discriminate|].
  destruct ((192 <=? b) && (b <=? 219)).
  - apply dbind_ok in Hi as ([[m h] r1] & Hh & Hi). rewrite Hh. cbn [dbind].
    destruct h; [|discriminate]. inversion Hi; subst. reflexivity.
  - apply dbind_ok in Hi as ([[[n1 i1] st1] r1] & Ht & Hi). rewrite Ht. cbn [dbind].
    inversion Hi; subst. unfold post_outcome. destruct (skip_post n1 i1 st1) as [[[n2 i2] st2]|]; reflexivity.
Qed.

(* k iterations through running states *)
Inductive runs : state -> list Z -> outcome -> list Z -> nat -> Prop :=
| runs_nil s bs : runs s bs (Running s) bs 0
| runs_one s bs o r : running s = true -> iter s bs = DOk (o, r) -> runs s bs o r 1
| runs_cons s bs s' r' o r k :
    running s = true -> iter s bs = DOk (Running s', r') -> runs s' r' o r k -> runs s bs o r (S k).

Lemma runs_skip s bs o r k : runs s bs o r k ->
  forall f, let '(n, i, st) := s in skip_loop (k + f) n i st bs = cont o f r.
Proof.
  induction 1 as [[[n i] st] bs | [[n i] st] bs o r Hr Hi | [[n i] st] bs [[n' i'] st'] r' o r k Hr Hi _ IH]; intros f.
  - reflexivity.
  - apply (skip_loop_step f n i st bs o r Hr Hi).
  - cbn [Nat.add]. rewrite (skip_loop_step (k + f) n i st bs _ _ Hr Hi). cbn [cont]. apply IH.
Qed.

Lemma runs_app s bs s' r' o r k1 k2 :
  runs s bs (Running s') r' k1 -> runs s' r' o r k2 -> runs s bs o r (k1 + k2).
Proof.
  intros H1 H2. remember (Running s') as o1 eqn:Eo. revert s' Eo H2.
  induction H1 as [s bs | s bs o1 r1 Hr Hi | s bs s1 r1 o1 r2 k Hr Hi H1 IH]; intros s' Eo H2; subst.
  - inversion Eo; subst. exact H2.
  - cbn [Nat.add]. eapply runs_cons; eassumption.
  - cbn [Nat.add]. eapply runs_cons; [exact Hr|exact Hi|]. apply (IH s' eq_refl H2).
Qed.

(* the effect of one complete scalar token *)
Definition eff (s : state) : outcome := let '(n, i, st) := s in post_outcome n i st.

(* ---------------------------------------------------------------- first bytes *)
Definition head_byte (m : major) (w : width) (n : Z) : Z :=
  major_code m * 32 + match w with W0 => n | _ => width_info w end.

Lemma enc_head_cons m w n :
  enc_head m w n = head_byte m w n :: match w with W0 => [] | _ => be_bytes (width_nbytes w) n end.
Proof. destruct w; reflexivity. Qed.

Lemma head_byte_range m w n : arg_fits w n ->
  major_code m * 32 <= head_byte m w n <= major_code m * 32 + 27 /\ head_byte m w n mod 32 <> 31.
Proof.
  unfold arg_fits, head_byte. pose proof (major_code_range m) as Hmc.
  destruct w; cbn [width_bound width_info]; intros Hn; split; lia.
Qed.

Lemma dec_head_enc_cons m w n rest : arg_fits w n ->
  dec_head (head_byte m w n :: match w with W0 => [] | _ => be_bytes (width_nbytes w) n end ++ rest)
  = DOk (m, HArg w n, rest).
Proof. intros H. pose proof (dec_head_enc m w n rest H) as Hd. rewrite enc_head_cons in Hd. exact Hd. Qed.

Ltac head_facts m w n Hfit :=
  let Hr := fresh "Hr" in let Hm := fresh "Hm" in let Hb := fresh "Hb" in
  destruct (head_byte_range m w n Hfit) as [Hr Hm];
  assert (Hb : byteb (head_byte m w n) = true) by (unfold byteb; pose proof (major_code_range m); lia).

(* ---------------------------------------------------------------- single-token items *)
Lemma iter_scalar s m w n rest :
  (m = MajUInt \/ m = MajNInt \/ m = MajSimple) -> arg_fits w n ->
  iter s (enc_head m w n ++ rest) = DOk (eff s, rest).
Proof.
  intros Hmj Hfit. destruct s as [[n0 i0] st]. rewrite enc_head_cons. cbn [app]. head_facts m w n Hfit.
  unfold iter. rewrite Hb. cbn [negb].
  assert (Htag : (192 <=? head_byte m w n) && (head_byte m w n <=? 219) = false)
    by (destruct Hmj as [->|[->| ->]]; cbn [major_code] in *; lia).
  rewrite Htag. unfold skip_token.
  assert (Hc : (head_byte m w n <=? 27) || ((32 <=? head_byte m w n) && (head_byte m w n <=? 59))
               || ((224 <=? head_byte m w n) && (head_byte m w n <=? 251)) = true)
    by (destruct Hmj as [->|[->| ->]]; cbn [major_code] in *; lia).
  rewrite Hc. rewrite dec_head_enc_cons by exact Hfit. reflexivity.
Qed.

Lemma iter_string_def s m w b rest :
  (m = MajBytes \/ m = MajText) -> arg_fits w (len b) -> bytes_wf b ->
  (m = MajText -> utf8_valid b = true) ->
  iter s (enc_head m w (len b) ++ b ++ rest) = DOk (eff s, rest).
Proof.
  intros Hmj Hfit Hwf Hu. destruct s as [[n0 i0] st]. rewrite enc_head_cons. cbn [app].
  head_facts m w (len b) Hfit. unfold iter. rewrite Hb. cbn [negb].
  assert (Htag : (192 <=? head_byte m w (len b)) && (head_byte m w (len b) <=? 219) = false)
    by (destruct Hmj as [->| ->]; cbn [major_code] in *; lia).
  rewrite Htag. unfold skip_token.
  assert (Hc1 : (head_byte m w (len b) <=? 27) || ((32 <=? head_byte m w (len b)) && (head_byte m w (len b) <=? 59))
               || ((224 <=? head_byte m w (len b)) && (head_byte m w (len b) <=? 251)) = false)
    by (destruct Hmj as [->| ->]; cbn [major_code] in *; lia).
  rewrite Hc1.
  assert (H31 : (head_byte m w (len b) mod 32 =? 31) = false) by lia.
  destruct Hmj as [-> | ->]; cbn [major_code] in *.
  - assert (Hc2 : (64 <=? head_byte MajBytes w (len b)) && (head_byte MajBytes w (len b) <=? 95) = true) by lia.
    rewrite Hc2. unfold skip_string. rewrite H31. rewrite dec_head_enc_cons by exact Hfit. cbn [dbind].
    rewrite take_app by exact Hwf. reflexivity.
  - assert (Hc2 : (64 <=? head_byte MajText w (len b)) && (head_byte MajText w (len b) <=? 95) = false) by lia.
    assert (Hc3 : (96 <=? head_byte MajText w (len b)) && (head_byte MajText w (len b) <=? 127) = true) by lia.
    rewrite Hc2, Hc3. unfold skip_string. rewrite H31. rewrite dec_head_enc_cons by exact Hfit. cbn [dbind].
    rewrite take_app by exact Hwf. cbn [dbind]. rewrite (Hu eq_refl). reflexivity.
Qed.

Lemma d_str_enc w s r :
  arg_fits w (len s) -> bytes_wf s -> utf8_valid s = true ->
  d_str (enc_head MajText w (len s) ++ s ++ r) = DOk (s, r).
Proof.
  intros Hfit Hwf Hu.
  pose proof (expect_arg_enc (major_eqb MajText) MajText w (len s) (s ++ r) (major_eqb_refl _) Hfit) as He.
  rewrite enc_head_cons in *. cbn [app] in *. head_facts MajText w (len s) Hfit. cbn [major_code] in *.
  unfold d_str. rewrite Hb. cbn [negb].
  assert (Hm3 : major_of_code (head_byte MajText w (len s) / 32) = MajText).
  { replace (head_byte MajText w (len s) / 32) with 3 by lia. reflexivity. }
  rewrite Hm3, major_eqb_refl. assert (H31 : (head_byte MajText w (len s) mod 32 =? 31) = false) by lia.
  rewrite H31. cbn [negb andb]. rewrite He. cbn [dbind]. rewrite take_app by exact Hwf. cbn [dbind]. rewrite Hu. reflexivity.
Qed.

Lemma chunks_loop m cs rest :
  (m = MajBytes \/ m = MajText) -> Forall (wf_chunk m) cs ->
  forall k, (length cs < k)%nat ->
  until_loop (unit_dec (if major_eqb m MajText then d_str else d_bytes)) k
             (concat (map (enc_chunk m) cs) ++ break_byte :: rest)
  = DOk (map (fun _ => tt) cs, rest).
Proof.
  intros Hmj Hcs. induction Hcs as [|c cs (Hfit & Hwf & Hu) _ IH]; intros k Hk.
  - destruct k; [lia|]. reflexivity.
  - cbn [length] in Hk. destruct k as [|k]; [lia|]. destruct c as [w b]. cbn [fst snd] in *.
    cbn [map concat]. unfold enc_chunk at 1. cbn [fst snd]. rewrite <- !app_assoc.
    assert (Hd : unit_dec (if major_eqb m MajText then d_str else d_bytes)
              (enc_head m w (len b) ++ b ++ concat (map (enc_chunk m) cs) ++ break_byte :: rest)
            = DOk (tt, concat (map (enc_chunk m) cs) ++ break_byte :: rest)).
    { unfold unit_dec. destruct Hmj as [-> | ->].
      - change (major_eqb MajBytes MajText) with false. cbn iota. rewrite d_bytes_enc by assumption. reflexivity.
      - change (major_eqb MajText MajText) with true. cbn iota. rewrite d_str_enc by auto. reflexivity. }
    rewrite enc_head_cons in *. cbn [app] in *. head_facts m w (len b) Hfit.
    cbn [until_loop].
    assert (Hnb : (head_byte m w (len b) =? break_byte) = false)
      by (unfold break_byte; pose proof (major_code_range m); lia).
    rewrite Hnb, Hd. cbn [dbind]. rewrite IH by lia. reflexivity.
Qed.

Lemma iter_string_indef s m cs rest :
  (m = MajBytes \/ m = MajText) -> Forall (wf_chunk m) cs ->
  iter s (enc_indef m ++ concat (map (enc_chunk m) cs) ++ [break_byte] ++ rest) = DOk (eff s, rest).
Proof.
  intros Hmj Hcs. destruct s as [[n0 i0] st]. unfold enc_indef. cbn [app].
  pose proof (chunks_loop m cs rest Hmj Hcs) as Hl.
  destruct Hmj as [-> | ->]; cbn [major_code]; unfold iter.
  - change (negb (byteb (2 * 32 + 31))) with false. cbn iota.
    change ((192 <=? 2 * 32 + 31) && (2 * 32 + 31 <=? 219)) with false. cbn iota. unfold skip_token.
    change ((2 * 32 + 31 <=? 27) || ((32 <=? 2 * 32 + 31) && (2 * 32 + 31 <=? 59))
            || ((224 <=? 2 * 32 + 31) && (2 * 32 + 31 <=? 251))) with false. cbn iota.
    change ((64 <=? 2 * 32 + 31) && (2 * 32 + 31 <=? 95)) with true. cbn iota.
    unfold skip_string. change ((2 * 32 + 31) mod 32 =? 31) with true. cbn iota.
    change (major_eqb MajBytes MajText) with false in Hl. cbn iota in Hl.
    rewrite Hl; [reflexivity|]. unfold budget. rewrite app_length.
    pose proof (concat_length_ge (enc_chunk MajBytes) cs) as Hge.
    assert (Hne : Forall (fun c => enc_chunk MajBytes c <> []) cs).
    { eapply Forall_impl; [|exact Hcs]. intros c Hc. destruct (enc_chunk_first MajBytes c Hc) as (b & t & E & _).
      rewrite E. discriminate. }
    specialize (Hge Hne). lia.
  - change (negb (byteb (3 * 32 + 31))) with false. cbn iota.
    change ((192 <=? 3 * 32 + 31) && (3 * 32 + 31 <=? 219)) with false. cbn iota. unfold skip_token.
    change ((3 * 32 + 31 <=? 27) || ((32 <=? 3 * 32 + 31) && (3 * 32 + 31 <=? 59))
            || ((224 <=? 3 * 32 + 31) && (3 * 32 + 31 <=? 251))) with false. cbn iota.
    change ((64 <=? 3 * 32 + 31) && (3 * 32 + 31 <=? 95)) with false. cbn iota.
    change ((96 <=? 3 * 32 + 31) && (3 * 32 + 31 <=? 127)) with true. cbn iota.
    unfold skip_string. change ((3 * 32 + 31) mod 32 =? 31) with true. cbn iota.
    change (major_eqb MajText MajText) with true in Hl. cbn iota in Hl.
    rewrite Hl; [reflexivity|]. unfold budget. rewrite app_length.
    pose proof (concat_length_ge (enc_chunk MajText) cs) as Hge.
    assert (Hne : Forall (fun c => enc_chunk MajText c <> []) cs).
    { eapply Forall_impl; [|exact Hcs]. intros c Hc. destruct (enc_chunk_first MajText c Hc) as (b & t & E & _).
      rewrite E. discriminate. }
    specialize (Hge Hne). lia.
Qed.

(* ---------------------------------------------------------------- container tokens *)
Definition count_eff (m : major) (c : Z) : Z := if major_eqb m MajMap then sat_mul2 c else c.

Lemma iter_open_def s m w c body :
  (m = MajArray \/ m = MajMap) -> arg_fits w c ->
  iter s (enc_head m w c ++ body) =
  let '(n, i, st) := s in
  if c =? 0 then DOk (eff s, body)
  else let '(n', i', st') := open_def n i st (count_eff m c) in DOk (post_outcome n' i' st', body).
Proof.
  intros Hmj Hfit. destruct s as [[n i] st]. rewrite enc_head_cons. cbn [app]. head_facts m w c Hfit.
  unfold iter. rewrite Hb. cbn [negb].
  assert (Htag : (192 <=? head_byte m w c) && (head_byte m w c <=? 219) = false)
    by (destruct Hmj as [->| ->]; cbn [major_code] in *; lia).
  rewrite Htag. unfold skip_token.
  assert (Hc1 : (head_byte m w c <=? 27) || ((32 <=? head_byte m w c) && (head_byte m w c <=? 59))
               || ((224 <=? head_byte m w c) && (head_byte m w c <=? 251)) = false)
    by (destruct Hmj as [->| ->]; cbn [major_code] in *; lia).
  assert (Hc2 : (64 <=? head_byte m w c) && (head_byte m w c <=? 95) = false)
    by (destruct Hmj as [->| ->]; cbn [major_code] in *; lia).
  assert (Hc3 : (96 <=? head_byte m w c) && (head_byte m w c <=? 127) = false)
    by (destruct Hmj as [->| ->]; cbn [major_code] in *; lia).
  rewrite Hc1, Hc2, Hc3.
  pose proof (d_len_enc m w c body Hfit) as Hl. rewrite enc_head_cons in Hl. cbn [app] in Hl.
  destruct Hmj as [-> | ->]; cbn [major_code] in *.
  - assert (Hc4 : (128 <=? head_byte MajArray w c) && (head_byte MajArray w c <=? 159) = true) by lia.
    rewrite Hc4. unfold d_array. rewrite Hl. cbn [dbind]. unfold count_eff.
    change (major_eqb MajArray MajMap) with false. cbn iota.
    destruct (c =? 0); [reflexivity|]. destruct (open_def n i st c) as [[n' i'] st']. reflexivity.
  - assert (Hc4 : (128 <=? head_byte MajMap w c) && (head_byte MajMap w c <=? 159) = false) by lia.
    assert (Hc5 : (160 <=? head_byte MajMap w c) && (head_byte MajMap w c <=? 191) = true) by lia.
    rewrite Hc4, Hc5. unfold d_map. rewrite Hl. cbn [dbind]. unfold count_eff.
    change (major_eqb MajMap MajMap) with true. cbn iota.
    destruct (c =? 0); [reflexivity|]. destruct (open_def n i st (sat_mul2 c)) as [[n' i'] st']. reflexivity.
Qed.

Lemma iter_open_indef s m body :
  (m = MajArray \/ m = MajMap) ->
  iter s (enc_indef m ++ body) =
  let '(n, i, st) := s in let '(n', i', st') := open_indef n i st in DOk (post_outcome n' i' st', body).
Proof.
  intros Hmj. destruct s as [[n i] st]. unfold enc_indef. cbn [app].
  destruct Hmj as [-> | ->]; cbn [major_code]; unfold iter.
  - change (negb (byteb (4 * 32 + 31))) with false. cbn iota.
    change ((192 <=? 4 * 32 + 31) && (4 * 32 + 31 <=? 219)) with false. cbn iota. unfold skip_token.
    change ((4 * 32 + 31 <=? 27) || ((32 <=? 4 * 32 + 31) && (4 * 32 + 31 <=? 59))
            || ((224 <=? 4 * 32 + 31) && (4 * 32 + 31 <=? 251))) with false. cbn iota.
    change ((64 <=? 4 * 32 + 31) && (4 * 32 + 31 <=? 95)) with false. cbn iota.
    change ((96 <=? 4 * 32 + 31) && (4 * 32 + 31 <=? 127)) with false. cbn iota.
    change ((128 <=? 4 * 32 + 31) && (4 * 32 + 31 <=? 159)) with true. cbn iota.
    unfold d_array. change ((4 * 32 + 31) :: body) with (enc_indef MajArray ++ body).
    rewrite d_len_indef by auto. cbn [dbind]. destruct (open_indef n i st) as [[n' i'] st']. reflexivity.
  - change (negb (byteb (5 * 32 + 31))) with false. cbn iota.
    change ((192 <=? 5 * 32 + 31) && (5 * 32 + 31 <=? 219)) with false. cbn iota. unfold skip_token.
    change ((5 * 32 + 31 <=? 27) || ((32 <=? 5 * 32 + 31) && (5 * 32 + 31 <=? 59))
            || ((224 <=? 5 * 32 + 31) && (5 * 32 + 31 <=? 251))) with false. cbn iota.
    change ((64 <=? 5 * 32 + 31) && (5 * 32 + 31 <=? 95)) with false. cbn iota.
    change ((96 <=? 5 * 32 + 31) && (5 * 32 + 31 <=? 127)) with false. cbn iota.
    change ((128 <=? 5 * 32 + 31) && (5 * 32 + 31 <=? 159)) with false. cbn iota.
    change ((160 <=? 5 * 32 + 31) && (5 * 32 + 31 <=? 191)) with true. cbn iota.
    unfold d_map. change ((5 * 32 + 31) :: body) with (enc_indef MajMap ++ body).
    rewrite d_len_indef by auto. cbn [dbind]. destruct (open_indef n i st) as [[n' i'] st']. reflexivity.
Qed.

Lemma iter_break s rest :
  iter s (break_byte :: rest) =
  let '(n, i, st) := s in let '(n', i', st') := on_break n i st in DOk (post_outcome n' i' st', rest).
Proof.
  destruct s as [[n i] st]. unfold iter, break_byte. change (negb (byteb 255)) with false. cbn iota.
  change ((192 <=? 255) && (255 <=? 219)) with false. cbn iota. unfold skip_token.
  change ((255 <=? 27) || ((32 <=? 255) && (255 <=? 59)) || ((224 <=? 255) && (255 <=? 251))) with false. cbn iota.
  change ((64 <=? 255) && (255 <=? 95)) with false. change ((96 <=? 255) && (255 <=? 127)) with false.
  change ((128 <=? 255) && (255 <=? 159)) with false. change ((160 <=? 255) && (255 <=? 191)) with false.
  change (255 =? 255) with true. cbn iota.
  destruct (on_break n i st) as [[n' i'] st']. reflexivity.
Qed.

Lemma iter_tag s w t body : arg_fits w t -> iter s (enc_head MajTag w t ++ body) = DOk (Running s, body).
Proof.
  intros Hfit. destruct s as [[n i] st]. rewrite enc_head_cons. cbn [app]. head_facts MajTag w t Hfit.
  cbn [major_code] in *. unfold iter. rewrite Hb. cbn [negb].
  assert (Htag : (192 <=? head_byte MajTag w t) && (head_byte MajTag w t <=? 219) = true) by lia.
  rewrite Htag. rewrite dec_head_enc_cons by exact Hfit. reflexivity.
Qed.

(* ---------------------------------------------------------------- stack mode: exact *)
Definition L (x : item) : nat := length (encode_item x).

Definition stack_ok (x : item) : Prop :=
  forall st rest, st <> [] ->
    exists k, runs (0, 0, st) (encode_item x ++ rest) (eff (0, 0, st)) rest k /\ (k <= L x)%nat.

Lemma running_stack st : st <> [] -> running (0, 0, st) = true.
Proof. intros H. unfold running, idle. destruct st; [congruence|reflexivity]. Qed.

Lemma eff_some0 st : eff (0, 0, Some 0 :: st) = eff (0, 0, st).
Proof. reflexivity. Qed.

Lemma eff_somek k st : 1 <= k -> eff (0, 0, Some k :: st) = Running (0, 0, Some (k - 1) :: st).
Proof.
  intros Hk. unfold eff, post_outcome, skip_post, idle. cbn [andb Z.eqb drop_zeros].
  change ((0 =? 0) && (0 =? 0)) with true. cbn iota.
  destruct (k =? 0) eqn:E; [lia|]. reflexivity.
Qed.

Lemma eff_none st : eff (0, 0, None :: st) = Running (0, 0, None :: st).
Proof. reflexivity. Qed.

(* children of a definite container in stack mode: Some j on top, j + 1 children left *)
Lemma stack_children_def xs :
  Forall stack_ok xs -> xs <> [] ->
  forall j st rest, j + 1 = len xs ->
    exists k, runs (0, 0, Some j :: st) (encode_items xs ++ rest) (eff (0, 0, st)) rest k /\
              (k <= length (encode_items xs))%nat.
Proof.
  induction 1 as [|x xs Hx Hxs IH]; intros Hne j st rest Hj; [congruence|].
  unfold encode_items. cbn [map concat]. rewrite <- app_assoc. fold (encode_items xs).
  destruct xs as [|x' xs'].
  - assert (j = 0) by (unfold len in Hj; cbn in Hj; lia). subst j.
    destruct (Hx (Some 0 :: st) (encode_items [] ++ rest) ltac:(discriminate)) as (k & Hr & Hk).
    rewrite eff_some0 in Hr. exists k. split; [exact Hr|]. rewrite app_length. unfold L in Hk. lia.
  - assert (Hj1 : 1 <= j) by (unfold len in Hj; cbn [length] in Hj; lia).
    destruct (Hx (Some j :: st) (encode_items (x' :: xs') ++ rest) ltac:(discriminate)) as (k1 & Hr1 & Hk1).
    rewrite eff_somek in Hr1 by exact Hj1.
    destruct (IH ltac:(discriminate) (j - 1) st rest) as (k2 & Hr2 & Hk2).
    { rewrite len_cons in Hj. lia. }
    exists (k1 + k2)%nat. split; [eapply runs_app; eassumption|]. rewrite app_length. unfold L in Hk1. lia.
Qed.

(* children of an indefinite container in stack mode: None on top, unchanged *)
Lemma stack_children_indef xs :
  Forall stack_ok xs ->
  forall st rest,
    exists k, runs (0, 0, None :: st) (encode_items xs ++ rest) (Running (0, 0, None :: st)) rest k /\
              (k <= length (encode_items xs))%nat.
Proof.
  induction 1 as [|x xs Hx _ IH]; intros st rest.
  - exists 0%nat. split; [apply runs_nil|cbn; lia].
  - unfold encode_items. cbn [map concat]. rewrite <- app_assoc. fold (encode_items xs).
    destruct (Hx (None :: st) (encode_items xs ++ rest) ltac:(discriminate)) as (k1 & Hr1 & Hk1).
    rewrite eff_none in Hr1. destruct (IH st rest) as (k2 & Hr2 & Hk2).
    exists (k1 + k2)%nat. split; [eapply runs_app; eassumption|]. rewrite app_length. unfold L in Hk1. lia.
Qed.

(* pairs as a flat list of items *)
Definition unpair (kvs : list (item * item)) : list item := flat_map (fun kv => [fst kv; snd kv]) kvs.
Lemma encode_unpair kvs : encode_items (unpair kvs) = encode_pairs kvs.
Proof.
  unfold encode_items, encode_pairs, unpair. induction kvs as [|[k v] t IH]; [reflexivity|].
  cbn [flat_map map concat app]. rewrite IH. unfold encode_pair. cbn [fst snd]. rewrite <- app_assoc. reflexivity.
Qed.
Lemma len_unpair kvs : len (unpair kvs) = 2 * len kvs.
Proof. unfold len, unpair. induction kvs as [|kv t IH]; [reflexivity|]. cbn [flat_map app length]. lia. Qed.
Lemma Forall_unpair (P : item -> Prop) kvs :
  Forall (fun kv => P (fst kv) /\ P (snd kv)) kvs -> Forall P (unpair kvs).
Proof. induction 1 as [|kv t [H1 H2] _ IH]; [constructor|]. cbn [unpair flat_map app]. constructor; [exact H1|]. constructor; [exact H2|exact IH]. Qed.

Lemma encode_items_length_ge xs :
  Forall (fun x => wf_item x = true) xs -> (length xs <= length (encode_items xs))%nat.
Proof.
  intros H. apply concat_length_ge. eapply Forall_impl; [|exact H]. intros x Hx. apply encode_item_nonempty, Hx.
Qed.

Lemma count_eff_pos m w c : arg_fits w c -> c <> 0 -> 1 <= count_eff m c.
Proof.
  unfold arg_fits, count_eff, sat_mul2, u64_max. intros [H0 _] Hc. destruct (major_eqb m MajMap); lia.
Qed.

Lemma open_def_idle st c : open_def 0 0 st c = (0, 0, Some c :: st).
Proof. reflexivity. Qed.

Lemma stack_container_def m w c ys :
  (m = MajArray \/ m = MajMap) -> arg_fits w c -> Forall stack_ok ys -> c <> 0 -> count_eff m c = len ys ->
  forall st rest, st <> [] ->
    exists k, runs (0, 0, st) (enc_head m w c ++ encode_items ys ++ rest) (eff (0, 0, st)) rest k /\
              (k <= S (length (encode_items ys)))%nat.
Proof.
  intros Hmj Hfit Hys Hc Hce st rest Hst.
  pose proof (count_eff_pos m w c Hfit Hc) as Hlen. rewrite Hce in Hlen.
  assert (Hne : ys <> []) by (intros ->; unfold len in Hlen; cbn [length] in Hlen; lia).
  assert (Hj : len ys - 1 + 1 = len ys) by lia.
  destruct (stack_children_def ys Hys Hne (len ys - 1) st rest Hj) as (k & Hr & Hk).
  exists (S k). split; [|lia].
  assert (Hit : iter (0, 0, st) (enc_head m w c ++ encode_items ys ++ rest)
                = DOk (Running (0, 0, Some (len ys - 1) :: st), encode_items ys ++ rest)).
  { rewrite (iter_open_def (0, 0, st) m w c _ Hmj Hfit). destruct (c =? 0) eqn:E; [lia|].
    rewrite open_def_idle, Hce. fold (eff (0, 0, Some (len ys) :: st)). rewrite eff_somek by exact Hlen. reflexivity. }
  eapply runs_cons; [apply running_stack, Hst|exact Hit|exact Hr].
Qed.

Lemma stack_container_indef m ys :
  (m = MajArray \/ m = MajMap) -> Forall stack_ok ys ->
  forall st rest, st <> [] ->
    exists k, runs (0, 0, st) (enc_indef m ++ encode_items ys ++ [break_byte] ++ rest) (eff (0, 0, st)) rest k /\
              (k <= S (S (length (encode_items ys))))%nat.
Proof.
  intros Hmj Hys st rest Hst.
  destruct (stack_children_indef ys Hys st ([break_byte] ++ rest)) as (k & Hr & Hk).
  exists (S (k + 1)). split; [|lia].
  eapply runs_cons; [apply running_stack, Hst| |].
  - rewrite (iter_open_indef (0, 0, st) m _ Hmj). unfold open_indef, idle.
    change ((0 =? 0) && (0 =? 0)) with true. cbn iota. reflexivity.
  - eapply runs_app; [exact Hr|]. apply runs_one; [reflexivity|].
    cbn [app]. rewrite iter_break. unfold on_break, idle. change ((0 =? 0) && (0 =? 0)) with true. cbn iota. reflexivity.
Qed.

Lemma In_encode_items_le x xs : In x xs -> (length (encode_item x) <= length (encode_items xs))%nat.
Proof.
  unfold encode_items. induction xs as [|y ys IH]; intros Hin; [contradiction|].
  cbn [map concat]. rewrite app_length. destruct Hin as [->|Hin]; [lia|]. specialize (IH Hin). lia.
Qed.

Definition small (x : item) : Prop := 2 * Z.of_nat (L x) + 2 < u64_max.

Lemma wf_unpair kvs : forallb wf_pair kvs = true -> Forall (fun x => wf_item x = true) (unpair kvs).
Proof.
  intros H. apply forallb_Forall in H. apply Forall_unpair. eapply Forall_impl; [|exact H].
  intros [k v] Hkv. unfold wf_pair in Hkv. apply andb_true_iff in Hkv. exact Hkv.
Qed.

Lemma stack_all x : wf_item x = true -> small x -> stack_ok x.
Proof.
  induction x as [w n|w n|w b|cs|w b|cs|w xs IHxs|xs IHxs|w kvs IHkvs|kvs IHkvs|w t x IHx|w n]
    using item_ind'; intros Hwf Hsm st rest Hst; unfold small in *; unfold L in *.
  - cbn [wf_item encode_item] in *. apply arg_fitsb_spec in Hwf. exists 1%nat.
    split; [apply runs_one; [apply running_stack, Hst|apply iter_scalar; auto]|rewrite enc_head_length; lia].
  - cbn [wf_item encode_item] in *. apply arg_fitsb_spec in Hwf. exists 1%nat.
    split; [apply runs_one; [apply running_stack, Hst|apply iter_scalar; auto]|rewrite enc_head_length; lia].
  - cbn [wf_item encode_item] in *. apply andb_true_iff in Hwf as [Hfit Hb].
    apply arg_fitsb_spec in Hfit. apply bytes_wfb_spec in Hb. exists 1%nat. rewrite <- app_assoc.
    split; [apply runs_one; [apply running_stack, Hst|apply iter_string_def; auto; discriminate]|].
    rewrite app_length, enc_head_length. lia.
  - cbn [wf_item encode_item] in *. apply forallb_Forall in Hwf. exists 1%nat. rewrite <- !app_assoc.
    split; [apply runs_one; [apply running_stack, Hst|apply iter_string_indef; auto]|cbn [enc_indef app length]; lia].
    eapply Forall_impl; [|exact Hwf]. intros c Hc. apply wf_bchunk_spec, Hc.
  - cbn [wf_item encode_item] in *. apply andb_true_iff in Hwf as [Hwf Hu]. apply andb_true_iff in Hwf as [Hfit Hb].
    apply arg_fitsb_spec in Hfit. apply bytes_wfb_spec in Hb. exists 1%nat. rewrite <- app_assoc.
    split; [apply runs_one; [apply running_stack, Hst|apply iter_string_def; auto]|].
    rewrite app_length, enc_head_length. lia.
  - cbn [wf_item encode_item] in *. apply forallb_Forall in Hwf. exists 1%nat. rewrite <- !app_assoc.
    split; [apply runs_one; [apply running_stack, Hst|apply iter_string_indef; auto]|cbn [enc_indef app length]; lia].
    eapply Forall_impl; [|exact Hwf]. intros c Hc. apply wf_tchunk_spec, Hc.
  - rewrite encode_Array in *. cbn [wf_item] in Hwf. apply andb_true_iff in Hwf as [Hfit Hwf].
    apply arg_fitsb_spec in Hfit. rewrite app_length, enc_head_length in Hsm. rewrite <- app_assoc.
    assert (Hys : Forall stack_ok xs).
    { apply forallb_Forall in Hwf. rewrite Forall_forall in *. intros y Hy. apply IHxs; [exact Hy|apply Hwf, Hy|].
      pose proof (In_encode_items_le y xs Hy). unfold L, small. lia. }
    destruct (len xs =? 0) eqn:E0.
    + assert (xs = []) by (destruct xs; [reflexivity|unfold len in E0; cbn [length] in E0; lia]). subst xs.
      exists 1%nat. split; [|rewrite app_length, enc_head_length; lia].
      apply runs_one; [apply running_stack, Hst|]. cbn [encode_items map concat app].
      rewrite (iter_open_def (0, 0, st) MajArray w (len []) rest (or_introl eq_refl) Hfit). reflexivity.
    + destruct (stack_container_def MajArray w (len xs) xs (or_introl eq_refl) Hfit Hys ltac:(lia) eq_refl st rest Hst)
        as (k & Hr & Hk).
      exists k. split; [exact Hr|]. rewrite app_length, enc_head_length. lia.
  - rewrite encode_ArrayIndef in *. cbn [wf_item] in Hwf. rewrite <- !app_assoc.
    assert (Hys : Forall stack_ok xs).
    { apply forallb_Forall in Hwf. rewrite Forall_forall in *. intros y Hy. apply IHxs; [exact Hy|apply Hwf, Hy|].
      pose proof (In_encode_items_le y xs Hy). unfold L, small. cbn [enc_indef app length] in Hsm.
      rewrite app_length in Hsm. lia. }
    destruct (stack_container_indef MajArray xs (or_introl eq_refl) Hys st rest Hst) as (k & Hr & Hk).
    exists k. split; [exact Hr|]. cbn [enc_indef app length]. rewrite !app_length. cbn [length]. lia.
  - rewrite encode_Map in *. rewrite wf_Map in Hwf. apply andb_true_iff in Hwf as [Hfit Hwf].
    apply arg_fitsb_spec in Hfit. rewrite app_length, enc_head_length in Hsm. rewrite <- app_assoc.
    rewrite <- encode_unpair in *.
    pose proof (wf_unpair kvs Hwf) as Hwfu.
    pose proof (encode_items_length_ge (unpair kvs) Hwfu) as Hge.
    assert (Hlu : len (unpair kvs) = 2 * len kvs) by apply len_unpair.
    assert (Hys : Forall stack_ok (unpair kvs)).
    { pose proof (Forall_unpair (fun x => wf_item x = true -> 2 * Z.of_nat (length (encode_item x)) + 2 < u64_max -> stack_ok x) kvs IHkvs) as IHu.
      rewrite Forall_forall in *. intros y Hy. apply IHu; [exact Hy|apply Hwfu, Hy|].
      pose proof (In_encode_items_le y (unpair kvs) Hy). unfold L, small. lia. }
    destruct (len kvs =? 0) eqn:E0.
    + assert (kvs = []) by (destruct kvs; [reflexivity|unfold len in E0; cbn [length] in E0; lia]). subst kvs.
      exists 1%nat. split; [|rewrite app_length, enc_head_length; lia].
      apply runs_one; [apply running_stack, Hst|]. cbn [unpair flat_map encode_items map concat app].
      rewrite (iter_open_def (0, 0, st) MajMap w (len []) rest (or_intror eq_refl) Hfit). reflexivity.
    + assert (Hce : count_eff MajMap (len kvs) = len (unpair kvs)).
      { unfold count_eff. change (major_eqb MajMap MajMap) with true. cbn iota. unfold sat_mul2.
        unfold len in *. lia. }
      destruct (stack_container_def MajMap w (len kvs) (unpair kvs) (or_intror eq_refl) Hfit Hys ltac:(lia) Hce st rest Hst)
        as (k & Hr & Hk).
      exists k. split; [exact Hr|]. rewrite app_length, enc_head_length. lia.
  - rewrite encode_MapIndef in *. rewrite wf_MapIndef in Hwf. rewrite <- !app_assoc. rewrite <- encode_unpair in *.
    pose proof (wf_unpair kvs Hwf) as Hwfu.
    assert (Hys : Forall stack_ok (unpair kvs)).
    { pose proof (Forall_unpair (fun x => wf_item x = true -> 2 * Z.of_nat (length (encode_item x)) + 2 < u64_max -> stack_ok x) kvs IHkvs) as IHu.
      rewrite Forall_forall in *. intros y Hy. apply IHu; [exact Hy|apply Hwfu, Hy|].
      pose proof (In_encode_items_le y (unpair kvs) Hy). unfold L, small. cbn [enc_indef app length] in Hsm.
      rewrite app_length in Hsm. lia. }
    destruct (stack_container_indef MajMap (unpair kvs) (or_intror eq_refl) Hys st rest Hst) as (k & Hr & Hk).
    exists k. split; [exact Hr|]. cbn [enc_indef app length]. rewrite !app_length. cbn [length]. lia.
  - cbn [wf_item encode_item] in *. apply andb_true_iff in Hwf as [Hfit Hwf]. apply arg_fitsb_spec in Hfit.
    rewrite app_length, enc_head_length in Hsm. rewrite <- app_assoc.
    destruct (IHx Hwf ltac:(unfold L, small; lia) st rest Hst) as (k & Hr & Hk).
    exists (S k). split; [|rewrite app_length, enc_head_length; unfold L in Hk; lia].
    eapply runs_cons; [apply running_stack, Hst|apply iter_tag, Hfit|exact Hr].
  - cbn [wf_item encode_item] in *. apply arg_fitsb_spec in Hwf. exists 1%nat.
    split; [apply runs_one; [apply running_stack, Hst|apply iter_scalar; auto]|rewrite enc_head_length; lia].
Qed.

(* ---------------------------------------------------------------- counter mode: up to representation *)
Definition nones (i : Z) : sstack := repeat None (Z.to_nat i).

Lemma nones_succ i : 1 <= i -> nones i = None :: nones (i - 1).
Proof. intros H. unfold nones. replace (Z.to_nat i) with (S (Z.to_nat (i - 1))) by lia. reflexivity. Qed.
Lemma nones_zero : nones 0 = [].
Proof. reflexivity. Qed.

(* the stack-mode state that behaves like the counter state (m, i) *)
Definition stackform (c : state) : outcome :=
  let '(m, i, _) := c in
  if 1 <=? m then Running (0, 0, Some (m - 1) :: nones i)
  else if 1 <=? i then Running (0, 0, nones i)
  else Done.

Definition rep (o : outcome) (c : state) : Prop := o = Running c \/ o = stackform c.

Lemma eff_counter n i : idle n i = false -> eff (n, i, []) = Running (sat_sub1 n, i, []).
Proof. intros H. unfold eff, post_outcome, skip_post. rewrite H. reflexivity. Qed.

Lemma running_counter n i : running (n, i, []) = true <-> idle n i = false.
Proof. unfold running. destruct (idle n i); cbn; split; congruence. Qed.

Lemma idle_false n i : 0 <= n -> 0 <= i -> (idle n i = false <-> 1 <= n \/ 1 <= i).
Proof. unfold idle. lia. Qed.

Lemma eff_nones i : 0 <= i -> eff (0, 0, nones i) = if 1 <=? i then Running (0, 0, nones i) else Done.
Proof.
  intros Hi. destruct (1 <=? i) eqn:E.
  - rewrite nones_succ by lia. reflexivity.
  - assert (i = 0) by lia. subst i. reflexivity.
Qed.

Lemma eff_stackform m i tau :
  0 <= m -> 0 <= i -> stackform (m, i, []) = Running tau -> eff tau = stackform (sat_sub1 m, i, []).
Proof.
  intros Hm Hi. unfold stackform, sat_sub1. destruct (1 <=? m) eqn:E1.
  - intros H; inversion H; subst; clear H. destruct (1 <=? m - 1) eqn:E2.
    + rewrite eff_somek by lia. replace (Z.max (m - 1) 0) with (m - 1) by lia. rewrite E2. reflexivity.
    + assert (m = 1) by lia. subst m. change (1 - 1) with 0. rewrite eff_some0, eff_nones by exact Hi.
      change (Z.max 0 0) with 0. change (1 <=? 0) with false. cbn iota. reflexivity.
  - assert (m = 0) by lia. subst m. destruct (1 <=? i) eqn:E2; [|discriminate].
    intros H; inversion H; subst; clear H. rewrite eff_nones by exact Hi. rewrite E2.
    change (Z.max (0 - 1) 0) with 0. change (1 <=? 0) with false. cbn iota. reflexivity.
Qed.

Lemma stackform_stack m i tau : stackform (m, i, []) = Running tau -> exists st, tau = (0, 0, st) /\ st <> [].
Proof.
  unfold stackform. destruct (1 <=? m) eqn:E1.
  - intros H; inversion H. eexists; split; [reflexivity|discriminate].
  - destruct (1 <=? i) eqn:E2; [|discriminate]. intros H; inversion H. exists (nones i). split; [reflexivity|].
    rewrite nones_succ by lia. discriminate.
Qed.

Definition bounds (n i : Z) (x : item) : Prop :=
  n + 2 * Z.of_nat (L x) < u64_max /\ i + 2 * Z.of_nat (L x) < u64_max.

Definition counter_ok (x : item) : Prop :=
  forall n i rest, idle n i = false -> 0 <= n -> 0 <= i -> bounds n i x ->
    exists o k, runs (n, i, []) (encode_item x ++ rest) o rest k /\ rep o (sat_sub1 n, i, []) /\ (k <= L x)%nat.

(* from any representative of the counter state (m, i) *)
Lemma any_ok x : stack_ok x -> counter_ok x ->
  forall tau m i rest, rep (Running tau) (m, i, []) -> idle m i = false -> 0 <= m -> 0 <= i -> bounds m i x ->
    exists o k, runs tau (encode_item x ++ rest) o rest k /\ rep o (sat_sub1 m, i, []) /\ (k <= L x)%nat.
Proof.
  intros Hs Hc tau m i rest [Hr|Hr] Hid Hm Hi Hb.
  - inversion Hr; subst. apply Hc; assumption.
  - symmetry in Hr. destruct (stackform_stack _ _ _ Hr) as (st & -> & Hst).
    destruct (Hs st rest Hst) as (k & Hrun & Hk). exists (eff (0, 0, st)), k. split; [exact Hrun|]. split; [|exact Hk].
    right. apply eff_stackform; assumption.
Qed.

Lemma rep_running_or o m i : rep o (m, i, []) -> (1 <= m \/ 1 <= i) -> exists tau, o = Running tau.
Proof.
  intros [->| ->] H; [eexists; reflexivity|]. unfold stackform.
  destruct (1 <=? m) eqn:E1; [eexists; reflexivity|]. destruct (1 <=? i) eqn:E2; [eexists; reflexivity|lia].
Qed.

Lemma counter_children xs :
  Forall (fun x => stack_ok x /\ counter_ok x) xs ->
  forall tau m i rest, rep (Running tau) (m, i, []) -> 0 <= m -> 0 <= i -> (1 <= i \/ len xs <= m) ->
    Forall (bounds m i) xs ->
    exists o k, runs tau (encode_items xs ++ rest) o rest k /\ rep o (Z.max (m - len xs) 0, i, []) /\
                (k <= length (encode_items xs))%nat.
Proof.
  induction 1 as [|x xs [Hsx Hcx] _ IH]; intros tau m i rest Hrep Hm Hi Hrun Hb.
  - exists (Running tau), 0%nat. split; [apply runs_nil|]. split; [|cbn; lia].
    unfold len. cbn [length]. replace (Z.max (m - Z.of_nat 0) 0) with m by lia. exact Hrep.
  - unfold encode_items. cbn [map concat]. rewrite <- app_assoc. fold (encode_items xs).
    inversion Hb as [|? ? Hbx Hbxs]; subst. rewrite len_cons in *.
    assert (Hid : idle m i = false) by (apply idle_false; try assumption; pose proof (len_nonneg xs); lia).
    destruct (any_ok x Hsx Hcx tau m i (encode_items xs ++ rest) Hrep Hid Hm Hi Hbx) as (o1 & k1 & Hr1 & Hrep1 & Hk1).
    destruct xs as [|x' xs'].
    + exists o1, k1. split; [cbn [encode_items map concat app] in *; exact Hr1|]. split.
      * unfold len. cbn [length]. unfold sat_sub1 in Hrep1. replace (Z.max (m - (1 + Z.of_nat 0)) 0) with (Z.max (m - 1) 0) by lia.
        exact Hrep1.
      * rewrite app_length. unfold L in Hk1. lia.
    + assert (Hgo : 1 <= sat_sub1 m \/ 1 <= i).
      { unfold sat_sub1. destruct Hrun as [H1|H1]; [right; exact H1|]. rewrite len_cons in H1.
        pose proof (len_nonneg xs'). left. lia. }
      destruct (rep_running_or o1 (sat_sub1 m) i Hrep1 Hgo) as (tau1 & ->).
      destruct (IH tau1 (sat_sub1 m) i rest Hrep1) as (o2 & k2 & Hr2 & Hrep2 & Hk2).
      * unfold sat_sub1. lia.
      * exact Hi.
      * unfold sat_sub1. destruct Hrun as [H1|H1]; [left; exact H1|right]. lia.
      * eapply Forall_impl; [|exact Hbxs]. intros y [H1 H2]. unfold bounds, sat_sub1. split; [lia|exact H2].
      * exists o2, (k1 + k2)%nat. split; [eapply runs_app; eassumption|]. split.
        -- unfold sat_sub1 in Hrep2. replace (Z.max (m - (1 + len (x' :: xs'))) 0) with (Z.max (Z.max (m - 1) 0 - len (x' :: xs')) 0)
             by (pose proof (len_nonneg (x' :: xs')); lia). exact Hrep2.
        -- rewrite app_length. unfold L in Hk1. lia.
Qed.

Lemma elem_len_bound ys y :
  Forall (fun x => wf_item x = true) ys -> In y ys ->
  (length (encode_item y) + length ys <= length (encode_items ys) + 1)%nat.
Proof.
  unfold encode_items. induction 1 as [|x xs Hx Hxs IH]; intros Hin; [contradiction|].
  cbn [map concat length]. rewrite app_length.
  pose proof (encode_items_length_ge xs Hxs) as Hge. unfold encode_items in Hge.
  assert (Hx1 : (1 <= length (encode_item x))%nat).
  { destruct (encode_item x) eqn:E; [exfalso; exact (encode_item_nonempty x Hx E)|cbn; lia]. }
  destruct Hin as [->|Hin]; [lia|]. specialize (IH Hin). lia.
Qed.

Definition both_ok (x : item) : Prop := stack_ok x /\ counter_ok x.

Lemma counter_container_def m w c ys :
  (m = MajArray \/ m = MajMap) -> arg_fits w c -> Forall both_ok ys -> Forall (fun x => wf_item x = true) ys ->
  c <> 0 -> count_eff m c = len ys ->
  forall n i rest, idle n i = false -> 0 <= n -> 0 <= i ->
    n + 2 * (1 + Z.of_nat (length (encode_items ys))) < u64_max ->
    i + 2 * (1 + Z.of_nat (length (encode_items ys))) < u64_max ->
    exists o k, runs (n, i, []) (enc_head m w c ++ encode_items ys ++ rest) o rest k /\
                rep o (sat_sub1 n, i, []) /\ (k <= S (length (encode_items ys)))%nat.
Proof.
  intros Hmj Hfit Hys Hwf Hc Hce n i rest Hid Hn Hi Hbn Hbi.
  pose proof (count_eff_pos m w c Hfit Hc) as Hlen. rewrite Hce in Hlen.
  pose proof (encode_items_length_ge ys Hwf) as Hge.
  assert (Hit : iter (n, i, []) (enc_head m w c ++ encode_items ys ++ rest)
                = DOk (Running (n + len ys - 1, i, []), encode_items ys ++ rest)).
  { rewrite (iter_open_def (n, i, []) m w c _ Hmj Hfit). destruct (c =? 0) eqn:E; [lia|].
    unfold open_def. rewrite Hid, Hce. unfold sat_add.
    replace (Z.min (n + len ys) u64_max) with (n + len ys) by (unfold len in *; lia).
    unfold post_outcome, skip_post.
    assert (Hid2 : idle (n + len ys) i = false) by (unfold idle; lia). rewrite Hid2.
    unfold sat_sub1. replace (Z.max (n + len ys - 1) 0) with (n + len ys - 1) by lia. reflexivity. }
  destruct (counter_children ys Hys (n + len ys - 1, i, []) (n + len ys - 1) i rest) as (o & k & Hr & Hrep & Hk).
  - left. reflexivity.
  - lia.
  - exact Hi.
  - apply idle_false in Hid; [|exact Hn|exact Hi]. destruct Hid as [H1|H1]; [right; lia|left; exact H1].
  - rewrite Forall_forall. intros y Hy. pose proof (elem_len_bound ys y Hwf Hy) as Hel.
    unfold bounds, L. unfold len in *. split; lia.
  - exists o, (S k). split; [eapply runs_cons; [apply running_counter, Hid|exact Hit|exact Hr]|]. split; [|lia].
    unfold sat_sub1. replace (Z.max (n - 1) 0) with (Z.max (n + len ys - 1 - len ys) 0) by lia. exact Hrep.
Qed.

Lemma counter_container_indef m ys :
  (m = MajArray \/ m = MajMap) -> Forall both_ok ys -> Forall (fun x => wf_item x = true) ys ->
  forall n i rest, idle n i = false -> 0 <= n -> 0 <= i ->
    n + 2 * (2 + Z.of_nat (length (encode_items ys))) < u64_max ->
    i + 2 * (2 + Z.of_nat (length (encode_items ys))) < u64_max ->
    exists o k, runs (n, i, []) (enc_indef m ++ encode_items ys ++ [break_byte] ++ rest) o rest k /\
                rep o (sat_sub1 n, i, []) /\ (k <= S (S (length (encode_items ys))))%nat.
Proof.
  intros Hmj Hys Hwf n i rest Hid Hn Hi Hbn Hbi.
  assert (Hsk : Forall stack_ok ys) by (eapply Forall_impl; [|exact Hys]; intros y [H _]; exact H).
  destruct (n <? 2) eqn:En.
  - (* stays in counter mode: irounds + 1 *)
    assert (Hit : iter (n, i, []) (enc_indef m ++ encode_items ys ++ [break_byte] ++ rest)
                  = DOk (Running (0, i + 1, []), encode_items ys ++ [break_byte] ++ rest)).
    { rewrite (iter_open_indef (n, i, []) m _ Hmj). unfold open_indef. rewrite Hid, En. unfold sat_add.
      replace (Z.min (i + 1) u64_max) with (i + 1) by lia. unfold post_outcome, skip_post.
      assert (Hid2 : idle n (i + 1) = false) by (unfold idle; lia). rewrite Hid2.
      unfold sat_sub1. replace (Z.max (n - 1) 0) with 0 by lia. reflexivity. }
    destruct (counter_children ys Hys (0, i + 1, []) 0 (i + 1) ([break_byte] ++ rest)) as (o & k & Hr & Hrep & Hk).
    + left. reflexivity.
    + lia.
    + lia.
    + left. lia.
    + rewrite Forall_forall. intros y Hy. pose proof (In_encode_items_le y ys Hy). unfold bounds, L. split; lia.
    + replace (Z.max (0 - len ys) 0) with 0 in Hrep by (pose proof (len_nonneg ys); lia).
      destruct (rep_running_or o 0 (i + 1) Hrep ltac:(lia)) as (tau & ->).
      (* the break, from either representative *)
      assert (Hbrk : exists o', runs tau ([break_byte] ++ rest) o' rest 1 /\ rep o' (sat_sub1 n, i, [])).
      { unfold sat_sub1. replace (Z.max (n - 1) 0) with 0 by lia. destruct Hrep as [Hrep|Hrep].
        - inversion Hrep; subst tau. eexists. split.
          + apply runs_one; [apply running_counter; unfold idle; lia|]. cbn [app]. rewrite iter_break.
            unfold on_break. assert (Hid3 : idle 0 (i + 1) = false) by (unfold idle; lia). rewrite Hid3.
            unfold sat_sub1. replace (Z.max (i + 1 - 1) 0) with i by lia. reflexivity.
          + unfold post_outcome, skip_post. destruct (idle 0 i) eqn:Ei.
            * assert (i = 0) by (unfold idle in Ei; lia). subst i. right. reflexivity.
            * left. reflexivity.
        - unfold stackform in Hrep. change (1 <=? 0) with false in Hrep. cbn iota in Hrep.
          destruct (1 <=? i + 1) eqn:E1; [|lia]. inversion Hrep; subst tau. rewrite nones_succ by lia.
          replace (i + 1 - 1) with i by lia. eexists. split.
          + apply runs_one; [reflexivity|]. cbn [app]. rewrite iter_break. unfold on_break.
            change (idle 0 0) with true. cbn iota. reflexivity.
          + change (post_outcome 0 0 (nones i)) with (eff (0, 0, nones i)). rewrite eff_nones by exact Hi.
            right. unfold stackform. change (1 <=? 0) with false. cbn iota. reflexivity. }
      destruct Hbrk as (o' & Hr' & Hrep').
      exists o', (S (k + 1)). split; [eapply runs_cons; [apply running_counter, Hid|exact Hit|eapply runs_app; eassumption]|].
      split; [exact Hrep'|lia].
  - (* two or more items pending: switch to the stack *)
    assert (Hit : iter (n, i, []) (enc_indef m ++ encode_items ys ++ [break_byte] ++ rest)
                  = DOk (Running (0, 0, None :: Some (n - 1) :: nones i ++ []), encode_items ys ++ [break_byte] ++ rest)).
    { rewrite (iter_open_indef (n, i, []) m _ Hmj). unfold open_indef. rewrite Hid, En. reflexivity. }
    destruct (stack_children_indef ys Hsk (Some (n - 1) :: nones i ++ []) ([break_byte] ++ rest)) as (k & Hr & Hk).
    exists (Running (0, 0, Some (n - 2) :: nones i)), (S (k + 1)).
    split; [eapply runs_cons; [apply running_counter, Hid|exact Hit|eapply runs_app; [exact Hr|]]|].
    + apply runs_one; [reflexivity|]. cbn [app]. rewrite iter_break. unfold on_break.
      change (idle 0 0) with true. cbn iota.
      change (post_outcome 0 0 (Some (n - 1) :: nones i ++ [])) with (eff (0, 0, Some (n - 1) :: nones i ++ [])).
      rewrite eff_somek by lia. rewrite app_nil_r. replace (n - 1 - 1) with (n - 2) by lia. reflexivity.
    + split; [|lia]. right. unfold stackform, sat_sub1. replace (Z.max (n - 1) 0) with (n - 1) by lia.
      destruct (1 <=? n - 1) eqn:E1; [|lia]. replace (n - 1 - 1) with (n - 2) by lia. reflexivity.
Qed.

Lemma counter_single x :
  (forall s rest, iter s (encode_item x ++ rest) = DOk (eff s, rest)) -> (1 <= L x)%nat -> counter_ok x.
Proof.
  intros Hit HL n i rest Hid Hn Hi Hb. exists (eff (n, i, [])), 1%nat.
  split; [apply runs_one; [apply running_counter, Hid|apply Hit]|]. split; [|exact HL].
  left. apply eff_counter, Hid.
Qed.

Lemma counter_all x : wf_item x = true -> small x -> counter_ok x.
Proof.
  induction x as [w n|w n|w b|cs|w b|cs|w xs IHxs|xs IHxs|w kvs IHkvs|kvs IHkvs|w t x IHx|w n]
    using item_ind'; intros Hwf Hsm.
  - apply counter_single; [|unfold L; cbn [encode_item]; rewrite enc_head_length; lia].
    cbn [wf_item encode_item] in *. apply arg_fitsb_spec in Hwf. intros s rest. apply iter_scalar; auto.
  - apply counter_single; [|unfold L; cbn [encode_item]; rewrite enc_head_length; lia].
    cbn [wf_item encode_item] in *. apply arg_fitsb_spec in Hwf. intros s rest. apply iter_scalar; auto.
  - apply counter_single; [|unfold L; cbn [encode_item]; rewrite app_length, enc_head_length; lia].
    cbn [wf_item encode_item] in *. apply andb_true_iff in Hwf as [Hfit Hb].
    apply arg_fitsb_spec in Hfit. apply bytes_wfb_spec in Hb. intros s rest. rewrite <- app_assoc.
    apply iter_string_def; auto. discriminate.
  - apply counter_single; [|unfold L; cbn [encode_item enc_indef app length]; lia].
    cbn [wf_item encode_item] in *. apply forallb_Forall in Hwf. intros s rest. rewrite <- !app_assoc.
    apply iter_string_indef; auto. eapply Forall_impl; [|exact Hwf]. intros c Hc. apply wf_bchunk_spec, Hc.
  - apply counter_single; [|unfold L; cbn [encode_item]; rewrite app_length, enc_head_length; lia].
    cbn [wf_item encode_item] in *. apply andb_true_iff in Hwf as [Hwf Hu]. apply andb_true_iff in Hwf as [Hfit Hb].
    apply arg_fitsb_spec in Hfit. apply bytes_wfb_spec in Hb. intros s rest. rewrite <- app_assoc.
    apply iter_string_def; auto.
  - apply counter_single; [|unfold L; cbn [encode_item enc_indef app length]; lia].
    cbn [wf_item encode_item] in *. apply forallb_Forall in Hwf. intros s rest. rewrite <- !app_assoc.
    apply iter_string_indef; auto. eapply Forall_impl; [|exact Hwf]. intros c Hc. apply wf_tchunk_spec, Hc.
  - (* Array *)
    pose proof Hwf as Hwf0. cbn [wf_item] in Hwf. apply andb_true_iff in Hwf as [Hfit Hwfs].
    apply arg_fitsb_spec in Hfit. apply forallb_Forall in Hwfs.
    unfold small, L in Hsm. rewrite encode_Array, app_length, enc_head_length in Hsm.
    assert (Hys : Forall both_ok xs).
    { rewrite Forall_forall in *. intros y Hy. pose proof (In_encode_items_le y xs Hy).
      assert (small y) by (unfold small, L; lia). split; [apply stack_all; auto|apply IHxs; auto]. }
    intros n i rest Hid Hn Hi [Hbn Hbi]. unfold L in *. rewrite encode_Array in *. rewrite app_length, enc_head_length in *.
    rewrite <- app_assoc. destruct (len xs =? 0) eqn:E0.
    + assert (xs = []) by (destruct xs; [reflexivity|unfold len in E0; cbn [length] in E0; lia]). subst xs.
      exists (eff (n, i, [])), 1%nat. split; [|split; [left; apply eff_counter, Hid|lia]].
      apply runs_one; [apply running_counter, Hid|]. cbn [encode_items map concat app].
      rewrite (iter_open_def (n, i, []) MajArray w (len []) rest (or_introl eq_refl) Hfit). reflexivity.
    + destruct (counter_container_def MajArray w (len xs) xs (or_introl eq_refl) Hfit Hys Hwfs ltac:(lia) eq_refl
                  n i rest Hid Hn Hi ltac:(lia) ltac:(lia)) as (o & k & Hr & Hrep & Hk).
      exists o, k. split; [exact Hr|]. split; [exact Hrep|lia].
  - (* ArrayIndef *)
    cbn [wf_item] in Hwf. apply forallb_Forall in Hwf.
    unfold small, L in Hsm. rewrite encode_ArrayIndef in Hsm. cbn [enc_indef app length] in Hsm. rewrite app_length in Hsm.
    cbn [length] in Hsm.
    assert (Hys : Forall both_ok xs).
    { rewrite Forall_forall in *. intros y Hy. pose proof (In_encode_items_le y xs Hy).
      assert (small y) by (unfold small, L; lia). split; [apply stack_all; auto|apply IHxs; auto]. }
    intros n i rest Hid Hn Hi [Hbn Hbi]. unfold L in *. rewrite encode_ArrayIndef in *.
    cbn [enc_indef app length] in Hbn, Hbi. rewrite app_length in Hbn, Hbi. cbn [length] in Hbn, Hbi.
    rewrite <- !app_assoc.
    destruct (counter_container_indef MajArray xs (or_introl eq_refl) Hys Hwf n i rest Hid Hn Hi ltac:(lia) ltac:(lia))
      as (o & k & Hr & Hrep & Hk).
    exists o, k. split; [exact Hr|]. split; [exact Hrep|]. cbn [enc_indef app length]. rewrite app_length. cbn [length]. lia.
  - (* Map *)
    rewrite wf_Map in Hwf. apply andb_true_iff in Hwf as [Hfit Hwfs]. apply arg_fitsb_spec in Hfit.
    pose proof (wf_unpair kvs Hwfs) as Hwfu.
    unfold small, L in Hsm. rewrite encode_Map, app_length, enc_head_length, <- encode_unpair in Hsm.
    pose proof (encode_items_length_ge (unpair kvs) Hwfu) as Hge.
    assert (Hlu : len (unpair kvs) = 2 * len kvs) by apply len_unpair.
    assert (Hys : Forall both_ok (unpair kvs)).
    { pose proof (Forall_unpair (fun x => wf_item x = true -> small x -> counter_ok x) kvs IHkvs) as IHu.
      rewrite Forall_forall in *. intros y Hy. pose proof (In_encode_items_le y (unpair kvs) Hy).
      assert (small y) by (unfold small, L; lia). split; [apply stack_all; auto|apply IHu; auto]. }
    intros n i rest Hid Hn Hi [Hbn Hbi]. unfold L in *. rewrite encode_Map in *. rewrite app_length, enc_head_length in *.
    rewrite <- encode_unpair in *. rewrite <- app_assoc. destruct (len kvs =? 0) eqn:E0.
    + assert (kvs = []) by (destruct kvs; [reflexivity|unfold len in E0; cbn [length] in E0; lia]). subst kvs.
      exists (eff (n, i, [])), 1%nat. split; [|split; [left; apply eff_counter, Hid|lia]].
      apply runs_one; [apply running_counter, Hid|]. cbn [unpair flat_map encode_items map concat app].
      rewrite (iter_open_def (n, i, []) MajMap w (len []) rest (or_intror eq_refl) Hfit). reflexivity.
    + assert (Hce : count_eff MajMap (len kvs) = len (unpair kvs)).
      { unfold count_eff. change (major_eqb MajMap MajMap) with true. cbn iota. unfold sat_mul2. unfold len in *. lia. }
      destruct (counter_container_def MajMap w (len kvs) (unpair kvs) (or_intror eq_refl) Hfit Hys Hwfu ltac:(lia) Hce
                  n i rest Hid Hn Hi ltac:(lia) ltac:(lia)) as (o & k & Hr & Hrep & Hk).
      exists o, k. split; [exact Hr|]. split; [exact Hrep|lia].
  - (* MapIndef *)
    rewrite wf_MapIndef in Hwf. pose proof (wf_unpair kvs Hwf) as Hwfu.
    unfold small, L in Hsm. rewrite encode_MapIndef, <- encode_unpair in Hsm. cbn [enc_indef app length] in Hsm.
    rewrite app_length in Hsm. cbn [length] in Hsm.
    assert (Hys : Forall both_ok (unpair kvs)).
    { pose proof (Forall_unpair (fun x => wf_item x = true -> small x -> counter_ok x) kvs IHkvs) as IHu.
      rewrite Forall_forall in *. intros y Hy. pose proof (In_encode_items_le y (unpair kvs) Hy).
      assert (small y) by (unfold small, L; lia). split; [apply stack_all; auto|apply IHu; auto]. }
    intros n i rest Hid Hn Hi [Hbn Hbi]. unfold L in *. rewrite encode_MapIndef in *. rewrite <- encode_unpair in *.
    cbn [enc_indef app length] in Hbn, Hbi. rewrite app_length in Hbn, Hbi. cbn [length] in Hbn, Hbi.
    rewrite <- !app_assoc.
    destruct (counter_container_indef MajMap (unpair kvs) (or_intror eq_refl) Hys Hwfu n i rest Hid Hn Hi ltac:(lia) ltac:(lia))
      as (o & k & Hr & Hrep & Hk).
    exists o, k. split; [exact Hr|]. split; [exact Hrep|]. cbn [enc_indef app length]. rewrite app_length. cbn [length]. lia.
  - (* Tag *)
    cbn [wf_item] in Hwf. apply andb_true_iff in Hwf as [Hfit Hwf]. apply arg_fitsb_spec in Hfit.
    unfold small, L in Hsm. cbn [encode_item] in Hsm. rewrite app_length, enc_head_length in Hsm.
    assert (Hsx : small x) by (unfold small, L; lia).
    intros n i rest Hid Hn Hi [Hbn Hbi]. unfold L in *. cbn [encode_item] in *. rewrite app_length, enc_head_length in *.
    rewrite <- app_assoc.
    destruct (IHx Hwf Hsx n i rest Hid Hn Hi) as (o & k & Hr & Hrep & Hk); [unfold bounds, L; split; lia|].
    exists o, (S k). split; [eapply runs_cons; [apply running_counter, Hid|apply iter_tag, Hfit|exact Hr]|].
    split; [exact Hrep|unfold L in Hk; lia].
  - apply counter_single; [|unfold L; cbn [encode_item]; rewrite enc_head_length; lia].
    cbn [wf_item encode_item] in *. apply arg_fitsb_spec in Hwf. intros s rest. apply iter_scalar; auto.
Qed.

Lemma skip_loop_idle f r : skip_loop f 0 0 [] r = DOk r.
Proof. destruct f; reflexivity. Qed.

(* Decoder::skip consumes exactly one well-formed item (of any realistic size) *)
Theorem skip_item i r :
  wf_item i = true -> 2 * len (encode_item i) + 2 < u64_max -> d_skip (encode_item i ++ r) = DOk r.
Proof.
  intros Hwf Hsm. assert (Hs : small i) by (unfold small, L; unfold len in Hsm; exact Hsm).
  destruct (counter_all i Hwf Hs 1 0 r) as (o & k & Hr & Hrep & Hk); [reflexivity|lia|lia| |].
  { unfold bounds, small, L in *. split; lia. }
  unfold d_skip, budget. pose proof (runs_skip _ _ _ _ _ Hr) as Hrs. cbn beta iota in Hrs.
  unfold L in Hk.
  replace (S (length (encode_item i ++ r))) with (k + (S (length (encode_item i ++ r)) - k))%nat
    by (rewrite app_length; lia).
  rewrite Hrs. destruct Hrep as [-> | ->]; [cbn [cont]; change (sat_sub1 1) with 0; apply skip_loop_idle|reflexivity].
Qed.

(* consequently skip and the item decoder agree on every input the decoder accepts *)
Corollary skip_of_decode f bs i r :
  decode_item f bs = DOk (i, r) -> 2 * len bs + 2 < u64_max -> d_skip bs = DOk r.
Proof.
  intros H Hb. apply enc_dec in H as [-> Hwf]. apply skip_item; [exact Hwf|].
  rewrite len_app in Hb. pose proof (len_nonneg r). lia.
Qed.
