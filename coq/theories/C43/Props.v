(* C43 — property theorems only.  Statements are pinned by props/C43.json. *)
From PV Require Import Lib.Base Immutable.ChunkList C43.Model C43.Proofs.
Open Scope Z_scope.

(* Reading a database directory never panics: for every set of chunk files (any
   bytes in the primary and secondary index files, any chunk-file length), in the
   debug profile provided no primary index file reaches 16 GiB (the u32 slot counter
   `x + 1` is the one overflow check left), in the release profile unconditionally. *)
Theorem readers_total : forall ovf db,
  Forall (fun e => files_ok ovf (snd e)) db -> forall p, read ovf db <> Panic p.
Proof. intros ovf db H p. rewrite (read_total ovf db H). discriminate. Qed.

Theorem readers_total_release : forall db,
  Forall (fun e => 0 <= f_chunk_len (snd e)) db -> forall p, read false db <> Panic p.
Proof.
  intros db H p. apply readers_total. apply Forall_forall. intros e Hin.
  rewrite Forall_forall in H. split; [apply H, Hin | discriminate].
Qed.

(* The same for one chunk through chunk::read_blocks(dir, name): opening fails only
   for an empty primary index (VersionMissing); otherwise the drained iterator holds
   blocks and the two error classes, never a panic. *)
Theorem chunk_reader_total : forall ovf f, files_ok ovf f ->
  match read_one ovf f with
  | Ok its => Forall item_fine its
  | Err e => e = E_VERSION /\ f_primary f = []
  | Panic _ => False
  end.
Proof.
  intros ovf f H. pose proof (read_one_ok ovf f H) as R.
  destruct (read_one ovf f); try exact R. tauto.
Qed.

(* "errors or fewer blocks": whatever the index files say, the blocks handed out
   are ordered, pairwise disjoint spans inside the chunk file. *)
Theorem blocks_are_disjoint_spans : forall ovf f its, files_ok ovf f ->
  read_chunk ovf f = Ok its -> spans_from (f_chunk_len f) 0 its.
Proof.
  intros ovf f its H E. pose proof (read_chunk_ok ovf f H) as R. rewrite E in R. tauto.
Qed.

(* The fuel of the model's loops never runs out (the marker item is never produced). *)
Theorem fuel_sufficient : forall ovf db,
  Forall (fun e => files_ok ovf (snd e)) db -> ~ In (Bad E_FUEL) (read_db ovf db).
Proof. intros ovf db H. apply fine_no_fuel, read_db_ok, H. Qed.

(* record of the repaired defect: the pre-fix subtractions *)
Theorem prefix_subtractions_refuted : old_sub true 10 56 = Panic P_SUB /\
  bind (old_sub false 3 5) old_alloc = Panic P_CAP.
Proof. exact old_sub_refuted. Qed.

(* ---- non-vacuity ---- *)
Definition ex_primary : list Z := [1; 0;0;0;0; 0;0;0;0; 0;0;0;56; 0;0;0;112; 0;0;0;112; 0;0;0;168].
Definition ex_entry (off : Z) : list Z := [0;0;0;0;0;0;0;off] ++ repeat 7 48.
Definition ex_secondary : list Z := ex_entry 0 ++ ex_entry 5 ++ ex_entry 9.
Example intact_read :
  files_ok true (mk_files ex_primary ex_secondary 20) /\
  read true [(7, mk_files ex_primary ex_secondary 20); (8, mk_files [] [] 0)]
    = Ok [Blk 0 5; Blk 5 4; Blk 9 11].
Proof. split; [split; [cbn; lia | intros _; vm_compute; reflexivity] | vm_compute; reflexivity]. Qed.
(* the inputs that made the unrepaired readers panic are now errors *)
Example decreasing_block_offset_is_an_error :
  read_one true (mk_files ex_primary (ex_entry 0 ++ ex_entry 5 ++ ex_entry 3) 20)
    = Ok [Blk 0 5; Bad E_READ_BLOCK; Blk 5 15].
Proof. vm_compute. reflexivity. Qed.
Example huge_block_offset_is_an_error :
  read_one true (mk_files ex_primary (ex_entry 0 ++ ex_entry 5 ++ repeat 255 56) 20)
    = Ok [Blk 0 5; Bad E_READ_BLOCK; Blk 20 0].
Proof. vm_compute. reflexivity. Qed.
Example decreasing_secondary_offset_is_an_error :
  read_one true (mk_files [1; 0;0;0;0; 0;0;0;10; 0;0;0;20] (repeat 0 112) 10)
    = Ok [Bad E_INCONSISTENT].
Proof. vm_compute. reflexivity. Qed.
Example truncated_secondary_is_an_error :
  read_one true (mk_files ex_primary (ex_entry 0 ++ ex_entry 5 ++ repeat 0 30) 20)
    = Ok [Blk 0 5; Bad E_INCONSISTENT].
Proof. vm_compute. reflexivity. Qed.
