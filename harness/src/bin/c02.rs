//! C02: flat decoding is total on arbitrary bytes.
//! case := CScript bs script results pos used | CDecode op bs result
//! A script is a list of Decoder calls made one after another on one Decoder
//! (an Err does not stop the script, a panic does). Oracle: no call panics.
use pallas_codec::flat::de::{Decoder, Error};
use pallas_codec::flat::en::Encoder;
use pallas_codec::flat::filler::Filler;
use verif_harness::*;

#[derive(Clone, Debug)]
enum Op { Bool, U8, Word, Integer, Char, Bytes, Utf8, Filler, Str, Bits8(usize), List(Box<Op>) }

#[derive(Clone, Debug)]
enum DVal { Unit, Bool(bool), U8(u8), Word(usize), Int(isize), Char(u32), Bytes(Vec<u8>), Utf8(Vec<u8>), Str(Vec<u32>), Bits(u8), List(Vec<DVal>) }

fn coq_op(o: &Op) -> String {
    match o {
        Op::Bool => "OBool".into(), Op::U8 => "OU8".into(), Op::Word => "OWord".into(), Op::Integer => "OInteger".into(),
        Op::Char => "OChar".into(), Op::Bytes => "OBytes".into(), Op::Utf8 => "OUtf8".into(), Op::Filler => "OFiller".into(),
        Op::Str => "OString".into(), Op::Bits8(n) => format!("(OBits8 {})", n), Op::List(e) => format!("(OList {})", coq_op(e)),
    }
}
fn op_name(o: &Op) -> String {
    match o {
        Op::Bool => "bool".into(), Op::U8 => "u8".into(), Op::Word => "word".into(), Op::Integer => "integer".into(),
        Op::Char => "char".into(), Op::Bytes => "bytes".into(), Op::Utf8 => "utf8".into(), Op::Filler => "filler".into(),
        Op::Str => "string".into(), Op::Bits8(n) => if *n == 0 { "bits8(0)".into() } else { "bits8".into() },
        Op::List(e) => format!("list<{}>", op_name(e)),
    }
}
fn coq_dval(v: &DVal) -> String {
    match v {
        DVal::Unit => "DUnit".into(), DVal::Bool(b) => format!("(DBool {})", coq_bool(*b)), DVal::U8(x) => format!("(DU8 {})", x),
        DVal::Word(x) => format!("(DWord {})", x), DVal::Int(x) => format!("(DInt {})", coq_z(x)), DVal::Char(x) => format!("(DChar {})", x),
        DVal::Bytes(b) => format!("(DBytes {})", coq_bytes(b)), DVal::Utf8(b) => format!("(DUtf8 {})", coq_bytes(b)),
        DVal::Str(cs) => format!("(DString {})", coq_list(cs, |c| c.to_string())), DVal::Bits(x) => format!("(DBits {})", x),
        DVal::List(l) => format!("(DList {})", coq_list(l, coq_dval)),
    }
}
fn err_code(e: &Error) -> String {
    match e {
        Error::EndOfBuffer => "1".into(), Error::BufferNotByteAligned => "2".into(), Error::IncorrectNumBits => "3".into(),
        Error::NotEnoughBytes(n) => format!("{}", 1000u128 + *n as u128), Error::NotEnoughBits(n) => format!("{}", 2000u128 + *n as u128),
        Error::DecodeUtf8(_) => "6".into(), Error::DecodeChar(_) => "7".into(), Error::Message(_) => "8".into(),
        _ => "50".into(),
    }
}
fn panic_code(msg: &str) -> (u32, &'static str) {
    if msg.contains("out of bounds") || msg.contains("out of range") || msg.contains("slice index") { (1, "index") }
    else if msg.contains("shift") { (2, "shift") }
    else if msg.contains("overflow") { (3, "overflow") }
    else { (9, "other") }
}

fn run_op(d: &mut Decoder, o: &Op) -> Result<DVal, Error> {
    Ok(match o {
        Op::Bool => DVal::Bool(d.bool()?), Op::U8 => DVal::U8(d.u8()?), Op::Word => DVal::Word(d.word()?),
        Op::Integer => DVal::Int(d.integer()?), Op::Char => DVal::Char(d.char()? as u32), Op::Bytes => DVal::Bytes(d.bytes()?),
        Op::Utf8 => DVal::Utf8(d.utf8()?.into_bytes()), Op::Filler => { d.filler()?; DVal::Unit }
        Op::Str => DVal::Str(d.string()?.chars().map(|c| c as u32).collect()),
        Op::Bits8(n) => DVal::Bits(d.bits8(*n)?),
        Op::List(e) => { let e: &Op = e; DVal::List(d.decode_list_with(|d| run_op(d, e))?) }
    })
}

fn coq_out(o: &Out<DVal>) -> String {
    match o { Out::Ok(v) => format!("(Ok {})", coq_dval(v)), Out::Err(e) => format!("(Err {})", e), Out::Panic(m) => format!("(Panic {})", panic_code(m).0) }
}

fn run_script(bs: &[u8], script: &[Op], tag: &str, oracle_only: bool) {
    let mut d = Decoder::new(bs);
    let mut results: Vec<Out<DVal>> = vec![];
    for (i, o) in script.iter().enumerate() {
        let r = guard(|| run_op(&mut d, o).map_err(|e| err_code(&e)));
        let panicked = if let Out::Panic(m) = &r {
            emit_oracle_fail(&format!("{}:{}", op_name(o), panic_code(m).1),
                &format!("bytes={} script=[{}] call #{} ({}) panicked: {}", hex(bs),
                    script.iter().map(coq_op).collect::<Vec<_>>().join(";"), i, coq_op(o), m));
            true
        } else { false };
        results.push(r);
        if panicked { break; }
    }
    if !oracle_only {
        emit_case(tag, &format!("(CScript {} {} {} {} {})", coq_bytes(bs), coq_list(script, coq_op),
            coq_list(&results, coq_out), d.pos, coq_z(d.used_bits)));
    }
}

fn flat_decode(bs: &[u8], o: &Op) -> Option<Result<DVal, Error>> {
    use pallas_codec::flat::decode;
    Some(match o {
        Op::Bool => decode::<bool>(bs).map(DVal::Bool), Op::U8 => decode::<u8>(bs).map(DVal::U8),
        Op::Word => decode::<usize>(bs).map(DVal::Word), Op::Integer => decode::<isize>(bs).map(DVal::Int),
        Op::Char => decode::<char>(bs).map(|c| DVal::Char(c as u32)), Op::Bytes => decode::<Vec<u8>>(bs).map(DVal::Bytes),
        Op::Utf8 => decode::<String>(bs).map(|s| DVal::Utf8(s.into_bytes())), Op::Filler => decode::<Filler>(bs).map(|_| DVal::Unit),
        _ => return None,
    })
}
fn run_decode(bs: &[u8], o: &Op, tag: &str, oracle_only: bool) {
    if matches!(o, Op::Str | Op::Bits8(_) | Op::List(_)) { return; } // no Decode impl for these
    let r = guard(|| match flat_decode(bs, o) { Some(r) => r.map_err(|e| err_code(&e)), None => Err("50".into()) });
    if let Out::Panic(m) = &r {
        emit_oracle_fail(&format!("decode<{}>:{}", op_name(o), panic_code(m).1),
            &format!("flat::decode::<{}>(bytes={}) panicked: {}", op_name(o), hex(bs), m));
    }
    if !oracle_only { emit_case(tag, &format!("(CDecode {} {} {})", coq_op(o), coq_bytes(bs), coq_out(&r))); }
}

const ENTRY: [Op; 9] = [Op::Bool, Op::U8, Op::Word, Op::Integer, Op::Char, Op::Bytes, Op::Utf8, Op::Filler, Op::Str];

fn gen_elem_op(rng: &mut Rng, depth: u32) -> Op {
    match rng.below(if depth == 0 { 13 } else { 11 }) {
        0 => Op::Bool, 1 => Op::U8, 2 => Op::Word, 3 => Op::Integer, 4 => Op::Char, 5 => Op::Bytes, 6 => Op::Utf8,
        7 => Op::Filler, 8 => Op::Str, 9 => Op::Bits8(rng.range(1, 8) as usize),
        10 => Op::Bits8(match rng.below(5) { 0 => 0, 1 => 8, 2 => 9, 3 => usize::MAX - rng.below(2) as usize, _ => rng.below(12) as usize }),
        _ => Op::List(Box::new(gen_elem_op(rng, depth + 1))),
    }
}

/// a valid encoding of a few random values (possibly not byte aligned before the filler)
fn gen_valid(rng: &mut Rng) -> Vec<u8> {
    let mut e = Encoder::new();
    for _ in 0..rng.range(1, 5) {
        match rng.below(7) {
            0 => { e.bool(rng.bool()); }
            1 => { e.u8(rng.byte()).unwrap(); }
            2 => { e.word(rng.edge_u64() as usize); }
            3 => { e.integer(rng.edge_u64() as i64 as isize); }
            4 => { let n = *rng.pick(&[0usize, 1, 3, 20, 40]); let b = rng.bytes(n); e.bytes(&b).unwrap(); }
            5 => { e.utf8(*rng.pick(&["", "a", "h\u{e9}llo", "\u{10ffff}\u{800}z", "\u{20ac}"])).unwrap(); }
            _ => { e.char(*rng.pick(&['a', '\u{7ff}', '\u{d7ff}', '\u{e000}', '\u{10ffff}'])); }
        }
    }
    if rng.chance(3, 4) { e.encode(Filler::FillerEnd).unwrap(); }
    let mut b = e.buffer.clone();
    b.truncate(64);
    b
}

fn gen_bytes(rng: &mut Rng) -> (Vec<u8>, &'static str) {
    match rng.below(12) {
        0 => (vec![], "empty"),
        1 => { let n = rng.range(1, 64) as usize; (rng.bytes(n), "random") }
        2 => { // 0xff continuation run, then an optional terminator
            let n = rng.range(1, 24) as usize; let mut b = vec![0xffu8; n];
            if rng.bool() { b.push(rng.byte() & 0x7f); } (b, "ff-run") }
        3 => { // 0x80 run: continuation bit with zero payload
            let n = rng.range(1, 40) as usize; let mut b = vec![0x80u8; n];
            if rng.bool() { b.push(rng.byte() & 0x7f); } (b, "80-run") }
        4 => { // word of exactly 9..11 groups with a boundary top group
            let n = rng.range(8, 10) as usize; let mut b: Vec<u8> = (0..n).map(|_| rng.byte() | 0x80).collect();
            b.push(*rng.pick(&[0u8, 1, 2, 3, 0x7f, 0x40])); let k = rng.below(3) as usize; b.extend(rng.bytes(k)); (b, "word-boundary") }
        5 => { let b = gen_valid(rng); (b, "valid") }
        6 => { let mut b = gen_valid(rng); let k = rng.below(b.len() as u64 + 1) as usize; b.truncate(k); (b, "valid-truncated") }
        7 => { let mut b = gen_valid(rng); if !b.is_empty() { let k = rng.below(b.len() as u64) as usize; b[k] ^= 1 << rng.below(8); } (b, "valid-bitflip") }
        8 => { // byte-array blocks whose length bytes point at / past the end
            let mut b = vec![]; if rng.bool() { b.push(1); }
            for _ in 0..rng.range(1, 3) { let l = rng.range(0, 20) as usize; b.push(match rng.below(3) { 0 => l as u8, 1 => (l + 1) as u8, _ => 255 }); b.extend(rng.bytes(l)); }
            if rng.bool() { b.push(0); } b.truncate(64); (b, "blocks") }
        9 => { let n = rng.range(1, 10) as usize; let mut b = vec![0u8; n]; if rng.bool() { b.push(1); } (b, "zeros") }
        10 => { let n = rng.range(1, 16) as usize; let mut b = rng.bytes(n); for x in b.iter_mut() { if rng.bool() { *x = *rng.pick(&[0u8, 1, 0x7f, 0x80, 0xff, 0xfe]); } } (b, "boundary-bytes") }
        _ => { // utf-8 edge payload inside a well-formed byte array at bit 0
            let p: &[u8] = *rng.pick(&[&[0xc0u8, 0x80][..], &[0xed, 0xa0, 0x80], &[0xf4, 0x90, 0x80, 0x80], &[0xe0, 0x9f, 0xbf], &[0xf0, 0x8f, 0xbf, 0xbf],
                &[0xed, 0x9f, 0xbf], &[0xf4, 0x8f, 0xbf, 0xbf], &[0xc2], &[0xe2, 0x82], &[0x80], &[0xf5, 0x80, 0x80, 0x80], &[0xf0, 0x90, 0x80, 0x80], &[0xe0, 0xa0, 0x80], &[0xdf, 0xbf]]);
            let mut b = vec![1u8, p.len() as u8]; b.extend(p); b.push(0); b.push(1); (b, "utf8-edge") }
    }
}

fn main() {
    let args = args();
    let mut rng = Rng::new(args.seed);
    let oo = args.oracle_only;
    // deterministic boundary inputs the quantifier names: empty input, 0xff runs, every entry point
    for o in ENTRY.iter().chain([Op::Bits8(0), Op::Bits8(1), Op::Bits8(8), Op::Bits8(9), Op::List(Box::new(Op::Bool))].iter()) {
        run_script(&[], &[o.clone()], "boundary-empty", oo);
        run_decode(&[], o, "boundary-empty-decode", oo);
        for n in [1usize, 9, 10, 11, 12, 20] {
            let mut b = vec![0xffu8; n];
            run_script(&b, &[o.clone()], "boundary-ff", oo);
            b.push(1);
            run_script(&b, &[o.clone()], "boundary-ff", oo);
            run_decode(&b, o, "boundary-ff-decode", oo);
        }
        // every entry offset 0..7 on a one-byte and a two-byte buffer
        for k in 0..8usize {
            let mut s = vec![Op::Bits8(1); k]; s.push(o.clone());
            run_script(&[0xa5], &s, "boundary-offset", oo);
            run_script(&[0x00, 0x81], &s, "boundary-offset", oo);
        }
    }
    // byte-array blocks that end exactly at / just before / just after the end of the buffer, at bit 0 and after 1..7 bits
    for l in [0usize, 1, 2, 3, 254, 255] {
        for cut in 0..3usize {
            let mut b = vec![1u8, l as u8];
            b.extend((0..l).map(|i| (i as u8).wrapping_mul(3)));
            match cut { 0 => {} 1 => { b.push(0); } _ => { b.push(2); b.extend([9u8, 9]); b.push(0); } }
            for o in [Op::Bytes, Op::Utf8] {
                run_script(&b, &[o.clone()], "boundary-block-end", oo);
                run_script(&b, &[Op::Bits8(3), o.clone()], "boundary-block-end", oo);
                run_decode(&b, &o, "boundary-block-end-decode", oo);
            }
        }
    }
    // words of exactly 9, 10, 11 groups with every interesting top group
    for n in [8usize, 9, 10] {
        for top in [0u8, 1, 2, 3, 0x7f] {
            for fill in [0xffu8, 0x80] {
                let mut b = vec![fill; n]; b.push(top);
                for o in [Op::Word, Op::Integer, Op::Char] {
                    run_script(&b, &[o.clone()], "boundary-word-top", oo);
                    run_script(&b, &[Op::Bits8(5), o.clone()], "boundary-word-top", oo);
                }
            }
        }
    }
    for i in 0..args.n {
        let (bs, btag) = gen_bytes(&mut rng);
        if rng.chance(1, 5) {
            let o = rng.pick(&ENTRY[..8]).clone();
            if i < 2 { emit_sample(&format!("decode<{}> {}", op_name(&o), hex(&bs))); }
            run_decode(&bs, &o, &format!("decode/{}", btag), oo);
        } else {
            let len = if rng.chance(1, 3) { 1 } else { rng.range(1, 6) as usize };
            let mut script: Vec<Op> = vec![];
            // entry offset: a prefix of k single-bit reads
            if rng.chance(1, 3) { for _ in 0..rng.below(8) { script.push(Op::Bits8(1)); } }
            for _ in 0..len { script.push(gen_elem_op(&mut rng, 0)); }
            if i < 3 { emit_sample(&format!("bytes={} script={}", hex(&bs), coq_list(&script, coq_op))); }
            run_script(&bs, &script, &format!("script/{}", btag), oo);
        }
    }
}
