(* C33/C38 model, part 1: abstract transactions / UTxO / parameters, value arithmetic of
   pallas-validate/src/utils.rs, and the Byron and Shelley-MA validators of
   pallas-validate/src/phase1/{byron,shelley_ma}.rs, transcribed check by check in the order of
   validate_byron_tx / validate_shelley_ma_tx.

   What is data supplied by the harness (external code, outside the model):
   hashes (as big-endian integers; equality and order are those of the byte strings), address
   parsing (pallas-addresses), ed25519 verification (one bit per witness, meaningful only when the
   key/signature lengths are 32/64), CBOR sizes (transaction size, value size in words), the
   Byron address-root match bit per (spent output, witness), native-script evaluation (one bit per
   script), the cumulative native-script payload hashes of shelley_ma::check_native_script_witness,
   the outcome and deposit counters of shelley_ma::check_certificates, and the expected
   script-integrity hashes.  Everything else - every comparison, lookup, loop, option case,
   fixed-width arithmetic operation and cast of the validators - is in the model. *)
From PV Require Import Lib.Base.
Open Scope Z_scope.

(* ---------------------------------------------------------------- fixed-width arithmetic *)
Definition U32 : Z := 4294967296.
Definition U64 : Z := 18446744073709551616.
Definition U128 : Z := 340282366920938463463374607431768211456.
Definition I64MAX : Z := 9223372036854775807.
Definition I64MIN : Z := -9223372036854775808.
Definition in_u32 (x : Z) : bool := (0 <=? x) && (x <? U32).
Definition in_u64 (x : Z) : bool := (0 <=? x) && (x <? U64).
Definition in_i64 (x : Z) : bool := (I64MIN <=? x) && (x <=? I64MAX).

Definition ok : outcome unit := Ok tt.
Definition bind {A B} (x : outcome A) (f : A -> outcome B) : outcome B :=
  match x with Ok a => f a | Err e => Err e | Panic p => Panic p end.
Notation "x <- e ;; k" := (bind e (fun x => k)) (at level 61, e at next level, right associativity).
Notation "e ;;; k" := (bind e (fun _ => k)) (at level 61, right associativity).
(* `if b { return Err(e) }` *)
Definition fail_if (b : bool) (e : Z) : outcome unit := if b then Err e else ok.
(* Option::ok_or *)
Definition ok_or {A} (o : option A) (e : Z) : outcome A := match o with Some a => Ok a | None => Err e end.

(* u64::checked_add / checked_mul / checked_sub *)
Definition cadd64 (a b : Z) : option Z := if a + b <? U64 then Some (a + b) else None.
Definition cmul64 (a b : Z) : option Z := if a * b <? U64 then Some (a * b) else None.
Definition csub64 (a b : Z) : option Z := if b <=? a then Some (a - b) else None.
(* i64::checked_add *)
Definition cadd_i64 (a b : Z) : option Z := if in_i64 (a + b) then Some (a + b) else None.
(* plain `*` on u128 (overflow-checked builds panic; see mul128_no_panic) *)
Definition PANIC_MUL128 : Z := 1.
Definition PANIC_MUL64 : Z := 2.
Definition PANIC_ADD64 : Z := 3.
Definition mul128 (a b : Z) : outcome Z := if a * b <? U128 then Ok (a * b) else Panic PANIC_MUL128.
(* plain `*` / `+` on u64; [dev] = overflow checks on (panic), otherwise wrap *)
Definition mul64 (dev : bool) (a b : Z) : outcome Z :=
  if a * b <? U64 then Ok (a * b) else if dev then Panic PANIC_MUL64 else Ok ((a * b) mod U64).
Definition add64 (dev : bool) (a b : Z) : outcome Z :=
  if a + b <? U64 then Ok (a + b) else if dev then Panic PANIC_ADD64 else Ok ((a + b) mod U64).
(* `x as u32` from usize *)
Definition as_u32 (x : Z) : Z := x mod U32.
(* `x as i64` from u64, `x as u64` from i64 *)
Definition u64_as_i64 (x : Z) : Z := if x <=? I64MAX then x else x - U64.
Definition i64_as_u64 (x : Z) : Z := if 0 <=? x then x else x + U64.

(* ---------------------------------------------------------------- abstract data *)
Inductive pay := PKey (h : Z) | PScript (h : Z).
(* Address::from_bytes of an output address, as far as the validators look at it *)
Inductive addr := AShelley (net : Z) (p : pay) | AByron | AOther.
Definition assets := list (Z * list (Z * Z)).           (* policy -> asset name -> quantity *)
Inductive value := VCoin (c : Z) | VMulti (c : Z) (ma : assets).
Inductive datum := DNone | DHash (h : Z) | DInline.
Inductive uera := EByron | EAlonzoC | EBabbage | EConway.  (* MultiEraOutput variant *)

Definition inref : Type := (Z * Z).                       (* transaction id, output index *)
Definition inref_eqb (a b : inref) : bool := (fst a =? fst b) && (snd a =? snd b).

(* an entry of the UTxO set *)
Record uout := {
  u_era : uera;
  u_alonzo_era : Z;          (* AlonzoCompatible: 1 Shelley, 2 Allegra, 3 Mary, 4 Alonzo *)
  u_legacy : bool;           (* Babbage/Conway: Legacy vs PostAlonzo format *)
  u_addr : addr;
  u_val : value;
  u_datum : datum;
  u_sref : option (Z * Z);   (* script_ref: (kind 0 native / 1..3 Plutus version, script hash) *)
  u_btype : Z;               (* Byron output: address type 0 PubKey 1 Script 2 Redeem 3 other, 4 = payload does not decode *)
  u_bmatch : list bool       (* Byron output: for each witness of the tx, address root == hash(type, key, attributes) *)
}.
(* key: (Byron TxIn variant?, id, index) *)
Definition ukey : Type := (bool * Z * Z).
Definition utxo := list (ukey * uout).
Fixpoint lookup (byron : bool) (i : inref) (u : utxo) : option uout :=
  match u with
  | [] => None
  | ((b, h, ix), o) :: r => if Bool.eqb b byron && (h =? fst i) && (ix =? snd i) then Some o else lookup byron i r
  end.

(* vkey witness: lengths, blake2b-224 of the key, ed25519 verification bit *)
Record vkw := { k_vlen : Z; k_slen : Z; k_hash : Z; k_ok : bool }.
(* utils::verify_signature (with its length check) *)
Definition verify (k : vkw) : bool := if negb (k_vlen k =? 32) || negb (k_slen k =? 64) then false else k_ok k.

(* native script witness: hash of 0x00||cbor, hash of the cumulative payload (shelley_ma), evaluation bit *)
Record nsw := { n_hash : Z; n_cumhash : Z; n_eval : bool }.
Record redeemer := { r_tag : Z; r_index : Z; r_mem : Z; r_steps : Z }.

(* transaction output *)
Record tout := {
  o_legacy : bool; o_addr : addr; o_val : value; o_words : Z (* get_val_size_in_words *);
  o_datum : datum; o_has_sref : bool
}.
Inductive wdl := WBad | WStake (net : Z) (script : bool) (h : Z).   (* withdrawal key parsed as a stake address *)

(* Shelley-MA certificates (alonzo::Certificate) as far as check_certificates looks at them; a stake
   credential is 2*hash + (1 if script), hashes are integers *)
Inductive cert :=
| CReg (c : Z) | CDereg (c : Z) | CDeleg (c pool : Z)
| CPoolReg (operator cost : Z) | CPoolRet (pool epoch : Z)
| CGenDeleg (gkh dkh vrf : Z)
| CMir (treasury : bool) (target : option (list (Z * Z))).   (* Some: credential -> delta (i64); None: other accounting pot *)
(* the parts of CertState that check_certificates reads *)
Record cstate := {
  cs_rewards : list (Z * Z);                 (* credential -> reward balance *)
  cs_ptrs : list ((Z * Z * Z) * Z);          (* (slot, tx index, certificate index) -> credential *)
  cs_pools : list Z;                         (* registered pool ids (keys of pool_params) *)
  cs_gen : list (Z * (Z * Z));               (* genesis key -> (delegate, vrf) *)
  cs_fut_gen : list ((Z * Z) * (Z * Z));     (* (slot, genesis key) -> (delegate, vrf) *)
  cs_ir_reserves : list (Z * Z);             (* instantaneous rewards, reserves pot *)
  cs_ir_treasury : list (Z * Z)
}.
Record tx := {
  t_era : Z;                         (* 0 Byron, 1 Shelley, 2 Allegra, 3 Mary, 4 Alonzo, 5 Babbage, 6 Conway *)
  t_size : Z;
  t_inputs : list inref;
  t_outputs : list tout;
  t_fee : Z;
  t_ttl : option Z;
  t_vstart : option Z;
  t_mint : option assets;
  t_collateral : option (list inref);
  t_coll_return : option tout;
  t_total_coll : option Z;
  t_ref_inputs : option (list inref);
  t_network_id : option Z;
  t_aux_hash : option Z;             (* body field *)
  t_aux_actual : option Z;           (* blake2b-256 of the auxiliary data, when present *)
  t_sdh : option Z;                  (* script_data_hash field *)
  t_sdh_expected : list Z;           (* hashes the implementation accepts, when it can compute them ([] = cannot) *)
  t_req_signers : option (list Z);
  t_withdrawals : option (list wdl);
  w_vkeys : option (list vkw);
  w_native : option (list nsw);
  w_v1 : option (list Z);
  w_v2 : option (list Z);
  w_v3 : option (list Z);
  w_datums : option (list Z);
  w_redeemers : option (list redeemer);
  (* Shelley-MA certificates, the certificate state they run on, and (rule level only) deposit counters
     handed to check_preservation_of_value instead of the ones check_certificates computes *)
  t_certs : option (list cert);
  t_cstate : cstate;
  t_counts : option (Z * Z * Z);
  (* Byron *)
  b_outs : list Z;
  b_wits : list (Z * Z * Z * bool)   (* kind 0 Pk / 1 script (unprocessable) / 2 Redeem, key length, signature length, verifies *)
}.

Record params := {
  p_era : Z;                         (* 0 Byron, 1 Shelley, 4 Alonzo, 5 Babbage, 6 Conway *)
  p_minfee_a : Z; p_minfee_b : Z; p_max_tx_size : Z;
  p_min_utxo_value : Z; p_key_deposit : Z; p_pool_deposit : Z;
  p_ada_per_utxo_byte : Z; p_max_value_size : Z; p_collateral_percentage : Z; p_max_collateral_inputs : Z;
  p_ex_mem : Z; p_ex_steps : Z;
  p_cm_v1 : bool; p_cm_v2 : bool; p_cm_v3 : bool;       (* Conway: cost model present *)
  p_summand : Z; p_multiplier : Z;
  p_min_pool_cost : Z; p_maximum_epoch : Z
}.
Record env := { e_pp : params; e_magic : Z; e_slot : Z; e_netid : Z; e_acnt : bool; e_treasury : Z; e_reserves : Z }.

Definition coin_of (v : value) : Z := match v with VCoin c => c | VMulti c _ => c end.

(* ---------------------------------------------------------------- utils.rs: value arithmetic *)
(* association-list versions of the HashMap/BTreeMap manipulations *)
Fixpoint find_q (n : Z) (l : list (Z * Z)) : option Z :=
  match l with [] => None | (k, q) :: r => if k =? n then Some q else find_q n r end.
Fixpoint find_p (p : Z) (m : assets) : option (list (Z * Z)) :=
  match m with [] => None | (k, a) :: r => if k =? p then Some a else find_p p r end.
Fixpoint set_q (n q : Z) (l : list (Z * Z)) : list (Z * Z) :=
  match l with [] => [(n, q)] | (k, x) :: r => if k =? n then (k, q) :: r else (k, x) :: set_q n q r end.
Fixpoint set_p (p : Z) (a : list (Z * Z)) (m : assets) : assets :=
  match m with [] => [(p, a)] | (k, x) :: r => if k =? p then (k, a) :: r else (k, x) :: set_p p a r end.

(* add_same_policy_assets / conway_add_same_policy_assets: [cadd] is the checked addition in use *)
Fixpoint add_same (cadd : Z -> Z -> option Z) (old new : list (Z * Z)) (e : Z) : outcome (list (Z * Z)) :=
  match new with
  | [] => Ok old
  | (n, q) :: r =>
      match find_q n old with
      | Some o => match cadd o q with Some s => add_same cadd (set_q n s old) r e | None => Err e end
      | None => add_same cadd (set_q n q old) r e
      end
  end.
(* one `for (policy, new_assets) in x.iter()` loop of add_multiasset_values *)
Fixpoint add_into (cadd : Z -> Z -> option Z) (res x : assets) (e : Z) : outcome assets :=
  match x with
  | [] => Ok res
  | (p, a) :: r =>
      s <- add_same cadd (match find_p p res with Some o => o | None => [] end) a e ;;
      add_into cadd (set_p p s res) r e
  end.
Definition add_ma (cadd : Z -> Z -> option Z) (f s : assets) (e : Z) : outcome assets :=
  r1 <- add_into cadd [] f e ;; add_into cadd r1 s e.

Definition map_q (f : Z -> Z) (m : assets) : assets := map (fun pa => (fst pa, map (fun nq => (fst nq, f (snd nq))) (snd pa))) m.
(* coerce_to_coin: u64::try_from(i64) on every quantity *)
Fixpoint all_q (ok : Z -> bool) (m : assets) : bool :=
  match m with [] => true | (_, a) :: r => forallb (fun nq => ok (snd nq)) a && all_q ok r end.
Definition coerce_to_coin (m : assets) (e : Z) : outcome assets := if all_q (fun q => 0 <=? q) m then Ok m else Err e.
(* conway_coerce_to_coin: PositiveCoin::try_from on every quantity *)
Definition conway_coerce_to_coin (m : assets) (e : Z) : outcome assets := if all_q (fun q => 0 <? q) m then Ok m else Err e.

Definition add_lovelace (a b e : Z) : outcome Z := ok_or (cadd64 a b) e.

(* coerce_to_i64: i64::try_from on every quantity *)
Definition coerce_to_i64 (m : assets) (e : Z) : outcome assets := if all_q (fun q => q <=? I64MAX) m then Ok m else Err e.
(* add_values (pre-Conway): quantities go through i64::try_from, checked i64 addition, then u64::try_from *)
Definition add_values (f s : value) (e : Z) : outcome value :=
  match f, s with
  | VCoin a, VCoin b => c <- add_lovelace a b e ;; Ok (VCoin c)
  | VMulti a m, VCoin b => c <- add_lovelace a b e ;; Ok (VMulti c m)
  | VCoin a, VMulti b m => c <- add_lovelace a b e ;; Ok (VMulti c m)
  | VMulti a fm, VMulti b sm =>
      c <- add_lovelace a b e ;;
      fi <- coerce_to_i64 fm e ;; si <- coerce_to_i64 sm e ;;
      r <- add_ma cadd_i64 fi si e ;;
      r' <- coerce_to_coin r e ;; Ok (VMulti c r')
  end.
(* conway_add_values: checked u64 addition, then PositiveCoin::try_from *)
Definition conway_add_values (f s : value) (e : Z) : outcome value :=
  match f, s with
  | VCoin a, VCoin b => c <- add_lovelace a b e ;; Ok (VCoin c)
  | VMulti a m, VCoin b => c <- add_lovelace a b e ;; Ok (VMulti c m)
  | VCoin a, VMulti b m => c <- add_lovelace a b e ;; Ok (VMulti c m)
  | VMulti a fm, VMulti b sm =>
      c <- add_lovelace a b e ;;
      r <- add_ma cadd64 fm sm e ;;
      r' <- conway_coerce_to_coin r e ;; Ok (VMulti c r')
  end.
(* add_minted_value (pre-Conway) *)
Definition add_minted_value (base : value) (mint : assets) (e : Z) : outcome value :=
  match base with
  | VCoin n => r <- coerce_to_coin mint e ;; Ok (VMulti n r)
  | VMulti n bm =>
      bi <- coerce_to_i64 bm e ;;
      r <- add_ma cadd_i64 bi mint e ;;
      r' <- coerce_to_coin r e ;; Ok (VMulti n r')
  end.

(* multi_asset_included: zero quantities of the first are skipped, a missing policy fails *)
Fixpoint ma_included (skip : Z -> bool) (f s : assets) : bool :=
  match f with
  | [] => true
  | (p, a) :: r =>
      match find_p p s with
      | Some sa => forallb (fun nq => if skip (snd nq) then true
                                      else match find_q (fst nq) sa with Some q => snd nq =? q | None => false end) a
                   && ma_included skip r s
      | None => false
      end
  end.
Definition ma_equal (skip : Z -> bool) (f s : assets) : bool := ma_included skip f s && ma_included skip s f.
Definition is_nil {A} (l : list A) : bool := match l with [] => true | _ => false end.
(* values_are_equal / conway_values_are_equal; [skip q] = the quantity is ignored (0, resp. < 1) *)
Definition values_equal (skip : Z -> bool) (f s : value) : bool :=
  match f, s with
  | VCoin a, VCoin b => a =? b
  | VMulti a m, VCoin b => (a =? b) && is_nil m
  | VCoin a, VMulti b m => (a =? b) && is_nil m
  | VMulti a fm, VMulti b sm => if negb (a =? b) then false else ma_equal skip fm sm
  end.
Definition skip0 (q : Z) : bool := q =? 0.
Definition skip_lt1 (q : Z) : bool := negb (1 <=? q).
(* lovelace_diff_or_fail / conway_lovelace_diff_or_fail *)
Definition lovelace_diff (skip : Z -> bool) (f s : value) (e : Z) : outcome Z :=
  match f, s with
  | VCoin a, VCoin b => if b <=? a then Ok (a - b) else Err e
  | VCoin _, VMulti _ _ => Err e
  | VMulti a m, VCoin b => if (b <=? a) && is_nil m then Ok (a - b) else Err e
  | VMulti a fm, VMulti b sm => if (b <=? a) && ma_equal skip fm sm then Ok (a - b) else Err e
  end.

(* ---------------------------------------------------------------- top-level dispatch (phase1/mod.rs) *)
Definition E_TxAndProtParamsDiffer : Z := 1.
Definition E_PParamsByronDoesntNeedAccountState : Z := 2.
Definition E_EnvMissingAccountState : Z := 3.

(* ---------------------------------------------------------------- Byron (codes 100+) *)
Definition byron_check_ins_not_empty (t : tx) : outcome unit := fail_if (is_nil (t_inputs t)) 100.
Definition byron_check_outs_not_empty (t : tx) : outcome unit := fail_if (is_nil (b_outs t)) 101.
Definition byron_check_ins_in_utxos (t : tx) (u : utxo) : outcome unit :=
  fail_if (negb (forallb (fun i => match lookup true i u with Some _ => true | None => false end) (t_inputs t))) 102.
Definition byron_check_outs_have_lovelace (t : tx) : outcome unit := fail_if (existsb (fun a => a =? 0) (b_outs t)) 103.
Definition as_byron (o : uout) : bool := match u_era o with EByron => true | _ => false end.
(* is_redeem_utxo: find_tx_out ok, payload decodes, type Redeem *)
Definition is_redeem_utxo (i : inref) (u : utxo) : bool :=
  match lookup true i u with Some o => as_byron o && (u_btype o =? 2) | None => false end.
Fixpoint byron_inputs_balance (ins : list inref) (u : utxo) (acc : Z) (only_redeem : bool) : outcome (Z * bool) :=
  match ins with
  | [] => Ok (acc, only_redeem)
  | i :: r =>
      let only := if is_redeem_utxo i u then only_redeem else false in
      match lookup true i u with
      | Some o => if as_byron o then
                    match cadd64 acc (coin_of (u_val o)) with
                    | Some s => byron_inputs_balance r u s only
                    | None => Err 105
                    end
                  else Err 105
      | None => Err 105
      end
  end.
Fixpoint sum_checked (l : list Z) (acc : Z) (e : Z) : outcome Z :=
  match l with [] => Ok acc | x :: r => match cadd64 acc x with Some s => sum_checked r s e | None => Err e end end.
Definition byron_check_fees (t : tx) (u : utxo) (pp : params) : outcome unit :=
  ib <- byron_inputs_balance (t_inputs t) u 0 true ;;
  if snd ib then ok else
  ob <- sum_checked (b_outs t) 0 105 ;;
  bal <- ok_or (csub64 (fst ib) ob) 106 ;;
  minf <- ok_or (match cmul64 (p_multiplier pp) (t_size t) with Some x => cadd64 x (p_summand pp) | None => None end) 105 ;;
  fail_if (bal <? minf) 106.
Definition byron_check_size (t : tx) (pp : params) : outcome unit := fail_if (p_max_tx_size pp <? t_size t) 107.
(* find_raw_witness over the tagged witnesses *)
Fixpoint byron_find_witness (ws : list (Z * Z * Z * bool)) (ms : list bool) (btype : Z) : outcome (Z * Z * Z * bool) :=
  match ws, ms with
  | w :: wr, m :: mr =>
      let '(kind, _, _, _) := w in
      (* redeems: address type must be PubKey/Redeem, root must match, witness kind must equal the address type *)
      if ((btype =? 0) || (btype =? 2)) && m && (kind =? btype) then Ok w
      else byron_find_witness wr mr btype
  | _, _ => Err 109
  end.
Fixpoint byron_check_inputs (ins : list inref) (u : utxo) (ws : list (Z * Z * Z * bool)) : outcome unit :=
  match ins with
  | [] => ok
  | i :: r =>
      o <- ok_or (lookup true i u) 102 ;;
      (if as_byron o then ok else Err 102) ;;;
      (if u_btype o =? 4 then Err 108 else ok) ;;;
      w <- byron_find_witness ws (u_bmatch o) (u_btype o) ;;
      let '(_, klen, slen, vok) := w in
      (if klen <? 32 then Err 108 else ok) ;;;          (* get_verification_key *)
      (if negb (slen =? 64) then Err 110 else ok) ;;;   (* get_signature *)
      (if vok then ok else Err 110) ;;;
      byron_check_inputs r u ws
  end.
Definition byron_check_witnesses (t : tx) (u : utxo) : outcome unit :=
  (* tag_witnesses: a script witness is unprocessable *)
  (if existsb (fun w => let '(kind, _, _, _) := w in kind =? 1) (b_wits t) then Err 108 else ok) ;;;
  byron_check_inputs (t_inputs t) u (b_wits t).
Definition byron_checks (t : tx) (u : utxo) (e : env) : list (outcome unit) :=
  [ byron_check_ins_not_empty t; byron_check_outs_not_empty t; byron_check_ins_in_utxos t u;
    byron_check_outs_have_lovelace t; byron_check_fees t u (e_pp e); byron_check_size t (e_pp e);
    byron_check_witnesses t u ].

(* first non-Ok outcome of a sequence of checks: the `?` chain of a validator *)
Fixpoint seq_checks (l : list (outcome unit)) : outcome unit :=
  match l with [] => ok | c :: r => c ;;; seq_checks r end.

(* ---------------------------------------------------------------- Shelley-MA (codes 200+) *)
Definition in_utxo (i : inref) (u : utxo) : bool := match lookup false i u with Some _ => true | None => false end.
Definition sh_check_ins_not_empty (t : tx) : outcome unit := fail_if (is_nil (t_inputs t)) 200.
Definition sh_check_ins_in_utxos (t : tx) (u : utxo) : outcome unit := fail_if (negb (forallb (fun i => in_utxo i u) (t_inputs t))) 201.
Definition sh_check_ttl (t : tx) (e : env) : outcome unit :=
  match t_ttl t with Some ttl => fail_if (ttl <? e_slot e) 202 | None => Err 203 end.
Definition sh_check_tx_size (t : tx) (pp : params) : outcome unit := fail_if (p_max_tx_size pp <? as_u32 (t_size t)) 205.
Definition sh_min_lovelace (o : tout) (pp : params) : option Z :=
  match o_val o with
  | VCoin _ => Some (p_min_utxo_value pp)
  | VMulti lovelace _ =>
      match cadd64 (o_words o) 27 with
      | Some sz => match cmul64 sz (p_min_utxo_value pp / 27) with Some m => Some (Z.max lovelace m) | None => None end
      | None => None
      end
  end.
Definition sh_check_min_lovelace (t : tx) (pp : params) : outcome unit :=
  fail_if (existsb (fun o => match sh_min_lovelace o pp with Some m => coin_of (o_val o) <? m | None => true end) (t_outputs t)) 207.
(* ---- certificates: shelley_ma::check_certificates with the time arithmetic of
   pallas_traverse::wellknown::GenesisValues::mainnet() (absolute_slot_to_relative / relative_slot_to_absolute) *)
Definition mem_pool (x : Z) (l : list Z) : bool := existsb (fun y => y =? x) l.
Definition STAB_WIN : Z := 129600.
Definition sat_add64 (a b : Z) : Z := Z.min (a + b) (U64 - 1).            (* u64::saturating_add *)
(* to_epoch: Byron slots are 20 s and epochs 432000 s; Shelley starts at slot 4492800 = epoch 208 *)
Definition to_epoch (slot : Z) : Z :=
  if slot <? 4492800 then (slot * 20) / 432000 else 208 + (slot - 4492800) / 432000.
(* first_slot: the Shelley branch multiplies and adds in plain u64 (pallas-traverse/src/time.rs) *)
Definition first_slot (dev : bool) (epoch : Z) : outcome Z :=
  if epoch <? 208 then Ok ((epoch * 432000) / 20)
  else s <- mul64 dev (epoch - 208) 432000 ;; add64 dev 4492800 s.
Definition has_key {A} (k : Z) (l : list (Z * A)) : bool := existsb (fun kv => fst kv =? k) l.
Fixpoint set_kv {A} (k : Z) (v : A) (l : list (Z * A)) : list (Z * A) :=
  match l with [] => [(k, v)] | (k', x) :: r => if k' =? k then (k', v) :: r else (k', x) :: set_kv k v r end.
Definition ptr_eqb3 (a b : Z * Z * Z) : bool :=
  let '(a1, a2, a3) := a in let '(b1, b2, b3) := b in (a1 =? b1) && (a2 =? b2) && (a3 =? b3).
Definition upd_rewards (st : cstate) r := Build_cstate r (cs_ptrs st) (cs_pools st) (cs_gen st) (cs_fut_gen st) (cs_ir_reserves st) (cs_ir_treasury st).
Definition upd_ptrs (st : cstate) p := Build_cstate (cs_rewards st) p (cs_pools st) (cs_gen st) (cs_fut_gen st) (cs_ir_reserves st) (cs_ir_treasury st).
Definition upd_pools (st : cstate) p := Build_cstate (cs_rewards st) (cs_ptrs st) p (cs_gen st) (cs_fut_gen st) (cs_ir_reserves st) (cs_ir_treasury st).
Definition upd_fut_gen (st : cstate) f := Build_cstate (cs_rewards st) (cs_ptrs st) (cs_pools st) (cs_gen st) f (cs_ir_reserves st) (cs_ir_treasury st).
Definition upd_ir (st : cstate) r t := Build_cstate (cs_rewards st) (cs_ptrs st) (cs_pools st) (cs_gen st) (cs_fut_gen st) r t.
(* check_mir *)
Definition sh_check_mir (dev : bool) (treasury : bool) (target : option (list (Z * Z))) (st : cstate) (slot pot_t pot_r : Z) : outcome cstate :=
  fs <- first_slot dev (to_epoch slot + 1) ;;
  if fs <=? sat_add64 slot STAB_WIN then Err 230 else
  let ir_pot := if treasury then cs_ir_treasury st else cs_ir_reserves st in
  let pot := if treasury then pot_t else pot_r in
  let combined := match target with
                  | Some kvp => fold_left (fun m kv => set_kv (fst kv) (snd kv) m) (map (fun kv => (fst kv, i64_as_u64 (snd kv))) kvp ++ ir_pot) []
                  | None => [] end in
  (* checked sum: an overflow is more than any pot *)
  match sum_checked (map snd combined) 0 229 with
  | Ok total => if pot <? total then Err 229
                else Ok (if treasury then upd_ir st (cs_ir_treasury st) combined else upd_ir st combined (cs_ir_reserves st))
  | Err x => Err x
  | Panic p => Panic p
  end.
(* one certificate: new state and counters (registrations, deregistrations, new pools); on an error the
   counters are returned as far as they were updated *)
Definition sh_cert (dev : bool) (c : cert) (cert_ix : Z) (st : cstate) (cnt : Z * Z * Z) (e : env) : outcome cstate * (Z * Z * Z) :=
  let '(dep, refund, pools) := cnt in
  let slot := e_slot e in
  match c with
  | CReg cr =>
      let cnt' := (dep + 1, refund, pools) in
      if has_key cr (cs_rewards st) then (Err 219, cnt')
      else if existsb (fun kv => ptr_eqb3 (fst kv) (slot, 0, cert_ix)) (cs_ptrs st) then (Err 221, cnt')
      else (Ok (upd_ptrs (upd_rewards st (set_kv cr 0 (cs_rewards st))) (cs_ptrs st ++ [((slot, 0, cert_ix), cr)])), cnt')
  | CDereg cr =>
      match find_q cr (cs_rewards st) with
      | None => (Err 220, cnt)
      | Some 0 => (Ok (upd_ptrs (upd_rewards st (filter (fun kv => negb (fst kv =? cr)) (cs_rewards st)))
                                (filter (fun kv => negb (snd kv =? cr)) (cs_ptrs st))), (dep, refund + 1, pools))
      | Some _ => (Err 222, cnt)
      end
  | CDeleg cr pool =>
      if negb (mem_pool pool (cs_pools st)) then (Err 224, cnt)
      else if has_key cr (cs_rewards st) then (Ok st, cnt) else (Err 220, cnt)
  | CPoolReg op cost =>
      let known := mem_pool op (cs_pools st) in
      let cnt' := if known then cnt else (dep, refund, pools + 1) in
      if cost <? p_min_pool_cost (e_pp e) then (Err 225, cnt')
      else if known then (Ok st, cnt') else (Ok (upd_pools st (op :: cs_pools st)), cnt')
  | CPoolRet pool repoch =>
      if negb (mem_pool pool (cs_pools st)) then (Err 224, cnt)
      else let cepoch := to_epoch slot in
           if (cepoch <? repoch) && (repoch <=? sat_add64 cepoch (p_maximum_epoch (e_pp e))) then (Ok st, cnt) else (Err 224, cnt)
  | CGenDeleg gkh dkh vrf =>
      let cod := map snd (filter (fun kv => negb (fst kv =? gkh)) (cs_gen st)) in
      let fod := map snd (filter (fun kv => negb (snd (fst kv) =? gkh)) (cs_fut_gen st)) in
      if existsb (fun v => fst v =? dkh) cod || existsb (fun v => fst v =? dkh) fod
         || existsb (fun v => snd v =? vrf) cod || existsb (fun v => snd v =? vrf) fod then (Err 226, cnt)
      else if negb (has_key gkh (cs_gen st)) then (Err 228, cnt)
      else let k := (sat_add64 slot STAB_WIN, gkh) in
           (Ok (upd_fut_gen st (filter (fun kv => negb ((fst (fst kv) =? fst k) && (snd (fst kv) =? gkh))) (cs_fut_gen st) ++ [(k, (dkh, vrf))])), cnt)
  | CMir treasury target =>
      (sh_check_mir dev treasury target st slot (e_treasury e) (e_reserves e), cnt)
  end.
(* the loop of check_certificates: `ptr.cert_ix = ix as u32` is assigned AFTER the certificate at
   position ix was checked, so position 0 and position 1 both see certificate index 0 *)
Fixpoint sh_certs_loop (dev : bool) (cs : list cert) (ix cert_ix : Z) (st : cstate) (cnt : Z * Z * Z) (e : env) : outcome unit * (Z * Z * Z) :=
  match cs with
  | [] => (ok, cnt)
  | c :: r =>
      match sh_cert dev c cert_ix st cnt e with
      | (Ok st', cnt') => sh_certs_loop dev r (ix + 1) (as_u32 ix) st' cnt' e
      | (Err x, cnt') => (Err x, cnt')
      | (Panic p, cnt') => (Panic p, cnt')
      end
  end.
Definition sh_certs (dev : bool) (t : tx) (e : env) : outcome unit * (Z * Z * Z) :=
  match t_certs t with
  | Some cs => sh_certs_loop dev cs 0 0 (t_cstate t) (0, 0, 0) e
  | None => (ok, (0, 0, 0))
  end.
Definition sh_counts (dev : bool) (t : tx) (e : env) : Z * Z * Z :=
  match t_counts t with Some c => c | None => snd (sh_certs dev t e) end.

Definition is_multi (v : value) : bool := match v with VMulti _ _ => true | VCoin _ => false end.
(* get_consumed *)
Fixpoint sh_consumed_ins (ins : list inref) (u : utxo) (shelley : bool) (acc : value) : outcome value :=
  match ins with
  | [] => Ok acc
  | i :: r =>
      o <- ok_or (lookup false i u) 201 ;;
      match u_era o with
      | EAlonzoC => if is_multi (u_val o) && shelley then Err 206
                    else a <- add_values acc (u_val o) 209 ;; sh_consumed_ins r u shelley a
      | EByron => a <- add_values acc (VCoin (coin_of (u_val o))) 209 ;; sh_consumed_ins r u shelley a
      | _ => Err 201
      end
  end.
Definition sh_get_consumed (dev : bool) (t : tx) (u : utxo) (pp : params) (cnt : Z * Z * Z) : outcome value :=
  let '(c_dep, c_refund, c_pool) := cnt in
  r <- sh_consumed_ins (t_inputs t) u (t_era t =? 1) (VMulti 0 []) ;;
  k <- ok_or (cmul64 (p_key_deposit pp) c_refund) 209 ;;
  r2 <- add_values r (VCoin k) 209 ;;
  match t_mint t with Some m => add_minted_value r2 m 209 | None => Ok r2 end.
Fixpoint sh_produced_outs (outs : list tout) (shelley : bool) (acc : value) : outcome value :=
  match outs with
  | [] => Ok acc
  | o :: r => if is_multi (o_val o) && shelley then Err 211
              else a <- add_values acc (o_val o) 209 ;; sh_produced_outs r shelley a
  end.
Definition sh_get_produced (dev : bool) (t : tx) (pp : params) (cnt : Z * Z * Z) : outcome value :=
  let '(c_dep, c_refund, c_pool) := cnt in
  r <- sh_produced_outs (t_outputs t) (t_era t =? 1) (VMulti 0 []) ;;
  r2 <- add_values r (VCoin (t_fee t)) 209 ;;
  d <- ok_or (match cmul64 (p_pool_deposit pp) c_pool, cmul64 (p_key_deposit pp) c_dep with
             | Some a, Some b => cadd64 a b
             | _, _ => None end) 209 ;;
  add_values r2 (VCoin d) 209.
Definition sh_check_preservation (dev : bool) (t : tx) (u : utxo) (pp : params) (cnt : Z * Z * Z) : outcome unit :=
  c <- sh_get_consumed dev t u pp cnt ;;
  p <- sh_get_produced dev t pp cnt ;;
  fail_if (negb (values_equal skip0 c p)) 208.
(* `minfee_b as u64 + minfee_a as u64 * size as u64`: plain u64 operations on u32 operands *)
Definition min_fee_u32 (dev : bool) (pp : params) (size : Z) : outcome Z :=
  m <- mul64 dev (p_minfee_a pp) (as_u32 size) ;; add64 dev (p_minfee_b pp) m.
Definition sh_check_fees (dev : bool) (t : tx) (pp : params) : outcome unit :=
  m <- min_fee_u32 dev pp (t_size t) ;; fail_if (t_fee t <? m) 210.
Definition sh_check_network_id (t : tx) (e : env) : outcome unit :=
  let fix go (l : list tout) : outcome unit :=
    match l with
    | [] => ok
    | o :: r => match o_addr o with
                | AShelley net _ => if negb (net =? e_netid e) then Err 213 else go r
                | _ => Err 212
                end
    end in go (t_outputs t).
Definition check_aux (t : tx) (e : Z) : outcome unit :=
  match t_aux_hash t, t_aux_actual t with
  | Some h, Some a => fail_if (negb (h =? a)) e
  | None, None => ok
  | _, _ => Err e
  end.
(* check_vk_wit: first witness whose key hash matches decides *)
Fixpoint check_vk_wit (h : Z) (ws : list (bool * vkw)) (e_sig e_missing : Z) : outcome (list (bool * vkw)) :=
  match ws with
  | [] => Err e_missing
  | (c, k) :: r =>
      if k_hash k =? h then (if verify k then Ok ((true, k) :: r) else Err e_sig)
      else r' <- check_vk_wit h r e_sig e_missing ;; Ok ((c, k) :: r')
  end.
(* check_remaining_vk_wits: every witness no input needed must verify *)
Fixpoint check_remaining (ws : list (bool * vkw)) (e_sig : Z) : outcome unit :=
  match ws with
  | [] => ok
  | (c, k) :: r => if c then check_remaining r e_sig else if verify k then check_remaining r e_sig else Err e_sig
  end.
Definition pay_of (a : addr) : option pay := match a with AShelley _ p => Some p | _ => None end.
(* shelley_ma::check_native_script_witness: the payload is not reset between scripts *)
Definition sh_native_witness (h : Z) (ns : option (list nsw)) : outcome unit :=
  match ns with
  | Some l => fail_if (negb (existsb (fun n => n_cumhash n =? h) l)) 216
  | None => Err 216
  end.
Fixpoint sh_wit_inputs (ins : list inref) (u : utxo) (ws : list (bool * vkw)) (ns : option (list nsw)) : outcome (list (bool * vkw)) :=
  match ins with
  | [] => Ok ws
  | i :: r =>
      o <- ok_or (lookup false i u) 201 ;;
      match u_era o with
      | EAlonzoC =>
          p <- ok_or (pay_of (u_addr o)) 212 ;;
          match p with
          | PKey h => ws' <- check_vk_wit h ws 217 215 ;; sh_wit_inputs r u ws' ns
          | PScript h => sh_native_witness h ns ;;; sh_wit_inputs r u ws ns
          end
      | _ => sh_wit_inputs r u ws ns
      end
  end.
Definition opt_list {A} (o : option (list A)) : list A := match o with Some l => l | None => [] end.
Definition sh_check_witnesses (t : tx) (u : utxo) : outcome unit :=
  ws0 <- ok_or (w_vkeys t) 215 ;;
  ws <- sh_wit_inputs (t_inputs t) u (map (fun k => (false, k)) ws0) (w_native t) ;;
  fail_if (negb (forallb n_eval (opt_list (w_native t)))) 231 ;;;
  check_remaining ws 217.
Definition sh_check_minting (t : tx) : outcome unit :=
  match t_mint t with
  | Some m => fail_if (negb (forallb (fun pa => existsb (fun n => n_hash n =? fst pa) (opt_list (w_native t))) m)) 218
  | None => ok
  end.
Definition sh_check_min_lovelace_era (t : tx) (pp : params) : outcome unit :=
  if is_nil (t_outputs t) then ok else
  if (1 <=? t_era t) && (t_era t <=? 3) then sh_check_min_lovelace t pp else Err 206.
Definition shelley_checks (dev : bool) (t : tx) (u : utxo) (e : env) : list (outcome unit) :=
  let pp := e_pp e in
  [ sh_check_ins_not_empty t; sh_check_ins_in_utxos t u; sh_check_ttl t e; sh_check_tx_size t pp;
    sh_check_min_lovelace_era t pp; fst (sh_certs dev t e); sh_check_preservation dev t u pp (sh_counts dev t e); sh_check_fees dev t pp;
    sh_check_network_id t e; check_aux t 214; sh_check_witnesses t u; sh_check_minting t ].
