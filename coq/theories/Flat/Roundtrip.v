(* C01: every value, and every sequence of values, written by one Encoder at
   whatever bit offset the previous values left, is read back by the same
   sequence of Decoder calls; after the final filler the buffer is consumed. *)
From PV Require Import Lib.Base Flat.Model Flat.Encoder Flat.Bits Flat.DecSafe Flat.DecTotal
  Flat.EncProofs Flat.DecProofs Flat.DecProofs2 Flat.DecProofs3.
Open Scope Z_scope.

(* Round trip of one value from an arbitrary encoder state [s] (any offset):
   the encoder appends some bits [tail]; any decoder positioned at the same bit
   offset in front of [tail] returns the value and ends right after [tail]. *)
Definition val_rt (v : val) : Prop :=
  forall s, einv s -> exists s' tail,
    enc_val v s = Ok s' /\ ebits s' = ebits s ++ tail /\ einv s' /\
    dstep (e_used s) (run_op (kind_of v)) (dval_of v) tail.

Lemma dstep_map {A B} u (m : M A) (f : A -> B) a bits :
  dstep u m a bits -> dstep u (x <- m ;; ret (f x)) (f a) bits.
Proof.
  intros H st post Hs Hu Hr. destruct (H st post Hs Hu Hr) as (st' & E & R).
  exists st'. unfold bind. rewrite E. exact (conj eq_refl R).
Qed.

Lemma ebits_length s : einv s -> Z.of_nat (length (ebits s)) = 8 * Z.of_nat (length (e_buf s)) + e_used s.
Proof.
  intros (Hu & _). unfold ebits. rewrite app_length, bytes_bits_length, firstn_length, byte_bits_length. lia.
Qed.

(* encoder and decoder stay at the same offset inside the byte *)
Lemma used_sync s s' st st' (tail : list bool) :
  einv s -> einv s' -> ebits s' = ebits s ++ tail -> dinv st -> dinv st' ->
  d_off st' = d_off st + Z.of_nat (length tail) -> d_used st = e_used s -> d_used st' = e_used s'.
Proof.
  intros Hs Hs' Hb Hd Hd' Ho Hu.
  pose proof (ebits_length s Hs) as L1. pose proof (ebits_length s' Hs') as L2.
  rewrite Hb, app_length in L2. destruct Hs as (A1 & _). destruct Hs' as (A2 & _).
  destruct Hd as (_ & B1 & _). destruct Hd' as (_ & B2 & _). unfold d_off in Ho. lia.
Qed.

Lemma estep_val_rt v bits :
  (forall s, einv s -> estep (enc_val v) bits s) ->
  (forall u, 0 <= u < 8 -> dstep u (run_op (kind_of v)) (dval_of v) bits) -> val_rt v.
Proof.
  intros He Hd s Hs. destruct (He s Hs) as (s' & E & B & I). exists s', bits.
  repeat split; auto; try apply I. apply Hd. apply Hs.
Qed.

(* ---- lists (decode_list_with / encode_list_with) ---- *)
Section ListRT.
  Variable e : op.
  Let go := fix go (l : list val) (s : enc) : outcome enc :=
       match l with
       | [] => enc_zero s
       | x :: r => s1 <-- enc_one s ;; s2 <-- enc_val x s1 ;; go r s2
       end.

  Lemma list_rt : forall l, (forall x, In x l -> kind_of x = e /\ val_rt x) ->
    forall s, einv s -> exists s' tail,
      go l s = Ok s' /\ ebits s' = ebits s ++ tail /\ einv s' /\
      forall fuel acc st post, dinv st -> d_used st = e_used s -> rem st < Z.of_nat fuel ->
        drest st = tail ++ post ->
        exists st', list_loop (run_op e) fuel acc st = (Ok (acc ++ map dval_of l), st') /\ dinv st' /\
                    d_buf st' = d_buf st /\ drest st' = post /\ d_off st' = d_off st + Z.of_nat (length tail).
  Proof.
    induction l as [|x r IH]; intros Hall s Hs.
    - destruct (enc_bool_ok false s Hs) as (s' & E & B & I). exists s', [false]. cbn [go]. repeat split; auto; try apply I.
      intros fuel acc st post Hd Hu Hf Hr.
      destruct fuel as [|fuel]. { pose proof (drest_length st Hd) as HL. rewrite Hr in HL. cbn in HL. rewrite rem_off in Hf. lia. }
      destruct (dec_bit_ok (d_used st) false st post Hd eq_refl Hr) as (st' & E' & R).
      exists st'. cbn [list_loop]. unfold bind. rewrite E'. unfold ret. cbn [map]. rewrite app_nil_r. exact (conj eq_refl R).
    - destruct (Hall x (or_introl eq_refl)) as (Hk & Hx).
      destruct (enc_bool_ok true s Hs) as (s1 & E1 & B1 & I1).
      destruct (Hx s1 I1) as (s2 & tx & E2 & B2 & I2 & D2).
      destruct (IH (fun y Hy => Hall y (or_intror Hy)) s2 I2) as (s3 & tr & E3 & B3 & I3 & D3).
      exists s3, ([true] ++ tx ++ tr). cbn [go]. unfold enc_bool in E1. unfold obind. rewrite E1, E2. split; [exact E3|].
      split; [rewrite B3, B2, B1, <- !app_assoc; reflexivity|]. split; [exact I3|].
      intros fuel acc st post Hd Hu Hf Hr.
      destruct fuel as [|fuel]. { pose proof (drest_length st Hd) as HL. rewrite Hr in HL. cbn in HL. rewrite rem_off in Hf. lia. }
      rewrite <- !app_assoc in Hr.
      destruct (dec_bit_ok (d_used st) true st _ Hd eq_refl Hr) as (st1 & F1 & Hd1 & Hb1 & Hr1 & Ho1).
      assert (Hu1 : d_used st1 = e_used s1) by (eapply (used_sync s s1 st st1 [true]); eauto).
      rewrite Hk in D2.
      destruct (D2 st1 _ Hd1 Hu1 Hr1) as (st2 & F2 & Hd2 & Hb2 & Hr2 & Ho2).
      assert (Hu2 : d_used st2 = e_used s2) by (eapply (used_sync s1 s2 st1 st2 tx); eauto).
      destruct (D3 fuel (acc ++ [dval_of x]) st2 post Hd2 Hu2) as (st3 & F3 & Hd3 & Hb3 & Hr3 & Ho3); auto.
      { rewrite rem_off in *. unfold d_len in *. rewrite Hb2, Hb1. cbn [length] in Ho1. lia. }
      exists st3. cbn [list_loop]. unfold bind. rewrite F1, F2, F3. cbn [map]. rewrite <- app_assoc. cbn [app].
      split5; auto; try congruence.
      rewrite Ho3, Ho2, Ho1. cbn [length app]. rewrite ?app_length. cbn [length]. lia.
  Qed.
End ListRT.

(* ---- string(): chars behind one-bits, closed by a zero bit ---- *)
Lemma string_rt : forall cs, Forall (fun c => scalar_value c = true) cs ->
  forall s, einv s -> exists s' tail,
    enc_string cs s = Ok s' /\ ebits s' = ebits s ++ tail /\ einv s' /\
    forall fuel acc st post, dinv st -> rem st < Z.of_nat fuel -> drest st = tail ++ post ->
      exists st', string_loop fuel acc st = (Ok (acc ++ cs), st') /\ dinv st' /\
                  d_buf st' = d_buf st /\ drest st' = post /\ d_off st' = d_off st + Z.of_nat (length tail).
Proof.
  induction cs as [|c r IH]; intros Hall s Hs.
  - destruct (enc_bool_ok false s Hs) as (s' & E & B & I). exists s', [false]. cbn [enc_string]. repeat split; auto; try apply I.
    intros fuel acc st post Hd Hf Hr.
    destruct fuel as [|fuel]. { pose proof (drest_length st Hd) as HL. rewrite Hr in HL. cbn in HL. rewrite rem_off in Hf. lia. }
    destruct (dec_bit_ok (d_used st) false st post Hd eq_refl Hr) as (st' & E' & R).
    exists st'. cbn [string_loop]. unfold bind. rewrite E'. unfold ret. rewrite app_nil_r. exact (conj eq_refl R).
  - inversion Hall as [|? ? Hc Hr']; subst.
    destruct (enc_bool_ok true s Hs) as (s1 & E1 & B1 & I1).
    assert (Hc64 : 0 <= c < 2 ^ 64).
    { pose proof (scalar_range c Hc). assert (2 ^ 21 <= 2 ^ 64) by (apply Z.pow_le_mono_r; lia). lia. }
    destruct (enc_word_ok c s1 Hc64 I1) as (s2 & E2 & B2 & I2).
    destruct (IH Hr' s2 I2) as (s3 & tr & E3 & B3 & I3 & D3).
    exists s3, ([true] ++ bytes_bits (word_bytes c) ++ tr). cbn [enc_string]. unfold enc_bool in E1. unfold enc_char, obind. rewrite E1, E2.
    split; [exact E3|]. split; [rewrite B3, B2, B1, <- !app_assoc; reflexivity|]. split; [exact I3|].
    intros fuel acc st post Hd Hf Hr.
    destruct fuel as [|fuel]. { pose proof (drest_length st Hd) as HL. rewrite Hr in HL. cbn in HL. rewrite rem_off in Hf. lia. }
    rewrite <- !app_assoc in Hr.
    destruct (dec_bit_ok (d_used st) true st _ Hd eq_refl Hr) as (st1 & F1 & Hd1 & Hb1 & Hr1 & Ho1).
    destruct (dec_char_ok (d_used st1) c Hc st1 _ Hd1 eq_refl Hr1) as (st2 & F2 & Hd2 & Hb2 & Hr2 & Ho2).
    destruct (D3 fuel (acc ++ [c]) st2 post Hd2) as (st3 & F3 & Hd3 & Hb3 & Hr3 & Ho3); auto.
    { rewrite rem_off in *. unfold d_len in *. rewrite Hb2, Hb1. cbn [length] in Ho1. lia. }
    exists st3. cbn [string_loop]. unfold bind. rewrite F1, F2, F3. rewrite <- app_assoc. cbn [app].
    split5; auto; try congruence.
    rewrite Ho3, Ho2, Ho1. cbn [length app]. rewrite ?app_length. cbn [length]. lia.
Qed.

(* ---- every well-formed value ---- *)
Fixpoint val_size (v : val) : nat :=
  match v with
  | VList _ l => S ((fix sum (l : list val) : nat := match l with [] => 0%nat | x :: r => (val_size x + sum r)%nat end) l)
  | _ => 1%nat
  end.

Lemma val_size_in e x l : In x l -> (val_size x < val_size (VList e l))%nat.
Proof.
  cbn [val_size]. induction l as [|y r IH]; intros Hin; [destruct Hin|].
  destruct Hin as [<-|Hin]; [lia|]. specialize (IH Hin). lia.
Qed.

Lemma wf_list e l : wf_val (VList e l) -> forall x, In x l -> kind_of x = e /\ wf_val x.
Proof.
  cbn [wf_val]. induction l as [|y r IH]; intros H x Hin; [destruct Hin|].
  destruct Hin as [<-|Hin]; [tauto | apply IH; tauto].
Qed.

Lemma val_rt_all : forall n v, (val_size v < n)%nat -> wf_val v -> val_rt v.
Proof.
  induction n as [|n IHn]; intros v Hn Hwf; [lia|].
  destruct v as [b|x|w|i|c|l|l|cs|nb vb|e l]; cbn [wf_val] in Hwf.
  - apply (estep_val_rt _ [b]); [intros; apply enc_bool_ok; auto | intros u Hu; cbn [kind_of run_op dval_of]; apply (dstep_map u _ DBool), dec_bit_ok].
  - apply (estep_val_rt _ (byte_bits x)); [intros; apply enc_u8_ok; auto | intros u Hu; cbn [kind_of run_op dval_of]; apply (dstep_map u _ DU8), dec_u8_ok; auto].
  - apply (estep_val_rt _ (bytes_bits (word_bytes w))); [intros; apply enc_word_ok; auto | intros u Hu; cbn [kind_of run_op dval_of]; apply (dstep_map u _ DWord), dec_word_ok; auto].
  - destruct (unzigzag_zigzag i Hwf) as (Hz & _).
    apply (estep_val_rt _ (bytes_bits (word_bytes (zigzag i)))); [intros; apply enc_word_ok; auto | intros u Hu; cbn [kind_of run_op dval_of]; apply (dstep_map u _ DInt), dec_integer_ok; auto].
  - assert (Hc64 : 0 <= c < 2 ^ 64).
    { pose proof (scalar_range c Hwf). assert (2 ^ 21 <= 2 ^ 64) by (apply Z.pow_le_mono_r; lia). lia. }
    apply (estep_val_rt _ (bytes_bits (word_bytes c))); [intros; apply enc_word_ok; auto | intros u Hu; cbn [kind_of run_op dval_of]; apply (dstep_map u _ DChar), dec_char_ok; auto].
  - intros s Hs. destruct (enc_bytes_ok l s Hwf Hs) as (s' & E & B & I). exists s', (filler_bits (e_used s) ++ bytes_bits (blocks l)).
    repeat split; auto; try apply I. cbn [kind_of run_op dval_of]. apply (dstep_map _ _ DBytes), dec_bytes_ok; auto. apply Hs.
  - destruct Hwf as (Hw & Hv). intros s Hs. destruct (enc_bytes_ok l s Hw Hs) as (s' & E & B & I).
    exists s', (filler_bits (e_used s) ++ bytes_bits (blocks l)).
    repeat split; auto; try apply I. cbn [kind_of run_op dval_of]. apply (dstep_map _ _ DUtf8), dec_utf8_ok; auto. apply Hs.
  - intros s Hs. destruct (string_rt cs Hwf s Hs) as (s' & tail & E & B & I & D). exists s', tail.
    repeat split; auto; try apply I.
    intros st post Hd Hu Hr. cbn [kind_of run_op dval_of].
    destruct (D (dec_fuel st) [] st post Hd (fuel_ok' st Hd) Hr) as (st' & F & R).
    exists st'. unfold bind, dec_string, bind, get. rewrite F. exact (conj eq_refl R).
  - destruct Hwf as (Hnb & Hvb).
    apply (estep_val_rt _ (low_bits nb vb)); [intros; apply enc_bits_ok; auto | intros u Hu; cbn [kind_of run_op dval_of]; apply (dstep_map u _ DBits), dec_bits8_ok; auto].
  - intros s Hs.
    destruct (list_rt e l) with (s := s) as (s' & tail & E & B & I & D); auto.
    { intros x Hx. destruct (wf_list e l Hwf x Hx) as (Hk & Hw). split; [exact Hk|].
      apply IHn; [|exact Hw]. pose proof (val_size_in e x l Hx). lia. }
    exists s', tail. repeat split; auto; try apply I.
    intros st post Hd Hu Hr. cbn [kind_of run_op dval_of].
    destruct (D (dec_fuel st) [] st post Hd Hu (fuel_ok' st Hd) Hr) as (st' & F & R).
    exists st'. unfold bind, get. rewrite F. exact (conj eq_refl R).
Qed.

Lemma val_rt_wf v : wf_val v -> val_rt v.
Proof. apply (val_rt_all (S (val_size v))). lia. Qed.

(* ---- sequences ---- *)
Lemma seq_rt : forall vs, Forall wf_val vs -> forall s, einv s -> exists s' tail,
  enc_vals vs s = Ok s' /\ ebits s' = ebits s ++ tail /\ einv s' /\
  forall st post, dinv st -> d_used st = e_used s -> drest st = tail ++ post ->
    exists st', run_script (map kind_of vs) st = (map (fun v => Ok (dval_of v)) vs, st') /\ dinv st' /\
                d_buf st' = d_buf st /\ drest st' = post /\ d_off st' = d_off st + Z.of_nat (length tail).
Proof.
  induction 1 as [|v vs Hv Hvs IH]; intros s Hs.
  - exists s, []. cbn [enc_vals]. rewrite app_nil_r. repeat split; auto; try apply Hs.
    intros st post Hd Hu Hr. exists st. cbn [map run_script length]. split5; auto. lia.
  - destruct (val_rt_wf v Hv s Hs) as (s1 & t1 & E1 & B1 & I1 & D1).
    destruct (IH s1 I1) as (s2 & t2 & E2 & B2 & I2 & D2).
    exists s2, (t1 ++ t2). cbn [enc_vals]. unfold obind. rewrite E1. split; [exact E2|].
    split; [rewrite B2, B1, <- app_assoc; reflexivity|]. split; [exact I2|].
    intros st post Hd Hu Hr. rewrite <- app_assoc in Hr.
    destruct (D1 st _ Hd Hu Hr) as (st1 & F1 & Hd1 & Hb1 & Hr1 & Ho1).
    assert (Hu1 : d_used st1 = e_used s1) by (eapply (used_sync s s1 st st1 t1); eauto).
    destruct (D2 st1 post Hd1 Hu1 Hr1) as (st2 & F2 & Hd2 & Hb2 & Hr2 & Ho2).
    exists st2. cbn [map run_script]. rewrite F1, F2. split5; auto; try congruence.
    rewrite Ho2, Ho1, app_length. lia.
Qed.

Lemma run_script_app a : forall b st xs st1,
  run_script a st = (map (fun x => Ok x) xs, st1) ->
  run_script (a ++ b) st = (map (fun x => Ok x) xs ++ fst (run_script b st1), snd (run_script b st1)).
Proof.
  induction a as [|o a IH]; intros b st xs st1 H.
  - cbn [run_script] in H. inversion H. destruct xs; [|discriminate]. cbn [app map]. destruct (run_script b st1); reflexivity.
  - cbn [app run_script] in *. destruct (run_op o st) as [[x|e|p] s'] eqn:E.
    + destruct (run_script a s') as [rs s''] eqn:E2. inversion H; subst.
      destruct xs as [|x0 xs]; [discriminate|]. cbn [map] in *. inversion H1; subst.
      rewrite (IH b s' xs st1 E2). reflexivity.
    + destruct (run_script a s') as [rs s''] eqn:E2. inversion H; subst. destruct xs; discriminate.
    + inversion H. destruct xs as [|x0 xs]; discriminate.
Qed.

Theorem flat_roundtrip_proof : forall vs, Forall wf_val vs ->
  exists buf, encode_seq vs = Ok buf /\ bytes_wf buf /\
    (Z.of_nat (length buf) < 2 ^ 60 ->
     run_script (map kind_of vs ++ [OFiller]) (mk_dec buf)
     = (map (fun v => Ok (dval_of v)) vs ++ [Ok DUnit], mkDec buf (Z.of_nat (length buf)) 0)).
Proof.
  intros vs Hvs.
  assert (Hi0 : einv enc_init) by (unfold einv, enc_init; cbn; repeat split; try lia; constructor).
  destruct (seq_rt vs Hvs enc_init Hi0) as (s1 & tail & E1 & B1 & I1 & D1).
  destruct (enc_filler_ok s1 I1) as (s2 & E2 & B2 & I2 & U2 & C2).
  exists (e_buf s2). unfold encode_seq, obind. rewrite E1, E2. split; [reflexivity|].
  split; [apply I2|]. intros Hlen.
  assert (Hd0 : dinv (mk_dec (e_buf s2))) by (apply dinv_mk_dec; [apply I2 | exact Hlen]).
  assert (Hbits : bytes_bits (e_buf s2) = tail ++ filler_bits (e_used s1) ++ []).
  { assert (H2 : ebits s2 = bytes_bits (e_buf s2)) by (unfold ebits; rewrite U2; cbn [Z.to_nat firstn]; apply app_nil_r).
    assert (H0 : ebits enc_init = []) by reflexivity.
    rewrite <- H2, B2, B1, H0, app_nil_r. reflexivity. }
  destruct (D1 (mk_dec (e_buf s2)) (filler_bits (e_used s1) ++ []) Hd0 eq_refl) as (st1 & F1 & Hd1 & Hb1 & Hr1 & Ho1).
  { unfold drest, d_off, mk_dec. cbn [d_buf d_pos d_used Z.to_nat skipn]. exact Hbits. }
  assert (Hu1 : d_used st1 = e_used s1).
  { eapply (used_sync enc_init s1 (mk_dec (e_buf s2)) st1 tail); eauto. }
  assert (Hus : 0 <= e_used s1 < 8) by apply I1.
  destruct (dec_filler_ok (e_used s1) Hus st1 [] Hd1 Hu1 Hr1) as (st2 & F2 & Hd2 & Hb2 & Hr2 & Ho2).
  assert (Hmm : map (fun v => Ok (dval_of v)) vs = map (fun x => Ok x) (map dval_of vs)) by (rewrite map_map; reflexivity).
  rewrite Hmm in F1. rewrite (run_script_app _ [OFiller] _ (map dval_of vs) st1 F1), <- Hmm.
  cbn [run_script run_op]. unfold bind. rewrite F2. unfold ret. cbn [fst snd].
  f_equal.
  pose proof (drest_length st2 Hd2) as HL. rewrite Hr2 in HL. cbn [length] in HL.
  pose proof Hd2 as (Hp & Hu & He & _). unfold d_off, d_len in *.
  assert (Hbuf : d_buf st2 = e_buf s2) by (rewrite Hb2, Hb1; reflexivity).
  rewrite Hbuf in *. destruct st2 as [b p u]. cbn [d_buf d_pos d_used] in *. subst b.
  assert (p = Z.of_nat (length (e_buf s2))) by lia. assert (u = 0) by lia. subst. reflexivity.
Qed.
