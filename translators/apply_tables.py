#!/usr/bin/env python3
"""C24 translator: pallas-network2/src/protocol/*.rs `State::apply`  ->  Generated/ApplyTables.v

For every protocol module that defines `pub fn apply(&self, msg: &Message..) -> Result<Self, Error>`
the nested `match self { .. => match msg { .. } }` is parsed and evaluated, with
first-match semantics, on every (state class x message class) cell:

   state class   = a variant of `enum State`
   message class = a variant of `enum Message`; a variant whose first field is `bool`
                   (or an alias of it, e.g. `Blocking`) is split in `V(true)` / `V(false)`
   cell value    = GOk "<next state class>"  |  GErr "<Error variant>"

Accepted grammar (anything else -> exit 1 with a message; never guesses):
   outer arm :  (State|Self)::X [ (..) ]   =>  match msg { inner* }  |  Err(Error::K)
   inner arm :  Message::V [ (args) | { fields } ]  ( '|' more )*  |  _      (no guards)
                =>  expr  |  { expr }
   expr      :  Ok( (State|Self)::X [..] )  |  Ok( T::Y[(..)].into() ) with `impl From<T..> for State..`
                whose body is `State::X(arg)`  |  Err(Error::K)
   args      :  identifiers, `_`, `..`, `true`, `false`, `*x`, `ref x`
The initial class comes from `#[default]` or `impl Default for State`.

usage: apply_tables.py --repo R --out DIR     (writes DIR/ApplyTables.v only when changed)
"""
import argparse
import os
import re
import sys


class Reject(Exception):
    pass


def strip_comments(src):
    out, i, n = [], 0, len(src)
    while i < n:
        if src.startswith("//", i):
            j = src.find("\n", i)
            i = n if j < 0 else j
        elif src.startswith("/*", i):
            j = src.find("*/", i + 2)
            if j < 0:
                raise Reject("unterminated block comment")
            i = j + 2
        elif src[i] == '"':
            j = i + 1
            while j < n and src[j] != '"':
                j += 2 if src[j] == "\\" else 1
            out.append('""')
            i = j + 1
        else:
            out.append(src[i])
            i += 1
    return "".join(out)


TOK = re.compile(r"\s*(=>|::|->|\.\.|[A-Za-z_][A-Za-z0-9_]*|\d+|#|[{}()\[\]<>,;:&*|.=!'_?-])")


def tokenize(s):
    toks, i = [], 0
    s = s.strip()
    while i < len(s):
        m = TOK.match(s, i)
        if not m:
            raise Reject("cannot tokenise near: %r" % s[i:i + 40])
        toks.append(m.group(1))
        i = m.end()
    return toks


def balanced(src, start, open_c="{", close_c="}"):
    """src[start] == open_c; return index just after the matching close."""
    assert src[start] == open_c, (src[start:start + 20], open_c)
    depth = 0
    for i in range(start, len(src)):
        c = src[i]
        if c == open_c:
            depth += 1
        elif c == close_c:
            depth -= 1
            if depth == 0:
                return i + 1
    raise Reject("unbalanced %s" % open_c)


def split_top(toks, sep=","):
    """split a token list on `sep` at nesting depth 0 (all bracket kinds; `<`/`>` not counted after `=`/`-`)."""
    parts, cur, depth = [], [], 0
    for k, t in enumerate(toks):
        if t in "({[":
            depth += 1
        elif t in ")}]":
            depth -= 1
        elif t == "<":
            depth += 1
        elif t == ">" and depth > 0 and not (k > 0 and toks[k - 1] in ("=", "-")):
            depth -= 1
        if t == sep and depth == 0:
            parts.append(cur)
            cur = []
        else:
            cur.append(t)
    if cur:
        parts.append(cur)
    return parts


def find_enum(src, name):
    m = re.search(r"\bpub\s+enum\s+%s\b" % name, src)
    if not m:
        raise Reject("no `pub enum %s`" % name)
    b = src.find("{", m.end())
    head = src[m.end():b]
    if ";" in head:
        raise Reject("unexpected enum header for %s" % name)
    e = balanced(src, b)
    body = tokenize(src[b + 1:e - 1])
    variants = []
    for part in split_top(body):
        default = False
        # drop attributes  # [ ... ]
        while part and part[0] == "#":
            if part[1] != "[":
                raise Reject("attribute syntax in enum %s" % name)
            d, j = 0, 1
            while True:
                if part[j] == "[":
                    d += 1
                elif part[j] == "]":
                    d -= 1
                    if d == 0:
                        break
                j += 1
            if part[2:j] == ["default"]:
                default = True
            part = part[j + 1:]
        if not part:
            continue
        vname = part[0]
        if not re.match(r"^[A-Z]\w*$", vname):
            raise Reject("enum %s: unexpected variant %r" % (name, part[:4]))
        fields = []
        if len(part) > 1:
            if part[1] == "(" and part[-1] == ")":
                fields = [" ".join(f) for f in split_top(part[2:-1])]
            elif part[1] == "{" and part[-1] == "}":
                for f in split_top(part[2:-1]):
                    while f and f[0] == "#":
                        raise Reject("attribute on struct-variant field of %s::%s" % (name, vname))
                    if "pub" in f[:1]:
                        f = f[1:]
                    if len(f) < 3 or f[1] != ":":
                        raise Reject("enum %s::%s: field syntax %r" % (name, vname, f))
                    fields.append(" ".join(f[2:]))
            else:
                raise Reject("enum %s::%s: unexpected shape %r" % (name, vname, part))
        variants.append((vname, fields, default))
    if not variants:
        raise Reject("enum %s has no variants" % name)
    return variants


def bool_aliases(src):
    al = {"bool"}
    for m in re.finditer(r"\bpub\s+type\s+(\w+)\s*=\s*bool\s*;", src):
        al.add(m.group(1))
    return al


def from_impls(src, state_names):
    """`impl<..> From<T<..>> for State<..> { fn from(x: ..) -> Self { State::X(x) } }`  ->  {T: X}"""
    res = {}
    for m in re.finditer(r"\bimpl\s*(<[^{]*?>)?\s*From\s*<\s*(\w+)[^{]*?>\s*for\s+State\b[^{]*\{", src):
        b = m.end() - 1
        e = balanced(src, b)
        body = src[b + 1:e - 1]
        fm = re.search(r"fn\s+from\s*\(\s*(\w+)\s*:[^)]*\)\s*->\s*Self\s*\{", body)
        if not fm:
            raise Reject("From<%s> for State: cannot find fn from" % m.group(2))
        fb = body.find("{", fm.end() - 1)
        fe = balanced(body, fb)
        expr = tokenize(body[fb + 1:fe - 1])
        if len(expr) == 6 and expr[0] in ("State", "Self") and expr[1] == "::" and expr[3] == "(" \
                and expr[4] == fm.group(1) and expr[5] == ")" and expr[2] in state_names:
            res[m.group(2)] = expr[2]
        else:
            raise Reject("From<%s> for State: body outside grammar: %s" % (m.group(2), " ".join(expr)))
    return res


def initial_class(src, state_variants):
    names = [v for v, _, _ in state_variants]
    d = [v for v, _, dflt in state_variants if dflt]
    if len(d) == 1:
        return d[0]
    m = re.search(r"\bimpl\s*(<[^{]*?>)?\s*Default\s+for\s+State\b[^{]*\{", src)
    if not m:
        raise Reject("no default for State")
    b = m.end() - 1
    e = balanced(src, b)
    body = src[b + 1:e - 1]
    fm = re.search(r"fn\s+default\s*\(\s*\)\s*->\s*Self\s*\{", body)
    if not fm:
        raise Reject("Default for State: no fn default")
    fb = fm.end() - 1
    fe = balanced(body, fb)
    expr = tokenize(body[fb + 1:fe - 1])
    if len(expr) >= 3 and expr[0] in ("State", "Self") and expr[1] == "::" and expr[2] in names:
        return expr[2]
    raise Reject("Default for State: body outside grammar: %s" % " ".join(expr))


class P:
    """recursive-descent parser over the token list of the apply body"""

    def __init__(self, toks, states, msgs, msg_fields, froms, boolty, where):
        self.t, self.i = toks, 0
        self.states, self.msgs, self.msg_fields = states, msgs, msg_fields
        self.froms, self.boolty, self.where = froms, boolty, where

    def fail(self, what):
        ctx = " ".join(self.t[max(0, self.i - 6):self.i + 10])
        raise Reject("%s: %s   (near: … %s …)" % (self.where, what, ctx))

    def peek(self, k=0):
        return self.t[self.i + k] if self.i + k < len(self.t) else None

    def eat(self, tok):
        if self.peek() != tok:
            self.fail("expected `%s`, found `%s`" % (tok, self.peek()))
        self.i += 1

    def group(self):
        """current token opens a bracket; return the inner tokens and skip past the close."""
        o = self.peek()
        c = {"(": ")", "{": "}", "[": "]"}[o]
        d, j = 0, self.i
        while j < len(self.t):
            if self.t[j] == o:
                d += 1
            elif self.t[j] == c:
                d -= 1
                if d == 0:
                    inner = self.t[self.i + 1:j]
                    self.i = j + 1
                    return inner
            j += 1
        self.fail("unbalanced `%s`" % o)

    # ---- outer
    def apply_body(self):
        self.eat("match")
        self.eat("self")
        if self.peek() != "{":
            self.fail("expected `match self {`")
        inner = self.group()
        if self.peek() is not None:
            self.fail("statements after `match self { .. }`")
        sub = P(inner, self.states, self.msgs, self.msg_fields, self.froms, self.boolty, self.where)
        return sub.outer_arms()

    def outer_arms(self):
        arms = []
        while self.peek() is not None:
            pats = [self.state_pat()]
            while self.peek() == "|":
                self.eat("|")
                pats.append(self.state_pat())
            if self.peek() == "if":
                self.fail("match guard on a state arm")
            self.eat("=>")
            if self.peek() == "match":
                self.eat("match")
                self.eat("msg")
                if self.peek() != "{":
                    self.fail("expected `match msg {`")
                inner = self.group()
                sub = P(inner, self.states, self.msgs, self.msg_fields, self.froms, self.boolty, self.where)
                body = ("match", sub.inner_arms())
            elif self.peek() == "{":
                inner = self.group()
                sub = P(inner, self.states, self.msgs, self.msg_fields, self.froms, self.boolty, self.where)
                if sub.peek() == "match":
                    sub.eat("match")
                    sub.eat("msg")
                    inner2 = sub.group()
                    if sub.peek() is not None:
                        sub.fail("statements after `match msg { .. }`")
                    sub2 = P(inner2, self.states, self.msgs, self.msg_fields, self.froms, self.boolty, self.where)
                    body = ("match", sub2.inner_arms())
                else:
                    body = ("const", sub.result_expr(True))
            else:
                body = ("const", self.result_expr(False))
            if self.peek() == ",":
                self.eat(",")
            for p in pats:
                arms.append((p, body))
        return arms

    def state_pat(self):
        if self.peek() == "_":
            self.fail("wildcard state arm is outside the grammar")
        if self.peek() not in ("State", "Self"):
            self.fail("state pattern must start with State:: or Self::")
        self.i += 1
        self.eat("::")
        name = self.peek()
        if name not in self.states:
            self.fail("unknown state variant `%s`" % name)
        self.i += 1
        if self.peek() in ("(", "{"):
            inner = self.group()
            # sub-patterns on the state payload would make the class-level table unsound
            for a in split_top(inner):
                a = [x for x in a if x not in ("ref", "mut")]
                if a in (["_"], [".."]) or (len(a) == 1 and re.match(r"^[a-z_]\w*$", a[0]) and a[0] not in ("true", "false")):
                    continue
                self.fail("state pattern `%s` has a refining sub-pattern `%s`" % (name, " ".join(a)))
        return name

    # ---- inner
    def inner_arms(self):
        arms = []
        while self.peek() is not None:
            pats = [self.msg_pat()]
            while self.peek() == "|":
                self.eat("|")
                pats.append(self.msg_pat())
            if self.peek() == "if":
                self.fail("match guard on a message arm")
            self.eat("=>")
            if self.peek() == "{":
                inner = self.group()
                sub = P(inner, self.states, self.msgs, self.msg_fields, self.froms, self.boolty, self.where)
                res = sub.result_expr(True)
            else:
                res = self.result_expr(False)
            if self.peek() == ",":
                self.eat(",")
            arms.append((pats, res))
        return arms

    def msg_pat(self):
        """returns a predicate description: ('any',) or ('variant', name, first_bool|None)"""
        if self.peek() == "_":
            self.i += 1
            return ("any",)
        if self.peek() != "Message":
            self.fail("message pattern must be `Message::V..` or `_`")
        self.i += 1
        self.eat("::")
        name = self.peek()
        if name not in self.msgs:
            self.fail("unknown message variant `%s`" % name)
        self.i += 1
        first = None
        if self.peek() == "(":
            inner = self.group()
            args = split_top(inner)
            for k, a in enumerate(args):
                a = [x for x in a if x not in ("ref", "mut", "&", "*")]
                if a in (["_"], [".."]):
                    continue
                if len(a) == 1 and a[0] in ("true", "false"):
                    fields = self.msg_fields[name]
                    if k != 0 or not fields or fields[0] not in self.boolty or any(x == [".."] for x in args[:k]):
                        self.fail("literal sub-pattern only supported on a leading bool field (`%s`)" % name)
                    first = (a[0] == "true")
                    continue
                if len(a) == 1 and re.match(r"^[a-z_]\w*$", a[0]):
                    continue
                self.fail("message pattern `%s` has a refining sub-pattern `%s`" % (name, " ".join(a)))
        elif self.peek() == "{":
            inner = self.group()
            for a in split_top(inner):
                if a == [".."] or (len(a) == 1 and re.match(r"^[a-z_]\w*$", a[0])):
                    continue
                if len(a) == 3 and a[1] == ":" and re.match(r"^[a-z_]\w*$", a[2]) and a[2] not in ("true", "false"):
                    continue
                self.fail("message pattern `%s` has a refining field pattern `%s`" % (name, " ".join(a)))
        return ("variant", name, first)

    def result_expr(self, whole):
        """Ok(<state expr>) | Err(Error::K); `whole`: must consume all tokens (optionally a trailing , or ;-less)."""
        head = self.peek()
        if head == "Ok":
            self.i += 1
            if self.peek() != "(":
                self.fail("expected `Ok(`")
            inner = self.group()
            res = ("ok", self.state_expr(inner))
        elif head == "Err":
            self.i += 1
            if self.peek() != "(":
                self.fail("expected `Err(`")
            inner = self.group()
            if len(inner) == 3 and inner[0] == "Error" and inner[1] == "::" and re.match(r"^[A-Z]\w*$", inner[2]):
                res = ("err", inner[2])
            elif len(inner) >= 3 and inner[0] == "Error" and inner[1] == "::" and inner[2] in ("Other", "other"):
                res = ("err", "Other")
            else:
                self.fail("error expression outside grammar: Err(%s)" % " ".join(inner))
        else:
            self.fail("arm body must be `Ok(..)` or `Err(Error::..)`")
        if whole and self.peek() is not None:
            self.fail("extra tokens after the arm's result expression")
        return res

    def state_expr(self, toks):
        if len(toks) >= 3 and toks[0] in ("State", "Self") and toks[1] == "::" and toks[2] in self.states:
            rest = toks[3:]
            if rest and not (rest[0] in ("(", "{") and rest[-1] in (")", "}")):
                self.fail("state expression outside grammar: %s" % " ".join(toks))
            if rest:
                # the payload group must close exactly at the end
                d = 0
                for k, x in enumerate(rest):
                    if x in "({[":
                        d += 1
                    elif x in ")}]":
                        d -= 1
                        if d == 0 and k != len(rest) - 1:
                            self.fail("state expression outside grammar: %s" % " ".join(toks))
            return toks[2]
        # T::Y(..).into()
        if len(toks) >= 7 and toks[1] == "::" and toks[0] in self.froms and toks[-4:] == [".", "into", "(", ")"]:
            mid = toks[3:-4]
            if mid and not (mid[0] == "(" and mid[-1] == ")"):
                self.fail("conversion expression outside grammar: %s" % " ".join(toks))
            return self.froms[toks[0]]
        self.fail("next-state expression outside grammar: %s" % " ".join(toks))


def translate_module(name, path, repo):
    raw = open(path).read()
    # cut the unit-test module: its code is not part of the model
    src = strip_comments(raw)
    cut = re.search(r"#\s*\[\s*cfg\s*\(\s*test\s*\)\s*\]\s*mod\s+\w+\s*\{", src)
    if cut:
        src = src[:cut.start()]
    where = os.path.relpath(path)
    sv = find_enum(src, "State")
    mv = find_enum(src, "Message")
    states = [v for v, _, _ in sv]
    msgs = [v for v, _, _ in mv]
    msg_fields = {v: f for v, f, _ in mv}
    boolty = bool_aliases(src)
    froms = from_impls(src, states)
    init = initial_class(src, sv)
    ms = list(re.finditer(r"\bpub\s+fn\s+apply\s*\(\s*&\s*self\s*,\s*msg\s*:\s*&\s*Message\b[^)]*\)\s*->\s*Result\s*<\s*Self\s*,\s*Error\s*>\s*\{", src))
    if len(ms) != 1:
        raise Reject("%s: expected exactly one `pub fn apply(&self, msg: &Message) -> Result<Self, Error>`, found %d" % (where, len(ms)))
    b = ms[0].end() - 1
    e = balanced(src, b)
    toks = tokenize(src[b + 1:e - 1])
    arms = P(toks, states, msgs, msg_fields, froms, boolty, where + " apply").apply_body()

    # message classes
    classes = []
    for v in msgs:
        f = msg_fields[v]
        if f and f[0] in boolty:
            classes.append((v, True))
            classes.append((v, False))
        else:
            classes.append((v, None))

    def cname(c):
        return c[0] if c[1] is None else "%s(%s)" % (c[0], "true" if c[1] else "false")

    cells = []
    for s in states:
        body = None
        for p, bdy in arms:
            if p == s:
                body = bdy
                break
        if body is None:
            raise Reject("%s: no arm for state %s" % (where, s))
        for c in classes:
            if body[0] == "const":
                res = body[1]
            else:
                res = None
                for pats, r in body[1]:
                    hit = False
                    for pt in pats:
                        if pt[0] == "any":
                            hit = True
                        elif pt[1] == c[0] and (pt[2] is None or pt[2] == c[1]):
                            hit = True
                    if hit:
                        res = r
                        break
                if res is None:
                    raise Reject("%s: state %s has no arm covering message %s" % (where, s, cname(c)))
            cells.append((s, cname(c), res))
    return {"name": name, "states": states, "msgs": [cname(c) for c in classes], "init": init, "cells": cells,
            "path": os.path.relpath(path, repo)}


def coq_str_list(xs):
    return "[" + "; ".join('"%s"' % x for x in xs) + "]"


def render(tables):
    o = []
    o.append("(* GENERATED by translators/apply_tables.py from pallas-network2/src/protocol — do not edit. *)")
    o.append("(* One table per `State::apply`: (state class, message class) -> GOk next-class | GErr error-variant. *)")
    o.append("From Coq Require Import String List.")
    o.append("Import ListNotations.")
    o.append("Open Scope string_scope.")
    o.append("")
    o.append("Inductive gen_result := GOk (next : string) | GErr (kind : string).")
    o.append("Record gen_table := {")
    o.append("  gt_proto : string; gt_init : string;")
    o.append("  gt_states : list string; gt_msgs : list string;")
    o.append("  gt_cells : list (string * string * gen_result) }.")
    o.append("")
    for t in tables:
        o.append("(* %s *)" % t["path"])
        o.append("Definition %s_table : gen_table := {|" % t["name"])
        o.append('  gt_proto := "%s"; gt_init := "%s";' % (t["name"], t["init"]))
        o.append("  gt_states := %s;" % coq_str_list(t["states"]))
        o.append("  gt_msgs := %s;" % coq_str_list(t["msgs"]))
        o.append("  gt_cells := [")
        rows = []
        for s, m, r in t["cells"]:
            rv = 'GOk "%s"' % r[1] if r[0] == "ok" else 'GErr "%s"' % r[1]
            rows.append('    ("%s", "%s", %s)' % (s, m, rv))
        o.append(";\n".join(rows))
        o.append("  ] |}.")
        o.append("")
    o.append("Definition apply_tables : list gen_table :=")
    o.append("  [" + "; ".join("%s_table" % t["name"] for t in tables) + "].")
    return "\n".join(o) + "\n"


def main():
    ap = argparse.ArgumentParser()
    ap.add_argument("--repo", default="/repo")
    ap.add_argument("--out", required=True)
    a = ap.parse_args()
    pdir = os.path.join(a.repo, "pallas-network2", "src", "protocol")
    try:
        if not os.path.isdir(pdir):
            raise Reject("no directory %s" % pdir)
        mods = []
        for f in sorted(os.listdir(pdir)):
            p = os.path.join(pdir, f)
            if f.endswith(".rs") and f != "mod.rs":
                mods.append((f[:-3], p))
            elif os.path.isdir(p) and os.path.exists(os.path.join(p, "mod.rs")):
                mods.append((f, os.path.join(p, "mod.rs")))
        tables = []
        for name, p in mods:
            txt = strip_comments(open(p).read())
            if not re.search(r"\bfn\s+apply\s*\(", txt):
                continue
            tables.append(translate_module(name, p, a.repo))
        if not tables:
            raise Reject("no protocol module with `fn apply` under %s" % pdir)
    except Reject as ex:
        print("apply_tables: source outside the accepted grammar: %s" % ex, file=sys.stderr)
        sys.exit(1)
    text = render(tables)
    os.makedirs(a.out, exist_ok=True)
    outp = os.path.join(a.out, "ApplyTables.v")
    if not os.path.exists(outp) or open(outp).read() != text:
        tmp = outp + ".tmp%d" % os.getpid()
        open(tmp, "w").write(text)
        os.replace(tmp, outp)
    print("apply_tables: %d protocols, %d cells" % (len(tables), sum(len(t["cells"]) for t in tables)))


if __name__ == "__main__":
    main()
