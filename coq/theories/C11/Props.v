(* C11 — property theorems only. Statements are pinned by vp/check.py. *)
Require Import Coq.Strings.String.   (* first: List's names must shadow String's *)
From PV Require Import Lib.Base Crypto.Blake2b Crypto.Sha512 Crypto.Ed25519Spec Crypto.Ed25519Proofs
  C11.Model C11.Proofs.
Open Scope Z_scope.

(* Signatures verify: over ANY group satisfying [group_laws] (an equivalence on
   representatives, a commutative group law, scalar multiplication, a base point
   of order dividing L, an encoding that [dec] inverts) and ANY hash oracle,
   a signature made with secret scalar a >= 0 and any nonce prefix verifies
   under the public key of a. *)
Theorem schnorr_complete :
  forall (G : Type) geq gop gneg gid smul B smulB L enc dec (hashZ : list Z -> Z),
  group_laws G geq gop gneg gid smul B smulB L enc dec ->
  forall a prefix m, 0 <= a ->
  verify_core G gop gneg smul smulB L enc dec hashZ
    (pk_of G smulB enc a) m (sign_core G smulB L enc hashZ a (pk_of G smulB enc a) prefix m) = true.
Proof. intros. now apply schnorr_complete_proof with (geq := geq) (gid := gid) (B := B). Qed.

(* the premises of [schnorr_complete] are satisfiable (Z/13, generator 1) *)
Theorem group_laws_satisfiable :
  group_laws Z toy_eq Z.add Z.opp 0 Z.mul 1 (fun k => k) 13 toy_enc toy_dec.
Proof. exact toy_group_laws. Qed.

(* FULL STATEMENT (not proved: it needs the group laws of edwards25519 for the
   projective formulas of Ed25519Spec.v, which this development does not prove):
     forall sk m, pk_verify (sk_public_key sk) m (sk_sign sk m) = true.
   Proved: the same with the curve's group laws [ed_group_laws] as a premise;
   the concrete functions are exactly the instances of the abstract scheme. *)
Theorem ed25519_sign_verify_partial :
  ed_group_laws -> forall sk m,
  all_zero (sk_public_key sk) = false -> pk_verify (sk_public_key sk) m (sk_sign sk m) = true.
Proof. exact ed25519_sign_verify_proof. Qed.

Theorem ed25519_ext_sign_verify_partial :
  ed_group_laws -> forall esk m, bytes_wf esk ->
  all_zero (esk_public_key esk) = false -> pk_verify (esk_public_key esk) m (esk_sign esk m) = true.
Proof. exact ed25519_ext_sign_verify_proof. Qed.

(* clamping: check_structure tests exactly the three low bits of byte 0 and bits 6, 7 of byte 31 *)
Theorem clamp_check_iff : forall b0 b31, byte b0 -> byte b31 ->
  (check_bits b0 b31 = true <-> (b0 mod 8 = 0 /\ Z.testbit b31 6 = true /\ Z.testbit b31 7 = false)).
Proof. intros b0 b31 H0 H31. exact (proj1 (check_bits_iff b0 b31 H0 H31)). Qed.

(* ... i.e. exactly when clamping the scalar would not change it *)
Theorem clamp_check_fixpoint : forall b0 b31, byte b0 -> byte b31 ->
  (check_bits b0 b31 = true <-> (Z.land b0 248 = b0 /\ Z.lor (Z.land b31 63) 64 = b31)).
Proof. intros b0 b31 H0 H31. exact (proj2 (check_bits_iff b0 b31 H0 H31)). Qed.

Theorem clamped_passes_check : forall b0 b31, byte b0 -> byte b31 ->
  check_bits (Z.land b0 248) (Z.lor (Z.land b31 63) 64) = true.
Proof.
  intros b0 b31 H0 H31. pose proof clamp_bits_sweep as S. rewrite forallb_forall in S.
  specialize (S b0 (zrangeZ_In 0 256 b0 ltac:(unfold byte in H0; lia))). rewrite forallb_forall in S.
  exact (S b31 (zrangeZ_In 0 256 b31 ltac:(unfold byte in H31; lia))).
Qed.

Theorem esk_from_bytes_iff : forall k, esk_from_bytes k = Ok k <-> check_structure k = true.
Proof. intros k. unfold esk_from_bytes, ext_from_bytes. destruct (check_structure k); split; congruence. Qed.

(* the fast field reduction used by the executable model is reduction mod 2^255 - 19 *)
Theorem fred_correct : forall x, 0 <= x < 2 ^ 520 -> fred x = x mod p25519.
Proof. exact fred_spec. Qed.

(* verification = RFC 8032 verification on every public key that RFC 8032 and
   cryptoxide decode alike and that is not all-zero ... *)
Theorem verify_agrees_rfc_on_canonical : forall pk m sig,
  canonical_pk pk -> pk_verify pk m sig = rfc_verify pk m sig.
Proof. exact verify_agrees_on_canonical_proof. Qed.

(* ... and NOT in general (FULL STATEMENT forall pk m sig, pk_verify pk m sig = rfc_verify pk m sig
   is refuted both ways).  (1) a non-canonical encoding (y = p + 1) of the neutral
   element is accepted as a public key, RFC 8032 5.1.3 rejects it: *)
Theorem verify_exact_rfc_refuted_noncanonical_pk :
  exists pk m sig, pk_verify pk m sig = true /\ rfc_verify pk m sig = false.
Proof.
  exists (unhex "eeffffffffffffffffffffffffffffffffffffffffffffffffffffffffffff7f"), [],
         (unhex "01000000000000000000000000000000000000000000000000000000000000000000000000000000000000000000000000000000000000000000000000000000").
  vm_compute. split; reflexivity.
Qed.
(* (2) the all-zero public key (a point of order 4) is rejected outright,
   RFC 8032 accepts this signature under it: *)
Theorem verify_exact_rfc_refuted_zero_pk :
  exists pk m sig, pk_verify pk m sig = false /\ rfc_verify pk m sig = true.
Proof.
  exists (unhex "0000000000000000000000000000000000000000000000000000000000000000"), [4],
         (unhex "01000000000000000000000000000000000000000000000000000000000000000000000000000000000000000000000000000000000000000000000000000000").
  vm_compute. split; reflexivity.
Qed.

(* ---- constants ---- *)
Example curve_constants :
  (d25519 * 121666 + 121665) mod p25519 = 0 /\ (5 * By) mod p25519 = 4 /\
  (By * By - Bx * Bx - 1 - d25519 * (Bx * Bx mod p25519) * (By * By mod p25519)) mod p25519 = 0 /\
  Bx mod 2 = 0 /\ (sqrtm1 * sqrtm1 + 1) mod p25519 = 0 /\
  compress (psmul Lord Bpt) = compress pid /\ compress (psmul_base Lord) = compress pid /\
  compress (psmul_base 123456789123456789) = compress (psmul 123456789123456789 Bpt).
Proof. vm_compute. repeat split; reflexivity. Qed.

(* ---- FIPS 180-4 SHA-512 ---- *)
Example sha512_abc :
  sha512 (str_bytes "abc") =
  unhex "ddaf35a193617abacc417349ae20413112e6fa4e89a97ea20a9eeee64b55d39a2192992a274fc1a836ba3c23a3feebbd454d4423643ce80e2a9ac94fa54ca49f".
Proof. vm_compute. reflexivity. Qed.
Example sha512_empty :
  sha512 [] =
  unhex "cf83e1357eefb8bdf1542850d66d8007d620e4050b5715dc83f4a921d36ce9ce47d0d13c5d85f2b0ff8318d2877eec2f63b931bd47417a81a538327af927da3e".
Proof. vm_compute. reflexivity. Qed.
Example sha512_two_blocks :
  sha512 (str_bytes "abcdefghbcdefghicdefghijdefghijkefghijklfghijklmghijklmnhijklmnoijklmnopjklmnopqklmnopqrlmnopqrsmnopqrstnopqrstu") =
  unhex "8e959b75dae313da8cf4f72814fc143f8f7779c6eb9f7fa17299aeadb6889018501d289e4900f7e4331b99dec4b5433ac7d329eeb6dd26545e96e55b874be909".
Proof. vm_compute. reflexivity. Qed.

(* ---- RFC 8032 section 7.1 test vectors ---- *)
Example rfc8032_test1 :
  let sk := unhex "9d61b19deffd5a60ba844af492ec2cc44449c5697b326919703bac031cae7f60" in
  let pk := unhex "d75a980182b10ab7d54bfed3c964073a0ee172f3daa62325af021a68f707511a" in
  let sg := unhex "e5564300c360ac729086e2cc806e828a84877f1eb8e5d974d873e065224901555fb8821590a33bacc61e39701cf9b46bd25bf5f0595bbe24655141438e7a100b" in
  sk_public_key sk = pk /\ sk_sign sk [] = sg /\ pk_verify pk [] sg = true /\ rfc_verify pk [] sg = true /\
  pk_verify pk [0] sg = false.
Proof. vm_compute. repeat split; reflexivity. Qed.

Example rfc8032_test2 :
  let sk := unhex "4ccd089b28ff96da9db6c346ec114e0f5b8a319f35aba624da8cf6ed4fb8a6fb" in
  let pk := unhex "3d4017c3e843895a92b70aa74d1b7ebc9c982ccf2ec4968cc0cd55f12af4660c" in
  let sg := unhex "92a009a9f0d4cab8720e820b5f642540a2b27b5416503f8fb3762223ebdb69da085ac1e43e15996e458f3613d0f11d8c387b2eaeb4302aeeb00d291612bb0c00" in
  sk_public_key sk = pk /\ sk_sign sk [114] = sg /\ pk_verify pk [114] sg = true.
Proof. vm_compute. repeat split; reflexivity. Qed.

Example rfc8032_test3 :
  let sk := unhex "c5aa8df43f9f837bedb7442f31dcb7b166d38535076f094b85ce3a2e0b4458f7" in
  let pk := unhex "fc51cd8e6218a1a38da47ed00230f0580816ed13ba3303ac5deb911548908025" in
  let sg := unhex "6291d657deec24024827e69c3abe01a30ce548a284743a445e3680d7db5ac3ac18ff9b538d16f290ae67f760984dc6594a7c15e9716ed28dc027beceea1ec40a" in
  sk_public_key sk = pk /\ sk_sign sk [175; 130] = sg.
Proof. vm_compute. repeat split; reflexivity. Qed.

Example rfc8032_test_sha_abc :
  let sk := unhex "833fe62409237b9d62ec77587520911e9a759cec1d19755b7da901b96dca3d42" in
  let pk := unhex "ec172b93ad5e563bf4932c70e1245034c35467ef2efd4d64ebf819683467e2bf" in
  let sg := unhex "dc2a4459e7369633a52b1bf277839a00201009a3efbf3ecb69bea2186c26b58909351fc9ac90b3ecfdfbc7c66431e0303dca179c138ac17ad9bef1177331a704" in
  sk_public_key sk = pk /\ sk_sign sk (sha512 (str_bytes "abc")) = sg.
Proof. vm_compute. repeat split; reflexivity. Qed.

(* extended keys: the structure check on concrete keys *)
Example esk_examples :
  esk_from_bytes (repeat 0 64) = Err 1 /\
  esk_from_bytes (repeat 0 31 ++ [64] ++ repeat 0 32) = Ok (repeat 0 31 ++ [64] ++ repeat 0 32) /\
  esk_from_bytes ([1] ++ repeat 0 30 ++ [64] ++ repeat 0 32) = Err 1 /\
  esk_from_bytes (repeat 0 31 ++ [192] ++ repeat 0 32) = Err 1.
Proof. vm_compute. repeat split; reflexivity. Qed.
