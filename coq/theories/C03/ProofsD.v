(* C03 proofs, part D: locality of Decoder::skip (its result depends only on the bytes
   it consumes), hence the value round trip of AnyCbor for every decoded value. *)
From PV Require Import Lib.Base Cbor.Item Cbor.Enc Cbor.Dec Cbor.HeadLaws Cbor.Laws Cbor.Api Cbor.Skip.
From PV Require Import C03.Model C03.ProofsA C03.ProofsB C03.ProofsC.
Open Scope Z_scope.

(* "element locality": a successful run consumed a non-empty prefix y, and gives the same
   result on y followed by anything *)
Definition eloc {A} (dec : list Z -> dres (A * list Z)) : Prop :=
  forall bs x r1, dec bs = DOk (x, r1) ->
    exists y, y <> [] /\ bs = y ++ r1 /\ forall rest, dec (y ++ rest) = DOk (x, rest).

Lemma enc_head_nonempty m w n : enc_head m w n <> [].
Proof. rewrite enc_head_cons. discriminate. Qed.

Lemma dec_head_eloc : eloc (fun bs => dbind (dec_head bs) (fun '(m, h, r) => DOk ((m, h), r))).
Proof.
  intros bs [m h] r1 H. apply dbind_ok in H as ([[m' h'] r'] & Hd & H). inversion H; subst; clear H.
  pose proof Hd as Hs. apply dec_head_sound in Hs. destruct h as [w n|].
  - destruct Hs as [-> Hfit]. exists (enc_head m w n). split; [apply enc_head_nonempty|]. split; [reflexivity|].
    intros rest. rewrite dec_head_enc by exact Hfit. reflexivity.
  - subst bs. exists (enc_indef m). split; [discriminate|]. split; [reflexivity|].
    intros rest. rewrite dec_head_indef. reflexivity.
Qed.

Lemma dec_head_loc bs m h r1 : dec_head bs = DOk (m, h, r1) ->
  exists y, y <> [] /\ bs = y ++ r1 /\ forall rest, dec_head (y ++ rest) = DOk (m, h, rest).
Proof.
  intros Hd. destruct (dec_head_eloc bs (m, h) r1) as (y & Hy & E & Hl); [rewrite Hd; reflexivity|].
  exists y. split; [exact Hy|]. split; [exact E|]. intros rest. specialize (Hl rest).
  apply dbind_ok in Hl as ([[m' h'] r'] & Hd' & Hl). inversion Hl; subst. exact Hd'.
Qed.

Lemma take_loc n bs s r1 : 0 <= n -> take n bs = DOk (s, r1) ->
  bs = s ++ r1 /\ forall rest, take n (s ++ rest) = DOk (s, rest).
Proof.
  intros Hn H. apply take_sound in H as (-> & <- & Hwf); [|exact Hn]. split; [reflexivity|].
  intros rest. apply take_app, Hwf.
Qed.

Lemma d_len_loc m bs l r1 : d_len m bs = DOk (l, r1) ->
  exists y, y <> [] /\ bs = y ++ r1 /\ forall rest, d_len m (y ++ rest) = DOk (l, rest).
Proof.
  intros H. pose proof H as Hs. apply d_len_sound in Hs. destruct l as [n|].
  - destruct Hs as (w & -> & Hfit). exists (enc_head m w n). split; [apply enc_head_nonempty|]. split; [reflexivity|].
    intros rest. apply d_len_enc, Hfit.
  - subst bs. exists (enc_indef m). split; [discriminate|]. split; [reflexivity|].
    intros rest. unfold d_len in *. apply dbind_ok in H as ([h r'] & He & H).
    unfold expect_head in *. unfold enc_indef in *. cbn [app] in *.
    destruct (negb (byteb (major_code m * 32 + 31))); [discriminate|].
    destruct (major_eqb m (major_of_code ((major_code m * 32 + 31) / 32))) eqn:Em.
    + change ((major_code m * 32 + 31) :: rest) with (enc_indef m ++ rest). rewrite dec_head_indef. reflexivity.
    + unfold mismatch in He. destruct ((56 <=? major_code m * 32 + 31) && (major_code m * 32 + 31 <=? 59));
        [destruct r1 as [|? [|? ?]]|]; discriminate.
Qed.

Lemma d_bytes_eloc : eloc d_bytes.
Proof.
  intros bs b r1 H. apply d_bytes_sound in H as (w & -> & Hfit & Hwf).
  exists (enc_head MajBytes w (len b) ++ b). split; [|split; [rewrite app_assoc; reflexivity|]].
  - intros E. apply app_eq_nil in E as [E _]. exact (enc_head_nonempty _ _ _ E).
  - intros rest. rewrite <- app_assoc. apply d_bytes_enc; assumption.
Qed.

Lemma d_str_eloc : eloc d_str.
Proof.
  intros bs s r1 H. unfold d_str in H. destruct bs as [|b0 t]; [discriminate|].
  destruct (negb (byteb b0)) eqn:Hb; [discriminate|].
  destruct (major_eqb (major_of_code (b0 / 32)) MajText && negb (b0 mod 32 =? 31)) eqn:Hc;
    [|unfold mismatch in H; destruct ((56 <=? b0) && (b0 <=? 59)); [destruct t as [|? [|? ?]]|]; discriminate].
  apply dbind_ok in H as ([[w n] r2] & He & H). apply dbind_ok in H as ([s' r3] & Ht & H).
  destruct (utf8_valid s') eqn:Hu; [|discriminate]. inversion H; subst; clear H.
  apply expect_arg_sound in He as (m & Hok & Hbs & Hfit). apply major_eqb_spec in Hok. subst m.
  apply take_loc in Ht as [-> Htl]; [|unfold arg_fits in Hfit; lia].
  exists (enc_head MajText w n ++ s). split; [|split; [rewrite Hbs, app_assoc; reflexivity|]].
  - intros E. apply app_eq_nil in E as [E _]. exact (enc_head_nonempty _ _ _ E).
  - intros rest. rewrite <- app_assoc. rewrite enc_head_cons in *. cbn [app] in *. inversion Hbs as [[Hb0 Ht0]].
    unfold d_str. rewrite <- Hb0, Hb, Hc.
    pose proof (expect_arg_enc (major_eqb MajText) MajText w n (s ++ rest) (major_eqb_refl _) Hfit) as He.
    rewrite enc_head_cons in He. cbn [app] in He. rewrite <- Hb0 in He. rewrite He. cbn [dbind].
    rewrite Htl. cbn [dbind]. rewrite Hu. reflexivity.
Qed.

Lemma unit_dec_eloc d : eloc d -> eloc (unit_dec d).
Proof.
  intros Hd bs [] r1 H. unfold unit_dec in H. apply dbind_ok in H as ([s r2] & Hs & H). inversion H; subst; clear H.
  destruct (Hd _ _ _ Hs) as (y & Hy & E & Hl). exists y. split; [exact Hy|]. split; [exact E|].
  intros rest. unfold unit_dec. rewrite Hl. reflexivity.
Qed.

(* ---- the until loop ---- *)
Lemma until_loop_loc {A} (dec : list Z -> dres (A * list Z)) :
  eloc dec ->
  forall k bs xs r1, until_loop dec k bs = DOk (xs, r1) ->
    exists y, y <> [] /\ bs = y ++ r1 /\
      forall k' rest, (length y <= k')%nat -> until_loop dec k' (y ++ rest) = DOk (xs, rest).
Proof.
  intros Hd. induction k as [|k IH]; intros bs xs r1 H; cbn [until_loop] in H; [discriminate|].
  destruct bs as [|b t]; [discriminate|]. destruct (b =? break_byte) eqn:Eb.
  - inversion H; subst. exists [b]. split; [discriminate|]. split; [reflexivity|].
    intros k' rest Hk. destruct k' as [|k']; [cbn in Hk; lia|]. cbn [until_loop app]. rewrite Eb. reflexivity.
  - apply dbind_ok in H as ([x r2] & Hx & H). apply dbind_ok in H as ([xs' r3] & Hl & H). inversion H; subst; clear H.
    destruct (Hd _ _ _ Hx) as (y1 & Hy1 & E1 & L1). destruct (IH _ _ _ Hl) as (y2 & Hy2 & E2 & L2).
    exists (y1 ++ y2). split; [intros E; apply app_eq_nil in E as [E _]; contradiction|].
    split; [rewrite <- app_assoc, <- E2; exact E1|].
    intros k' rest Hk. rewrite app_length in Hk.
    destruct y1 as [|c y1']; [contradiction|]. cbn [app] in E1. inversion E1 as [[Hc Ht]]. subst c.
    destruct k' as [|k']; [cbn in Hk; lia|]. cbn [until_loop app]. rewrite Eb.
    rewrite <- app_assoc. specialize (L1 (y2 ++ rest)). cbn [app] in L1. rewrite L1. cbn [dbind].
    rewrite L2 by (cbn [length] in Hk; lia). reflexivity.
Qed.

(* ---- one token ---- *)
Lemma skip_string_loc text b r0 r1 :
  skip_string text b (b :: r0) r0 = DOk r1 ->
  exists y0, r0 = y0 ++ r1 /\ forall rest, skip_string text b (b :: y0 ++ rest) (y0 ++ rest) = DOk rest.
Proof.
  intros H. unfold skip_string in *. destruct (b mod 32 =? 31).
  - apply dbind_ok in H as ([xs r2] & Hl & H). inversion H; subst; clear H.
    assert (He : eloc (unit_dec (if text then d_str else d_bytes)))
      by (apply unit_dec_eloc; destruct text; [apply d_str_eloc|apply d_bytes_eloc]).
    destruct (until_loop_loc _ He _ _ _ _ Hl) as (y & _ & E & L). exists y. split; [exact E|].
    intros rest. rewrite L; [reflexivity|]. unfold budget. rewrite app_length. lia.
  - apply dbind_ok in H as ([[m h] r2] & Hh & H). destruct h as [w n|]; [|discriminate].
    apply dbind_ok in H as ([s r3] & Ht & H). destruct (text && negb (utf8_valid s)) eqn:Eu; [discriminate|].
    inversion H; subst; clear H.
    pose proof Hh as Hs. apply dec_head_sound_arg in Hs as [Hbs Hfit].
    destruct (dec_head_loc _ _ _ _ Hh) as (y & Hy & E & L).
    apply take_loc in Ht as [-> Htl]; [|unfold arg_fits in Hfit; lia].
    destruct y as [|c y']; [contradiction|]. cbn [app] in E. inversion E as [[Hc Ht]]. subst c.
    exists (y' ++ s). split; [try rewrite Ht; rewrite ?app_assoc; reflexivity|].
    intros rest. rewrite <- app_assoc. specialize (L (s ++ rest)). cbn [app] in L. rewrite L. cbn [dbind].
    rewrite Htl. cbn [dbind]. rewrite Eu. reflexivity.
Qed.

Lemma d_len_loc_cons m b r0 l r1 : d_len m (b :: r0) = DOk (l, r1) ->
  exists y0, r0 = y0 ++ r1 /\ forall rest, d_len m (b :: y0 ++ rest) = DOk (l, rest).
Proof.
  intros H. destruct (d_len_loc _ _ _ _ H) as (y & Hy & E & L). destruct y as [|c y']; [contradiction|].
  cbn [app] in E. inversion E as [[Hc Ht]]. subst c. exists y'. split; [first [exact Ht|reflexivity|congruence]|]. intros rest. apply (L rest).
Qed.

Lemma skip_token_loc n i st b r0 n' i' st' r1 :
  skip_token n i st b (b :: r0) r0 = DOk (n', i', st', r1) ->
  exists y0, r0 = y0 ++ r1 /\
    forall rest, skip_token n i st b (b :: y0 ++ rest) (y0 ++ rest) = DOk (n', i', st', rest).
Proof.
  unfold skip_token. intros H.
  destruct ((b <=? 27) || ((32 <=? b) && (b <=? 59)) || ((224 <=? b) && (b <=? 251))).
  { apply dbind_ok in H as ([[m h] r2] & Hh & H). inversion H; subst; clear H.
    destruct (dec_head_loc _ _ _ _ Hh) as (y & Hy & E & L). destruct y as [|c y']; [contradiction|].
    cbn [app] in E. inversion E as [[Hc Ht]]. subst c. exists y'. split; [first [exact Ht|reflexivity|congruence]|].
    intros rest. specialize (L rest). cbn [app] in L. rewrite L. reflexivity. }
  destruct ((64 <=? b) && (b <=? 95)).
  { apply dbind_ok in H as (r2 & Hs & H). inversion H; subst; clear H.
    destruct (skip_string_loc _ _ _ _ Hs) as (y0 & E & L). exists y0. split; [exact E|].
    intros rest. rewrite L. reflexivity. }
  destruct ((96 <=? b) && (b <=? 127)).
  { apply dbind_ok in H as (r2 & Hs & H). inversion H; subst; clear H.
    destruct (skip_string_loc _ _ _ _ Hs) as (y0 & E & L). exists y0. split; [exact E|].
    intros rest. rewrite L. reflexivity. }
  destruct ((128 <=? b) && (b <=? 159)).
  { apply dbind_ok in H as ([l r2] & Hl & H). destruct (d_len_loc_cons _ _ _ _ _ Hl) as (y0 & E & L).
    exists y0. unfold d_array in *.
    destruct l as [c|].
    - destruct (c =? 0) eqn:Ec.
      + inversion H; subst. split; [reflexivity|]. intros rest. rewrite L. cbn [dbind]. try rewrite Ec. reflexivity.
      + destruct (open_def n i st c) as [[n2 i2] st2] eqn:Eo. inversion H; subst. split; [reflexivity|].
        intros rest. rewrite L. cbn [dbind]. try rewrite Ec. try rewrite Eo. reflexivity.
    - destruct (open_indef n i st) as [[n2 i2] st2] eqn:Eo. inversion H; subst. split; [reflexivity|].
      intros rest. rewrite L. cbn [dbind]. try rewrite Eo. reflexivity. }
  destruct ((160 <=? b) && (b <=? 191)).
  { apply dbind_ok in H as ([l r2] & Hl & H). destruct (d_len_loc_cons _ _ _ _ _ Hl) as (y0 & E & L).
    exists y0. unfold d_map in *.
    destruct l as [c|].
    - destruct (c =? 0) eqn:Ec.
      + inversion H; subst. split; [reflexivity|]. intros rest. rewrite L. cbn [dbind]. try rewrite Ec. reflexivity.
      + destruct (open_def n i st (sat_mul2 c)) as [[n2 i2] st2] eqn:Eo. inversion H; subst. split; [reflexivity|].
        intros rest. rewrite L. cbn [dbind]. try rewrite Ec. try rewrite Eo. reflexivity.
    - destruct (open_indef n i st) as [[n2 i2] st2] eqn:Eo. inversion H; subst. split; [reflexivity|].
      intros rest. rewrite L. cbn [dbind]. try rewrite Eo. reflexivity. }
  destruct (b =? 255); [|discriminate].
  destruct (on_break n i st) as [[n2 i2] st2]. inversion H; subst. exists []. split; [reflexivity|].
  intros rest. reflexivity.
Qed.

(* ---- the loop ---- *)
Lemma skip_loop_loc fuel : forall n i st bs r1, skip_loop fuel n i st bs = DOk r1 ->
  exists y, bs = y ++ r1 /\
    forall f' rest, (length y < f')%nat -> skip_loop f' n i st (y ++ rest) = DOk rest.
Proof.
  induction fuel as [|f IH]; intros n i st bs r1 H; cbn [skip_loop] in H.
  - destruct (idle n i && match st with [] => true | _ => false end) eqn:Ei; [|discriminate].
    inversion H; subst. exists []. split; [reflexivity|]. intros f' rest _.
    destruct f'; cbn [skip_loop app]; rewrite Ei; reflexivity.
  - destruct (idle n i && match st with [] => true | _ => false end) eqn:Ei.
    { inversion H; subst. exists []. split; [reflexivity|]. intros f' rest _.
      destruct f'; cbn [skip_loop app]; rewrite Ei; reflexivity. }
    destruct bs as [|b r0]; [discriminate|]. destruct (negb (byteb b)) eqn:Hb; [discriminate|].
    destruct ((192 <=? b) && (b <=? 219)) eqn:Etag.
    + apply dbind_ok in H as ([[m h] r2] & Hh & H). destruct h as [w t|] eqn:Eh; [|discriminate].
      destruct (dec_head_loc _ _ _ _ Hh) as (y1 & Hy1 & E1 & L1). destruct (IH _ _ _ _ _ H) as (y2 & E2 & L2).
      exists (y1 ++ y2). split; [rewrite E1, E2, app_assoc; reflexivity|].
      intros f' rest Hf. rewrite app_length in Hf.
      destruct y1 as [|c y1']; [contradiction|]. cbn [app] in E1. inversion E1 as [[Hc Ht]]. subst c.
      destruct f' as [|f']; [lia|]. cbn [skip_loop app]. rewrite Ei, Hb, Etag.
      rewrite <- app_assoc. specialize (L1 (y2 ++ rest)). cbn [app] in L1. rewrite L1. cbn [dbind].
      apply L2. cbn [length] in Hf. lia.
    + apply dbind_ok in H as ([[[n1 i1] st1] r2] & Ht & H).
      destruct (skip_token_loc _ _ _ _ _ _ _ _ _ Ht) as (y0 & E0 & L0).
      destruct (skip_post n1 i1 st1) as [[[n2 i2] st2]|] eqn:Ep.
      * destruct (IH _ _ _ _ _ H) as (y2 & E2 & L2).
        exists ((b :: y0) ++ y2). split; [cbn [app]; rewrite E0, E2, app_assoc; reflexivity|].
        intros f' rest Hf. rewrite app_length in Hf. cbn [length] in Hf.
        destruct f' as [|f']; [lia|]. cbn [skip_loop app]. rewrite Ei, Hb, Etag.
        rewrite <- app_assoc. rewrite (L0 (y2 ++ rest)). cbn [dbind]. rewrite Ep. apply L2. lia.
      * inversion H; subst. exists (b :: y0). split; [reflexivity|].
        intros f' rest Hf. cbn [length] in Hf. destruct f' as [|f']; [lia|]. cbn [skip_loop app].
        rewrite Ei, Hb, Etag. rewrite (L0 rest). cbn [dbind]. rewrite Ep. reflexivity.
Qed.

(* Decoder::skip depends only on the bytes it consumes *)
Lemma d_skip_loc bs r1 : d_skip bs = DOk r1 ->
  exists y, bs = y ++ r1 /\ forall rest, d_skip (y ++ rest) = DOk rest.
Proof.
  intros H. destruct (skip_loop_loc _ _ _ _ _ _ H) as (y & E & L). exists y. split; [exact E|].
  intros rest. unfold d_skip. apply L. unfold budget. rewrite app_length. lia.
Qed.

(* AnyCbor: decoding the encoding of a decoded value yields the same value *)
Lemma anycbor_roundtrip_decoded bs a r r' :
  dec_anycbor bs = DOk (a, r) -> dec_anycbor (enc_anycbor a ++ r') = DOk (a, r').
Proof.
  unfold dec_anycbor, d_skip_slice, enc_anycbor. intros H. apply dbind_ok in H as (r1 & Hs & H).
  inversion H; subst; clear H. destruct (d_skip_loc _ _ Hs) as (y & -> & L).
  fold (consumed (y ++ r) r). rewrite consumed_app. rewrite L. cbn [dbind].
  fold (consumed (y ++ r') r'). rewrite consumed_app. reflexivity.
Qed.

(* ---- with Cbor/SkipLaws.v: skip consumes exactly one well-formed item ---- *)
From PV Require Import Cbor.SkipLaws.

(* AnyCbor holding (the encoding of) any well-formed item round-trips *)
Lemma anycbor_roundtrip_item i r :
  wf_item i = true -> 2 * len (encode_item i) + 2 < u64_max ->
  dec_anycbor (enc_anycbor (encode_item i) ++ r) = DOk (encode_item i, r).
Proof.
  intros Hwf Hs. unfold dec_anycbor, d_skip_slice, enc_anycbor. rewrite skip_item by assumption. cbn [dbind].
  fold (consumed (encode_item i ++ r) r). rewrite consumed_app. reflexivity.
Qed.

(* AnyCbor accepts exactly one item wherever the item decoder does, and keeps its bytes *)
Lemma anycbor_of_decode bs i r :
  decode bs = DOk (i, r) -> 2 * len bs + 2 < u64_max -> dec_anycbor bs = DOk (encode_item i, r).
Proof.
  intros H Hb. apply decode_sound in H as [-> Hwf]. apply anycbor_roundtrip_item; [exact Hwf|].
  rewrite len_app in Hb. pose proof (len_nonneg r). lia.
Qed.

Lemma emptymap_roundtrip r : dec_emptymap (enc_emptymap tt ++ r) = DOk (tt, r).
Proof.
  unfold dec_emptymap, enc_emptymap. change (e_map 0) with (encode_item (Map W0 [])).
  rewrite skip_item; [reflexivity|reflexivity|unfold u64_max; cbn; lia].
Qed.
