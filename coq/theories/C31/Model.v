(* C31 model: pallas-traverse/src/tx.rs MultiEraTx::{is_valid, consumes, produces,
   produces_at, inputs_sorted_set} and input.rs lexicographical_key, over an
   abstract transaction.

   An input is its output reference (tx id, index): the 32-byte id is the
   big-endian number of its bytes (so Hash<32>'s derived byte-wise Ord is the
   order of Z), the index a u64.  Outputs are opaque (type parameter [A]).
   The abstract transaction records what the era structs hold:
     byron     : MultiEraTx::Byron (is_valid = true, no collateral, no collateral return)
     success   : the `success` field of alonzo/babbage/conway Tx
     inputs, outputs, collateral (None / [] flattened), collateral_return
                 (None for eras whose body has no such field). *)
From PV Require Import Lib.Base.
Open Scope Z_scope.

Definition input : Type := (Z * Z)%type.
Definition input_eqb (a b : input) : bool := (fst a =? fst b) && (snd a =? snd b).

Record tx (A : Type) : Type := mk_tx {
  byron : bool;
  success : bool;
  inputs : list input;
  outputs : list A;
  collateral_field : list input;
  collateral_return_field : option A
}.
Arguments mk_tx {A}. Arguments byron {A}. Arguments success {A}. Arguments inputs {A}.
Arguments outputs {A}. Arguments collateral_field {A}. Arguments collateral_return_field {A}.

Section Model.
Context {A : Type}.

(* is_valid: Byron => true, otherwise x.success *)
Definition is_valid (t : tx A) : bool := if byron t then true else success t.
(* collateral(): Byron => vec![] *)
Definition collateral (t : tx A) : list input := if byron t then [] else collateral_field t.
(* collateral_return(): only Babbage / Conway bodies have the field *)
Definition collateral_return (t : tx A) : option A := if byron t then None else collateral_return_field t.

(* HashSet::insert filter: keep an element iff it was not seen before *)
Definition memb (x : input) (l : list input) : bool := existsb (input_eqb x) l.
Fixpoint dedup_from (seen : list input) (l : list input) : list input :=
  match l with
  | [] => []
  | x :: r => if memb x seen then dedup_from seen r else x :: dedup_from (x :: seen) r
  end.

Definition consumes (t : tx A) : list input :=
  dedup_from [] (if is_valid t then inputs t else collateral t).

(* outputs().into_iter().enumerate() *)
Fixpoint enumerate_from (i : Z) (l : list A) : list (Z * A) :=
  match l with [] => [] | x :: r => (i, x) :: enumerate_from (i + 1) r end.
Definition zlength (l : list A) : Z := Z.of_nat (length l).

Definition produces (t : tx A) : list (Z * A) :=
  if is_valid t then enumerate_from 0 (outputs t)
  else match collateral_return t with
       | Some o => [(zlength (outputs t), o)]
       | None => []
       end.

(* slice.get(index); the index stays a binary number (probes go up to 2^64 - 1) *)
Fixpoint zget (l : list A) (i : Z) : option A :=
  match l with [] => None | x :: r => if i =? 0 then Some x else zget r (i - 1) end.
Definition get (l : list A) (i : Z) : option A := if i <? 0 then None else zget l i.

Definition produces_at (t : tx A) (i : Z) : option A :=
  if is_valid t then get (outputs t) i
  else if i =? zlength (outputs t) then collateral_return t else None.

(* association lookup used to state produces_at against produces *)
Fixpoint assoc (i : Z) (l : list (Z * A)) : option A :=
  match l with [] => None | (j, x) :: r => if i =? j then Some x else assoc i r end.
End Model.

(* (Hash<32>, u64) tuple order *)
Definition key_ltb (a b : input) : bool := (fst a <? fst b) || ((fst a =? fst b) && (snd a <? snd b)).
Definition key_leb (a b : input) : bool := negb (key_ltb b a).
Definition key_lt (a b : input) : Prop := fst a < fst b \/ (fst a = fst b /\ snd a < snd b).

(* sort_by_key is a stable sort: insertion after all smaller-or-equal keys *)
Fixpoint insert_sorted (x : input) (l : list input) : list input :=
  match l with
  | [] => [x]
  | y :: r => if key_ltb x y then x :: y :: r else y :: insert_sorted x r
  end.
Definition sort_by_key (l : list input) : list input := fold_left (fun acc x => insert_sorted x acc) l [].

(* dedup_by_key: drop every element whose key equals that of the last kept one *)
Fixpoint dedup_adj_from (prev : input) (l : list input) : list input :=
  match l with
  | [] => []
  | y :: r => if input_eqb prev y then dedup_adj_from prev r else y :: dedup_adj_from y r
  end.
Definition dedup_adjacent (l : list input) : list input :=
  match l with [] => [] | x :: r => x :: dedup_adj_from x r end.

Definition inputs_sorted_set {A} (t : tx A) : list input := dedup_adjacent (sort_by_key (inputs t)).
