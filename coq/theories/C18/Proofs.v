From PV Require Import Lib.Base C18.Model.
Open Scope Z_scope.

(* ---------------------------------------------------------------- bits *)
Lemma land_127 x : Z.land x 127 = x mod 128.
Proof. change 127 with (Z.ones 7). rewrite Z.land_ones by lia. reflexivity. Qed.

Lemma lor_disjoint_add a b : Z.land a b = 0 -> Z.lor a b = a + b.
Proof.
  intros H. rewrite <- Z.lxor_lor by exact H. symmetry. apply Z.add_nocarry_lxor. exact H.
Qed.

Lemma land_shift_small x d k : 0 <= k -> 0 <= d < 2 ^ k -> Z.land (x * 2 ^ k) d = 0.
Proof.
  intros Hk Hd. apply Z.bits_inj'. intros n Hn. rewrite Z.land_spec, Z.bits_0.
  destruct (Z.ltb_spec n k).
  - rewrite Z.mul_pow2_bits_low by lia. reflexivity.
  - assert (Z.testbit d n = false) as ->; [|apply andb_false_r].
    destruct (Z.eq_dec d 0) as [->|]; [apply Z.bits_0|].
    apply Z.bits_above_log2; [lia|]. apply Z.log2_lt_pow2; [lia|].
    apply Z.lt_le_trans with (2 ^ k); [lia|]. apply Z.pow_le_mono_r; lia.
Qed.

Lemma lor_shift7 x d : 0 <= x -> 0 <= d < 128 -> Z.lor (Z.shiftl x 7) d = x * 128 + d.
Proof.
  intros Hx Hd. rewrite Z.shiftl_mul_pow2 by lia. change (2 ^ 7) with 128.
  apply lor_disjoint_add. change 128 with (2 ^ 7). apply land_shift_small; [lia|].
  change (2 ^ 7) with 128. lia.
Qed.

Lemma lor_128 d : 0 <= d < 128 -> Z.lor d 128 = d + 128.
Proof.
  intros Hd. rewrite Z.lor_comm. rewrite lor_disjoint_add; [lia|].
  change 128 with (1 * 2 ^ 7). apply land_shift_small; [lia|]. change (2 ^ 7) with 128. lia.
Qed.

(* all facts about a single byte: by sweep over [0,256) *)
Definition group_ok (g : Z) : bool :=
  (Z.land (Z.lor (Z.land g 127) 128) 127 =? g mod 128) &&
  negb (Z.land (Z.lor (Z.land g 127) 128) 128 =? 0) &&
  (Z.land (Z.land g 127) 128 =? 0) && (Z.land (Z.land g 127) 127 =? g mod 128) &&
  (0 <=? Z.lor (Z.land g 127) 128) && (Z.lor (Z.land g 127) 128 <? 256).
Lemma group_sweep : forallb group_ok (zrangeZ 0 128) = true.
Proof. vm_compute. reflexivity. Qed.

Lemma group_facts m : 0 <= m ->
  let g := Z.lor (Z.land m 127) 128 in
  Z.land g 127 = m mod 128 /\ Z.land g 128 <> 0 /\ byte g /\
  Z.land (Z.land m 127) 128 = 0 /\ Z.land (Z.land m 127) 127 = m mod 128.
Proof.
  intros Hm g. subst g. rewrite (land_127 m).
  pose proof group_sweep as H. rewrite forallb_forall in H.
  assert (Hi : In (m mod 128) (zrangeZ 0 128)) by (apply zrangeZ_In; lia).
  specialize (H _ Hi). unfold group_ok in H.
  rewrite !(land_127 (m mod 128)) in H. rewrite Z.mod_mod in H by lia.
  rewrite !andb_true_iff in H. destruct H as [[[[[H1 H2] H3] H4] H5] H6].
  rewrite negb_true_iff in H2.
  rewrite land_127 in H4. rewrite Z.mod_mod in H4 by lia.
  unfold byte. repeat split; try lia.
  rewrite land_127, Z.mod_mod by lia. reflexivity.
Qed.

(* ---------------------------------------------------------------- varuint *)
(* the continuation groups written for m (big-endian), as a specification *)
Fixpoint groups (fuel : nat) (m : Z) : list Z :=
  match fuel with
  | O => []
  | S f => if m >? 0 then groups f (m / 128) ++ [Z.lor (Z.land m 127) 128] else []
  end.

Lemma write_loop_groups f : forall m out, 0 <= m < 128 ^ Z.of_nat f ->
  write_loop f m out = Some (out ++ rev (groups f m)).
Proof.
  induction f as [|f IH]; intros m out Hm.
  - change (128 ^ Z.of_nat 0) with 1 in Hm. assert (m = 0) by lia. subst.
    cbn. rewrite app_nil_r. reflexivity.
  - cbn [write_loop groups]. destruct (m >? 0) eqn:E.
    + rewrite IH.
      * rewrite rev_app_distr. cbn [rev app]. rewrite <- app_assoc. reflexivity.
      * rewrite Nat2Z.inj_succ, Z.pow_succ_r in Hm by lia. lia.
    + cbn. rewrite app_nil_r. reflexivity.
Qed.

Lemma write_opt_spec n : 0 <= n <= u64_max ->
  varuint_write_opt n = Some (groups 10 (n / 128) ++ [Z.land (n mod 256) 127]).
Proof.
  intros Hn. unfold varuint_write_opt. rewrite write_loop_groups.
  - cbn [option_map]. rewrite rev_app_distr, rev_involutive. reflexivity.
  - unfold u64_max in Hn. change (128 ^ Z.of_nat 10) with 1180591620717411303424. lia.
Qed.

Lemma write_spec n : 0 <= n <= u64_max ->
  varuint_write n = groups 10 (n / 128) ++ [Z.land (n mod 256) 127].
Proof. intros Hn. unfold varuint_write. rewrite write_opt_spec by exact Hn. reflexivity. Qed.

Lemma read_step acc b rest : 0 <= acc -> acc * 128 + b mod 128 <= u64_max ->
  read_go acc (b :: rest) =
  if Z.land b 128 =? 0 then Ok (acc * 128 + b mod 128, rest) else read_go (acc * 128 + b mod 128) rest.
Proof.
  intros Ha Hb. cbn [read_go]. rewrite land_127.
  assert (Hs : Z.shiftl acc 7 = acc * 128) by (rewrite Z.shiftl_mul_pow2 by lia; reflexivity).
  rewrite Z.mod_small.
  2:{ rewrite Hs. unfold u64_max, two128 in *. lia. }
  rewrite lor_shift7 by lia.
  destruct (acc * 128 + b mod 128 >? u64_max) eqn:E; [lia|].
  rewrite Z.mod_small by (unfold u64_max in *; lia). reflexivity.
Qed.

Lemma read_groups f : forall m rest, 0 <= m < 128 ^ Z.of_nat f -> m <= u64_max ->
  read_go 0 (groups f m ++ rest) = read_go m rest.
Proof.
  induction f as [|f IH]; intros m rest Hm Hmax.
  - change (128 ^ Z.of_nat 0) with 1 in Hm. assert (m = 0) by lia. subst. reflexivity.
  - cbn [groups]. destruct (m >? 0) eqn:E.
    + rewrite <- app_assoc. cbn [app]. rewrite IH.
      * destruct (group_facts m ltac:(lia)) as (G1 & G2 & _). rewrite land_127 in G1.
        rewrite read_step; [|lia|rewrite G1; lia].
        rewrite G1. destruct (Z.land _ 128 =? 0) eqn:E2; [lia|].
        f_equal. lia.
      * rewrite Nat2Z.inj_succ, Z.pow_succ_r in Hm by lia. lia.
      * lia.
    + assert (m = 0) by lia. subst. reflexivity.
Qed.

Lemma varuint_roundtrip_proof n r : 0 <= n <= u64_max ->
  varuint_read (varuint_write n ++ r) = Ok (n, r).
Proof.
  intros Hn. rewrite write_spec by exact Hn. unfold varuint_read.
  rewrite <- app_assoc. cbn [app]. rewrite read_groups.
  - assert (Hl : Z.land (n mod 256) 127 = n mod 128).
    { rewrite land_127. lia. }
    rewrite Hl. rewrite read_step; [|lia|rewrite Z.mod_mod by lia; lia].
    rewrite Z.mod_mod by lia.
    assert (Hc : Z.land (n mod 128) 128 = 0).
    { destruct (group_facts n ltac:(lia)) as (_ & _ & _ & G4 & _). rewrite land_127 in G4. exact G4. }
    rewrite Hc. cbn [Z.eqb]. do 2 f_equal. lia.
  - unfold u64_max in Hn. change (128 ^ Z.of_nat 10) with 1180591620717411303424. lia.
  - lia.
Qed.

Lemma write_fuel_ok n : 0 <= n <= u64_max -> varuint_write_opt n <> None.
Proof. intros Hn. rewrite write_opt_spec by exact Hn. discriminate. Qed.

Lemma groups_wf f : forall m, 0 <= m -> bytes_wf (groups f m) /\ (length (groups f m) <= f)%nat.
Proof.
  induction f as [|f IH]; intros m Hm; cbn [groups]; [split; [constructor|cbn; lia]|].
  destruct (m >? 0); [|split; [constructor|cbn; lia]].
  destruct (IH (m / 128) ltac:(lia)) as [W L]. split.
  - apply Forall_app. split; [exact W|]. constructor; [|constructor].
    destruct (group_facts m Hm) as (_ & _ & G3 & _). exact G3.
  - rewrite app_length. cbn [length]. lia.
Qed.

Lemma write_wf n : 0 <= n <= u64_max ->
  bytes_wf (varuint_write n) /\ (1 <= length (varuint_write n) <= 11)%nat.
Proof.
  intros Hn. rewrite write_spec by exact Hn.
  destruct (groups_wf 10 (n / 128) ltac:(lia)) as [W L]. split.
  - apply Forall_app. split; [exact W|]. constructor; [|constructor].
    rewrite land_127. unfold byte. lia.
  - rewrite app_length. cbn [length]. lia.
Qed.

(* the reader never panics, never reports overflow, and stays within u64 /
   the u128 accumulator never wraps *)
Lemma read_go_total bs : forall acc, 0 <= acc <= u64_max -> bytes_wf bs ->
  match read_go acc bs with
  | Ok (v, rest) => 0 <= v <= u64_max /\ exists k, (k <= length bs)%nat /\ rest = skipn k bs /\ (0 < k)%nat
  | Err e => e = E_VARUINT_EOF
  | Panic _ => False
  end.
Proof.
  induction bs as [|b rest IH]; intros acc Ha Hw; [reflexivity|].
  inversion Hw as [|? ? Hb Hw']; subst. cbn [read_go].
  assert (Hs : Z.shiftl acc 7 = acc * 128) by (rewrite Z.shiftl_mul_pow2 by lia; reflexivity).
  rewrite land_127. rewrite Z.mod_small by (rewrite Hs; unfold u64_max, two128 in *; lia).
  rewrite lor_shift7 by lia.
  destruct (acc * 128 + b mod 128 >? u64_max) eqn:E.
  - split; [unfold u64_max; lia|]. exists 1%nat. cbn. repeat split; lia.
  - destruct (Z.land b 128 =? 0) eqn:E2.
    + rewrite Z.mod_small by (unfold u64_max in *; lia). split; [lia|].
      exists 1%nat. cbn. repeat split; lia.
    + specialize (IH (acc * 128 + b mod 128) ltac:(lia) Hw').
      destruct (read_go _ rest) as [[v r]| |]; try exact IH.
      destruct IH as [Hv (k & Hk & Hr & Hk0)]. split; [exact Hv|].
      exists (S k). cbn. repeat split; try lia. exact Hr.
Qed.

(* ---------------------------------------------------------------- pointer *)
Lemma pointer_roundtrip_proof a b c r : u64 a -> u64 b -> u64 c ->
  pointer_parse (pointer_to_vec a b c ++ r) = Ok (a, b, c).
Proof.
  unfold u64. intros Ha Hb Hc. unfold pointer_parse, pointer_to_vec.
  rewrite <- !app_assoc. rewrite varuint_roundtrip_proof by exact Ha. cbn [bind].
  rewrite varuint_roundtrip_proof by exact Hb. cbn [bind].
  rewrite varuint_roundtrip_proof by exact Hc. reflexivity.
Qed.

(* ---------------------------------------------------------------- header *)
Definition header_ok (t net : Z) : bool :=
  let h := mk_header t (network_from net) in
  (h =? t * 16 + net) && (Z.land h 240 =? t * 16) && (Z.land h 15 =? net) &&
  (h / 16 =? t) && (h mod 16 =? net) && (0 <=? h) && (h <? 256) &&
  network_eqb (parse_network h) (network_from net).
Lemma header_sweep : forallb (fun t => forallb (header_ok t) (zrangeZ 0 16)) (zrangeZ 0 16) = true.
Proof. vm_compute. reflexivity. Qed.

Lemma network_eqb_eq a b : network_eqb a b = true -> a = b.
Proof. destruct a, b; cbn; intros H; try discriminate; try reflexivity. f_equal. lia. Qed.

Lemma header_facts t net : 0 <= t < 16 -> 0 <= net < 16 ->
  let h := mk_header t (network_from net) in
  h = t * 16 + net /\ Z.land h 240 = t * 16 /\ Z.land h 15 = net /\ h / 16 = t /\ h mod 16 = net /\
  byte h /\ parse_network h = network_from net.
Proof.
  intros Ht Hn h. pose proof header_sweep as H. rewrite forallb_forall in H.
  specialize (H t ltac:(apply zrangeZ_In; lia)). rewrite forallb_forall in H.
  specialize (H net ltac:(apply zrangeZ_In; lia)). unfold header_ok in H. fold h in H.
  rewrite !andb_true_iff in H. destruct H as [[[[[[[H1 H2] H3] H4] H5] H6] H7] H8].
  apply network_eqb_eq in H8. unfold byte. repeat split; try lia. exact H8.
Qed.

Lemma shelley_typeid_range p d : 0 <= shelley_typeid p d < 8.
Proof. destruct p, d; cbn; lia. Qed.
Lemma stake_typeid_range s : 14 <= stake_typeid s < 16.
Proof. destruct s; cbn; lia. Qed.

Definition is_shelley_or_stake (a : address) : Prop :=
  match a with Byron _ _ => False | _ => True end.

Lemma header_faithful_proof a net : 0 <= net < 16 -> addr_network a = Some (network_from net) ->
  to_header a = typeid a * 16 + net /\ to_header a / 16 = typeid a /\ to_header a mod 16 = net /\
  parse_network (to_header a) = network_from net /\ hd 0 (to_vec a) = to_header a.
Proof.
  intros Hn Ha. destruct a as [p c|n p d|n s]; cbn in Ha; [discriminate| |]; inversion Ha; subst n.
  - pose proof (shelley_typeid_range p d) as Ht.
    destruct (header_facts (shelley_typeid p d) net ltac:(lia) Hn) as (H1 & H2 & H3 & H4 & H5 & H6 & H7).
    cbn [to_header typeid to_vec to_vec_with hd]. tauto.
  - pose proof (stake_typeid_range s) as Ht.
    destruct (header_facts (stake_typeid s) net ltac:(lia) Hn) as (H1 & H2 & H3 & H4 & H5 & H6 & H7).
    cbn [to_header typeid to_vec to_vec_with hd]. tauto.
Qed.

(* ---------------------------------------------------------------- slices *)
Lemma len_app a b : len (a ++ b) = len a + len b.
Proof. unfold len. rewrite app_length. lia. Qed.

Lemma firstn_len_app (h r : list Z) : firstn (length h) (h ++ r) = h.
Proof. induction h as [|x h IH]; cbn; [destruct r; reflexivity | f_equal; exact IH]. Qed.
Lemma skipn_len_app (h r : list Z) : skipn (length h) (h ++ r) = r.
Proof. induction h as [|x h IH]; cbn; [reflexivity | exact IH]. Qed.

Lemma slice_prefix h r : len h = 28 -> slice (h ++ r) 0 28 = Ok h.
Proof.
  intros Hl. unfold slice. rewrite len_app.
  assert (E : (28 <=? len h + len r) && (0 <=? 28) = true) by (unfold len in *; lia).
  rewrite E. cbn [Z.to_nat skipn]. f_equal.
  change (Z.to_nat (28 - 0)) with 28%nat.
  assert (Hn : length h = 28%nat) by (unfold len in Hl; lia).
  rewrite <- Hn. apply firstn_len_app.
Qed.

Lemma slice_second h1 h2 r : len h1 = 28 -> len h2 = 28 -> slice (h1 ++ h2 ++ r) 28 56 = Ok h2.
Proof.
  intros H1 H2. unfold slice. rewrite !len_app.
  assert (E : (56 <=? len h1 + (len h2 + len r)) && (28 <=? 56) = true) by (unfold len in *; lia).
  rewrite E. f_equal. change (Z.to_nat (56 - 28)) with 28%nat. change (Z.to_nat 28) with 28%nat.
  assert (Hn1 : length h1 = 28%nat) by (unfold len in H1; lia).
  assert (Hn2 : length h2 = 28%nat) by (unfold len in H2; lia).
  rewrite <- Hn1 at 2. rewrite skipn_len_app.
  rewrite <- Hn2. apply firstn_len_app.
Qed.

Lemma slice_from_28 h r : len h = 28 -> slice_from (h ++ r) 28 = Ok r.
Proof.
  intros H1. unfold slice_from. rewrite len_app.
  assert (E : (28 <=? len h + len r) = true) by (unfold len in *; lia). rewrite E. f_equal.
  change (Z.to_nat 28) with 28%nat.
  assert (Hn1 : length h = 28%nat) by (unfold len in H1; lia).
  rewrite <- Hn1. apply skipn_len_app.
Qed.

Lemma hash_len h : hash_wf h -> len h = 28.
Proof. intros [H _]. unfold len. lia. Qed.

(* ---------------------------------------------------------------- round trip *)
(* parsing tolerates (ignores) trailing bytes, so the round trip is stated with any suffix *)
Lemma addr_bytes_roundtrip_suffix p8 a net r : 0 <= net < 16 -> addr_wf a ->
  addr_network a = Some (network_from net) ->
  from_bytes p8 (to_vec a ++ r) = Ok a.
Proof.
  intros Hn Hw Ha. destruct a as [pl c|n p d|n s]; cbn in Ha; [discriminate| |]; inversion Ha; subst n.
  - pose proof (shelley_typeid_range p d) as Ht.
    destruct (header_facts (shelley_typeid p d) net ltac:(lia) Hn) as (H1 & H2 & H3 & H4 & H5 & H6 & H7).
    cbn [to_vec to_vec_with to_header]. unfold from_bytes. cbn [app bytes_to_address].
    rewrite H2. cbn [addr_wf] in Hw. destruct Hw as [Hp Hd].
    rewrite <- app_assoc.
    destruct p as [h1|h1], d as [h2|h2|x y z|]; cbn [shelley_typeid payment_to_vec delegation_to_vec] in *;
      change (0 * 16) with 0; change (1 * 16) with 16; change (2 * 16) with 32; change (3 * 16) with 48;
      change (4 * 16) with 64; change (5 * 16) with 80; change (6 * 16) with 96; change (7 * 16) with 112;
      cbn [Z.eqb Pos.eqb];
      pose proof (hash_len _ Hp) as L1;
      try (pose proof (hash_len _ Hd) as L2).
    all: try (unfold parse_shelley_hh; rewrite !len_app;
              assert (E : (len h1 + (len h2 + len r) <? 56) = false) by (unfold len in *; lia);
              rewrite E, slice_prefix by exact L1; cbn [bind]; unfold slice_to_hash; rewrite L1; cbn [Z.eqb Pos.eqb bind];
              rewrite slice_second by assumption; cbn [bind]; rewrite L2; cbn [Z.eqb Pos.eqb bind];
              rewrite H7; reflexivity).
    all: try (unfold parse_shelley_ptr; rewrite !len_app;
              destruct Hd as (Hx & Hy & Hz);
              destruct (write_wf x Hx) as [_ Lx];
              assert (E : (len h1 + (len (pointer_to_vec x y z) + len r) <? 29) = false)
                by (unfold pointer_to_vec; rewrite !len_app; unfold len in *; lia);
              rewrite E, slice_prefix by exact L1; cbn [bind]; unfold slice_to_hash; rewrite L1; cbn [Z.eqb Pos.eqb bind];
              rewrite slice_from_28 by exact L1; cbn [bind];
              rewrite pointer_roundtrip_proof by assumption; cbn [bind]; rewrite H7; reflexivity).
    all: try (unfold parse_shelley_h; rewrite !len_app;
              assert (E : (len h1 + (len (@nil Z) + len r) <? 28) = false) by (unfold len in *; cbn; lia);
              rewrite E; cbn [app]; rewrite slice_prefix by exact L1; cbn [bind]; unfold slice_to_hash; rewrite L1;
              cbn [Z.eqb Pos.eqb bind]; rewrite H7; reflexivity).
  - pose proof (stake_typeid_range s) as Ht.
    destruct (header_facts (stake_typeid s) net ltac:(lia) Hn) as (H1 & H2 & H3 & H4 & H5 & H6 & H7).
    cbn [to_vec to_vec_with to_header]. unfold from_bytes. cbn [app bytes_to_address].
    rewrite H2. cbn [addr_wf] in Hw. pose proof (hash_len _ Hw) as L1.
    destruct s as [h|h]; cbn [stake_typeid stake_payload_bytes] in *;
      change (14 * 16) with 224; change (15 * 16) with 240; cbn [Z.eqb Pos.eqb];
      unfold parse_stake; rewrite len_app;
      assert (E : (len h + len r <? 28) = false) by (unfold len in *; lia);
      rewrite E, slice_prefix by exact L1; cbn [bind]; unfold slice_to_hash; rewrite L1; cbn [Z.eqb Pos.eqb bind];
      rewrite H7; reflexivity.
Qed.

Lemma addr_bytes_roundtrip_proof p8 a net : 0 <= net < 16 -> addr_wf a ->
  addr_network a = Some (network_from net) -> from_bytes p8 (to_vec a) = Ok a.
Proof.
  intros. rewrite <- (app_nil_r (to_vec a)). eapply addr_bytes_roundtrip_suffix; eassumption.
Qed.
