//! Boundary-value mutators (shared by c33 / c38): mint quantities at the i64 / u64 boundaries for assets
//! the spent inputs do and do not hold, native scripts with N-of-K thresholds at their boundaries,
//! empty / one-byte addresses on every UTxO path - and a deterministic sweep of them over a fixture.
#![allow(dead_code)]
use super::vc::*;
use pallas_crypto::hash::Hasher;
use pallas_traverse::Era;
use verif_harness::Rng;

fn shelley(s: &Scen) -> bool { s.fam != Fam::Byron }
fn has_mint(s: &Scen) -> bool { shelley(s) && !matches!(s.fam, Fam::AC(Era::Shelley) | Fam::AC(Era::Allegra)) }
fn out_era(s: &Scen) -> Era { match s.fam { Fam::Byron => Era::Byron, Fam::AC(e) => e, Fam::Babbage => Era::Babbage, Fam::Conway => Era::Conway } }
fn key_addr(s: &Scen) -> Vec<u8> {
    for e in &s.utxo { if let Some(o) = parse_out(&e.out) { if o.addr.len() >= 29 && (o.addr[0] >> 4) & 1 == 0 && (o.addr[0] >> 4) < 8 { return o.addr; } } }
    let mut a = vec![0x61]; a.extend_from_slice(&[7u8; 28]); a
}
fn add_entry(s: &mut Scen, r: &mut Rng, o: OutIr) -> (Vec<u8>, u64) {
    let h = r.bytes(32); let ix = r.below(3); let era = out_era(s);
    s.utxo.push(UEntry { byron_key: false, hash: h.clone(), ix, era, out: enc_out(&o) }); (h, ix)
}
pub const MINT_BOUNDS: [i128; 7] = [i64::MIN as i128, i64::MIN as i128 + 1, -1, 1, i64::MAX as i128, i64::MAX as i128 - 1, -(1i128 << 62)];
pub const QTY_BOUNDS: [u64; 7] = [1, (1u64 << 63) - 1, 1u64 << 63, u64::MAX, (1u64 << 63) + 1, u64::MAX - 1, 0];

/// mint `m` of a fresh asset; when `held` is Some(q) a new spent entry holds q of that asset first
pub fn mint_case(s: &mut Scen, r: &mut Rng, m: i128, held: Option<u64>, also_out: Option<u64>) -> bool {
    if !has_mint(s) { return false }
    if m == 0 && s.fam == Fam::Conway { return false }
    let nl = 1 + r.below(3) as usize;
    let (p, n) = (r.bytes(28), r.bytes(nl));
    if let Some(q) = held {
        let legacy = !s.is_post_alonzo();
        let (h, ix) = add_entry(s, r, OutIr { legacy, addr: key_addr(s), coin: 2_000_000, assets: Some(vec![(p.clone(), vec![(n.clone(), q)])]), datum: None, sref: None });
        let (t, mut ins) = s.inputs(); ins.push((h, ix)); s.set_inputs(t, &ins);
    }
    let mut mint = s.get(9).and_then(|x| parse_assets_i(x)).unwrap_or_default();
    mint.push((p.clone(), vec![(n.clone(), m)])); mint.sort();
    s.put(9, enc_assets_i(&mint));
    if let Some(q) = also_out {
        let mut o = s.outputs(); if o.is_empty() { return true }
        let a = o[0].assets.get_or_insert_with(Vec::new); a.push((p, vec![(n, q)])); a.sort(); s.set_outputs(&o);
    }
    true
}
pub fn mint_boundary(s: &mut Scen, r: &mut Rng) -> bool {
    let m = *r.pick(&MINT_BOUNDS);
    let held = if r.chance(2, 3) { Some(*r.pick(&QTY_BOUNDS)) } else { None };
    let out = if r.chance(1, 3) { Some(*r.pick(&QTY_BOUNDS)) } else { None };
    mint_case(s, r, m, held, out)
}
/// u64 boundary quantities / coins in a spent entry and in an output
pub fn qty_boundary(s: &mut Scen, r: &mut Rng) -> bool {
    if !shelley(s) { return false }
    let (p, n) = (r.bytes(28), r.bytes(2));
    let q1 = *r.pick(&QTY_BOUNDS); let q2 = *r.pick(&QTY_BOUNDS);
    let multi = !matches!(s.fam, Fam::AC(Era::Shelley));
    let legacy = !s.is_post_alonzo() || r.chance(1, 3);
    let assets = |q: u64| if multi { Some(vec![(p.clone(), vec![(n.clone(), q)])]) } else { None };
    let coin = if r.chance(1, 2) { *r.pick(&QTY_BOUNDS) } else { 3_000_000 };
    let (h, ix) = add_entry(s, r, OutIr { legacy, addr: key_addr(s), coin, assets: assets(q1), datum: None, sref: None });
    let (t, mut ins) = s.inputs(); ins.push((h, ix)); s.set_inputs(t, &ins);
    let mut o = s.outputs();
    let c2 = if r.chance(1, 2) { *r.pick(&QTY_BOUNDS) } else { 3_000_000 };
    o.push(OutIr { legacy, addr: key_addr(s), coin: c2, assets: assets(q2), datum: None, sref: None });
    s.set_outputs(&o); true
}

// ---------------------------------------------------------------- native scripts
fn ns_sig(h: &[u8]) -> Vec<u8> { c_array(&[c_uint(0), c_bytes(h)]) }
fn ns_all(l: &[Vec<u8>]) -> Vec<u8> { c_array(&[c_uint(1), c_array(l)]) }
fn ns_any(l: &[Vec<u8>]) -> Vec<u8> { c_array(&[c_uint(2), c_array(l)]) }
fn ns_nofk(n: u64, l: &[Vec<u8>]) -> Vec<u8> { c_array(&[c_uint(3), c_uint(n), c_array(l)]) }
fn ns_before(v: u64) -> Vec<u8> { c_array(&[c_uint(4), c_uint(v)]) }
fn ns_after(v: u64) -> Vec<u8> { c_array(&[c_uint(5), c_uint(v)]) }
fn witness_key_hashes(s: &Scen) -> Vec<Vec<u8>> {
    let Some(raw) = s.wget(0) else { return vec![] };
    let (_, rest) = untag(raw);
    arr_items(rest).unwrap_or_default().iter().filter_map(|w| arr_items(w)).filter_map(|p| p.get(0).and_then(|k| as_bytes(k))).map(|k| Hasher::<224>::hash(&k).to_vec()).collect()
}
/// an N-of-K script over `k` sub-scripts of which `sat` are satisfied (signature of a present witness key)
pub fn nofk_script(s: &Scen, r: &mut Rng, n: u64, k: usize, sat: usize) -> Vec<u8> {
    let keys = witness_key_hashes(s);
    let mut subs = vec![];
    for i in 0..k {
        if i < sat && !keys.is_empty() { subs.push(ns_sig(&keys[i % keys.len()])) }
        else { subs.push(match r.below(4) { 0 => ns_sig(&r.bytes(28)), 1 => ns_before(u64::MAX), 2 => ns_after(0), _ => ns_any(&[]) }) }
    }
    ns_nofk(n, &subs)
}
pub fn native_script_inject(s: &mut Scen, r: &mut Rng) -> bool {
    if !shelley(s) { return false }
    let k = r.below(4) as usize; let sat = if k == 0 { 0 } else { r.below(k as u64 + 1) as usize };
    let n = *r.pick(&[0u64, 1, k as u64, k as u64 + 1, u32::MAX as u64, 2]);
    let script = match r.below(5) {
        0 => ns_all(&[nofk_script(s, r, n, k, sat)]),
        1 => ns_any(&[nofk_script(s, r, n, k, sat), ns_all(&[])]),
        _ => nofk_script(s, r, n, k, sat),
    };
    let mut l = s.wget(1).map(|raw| arr_items(untag(raw).1).unwrap_or_default()).unwrap_or_default();
    l.push(script);
    s.wput(1, c_array(&l)); true
}

// ---------------------------------------------------------------- degenerate addresses
fn tiny_addr(r: &mut Rng) -> Vec<u8> { match r.below(5) { 0 | 1 => vec![], 2 => vec![r.byte()], 3 => vec![0x82], _ => vec![0x61, r.byte()] } }
/// a reference / collateral / spent entry (or an output) with an empty or one-byte address
pub fn addr_tiny(s: &mut Scen, r: &mut Rng) -> bool {
    if !shelley(s) { return false }
    let a = tiny_addr(r);
    let legacy = !s.is_post_alonzo() || r.chance(1, 3);
    let which = r.below(4);
    if which == 3 { let mut o = s.outputs(); if o.is_empty() { return false } let i = r.below(o.len() as u64) as usize; o[i].addr = a; s.set_outputs(&o); return true }
    let key = match which { 0 if s.is_post_alonzo() => 18u64, 1 if s.has_scripts_era() => 13u64, _ => 0u64 };
    let (h, ix) = add_entry(s, r, OutIr { legacy, addr: a, coin: 5_000_000, assets: None, datum: None, sref: None });
    let (t, mut l) = s.inlist(key).unwrap_or((false, vec![]));
    l.push((h, ix)); s.put(key, enc_inputs(t, &l)); true
}

// ---------------------------------------------------------------- present-but-empty collections
/// optional collection fields of the body (true) / witness set (false) of the scenario's era: (key, is a map)
pub fn collection_fields(s: &Scen) -> Vec<(bool, u64, bool)> {
    let mut v = vec![(true, 4u64, false), (true, 5, true), (false, 0, false), (false, 1, false), (false, 2, false)];
    if has_mint(s) { v.push((true, 9, true)) }
    if s.has_scripts_era() { v.extend([(true, 13, false), (true, 14, false), (false, 3, false), (false, 4, false), (false, 5, false)]) }
    if s.is_post_alonzo() { v.extend([(true, 18, false), (false, 6, false)]) }
    if s.fam == Fam::Conway { v.extend([(true, 19, true), (true, 20, false), (false, 7, false)]) }
    v
}
/// set one optional collection field to a present-but-empty list / set / map; an empty collateral field
/// gets a Plutus witness script so that the collateral rules are exercised
pub fn set_empty_collection(s: &mut Scen, body: bool, key: u64, map: bool, tagged: bool) {
    let e = if map { c_map(&[]) } else if tagged { c_tag(258, &c_array(&[])) } else { c_array(&[]) };
    if body { s.put(key, e) } else { s.wput(key, e) }
    if body && key == 13 && s.wget(3).is_none() && s.wget(6).is_none() && s.wget(7).is_none() {
        let k = match s.fam { Fam::Conway => 7, Fam::Babbage => 6, _ => 3 };
        s.wput(k, c_array(&[c_bytes(&[0x4d, 1, 0, 0, 0x33, 0x22, 0x22, 0x20, 5, 0x12, 0, 0x12, 0, 0x11])]));
    }
}
pub fn empty_collection(s: &mut Scen, r: &mut Rng) -> bool {
    if !shelley(s) { return false }
    let f = collection_fields(s); let (body, key, map) = *r.pick(&f);
    let tagged = s.fam == Fam::Conway && r.chance(1, 2);
    set_empty_collection(s, body, key, map, tagged); true
}

/// deterministic boundary sweep over one base scenario: (label, scenario)
pub fn sweep(base: &Scen, r: &mut Rng) -> Vec<(String, Scen)> {
    let mut out = vec![];
    if shelley(base) {
        for (body, key, map) in collection_fields(base) {
            for tagged in [false, true] {
                if tagged && (base.fam != Fam::Conway || map) { continue }
                let mut s = clone_scen(base);
                set_empty_collection(&mut s, body, key, map, tagged);
                out.push((format!("sweep-empty({}{}{})", if body { "body" } else { "wit" }, key, if tagged { "-set" } else { "" }), s));
            }
        }
    }
    if has_mint(base) {
        for m in MINT_BOUNDS.iter().take(5) {
            for held in [None, Some(1u64), Some((1u64 << 63) - 1), Some(1u64 << 63), Some(u64::MAX)] {
                let mut s = clone_scen(base);
                if mint_case(&mut s, r, *m, held, None) { out.push((format!("sweep-mint({},{:?})", m, held), s)) }
            }
        }
    }
    if shelley(base) {
        for (n, k, sat) in [(0u64, 1usize, 1usize), (0, 2, 1), (0, 0, 0), (1, 1, 1), (1, 2, 0), (2, 2, 2), (3, 2, 2), (u32::MAX as u64, 2, 2), (2, 3, 1)] {
            let mut s = clone_scen(base);
            let sc = nofk_script(&s, r, n, k, sat);
            let mut l = s.wget(1).map(|raw| arr_items(untag(raw).1).unwrap_or_default()).unwrap_or_default(); l.push(sc); s.wput(1, c_array(&l));
            out.push((format!("sweep-nofk({},{},{})", n, k, sat), s));
        }
        for key in [18u64, 13, 0] {
            if (key == 18 && !base.is_post_alonzo()) || (key == 13 && !base.has_scripts_era()) { continue }
            for a in [vec![], vec![0x61u8]] {
                let mut s = clone_scen(base);
                let legacy = !s.is_post_alonzo();
                let (h, ix) = add_entry(&mut s, r, OutIr { legacy, addr: a.clone(), coin: 5_000_000, assets: None, datum: None, sref: None });
                let (t, mut l) = s.inlist(key).unwrap_or((false, vec![])); l.push((h, ix)); s.put(key, enc_inputs(t, &l));
                out.push((format!("sweep-addr(key{},len{})", key, a.len()), s));
            }
        }
    }
    out
}
