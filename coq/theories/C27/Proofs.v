(* C27 proofs: the promotion-set invariant is preserved by every step of the
   initiator machine, and a peer in the banned set is never connected again. *)
From PV Require Import Lib.Base P2p.Proto P2p.Initiator C27.Model.
Open Scope Z_scope.

(* ------------------------------------------------------------------ sets *)
Lemma mem_In p l : mem p l = true <-> In p l.
Proof.
  unfold mem. rewrite existsb_exists. split.
  - intros [x [Hx E]]. apply Z.eqb_eq in E. subst. exact Hx.
  - intros H. exists p. split; [exact H | apply Z.eqb_refl].
Qed.
Lemma mem_false p l : mem p l = false <-> ~ In p l.
Proof. rewrite <- mem_In. destruct (mem p l); split; congruence. Qed.

Lemma In_sadd x p l : In x (sadd p l) <-> x = p \/ In x l.
Proof.
  unfold sadd. destruct (mem p l) eqn:E.
  - apply mem_In in E. split; [auto | intros [->|H]; auto].
  - rewrite in_app_iff. cbn. split; [intros [H|[H|[]]]; auto | intros [H|H]; auto].
Qed.
Lemma In_srem x p l : In x (srem p l) <-> In x l /\ x <> p.
Proof.
  unfold srem. rewrite filter_In. split; intros [H1 H2]; split; auto.
  - intros ->. rewrite Z.eqb_refl in H2. discriminate.
  - destruct (x =? p) eqn:E; [apply Z.eqb_eq in E; contradiction | reflexivity].
Qed.
Lemma len_nonneg l : 0 <= len l. Proof. unfold len. lia. Qed.
Lemma filter_length_le {A} (f : A -> bool) l : (length (filter f l) <= length l)%nat.
Proof. induction l as [|x r IH]; cbn; [lia|]. destruct (f x); cbn; lia. Qed.
Lemma len_sadd_le p l : len (sadd p l) <= len l + 1.
Proof. unfold sadd, len. destruct (mem p l); [lia|]. rewrite app_length. cbn. lia. Qed.
Lemma len_srem_le p l : len (srem p l) <= len l.
Proof. unfold srem, len. pose proof (filter_length_le (fun q => negb (q =? p)) l). lia. Qed.
Lemma len_srem_in p l : In p l -> len (srem p l) <= len l - 1.
Proof.
  unfold srem, len. induction l as [|x r IH]; [intros []|].
  intros [->|H]; cbn [filter].
  - rewrite Z.eqb_refl. cbn [negb].
    pose proof (filter_length_le (fun q => negb (q =? p)) r). cbn [length]. lia.
  - specialize (IH H). destruct (negb (x =? p)); cbn [length]; lia.
Qed.

(* ------------------------------------------------------------------ promotion sets *)
Definition PInv (c : cfg) (p : promo) : Prop :=
  disjoint (cold p) (warm p) /\ disjoint (cold p) (hot p) /\ disjoint (cold p) (banned p) /\
  disjoint (warm p) (hot p) /\ disjoint (warm p) (banned p) /\ disjoint (hot p) (banned p) /\
  len (warm p) <= max_warm c /\ len (hot p) <= max_hot c /\ total p <= max_peers c.

Lemma Inv_PInv c st : Inv c st <-> PInv c (pr st).
Proof. reflexivity. Qed.

Ltac dj := unfold disjoint in *; cbn [cold warm hot banned] in *;
  intros ? ? ?; repeat match goal with
  | H : In _ (sadd _ _) |- _ => apply In_sadd in H
  | H : In _ (srem _ _) |- _ => apply In_srem in H
  | H : _ /\ _ |- _ => destruct H
  | H : _ \/ _ |- _ => destruct H
  end; subst; try congruence; unfold not in *; eauto.

Lemma PInv_ban_pid c p pr0 : PInv c pr0 -> PInv c (ban_pid p pr0).
Proof.
  intros (D1 & D2 & D3 & D4 & D5 & D6 & L1 & L2 & L3). unfold ban_pid, PInv, total in *. cbn [cold warm hot banned].
  pose proof (len_srem_le p (cold pr0)). pose proof (len_srem_le p (warm pr0)). pose proof (len_srem_le p (hot pr0)).
  repeat split; try lia; dj.
Qed.

Lemma PInv_promote_cold c p pr0 st pr1 st1 :
  PInv c pr0 -> len (warm pr0) < max_warm c -> promote_cold p pr0 st = (pr1, st1) -> PInv c pr1.
Proof.
  intros (D1 & D2 & D3 & D4 & D5 & D6 & L1 & L2 & L3) Hw. unfold promote_cold.
  destruct (mem p (cold pr0)) eqn:E; intros H; inversion H; subst; [|repeat split; assumption].
  apply mem_In in E. unfold PInv, total in *. cbn [cold warm hot banned].
  pose proof (len_srem_in p _ E). pose proof (len_sadd_le p (warm pr0)).
  repeat split; try lia; dj.
Qed.

Lemma PInv_promote_warm c p pr0 st pr1 st1 :
  PInv c pr0 -> len (hot pr0) < max_hot c -> promote_warm p pr0 st = (pr1, st1) -> PInv c pr1.
Proof.
  intros (D1 & D2 & D3 & D4 & D5 & D6 & L1 & L2 & L3) Hw. unfold promote_warm.
  destruct (mem p (warm pr0)) eqn:E; intros H; inversion H; subst; [|repeat split; assumption].
  apply mem_In in E. unfold PInv, total in *. cbn [cold warm hot banned].
  pose proof (len_srem_in p _ E). pose proof (len_sadd_le p (hot pr0)). pose proof (len_srem_le p (warm pr0)).
  repeat split; try lia; dj.
Qed.

Lemma usub_ok cls a b r : usub cls a b = Ok r -> r = a - b /\ b <= a.
Proof. unfold usub. destruct (a <? b) eqn:E; intros H; inversion H. lia. Qed.

Lemma PInv_categorize c p pr0 st pr1 st1 :
  PInv c pr0 -> categorize c p pr0 st = Ok (pr1, st1) -> PInv c pr1.
Proof.
  intros HI. unfold categorize, ban_peer.
  destruct (viol st && negb (mem p (banned pr0))).
  { intros H; inversion H; subst. apply PInv_ban_pid, HI. }
  destruct ((errc st >? max_err c) && negb (mem p (banned pr0))).
  { intros H; inversion H; subst. apply PInv_ban_pid, HI. }
  destruct (usub P_SUB_WARM (max_warm c) (len (warm pr0))) as [rw| |] eqn:E1; cbn [bind]; try discriminate.
  apply usub_ok in E1 as [-> E1].
  destruct ((max_warm c - len (warm pr0) >? 0) && mem p (cold pr0)) eqn:G1.
  { intros H; inversion H as [H']. apply andb_true_iff in G1 as [G1 _].
    eapply PInv_promote_cold; [exact HI | lia | exact H']. }
  destruct (usub P_SUB_HOT (max_hot c) (len (hot pr0))) as [rh| |] eqn:E2; cbn [bind]; try discriminate.
  apply usub_ok in E2 as [-> E2].
  destruct ((max_hot c - len (hot pr0) >? 0) && mem p (warm pr0) && is_init st) eqn:G2.
  { intros H; inversion H as [H']. apply andb_true_iff in G2 as [G2 _]. apply andb_true_iff in G2 as [G2 _].
    eapply PInv_promote_warm; [exact HI | lia | exact H']. }
  intros H; inversion H; subst. exact HI.
Qed.

Lemma PInv_discovered c p pr0 st pr1 st1 :
  PInv c pr0 -> on_peer_discovered c p pr0 st = Ok (pr1, st1) -> PInv c pr1.
Proof.
  intros HI. unfold on_peer_discovered.
  destruct (mem p (banned pr0)) eqn:B.
  { intros H; inversion H; subst. exact HI. }
  apply mem_false in B.
  set (pr' := mkPromo (cold pr0) (srem p (warm pr0)) (srem p (hot pr0)) (banned pr0)).
  assert (HI' : PInv c pr').
  { destruct HI as (D1 & D2 & D3 & D4 & D5 & D6 & L1 & L2 & L3). unfold PInv, total, pr' in *. cbn [cold warm hot banned].
    pose proof (len_srem_le p (warm pr0)). pose proof (len_srem_le p (hot pr0)).
    repeat split; try lia; dj. }
  destruct (usub P_SUB_PEERS (max_peers c) (total pr')) as [rc| |] eqn:E1; cbn [bind]; try discriminate.
  apply usub_ok in E1 as [-> E1].
  destruct (max_peers c - total pr' >? 0) eqn:G; intros H; inversion H; subst; [|exact HI'].
  destruct HI' as (D1 & D2 & D3 & D4 & D5 & D6 & L1 & L2 & L3).
  unfold PInv, total, pr' in *. cbn [cold warm hot banned] in *.
  pose proof (len_sadd_le p (cold pr0)).
  repeat split; try lia; dj.
Qed.

(* the banned set only grows *)
Definition bmono (pr0 pr1 : promo) : Prop := forall x, In x (banned pr0) -> In x (banned pr1).
Lemma bmono_refl pr0 : bmono pr0 pr0. Proof. intros x H; exact H. Qed.
Lemma bmono_trans a b c : bmono a b -> bmono b c -> bmono a c.
Proof. intros H1 H2 x H. apply H2, H1, H. Qed.
Lemma bmono_ban_pid p pr0 : bmono pr0 (ban_pid p pr0).
Proof. intros x H. unfold ban_pid. cbn. apply In_sadd. auto. Qed.

(* categorize: what it does to the banned set and to the peer's tag *)
Definition tgWH (s : pstate) : Prop := tg s = TWarm \/ tg s = THot.

Lemma categorize_spec c p pr0 st pr1 st1 :
  PInv c pr0 -> categorize c p pr0 st = Ok (pr1, st1) ->
  bmono pr0 pr1 /\
  (forall x, x <> p -> In x (banned pr1) -> In x (banned pr0)) /\
  ((tgWH st -> ~ In p (banned pr0)) -> tgWH st1 -> ~ In p (banned pr1)).
Proof.
  intros HI. unfold categorize, ban_peer.
  assert (BAN : (ban_pid p pr0, set_tg TBanned st) = (pr1, st1) ->
     bmono pr0 pr1 /\ (forall x, x <> p -> In x (banned pr1) -> In x (banned pr0)) /\
     ((tgWH st -> ~ In p (banned pr0)) -> tgWH st1 -> ~ In p (banned pr1))).
  { intros H. inversion H; subst. split; [apply bmono_ban_pid|]. split.
    - intros x Hx Hin. unfold ban_pid in Hin. cbn in Hin. apply In_sadd in Hin as [->|Hin]; [contradiction|exact Hin].
    - intros _ [H1|H1]; cbn in H1; discriminate. }
  destruct (viol st && negb (mem p (banned pr0))).
  { intros H; apply BAN; congruence. }
  destruct ((errc st >? max_err c) && negb (mem p (banned pr0))).
  { intros H; apply BAN; congruence. }
  clear BAN. destruct HI as (D1 & D2 & D3 & D4 & D5 & D6 & L1 & L2 & L3).
  destruct (usub P_SUB_WARM (max_warm c) (len (warm pr0))) as [rw| |] eqn:E1; cbn [bind]; try discriminate.
  destruct ((rw >? 0) && mem p (cold pr0)) eqn:G1.
  { apply andb_true_iff in G1 as [_ G1]. unfold promote_cold. rewrite G1. apply mem_In in G1.
    intros H; inversion H; subst. cbn [banned].
    split; [intros x Hx; exact Hx|]. split; [intros; assumption|]. intros _ _. apply D3. exact G1. }
  destruct (usub P_SUB_HOT (max_hot c) (len (hot pr0))) as [rh| |] eqn:E2; cbn [bind]; try discriminate.
  destruct ((rh >? 0) && mem p (warm pr0) && is_init st) eqn:G2.
  { apply andb_true_iff in G2 as [G2 _]. apply andb_true_iff in G2 as [_ G2]. unfold promote_warm. rewrite G2.
    apply mem_In in G2.
    intros H; inversion H; subst. cbn [banned].
    split; [intros x Hx; exact Hx|]. split; [intros; assumption|]. intros _ _. apply D5. exact G2. }
  intros H; inversion H; subst.
  split; [apply bmono_refl|]. split; [intros; assumption|]. intros X Y. exact (X Y).
Qed.

Lemma discovered_banned c p pr0 pr1 s1 :
  on_peer_discovered c p pr0 pnew = Ok (pr1, s1) -> banned pr1 = banned pr0 /\ tg s1 = TCold.
Proof.
  unfold on_peer_discovered. destruct (mem p (banned pr0)).
  { intros H; inversion H; subst. auto. }
  destruct (usub _ _ _) as [rc| |]; cbn [bind]; try discriminate.
  destruct (rc >? 0); intros H; inversion H; subst; cbn [banned]; auto.
Qed.

(* ------------------------------------------------------------------ visitors *)
Definition not_connect (o : output) : Prop := match o with OConnect _ => False | _ => True end.
Definition vgood (f : vst -> outcome vst) : Prop :=
  forall a s out a' s' out', f (a, s, out) = Ok (a', s', out') ->
    tg s' = tg s /\ exists ext, out' = out ++ ext /\ Forall not_connect ext.

Lemma vgood_bind f g : vgood f -> vgood g -> vgood (fun v => x <- f v ;; g x).
Proof.
  intros Hf Hg a s out a' s' out' H. destruct (f (a, s, out)) as [[[a1 s1] out1]| |] eqn:E; cbn [bind] in H; try discriminate.
  apply Hf in E as [T1 [e1 [-> F1]]]. apply Hg in H as [T2 [e2 [-> F2]]].
  split; [congruence|]. exists (e1 ++ e2). split; [rewrite app_assoc; reflexivity | apply Forall_app; auto].
Qed.

Ltac bm H := match type of H with
  | context[match ?x with _ => _ end] => destruct x eqn:?
  | context[if ?x then _ else _] => destruct x eqn:?
  end.
Ltac vg_fin := split; [reflexivity|];
  first [ exists []; split; [symmetry; apply app_nil_r | constructor]
        | eexists; split; [reflexivity | repeat constructor] ].
Ltac vg f := intros a s out a' s' out' H; unfold f, emit, bind in H; repeat bm H; try discriminate;
  inversion H; subst; cbn; vg_fin.

Lemma vg_conn_err p : vgood (v_conn_err p). Proof. vg v_conn_err. Qed.
Lemma vg_hs_connected p : vgood (v_hs_connected p). Proof. vg v_hs_connected. Qed.
Lemma vg_hs_inbound p : vgood (v_hs_inbound p). Proof. vg v_hs_inbound. Qed.
Lemma vg_ka_hk p : vgood (v_ka_hk p). Proof. vg v_ka_hk. Qed.
Lemma vg_disc_hk p : vgood (v_disc_hk p). Proof. vg v_disc_hk. Qed.
Lemma vg_disc_inbound p : vgood (v_disc_inbound p). Proof. vg v_disc_inbound. Qed.
Lemma vg_bf_inbound p : vgood (v_bf_inbound p). Proof. vg v_bf_inbound. Qed.
Lemma vg_bf_hk p : vgood (v_bf_hk p). Proof. vg v_bf_hk. Qed.
Lemma vg_cs_inbound p : vgood (v_cs_inbound p). Proof. vg v_cs_inbound. Qed.
Lemma vg_cs_tagged p : vgood (v_cs_tagged p). Proof. vg v_cs_tagged. Qed.
Lemma vg_cs_hk p : vgood (v_cs_hk p). Proof. vg v_cs_hk. Qed.
Lemma vg_ln_inbound p : vgood (v_ln_inbound p). Proof. vg v_ln_inbound. Qed.
Lemma vg_ln_hk p : vgood (v_ln_hk p). Proof. vg v_ln_hk. Qed.
Lemma vg_lf_inbound p : vgood (v_lf_inbound p). Proof. vg v_lf_inbound. Qed.
Lemma vg_lf_hk p : vgood (v_lf_hk p). Proof. vg v_lf_hk. Qed.
Lemma vg_lf_purge p : vgood (v_lf_purge p). Proof. vg v_lf_purge. Qed.

Lemma needs_connection_tag s : needs_connection s = true -> tgWH s.
Proof. unfold needs_connection, tgWH. destruct (conn s), (tg s); intros H; try discriminate; auto. Qed.

Lemma v_conn_hk_spec p a s out a' s' out' :
  v_conn_hk p (a, s, out) = Ok (a', s', out') ->
  tg s' = tg s /\ exists ext, out' = out ++ ext /\ (forall q, In (OConnect q) ext -> q = p /\ tgWH s).
Proof.
  unfold v_conn_hk. destruct (needs_connection s) eqn:N.
  - apply needs_connection_tag in N.
    destruct (needs_disconnect (set_conn CConnecting s)); intros H; inversion H; subst; (split; [reflexivity|]).
    + exists [OConnect p; ODisconnect p]. split; [rewrite <- app_assoc; reflexivity|].
      intros q [X|[X|[]]]; inversion X; auto.
    + exists [OConnect p]. split; [reflexivity|]. intros q [X|[]]; inversion X; auto.
  - destruct (needs_disconnect s); intros H; inversion H; subst; (split; [reflexivity|]).
    + exists [ODisconnect p]. split; [reflexivity|]. intros q [X|[]]; inversion X.
    + exists []. split; [symmetry; apply app_nil_r|]. intros q [].
Qed.

Lemma vg_hk_tail p : vgood (fun v1 =>
  v2 <- v_ka_hk p v1 ;; v3 <- v_disc_hk p v2 ;; v4 <- v_bf_hk p v3 ;; v5 <- v_cs_hk p v4 ;; v6 <- v_ln_hk p v5 ;; v_lf_hk p v6).
Proof.
  apply vgood_bind; [apply vg_ka_hk|]. apply vgood_bind; [apply vg_disc_hk|]. apply vgood_bind; [apply vg_bf_hk|].
  apply vgood_bind; [apply vg_cs_hk|]. apply vgood_bind; [apply vg_ln_hk|]. apply vg_lf_hk.
Qed.

Lemma not_connect_In q ext : Forall not_connect ext -> ~ In (OConnect q) ext.
Proof. intros F H. rewrite Forall_forall in F. exact (F _ H). Qed.

Lemma hk_rest_spec p a s out a' s' out' :
  hk_rest p (a, s, out) = Ok (a', s', out') ->
  tg s' = tg s /\ exists ext, out' = out ++ ext /\ (forall q, In (OConnect q) ext -> q = p /\ tgWH s).
Proof.
  unfold hk_rest. destruct (v_conn_hk p (a, s, out)) as [[[a1 s1] out1]| |] eqn:E; cbn [bind]; try discriminate.
  apply v_conn_hk_spec in E as [T1 [e1 [-> C1]]]. intros H.
  apply (vg_hk_tail p) in H as [T2 [e2 [-> F2]]].
  split; [congruence|]. exists (e1 ++ e2). split; [rewrite app_assoc; reflexivity|].
  intros q Hq. apply in_app_iff in Hq as [Hq|Hq]; [apply C1, Hq | exfalso; exact (not_connect_In _ _ F2 Hq)].
Qed.

Lemma vg_inbound_rest p : vgood (inbound_rest p).
Proof.
  unfold inbound_rest.
  apply vgood_bind; [apply vg_hs_inbound|]. apply vgood_bind; [apply vg_disc_inbound|]. apply vgood_bind; [apply vg_bf_inbound|].
  apply vgood_bind; [apply vg_cs_inbound|]. apply vgood_bind; [apply vg_ln_inbound|]. apply vg_lf_inbound.
Qed.

(* ------------------------------------------------------------------ the peers map *)
Lemma lookup_insert_eq p s l : lookup p (insert p s l) = Some s.
Proof.
  induction l as [|[q s'] r IH]; cbn [insert lookup]; [rewrite Z.eqb_refl; reflexivity|].
  destruct (q =? p) eqn:E; cbn [lookup]; rewrite E; [reflexivity | exact IH].
Qed.
Lemma lookup_insert_neq p q s l : q <> p -> lookup q (insert p s l) = lookup q l.
Proof.
  intros N. induction l as [|[r s'] l IH]; cbn [insert lookup].
  - destruct (p =? q) eqn:E; [apply Z.eqb_eq in E; congruence | reflexivity].
  - destruct (r =? p) eqn:E; cbn [lookup].
    + apply Z.eqb_eq in E. subst r. destruct (p =? q) eqn:E2; [apply Z.eqb_eq in E2; congruence | reflexivity].
    + destruct (r =? q); [reflexivity | exact IH].
Qed.

(* ------------------------------------------------------------------ the full invariant *)
Definition TagInv (st : ist) : Prop :=
  forall q s, lookup q (peers st) = Some s -> tgWH s -> ~ In q (banned (pr st)).
Definition Good (c : cfg) (st : ist) : Prop := Inv c st /\ TagInv st.

Lemma good_update c st p pr1 a1 s1 :
  Good c st -> PInv c pr1 ->
  (forall x, x <> p -> In x (banned pr1) -> In x (banned (pr st))) ->
  (tgWH s1 -> ~ In p (banned pr1)) ->
  Good c (mkI pr1 a1 (insert p s1 (peers st))).
Proof.
  intros [HI HT] HP HB HS. split; [exact HP|].
  intros q s L W. cbn [peers pr] in *. destruct (Z.eq_dec q p) as [->|N].
  - rewrite lookup_insert_eq in L. inversion L; subst. apply HS, W.
  - rewrite lookup_insert_neq in L by exact N. intros X. apply (HT q s L W). apply HB; assumption.
Qed.

Lemma good_same_pr c st p a1 s1 :
  Good c st -> (tgWH s1 -> ~ In p (banned (pr st))) -> Good c (mkI (pr st) a1 (insert p s1 (peers st))).
Proof. intros G H. apply good_update; [exact G | apply G | intros; assumption | exact H]. Qed.

Lemma good_aux c st a1 : Good c st -> Good c (mkI (pr st) a1 (peers st)).
Proof. intros [HI HT]. split; [exact HI | exact HT]. Qed.

Definition nc (q : Z) (out : list output) : Prop := ~ In (OConnect q) out.
Lemma nc_app q out ext : nc q out -> Forall not_connect ext -> nc q (out ++ ext).
Proof. intros H F X. apply in_app_iff in X as [X|X]; [exact (H X) | exact (not_connect_In _ _ F X)]. Qed.

(* one housekeeping visit *)
Lemma visit_hk_good c st p s out pr1 a1 s1 out1 :
  Good c st -> lookup p (peers st) = Some s ->
  visit_hk c p (pr st) (ax st, s, out) = Ok (pr1, (a1, s1, out1)) ->
  Good c (mkI pr1 a1 (insert p s1 (peers st))) /\ bmono (pr st) pr1 /\
  (forall q, In q (banned (pr st)) -> nc q out -> nc q out1).
Proof.
  intros G L. unfold visit_hk.
  destruct (categorize c p (pr st) s) as [[pr' s']| |] eqn:E; cbn [bind]; try discriminate.
  destruct (hk_rest p (ax st, s', out)) as [[[a2 s2] out2]| |] eqn:E2; cbn [bind]; try discriminate.
  intros H; inversion H; subst. clear H.
  pose proof (categorize_spec _ _ _ _ _ _ (proj1 G) E) as (BM & BO & TG).
  apply hk_rest_spec in E2 as [T [ext [-> CO]]].
  assert (TS : tgWH s1 -> ~ In p (banned pr1)).
  { intros W. apply TG; [intros W0; exact (proj2 G p s L W0) | unfold tgWH in *; rewrite <- T; exact W]. }
  split; [|split].
  - apply good_update; [exact G | eapply PInv_categorize; [apply G | exact E] | exact BO | exact TS].
  - exact BM.
  - intros q Hq N X. apply in_app_iff in X as [X|X]; [exact (N X)|].
    apply CO in X as [-> W]. apply BM in Hq. revert Hq. apply TG; [intros W0; exact (proj2 G p s L W0) | exact W].
Qed.

Lemma hk_loop_good c order : forall st out st' out',
  Good c st -> hk_loop c order (st, out) = Ok (st', out') ->
  Good c st' /\ bmono (pr st) (pr st') /\ (forall q, In q (banned (pr st)) -> nc q out -> nc q out').
Proof.
  induction order as [|p rest IH]; intros st out st' out' G H; cbn [hk_loop] in H.
  - inversion H; subst. split; [exact G|]. split; [apply bmono_refl | auto].
  - destruct (lookup p (peers st)) as [s|] eqn:L; [|apply IH; assumption].
    destruct (visit_hk c p (pr st) (ax st, s, out)) as [[pr1 [[a1 s1] out1]]| |] eqn:E; cbn [bind] in H; try discriminate.
    destruct (visit_hk_good _ _ _ _ _ _ _ _ _ G L E) as (G1 & B1 & N1).
    destruct (IH _ _ _ _ G1 H) as (G2 & B2 & N2). cbn [pr] in *.
    split; [exact G2|]. split; [eapply bmono_trans; eassumption|].
    intros q Hq N. apply N2; [apply B1, Hq | apply N1; assumption].
Qed.

(* one inbound message *)
Lemma on_inbound_good c p st out m st' out' :
  Good c st -> on_inbound c p (st, out) m = Ok (st', out') ->
  Good c st' /\ bmono (pr st) (pr st') /\ (forall q, nc q out -> nc q out').
Proof.
  intros G. unfold on_inbound. destruct (lookup p (peers st)) as [s|] eqn:L.
  2:{ intros H; inversion H; subst. split; [exact G|]. split; [apply bmono_refl | auto]. }
  unfold visit_inbound.
  destruct (categorize c p (pr st) (apply_msg s m)) as [[pr' s']| |] eqn:E; cbn [bind]; try discriminate.
  destruct (inbound_rest p (ax st, s', out)) as [[[a2 s2] out2]| |] eqn:E2; cbn [bind]; try discriminate.
  intros H; inversion H; subst. clear H.
  pose proof (categorize_spec _ _ _ _ _ _ (proj1 G) E) as (BM & BO & TG).
  apply (vg_inbound_rest p) in E2 as [T [ext [-> F]]].
  assert (AT : tg (apply_msg s m) = tg s).
  { unfold apply_msg, via. repeat match goal with |- context[match ?x with _ => _ end] => destruct x end; reflexivity. }
  split; [|split].
  - apply good_update; [exact G | eapply PInv_categorize; [apply G | exact E] | exact BO |].
    intros W. apply TG; [|unfold tgWH in *; rewrite <- T; exact W].
    intros W0. apply (proj2 G p s L). unfold tgWH in *. rewrite <- AT. exact W0.
  - exact BM.
  - intros q N. apply nc_app; assumption.
Qed.

Lemma on_inbound_all_good c p ms : forall st out st' out',
  Good c st -> on_inbound_all c p (st, out) ms = Ok (st', out') ->
  Good c st' /\ bmono (pr st) (pr st') /\ (forall q, nc q out -> nc q out').
Proof.
  induction ms as [|m rest IH]; intros st out st' out' G H; cbn [on_inbound_all] in H.
  - inversion H; subst. split; [exact G|]. split; [apply bmono_refl | auto].
  - destruct (on_inbound c p (st, out) m) as [[st1 out1]| |] eqn:E; cbn [bind] in H; try discriminate.
    destruct (on_inbound_good _ _ _ _ _ _ _ G E) as (G1 & B1 & N1).
    destruct (IH _ _ _ _ G1 H) as (G2 & B2 & N2).
    split; [exact G2|]. split; [eapply bmono_trans; eassumption | auto].
Qed.

(* discovery *)
Lemma on_discovered_good c p st st' :
  Good c st -> on_discovered c p st = Ok st' -> Good c st' /\ banned (pr st') = banned (pr st).
Proof.
  intros G. unfold on_discovered.
  destruct (on_peer_discovered c p (pr st) pnew) as [[pr1 s1]| |] eqn:E; cbn [bind]; try discriminate.
  intros H; inversion H; subst. clear H.
  destruct (discovered_banned _ _ _ _ _ E) as [B T]. cbn [pr]. split; [|exact B].
  apply good_update; [exact G | eapply PInv_discovered; [apply G | exact E] | intros x _ X; rewrite <- B; exact X |].
  intros [W|W]; rewrite T in W; discriminate.
Qed.

Lemma discover_all_good c new : forall st st',
  Good c st -> discover_all c new st = Ok st' -> Good c st' /\ banned (pr st') = banned (pr st).
Proof.
  induction new as [|p rest IH]; intros st st' G H; cbn [discover_all] in H.
  - inversion H; subst. auto.
  - destruct (lookup p (peers st)); [apply IH; assumption|].
    destruct (on_discovered c p st) as [st1| |] eqn:E; cbn [bind] in H; try discriminate.
    destruct (on_discovered_good _ _ _ _ G E) as [G1 B1]. destruct (IH _ _ G1 H) as [G2 B2].
    split; [exact G2 | congruence].
Qed.

Lemma move_discovered_good c dorder st st' :
  Good c st -> move_discovered c dorder st = Ok st' -> Good c st' /\ banned (pr st') = banned (pr st).
Proof.
  intros G. unfold move_discovered.
  destruct (usub _ _ _) as [d| |]; cbn [bind]; try discriminate.
  destruct (d =? 0). { intros H; inversion H; subst; auto. }
  destruct (firstn _ _) as [|x l] eqn:F. { intros H; inversion H; subst; auto. }
  intros H. apply discover_all_good in H; [exact H | apply good_aux, G].
Qed.

Lemma housekeeping_good c order dorder st st' out :
  Good c st -> housekeeping c order dorder st = Ok (st', out) ->
  Good c st' /\ bmono (pr st) (pr st') /\ (forall q, In q (banned (pr st)) -> nc q out).
Proof.
  intros G. unfold housekeeping.
  destruct (hk_loop c _ (st, [])) as [[st1 out1]| |] eqn:E; cbn [bind]; try discriminate.
  destruct (move_discovered c dorder st1) as [st2| |] eqn:E2; cbn [bind]; try discriminate.
  intros H; inversion H; subst. clear H.
  destruct (hk_loop_good _ _ _ _ _ _ G E) as (G1 & B1 & N1).
  destruct (move_discovered_good _ _ _ _ G1 E2) as [G2 B2].
  split; [exact G2|]. split.
  - intros x Hx. rewrite B2. apply B1, Hx.
  - intros q Hq. apply N1; [exact Hq | intros []].
Qed.

(* single-peer events *)
Lemma peer_event_good c st p s (f : vst -> outcome vst) s0 a1 s1 out1 :
  Good c st -> lookup p (peers st) = Some s -> vgood f ->
  (tgWH s0 -> tgWH s) ->
  f (ax st, s0, []) = Ok (a1, s1, out1) ->
  Good c (mkI (pr st) a1 (insert p s1 (peers st))) /\ (forall q, nc q out1).
Proof.
  intros G L F T H. apply F in H as [T1 [ext [-> FE]]]. split.
  - apply good_same_pr; [exact G|]. intros W. apply (proj2 G p s L). apply T. unfold tgWH in *. rewrite <- T1. exact W.
  - intros q. cbn [app]. apply not_connect_In, FE.
Qed.

Lemma apply_msg_tg s m : tg (apply_msg s m) = tg s.
Proof. unfold apply_msg, via. repeat match goal with |- context[match ?x with _ => _ end] => destruct x end; reflexivity. Qed.

Lemma nc_nil q : nc q []. Proof. intros []. Qed.

Lemma on_tagged_good c st p (tagger : pstate -> pstate) st' out :
  Good c st -> (forall s, tgWH (tagger s) -> tgWH s) ->
  on_tagged p tagger st = Ok (st', out) ->
  Good c st' /\ pr st' = pr st /\ (forall q, nc q out).
Proof.
  intros G T. unfold on_tagged. destruct (lookup p (peers st)) as [s|] eqn:L.
  2:{ intros H; inversion H; subst. split; [exact G|]. split; [reflexivity | intros; apply nc_nil]. }
  destruct (v_cs_tagged p (ax st, tagger s, [])) as [[[a1 s1] out1]| |] eqn:E; cbn [bind]; try discriminate.
  intros H; inversion H; subst.
  destruct (peer_event_good c st p s _ _ _ _ _ G L (vg_cs_tagged p) (T s) E) as [G1 N1].
  split; [exact G1|]. split; [reflexivity | exact N1].
Qed.

Lemma ban_good c st p st' out :
  Good c st -> on_tagged p (set_tg TBanned) (mkI (ban_pid p (pr st)) (ax st) (peers st)) = Ok (st', out) ->
  Good c st' /\ bmono (pr st) (pr st') /\ (forall q, nc q out).
Proof.
  intros G. unfold on_tagged. cbn [peers pr ax].
  assert (BO : forall x, x <> p -> In x (banned (ban_pid p (pr st))) -> In x (banned (pr st))).
  { intros x N X. unfold ban_pid in X. cbn [banned] in X. apply In_sadd in X as [->|X]; [contradiction | exact X]. }
  destruct (lookup p (peers st)) as [s|] eqn:L.
  - destruct (v_cs_tagged p (ax st, set_tg TBanned s, [])) as [[[a1 s1] out1]| |] eqn:E; cbn [bind]; try discriminate.
    intros H; inversion H; subst. apply (vg_cs_tagged p) in E as [T [ext [-> F]]]. cbn [tg set_tg] in T.
    split; [|split].
    + apply good_update; [exact G | apply PInv_ban_pid, G | exact BO |].
      intros [W|W]; rewrite T in W; discriminate.
    + cbn [pr]. apply bmono_ban_pid.
    + intros q. cbn [app]. apply not_connect_In, F.
  - intros H; inversion H; subst. split; [|split].
    + split; [apply PInv_ban_pid, G|]. intros q s Lq W X. cbn [pr peers] in *.
      destruct (Z.eq_dec q p) as [->|N]; [congruence|]. exact (proj2 G q s Lq W (BO q N X)).
    + cbn [pr]. apply bmono_ban_pid.
    + intros; apply nc_nil.
Qed.

Theorem step_good c st e st' out :
  Good c st -> step c st e = Ok (st', out) ->
  Good c st' /\ bmono (pr st) (pr st') /\ (forall q, In q (banned (pr st)) -> nc q out).
Proof.
  intros G. destruct e; cbn [step].
  - (* EInclude *)
    destruct (on_discovered c p st) as [st1| |] eqn:E; cbn [bind]; try discriminate.
    intros H; inversion H; subst. destruct (on_discovered_good _ _ _ _ G E) as [G1 B1].
    split; [exact G1|]. split; [intros x Hx; rewrite B1; exact Hx | intros; apply nc_nil].
  - (* EBan *)
    intros H. destruct (ban_good _ _ _ _ _ G H) as (G1 & B1 & N1). auto.
  - (* EDemote *)
    intros H. apply on_tagged_good with (c := c) in H; [|exact G|].
    + destruct H as (G1 & E1 & N1). rewrite E1. split; [exact G1|]. split; [apply bmono_refl | auto].
    + intros s [W|W]; cbn in W; discriminate.
  - (* EHousekeeping *)
    apply housekeeping_good, G.
  - (* EStartSync *)
    intros H; inversion H; subst. split; [apply good_aux, G|]. split; [apply bmono_refl | intros; apply nc_nil].
  - (* EContinueSync *)
    intros H. apply on_tagged_good with (c := c) in H; [|exact G|].
    + destruct H as (G1 & E1 & N1). rewrite E1. split; [exact G1|]. split; [apply bmono_refl | auto].
    + intros s W; exact W.
  - (* ERequestBlocks *)
    intros H; inversion H; subst. split; [apply good_aux, G|]. split; [apply bmono_refl | intros; apply nc_nil].
  - (* ESendTx *)
    intros H; inversion H; subst. split; [exact G|]. split; [apply bmono_refl | intros; apply nc_nil].
  - (* EFetchEb *)
    intros H; inversion H; subst. split; [apply good_aux, G|]. split; [apply bmono_refl | intros; apply nc_nil].
  - (* EFetchEbTxs *)
    intros H; inversion H; subst. split; [apply good_aux, G|]. split; [apply bmono_refl | intros; apply nc_nil].
  - (* EConnected *)
    unfold on_connected. destruct (lookup p (peers st)) as [s|] eqn:L.
    2:{ intros H; inversion H; subst. split; [exact G|]. split; [apply bmono_refl | intros; apply nc_nil]. }
    destruct (v_hs_connected p (ax st, set_conn CConnected s, [])) as [[[a1 s1] out1]| |] eqn:E; cbn [bind]; try discriminate.
    intros H; inversion H; subst.
    destruct (peer_event_good c st p s _ (set_conn CConnected s) _ _ _ G L (vg_hs_connected p) (fun W => W) E) as [G1 N1].
    split; [exact G1|]. split; [apply bmono_refl | auto].
  - (* EDisconnected *)
    unfold on_disconnected. destruct (lookup p (peers st)) as [s|] eqn:L.
    2:{ intros H; inversion H; subst. split; [exact G|]. split; [apply bmono_refl | intros; apply nc_nil]. }
    destruct (v_lf_purge p (ax st, reset (set_conn CDisconnected s), [])) as [[[a1 s1] out1]| |] eqn:E; cbn [bind]; try discriminate.
    intros H; inversion H; subst.
    assert (T : tgWH (reset (set_conn CDisconnected s)) -> tgWH s) by (intros [W|W]; cbn in W; discriminate).
    destruct (peer_event_good c st p s _ _ _ _ _ G L (vg_lf_purge p) T E) as [G1 N1].
    split; [exact G1|]. split; [apply bmono_refl | auto].
  - (* EError *)
    unfold on_errored. destruct (lookup p (peers st)) as [s|] eqn:L.
    2:{ intros H; inversion H; subst. split; [exact G|]. split; [apply bmono_refl | intros; apply nc_nil]. }
    destruct (errc s >=? U32_MAX); try discriminate.
    set (f := fun v => v1 <- v_conn_err p v ;; v_lf_purge p v1).
    destruct (v_conn_err p (ax st, set_errc (errc s + 1) (set_conn CErrored s), [])) as [v1| |] eqn:E1; cbn [bind]; try discriminate.
    destruct (v_lf_purge p v1) as [[[a1 s1] out1]| |] eqn:E2; cbn [bind]; try discriminate.
    intros H; inversion H; subst.
    assert (E : f (ax st, set_errc (errc s + 1) (set_conn CErrored s), []) = Ok (a1, s1, out)).
    { unfold f. rewrite E1. cbn [bind]. exact E2. }
    assert (F : vgood f) by (apply vgood_bind; [apply vg_conn_err | apply vg_lf_purge]).
    destruct (peer_event_good c st p s _ (set_errc (errc s + 1) (set_conn CErrored s)) _ _ _ G L F (fun W => W) E) as [G1 N1].
    split; [exact G1|]. split; [apply bmono_refl | auto].
  - (* ERecv *)
    intros H. destruct (on_inbound_all_good _ _ _ _ _ _ _ G H) as (G1 & B1 & N1).
    split; [exact G1|]. split; [exact B1 | intros q _; apply N1, nc_nil].
  - (* ESent *)
    unfold on_outbound. destruct (lookup p (peers st)) as [s|] eqn:L.
    2:{ intros H; inversion H; subst. split; [exact G|]. split; [apply bmono_refl | intros; apply nc_nil]. }
    intros H; inversion H; subst. split; [|split; [apply bmono_refl | intros; apply nc_nil]].
    apply good_same_pr; [exact G|]. intros W. apply (proj2 G p s L). unfold tgWH in *. rewrite apply_msg_tg in W. exact W.
Qed.

Lemma good_init c : 0 <= max_warm c -> 0 <= max_hot c -> 0 <= max_peers c -> Good c init.
Proof.
  intros H1 H2 H3. split.
  - unfold Inv, init, total, len. cbn. repeat split; try lia; intros x [].
  - intros q s L. cbn in L. discriminate.
Qed.

(* lifting to histories *)
Lemma run_good c : forall evs st st' outs,
  Good c st -> run c st evs = Ok (st', outs) ->
  Good c st' /\ bmono (pr st) (pr st') /\
  (forall q out, In q (banned (pr st)) -> In out outs -> nc q out).
Proof.
  induction evs as [|e rest IH]; intros st st' outs G H; cbn [run] in H.
  - inversion H; subst. split; [exact G|]. split; [apply bmono_refl | intros q out _ []].
  - destruct (step c st e) as [[st1 out1]| |] eqn:E; cbn [bind] in H; try discriminate.
    destruct (run c st1 rest) as [[st2 outs2]| |] eqn:E2; cbn [bind] in H; try discriminate.
    inversion H; subst.
    destruct (step_good _ _ _ _ _ G E) as (G1 & B1 & N1).
    destruct (IH _ _ _ G1 E2) as (G2 & B2 & N2).
    split; [exact G2|]. split; [eapply bmono_trans; eassumption|].
    intros q out Hq [<-|Hin]; [apply N1, Hq | eapply N2; [apply B1, Hq | exact Hin]].
Qed.

Lemma run_app c : forall evs1 evs2 st,
  run c st (evs1 ++ evs2) =
  match run c st evs1 with
  | Ok (st1, o1) => match run c st1 evs2 with Ok (st2, o2) => Ok (st2, o1 ++ o2) | Err e => Err e | Panic q => Panic q end
  | Err e => Err e | Panic q => Panic q
  end.
Proof.
  induction evs1 as [|e r IH]; intros evs2 st; cbn [app run].
  - destruct (run c st evs2) as [[st2 o2]| |]; reflexivity.
  - destruct (step c st e) as [[st1 out1]| |]; cbn [bind]; try reflexivity.
    rewrite IH. destruct (run c st1 r) as [[st2 o2]| |]; cbn [bind]; try reflexivity.
    destruct (run c st2 evs2) as [[st3 o3]| |]; cbn [bind]; reflexivity.
Qed.

(* ban causes reach the banned set *)
Lemma ban_command_in c st p st' out : step c st (EBan p) = Ok (st', out) -> In p (banned (pr st')).
Proof.
  cbn [step]. unfold on_tagged. cbn [peers pr ax].
  assert (X : In p (banned (ban_pid p (pr st)))) by (unfold ban_pid; cbn [banned]; apply In_sadd; auto).
  destruct (lookup p (peers st)).
  - destruct (v_cs_tagged _ _) as [[[a1 s1] out1]| |]; cbn [bind]; try discriminate. intros H; inversion H; subst. exact X.
  - intros H; inversion H; subst. exact X.
Qed.

Lemma categorize_flagged c p pr0 st pr1 st1 :
  PInv c pr0 -> viol st = true \/ errc st > max_err c ->
  categorize c p pr0 st = Ok (pr1, st1) -> In p (banned pr1).
Proof.
  intros HI F H. destruct (mem p (banned pr0)) eqn:M.
  - apply mem_In in M. destruct (categorize_spec _ _ _ _ _ _ HI H) as (BM & _). apply BM, M.
  - revert H. unfold categorize, ban_peer. rewrite M. cbn [negb]. rewrite !andb_true_r.
    destruct (viol st) eqn:V.
    + intros H; inversion H; subst. unfold ban_pid; cbn [banned]. apply In_sadd; auto.
    + destruct F as [F|F]; [discriminate|].
      assert (E : errc st >? max_err c = true) by lia. rewrite E.
      intros H; inversion H; subst. unfold ban_pid; cbn [banned]. apply In_sadd; auto.
Qed.

Lemma violation_in c st p s m st' out :
  Good c st -> lookup p (peers st) = Some s -> viol (apply_msg s m) = true ->
  step c st (ERecv p [m]) = Ok (st', out) -> In p (banned (pr st')).
Proof.
  intros G L V. cbn [step on_inbound_all]. unfold on_inbound. rewrite L. unfold visit_inbound.
  destruct (categorize c p (pr st) (apply_msg s m)) as [[pr' s']| |] eqn:E; cbn [bind]; try discriminate.
  destruct (inbound_rest _ _) as [[[a2 s2] out2]| |]; cbn [bind]; try discriminate.
  intros H; inversion H; subst. cbn [pr]. eapply categorize_flagged; [apply G | left; exact V | exact E].
Qed.
