//! C34: accepted transactions conserve value exactly.
//!
//! Per rule (hook): check_preservation_of_value of Shelley-MA, Alonzo, Babbage, Conway on
//! freely generated (body, UTxO) pairs: balanced mint-and-spend configurations over a small
//! asset universe, then perturbed (quantity +-1, burns of assets absent from the inputs with
//! outputs of 2^64-k, quantities at 2^63 / 2^64-1, sums crossing 2^63 and 2^64, zero
//! quantities, fee +-1, dropped assets).
//! End to end: validate_tx on the fixtures without certificates / withdrawals: UTxO values
//! changed (no re-signing needed), output / fee / mint quantities changed (re-signed);
//! Byron: fee parameters moved around inputs - outputs.
//! Oracle: exact big-integer balance computed by the harness from the final transaction bytes
//! and the UTxO entries (own CBOR walk): ada_in = ada_out + fee and for every asset
//! in + mint = out. An accepted transaction that does not balance is the failing input.
//!
//! case := (kind, era, ins, outs, fee, mint, extra, observed) — see C34/Run.v
mod val_common;
use pallas_codec::minicbor::{self, Decoder};
use pallas_primitives::{alonzo, babbage, conway};
use pallas_traverse::{Era, MultiEraInput, MultiEraOutput};
use pallas_validate::phase1::validate_tx;
use pallas_validate::utils::{MultiEraProtocolParameters as PP, UTxOs, ValidationError};
use std::borrow::Cow;
use std::collections::BTreeMap;
use val_common::mutate::*;
use val_common::*;
use verif_harness::*;

fn era_code(e: EraK) -> i64 { match e { EraK::ShelleyMA => 0, EraK::Alonzo => 1, EraK::Babbage => 2, EraK::Conway => 3, EraK::Byron => 4 } }
fn era_name(e: EraK) -> &'static str { match e { EraK::Alonzo => "alonzo", EraK::Babbage => "babbage", EraK::Conway => "conway", EraK::ShelleyMA => "shelley_ma", EraK::Byron => "byron" } }
fn e(r: Result<(), ValidationError>) -> Result<(), String> { r.map_err(|e| format!("{e:?}")) }
fn class_of(r: &Out<()>) -> i64 {
    match r { Out::Ok(_) => 0, Out::Err(x) => if x.contains("PreservationOfValue") { 1 } else if x.contains("NegativeValue") { 2 } else { 9 }, Out::Panic(_) => -1 }
}

type Triple = (Vec<u8>, Vec<u8>, i128);
/// a value as the harness sees it: coin + asset triples; `explicit_ma`: encoded as [coin, {..}] even when empty
#[derive(Clone, Debug)]
struct Val { coin: u64, assets: Vec<Triple>, explicit_ma: bool }

fn enc_val(v: &Val) -> Vec<u8> {
    if v.assets.is_empty() && !v.explicit_ma { return enc_u64(v.coin); }
    let mut out = vec![0x82];
    out.extend(enc_u64(v.coin));
    out.extend(encode_multiasset(&v.assets));
    out
}
fn parse_val(raw: &[u8]) -> Val {
    let mut d = Decoder::new(raw);
    let is_arr = matches!(d.datatype().unwrap(), minicbor::data::Type::Array | minicbor::data::Type::ArrayIndef);
    Val { coin: value_coin(raw), assets: value_assets(raw), explicit_ma: is_arr }
}

struct Ids { pols: Vec<Vec<u8>>, names: Vec<Vec<u8>> }
impl Ids {
    fn p(&mut self, x: &[u8]) -> usize { if let Some(i) = self.pols.iter().position(|y| y == x) { i + 1 } else { self.pols.push(x.to_vec()); self.pols.len() } }
    fn n(&mut self, x: &[u8]) -> usize { if let Some(i) = self.names.iter().position(|y| y == x) { i + 1 } else { self.names.push(x.to_vec()); self.names.len() } }
}
fn coq_ma(ids: &mut Ids, ts: &[Triple]) -> String {
    let mut pols: Vec<Vec<u8>> = vec![];
    for t in ts { if !pols.contains(&t.0) { pols.push(t.0.clone()); } }
    let items: Vec<String> = pols.iter().map(|p| {
        let xs: Vec<String> = ts.iter().filter(|t| &t.0 == p).map(|t| format!("({},{})", ids.n(&t.1), coq_z(t.2))).collect();
        format!("({},[{}])", ids.p(p), xs.join(";"))
    }).collect();
    format!("[{}]", items.join(";"))
}
fn coq_val(ids: &mut Ids, v: &Val) -> String {
    if v.assets.is_empty() && !v.explicit_ma { format!("(VCoin {})", v.coin) } else { format!("(VMa {} {})", v.coin, coq_ma(ids, &v.assets)) }
}

/// exact balance: None when balanced, Some(description) otherwise
fn imbalance(ins: &[Val], outs: &[Val], fee: u64, mint: &[Triple]) -> Option<String> {
    let ci: i128 = ins.iter().map(|v| v.coin as i128).sum();
    let co: i128 = outs.iter().map(|v| v.coin as i128).sum::<i128>() + fee as i128;
    if ci != co { return Some(format!("ada: spent {} but produced+fee {}", ci, co)); }
    let mut m: BTreeMap<(Vec<u8>, Vec<u8>), i128> = BTreeMap::new();
    for v in ins { for t in &v.assets { *m.entry((t.0.clone(), t.1.clone())).or_insert(0) += t.2; } }
    for t in mint { *m.entry((t.0.clone(), t.1.clone())).or_insert(0) += t.2; }
    for v in outs { for t in &v.assets { *m.entry((t.0.clone(), t.1.clone())).or_insert(0) -= t.2; } }
    for ((p, n), d) in &m { if *d != 0 { return Some(format!("asset {}.{}: spent+minted exceeds produced by {}", hex(p), hex(n), d)); } }
    None
}
fn imbalance_class(ins: &[Val], outs: &[Val], mint: &[Triple]) -> &'static str {
    let held = |t: &Triple| ins.iter().any(|v| v.assets.iter().any(|x| x.0 == t.0 && x.1 == t.1));
    if mint.iter().any(|t| t.2 < 0 && !held(t)) { return "burn-of-asset-absent-from-inputs"; }
    if ins.iter().chain(outs.iter()).any(|v| v.assets.iter().any(|t| t.2 > i64::MAX as i128)) { return "quantity-above-i64-max"; }
    "other"
}

fn utxo_out(era: EraK, v: &Val) -> MultiEraOutput<'static> {
    let mut b = vec![0x82];
    let mut addr = vec![0x61]; addr.extend(vec![0xab; 28]);
    b.extend(enc_bytes(&addr));
    b.extend(enc_val(v));
    let b: &'static [u8] = Box::leak(b.into_boxed_slice());
    let te = match era { EraK::ShelleyMA => Era::Mary, EraK::Alonzo => Era::Alonzo, EraK::Babbage => Era::Babbage, _ => Era::Conway };
    MultiEraOutput::decode(te, b).expect("utxo output")
}
fn utxo_in(hash: &[u8], idx: u64) -> MultiEraInput<'static> {
    let mut h = [0u8; 32]; h.copy_from_slice(hash);
    MultiEraInput::AlonzoCompatible(Box::new(Cow::Owned(alonzo::TransactionInput { transaction_id: h.into(), index: idx })))
}

struct Ctx { oracle_only: bool, n_rule: u64, n_e2e: u64, acc: u64, rej_value: u64, rej_other: u64, undecodable: u64, rule_ok: u64 }

fn run_rule(cx: &mut Ctx, era: EraK, ins: &[Val], outs: &[Val], fee: u64, mint: &Option<Vec<Triple>>, post_alonzo_outs: bool, tag: &str) {
    use pallas_validate::phase1 as p1;
    let mut body = RawMap(vec![]);
    let mut utxos: UTxOs = UTxOs::new();
    let in_items: Vec<Vec<u8>> = ins.iter().enumerate().map(|(i, v)| {
        let mut h = vec![0x11u8; 32]; h[0] = i as u8;
        utxos.insert(utxo_in(&h, i as u64), utxo_out(era, v));
        let mut it = vec![0x82]; it.extend(enc_bytes(&h)); it.extend(enc_u64(i as u64)); it
    }).collect();
    body.set(0, encode_array(false, &in_items));
    let mut addr = vec![0x61]; addr.extend(vec![0xcd; 28]);
    let out_items: Vec<Vec<u8>> = outs.iter().map(|v| {
        if post_alonzo_outs && matches!(era, EraK::Babbage | EraK::Conway) {
            let mut m = RawMap(vec![]); m.set(0, enc_bytes(&addr)); m.set(1, enc_val(v)); m.encode()
        } else { let mut it = vec![0x82]; it.extend(enc_bytes(&addr)); it.extend(enc_val(v)); it }
    }).collect();
    body.set(1, encode_array(false, &out_items));
    body.set(2, enc_u64(fee));
    if era == EraK::ShelleyMA || era == EraK::Alonzo { body.set(3, enc_u64(99_999_999)); }
    if let Some(m) = mint { body.set(9, encode_multiasset(m)); }
    let bb = body.encode();
    let r: Option<Out<()>> = match era {
        EraK::ShelleyMA => minicbor::decode::<alonzo::TransactionBody>(&bb).ok().and_then(|b| {
            let f = fixtures(); let fx = f.iter().find(|x| x.name == "shelley1").unwrap();
            let mut pp = None; (fx.run)(&load_tx(fx), &mut |_m, _u, env, _c| { pp = Some(env.prot_params().clone()); });
            match pp { Some(PP::Shelley(pp)) => Some(guard(|| e(p1::shelley_ma::verif::check_preservation_of_value(&b, &utxos, &0, &0, &0, &Era::Mary, &pp)))), _ => None }
        }),
        EraK::Alonzo => minicbor::decode::<alonzo::TransactionBody>(&bb).ok().map(|b| guard(|| e(p1::alonzo::verif::check_preservation_of_value(&b, &utxos)))),
        EraK::Babbage => minicbor::decode::<babbage::TransactionBody>(&bb).ok().map(|b| guard(|| e(p1::babbage::verif::check_preservation_of_value(&b, &utxos)))),
        _ => minicbor::decode::<conway::TransactionBody>(&bb).ok().map(|b| guard(|| e(p1::conway::verif::check_preservation_of_value(&b, &utxos)))),
    };
    let Some(r) = r else { cx.undecodable += 1; return; };
    let c = class_of(&r);
    cx.n_rule += 1;
    if c == 0 { cx.rule_ok += 1; }
    let mt: Vec<Triple> = mint.clone().unwrap_or_default();
    if c == 0 { if let Some(why) = imbalance(ins, outs, fee, &mt) {
        emit_oracle_fail(&format!("rule:{}:ok-but-unbalanced:{}", era_name(era), imbalance_class(ins, outs, &mt)),
            &format!("check_preservation_of_value({}) = Ok but {}; body={} utxo values={:?}", era_name(era), why, hex(&bb), ins.iter().map(|v| hex(&enc_val(v))).collect::<Vec<_>>()));
    } }
    if c == -1 { if let Out::Panic(p) = &r { emit_sample(&format!("panic in check_preservation_of_value({}): {} body={}", era_name(era), p, hex(&bb))); } }
    if !cx.oracle_only {
        let mut ids = Ids { pols: vec![], names: vec![] };
        let i = coq_list(ins, |v| coq_val(&mut Ids { pols: ids.pols.clone(), names: ids.names.clone() }, v));
        // ids must be consistent across the whole case: number everything first
        for v in ins.iter().chain(outs.iter()) { for t in &v.assets { ids.p(&t.0); ids.n(&t.1); } }
        for t in &mt { ids.p(&t.0); ids.n(&t.1); }
        let _ = i;
        let si: Vec<String> = ins.iter().map(|v| coq_val(&mut ids, v)).collect();
        let so: Vec<String> = outs.iter().map(|v| coq_val(&mut ids, v)).collect();
        let sm = match mint { None => "None".to_string(), Some(m) => format!("(Some {})", coq_ma(&mut ids, m)) };
        emit_case(tag, &format!("(0,{},[{}],[{}],{},{},[],{})", era_code(era), si.join(";"), so.join(";"), fee, sm, coq_z(c)));
    }
}

/// values of the spent UTxO entries (input order), outputs, fee, mint of tx bytes — harness's own walk
fn tx_values(tx: &[u8], utxos: &UTxOs) -> Option<(Vec<Val>, Vec<Val>, u64, Option<Vec<Triple>>)> {
    let body = RawMap::parse(&split(tx).body);
    let mut ins = vec![];
    for it in parse_array(body.get(0)?).1 {
        let mut d = Decoder::new(&it);
        d.array().ok()?;
        let h = d.bytes().ok()?.to_vec();
        let ix = d.u64().ok()?;
        let o = utxos.get(&utxo_in(&h, ix))?;
        ins.push(parse_val(&output_value(&o.encode())));
    }
    let outs: Vec<Val> = body_outputs(&body).iter().map(|o| parse_val(&output_value(o))).collect();
    let mint = body.get(9).map(|b| parse_multiasset(b));
    Some((ins, outs, body_fee(&body), mint))
}

fn run_e2e(cx: &mut Ctx, f: &Fixture, tx: &[u8], rekeyed: bool, utxo_edit: Option<(usize, Val)>, tag: &str, what: &str) {
    let mut res: Option<Out<()>> = None;
    let mut vals = None;
    (f.run)(tx, &mut |metx, utxos, env, cs| {
        let mut u: UTxOs = if rekeyed { rekey_utxos(utxos).expect("rekey") } else { utxos.clone() };
        if let Some((k, v)) = &utxo_edit {
            // replace the value of the k-th input's UTxO entry
            let body = RawMap::parse(&split(tx).body);
            let it = parse_array(body.get(0).unwrap()).1[*k].clone();
            let mut d = Decoder::new(&it); d.array().unwrap();
            let h = d.bytes().unwrap().to_vec(); let ix = d.u64().unwrap();
            let key = utxo_in(&h, ix);
            let old = u.get(&key).expect("input in utxo");
            let era = old.era();
            let nb: &'static [u8] = Box::leak(output_with_value(&old.encode(), &enc_val(v)).into_boxed_slice());
            match MultiEraOutput::decode(era, nb) { Ok(o) => { u.insert(key, o); } Err(_) => { return; } }
        }
        vals = tx_values(tx, &u);
        let env2 = env_with(env, with_fee_size_params(env.prot_params(), 0, 0, 1 << 30));
        res = Some(guard(|| e(validate_tx(metx, 0, &env2, &u, cs))));
    });
    let (Some(r), Some((ins, outs, fee, mint))) = (res, vals) else { cx.undecodable += 1; return; };
    cx.n_e2e += 1;
    let accepted = matches!(r, Out::Ok(_));
    match class_of(&r) { 0 => cx.acc += 1, 1 | 2 => cx.rej_value += 1, _ => cx.rej_other += 1 }
    let mt = mint.clone().unwrap_or_default();
    if accepted { if let Some(why) = imbalance(&ins, &outs, fee, &mt) {
        emit_oracle_fail(&format!("e2e:{}:accepted-but-unbalanced:{}", era_name(f.era), imbalance_class(&ins, &outs, &mt)),
            &format!("validate_tx accepts fixture {} ({}) but {}; utxo values={:?}; tx={}", f.name, what, why, ins.iter().map(|v| hex(&enc_val(v))).collect::<Vec<_>>(), hex(tx)));
    } }
    if let Out::Panic(p) = &r { emit_sample(&format!("panic in validate_tx on fixture {} ({}): {}", f.name, what, p)); }
    if !cx.oracle_only {
        let mut ids = Ids { pols: vec![], names: vec![] };
        let si: Vec<String> = ins.iter().map(|v| coq_val(&mut ids, v)).collect();
        let so: Vec<String> = outs.iter().map(|v| coq_val(&mut ids, v)).collect();
        let sm = match &mint { None => "None".to_string(), Some(m) => format!("(Some {})", coq_ma(&mut ids, m)) };
        emit_case(tag, &format!("(1,{},[{}],[{}],{},{},[],{})", era_code(f.era), si.join(";"), so.join(";"), fee, sm, if accepted { 1 } else { 0 }));
    }
}

fn big(rng: &mut Rng) -> u64 {
    match rng.below(9) {
        0 => 1, 1 => rng.range(1, 1000), 2 => rng.range(1, 1 << 40),
        3 => (1u64 << 62) + rng.below(3), 4 => (1u64 << 63) - 1 - rng.below(2), 5 => (1u64 << 63) + rng.below(2),
        6 => u64::MAX - rng.below(6), 7 => (1u64 << 63) - 5, _ => rng.range(1, 1 << 20),
    }
}
fn split_u(rng: &mut Rng, total: u128, n: usize) -> Vec<u64> {
    let mut rest = total; let mut v = vec![];
    for i in 0..n {
        let left = (n - i - 1) as u128;
        let hi = rest.min(u64::MAX as u128);
        let lo = rest.saturating_sub(left * u64::MAX as u128);
        let x = if left == 0 { hi } else if rng.chance(1, 3) { lo } else if rng.chance(1, 3) { hi } else { lo + (rng.next() as u128) % (hi - lo + 1) };
        v.push(x as u64); rest -= x;
    }
    v
}

fn main() {
    let args = args();
    let mut rng = Rng::new(args.seed);
    let thorough = args.tier == "thorough";
    let mut cx = Ctx { oracle_only: args.oracle_only, n_rule: 0, n_e2e: 0, acc: 0, rej_value: 0, rej_other: 0, undecodable: 0, rule_ok: 0 };
    let pol = |i: u8| vec![i; 28];
    let nam = |i: u8| vec![b'a' + i];
    let eras = [EraK::ShelleyMA, EraK::Alonzo, EraK::Babbage, EraK::Conway];

    // fixed witnesses of the sign-changing casts, every era
    let a = |q: i128| vec![(pol(1), nam(0), q)];
    for era in eras {
        // burn of an asset absent from the inputs against an output of 2^64-5
        run_rule(&mut cx, era, &[Val { coin: 10_000_000, assets: vec![], explicit_ma: false }],
            &[Val { coin: 9_000_000, assets: a((1i128 << 64) - 5), explicit_ma: false }], 1_000_000, &Some(a(-5)), false, "shape-burn-absent");
        // same with a multi-asset input (other asset)
        run_rule(&mut cx, era, &[Val { coin: 10_000_000, assets: vec![(pol(2), nam(1), 7)], explicit_ma: false }],
            &[Val { coin: 9_000_000, assets: vec![(pol(2), nam(1), 7), (pol(1), nam(0), (1i128 << 64) - 5)], explicit_ma: false }], 1_000_000, &Some(a(-5)), false, "shape-burn-absent");
        // 2^64-5 and 5 of one asset spent, nothing of it produced
        run_rule(&mut cx, era, &[Val { coin: 6_000_000, assets: a((1i128 << 64) - 5), explicit_ma: false }, Val { coin: 4_000_000, assets: a(5), explicit_ma: false }],
            &[Val { coin: 9_000_000, assets: vec![], explicit_ma: false }], 1_000_000, &None, false, "shape-u64-as-i64");
        // 2^64-5 and 12 spent, 7 produced: balanced modulo 2^64 only
        run_rule(&mut cx, era, &[Val { coin: 6_000_000, assets: a((1i128 << 64) - 5), explicit_ma: false }, Val { coin: 4_000_000, assets: a(12), explicit_ma: false }],
            &[Val { coin: 9_000_000, assets: a(7), explicit_ma: false }], 1_000_000, &None, false, "shape-u64-as-i64");
        // the same with the small quantity first (the running sum never goes negative)
        run_rule(&mut cx, era, &[Val { coin: 6_000_000, assets: a(12), explicit_ma: false }, Val { coin: 4_000_000, assets: a((1i128 << 64) - 5), explicit_ma: false }],
            &[Val { coin: 9_000_000, assets: a(7), explicit_ma: false }], 1_000_000, &None, false, "shape-u64-as-i64");
        run_rule(&mut cx, era, &[Val { coin: 10_000_000, assets: a(7), explicit_ma: false }],
            &[Val { coin: 5_000_000, assets: a(12), explicit_ma: false }, Val { coin: 4_000_000, assets: a((1i128 << 64) - 5), explicit_ma: false }], 1_000_000, &None, false, "shape-u64-as-i64");
        // produced side: outputs 2^64-5 and 12, 7 spent
        run_rule(&mut cx, era, &[Val { coin: 10_000_000, assets: a(7), explicit_ma: false }],
            &[Val { coin: 5_000_000, assets: a((1i128 << 64) - 5), explicit_ma: false }, Val { coin: 4_000_000, assets: a(12), explicit_ma: false }], 1_000_000, &None, false, "shape-u64-as-i64");
        // 2^63 + 2^63 spent, nothing produced
        run_rule(&mut cx, era, &[Val { coin: 6_000_000, assets: a(1i128 << 63), explicit_ma: false }, Val { coin: 4_000_000, assets: a(1i128 << 63), explicit_ma: false }],
            &[Val { coin: 9_000_000, assets: vec![], explicit_ma: false }], 1_000_000, &None, false, "shape-u64-as-i64");
        // produced side: outputs 2^64-5 and 5, nothing spent
        run_rule(&mut cx, era, &[Val { coin: 10_000_000, assets: vec![], explicit_ma: true }],
            &[Val { coin: 5_000_000, assets: a((1i128 << 64) - 5), explicit_ma: false }, Val { coin: 4_000_000, assets: a(5), explicit_ma: false }], 1_000_000, &None, false, "shape-u64-as-i64");
        // old + mint crossing 2^63 (i64 sum of a u64 >= 2^63)
        run_rule(&mut cx, era, &[Val { coin: 10_000_000, assets: a((1i128 << 63) - 1), explicit_ma: false }],
            &[Val { coin: 9_000_000, assets: a(1i128 << 63), explicit_ma: false }], 1_000_000, &Some(a(1)), false, "shape-mint-crossing-i64");
        run_rule(&mut cx, era, &[Val { coin: 10_000_000, assets: a((1i128 << 63) + 4), explicit_ma: false }],
            &[Val { coin: 9_000_000, assets: a((1i128 << 63) - 1), explicit_ma: false }], 1_000_000, &Some(a(-5)), false, "shape-mint-crossing-i64");
        // ada: inputs of 2^64-5 and 10_000_012 lovelace against 10_000_007 produced + fee (balanced modulo 2^64 only)
        run_rule(&mut cx, era, &[Val { coin: u64::MAX - 4, assets: vec![], explicit_ma: false }, Val { coin: 10_000_012, assets: vec![], explicit_ma: false }],
            &[Val { coin: 9_000_007, assets: vec![], explicit_ma: false }], 1_000_000, &None, false, "shape-ada-wrap");
        run_rule(&mut cx, era, &[Val { coin: 10_000_012, assets: a(3), explicit_ma: false }, Val { coin: u64::MAX - 4, assets: vec![], explicit_ma: false }],
            &[Val { coin: 9_000_007, assets: a(3), explicit_ma: false }], 1_000_000, &None, false, "shape-ada-wrap");
        // produced side: outputs of 2^64-5 and 12 lovelace + fee against 1_000_007 spent
        run_rule(&mut cx, era, &[Val { coin: 1_000_007, assets: vec![], explicit_ma: false }],
            &[Val { coin: u64::MAX - 4, assets: vec![], explicit_ma: false }, Val { coin: 12, assets: vec![], explicit_ma: false }], 1_000_000, &None, false, "shape-ada-wrap");
        // complete burn
        run_rule(&mut cx, era, &[Val { coin: 10_000_000, assets: a(7), explicit_ma: false }],
            &[Val { coin: 9_000_000, assets: vec![], explicit_ma: false }], 1_000_000, &Some(a(-7)), false, "shape-complete-burn");
    }

    for i in 0..args.n {
        let era = eras[rng.below(4) as usize];
        let n_in = rng.range(1, 3) as usize;
        let n_out = rng.range(1, 3) as usize;
        // assets in play
        let mut pairs: Vec<(u8, u8)> = vec![];
        for _ in 0..rng.below(4) { let p = (rng.range(1, 3) as u8, rng.below(3) as u8); if !pairs.contains(&p) { pairs.push(p); } }
        let fee = rng.range(150_000, 2_000_000);
        let coin_total: u128 = if rng.chance(1, 12) { u64::MAX as u128 + rng.below(3) as u128 } else { rng.range(3_000_000, 1 << 45) as u128 };
        let ci = split_u(&mut rng, coin_total, n_in);
        let co = split_u(&mut rng, coin_total.saturating_sub(fee as u128), n_out);
        let mut ins: Vec<Val> = ci.iter().map(|c| Val { coin: *c, assets: vec![], explicit_ma: rng.chance(1, 10) }).collect();
        let mut outs: Vec<Val> = co.iter().map(|c| Val { coin: *c, assets: vec![], explicit_ma: rng.chance(1, 10) }).collect();
        let mut mint: Vec<Triple> = vec![];
        for (p, n) in &pairs {
            // produced total T, minted m, spent T - m
            let t = big(&mut rng) as i128;
            let m: i128 = match rng.below(5) { 0 | 1 => 0, 2 => (rng.range(1, 1000) as i128).min(t), 3 => -(rng.range(1, 1000) as i128), _ => t };
            let spent = t - m;
            if spent < 0 || spent > 2 * (u64::MAX as i128) { continue; }
            if m != 0 { mint.push((pol(*p), nam(*n), m)); }
            if spent > 0 { let parts = split_u(&mut rng, spent as u128, n_in); for (k, q) in parts.iter().enumerate() { if *q > 0 || (era != EraK::Conway && rng.chance(1, 8)) { ins[k].assets.push((pol(*p), nam(*n), *q as i128)); } } }
            if t > 0 { let parts = split_u(&mut rng, t as u128, n_out); for (k, q) in parts.iter().enumerate() { if *q > 0 || (era != EraK::Conway && rng.chance(1, 8)) { outs[k].assets.push((pol(*p), nam(*n), *q as i128)); } } }
        }
        let mut fee2 = fee;
        let mut tag = "balanced";
        if rng.chance(1, 2) {
            tag = "perturbed";
            match rng.below(11) {
                10 => { outs[0].coin = outs[0].coin.saturating_add(fee); tag = "fee-not-deducted"; } // produced = spent, the fee on top
                0 => fee2 = fee + 1,
                1 => fee2 = fee - 1,
                2 => { let k = rng.below(n_out as u64) as usize; outs[k].coin = outs[k].coin.wrapping_add(1); }
                3 => { if let Some(v) = outs.iter_mut().find(|v| !v.assets.is_empty()) { let j = rng.below(v.assets.len() as u64) as usize; v.assets[j].2 += if rng.bool() { 1 } else { -1 }; if v.assets[j].2 < 0 || (v.assets[j].2 == 0 && era == EraK::Conway) { v.assets[j].2 += 2; } } }
                4 => { // burn of an absent asset balanced against 2^64 - k
                    let k = rng.range(1, 9) as i128; let pn = (pol(3), nam(2));
                    mint.push((pn.0.clone(), pn.1.clone(), -k));
                    outs[0].assets.push((pn.0, pn.1, (1i128 << 64) - k)); tag = "burn-absent"; }
                5 => { // one more input-side quantity so that a per-asset total crosses 2^63 / 2^64
                    let pn = (pol(3), nam(1)); let q = if rng.bool() { (1i128 << 64) - 5 } else { 1i128 << 63 };
                    let r = if rng.bool() { 0 } else { rng.range(1, 1000) as i128 };
                    let (ia, ib) = if n_in > 1 && rng.bool() { (1, 0) } else { (0, 1) };
                    ins[ia].assets.push((pn.0.clone(), pn.1.clone(), q));
                    if n_in > 1 { ins[ib].assets.push((pn.0.clone(), pn.1.clone(), (1i128 << 64) - q + r)); } else { mint.push((pn.0.clone(), pn.1.clone(), ((1i128 << 64) - q + r).min(i64::MAX as i128))); }
                    if r > 0 { outs[0].assets.push((pn.0, pn.1, r)); }
                    tag = "wrap-spent"; }
                6 => { let pn = (pol(3), nam(1)); let q = if rng.bool() { (1i128 << 64) - 5 } else { 1i128 << 63 };
                    let r = if rng.bool() { 0 } else { rng.range(1, 1000) as i128 };
                    let (ia, ib) = if n_out > 1 && rng.bool() { (1, 0) } else { (0, 1) };
                    outs[ia].assets.push((pn.0.clone(), pn.1.clone(), q));
                    if n_out > 1 { outs[ib].assets.push((pn.0.clone(), pn.1.clone(), (1i128 << 64) - q + r)); }
                    if r > 0 { ins[0].assets.push((pn.0, pn.1, r)); }
                    tag = "wrap-produced"; }
                7 => { if let Some(v) = outs.iter_mut().find(|v| !v.assets.is_empty()) { v.assets.pop(); } }
                8 if n_in > 1 || n_out > 1 => { // 2^64 more lovelace on one side, spread so that every value stays a u64
                    let side_in = n_in > 1 && (n_out < 2 || rng.bool());
                    let vs: &mut Vec<Val> = if side_in { &mut ins } else { &mut outs };
                    let tot: u128 = vs.iter().map(|v| v.coin as u128).sum::<u128>() + (1u128 << 64);
                    if tot <= vs.len() as u128 * u64::MAX as u128 { let parts = split_u(&mut rng, tot, vs.len()); for (v, c) in vs.iter_mut().zip(parts) { v.coin = c; } tag = "ada-wrap"; } }
                _ => { if let Some(t) = mint.first_mut() { t.2 = -t.2; } else { mint.push((pol(1), nam(0), if rng.bool() { 1 } else { -1 })); } }
            }
        }
        // uniqueness of keys inside each value / the mint
        let dedup = |ts: &mut Vec<Triple>| { let mut seen: Vec<(Vec<u8>, Vec<u8>)> = vec![]; ts.retain(|t| { let k = (t.0.clone(), t.1.clone()); if seen.contains(&k) { false } else { seen.push(k); true } }); };
        for v in ins.iter_mut().chain(outs.iter_mut()) { dedup(&mut v.assets); v.assets.retain(|t| t.2 >= 0 && t.2 <= u64::MAX as i128); }
        dedup(&mut mint); mint.retain(|t| t.2 != 0 && t.2 >= i64::MIN as i128 && t.2 <= i64::MAX as i128);
        let m = if mint.is_empty() { if rng.chance(1, 20) && era != EraK::Conway { Some(vec![]) } else { None } } else { Some(mint) };
        if i < 3 { emit_sample(&format!("rule era={} ins={:?} outs={:?} fee={} mint={:?}", era_name(era), ins.iter().map(|v| hex(&enc_val(v))).collect::<Vec<_>>(), outs.iter().map(|v| hex(&enc_val(v))).collect::<Vec<_>>(), fee2, m.as_ref().map(|m| hex(&encode_multiasset(m))))); }
        run_rule(&mut cx, era, &ins, &outs, fee2, &m, rng.bool(), &format!("rule-{}-{}", era_name(era), tag));
    }

    // ---- end to end
    for f in fixtures().iter() {
        let tx = load_tx(f);
        if f.era == EraK::Byron {
            // Byron: move the fee parameters around inputs - outputs
            let p = split(&tx);
            let size = p.body.len() as u64;
            let (_, items) = parse_array(&p.body);
            let outs: Vec<u64> = parse_array(&items[1]).1.iter().map(|o| { let (_, xs) = parse_array(o); dec_u64(&xs[1]) }).collect();
            let mut ins: Vec<u64> = vec![];
            let mut only_redeem = true;
            (f.run)(&tx, &mut |_m, utxos, _env, _cs| { for o in utxos.values() { ins.push(o.lovelace_amount()); if let Some(b) = o.as_byron() { if let Ok(a) = pallas_addresses::ByronAddress::new(b.address.payload.as_ref(), b.address.crc).decode() { if !matches!(a.addrtype, pallas_addresses::byron::AddrType::Redeem) { only_redeem = false; } } else { only_redeem = false; } } } });
            let bal = ins.iter().map(|x| *x as i128).sum::<i128>() - outs.iter().map(|x| *x as i128).sum::<i128>();
            for mult in [44u64, 1, 0, rng.range(2, 400)] { for d in [-1i128, 0, 1] {
                let summand = bal - (mult as i128 * size as i128) + d;
                if summand < 0 || summand > u64::MAX as i128 { continue; }
                let mut res = None;
                (f.run)(&tx, &mut |metx, utxos, env, cs| {
                    let mut pp = env.prot_params().clone();
                    if let PP::Byron(b) = &mut pp { b.summand = summand as u64; b.multiplier = mult; b.max_tx_size = 1 << 20; }
                    let env2 = env_with(env, pp);
                    res = Some(guard(|| e(validate_tx(metx, 0, &env2, utxos, cs))));
                });
                let r = res.unwrap();
                let accepted = matches!(r, Out::Ok(_));
                cx.n_e2e += 1;
                if accepted { cx.acc += 1 } else { cx.rej_value += 1 }
                let min = mult as i128 * size as i128 + summand;
                if accepted && !only_redeem && bal < min {
                    emit_oracle_fail("e2e:byron:accepted-with-fee-below-minimum", &format!("validate_tx accepts Byron fixture {} with inputs-outputs={} but minimum fee {} (multiplier {} size {} summand {}); tx={}", f.name, bal, min, mult, size, summand, hex(&tx)));
                }
                if !cx.oracle_only {
                    emit_case("e2e-byron-fee", &format!("(2,4,{},{},0,None,[{};{};{};{}],{})", coq_list(&ins, |x| format!("(VCoin {})", x)), coq_list(&outs, |x| format!("(VCoin {})", x)), size, mult, summand, if only_redeem { 1 } else { 0 }, if accepted { 1 } else { 0 }));
                }
            } }
            continue;
        }
        let p = split(&tx);
        let body0 = RawMap::parse(&p.body);
        if body0.get(4).is_some() || body0.get(5).is_some() { continue; } // certificates / withdrawals: outside the property
        let t = format!("e2e-{}", era_name(f.era));
        run_e2e(&mut cx, f, &tx, false, None, &format!("{t}-orig"), "unchanged");
        // (a) UTxO values changed, transaction untouched
        let mut vals = None;
        (f.run)(&tx, &mut |_m, utxos, _e, _c| { vals = tx_values(&tx, utxos); });
        let Some((ins0, _outs0, _fee0, _mint0)) = vals else { continue };
        let pn = (vec![0x77u8; 28], b"x".to_vec());
        for k in 0..ins0.len() {
            let mut edits: Vec<(String, Val)> = vec![];
            let v = &ins0[k];
            edits.push(("input ada + 1".into(), Val { coin: v.coin + 1, ..v.clone() }));
            edits.push(("input ada - 1".into(), Val { coin: v.coin - 1, ..v.clone() }));
            let mut w = v.clone(); w.assets.push((pn.0.clone(), pn.1.clone(), 1)); edits.push(("input carries 1 of an asset nobody receives".into(), w));
            let mut w = v.clone(); w.assets.push((pn.0.clone(), pn.1.clone(), (1i128 << 64) - 1)); edits.push(("input carries 2^64-1 of an asset nobody receives".into(), w));
            if let Some(j) = (0..v.assets.len()).next() { let mut w = v.clone(); w.assets[j].2 += 1; edits.push(("input asset quantity + 1".into(), w)); }
            for (what, nv) in edits { run_e2e(&mut cx, f, &tx, false, Some((k, nv)), &format!("{t}-utxo-edit"), &format!("{what} (input {k})")); }
        }
        // two inputs: 2^64-5 and 5 of an asset nobody receives (sum wraps to 0 through `as i64`)
        if ins0.len() >= 2 {
            // both edits at once need two utxo edits: do the first through the fixture values by chaining
            let mut w0 = ins0[0].clone(); w0.assets.push((pn.0.clone(), pn.1.clone(), (1i128 << 64) - 5));
            let mut w1 = ins0[1].clone(); w1.assets.push((pn.0.clone(), pn.1.clone(), 5));
            run_e2e_two(&mut cx, f, &tx, (0, w0), (1, w1), &format!("{t}-utxo-wrap"), "inputs carry 2^64-5 and 5 of an asset nobody receives");
            let mut w0 = ins0[0].clone(); w0.assets.push((pn.0.clone(), pn.1.clone(), 1i128 << 63));
            let mut w1 = ins0[1].clone(); w1.assets.push((pn.0.clone(), pn.1.clone(), 1i128 << 63));
            run_e2e_two(&mut cx, f, &tx, (0, w0), (1, w1), &format!("{t}-utxo-wrap"), "inputs carry 2^63 and 2^63 of an asset nobody receives");
        }
        // an asset the transaction really moves: input k gets 5 more of it, a later input 2^64-5 (total unchanged modulo 2^64)
        if let Some(k) = (0..ins0.len().saturating_sub(1)).find(|k| !ins0[*k].assets.is_empty()) {
            let t0 = ins0[k].assets[0].clone();
            let mut w0 = ins0[k].clone(); w0.assets[0].2 += 5;
            let mut w1 = ins0[k + 1].clone();
            if !w1.assets.iter().any(|x| x.0 == t0.0 && x.1 == t0.1) {
                w1.assets.push((t0.0.clone(), t0.1.clone(), (1i128 << 64) - 5));
                run_e2e_two(&mut cx, f, &tx, (k, w0), (k + 1, w1), &format!("{t}-utxo-wrap"), "an input carries 5 more and a later input 2^64-5 of an asset the outputs receive");
            }
        }
        // (b) outputs / fee / mint changed, re-signed
        let mut resignable = false;
        let t0 = finish(&p, body0.clone(), RawMap::parse(&p.wits));
        (f.run)(&t0, &mut |metx, utxos, env, cs| { if let Some(u2) = rekey_utxos(utxos) {
            let env2 = env_with(env, with_fee_size_params(env.prot_params(), 0, 0, 1 << 30));
            resignable = matches!(guard(|| e(validate_tx(metx, 0, &env2, &u2, cs))), Out::Ok(_)); } });
        if !resignable { continue; }
        run_e2e(&mut cx, f, &t0, true, None, &format!("{t}-resigned"), "re-keyed and re-signed, otherwise unchanged");
        let outs = body_outputs(&body0);
        let fee = body_fee(&body0);
        let rounds = if thorough { 30 } else { 6 };
        let mut muts: Vec<(String, RawMap)> = vec![];
        let with_out = |k: usize, v: &Val| { let mut o = outs.clone(); o[k] = output_with_value(&outs[k], &enc_val(v)); let mut b = body0.clone(); b.set(1, encode_array(false, &o)); b };
        for k in 0..outs.len() {
            let v = parse_val(&output_value(&outs[k]));
            muts.push((format!("output {k} ada + 1"), with_out(k, &Val { coin: v.coin + 1, ..v.clone() })));
            muts.push((format!("output {k} ada - 1"), with_out(k, &Val { coin: v.coin - 1, ..v.clone() })));
            { let mut b = with_out(k, &Val { coin: v.coin - 1, ..v.clone() }); b.set(2, enc_u64(fee + 1)); muts.push((format!("output {k} ada - 1, fee + 1 (balanced)"), b)); }
            { let mut w = v.clone(); w.assets.push((pn.0.clone(), pn.1.clone(), (1i128 << 64) - 5)); muts.push((format!("output {k} receives 2^64-5 of an asset nobody holds"), with_out(k, &w))); }
            if !v.assets.is_empty() { let mut w = v.clone(); w.assets[0].2 += 1; muts.push((format!("output {k} asset quantity + 1"), with_out(k, &w)));
                let mut w = v.clone(); w.assets.remove(0); w.explicit_ma = true; muts.push((format!("output {k} loses an asset"), with_out(k, &w))); }
        }
        { let mut b = body0.clone(); b.set(2, enc_u64(fee + 1)); muts.push(("fee + 1".into(), b)); }
        { let mut b = body0.clone(); b.set(2, enc_u64(fee - 1)); muts.push(("fee - 1".into(), b)); }
        if let Some(mb) = body0.get(9) {
            let m0 = parse_multiasset(mb);
            for j in 0..m0.len() { for d in [1i128, -1] {
                let mut m = m0.clone(); m[j].2 += d; if m[j].2 == 0 { continue; }
                let mut b = body0.clone(); b.set(9, encode_multiasset(&m)); muts.push((format!("mint quantity {j} {:+}", d), b));
            } }
            // burn of a new asset name under the fixture's policy, balanced against 2^64-5 in an output
            let mut m = m0.clone(); m.push((m0[0].0.clone(), b"zz".to_vec(), -5));
            let v = parse_val(&output_value(&outs[0])); let mut w = v.clone(); w.assets.push((m0[0].0.clone(), b"zz".to_vec(), (1i128 << 64) - 5));
            let mut b = with_out(0, &w); b.set(9, encode_multiasset(&m)); muts.push(("burn 5 of an asset nobody holds, output 0 receives 2^64-5 of it".into(), b));
        }
        for _ in 0..rounds {
            let k = rng.below(outs.len() as u64) as usize;
            let v = parse_val(&output_value(&outs[k]));
            let d = match rng.below(4) { 0 => 1i128, 1 => -1, 2 => rng.range(1, 1 << 30) as i128, _ => -(rng.range(1, 1 << 20) as i128) };
            let nc = v.coin as i128 + d; if nc < 0 || nc > u64::MAX as i128 { continue; }
            let mut b = with_out(k, &Val { coin: nc as u64, ..v.clone() });
            let balanced = rng.bool() && (fee as i128 - d) > 0;
            if balanced { b.set(2, enc_u64((fee as i128 - d) as u64)); }
            muts.push((format!("output {k} ada {:+}{}", d, if balanced { ", fee adjusted (balanced)" } else { "" }), b));
        }
        for (what, b) in muts {
            let txm = finish(&p, b, RawMap::parse(&p.wits));
            let tg = if what.contains("balanced") { "balanced" } else if what.contains("2^64") { "big-quantity" } else if what.contains("mint") || what.contains("burn") { "mint" } else { "unbalanced" };
            run_e2e(&mut cx, f, &txm, true, None, &format!("{t}-{tg}"), &what);
        }
    }
    emit_stat("rule_cases", cx.n_rule);
    emit_stat("rule_ok", cx.rule_ok);
    emit_stat("e2e_cases", cx.n_e2e);
    emit_stat("e2e_accepted", cx.acc);
    emit_stat("e2e_rejected_value_rules", cx.rej_value);
    emit_stat("e2e_rejected_other", cx.rej_other);
    emit_stat("undecodable_skipped", cx.undecodable);
}

/// two UTxO entries edited at once
fn run_e2e_two(cx: &mut Ctx, f: &Fixture, tx: &[u8], e0: (usize, Val), e1: (usize, Val), tag: &str, what: &str) {
    let mut res: Option<Out<()>> = None;
    let mut vals = None;
    (f.run)(tx, &mut |metx, utxos, env, cs| {
        let mut u: UTxOs = utxos.clone();
        for (k, v) in [&e0, &e1] {
            let body = RawMap::parse(&split(tx).body);
            let it = parse_array(body.get(0).unwrap()).1[*k].clone();
            let mut d = Decoder::new(&it); d.array().unwrap();
            let h = d.bytes().unwrap().to_vec(); let ix = d.u64().unwrap();
            let key = utxo_in(&h, ix);
            let old = u.get(&key).expect("input in utxo");
            let era = old.era();
            let nb: &'static [u8] = Box::leak(output_with_value(&old.encode(), &enc_val(v)).into_boxed_slice());
            match MultiEraOutput::decode(era, nb) { Ok(o) => { u.insert(key, o); } Err(_) => return }
        }
        vals = tx_values(tx, &u);
        let env2 = env_with(env, with_fee_size_params(env.prot_params(), 0, 0, 1 << 30));
        res = Some(guard(|| e(validate_tx(metx, 0, &env2, &u, cs))));
    });
    let (Some(r), Some((ins, outs, fee, mint))) = (res, vals) else { cx.undecodable += 1; return; };
    cx.n_e2e += 1;
    let accepted = matches!(r, Out::Ok(_));
    match class_of(&r) { 0 => cx.acc += 1, 1 | 2 => cx.rej_value += 1, _ => cx.rej_other += 1 }
    let mt = mint.clone().unwrap_or_default();
    if accepted { if let Some(why) = imbalance(&ins, &outs, fee, &mt) {
        emit_oracle_fail(&format!("e2e:{}:accepted-but-unbalanced:{}", era_name(f.era), imbalance_class(&ins, &outs, &mt)),
            &format!("validate_tx accepts fixture {} ({}) but {}; utxo values={:?}; tx={}", f.name, what, why, ins.iter().map(|v| hex(&enc_val(v))).collect::<Vec<_>>(), hex(tx)));
    } }
    if !cx.oracle_only {
        let mut ids = Ids { pols: vec![], names: vec![] };
        let si: Vec<String> = ins.iter().map(|v| coq_val(&mut ids, v)).collect();
        let so: Vec<String> = outs.iter().map(|v| coq_val(&mut ids, v)).collect();
        let sm = match &mint { None => "None".to_string(), Some(m) => format!("(Some {})", coq_ma(&mut ids, m)) };
        emit_case(tag, &format!("(1,{},[{}],[{}],{},{},[],{})", era_code(f.era), si.join(";"), so.join(";"), fee, sm, if accepted { 1 } else { 0 }));
    }
}
