(* C04 model: the range-restricted numeric wrappers of pallas-codec/src/utils.rs
   (NonZeroInt, PositiveCoin) and the places of pallas-primitives' Conway model
   that embed them (Value, Mint = Multiasset<NonZeroInt>, the donation field type
   Option<PositiveCoin>), transcribed over the shared minicbor model (Cbor/Api.v).
   Numbers are Z; the u64 / i64 ranges are enforced by d_u64 / d_i64 exactly as
   minicbor does (overflow error). *)
From PV Require Import Lib.Base Cbor.Item Cbor.Enc Cbor.Dec Cbor.HeadLaws Cbor.Api.
Open Scope Z_scope.

(* impl Decode for NonZeroInt: let n: i64 = d.decode_with(ctx)?; if n == 0 { Err } else { Ok(Self(n)) } *)
Definition dec_nonzero_int (bs : list Z) : dres (Z * list Z) :=
  dbind (d_i64 bs) (fun '(n, r) => if n =? 0 then DErr else DOk (n, r)).

(* impl Decode for PositiveCoin (hand-written since the `fix:` commit; before it the derived
   #[cbor(transparent)] decoder was plain u64::decode and accepted 0):
     let n: u64 = d.decode_with(ctx)?; if n == 0 { Err } else { Ok(Self(n)) } *)
Definition dec_positive_coin (bs : list Z) : dres (Z * list Z) :=
  dbind (d_u64 bs) (fun '(n, r) => if n =? 0 then DErr else DOk (n, r)).

(* the decoder of the tree before the repair, kept for the record of the defect *)
Definition dec_positive_coin_before_fix (bs : list Z) : dres (Z * list Z) := d_u64 bs.

(* Encode: NonZeroInt -> e.encode(self.0) (i64); PositiveCoin -> transparent u64 *)
Definition enc_nonzero_int (n : Z) : list Z := e_int n.
Definition enc_positive_coin (n : Z) : list Z := e_uint n.

(* checked constructors: TryFrom<u64> for PositiveCoin, TryFrom<i64> for NonZeroInt *)
Definition positive_coin_try_from (v : Z) : option Z := if v =? 0 then None else Some v.
Definition nonzero_int_try_from (v : Z) : option Z := if v =? 0 then None else Some v.

(* the declared ranges (utils.rs doc comments / Conway CDDL):
   positive_coin = 1 .. 18446744073709551615
   nonZeroInt64  = -9223372036854775808 .. -1 / 1 .. 9223372036854775807 *)
Definition inv_positive_coin (v : Z) : Prop := 1 <= v <= 18446744073709551615.
Definition inv_nonzero_int (v : Z) : Prop :=
  -9223372036854775808 <= v <= 9223372036854775807 /\ v <> 0.

(* ---- embedding types ---- *)
(* Hash<28>::decode: d.bytes()? then length check *)
Definition dec_hash28 (bs : list Z) : dres (list Z * list Z) :=
  dbind (d_bytes bs) (fun '(b, r) => if len b =? 28 then DOk (b, r) else DErr).
(* AssetName = Bytes (transparent ByteVec): d.bytes() *)
Definition dec_asset_name (bs : list Z) : dres (list Z * list Z) := d_bytes bs.

(* Multiasset<A> = BTreeMap<PolicyId, BTreeMap<AssetName, A>> *)
Definition multiasset : Type := list (list Z * list (list Z * Z)).
Definition dec_multiasset (dq : list Z -> dres (Z * list Z)) (bs : list Z) : dres (multiasset * list Z) :=
  d_btreemap bytes_cmp dec_hash28 (d_btreemap bytes_cmp dec_asset_name dq) bs.

(* conway::Mint *)
Definition dec_mint := dec_multiasset dec_nonzero_int.

(* conway::Value via codec_by_datatype!:
     Array => { d.array()?; Multiasset(coin: u64, multi: Multiasset<PositiveCoin>) }
     U8 | U16 | U32 | U64 => Coin(u64)
     _ => Err *)
Inductive value : Type :=
| VCoin (c : Z)
| VMulti (c : Z) (m : multiasset).

Definition is_uint_type (t : ctype) : bool :=
  ctype_eqb t TU8 || ctype_eqb t TU16 || ctype_eqb t TU32 || ctype_eqb t TU64.

Definition dec_value (bs : list Z) : dres (value * list Z) :=
  dbind (d_datatype bs) (fun t =>
    if ctype_eqb t TArray then
      dbind (d_array bs) (fun '(_, r0) =>
      dbind (d_u64 r0) (fun '(c, r1) =>
      dbind (dec_multiasset dec_positive_coin r1) (fun '(m, r2) => DOk (VMulti c m, r2))))
    else if is_uint_type t then dbind (d_u64 bs) (fun '(c, r) => DOk (VCoin c, r))
    else DErr).

(* the type of TransactionBody.donation: Option<PositiveCoin> *)
Definition dec_donation := d_option dec_positive_coin.

(* all quantities of a multiasset *)
Definition quantities (m : multiasset) : list Z := flat_map (fun pa => map snd (snd pa)) m.
Definition value_quantities (v : value) : list Z :=
  match v with VCoin _ => [] | VMulti _ m => quantities m end.
