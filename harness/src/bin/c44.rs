//! C44: UTxO RPC mapping preserves ledger content (both schema versions).
//! Cases:
//!   CDatum ver pdata udata     generated Plutus data through Mapper::map_plutus_datum
//!   CU64 ver v ubig            u64_to_bigint through the public map_withdrawals
//!   CTx ver rtx mtx            every tx of every block in /repo/test_data through Mapper::map_tx
//! Oracle (independent of the model): integer value of every mapped big integer equals the
//! source value; structure and bytes of datums preserved; tx hash/inputs/outputs/fee/validity
//! read back from the u5c struct equal those taken from the decoded tx.
use pallas_codec::utils::{Int, KeyValuePairs, MaybeIndefArray};
use pallas_primitives::alonzo::{BigInt, BoundedBytes, Constr, PlutusData};
use pallas_traverse::{MultiEraBlock, MultiEraTx};
use pallas_utxorpc::{LedgerContext, TxoRef, UtxoMap};
use verif_harness::*;

#[derive(Clone)]
struct NoLedger;
impl LedgerContext for NoLedger {
    fn get_utxos(&self, _refs: &[TxoRef]) -> Option<UtxoMap> { None }
    fn get_slot_timestamp(&self, _slot: u64) -> Option<u64> { None }
}

// ---------- generated Plutus data ----------
fn gen_int(rng: &mut Rng) -> i128 {
    let two64: i128 = 1i128 << 64;
    match rng.below(10) {
        0 => rng.below(100) as i128 - 50,
        1 => (i64::MAX as i128) + rng.below(4) as i128 - 1,
        2 => (i64::MIN as i128) - rng.below(4) as i128 + 1,
        3 => two64 - 1 - rng.below(3) as i128,
        4 => -two64 + rng.below(3) as i128,
        5 => rng.edge_u64() as i128,
        6 => -(rng.edge_u64() as i128) - 1,
        7 => (u32::MAX as i128) + rng.below(3) as i128 - 1,
        8 => (rng.next() as i128) | (1i128 << 63),
        _ => -((rng.next() as i128) | (1i128 << 63)) - 1,
    }
}

fn gen_bytes(rng: &mut Rng) -> Vec<u8> {
    let len = match rng.below(6) { 0 => 0, 1 => 1, 2 => 8, 3 => 9, 4 => rng.below(70) as usize, _ => rng.below(12) as usize };
    let mut v = rng.bytes(len);
    if !v.is_empty() && rng.chance(1, 4) { v[0] = 0; } // leading zero
    v
}

fn gen_data(rng: &mut Rng, depth: u32) -> PlutusData {
    let k = if depth == 0 { 3 + rng.below(2) } else { rng.below(5) };
    match k {
        0 => {
            let tag = match rng.below(4) { 0 => 121 + rng.below(7), 1 => 1280 + rng.below(121), 2 => 102, _ => 121 };
            let anyc = if tag == 102 { Some(rng.edge_u64()) } else if rng.chance(1, 8) { Some(0) } else { None };
            let n = rng.below(4) as usize;
            let fields: Vec<PlutusData> = (0..n).map(|_| gen_data(rng, depth - 1)).collect();
            let fields = if rng.bool() { MaybeIndefArray::Def(fields) } else { MaybeIndefArray::Indef(fields) };
            PlutusData::Constr(Constr { tag, any_constructor: anyc, fields })
        }
        1 => {
            let n = rng.below(4) as usize;
            let kvs: Vec<(PlutusData, PlutusData)> = (0..n).map(|_| (gen_data(rng, depth - 1), gen_data(rng, depth - 1))).collect();
            PlutusData::Map(if rng.bool() { KeyValuePairs::Def(kvs) } else { KeyValuePairs::Indef(kvs) })
        }
        2 => {
            let n = rng.below(4) as usize;
            let xs: Vec<PlutusData> = (0..n).map(|_| gen_data(rng, depth - 1)).collect();
            PlutusData::Array(if rng.bool() { MaybeIndefArray::Def(xs) } else { MaybeIndefArray::Indef(xs) })
        }
        3 => {
            match rng.below(4) {
                0 => PlutusData::BigInt(BigInt::BigUInt(BoundedBytes::from(gen_bytes(rng)))),
                1 => PlutusData::BigInt(BigInt::BigNInt(BoundedBytes::from(gen_bytes(rng)))),
                _ => {
                    let v = gen_int(rng);
                    let mi = minicbor::data::Int::try_from(v).expect("in cbor int range");
                    PlutusData::BigInt(BigInt::Int(Int(mi)))
                }
            }
        }
        _ => PlutusData::BoundedBytes(BoundedBytes::from(gen_bytes(rng))),
    }
}

fn p_term(d: &PlutusData) -> String {
    match d {
        PlutusData::Constr(c) => format!("(PConstr {} {} {})", c.tag, coq_opt(&c.any_constructor, |v| v.to_string()),
            coq_list(&c.fields.clone().to_vec(), p_term)),
        PlutusData::Map(kvs) => format!("(PMap {})", coq_list(&kvs.clone().to_vec(), |(k, v)| format!("({},{})", p_term(k), p_term(v)))),
        PlutusData::Array(xs) => format!("(PArr {})", coq_list(&xs.clone().to_vec(), p_term)),
        PlutusData::BigInt(BigInt::Int(i)) => format!("(PBig (PInt {}))", coq_z(i128::from(i.0))),
        PlutusData::BigInt(BigInt::BigUInt(b)) => format!("(PBig (PBigU {}))", coq_bytes(b)),
        PlutusData::BigInt(BigInt::BigNInt(b)) => format!("(PBig (PBigN {}))", coq_bytes(b)),
        PlutusData::BoundedBytes(b) => format!("(PBytes {})", coq_bytes(b)),
    }
}

/// semantic value used by the oracle: structure + exact integers
#[derive(PartialEq, Debug, Clone)]
enum Sem { Constr(u64, u64, Vec<Sem>), Map(Vec<(Sem, Sem)>), Arr(Vec<Sem>), Int(bool, Vec<u8>), Bytes(Vec<u8>) }

fn norm_mag(mut m: Vec<u8>) -> Vec<u8> { while m.first() == Some(&0) { m.remove(0); } m }
// integers as (negative?, magnitude bytes) with value = if neg { -1 - mag } else { mag }
fn sem_i128(v: i128) -> Sem {
    if v >= 0 { Sem::Int(false, norm_mag((v as u128).to_be_bytes().to_vec())) }
    else { Sem::Int(true, norm_mag(((-1 - v) as u128).to_be_bytes().to_vec())) }
}
fn p_sem(d: &PlutusData) -> Sem {
    match d {
        PlutusData::Constr(c) => Sem::Constr(c.tag, c.any_constructor.unwrap_or(0), c.fields.iter().map(p_sem).collect()),
        PlutusData::Map(kvs) => Sem::Map(kvs.iter().map(|(k, v)| (p_sem(k), p_sem(v))).collect()),
        PlutusData::Array(xs) => Sem::Arr(xs.iter().map(p_sem).collect()),
        PlutusData::BigInt(BigInt::Int(i)) => sem_i128(i128::from(i.0)),
        PlutusData::BigInt(BigInt::BigUInt(b)) => Sem::Int(false, norm_mag(b.to_vec())),
        PlutusData::BigInt(BigInt::BigNInt(b)) => Sem::Int(true, norm_mag(b.to_vec())),
        PlutusData::BoundedBytes(b) => Sem::Bytes(b.to_vec()),
    }
}

struct RawTx { hash: Vec<u8>, inputs: Vec<(Vec<u8>, u64)>, outputs: Vec<(Vec<u8>, u64, Vec<(Vec<u8>, Vec<(Vec<u8>, u64)>)>)>, fee: u64, start: u64, ttl: u64, ok: bool }

fn raw_of(tx: &MultiEraTx) -> RawTx {
    RawTx {
        hash: tx.hash().to_vec(),
        inputs: tx.inputs().iter().map(|i| (i.hash().to_vec(), i.index())).collect(),
        outputs: tx.outputs().iter().map(|o| (
            o.address().map(|a| a.to_vec()).unwrap_or_default(),
            o.value().coin(),
            o.value().assets().iter().map(|pa| (pa.policy().to_vec(),
                pa.assets().iter().map(|a| (a.name().to_vec(), a.output_coin().unwrap_or(0))).collect())).collect(),
        )).collect(),
        fee: tx.fee().unwrap_or_default(),
        start: tx.validity_start().unwrap_or_default(),
        ttl: tx.ttl().unwrap_or_default(),
        ok: tx.is_valid(),
    }
}
fn raw_term(r: &RawTx) -> String {
    format!("(mk_rtx {} {} {} {} {} {} {})", coq_bytes(&r.hash),
        coq_list(&r.inputs, |(h, i)| format!("({},{})", coq_bytes(h), i)),
        coq_list(&r.outputs, |(a, c, ma)| format!("({},{},{})", coq_bytes(a), c,
            coq_list(ma, |(p, xs)| format!("({},{})", coq_bytes(p), coq_list(xs, |(n, q)| format!("({},{})", coq_bytes(n), q)))))),
        r.fee, r.start, r.ttl, coq_bool(r.ok))
}

macro_rules! version {
    ($modname:ident, $ver:expr, $path:ident, $qty:expr) => {
        mod $modname {
            use super::*;
            use pallas_utxorpc::$path::spec::cardano as u5c;
            use pallas_utxorpc::$path::Mapper;

            pub fn big_term(b: &Option<u5c::BigInt>) -> String {
                match b.as_ref().and_then(|b| b.big_int.as_ref()) {
                    None => "UNone".into(),
                    Some(u5c::big_int::BigInt::Int(v)) => format!("(UInt {})", coq_z(*v)),
                    Some(u5c::big_int::BigInt::BigUInt(bs)) => format!("(UBigU {})", coq_bytes(&bs.to_vec())),
                    Some(u5c::big_int::BigInt::BigNInt(bs)) => format!("(UBigN {})", coq_bytes(&bs.to_vec())),
                }
            }
            pub fn big_sem(b: &Option<u5c::BigInt>) -> Option<Sem> {
                match b.as_ref().and_then(|b| b.big_int.as_ref()) {
                    None => None,
                    Some(u5c::big_int::BigInt::Int(v)) => Some(sem_i128(*v as i128)),
                    Some(u5c::big_int::BigInt::BigUInt(bs)) => Some(Sem::Int(false, norm_mag(bs.to_vec()))),
                    Some(u5c::big_int::BigInt::BigNInt(bs)) => Some(Sem::Int(true, norm_mag(bs.to_vec()))),
                }
            }
            pub fn u_term(d: &u5c::PlutusData) -> String {
                match d.plutus_data.as_ref() {
                    None => "UEmpty".into(),
                    Some(u5c::plutus_data::PlutusData::Constr(c)) => format!("(UConstr {} {} {})", c.tag, c.any_constructor, coq_list(&c.fields, u_term)),
                    Some(u5c::plutus_data::PlutusData::Map(m)) => format!("(UMap {})", coq_list(&m.pairs, |p| format!("({},{})",
                        p.key.as_ref().map(u_term).unwrap_or("UEmpty".into()), p.value.as_ref().map(u_term).unwrap_or("UEmpty".into())))),
                    Some(u5c::plutus_data::PlutusData::Array(a)) => format!("(UArr {})", coq_list(&a.items, u_term)),
                    Some(u5c::plutus_data::PlutusData::BigInt(b)) => format!("(UBig {})", big_term(&Some(b.clone()))),
                    Some(u5c::plutus_data::PlutusData::BoundedBytes(b)) => format!("(UBytes {})", coq_bytes(&b.to_vec())),
                }
            }
            pub fn u_sem(d: &u5c::PlutusData) -> Option<Sem> {
                Some(match d.plutus_data.as_ref()? {
                    u5c::plutus_data::PlutusData::Constr(c) => Sem::Constr(c.tag as u64, c.any_constructor, c.fields.iter().map(u_sem).collect::<Option<Vec<_>>>()?),
                    u5c::plutus_data::PlutusData::Map(m) => Sem::Map(m.pairs.iter().map(|p| Some((u_sem(p.key.as_ref()?)?, u_sem(p.value.as_ref()?)?))).collect::<Option<Vec<_>>>()?),
                    u5c::plutus_data::PlutusData::Array(a) => Sem::Arr(a.items.iter().map(u_sem).collect::<Option<Vec<_>>>()?),
                    u5c::plutus_data::PlutusData::BigInt(b) => big_sem(&Some(b.clone()))?,
                    u5c::plutus_data::PlutusData::BoundedBytes(b) => Sem::Bytes(b.to_vec()),
                })
            }

            pub fn datum_case(d: &PlutusData, tag: &str, oracle_only: bool) {
                let mapper = Mapper::new(NoLedger);
                match guard_total(|| mapper.map_plutus_datum(d)) {
                    Out::Ok(u) => {
                        let ok = u_sem(&u).map(|s| s == p_sem(d)).unwrap_or(false);
                        if !ok {
                            // classify: which integer class is lost
                            let key = classify(d);
                            emit_oracle_fail(&key, &format!("version={} datum={} mapped={}", $ver, p_term(d), u_term(&u)));
                        }
                        if !oracle_only { emit_case(tag, &format!("(CDatum {} {} {})", $ver, p_term(d), u_term(&u))); }
                    }
                    _ => emit_oracle_fail("datum-panic", &format!("version={} datum={}", $ver, p_term(d))),
                }
            }

            pub fn u64_case(tx: &MultiEraTx, v: u64, oracle_only: bool) {
                let mapper = Mapper::new(NoLedger);
                let acct = [0xe1u8; 29];
                match guard_total(|| mapper.map_withdrawals(&(&acct[..], v), tx, 0)) {
                    Out::Ok(w) => {
                        if big_sem(&w.coin) != Some(sem_i128(v as i128)) {
                            emit_oracle_fail("u64-to-bigint", &format!("version={} v={} mapped={}", $ver, v, big_term(&w.coin)));
                        }
                        if !oracle_only { emit_case("u64", &format!("(CU64 {} {} {})", $ver, v, big_term(&w.coin))); }
                    }
                    _ => emit_oracle_fail("u64-panic", &format!("version={} v={}", $ver, v)),
                }
            }

            pub fn tx_case(tx: &MultiEraTx, label: &str, oracle_only: bool) {
                let mapper = Mapper::new(NoLedger);
                let r = raw_of(tx);
                match guard_total(|| mapper.map_tx(tx)) {
                    Out::Ok(m) => {
                        // mapped side, read back
                        let m_inputs: Vec<(Vec<u8>, u64)> = m.inputs.iter().map(|i| (i.tx_hash.to_vec(), i.output_index as u64)).collect();
                        let qty = $qty;
                        let m_outputs: Vec<(Vec<u8>, Option<u5c::BigInt>, Vec<(Vec<u8>, Vec<(Vec<u8>, Option<u5c::BigInt>)>)>)> = m.outputs.iter().map(|o| (
                            o.address.to_vec(), o.coin.clone(),
                            o.assets.iter().map(|ma| (ma.policy_id.to_vec(), ma.assets.iter().map(|a| (a.name.to_vec(), qty(a))).collect())).collect())).collect();
                        let v = m.validity.clone().unwrap_or_default();
                        // oracle
                        let mut want_in = r.inputs.clone(); want_in.sort(); want_in.dedup();
                        let mut fails = vec![];
                        if m.hash.to_vec() != r.hash { fails.push("hash"); }
                        if m_inputs != want_in { fails.push("inputs"); }
                        if big_sem(&m.fee) != Some(sem_i128(r.fee as i128)) { fails.push("fee"); }
                        if v.start != r.start || v.ttl != r.ttl { fails.push("validity"); }
                        if m.successful != r.ok { fails.push("successful"); }
                        if m_outputs.len() != r.outputs.len() { fails.push("outputs-len"); }
                        for (mo, ro) in m_outputs.iter().zip(r.outputs.iter()) {
                            if mo.0 != ro.0 { fails.push("output-address"); }
                            if big_sem(&mo.1) != Some(sem_i128(ro.1 as i128)) { fails.push("output-coin"); }
                            if mo.2.len() != ro.2.len() { fails.push("output-assets-len"); }
                            for (mp, rp) in mo.2.iter().zip(ro.2.iter()) {
                                if mp.0 != rp.0 || mp.1.len() != rp.1.len() { fails.push("output-policy"); }
                                for (ma, ra) in mp.1.iter().zip(rp.1.iter()) {
                                    if ma.0 != ra.0 || big_sem(&ma.1) != Some(sem_i128(ra.1 as i128)) { fails.push("output-asset"); }
                                }
                            }
                        }
                        // datums carried by outputs / witness set
                        for (o, mo) in tx.outputs().iter().zip(m.outputs.iter()) {
                            // datum hash: Blake2b-256 of the datum bytes as they are on the wire (inline), or the carried hash
                            let got_hash = mo.datum.as_ref().map(|x| x.hash.to_vec()).unwrap_or_default();
                            match o.datum() {
                                Some(pallas_primitives::babbage::DatumOption::Data(d)) => {
                                    if got_hash != pallas_crypto::hash::Hasher::<256>::hash(d.raw_cbor()).to_vec() { fails.push("output-datum-hash"); }
                                }
                                Some(pallas_primitives::babbage::DatumOption::Hash(h)) => {
                                    if got_hash != h.to_vec() { fails.push("output-datum-hash"); }
                                }
                                None => {}
                            }
                            if let Some(pallas_primitives::babbage::DatumOption::Data(d)) = o.datum() {
                                let got = mo.datum.as_ref().and_then(|x| x.payload.as_ref()).and_then(u_sem);
                                if got != Some(p_sem(&d.0)) { fails.push("output-datum"); }
                            }
                        }
                        for (d, md) in tx.plutus_data().iter().zip(m.witnesses.clone().unwrap_or_default().plutus_datums.iter()) {
                            use std::ops::Deref;
                            if u_sem(md) != Some(p_sem(d.deref())) { fails.push("witness-datum"); if std::env::var("C44_DEBUG").is_ok() { eprintln!("{}\n{}", p_term(d.deref()), u_term(md)); } }
                        }
                        fails.dedup();
                        for f in fails { emit_oracle_fail(&format!("tx-{}", f), &format!("version={} tx={} ({})", $ver, hex(&r.hash), label)); }
                        if !oracle_only {
                            let mterm = format!("(mk_mtx {} {} {} {} {} {} {})", coq_bytes(&m.hash.to_vec()),
                                coq_list(&m_inputs, |(h, i)| format!("({},{})", coq_bytes(h), i)),
                                coq_list(&m_outputs, |(a, c, ma)| format!("({},{},{})", coq_bytes(a), big_term(c),
                                    coq_list(ma, |(p, xs)| format!("({},{})", coq_bytes(p), coq_list(xs, |(n, q)| format!("({},{})", coq_bytes(n), big_term(q))))))),
                                big_term(&m.fee), v.start, v.ttl, coq_bool(m.successful));
                            emit_case("tx", &format!("(CTx {} {} {})", $ver, raw_term(&r), mterm));
                        }
                    }
                    _ => emit_oracle_fail("tx-panic", &format!("version={} tx={} ({})", $ver, hex(&r.hash), label)),
                }
            }
        }
    };
}

version!(va, 1, v1alpha, |a: &u5c::Asset| match &a.quantity {
    Some(u5c::asset::Quantity::OutputCoin(b)) => Some(b.clone()),
    Some(u5c::asset::Quantity::MintCoin(b)) => Some(b.clone()),
    None => None });
version!(vb, 2, v1beta, |a: &u5c::Asset| a.quantity.clone());

/// known-finding key = the class of integer that is lost
fn classify(d: &PlutusData) -> String {
    fn walk(d: &PlutusData, out: &mut Vec<&'static str>) {
        match d {
            PlutusData::Constr(c) => c.fields.iter().for_each(|x| walk(x, out)),
            PlutusData::Map(kvs) => kvs.iter().for_each(|(k, v)| { walk(k, out); walk(v, out) }),
            PlutusData::Array(xs) => xs.iter().for_each(|x| walk(x, out)),
            PlutusData::BigInt(BigInt::Int(i)) => {
                let v = i128::from(i.0);
                if v > i64::MAX as i128 { out.push("int-above-i64") } else if v < i64::MIN as i128 { out.push("int-below-i64") }
            }
            _ => {}
        }
    }
    let mut o = vec![]; walk(d, &mut o); o.sort(); o.dedup();
    if o.is_empty() { "datum-structure".into() } else { format!("datum-{}", o.join("+")) }
}

/// Synthetic transaction, hand-encoded CBOR: duplicate / unsorted inputs, coin, fee and native-asset
/// quantities over the whole u64 range, post-Alonzo (map) or legacy (array) outputs.
fn gen_tx_bytes(rng: &mut Rng, legacy: bool) -> Vec<u8> {
    let mut buf = Vec::new();
    let mut e = minicbor::Encoder::new(&mut buf);
    let n_in = 1 + rng.below(5);
    let hashes: Vec<Vec<u8>> = (0..3).map(|_| { let mut h = rng.bytes(32); if rng.bool() { h[0] = 0x10; h[1] = 0x20; } h }).collect();
    e.array(4).unwrap();
    let has_ttl = rng.bool();
    e.map(if has_ttl { 4 } else { 3 }).unwrap();
    e.u8(0).unwrap();
    e.array(n_in).unwrap();
    for _ in 0..n_in {
        e.array(2).unwrap();
        { let k = rng.below(hashes.len() as u64) as usize; e.bytes(&hashes[k]).unwrap(); }
        e.u64(match rng.below(4) { 0 => 0, 1 => rng.below(3), 2 => rng.below(70000), _ => u32::MAX as u64 - rng.below(2) }).unwrap();
    }
    e.u8(1).unwrap();
    let n_out = 1 + rng.below(3);
    e.array(n_out).unwrap();
    for _ in 0..n_out {
        let mut addr = vec![0x61u8]; addr.extend(rng.bytes(28));
        let coin = rng.edge_u64();
        let n_pol = rng.below(3);
        // post-Alonzo outputs carry, half of the time, a datum option: an inline datum in one of several
        // valid but not necessarily canonical encodings (wide ints, indefinite strings/arrays/maps, bignums), or a hash
        let datum_kind = if legacy { 0 } else { rng.below(4) };
        if legacy { e.array(2).unwrap(); e.bytes(&addr).unwrap(); }
        else { e.map(if datum_kind == 0 { 2 } else { 3 }).unwrap(); e.u8(0).unwrap(); e.bytes(&addr).unwrap(); e.u8(1).unwrap(); }
        if n_pol == 0 { e.u64(coin).unwrap(); }
        else {
            e.array(2).unwrap(); e.u64(coin).unwrap();
            e.map(n_pol).unwrap();
            for p in 0..n_pol {
                let mut pol = rng.bytes(28); pol[0] = p as u8;
                e.bytes(&pol).unwrap();
                let n_as = 1 + rng.below(3);
                e.map(n_as).unwrap();
                for a in 0..n_as {
                    let nl = rng.below(6) as usize; let mut name = rng.bytes(nl); name.push(a as u8);
                    e.bytes(&name).unwrap();
                    let q = match rng.below(5) { 0 => 1, 1 => i64::MAX as u64, 2 => i64::MAX as u64 + 1, 3 => u64::MAX - rng.below(2), _ => rng.edge_u64().max(1) };
                    e.u64(q).unwrap();
                }
            }
        }
            if datum_kind != 0 {
            const DATUMS: [&[u8]; 12] = [&[0x05], &[0x18, 0x05], &[0x1a, 0, 0, 0x03, 0xe8], &[0x1b, 0, 0, 0, 0, 0, 0, 0x03, 0xe8],
                &[0x5f, 0x41, 0x01, 0xff], &[0x9f, 0x01, 0x02, 0xff], &[0x82, 0x01, 0x02], &[0xd8, 0x79, 0x9f, 0x01, 0xff],
                &[0xc2, 0x41, 0x01], &[0xa0], &[0xbf, 0x01, 0x02, 0xff], &[0x3b, 0xff, 0xff, 0xff, 0xff, 0xff, 0xff, 0xff, 0xff]];
            e.u8(2).unwrap();
            e.array(2).unwrap();
            if datum_kind == 1 { e.u8(0).unwrap(); e.bytes(&rng.bytes(32)).unwrap(); }
            else { let d = DATUMS[rng.below(DATUMS.len() as u64) as usize]; e.u8(1).unwrap(); e.tag(minicbor::data::Tag::new(24)).unwrap(); e.bytes(d).unwrap(); }
        }
}
    e.u8(2).unwrap(); e.u64(rng.edge_u64()).unwrap();
    if has_ttl { e.u8(3).unwrap(); e.u64(rng.edge_u64()).unwrap(); }
    e.map(0).unwrap();
    e.bool(rng.chance(9, 10)).unwrap();
    e.null().unwrap();
    buf
}

fn main() {
    let args = args();
    let mut rng = Rng::new(args.seed);
    let repo_dir = format!("{}/test_data", std::env::var("VERIF_REPO").unwrap_or("/repo".to_string()));
    // 1. every tx of every block file in test_data (+ standalone .tx files)
    let mut names: Vec<String> = std::fs::read_dir(&repo_dir).expect("test_data").filter_map(|e| e.ok())
        .map(|e| e.file_name().to_string_lossy().to_string()).filter(|n| n.ends_with(".block") || n.ends_with(".tx")).collect();
    names.sort();
    let mut ntx = 0u64;
    let mut first_tx: Option<Vec<u8>> = None;
    let thorough = args.tier == "thorough";
    for n in &names {
        let Ok(s) = std::fs::read_to_string(format!("{}/{}", repo_dir, n)) else { continue };
        let Ok(bytes) = hex::decode(s.trim()) else { continue };
        if n.ends_with(".block") {
            let Ok(block) = MultiEraBlock::decode(&bytes) else { continue };
            let txs = block.txs();
            for (k, tx) in txs.iter().enumerate() {
                if !thorough && k >= 6 { break; }
                if first_tx.is_none() && tx.era() as u8 >= pallas_traverse::Era::Babbage as u8 { first_tx = Some(tx.encode()); }
                va::tx_case(tx, n, args.oracle_only);
                vb::tx_case(tx, n, args.oracle_only);
                ntx += 1;
            }
        } else {
            for era in [pallas_traverse::Era::Conway, pallas_traverse::Era::Babbage, pallas_traverse::Era::Alonzo, pallas_traverse::Era::Byron] {
                if let Ok(tx) = MultiEraTx::decode_for_era(era, &bytes) {
                    va::tx_case(&tx, n, args.oracle_only);
                    vb::tx_case(&tx, n, args.oracle_only);
                    ntx += 1;
                    break;
                }
            }
        }
    }
    emit_stat("txs_mapped", ntx);
    // 1b. synthetic transactions (boundary amounts, duplicate inputs)
    let mut nsyn = 0u64;
    for i in 0..(args.n / 4).max(40) {
        let legacy = i % 3 == 0;
        let bytes = gen_tx_bytes(&mut rng, legacy);
        let era = if legacy { pallas_traverse::Era::Alonzo } else { pallas_traverse::Era::Babbage };
        if let Ok(tx) = MultiEraTx::decode_for_era(era, &bytes) {
            va::tx_case(&tx, "synthetic", args.oracle_only);
            vb::tx_case(&tx, "synthetic", args.oracle_only);
            nsyn += 1;
        }
    }
    emit_stat("synthetic_txs_mapped", nsyn);
    // 2. u64_to_bigint boundary + random
    let some_tx_bytes = first_tx.expect("a post-alonzo tx in test_data");
    let some_tx = MultiEraTx::decode(&some_tx_bytes).expect("tx");
    let mut vals: Vec<u64> = vec![0, 1, i64::MAX as u64 - 1, i64::MAX as u64, i64::MAX as u64 + 1, u64::MAX - 1, u64::MAX, 1 << 32, (1 << 32) - 1];
    for _ in 0..(args.n / 10).max(20) { vals.push(rng.edge_u64()); }
    for v in vals { va::u64_case(&some_tx, v, args.oracle_only); vb::u64_case(&some_tx, v, args.oracle_only); }
    // 3. generated datums over the full CBOR integer range
    for i in 0..args.n {
        let depth = 1 + rng.below(3) as u32;
        let d = if i < 12 {
            // deterministic boundary integers, bare
            let two64: i128 = 1i128 << 64;
            let v = [0i128, -1, i64::MAX as i128, i64::MAX as i128 + 1, i64::MIN as i128, i64::MIN as i128 - 1, two64 - 1, -two64, 1 << 63, -(1i128 << 63) - 1, u32::MAX as i128 + 1, 42][i];
            PlutusData::BigInt(BigInt::Int(Int(minicbor::data::Int::try_from(v).unwrap())))
        } else { gen_data(&mut rng, depth) };
        let tag = match &d { PlutusData::Constr(_) => "constr", PlutusData::Map(_) => "map", PlutusData::Array(_) => "array", PlutusData::BigInt(_) => "bigint", _ => "bytes" };
        if i < 3 { emit_sample(&p_term(&d)); }
        if i % 2 == 0 { va::datum_case(&d, tag, args.oracle_only) } else { vb::datum_case(&d, tag, args.oracle_only) }
    }
}
