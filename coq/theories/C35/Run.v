(* C35 correspondence.
   case = (kind, era, witnesses, inputs, required signers, observed)
   witnesses: None | Some [(key id, signature verifies?)]   (ids are small integers standing for key hashes)
   inputs: payment key id of each input then collateral, -1 for a script-locked one
   kind 0  check_vkey_input_wits (era 1 Alonzo, 2 Babbage, 3 Conway) / check_witnesses (era 0 Shelley-MA;
           the synthetic transactions carry no native script, so script_ok = false there)
           through the hook; observed: 0 Ok, 1 wrong signature, 2 witness missing, 9 other, -1 panic
   kind 1  check_required_signers through the hook; observed: 0 Ok, 3 missing, 4 wrong signature
   kind 2  validate_tx on a fixture mutant; observed 1 accepted / 0 rejected — the model's
           rejecting must imply the validator's rejecting *)
From PV Require Import Lib.Base C35.Model.
Open Scope Z_scope.
Definition case : Type := (Z * Z * option (list (Z * bool)) * list Z * option (list Z) * Z).
Definition pay (x : Z) : payment := if x <? 0 then PScript else PKey x.
Definition case_out (c : case) : Z :=
  let '(kind, era, wits, ins, req, obs) := c in
  if kind =? 0 then out_code (check_vkey_input_wits_gen cw fst snd (negb (era =? 0)) wits (map pay ins))
  else if kind =? 1 then out_code (check_required_signers cw fst snd req wits)
  else out_code (check_sigs cw fst snd (if era =? 0 then None else req) wits (map pay ins)).
Definition case_ok (c : case) : bool :=
  let '(kind, era, wits, ins, req, obs) := c in
  if kind <? 2 then case_out c =? obs
  else (case_out c =? 0) || (obs =? 0).
