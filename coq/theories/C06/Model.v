(* C06 model: the minicbor-derive attribute semantics (minicbor-derive 0.16.2, encode.rs /
   decode.rs) for the shapes the era model.rs files use, as generic codecs over a small
   [schema] datatype:

     #[derive(Encode, Decode)] struct, array encoding, fields #[n(0)] .. #[n(k-1)], a field of
       type Option<T> may be absent at the end of the array or null in the middle   (SArray)
     #[cbor(flat)] enum: [index, field0, field1, ..]                                  (SFlat)
     #[cbor(index_only)] enum: the bare index                                          (SIndexOnly)
     Vec<T>                                                                            (SVec)
     u8..u64, i64, byte strings, bool                                                  (leaves)

   Encoder, as generated: array struct = array(m+1) where m is the highest index of a field
   that is not nil (nil = an Option that is None), then the fields 0..m (None as null);
   flat enum = array(1 + number of fields), index (Encoder::i64), all fields (see c_flat).
   Decoder, as generated: [d.array()?] then position i decodes field i ([Option<T>::decode]:
   null => None), positions beyond the last field are skipped, fields not reached are None
   if optional and a missing_value error otherwise; flat enum: definite array, non-empty,
   [d.i64()?] selects the arm.

   #[cbor(map)] structs, #[cbor(tag(n))], String and opaque leaves (one raw CBOR item, for
   hand-written codecs / maps / sets / KeepRaw) are further down. Not modelled: gaps in the index
   sequence of an array struct (wf_schema rejects them), #[cbor(with/default)]. *)
From PV Require Import Lib.Base Cbor.Item Cbor.Enc Cbor.Dec Cbor.Api.
Open Scope Z_scope.

Inductive value : Type :=
| VInt (n : Z)
| VBytes (b : list Z)
| VText (b : list Z)               (* String: the UTF-8 bytes *)
| VRaw (b : list Z)                (* an opaque leaf: the raw bytes of one CBOR item *)
| VBool (b : bool)
| VNone
| VSome (v : value)
| VList (l : list value)             (* Vec<T> *)
| VRec (fs : list value)             (* struct: one value per field, in index order *)
| VVar (idx : Z) (fs : list value).  (* enum arm with its fields *)

(* a codec for one Rust type *)
Record codec : Type := Codec {
  c_enc : value -> list Z;
  c_dec : list Z -> dres (value * list Z);
  c_ty : value -> Prop               (* the values of the Rust type *)
}.

(* Option<T>::decode takes an encoding for a value (not for null) *)
Definition not_null (e r : list Z) : Prop :=
  exists t, d_datatype (e ++ r) = DOk t /\ ctype_eqb t TNull = false.

Definition u64_max1 : Z := 18446744073709551616.
Definition i64_half : Z := 9223372036854775808.

(* ---- leaves ---- *)
Definition enc_uint (v : value) : list Z := match v with VInt n => e_uint n | _ => [] end.
Definition c_uint (bound : Z) : codec :=
  Codec enc_uint (fun bs => dmap (fun p => (VInt (fst p), snd p)) (d_uint bound bs))
        (fun v => exists n, v = VInt n /\ 0 <= n < bound).
Definition enc_int (v : value) : list Z := match v with VInt n => e_int n | _ => [] end.
Definition c_i64 : codec :=
  Codec enc_int (fun bs => dmap (fun p => (VInt (fst p), snd p)) (d_i64 bs))
        (fun v => exists n, v = VInt n /\ - i64_half <= n < i64_half).
Definition enc_bytes (v : value) : list Z := match v with VBytes b => e_bytes b | _ => [] end.
Definition c_bytes : codec :=
  Codec enc_bytes (fun bs => dmap (fun p => (VBytes (fst p), snd p)) (d_bytes bs))
        (fun v => exists b, v = VBytes b /\ bytes_wf b /\ len b < u64_max1).
Definition enc_bool (v : value) : list Z := match v with VBool b => e_bool b | _ => [] end.
Definition c_bool : codec :=
  Codec enc_bool (fun bs => dmap (fun p => (VBool (fst p), snd p)) (d_bool bs))
        (fun v => exists b, v = VBool b).

(* String: Encoder::str / Decoder::str (definite, valid UTF-8) *)
Definition enc_text (v : value) : list Z := match v with VText b => e_str b | _ => [] end.
Definition c_text : codec :=
  Codec enc_text (fun bs => dmap (fun p => (VText (fst p), snd p)) (d_str bs))
        (fun v => exists b, v = VText b /\ bytes_wf b /\ utf8_valid b = true /\ len b < u64_max1).

(* #[cbor(tag(t))]: the tag, then the value; the decoder insists on the same tag *)
Definition c_tag (t : Z) (c : codec) : codec :=
  Codec (fun v => e_tag t ++ c_enc c v)
        (fun bs => dbind (d_tag bs) (fun '(t', r) => if t' =? t then c_dec c r else DErr))
        (c_ty c).

(* an opaque leaf (hand-written codec, map, set, KeepRaw, ...): exactly one well-formed CBOR
   item kept as raw bytes, like KeepRaw / AnyCbor; the item must not be one that
   Option<T>::decode reads as null *)
Definition consumed (bs r : list Z) : list Z := firstn (length bs - length r) bs.
Definition enc_raw (v : value) : list Z := match v with VRaw b => b | _ => [] end.
Definition c_raw : codec :=
  Codec enc_raw (fun bs => dbind (decode bs) (fun '(_, r) => DOk (VRaw (consumed bs r), r)))
        (fun v => exists i, v = VRaw (encode_item i) /\ wf_item i = true /\ forall r, not_null (encode_item i) r).

(* ---- Vec<T> ---- *)
Definition enc_vec (c : codec) (v : value) : list Z :=
  match v with VList l => e_vec (c_enc c) l | _ => [] end.
Definition c_vec (c : codec) : codec :=
  Codec (enc_vec c) (fun bs => dmap (fun p => (VList (fst p), snd p)) (d_vec (c_dec c) bs))
        (fun v => exists l, v = VList l /\ Forall (c_ty c) l /\ len l < u64_max1).

(* ---- fields of an array-encoded struct / enum arm ---- *)
Definition field : Type := (bool * codec)%type.    (* is Option<T>, codec of T *)

Definition is_nil (f : field) (v : value) : bool :=
  fst f && match v with VNone => true | _ => false end.

(* Encode::encode of one field: Option<T> writes null for None *)
Definition enc_field (f : field) (v : value) : list Z :=
  if fst f then match v with VSome x => c_enc (snd f) x | _ => e_null end
  else c_enc (snd f) v.

(* Decode::decode of one field: Option<T>::decode = null -> None *)
Definition dec_field (f : field) (bs : list Z) : dres (value * list Z) :=
  if fst f then
    dbind (d_option (c_dec (snd f)) bs) (fun '(o, r) =>
      DOk (match o with Some x => VSome x | None => VNone end, r))
  else c_dec (snd f) bs.

Definition field_ty (f : field) (v : value) : Prop :=
  if fst f then v = VNone \/ exists x, v = VSome x /\ c_ty (snd f) x
  else c_ty (snd f) v.

(* highest index of a non-nil field, plus one (0 when every field is nil) *)
Fixpoint live_len (fs : list field) (vs : list value) : nat :=
  match fs, vs with
  | f :: fs', v :: vs' =>
    match live_len fs' vs' with
    | O => if is_nil f v then O else 1%nat
    | S k => S (S k)
    end
  | _, _ => O
  end.

(* the first n fields *)
Fixpoint enc_fields (n : nat) (fs : list field) (vs : list value) : list Z :=
  match n, fs, vs with
  | S n', f :: fs', v :: vs' => enc_field f v ++ enc_fields n' fs' vs'
  | _, _, _ => []
  end.

(* one well-formed item, consumed (Decoder::skip on well-formed input) *)
Definition skip_one (bs : list Z) : dres (unit * list Z) :=
  dbind (decode bs) (fun '(_, r) => DOk (tt, r)).

(* for i in 0..n { match i { idx => field, _ => skip } }, then the missing-field checks:
   with the indices 0..k-1 the i-th round meets the i-th field *)
Fixpoint dec_fields (fs : list field) (n : Z) (bs : list Z) : dres (list value * list Z) :=
  match fs with
  | [] => dbind (seq_loop skip_one (budget bs) n bs) (fun '(_, r) => DOk ([], r))
  | f :: fs' =>
    if n <=? 0 then
      (* array exhausted: an Option field defaults to None, any other is missing_value *)
      if fst f then dbind (dec_fields fs' n bs) (fun '(vs, r) => DOk (VNone :: vs, r)) else DErr
    else
      dbind (dec_field f bs) (fun '(v, r) =>
      dbind (dec_fields fs' (n - 1) r) (fun '(vs, r') => DOk (v :: vs, r')))
  end.

(* elements until the break (indefinite array): same loop, the length is not known up front *)
Fixpoint dec_fields_indef (fuel : nat) (fs : list field) (bs : list Z) : dres (list value * list Z) :=
  match fuel with
  | O => DErr
  | S k =>
    match bs with
    | [] => DEoi
    | b :: r0 =>
      if b =? break_byte then
        (if forallb fst fs then DOk (map (fun _ => VNone) fs, r0) else DErr)
      else
        match fs with
        | [] => dbind (skip_one bs) (fun '(_, r) => dec_fields_indef k [] r)
        | f :: fs' =>
          dbind (dec_field f bs) (fun '(v, r) =>
          dbind (dec_fields_indef k fs' r) (fun '(vs, r') => DOk (v :: vs, r')))
        end
    end
  end.

(* ---- #[derive] struct, array encoding ---- *)
Definition enc_struct (fs : list field) (v : value) : list Z :=
  match v with
  | VRec vs => let n := live_len fs vs in e_array (Z.of_nat n) ++ enc_fields n fs vs
  | _ => []
  end.
Definition dec_struct (fs : list field) (bs : list Z) : dres (value * list Z) :=
  dbind (d_array bs) (fun '(l, r) =>
    dbind (match l with
           | Some n => dec_fields fs n r
           | None => dec_fields_indef (budget r) fs r
           end) (fun '(vs, r') => DOk (VRec vs, r'))).
Definition struct_ty (fs : list field) (v : value) : Prop :=
  exists vs, v = VRec vs /\ Forall2 field_ty fs vs.
Definition c_struct (fs : list field) : codec := Codec (enc_struct fs) (dec_struct fs) (struct_ty fs).

(* ---- #[cbor(flat)] enum: [idx, fields..] ----
   The generated encoder of an enum arm asks [Encode::is_nil(&field)] with [field : &Option<T>]
   (a pattern binding), i.e. on [&&Option<T>]; minicbor's [impl Encode for &T] does not forward
   [is_nil], so the answer is always false: an arm never drops trailing None fields, it writes
   all its fields (None as null). (Found by the differential run; structs do drop them.) *)
Definition arm : Type := (Z * list field)%type.
Fixpoint find_arm (idx : Z) (arms : list arm) : option (list field) :=
  match arms with
  | [] => None
  | (i, fs) :: t => if i =? idx then Some fs else find_arm idx t
  end.
Definition enc_flat (arms : list arm) (v : value) : list Z :=
  match v with
  | VVar idx vs =>
    match find_arm idx arms with
    | Some fs => let n := length fs in e_array (1 + Z.of_nat n) ++ e_int idx ++ enc_fields n fs vs
    | None => []
    end
  | _ => []
  end.
Definition dec_flat (arms : list arm) (bs : list Z) : dres (value * list Z) :=
  dbind (d_array bs) (fun '(l, r) =>
    match l with
    | None => DErr                       (* "flat enum requires definite-length array" *)
    | Some n =>
      if n =? 0 then DErr                (* "flat enum requires non-empty array" *)
      else
        dbind (d_i64 r) (fun '(idx, r1) =>
          match find_arm idx arms with
          | None => DErr                 (* unknown_variant *)
          | Some fs => dbind (dec_fields fs (n - 1) r1) (fun '(vs, r') => DOk (VVar idx vs, r'))
          end)
    end).
Definition flat_ty (arms : list arm) (v : value) : Prop :=
  exists idx vs fs, v = VVar idx vs /\ find_arm idx arms = Some fs /\ Forall2 field_ty fs vs /\
                    - i64_half <= idx < i64_half.
Definition c_flat (arms : list arm) : codec := Codec (enc_flat arms) (dec_flat arms) (flat_ty arms).

(* ---- #[cbor(index_only)] enum: the bare index ---- *)
Definition enc_index (v : value) : list Z := match v with VVar idx _ => e_int idx | _ => [] end.
Definition dec_index (idxs : list Z) (bs : list Z) : dres (value * list Z) :=
  dbind (d_i64 bs) (fun '(idx, r) => if existsb (Z.eqb idx) idxs then DOk (VVar idx [], r) else DErr).
Definition c_index (idxs : list Z) : codec :=
  Codec enc_index (dec_index idxs)
        (fun v => exists idx, v = VVar idx [] /\ In idx idxs /\ - i64_half <= idx < i64_half).

(* ---- #[cbor(map)] struct (integer keys): see MapStruct.v for the description and proofs ---- *)
Definition mfield : Type := (Z * field)%type.      (* #[n(idx)], (is Option, codec) *)

Fixpoint find_field (key : Z) (fs : list mfield) : option field :=
  match fs with
  | [] => None
  | (i, f) :: t => if i =? key then Some f else find_field key t
  end.

(* number of entries written, and the entries *)
Fixpoint live_count (fs : list mfield) (vs : list value) : nat :=
  match fs, vs with
  | (_, f) :: fs', v :: vs' => ((if is_nil f v then 0 else 1) + live_count fs' vs')%nat
  | _, _ => O
  end.
Fixpoint enc_entries (fs : list mfield) (vs : list value) : list Z :=
  match fs, vs with
  | (i, f) :: fs', v :: vs' =>
    (if is_nil f v then [] else e_int i ++ enc_field f v) ++ enc_entries fs' vs'
  | _, _ => []
  end.

(* the decoder's field variables: key -> value seen last *)
Definition mstate : Type := list (Z * value).
Fixpoint lookup (key : Z) (st : mstate) : option value :=
  match st with
  | [] => None
  | (k, v) :: t => if k =? key then Some v else lookup key t
  end.

(* for _ in 0..n { match d.i64()? { idx => field = decode, _ => skip } } *)
Fixpoint dec_entries_n (fs : list mfield) (fuel : nat) (n : Z) (st : mstate) (bs : list Z)
  : dres (mstate * list Z) :=
  if n <=? 0 then DOk (st, bs) else
  match fuel with
  | O => DErr
  | S k =>
    dbind (d_i64 bs) (fun '(key, r) =>
      match find_field key fs with
      | Some f => dbind (dec_field f r) (fun '(v, r') => dec_entries_n fs k (n - 1) ((key, v) :: st) r')
      | None => dbind (skip_one r) (fun '(_, r') => dec_entries_n fs k (n - 1) st r')
      end)
  end.

(* while Break != datatype { .. }; skip the break *)
Fixpoint dec_entries_indef (fs : list mfield) (fuel : nat) (st : mstate) (bs : list Z)
  : dres (mstate * list Z) :=
  match fuel with
  | O => DErr
  | S k =>
    match bs with
    | [] => DEoi
    | b :: r0 =>
      if b =? break_byte then DOk (st, r0) else
      dbind (d_i64 bs) (fun '(key, r) =>
        match find_field key fs with
        | Some f => dbind (dec_field f r) (fun '(v, r') => dec_entries_indef fs k ((key, v) :: st) r')
        | None => dbind (skip_one r) (fun '(_, r') => dec_entries_indef fs k st r')
        end)
    end
  end.

(* the struct expression: each field from its variable, None for an unseen Option, else error *)
Fixpoint finish (fs : list mfield) (st : mstate) : option (list value) :=
  match fs with
  | [] => Some []
  | (i, f) :: t =>
    match (match lookup i st with Some v => Some v | None => if fst f then Some VNone else None end),
          finish t st with
    | Some v, Some vs => Some (v :: vs)
    | _, _ => None
    end
  end.

Definition enc_mapstruct (fs : list mfield) (v : value) : list Z :=
  match v with
  | VRec vs => e_map (Z.of_nat (live_count fs vs)) ++ enc_entries fs vs
  | _ => []
  end.
Definition dec_mapstruct (fs : list mfield) (bs : list Z) : dres (value * list Z) :=
  dbind (d_map bs) (fun '(l, r) =>
    dbind (match l with
           | Some n => dec_entries_n fs (budget r) n [] r
           | None => dec_entries_indef fs (budget r) [] r
           end) (fun '(st, r') =>
      match finish fs st with Some vs => DOk (VRec vs, r') | None => DErr end)).
Definition mapstruct_ty (fs : list mfield) (v : value) : Prop :=
  exists vs, v = VRec vs /\ Forall2 (fun mf x => field_ty (snd mf) x) fs vs.
Definition c_mapstruct (fs : list mfield) : codec :=
  Codec (enc_mapstruct fs) (dec_mapstruct fs) (mapstruct_ty fs).

(* ---------------------------------------------------------------- schemas *)
From Coq Require String.

(* fields carry their #[n(i)] index: (index, (is Option<T>, schema of T)) *)
Inductive schema : Type :=
| SUInt (bits : Z)                            (* 8, 16, 32, 64 *)
| SInt64
| SBytes
| SText
| SBool
| SVec (s : schema)
| SArray (fields : list (Z * (bool * schema)))      (* struct, array encoding: indices 0 .. k-1 *)
| SMap (fields : list (Z * (bool * schema)))        (* struct, #[cbor(map)] *)
| SFlat (arms : list (Z * list (Z * (bool * schema))))   (* #[cbor(flat)] enum *)
| SIndexOnly (idxs : list Z)
| STag (t : Z) (s : schema)                   (* #[cbor(tag(t))] *)
| SCustom (name : String.string).                    (* opaque leaf: one raw CBOR item *)

Fixpoint codec_of (s : schema) : codec :=
  match s with
  | SUInt bits => c_uint (2 ^ bits)
  | SInt64 => c_i64
  | SBytes => c_bytes
  | SText => c_text
  | SBool => c_bool
  | SVec s' => c_vec (codec_of s')
  | SArray fields => c_struct (map (fun f => (fst (snd f), codec_of (snd (snd f)))) fields)
  | SMap fields => c_mapstruct (map (fun f => (fst f, (fst (snd f), codec_of (snd (snd f))))) fields)
  | SFlat arms =>
    c_flat (map (fun a => (fst a, map (fun f => (fst (snd f), codec_of (snd (snd f)))) (snd a))) arms)
  | SIndexOnly idxs => c_index idxs
  | STag t s' => c_tag t (codec_of s')
  | SCustom _ => c_raw
  end.

Definition enc_schema (s : schema) (v : value) : list Z := c_enc (codec_of s) v.
Definition dec_schema (s : schema) (bs : list Z) : dres (value * list Z) := c_dec (codec_of s) bs.
Definition has_type (v : value) (s : schema) : Prop := c_ty (codec_of s) v.

(* decidable side conditions *)
Fixpoint nodupb (l : list Z) : bool :=
  match l with [] => true | x :: t => negb (existsb (Z.eqb x) t) && nodupb t end.
Definition idx_ok (i : Z) : bool := (- i64_half <=? i) && (i <? i64_half).
(* the indices of an array-encoded field list are exactly 0, 1, .., k-1 in this order
   (the derive macro sorts by index; a gap would be filled with nulls, which is not modelled) *)
Fixpoint contiguous (from : Z) (idxs : list Z) : bool :=
  match idxs with [] => true | i :: t => (i =? from) && contiguous (from + 1) t end.

Fixpoint wf_schema (s : schema) : bool :=
  match s with
  | SUInt bits => (bits =? 8) || (bits =? 16) || (bits =? 32) || (bits =? 64)
  | SInt64 | SBytes | SText | SBool | SCustom _ => true
  | SVec s' => wf_schema s'
  | SArray fields =>
    contiguous 0 (map fst fields) && (len fields <? 65536) && forallb (fun f => wf_schema (snd (snd f))) fields
  | SMap fields =>
    nodupb (map fst fields) && forallb (fun f => idx_ok (fst f)) fields && (len fields <? 65536) &&
    forallb (fun f => wf_schema (snd (snd f))) fields
  | SFlat arms =>
    nodupb (map fst arms) && forallb (fun a => idx_ok (fst a)) arms &&
    forallb (fun a => contiguous 0 (map fst (snd a)) && (len (snd a) <? 65536) &&
                      forallb (fun f => wf_schema (snd (snd f))) (snd a)) arms
  | SIndexOnly idxs => nodupb idxs && forallb idx_ok idxs
  | STag t s' => (0 <=? t) && (t <? u64_max1) && wf_schema s'
  end.

(* no opaque leaf anywhere: every value of the Rust type is a typed value of the schema *)
Fixpoint fully_modelled (s : schema) : bool :=
  match s with
  | SCustom _ => false
  | SVec s' | STag _ s' => fully_modelled s'
  | SArray fields | SMap fields => forallb (fun f => fully_modelled (snd (snd f))) fields
  | SFlat arms => forallb (fun a => forallb (fun f => fully_modelled (snd (snd f))) (snd a)) arms
  | _ => true
  end.

(* a named (generated) schema *)
Definition wf_schema_gen (ns : String.string * schema) : bool := wf_schema (snd ns).
Fixpoint lookup_schema (name : String.string) (l : list (String.string * schema)) : option schema :=
  match l with
  | [] => None
  | (n, s) :: t => if String.eqb n name then Some s else lookup_schema name t
  end.
Fixpoint names_nodup (l : list String.string) : bool :=
  match l with [] => true | x :: t => negb (existsb (String.eqb x) t) && names_nodup t end.
