//! C05: ledger identity hashes are taken over the original on-wire bytes.
//!
//! Every block / tx / header of test_data (all eras), every tx, header, witness datum and
//! native script contained in them, plus structural re-encodings of all of these produced by
//! the mutator of `cbor_tree` (definite <-> indefinite containers, non-minimal heads, chunked
//! strings, reordered map entries, tag 258 added / removed) that the pallas decoder still
//! accepts. ORACLE: Blake2b (pallas_crypto Hasher) of the exact bytes located by an
//! independent scan of the (mutant) input with the parser of `cbor_tree` (no minicbor), with
//! the era prefix, must equal what pallas-traverse reports. A hash taken over re-encoded bytes
//! differs on a non-canonical mutant and is reported with the mutant as replay.
//!
//! DETACH: for every artefact and accepted mutant the KeepRaw values are also detached
//! (`to_owned()`, `Cow::Owned` header variants): same hash, and encoding replays the wire bytes;
//! a stand-alone header's `cbor()` must be exactly the item on the wire.
//!
//! case := CBlock bs hh ids | CTx era bs id datums scripts | CHeader kind bs h
//!       | CDatum bs h | CScript bs h            (only inputs pallas accepts)
#[path = "cbor_tree/mod.rs"]
mod cbor_tree;
use cbor_tree::{Item, Kind};
use pallas_codec::minicbor;
use pallas_codec::utils::KeepRaw;
use pallas_crypto::hash::Hasher;
use pallas_primitives::{alonzo, babbage, byron, conway};
use std::borrow::Cow;
use pallas_traverse::{Era, MultiEraBlock, MultiEraHeader, MultiEraTx, OriginalHash};
use verif_harness::*;

fn h256(pfx: &[u8], b: &[u8]) -> Vec<u8> { let mut v = pfx.to_vec(); v.extend_from_slice(b); Hasher::<256>::hash(&v).to_vec() }
fn h224(pfx: &[u8], b: &[u8]) -> Vec<u8> { let mut v = pfx.to_vec(); v.extend_from_slice(b); Hasher::<224>::hash(&v).to_vec() }

/// What pallas reports for a transaction.
#[derive(Debug, PartialEq, Clone, Default)]
struct TxObs { id: Vec<u8>, datums: Vec<Vec<u8>>, scripts: Vec<Vec<u8>>, inline: Vec<Vec<u8>>, refs: Vec<Vec<u8>> }

fn observe_tx(tx: &MultiEraTx) -> TxObs {
    let mut o = TxObs { id: tx.hash().to_vec(), ..Default::default() };
    for d in tx.plutus_data() { o.datums.push(d.original_hash().to_vec()); }
    for s in tx.native_scripts() { o.scripts.push(s.original_hash().to_vec()); }
    for out in tx.outputs() {
        if let Some(conway::DatumOption::Data(d)) = out.datum() { o.inline.push(d.original_hash().to_vec()); }
        if let Some(conway::ScriptRef::NativeScript(s)) = out.script_ref() { o.refs.push(s.original_hash().to_vec()); }
    }
    o
}

/// The same quantities from an independent scan of the bytes. `byron`: TxPayload layout.
fn expect_tx(b: &[u8], root: &Item, byron: bool) -> Option<TxObs> {
    let body = root.at(0)?;
    let mut o = TxObs { id: h256(&[], body.span(b)), ..Default::default() };
    if byron { return Some(o); }
    let wits = root.at(1)?;
    if let Some(ns) = wits.get(1) { for s in ns.elems_untag()? { o.scripts.push(h224(&[0], s.span(b))); } }
    if let Some(pd) = wits.get(4) { for d in pd.elems_untag()? { o.datums.push(h256(&[], d.span(b))); } }
    // inline datums / reference native scripts of post-Alonzo (map) outputs
    if let Some(outs) = body.get(1).and_then(|x| x.elems_untag()) {
        for out in outs {
            if out.entries().is_none() { continue; }
            if let Some(dopt) = out.get(2) {
                if dopt.at(0).and_then(|x| x.as_uint()) == Some(1) {
                    if let Some(Kind::Tag(_, _, inner)) = dopt.at(1).map(|x| &x.kind) {
                        if let Kind::Bytes(_, payload) = &inner.kind {
                            let it = cbor_tree::parse(payload).ok()?;
                            o.inline.push(h256(&[], it.span(payload)));
                        }
                    }
                }
            }
            if let Some(Kind::Tag(_, _, inner)) = out.get(3).map(|x| &x.kind) {
                if let Kind::Bytes(_, payload) = &inner.kind {
                    let it = cbor_tree::parse(payload).ok()?;
                    if it.at(0).and_then(|x| x.as_uint()) == Some(0) { o.refs.push(h224(&[0], it.at(1)?.span(payload))); }
                }
            }
        }
    }
    Some(o)
}

/// The detach step: `KeepRaw::to_owned()` (raw bytes become an owned buffer) must not change
/// the identity hash, and encoding the detached value must replay exactly the wire bytes.
/// Returns (what, detail) for every violation.
macro_rules! detach {
    ($out:expr, $what:expr, $k:expr) => {{
        let k = $k;
        let attached = k.original_hash().to_vec();
        let raw = k.raw_cbor().to_vec();
        let det = k.clone().to_owned();
        let h2 = det.original_hash().to_vec();
        if h2 != attached { $out.push((format!("{}-hash", $what), format!("attached={} detached={} wire={}", hex(&attached), hex(&h2), hex(&raw[..raw.len().min(600)])))); }
        match minicbor::to_vec(&det) {
            Ok(enc) if enc == raw => {}
            Ok(enc) => $out.push((format!("{}-encode", $what), format!("wire={} encoded={}", hex(&raw[..raw.len().min(600)]), hex(&enc[..enc.len().min(600)])))),
            Err(_) => $out.push((format!("{}-encode", $what), "encode error".to_string())),
        }
    }};
}

fn detach_tx(tx: &MultiEraTx, out: &mut Vec<(String, String)>) {
    match tx {
        MultiEraTx::AlonzoCompatible(x, _) => detach!(out, "tx-body", &x.transaction_body),
        MultiEraTx::Babbage(x) => detach!(out, "tx-body", &x.transaction_body),
        MultiEraTx::Conway(x) => detach!(out, "tx-body", &x.transaction_body),
        MultiEraTx::Byron(x) => detach!(out, "byron-tx", &x.transaction),
        _ => {}
    }
    for d in tx.plutus_data() { detach!(out, "datum", d); }
    for s in tx.native_scripts() { detach!(out, "native-script", s); }
}

fn detach_header(h: &MultiEraHeader, out: &mut Vec<(String, String)>) {
    let attached = h.hash().to_vec();
    let (owned, what): (MultiEraHeader, &str) = match h {
        MultiEraHeader::EpochBoundary(x) => { detach!(out, "ebb-header", &**x); (MultiEraHeader::EpochBoundary(Cow::Owned((**x).clone().to_owned())), "ebb-header") }
        MultiEraHeader::Byron(x) => { detach!(out, "byron-header", &**x); (MultiEraHeader::Byron(Cow::Owned((**x).clone().to_owned())), "byron-header") }
        MultiEraHeader::ShelleyCompatible(x) => { detach!(out, "header", &**x); (MultiEraHeader::ShelleyCompatible(Cow::Owned((**x).clone().to_owned())), "header") }
        MultiEraHeader::BabbageCompatible(x) => { detach!(out, "header", &**x); (MultiEraHeader::BabbageCompatible(Cow::Owned((**x).clone().to_owned())), "header") }
        _ => return,
    };
    let h2 = owned.hash().to_vec();
    if h2 != attached { out.push((format!("{}-owned-variant-hash", what), format!("attached={} owned={}", hex(&attached), hex(&h2)))); }
    if owned.cbor() != h.cbor() { out.push((format!("{}-owned-variant-cbor", what), "cbor() differs".to_string())); }
}

#[derive(Clone, Copy, PartialEq, Debug)]
enum What { Block, Tx(Era), Header(u8), Datum, Script }

struct Artefact { name: String, what: What, bytes: Vec<u8> }

fn era_name(e: Era) -> &'static str {
    match e { Era::Byron => "byron", Era::Shelley => "shelley", Era::Allegra => "allegra", Era::Mary => "mary", Era::Alonzo => "alonzo", Era::Babbage => "babbage", Era::Conway => "conway", _ => "other" }
}
fn coq_hashes(v: &[Vec<u8>]) -> String { coq_list(v, |h| coq_bytes(h)) }

struct Ctx { oracle_only: bool, cases: Vec<(String, String, usize)>, checked: u64, fails: u64 }

impl Ctx {
    fn fail(&mut self, key: &str, a: &Artefact, muts: &[&str], b: &[u8], what: String) {
        self.fails += 1;
        if self.fails <= 40 {
            emit_oracle_fail(key, &format!("artefact={} mutations={:?} input={} {}", a.name, muts, hex(b), what));
        }
    }

    /// Run pallas on `b` (a re-encoding of artefact `a`), compare with the independent scan.
    /// Returns whether pallas accepted the input.
    fn check(&mut self, a: &Artefact, b: &[u8], muts: &[&str]) -> bool {
        let tag = if muts.is_empty() { "original".to_string() } else { let mut m = muts.to_vec(); m.sort(); m.dedup(); m.join("+") };
        let Ok(root) = cbor_tree::parse(b) else { return false };
        match a.what {
            What::Block => {
                let got = guard(|| {
                    let blk = MultiEraBlock::decode(b).map_err(|e| e.to_string())?;
                    let txs = blk.txs();
                    let mut det = vec![];
                    detach_header(&blk.header(), &mut det);
                    for t in &txs { detach_tx(t, &mut det); }
                    Ok((blk.hash().to_vec(), blk.header().hash().to_vec(), txs.iter().map(observe_tx).collect::<Vec<_>>(), det))
                });
                let (hh, hh2, txs, det) = match got { Out::Ok(v) => v, Out::Err(_) => return false,
                    Out::Panic(p) => { self.fail("panic/block", a, muts, b, format!("panic={}", p)); return false } };
                self.checked += 1;
                for (w, d) in det { self.fail(&format!("detached/{}", w), a, muts, b, d); }
                let Some(era) = root.at(0).and_then(|x| x.as_uint()) else { self.fail("scan/block", a, muts, b, "no era tag".into()); return true };
                let Some(inner) = root.at(1) else { return true };
                let Some(hdr) = inner.at(0) else { return true };
                let pfx: &[u8] = match era { 0 => &[0x82, 0x00], 1 => &[0x82, 0x01], _ => &[] };
                let want = h256(pfx, hdr.span(b));
                if hh != want || hh2 != want {
                    self.fail(&format!("block-hash/era{}", era), a, muts, b, format!("reported={} expected={} (Blake2b-256 of prefix {} ++ header bytes {})", hex(&hh), hex(&want), hex(pfx), hex(hdr.span(b))));
                }
                // txs
                let mut exp: Vec<TxObs> = vec![];
                if era == 1 {
                    if let Some(ps) = inner.at(1).and_then(|x| x.at(0)).and_then(|x| x.elems()) {
                        for p in ps { if let Some(e) = expect_tx(b, p, true) { exp.push(e); } }
                    }
                } else if era >= 2 {
                    let bodies = inner.at(1).and_then(|x| x.elems()).cloned().unwrap_or_default();
                    let wits = inner.at(2).and_then(|x| x.elems()).cloned().unwrap_or_default();
                    for (i, body) in bodies.iter().enumerate() {
                        let Some(w) = wits.get(i) else { break };
                        let pseudo = Item::new(Kind::Array(Some(0), vec![body.clone(), w.clone()]));
                        if let Some(e) = expect_tx(b, &pseudo, false) { exp.push(e); }
                    }
                }
                if exp.len() != txs.len() {
                    self.fail(&format!("tx-count/era{}", era), a, muts, b, format!("pallas txs={} scan={}", txs.len(), exp.len()));
                } else {
                    for (i, (g, e)) in txs.iter().zip(exp.iter()).enumerate() { self.cmp_tx(a, muts, b, &format!("era{}", era), i, g, e); }
                }
                if !self.oracle_only && b.len() <= 2600 {
                    let ids: Vec<Vec<u8>> = txs.iter().map(|t| t.id.clone()).collect();
                    self.cases.push((format!("block-era{}/{}", era, tag), format!("(CBlock {} {} {})", coq_bytes(b), coq_bytes(&hh), coq_hashes(&ids)), b.len()));
                }
                true
            }
            What::Tx(era) => {
                let got = guard(|| { let tx = MultiEraTx::decode_for_era(era, b).map_err(|e| e.to_string())?; let mut det = vec![]; detach_tx(&tx, &mut det); Ok((observe_tx(&tx), det)) });
                let (g, det) = match got { Out::Ok(v) => v, Out::Err(_) => return false,
                    Out::Panic(p) => { self.fail("panic/tx", a, muts, b, format!("panic={}", p)); return false } };
                self.checked += 1;
                for (w, d) in det { self.fail(&format!("detached/{}", w), a, muts, b, d); }
                let Some(e) = expect_tx(b, &root, era == Era::Byron) else { self.fail("scan/tx", a, muts, b, "scan failed".into()); return true };
                self.cmp_tx(a, muts, b, era_name(era), 0, &g, &e);
                if !self.oracle_only && b.len() <= 2600 {
                    let k = match era { Era::Byron => 0, Era::Conway => 2, _ => 1 };
                    self.cases.push((format!("tx-{}/{}", era_name(era), tag),
                        format!("(CTx {} {} {} {} {})", k, coq_bytes(b), coq_bytes(&g.id), coq_hashes(&g.datums), coq_hashes(&g.scripts)), b.len()));
                }
                true
            }
            What::Header(kind) => {
                let (t, st) = match kind { 0 => (0u8, Some(0u8)), 1 => (0, Some(1)), 2 => (1, None), _ => (6, None) };
                let got = guard(|| { let h = MultiEraHeader::decode(t, st, b).map_err(|e| e.to_string())?; let mut det = vec![]; detach_header(&h, &mut det); Ok((h.hash().to_vec(), h.cbor().to_vec(), det)) });
                let (g, raw, det) = match got { Out::Ok(v) => v, Out::Err(_) => return false,
                    Out::Panic(p) => { self.fail("panic/header", a, muts, b, format!("panic={}", p)); return false } };
                self.checked += 1;
                for (w, d) in det { self.fail(&format!("detached/{}", w), a, muts, b, d); }
                // the raw bytes the header keeps are exactly the item that was on the wire
                if raw != root.span(b) { self.fail(&format!("header-raw/kind{}", kind), a, muts, b, format!("cbor() has {} bytes, the header item on the wire has {}: kept={} wire={}", raw.len(), root.span(b).len(), hex(&raw), hex(root.span(b)))); }
                let pfx: &[u8] = match kind { 0 => &[0x82, 0x00], 1 => &[0x82, 0x01], _ => &[] };
                let want = h256(pfx, root.span(b));
                if g != want { self.fail(&format!("header-hash/kind{}", kind), a, muts, b, format!("reported={} expected={}", hex(&g), hex(&want))); }
                if !self.oracle_only && b.len() <= 2600 {
                    self.cases.push((format!("header-kind{}/{}", kind, tag), format!("(CHeader {} {} {})", kind.min(2), coq_bytes(b), coq_bytes(&g)), b.len()));
                }
                true
            }
            What::Datum => {
                let got = guard(|| { let d: KeepRaw<alonzo::PlutusData> = minicbor::decode(b).map_err(|e| e.to_string())?; let mut det = vec![]; detach!(det, "datum", &d);
                    if d.raw_cbor() != root.span(b) { det.push(("datum-raw".to_string(), format!("kept={} wire={}", hex(d.raw_cbor()), hex(root.span(b))))); }
                    Ok((d.original_hash().to_vec(), det)) });
                let (g, det) = match got { Out::Ok(v) => v, Out::Err(_) => return false,
                    Out::Panic(p) => { self.fail("panic/datum", a, muts, b, format!("panic={}", p)); return false } };
                self.checked += 1;
                for (w, d) in det { self.fail(&format!("detached/{}", w), a, muts, b, d); }
                let want = h256(&[], root.span(b));
                if g != want { self.fail("datum-hash/standalone", a, muts, b, format!("reported={} expected={}", hex(&g), hex(&want))); }
                if !self.oracle_only && b.len() <= 2600 { self.cases.push((format!("datum/{}", tag), format!("(CDatum {} {})", coq_bytes(b), coq_bytes(&g)), b.len())); }
                true
            }
            What::Script => {
                let got = guard(|| { let d: KeepRaw<alonzo::NativeScript> = minicbor::decode(b).map_err(|e| e.to_string())?; let mut det = vec![]; detach!(det, "native-script", &d);
                    if d.raw_cbor() != root.span(b) { det.push(("native-script-raw".to_string(), format!("kept={} wire={}", hex(d.raw_cbor()), hex(root.span(b))))); }
                    Ok((d.original_hash().to_vec(), det)) });
                let (g, det) = match got { Out::Ok(v) => v, Out::Err(_) => return false,
                    Out::Panic(p) => { self.fail("panic/script", a, muts, b, format!("panic={}", p)); return false } };
                self.checked += 1;
                for (w, d) in det { self.fail(&format!("detached/{}", w), a, muts, b, d); }
                let want = h224(&[0], root.span(b));
                if g != want { self.fail("native-script-hash/standalone", a, muts, b, format!("reported={} expected={}", hex(&g), hex(&want))); }
                if !self.oracle_only && b.len() <= 2600 { self.cases.push((format!("native-script/{}", tag), format!("(CScript {} {})", coq_bytes(b), coq_bytes(&g)), b.len())); }
                true
            }
        }
    }

    fn cmp_tx(&mut self, a: &Artefact, muts: &[&str], b: &[u8], era: &str, i: usize, g: &TxObs, e: &TxObs) {
        if g.id != e.id { self.fail(&format!("tx-id/{}", era), a, muts, b, format!("tx#{} reported={} expected={} (Blake2b-256 of the body bytes on the wire)", i, hex(&g.id), hex(&e.id))); }
        if g.datums != e.datums { self.fail(&format!("datum-hash/{}", era), a, muts, b, format!("tx#{} reported={:?} expected={:?}", i, g.datums.iter().map(|h| hex(h)).collect::<Vec<_>>(), e.datums.iter().map(|h| hex(h)).collect::<Vec<_>>())); }
        if g.scripts != e.scripts { self.fail(&format!("native-script-hash/{}", era), a, muts, b, format!("tx#{} reported={:?} expected={:?}", i, g.scripts.iter().map(|h| hex(h)).collect::<Vec<_>>(), e.scripts.iter().map(|h| hex(h)).collect::<Vec<_>>())); }
        if g.inline != e.inline { self.fail(&format!("inline-datum-hash/{}", era), a, muts, b, format!("tx#{} reported={:?} expected={:?}", i, g.inline.iter().map(|h| hex(h)).collect::<Vec<_>>(), e.inline.iter().map(|h| hex(h)).collect::<Vec<_>>())); }
        if g.refs != e.refs { self.fail(&format!("ref-script-hash/{}", era), a, muts, b, format!("tx#{} reported={:?} expected={:?}", i, g.refs.iter().map(|h| hex(h)).collect::<Vec<_>>(), e.refs.iter().map(|h| hex(h)).collect::<Vec<_>>())); }
    }
}

fn file_era(name: &str) -> Option<Era> {
    for (p, e) in [("byron", Era::Byron), ("shelley", Era::Shelley), ("allegra", Era::Allegra), ("mary", Era::Mary), ("alonzo", Era::Alonzo), ("babbage", Era::Babbage), ("conway", Era::Conway)] {
        if name.starts_with(p) { return Some(e); }
    }
    None
}

fn main() {
    let args = args();
    let mut rng = Rng::new(args.seed);
    let thorough = args.tier == "thorough";
    let dir = format!("{}/test_data", std::env::var("VERIF_REPO").unwrap_or("/repo".to_string()));
    let mut names: Vec<String> = std::fs::read_dir(&dir).expect("test_data").filter_map(|e| e.ok())
        .map(|e| e.file_name().to_string_lossy().to_string())
        .filter(|n| n.ends_with(".block") || n.ends_with(".tx") || n.ends_with(".header")).collect();
    names.sort();
    let mut arts: Vec<Artefact> = vec![];
    for n in &names {
        let Ok(s) = std::fs::read_to_string(format!("{}/{}", dir, n)) else { continue };
        let Ok(bytes) = hex::decode(s.trim()) else { continue };
        if n.ends_with(".block") {
            // sub-artefacts by independent scan: header, each tx (re-assembled), datums, native scripts
            if let Ok(root) = cbor_tree::parse(&bytes) {
                let era = root.at(0).and_then(|x| x.as_uint()).unwrap_or(99);
                if let Some(inner) = root.at(1) {
                    if let Some(h) = inner.at(0) {
                        let kind = match era { 0 => 0, 1 => 1, 2..=5 => 2, _ => 3 };
                        arts.push(Artefact { name: format!("{}#header", n), what: What::Header(kind), bytes: h.span(&bytes).to_vec() });
                    }
                    if era >= 2 {
                        let e = match era { 2 => Era::Shelley, 3 => Era::Allegra, 4 => Era::Mary, 5 => Era::Alonzo, 6 => Era::Babbage, _ => Era::Conway };
                        let bodies = inner.at(1).and_then(|x| x.elems()).cloned().unwrap_or_default();
                        let wits = inner.at(2).and_then(|x| x.elems()).cloned().unwrap_or_default();
                        let cap = if thorough { 40 } else { 6 };
                        for (i, (bd, w)) in bodies.iter().zip(wits.iter()).enumerate().take(cap) {
                            let aux = inner.at(3).and_then(|m| m.get(i as u64));
                            let mut v = vec![0x84u8]; v.extend_from_slice(bd.span(&bytes)); v.extend_from_slice(w.span(&bytes)); v.push(0xf5);
                            match aux { Some(x) => v.extend_from_slice(x.span(&bytes)), None => v.push(0xf6) }
                            arts.push(Artefact { name: format!("{}#tx{}", n, i), what: What::Tx(e), bytes: v });
                            if let Some(pd) = w.get(4).and_then(|x| x.elems_untag()) { for (j, d) in pd.iter().enumerate().take(3) { arts.push(Artefact { name: format!("{}#tx{}#datum{}", n, i, j), what: What::Datum, bytes: d.span(&bytes).to_vec() }); } }
                            if let Some(ns) = w.get(1).and_then(|x| x.elems_untag()) { for (j, d) in ns.iter().enumerate().take(3) { arts.push(Artefact { name: format!("{}#tx{}#script{}", n, i, j), what: What::Script, bytes: d.span(&bytes).to_vec() }); } }
                        }
                    } else if era == 1 {
                        if let Some(ps) = inner.at(1).and_then(|x| x.at(0)).and_then(|x| x.elems()) {
                            for (i, p) in ps.iter().enumerate().take(6) { arts.push(Artefact { name: format!("{}#tx{}", n, i), what: What::Tx(Era::Byron), bytes: p.span(&bytes).to_vec() }); }
                        }
                    }
                }
            }
            arts.push(Artefact { name: n.clone(), what: What::Block, bytes });
        } else if n.ends_with(".tx") {
            let eras: Vec<Era> = match file_era(n) { Some(e) => vec![e], None => vec![Era::Conway, Era::Babbage, Era::Alonzo] };
            for e in eras {
                if MultiEraTx::decode_for_era(e, &bytes).is_ok() {
                    if let Ok(root) = cbor_tree::parse(&bytes) {
                        if let Some(w) = root.at(1) {
                            if let Some(pd) = w.get(4).and_then(|x| x.elems_untag()) { for (j, d) in pd.iter().enumerate().take(4) { arts.push(Artefact { name: format!("{}#datum{}", n, j), what: What::Datum, bytes: d.span(&bytes).to_vec() }); } }
                            if let Some(ns) = w.get(1).and_then(|x| x.elems_untag()) { for (j, d) in ns.iter().enumerate().take(4) { arts.push(Artefact { name: format!("{}#script{}", n, j), what: What::Script, bytes: d.span(&bytes).to_vec() }); } }
                        }
                    }
                    arts.push(Artefact { name: n.clone(), what: What::Tx(e), bytes: bytes.clone() });
                    break;
                }
            }
        } else {
            let kind = if n.starts_with("byron") { 1 } else if n.starts_with("babbage") || n.starts_with("conway") { 3 } else { 2 };
            arts.push(Artefact { name: n.clone(), what: What::Header(kind), bytes });
        }
    }
    // the native script of hashes.rs' own test (alonzo9.native is its JSON form)
    arts.push(Artefact { name: "native-script-all".into(), what: What::Script,
        bytes: hex::decode("8201828200581c4d04380dcb9fbad5aff8e2f4e19394ef4e5e11b37932838f01984a1282051a06b4a1d3").unwrap() });
    // corpus: minimised past failures, replayed first
    let mut corpus: Vec<Artefact> = vec![];
    let cdir = format!("{}/corpus/C05", std::env::var("VERIF_DIR").unwrap_or("/verif".to_string()));
    if let Ok(rd) = std::fs::read_dir(&cdir) {
        let mut fs: Vec<_> = rd.filter_map(|e| e.ok()).map(|e| e.path()).filter(|p| p.extension().map(|x| x == "hex").unwrap_or(false)).collect();
        fs.sort();
        for f in fs {
            for (ln, line) in std::fs::read_to_string(&f).unwrap_or_default().lines().enumerate() {
                let mut it = line.split_whitespace();
                let (Some(kind), Some(hx)) = (it.next(), it.next()) else { continue };
                if kind.starts_with('#') { continue; }
                let Ok(bytes) = hex::decode(hx) else { continue };
                let what = match kind { "datum" => What::Datum, "script" => What::Script, "block" => What::Block,
                    "header-0" => What::Header(0), "header-1" => What::Header(1), "header-2" => What::Header(2), "header-3" => What::Header(3),
                    "tx-byron" => What::Tx(Era::Byron), "tx-alonzo" => What::Tx(Era::Alonzo), "tx-babbage" => What::Tx(Era::Babbage), "tx-conway" => What::Tx(Era::Conway),
                    _ => continue };
                corpus.push(Artefact { name: format!("corpus:{}:{}", f.file_name().unwrap().to_string_lossy(), ln + 1), what, bytes });
            }
        }
    }
    emit_stat("corpus_inputs", corpus.len() as u64);
    corpus.append(&mut arts);
    let arts = corpus;
    emit_stat("artefacts", arts.len() as u64);

    let mut ctx = Ctx { oracle_only: args.oracle_only, cases: vec![], checked: 0, fails: 0 };
    let (mut tried, mut accepted, mut base_rejected) = (0u64, 0u64, 0u64);
    let mut by_mut: std::collections::BTreeMap<&'static str, (u64, u64)> = Default::default();
    let per = if thorough { 30 } else { 5 };
    for a in &arts {
        // self-test of the independent parser: re-serialising the parsed tree reproduces the bytes
        match cbor_tree::parse(&a.bytes) {
            Ok(root) => { if root.to_vec() != a.bytes[..root.end] { emit_oracle_fail("harness/parser-roundtrip", &format!("{}", a.name)); } }
            Err(e) => { emit_oracle_fail("harness/parser", &format!("{} {}", a.name, e)); continue; }
        }
        if !ctx.check(a, &a.bytes, &[]) { base_rejected += 1; if !a.name.contains('#') { emit_sample(&format!("not accepted by pallas: {}", a.name)); } continue; }
        let big = a.bytes.len() > 100_000;
        let root0 = cbor_tree::parse(&a.bytes).unwrap();
        // small artefacts (headers, datums, scripts, txs): EVERY array / map toggled between the definite and
        // the indefinite form, one node at a time (covers e.g. the empty map at the tail of an EBB header)
        let sys_cap = match a.what { What::Header(_) => 60, What::Datum | What::Script => 20, What::Tx(_) if a.bytes.len() <= 1500 => if thorough { 40 } else { 10 }, _ => 0 };
        if sys_cap > 0 {
            for b in cbor_tree::single_toggles(&root0, sys_cap) {
                if b == a.bytes { continue; }
                tried += 1;
                let ok = ctx.check(a, &b, &["toggle-indef"]);
                if ok { accepted += 1; }
                let e = by_mut.entry("toggle-indef").or_insert((0, 0)); e.0 += 1; if ok { e.1 += 1; }
            }
            // and every head written non-minimally (8 argument bytes), one node at a time
            for b in cbor_tree::single_widens(&root0, sys_cap) {
                tried += 1;
                let ok = ctx.check(a, &b, &["widen-head"]);
                if ok { accepted += 1; }
                let e = by_mut.entry("widen-head").or_insert((0, 0)); e.0 += 1; if ok { e.1 += 1; }
            }
        }
        for _ in 0..(if big { 2 } else { per }) {
            let mut root = root0.clone();
            let k = 1 + rng.below(3) as usize;
            let muts = cbor_tree::mutate(&mut rng, &mut root, k);
            if muts.is_empty() { continue; }
            let b = root.to_vec();
            if b == a.bytes { continue; }
            tried += 1;
            let ok = ctx.check(a, &b, &muts);
            if ok { accepted += 1; }
            for m in &muts { let e = by_mut.entry(m).or_insert((0, 0)); e.0 += 1; if ok { e.1 += 1; } }
        }
    }
    emit_stat("mutants_tried", tried);
    emit_stat("mutants_accepted_by_pallas", accepted);
    emit_stat("base_artefacts_rejected", base_rejected);
    emit_stat("hash_sets_checked", ctx.checked);
    for (m, (t, ok)) in &by_mut { emit_stat(&format!("mutation_{}_tried", m), *t); emit_stat(&format!("mutation_{}_accepted", m), *ok); }
    // cases for the model: all small originals first, then a seeded sample of the mutants, up to n
    if !args.oracle_only {
        let (orig, mut muts): (Vec<_>, Vec<_>) = ctx.cases.drain(..).partition(|c| c.0.ends_with("/original"));
        let mut n_out = 0usize;
        let cap_orig = args.n / 3;
        let mut orig = orig;
        while orig.len() > cap_orig { let i = rng.below(orig.len() as u64) as usize; orig.swap_remove(i); }
        for (tag, term, _) in &orig { if n_out < 3 { emit_sample(&term[..term.len().min(300)]); } emit_case(tag, term); n_out += 1; }
        while n_out < args.n && !muts.is_empty() {
            let i = rng.below(muts.len() as u64) as usize;
            let (tag, term, _) = muts.swap_remove(i);
            emit_case(&tag, &term); n_out += 1;
        }
    }
}
