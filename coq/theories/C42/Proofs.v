(* C42 proofs, part 2: from the search code to the chain-suffix specification. *)
From PV Require Import Lib.Base Immutable.ChunkList Immutable.ChunkListFacts C42.Model C42.Search.
Open Scope Z_scope.

(* ------------------------------------------------------------ chunk list *)

Lemma stack_rev d : stack d = rev (considered d).
Proof.
  unfold stack, considered, build_stack. rewrite map_rev. reflexivity.
Qed.

Lemma read_blocks_chain d : read_blocks d = chain d.
Proof.
  unfold read_blocks, flatten_stack, chain. rewrite stack_rev, rev_involutive. reflexivity.
Qed.

(* ------------------------------------------------------------ increasing *)

Lemma increasing_app l1 l2 : increasing (l1 ++ l2) ->
  increasing l1 /\ increasing l2 /\ forall x y, In x l1 -> In y l2 -> x < y.
Proof.
  induction l1 as [|a r IH]; cbn [app increasing]; intros H.
  - split; [exact I|]. split; [exact H|]. intros x y [].
  - destruct H as [Ha Hr]. destruct (IH Hr) as (I1 & I2 & I3).
    rewrite Forall_app in Ha. destruct Ha as [Ha1 Ha2].
    split; [split; assumption|]. split; [exact I2|].
    intros x y [<-|Hx] Hy.
    + rewrite Forall_forall in Ha2. apply Ha2, Hy.
    + apply I3; assumption.
Qed.

Lemma suffix_from_all_lt s l1 l2 :
  (forall b, In b l1 -> bslot b < s) -> suffix_from_slot s (l1 ++ l2) = suffix_from_slot s l2.
Proof.
  induction l1 as [|b r IH]; intros H; [reflexivity|]. cbn [app suffix_from_slot].
  assert (bslot b <? s = true) as -> by (specialize (H b (or_introl eq_refl)); lia).
  apply IH. intros b' Hb'. apply H. right; exact Hb'.
Qed.

Lemma suffix_from_head_ge s l : match suffix_from_slot s l with [] => True | b :: _ => s <= bslot b end.
Proof.
  induction l as [|b r IH]; cbn [suffix_from_slot]; [exact I|].
  destruct (bslot b <? s) eqn:E; [exact IH | lia].
Qed.

(* ------------------------------------------------------- iterate_till_point *)

Definition accepts (s h : Z) (b : block) : bool :=
  ((h =? EMPTY_HASH) && (s <=? bslot b)) || ((bhash b =? h) && (bslot b =? s)).

Definition judge (s h : Z) (l : list block) : outcome (list block) :=
  match l with
  | [] => if h =? EMPTY_HASH then Ok [] else Err E_CANNOT_FIND
  | b :: r => if accepts s h b then Ok (b :: r) else Err E_CANNOT_FIND
  end.

Lemma till_loop_spec rest : forall b s h,
  till_loop b rest s h = judge s h (suffix_from_slot s (b :: rest)).
Proof.
  induction rest as [|b' r IH]; intros b s h; cbn [till_loop suffix_from_slot].
  - destruct (bslot b <? s); reflexivity.
  - destruct (bslot b <? s) eqn:E; [|reflexivity]. rewrite IH. reflexivity.
Qed.

Lemma iterate_till_point_spec l s h : l <> [] ->
  iterate_till_point l s h = judge s h (suffix_from_slot s l).
Proof. destruct l as [|b r]; [congruence|]. intros _. apply till_loop_spec. Qed.

(* --------------------------------------------- the search on a well-formed stack *)

Definition chunk_first (c : chunk) : Z := match c with [] => 0 | b :: _ => bslot b end.

(* ascending chunk list [cs]: non-empty chunks, increasing slots along the concatenation *)
Definition wf_chunks (cs : list chunk) : Prop :=
  Forall (fun c => c <> []) cs /\ increasing (map bslot (concat cs)).

Lemma wf_chunks_split cs1 c cs2 : wf_chunks (cs1 ++ c :: cs2) ->
  c <> [] /\ (forall b, In b (concat cs1) -> bslot b < chunk_first c) /\
  (forall c', In c' cs2 -> chunk_first c < chunk_first c').
Proof.
  intros [Hne Hinc]. rewrite Forall_app in Hne. destruct Hne as [_ Hne].
  inversion Hne as [|? ? Hc Hne2]; subst. split; [exact Hc|].
  rewrite concat_app, map_app in Hinc. apply increasing_app in Hinc. destruct Hinc as (_ & I2 & I3).
  destruct c as [|f c']; [congruence|]. cbn [chunk_first]. split.
  - intros b Hb. apply I3; [apply in_map, Hb | cbn; left; reflexivity].
  - intros c2 Hc2. cbn [concat map app increasing] in I2. destruct I2 as [Hf _].
    rewrite Forall_forall in Hne2. specialize (Hne2 _ Hc2).
    destruct c2 as [|f2 c2']; [congruence|]. cbn [chunk_first].
    rewrite Forall_forall in Hf. apply Hf. rewrite map_app. apply in_or_app. right.
    apply in_map. apply in_concat. exists (f2 :: c2'). split; [exact Hc2 | left; reflexivity].
Qed.

Lemma cmp_chunk_nonempty c p : c <> [] -> cmp_chunk c p = (chunk_first c ?= p).
Proof. destruct c; [congruence | reflexivity]. Qed.

Lemma nth_split_Z {A} (l : list A) (d : A) (t : Z) : 0 <= t < Z.of_nat (length l) ->
  exists pre post, l = pre ++ nth (Z.to_nat t) l d :: post /\ Z.of_nat (length pre) = t.
Proof.
  intros H. destruct (@nth_split A (Z.to_nat t) l d) as (pre & post & E & L); [lia|].
  exists pre, post. split; [exact E | lia].
Qed.

(* comparator of the stack rev cs is descending *)
Lemma stack_desc cs p : wf_chunks cs ->
  forall i j, 0 <= i < j -> j < Z.of_nat (length (rev cs)) ->
    cmp_chunk (nth (Z.to_nat j) (rev cs) []) p <> Lt -> cmp_chunk (nth (Z.to_nat i) (rev cs) []) p = Gt.
Proof.
  intros W i j Hij Hj Hc.
  (* positions in cs: index i of rev cs is index (n-1-i) of cs *)
  rewrite rev_length in Hj. rewrite rev_nth in Hc by lia. rewrite rev_nth by lia.
  set (a := (length cs - S (Z.to_nat j))%nat) in *. set (b := (length cs - S (Z.to_nat i))%nat) in *.
  assert (Hab : (a < b < length cs)%nat) by lia.
  (* split cs at a *)
  destruct (@nth_split chunk a cs []) as (pre & post & E & La); [lia|].
  assert (Hb : nth b cs [] = nth (b - S a) post []).
  { rewrite E at 1. rewrite app_nth2 by lia. rewrite La.
    replace (b - a)%nat with (S (b - S a)) by lia. reflexivity. }
  assert (Hin : In (nth b cs []) post).
  { rewrite Hb. apply nth_In. assert (length cs = length pre + S (length post))%nat by (rewrite E at 1; rewrite app_length; cbn; lia). lia. }
  rewrite E in W. destruct (wf_chunks_split _ _ _ W) as (Hne & _ & Hlater).
  specialize (Hlater _ Hin).
  assert (Hne2 : nth b cs [] <> []).
  { destruct W as [Hall _]. rewrite Forall_forall in Hall. apply Hall. apply in_or_app. right. right. exact Hin. }
  rewrite cmp_chunk_nonempty in * by assumption.
  destruct (Z.compare_spec (chunk_first (nth a cs [])) p); try congruence;
    destruct (Z.compare_spec (chunk_first (nth b cs [])) p); try reflexivity; lia.
Qed.

(* what read_blocks_from_point (Specific s h) computes on a well-formed database *)
Definition spec_from (ch : list block) (s h : Z) : outcome (list block) :=
  match first_slot ch with
  | None => Err E_CANNOT_FIND
  | Some f => if s <? f then Err E_CANNOT_FIND else judge s h (suffix_from_slot s ch)
  end.

Lemma search_spec cs s h : wf_chunks cs ->
  match chunk_binary_search (rev cs) s with
  | Ok (Some i) => iterate_till_point (flatten_stack (firstn (Z.to_nat (i + 1)) (rev cs))) s h
  | Ok None => Err E_CANNOT_FIND
  | Err e => Err e
  | Panic p => Panic p
  end = spec_from (concat cs) s h.
Proof.
  intros W. unfold chunk_binary_search.
  set (S := rev cs). set (n := Z.of_nat (length S)).
  pose proof (bs_loop_spec n (fun i => cmp_chunk (nth (Z.to_nat i) S []) s)
                (stack_desc cs s W) (Datatypes.S (length S)) 0 n n) as B.
  cbv beta in B.
  destruct (bs_loop (Datatypes.S (length S)) n (fun i => cmp_chunk (nth (Z.to_nat i) S []) s) 0 n n)
    as [[t|]|e|q].
  4: { exfalso. apply B; try lia. split; intros i Hi; lia. }
  3: { exfalso. apply B; try lia. split; intros i Hi; lia. }
  - (* found chunk index t *)
    destruct B as (Ht & Hle & Hgt); try lia; [split; intros i Hi; lia|].
    destruct (nth_split_Z S [] t Ht) as (pre & post & ES & Lp).
    set (c := nth (Z.to_nat t) S []) in *.
    assert (Ecs : cs = rev post ++ c :: rev pre).
    { rewrite <- (rev_involutive cs). fold S. rewrite ES. rewrite rev_app_distr. cbn [rev]. rewrite <- app_assoc. reflexivity. }
    assert (Efirst : firstn (Z.to_nat (t + 1)) S = pre ++ [c]).
    { rewrite ES. replace (Z.to_nat (t + 1)) with (length pre + 1)%nat by lia.
      rewrite firstn_app_2. cbn [firstn]. reflexivity. }
    rewrite Efirst. unfold flatten_stack. rewrite rev_app_distr. cbn [rev app concat].
    rewrite Ecs in W. destruct (wf_chunks_split _ _ _ W) as (Hne & Hbefore & _).
    rewrite iterate_till_point_spec by (destruct c; [congruence | discriminate]).
    rewrite cmp_chunk_nonempty in Hle by exact Hne.
    assert (Hfc : chunk_first c <= s).
    { destruct (Z.compare_spec (chunk_first c) s); try lia. congruence. }
    unfold spec_from. rewrite Ecs. rewrite concat_app. cbn [concat].
    rewrite (suffix_from_all_lt s (concat (rev post))) by (intros b Hb; specialize (Hbefore b Hb); lia).
    (* the first slot of the whole chain is <= s *)
    assert (Hfs : match first_slot (concat (rev post) ++ c ++ concat (rev pre)) with Some f => f <= s | None => False end).
    { destruct (concat (rev post)) as [|b0 r0] eqn:Ep.
      - destruct c as [|f c']; [congruence|]. cbn. cbn in Hfc. exact Hfc.
      - cbn. specialize (Hbefore b0 (or_introl eq_refl)). lia. }
    destruct (first_slot (concat (rev post) ++ c ++ concat (rev pre))) as [f|]; [|contradiction].
    assert (s <? f = false) as -> by lia. reflexivity.
  - (* no chunk starts at or below s *)
    assert (Hall : forall i, 0 <= i < n -> cmp_chunk (nth (Z.to_nat i) S []) s = Gt).
    { apply B; try lia. split; intros i Hi; lia. }
    unfold spec_from. destruct cs as [|c0 r0]; [reflexivity|].
    destruct W as [Hne Hinc]. inversion Hne as [|? ? Hc0 _]; subst.
    destruct c0 as [|f c0']; [congruence|]. cbn [concat app first_slot].
    (* c0 is the last element of the stack *)
    specialize (Hall (n - 1)).
    assert (Hn : n = Z.of_nat (length r0) + 1).
    { unfold n, S. rewrite rev_length. cbn [length]. lia. }
    assert (Hlast : nth (Z.to_nat (n - 1)) S [] = f :: c0').
    { unfold S. cbn [rev]. rewrite app_nth2 by (rewrite rev_length; lia).
      rewrite rev_length. replace (Z.to_nat (n - 1) - length r0)%nat with O by lia. reflexivity. }
    rewrite Hlast in Hall. cbn [cmp_chunk] in Hall.
    assert (Hgt : bslot f > s).
    { specialize (Hall ltac:(lia)). destruct (Z.compare_spec (bslot f) s); try congruence. lia. }
    assert (s <? bslot f = true) as -> by lia. reflexivity.
Qed.

(* ------------------------------------------------------------ whole database *)

Lemma wf_db_chunks d : wf_db d -> wf_chunks (considered d).
Proof. intros H. exact H. Qed.

Lemma read_from_specific d s h : wf_db d ->
  read_blocks_from_point d (Specific s h) = spec_from (chain d) s h.
Proof.
  intros W. unfold read_blocks_from_point. rewrite stack_rev.
  apply (search_spec (considered d) s h (wf_db_chunks d W)).
Qed.

Lemma increasing_first_le l pre b post f : increasing (map bslot l) -> l = pre ++ b :: post ->
  first_slot l = Some f -> f <= bslot b.
Proof.
  intros I E F. subst l. destruct pre as [|p0 pre']; cbn in F; inversion F; subst; [lia|].
  cbn [app map increasing] in I. destruct I as [Ha _]. rewrite Forall_forall in Ha.
  assert (bslot p0 < bslot b); [|lia]. apply Ha. rewrite map_app. apply in_or_app. right. left. reflexivity.
Qed.

Lemma suffix_from_at_block pre b post : increasing (map bslot (pre ++ b :: post)) ->
  suffix_from_slot (bslot b) (pre ++ b :: post) = b :: post.
Proof.
  intros I. rewrite map_app in I. apply increasing_app in I. destruct I as (_ & _ & I3).
  rewrite suffix_from_all_lt.
  - cbn [suffix_from_slot]. assert (bslot b <? bslot b = false) as -> by lia. reflexivity.
  - intros x Hx. apply I3; [apply in_map, Hx | left; reflexivity].
Qed.

Lemma exact_suffix d pre b post : wf_db d -> chain d = pre ++ b :: post ->
  read_blocks_from_point d (Specific (bslot b) (bhash b)) = Ok (b :: post).
Proof.
  intros W E. rewrite (read_from_specific d _ _ W). unfold spec_from.
  destruct W as [_ Hinc].
  destruct (first_slot (chain d)) as [f|] eqn:F.
  2:{ rewrite E in F. destruct pre; discriminate. }
  pose proof (increasing_first_le _ _ _ _ _ Hinc E F) as Hle.
  assert (bslot b <? f = false) as -> by lia.
  rewrite E in *. rewrite (suffix_from_at_block pre b post Hinc). cbn [judge]. unfold accepts.
  rewrite !Z.eqb_refl. cbn [andb]. rewrite orb_true_r. reflexivity.
Qed.

Lemma fuzzy_suffix d s f : wf_db d -> first_slot (chain d) = Some f -> f <= s ->
  read_blocks_from_point d (Specific s EMPTY_HASH) = Ok (suffix_from_slot s (chain d)).
Proof.
  intros W F Hle. rewrite (read_from_specific d _ _ W). unfold spec_from. rewrite F.
  assert (s <? f = false) as -> by lia.
  pose proof (suffix_from_head_ge s (chain d)) as Hh.
  destruct (suffix_from_slot s (chain d)) as [|b r]; cbn [judge]; [reflexivity|].
  unfold accepts. rewrite Z.eqb_refl. assert (s <=? bslot b = true) as -> by lia. reflexivity.
Qed.

Lemma before_first_fails d s h : wf_db d ->
  match first_slot (chain d) with None => True | Some f => s < f end ->
  read_blocks_from_point d (Specific s h) = Err E_CANNOT_FIND.
Proof.
  intros W H. rewrite (read_from_specific d _ _ W). unfold spec_from.
  destruct (first_slot (chain d)) as [f|]; [|reflexivity].
  assert (s <? f = true) as -> by lia. reflexivity.
Qed.

Lemma suffix_from_incl s l b : In b (suffix_from_slot s l) -> In b l.
Proof.
  induction l as [|x r IH]; cbn [suffix_from_slot]; [tauto|].
  destruct (bslot x <? s); [intros H; right; apply IH, H | tauto].
Qed.

Lemma absent_fails d s h : wf_db d -> h <> EMPTY_HASH ->
  (forall b, In b (chain d) -> ~ (bslot b = s /\ bhash b = h)) ->
  read_blocks_from_point d (Specific s h) = Err E_CANNOT_FIND.
Proof.
  intros W Hh Habs. rewrite (read_from_specific d _ _ W). unfold spec_from.
  destruct (first_slot (chain d)) as [f|]; [|reflexivity].
  destruct (s <? f); [reflexivity|].
  assert (Eh : h =? EMPTY_HASH = false) by lia.
  destruct (suffix_from_slot s (chain d)) as [|b r] eqn:E; cbn [judge]; [rewrite Eh; reflexivity|].
  unfold accepts. rewrite Eh. cbn [andb orb].
  destruct ((bhash b =? h) && (bslot b =? s)) eqn:Ea; [|reflexivity].
  exfalso. apply (Habs b); [|lia]. apply (suffix_from_incl s). rewrite E. left. reflexivity.
Qed.

(* get_tip *)
Lemma rev_case {A} (l : list A) : l = [] \/ exists l' x, l = l' ++ [x].
Proof. destruct l as [|a r] using rev_ind; [left; reflexivity | right; eauto]. Qed.

Lemma last_map_some {A} (l : list A) (d : A) : l <> [] -> last (map Some l) None = Some (last l d).
Proof.
  induction l as [|x r IH]; [congruence|]. intros _. destruct r as [|y r']; [reflexivity|].
  cbn [map last] in *. apply IH. discriminate.
Qed.

Lemma last_concat_nonempty (cs : list chunk) (c : chunk) (d : block) : c <> [] ->
  last (concat (cs ++ [c])) d = last c d.
Proof.
  intros Hc. rewrite concat_app. cbn [concat]. rewrite app_nil_r.
  induction (concat cs) as [|x r IH]; [reflexivity|].
  cbn [app]. destruct (r ++ c) eqn:E; [destruct r, c; cbn in E; congruence|]. cbn [last]. exact IH.
Qed.

Lemma tip_last d : wf_db d ->
  get_tip d = match chain d with [] => None | b :: r => Some (last (b :: r) b) end.
Proof.
  intros [Hne _]. unfold get_tip, chain. rewrite stack_rev.
  destruct (rev_case (considered d)) as [E|(l & x & E)]; rewrite E in *; [reflexivity|].
  rewrite rev_app_distr. cbn [rev app].
  rewrite Forall_app in Hne. destruct Hne as [_ Hx]. inversion Hx as [|? ? Hxn _]; subst.
  destruct (concat (l ++ [x])) as [|b r] eqn:Ec.
  - rewrite concat_app in Ec. cbn in Ec. destruct (concat l), x; cbn in Ec; congruence.
  - rewrite (last_map_some x b Hxn). rewrite <- Ec. rewrite (last_concat_nonempty l x b Hxn). reflexivity.
Qed.

Lemma origin_spec d :
  read_blocks_from_point d Origin =
  match chain d with
  | [] => Ok []
  | b :: _ => if (bslot b =? 0) && (bnum b =? 0) then Ok (chain d) else Err E_ORIGIN_MISSING
  end.
Proof.
  unfold read_blocks_from_point. fold (read_blocks d). rewrite read_blocks_chain. reflexivity.
Qed.

(* chunk_binary_search on a well-formed stack: the found index is the FIRST chunk of
   the (descending) stack whose first slot is <= s, None iff there is none *)
Lemma binary_search_wf cs s : wf_chunks cs ->
  match chunk_binary_search (rev cs) s with
  | Ok (Some t) => exists pre c post, rev cs = pre ++ c :: post /\ Z.of_nat (length pre) = t /\
                     chunk_first c <= s /\ Forall (fun c' => s < chunk_first c') pre
  | Ok None => Forall (fun c => s < chunk_first c) cs
  | _ => False
  end.
Proof.
  intros W. unfold chunk_binary_search.
  set (S := rev cs). set (n := Z.of_nat (length S)).
  assert (Hall : Forall (fun c => c <> []) S).
  { destruct W as [Hne _]. unfold S. apply Forall_forall. intros c Hc. rewrite <- in_rev in Hc.
    rewrite Forall_forall in Hne. apply Hne, Hc. }
  pose proof (bs_loop_spec n (fun i => cmp_chunk (nth (Z.to_nat i) S []) s)
                (stack_desc cs s W) (Datatypes.S (length S)) 0 n n) as B.
  cbv beta in B.
  destruct (bs_loop (Datatypes.S (length S)) n (fun i => cmp_chunk (nth (Z.to_nat i) S []) s) 0 n n)
    as [[t|]|e|q].
  4: { apply B; try lia. split; intros i Hi; lia. }
  3: { apply B; try lia. split; intros i Hi; lia. }
  - destruct B as (Ht & Hle & Hgt); try lia; [split; intros i Hi; lia|].
    destruct (nth_split_Z S [] t Ht) as (pre & post & ES & Lp).
    exists pre, (nth (Z.to_nat t) S []), post. split; [exact ES|]. split; [exact Lp|].
    assert (Hc : nth (Z.to_nat t) S [] <> []).
    { rewrite Forall_forall in Hall. apply Hall. apply nth_In. lia. }
    rewrite cmp_chunk_nonempty in Hle by exact Hc. split.
    + destruct (Z.compare_spec (chunk_first (nth (Z.to_nat t) S [])) s); try lia. congruence.
    + apply Forall_forall. intros c' Hc'. apply In_nth with (d := []) in Hc'. destruct Hc' as (k & Hk & <-).
      specialize (Hgt (Z.of_nat k) ltac:(lia)). rewrite Nat2Z.id in Hgt.
      assert (Enth : nth k S [] = nth k pre []) by (rewrite ES; apply app_nth1; exact Hk).
      rewrite Enth in Hgt.
      assert (Hne : nth k pre [] <> []).
      { rewrite <- Enth. rewrite Forall_forall in Hall. apply Hall. apply nth_In.
        rewrite ES, app_length. lia. }
      rewrite cmp_chunk_nonempty in Hgt by exact Hne.
      destruct (Z.compare_spec (chunk_first (nth k pre [])) s); try congruence; try lia.
  - assert (Hgt : forall i, 0 <= i < n -> cmp_chunk (nth (Z.to_nat i) S []) s = Gt).
    { apply B; try lia. split; intros i Hi; lia. }
    apply Forall_forall. intros c Hc. rewrite (in_rev cs) in Hc. fold S in Hc.
    apply In_nth with (d := []) in Hc. destruct Hc as (k & Hk & <-).
    specialize (Hgt (Z.of_nat k) ltac:(lia)). rewrite Nat2Z.id in Hgt.
    assert (Hne : nth k S [] <> []) by (rewrite Forall_forall in Hall; apply Hall, nth_In, Hk).
    rewrite cmp_chunk_nonempty in Hgt by exact Hne.
    destruct (Z.compare_spec (chunk_first (nth k S [])) s); try congruence; try lia.
Qed.
