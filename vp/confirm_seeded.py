#!/usr/bin/env python3
"""Confirm a candidate seeded change independently, then keep it under seeded/.

  vp/confirm_seeded.py /tmp/mut-out/<name>

In a fresh scratch worktree of /repo: (1) demo passes without the change,
(2) patch applies and the affected crate's existing tests still pass unedited,
(3) demo fails with the change. Only then is it copied to /verif/seeded/<name>/
with meta.json recording what was run. The worktree and its build output are removed.
"""
import json, os, shutil, subprocess, sys, time
V = os.path.dirname(os.path.dirname(os.path.abspath(__file__)))

def sh(cmd, cwd, env, timeout=3600):
    p = subprocess.run(cmd, cwd=cwd, env=env, shell=True, stdout=subprocess.PIPE, stderr=subprocess.STDOUT, text=True, timeout=timeout)
    return p.returncode, p.stdout

src = sys.argv[1].rstrip("/")
name = os.path.basename(src)
meta = json.load(open(os.path.join(src, "meta.json")))
slot = sys.argv[sys.argv.index("--slot") + 1] if "--slot" in sys.argv else None
# with --slot the worktree path and cargo target dir are reused by later confirmations of that slot
wt = "/tmp/confirm-wt-%s" % slot if slot else "/tmp/confirm-%s-wt" % name
tgt = "/tmp/confirm-target-%s" % slot if slot else "/tmp/confirm-%s-target" % name
subprocess.run(["git", "-C", "/repo", "worktree", "remove", "--force", wt], stdout=subprocess.DEVNULL, stderr=subprocess.DEVNULL)
env = dict(os.environ, CARGO_TARGET_DIR=tgt, CARGO_NET_OFFLINE="true")
ran, ok = [], False
try:
    for _try in range(20):
        if subprocess.run(["git", "-C", "/repo", "worktree", "add", "--detach", wt, "HEAD"], stdout=subprocess.DEVNULL, stderr=subprocess.DEVNULL).returncode == 0:
            break
        subprocess.run(["git", "-C", "/repo", "worktree", "prune"], stdout=subprocess.DEVNULL, stderr=subprocess.DEVNULL)
        time.sleep(3)
    else:
        sys.exit("could not create worktree")
    shutil.copyfile("/repo/Cargo.lock", os.path.join(wt, "Cargo.lock"))
    demo_dst = os.path.join(wt, meta["demo_path"])
    os.makedirs(os.path.dirname(demo_dst), exist_ok=True)
    shutil.copyfile(os.path.join(src, "demo.rs"), demo_dst)
    rc1, out1 = sh(meta["demo_cmd"], wt, env)
    ran.append({"step": "demo on unchanged tree", "cmd": meta["demo_cmd"], "exit": rc1})
    rc, out = sh("git apply --check %s && git apply %s" % (os.path.join(src, "patch.diff"), os.path.join(src, "patch.diff")), wt, env)
    ran.append({"step": "git apply patch.diff", "exit": rc})
    if rc != 0:
        print("patch does not apply:", out[-500:])
    os.remove(demo_dst)
    rc2, out2 = sh(meta["existing_tests_cmd"], wt, env) if rc == 0 else (99, "")
    ran.append({"step": "existing tests with the change", "cmd": meta["existing_tests_cmd"], "exit": rc2,
                "summary": [l for l in out2.split("\n") if l.startswith("test result")][:12]})
    shutil.copyfile(os.path.join(src, "demo.rs"), demo_dst)
    rc3, out3 = sh(meta["demo_cmd"], wt, env) if rc == 0 else (99, "")
    ran.append({"step": "demo with the change", "cmd": meta["demo_cmd"], "exit": rc3, "tail": out3[-800:]})
    compiled = rc == 0 and "error[E" not in out3 and "could not compile" not in out3
    ok = rc1 == 0 and rc == 0 and rc2 == 0 and rc3 != 0 and compiled
    print("%s: demo-before=%d apply=%d existing-tests=%d demo-after=%d compiled=%s => %s" % (name, rc1, rc, rc2, rc3, compiled, "CONFIRMED" if ok else "REJECTED"))
    if not ok:
        print(out1[-600:] if rc1 else "", out2[-1200:] if rc2 else "")
finally:
    subprocess.run(["git", "-C", "/repo", "worktree", "remove", "--force", wt], stdout=subprocess.DEVNULL, stderr=subprocess.DEVNULL)
    if not slot:
        shutil.rmtree(tgt, ignore_errors=True)
    shutil.rmtree(wt, ignore_errors=True)
if ok:
    dst = os.path.join(V, "seeded", name)
    os.makedirs(dst, exist_ok=True)
    for f in ("patch.diff", "demo.rs"):
        shutil.copyfile(os.path.join(src, f), os.path.join(dst, f))
    meta["confirmed"] = {"repo_head": subprocess.run(["git", "-C", "/repo", "rev-parse", "HEAD"], stdout=subprocess.PIPE, text=True).stdout.strip(), "ran": ran}
    json.dump(meta, open(os.path.join(dst, "meta.json"), "w"), indent=1)
sys.exit(0 if ok else 1)
