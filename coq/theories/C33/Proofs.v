(* C33 proofs: no modelled check panics on well-formed (in-range) inputs. *)
From PV Require Import Lib.Base C33.Model C33.ModelPA.
Open Scope Z_scope.

Definition np {A} (o : outcome A) : Prop := is_panic o = false.

Lemma np_ok {A} (a : A) : np (Ok a). Proof. reflexivity. Qed.
Lemma np_err {A} e : np (@Err A e). Proof. reflexivity. Qed.
Lemma np_bind {A B} (x : outcome A) (f : A -> outcome B) :
  np x -> (forall a, x = Ok a -> np (f a)) -> np (bind x f).
Proof. destruct x; cbn; intros H1 H2; [apply H2; reflexivity | reflexivity | discriminate]. Qed.
Lemma np_fail_if b e : np (fail_if b e). Proof. destruct b; reflexivity. Qed.
Lemma np_ok_or {A} (o : option A) e : np (ok_or o e). Proof. destruct o; reflexivity. Qed.
#[global] Hint Resolve np_ok np_err np_fail_if np_ok_or : np.

(* generic step: peel binds, case on scrutinees, close leaves *)
Ltac np_step :=
  match goal with
  | |- np (Ok _) => reflexivity
  | |- np (Err _) => reflexivity
  | |- np ok => reflexivity
  | |- np (fail_if _ _) => apply np_fail_if
  | |- np (ok_or _ _) => apply np_ok_or
  | |- np (bind _ _) => apply np_bind; [| intros ? ?]
  | |- np (if ?b then _ else _) => destruct b eqn:?
  | |- np (match ?x with _ => _ end) => destruct x eqn:?
  | |- np (let '(_, _) := ?x in _) => destruct x eqn:?
  end.
Ltac np_auto := repeat np_step; eauto with np.

(* ---------------------------------------------------------------- value arithmetic *)
Lemma np_add_same cadd old new e : np (add_same cadd old new e).
Proof. revert old; induction new as [|[n q] r IH]; intros old; cbn [add_same]; np_auto. Qed.
Lemma np_add_into cadd res x e : np (add_into cadd res x e).
Proof. revert res; induction x as [|[p a] r IH]; intros res; cbn [add_into]; np_auto. apply np_add_same. Qed.
Lemma np_add_ma cadd f s e : np (add_ma cadd f s e).
Proof. unfold add_ma. np_auto; apply np_add_into. Qed.
Lemma np_coerce m e : np (coerce_to_coin m e). Proof. unfold coerce_to_coin. np_auto. Qed.
Lemma np_coerce_i64 m e : np (coerce_to_i64 m e). Proof. unfold coerce_to_i64. np_auto. Qed.
#[global] Hint Resolve np_coerce_i64 : np.
Lemma np_ccoerce m e : np (conway_coerce_to_coin m e). Proof. unfold conway_coerce_to_coin. np_auto. Qed.
Lemma np_add_lovelace a b e : np (add_lovelace a b e). Proof. unfold add_lovelace. np_auto. Qed.
#[global] Hint Resolve np_add_same np_add_into np_add_ma np_coerce np_ccoerce np_add_lovelace : np.
Lemma np_add_values f s e : np (add_values f s e).
Proof. unfold add_values. np_auto. Qed.
Lemma np_conway_add_values f s e : np (conway_add_values f s e).
Proof. unfold conway_add_values. np_auto. Qed.
Lemma np_add_minted b m e : np (add_minted_value b m e).
Proof. unfold add_minted_value. np_auto. Qed.
Lemma np_lovelace_diff sk f s e : np (lovelace_diff sk f s e).
Proof. unfold lovelace_diff. np_auto. Qed.
#[global] Hint Resolve np_add_values np_conway_add_values np_add_minted np_lovelace_diff : np.

(* the lovelace of a sum is below 2^64 *)
Lemma add_lovelace_lt a b e c : add_lovelace a b e = Ok c -> c < U64.
Proof. unfold add_lovelace, cadd64. destruct (a + b <? U64) eqn:E; cbn; intros H; inversion H; lia. Qed.
Lemma bind_ok {A B} (x : outcome A) (f : A -> outcome B) b : bind x f = Ok b -> exists a, x = Ok a /\ f a = Ok b.
Proof. destruct x; cbn; intros H; try discriminate. eauto. Qed.
Lemma add_values_lt f s e v : add_values f s e = Ok v -> coin_of v < U64.
Proof.
  unfold add_values. destruct f, s; intros H;
    repeat (apply bind_ok in H as (? & ? & H)); inversion H; subst; cbn; eauto using add_lovelace_lt.
Qed.
Lemma conway_add_values_lt f s e v : conway_add_values f s e = Ok v -> coin_of v < U64.
Proof.
  unfold conway_add_values. destruct f, s; intros H;
    repeat (apply bind_ok in H as (? & ? & H)); inversion H; subst; cbn; eauto using add_lovelace_lt.
Qed.
Lemma lovelace_diff_le sk f s e p : lovelace_diff sk f s e = Ok p -> 0 <= coin_of s -> p <= coin_of f.
Proof.
  unfold lovelace_diff. destruct f, s; cbn; intros H Hs;
    repeat match type of H with (if ?b then _ else _) = _ => destruct b end; inversion H; lia.
Qed.

(* ---------------------------------------------------------------- well-formedness (ranges of the Rust types) *)
Lemma lookup_wf b i u o : wf_utxo u = true -> lookup b i u = Some o -> coin_of (u_val o) < U64.
Proof.
  induction u as [|[[[kb kh] kix] ko] r IH]; cbn [lookup wf_utxo forallb]; [discriminate|].
  intros Hw Hl. apply andb_true_iff in Hw as [H1 H2].
  destruct (Bool.eqb kb b && (kh =? fst i) && (kix =? snd i)).
  - inversion Hl; subst. cbn in H1. lia.
  - apply IH; assumption.
Qed.

Lemma mul_lt_128 a b : 0 <= b < U64 -> a < U64 -> a * b < U128.
Proof.
  intros Hb Ha. destruct (Z_lt_le_dec a 0) as [Hn|Hp].
  - assert (a * b <= 0) by (apply Z.mul_nonpos_nonneg; lia). unfold U128. lia.
  - replace U128 with (U64 * U64) by reflexivity. apply Z.mul_lt_mono_nonneg; lia.
Qed.
Lemma np_mul128 a b : 0 <= b -> a < U64 -> b < U64 -> np (mul128 a b).
Proof.
  intros Hb Ha Hb2. unfold mul128. destruct (a * b <? U128) eqn:E; [reflexivity|].
  exfalso. assert (a * b < U128) by (apply mul_lt_128; lia). lia.
Qed.
Lemma np_pct_below paid fee pct : paid < U64 -> 0 <= fee < U64 -> 0 <= pct < U32 -> np (pct_below paid fee pct).
Proof.
  intros Hp Hf Hc. unfold pct_below. np_auto.
  - apply np_mul128; unfold U64 in *; lia.
  - apply np_mul128; unfold U64, U32 in *; lia.
Qed.
Lemma np_min_fee dev pp size : wf_params pp = true -> np (min_fee_u32 dev pp size).
Proof.
  unfold wf_params, in_u32. intros H. repeat (apply andb_true_iff in H as [H ?]).
  unfold min_fee_u32, mul64, add64, as_u32.
  assert (Hs : 0 <= size mod U32 < U32) by (apply Z.mod_pos_bound; unfold U32; lia).
  assert (Hm : 0 <= p_minfee_a pp * (size mod U32) <= (U32 - 1) * (U32 - 1)).
  { split; [apply Z.mul_nonneg_nonneg; lia|]. apply Z.mul_le_mono_nonneg; lia. }
  assert (Hc : (U32 - 1) * (U32 - 1) + U32 < U64) by reflexivity.
  destruct (p_minfee_a pp * (size mod U32) <? U64) eqn:E1; [|exfalso; lia].
  cbn [bind]. destruct (p_minfee_b pp + p_minfee_a pp * (size mod U32) <? U64) eqn:E2; [reflexivity|exfalso; lia].
Qed.

(* ---------------------------------------------------------------- Byron *)
Lemma np_byron_balance ins u acc o : np (byron_inputs_balance ins u acc o).
Proof. revert acc o; induction ins as [|i r IH]; intros acc o; cbn [byron_inputs_balance]; np_auto. Qed.
Lemma np_sum_checked l acc e : np (sum_checked l acc e).
Proof. revert acc; induction l as [|x r IH]; intros acc; cbn [sum_checked]; np_auto. Qed.
Lemma np_byron_find ws ms bt : np (byron_find_witness ws ms bt).
Proof. revert ms; induction ws as [|w r IH]; intros ms; cbn [byron_find_witness]; np_auto. Qed.
#[global] Hint Resolve np_byron_balance np_sum_checked np_byron_find : np.
Lemma np_byron_inputs ins u ws : np (byron_check_inputs ins u ws).
Proof. induction ins as [|i r IH]; cbn [byron_check_inputs]; np_auto. Qed.
#[global] Hint Resolve np_byron_inputs : np.

Lemma Forall_np_byron t u e : Forall np (byron_checks t u e).
Proof.
  unfold byron_checks. repeat constructor;
    unfold byron_check_ins_not_empty, byron_check_outs_not_empty, byron_check_ins_in_utxos,
      byron_check_outs_have_lovelace, byron_check_fees, byron_check_size, byron_check_witnesses; np_auto.
Qed.

Lemma np_seq l : Forall np l -> np (seq_checks l).
Proof. induction 1; cbn [seq_checks]; np_auto. Qed.

(* ---------------------------------------------------------------- Shelley-MA *)
Lemma np_sh_consumed ins u sh acc : np (sh_consumed_ins ins u sh acc).
Proof. revert acc; induction ins as [|i r IH]; intros acc; cbn [sh_consumed_ins]; np_auto. Qed.
Lemma np_sh_produced outs sh acc : np (sh_produced_outs outs sh acc).
Proof. revert acc; induction outs as [|o r IH]; intros acc; cbn [sh_produced_outs]; np_auto. Qed.
Lemma np_check_vk_wit h ws a b : np (check_vk_wit h ws a b).
Proof. induction ws as [|[c k] r IH]; cbn [check_vk_wit]; np_auto. Qed.
Lemma np_check_remaining ws e : np (check_remaining ws e).
Proof. induction ws as [|[c k] r IH]; cbn [check_remaining]; np_auto. Qed.
Lemma np_sh_native h ns : np (sh_native_witness h ns).
Proof. unfold sh_native_witness. np_auto. Qed.
#[global] Hint Resolve np_sh_consumed np_sh_produced np_check_vk_wit np_check_remaining np_sh_native : np.
Lemma np_sh_wit_inputs ins u ws ns : np (sh_wit_inputs ins u ws ns).
Proof. revert ws; induction ins as [|i r IH]; intros ws; cbn [sh_wit_inputs]; np_auto. Qed.
#[global] Hint Resolve np_sh_wit_inputs : np.
Lemma np_sh_network t e : np (sh_check_network_id t e).
Proof. unfold sh_check_network_id. induction (t_outputs t) as [|o r IH]; np_auto. Qed.
Lemma np_check_aux t e : np (check_aux t e).
Proof. unfold check_aux. np_auto. Qed.
#[global] Hint Resolve np_sh_network np_check_aux : np.

(* ---- certificates *)
(* the one operation of check_certificates that can still overflow: first_slot (pallas-traverse time.rs)
   in the MIR deadline test, in overflow-checked builds *)
Lemma np_first_slot dev ep : dev = false \/ 4492800 + (ep - 208) * 432000 < U64 -> np (first_slot dev ep).
Proof.
  intros H. unfold first_slot, mul64, add64. destruct (ep <? 208) eqn:E; [reflexivity|].
  destruct dev.
  - destruct H as [H|H]; [discriminate|].
    assert (0 <= (ep - 208) * 432000) by lia.
    destruct ((ep - 208) * 432000 <? U64) eqn:E1; [|exfalso; lia]. cbn [bind].
    destruct (4492800 + (ep - 208) * 432000 <? U64) eqn:E2; [reflexivity | exfalso; lia].
  - destruct ((ep - 208) * 432000 <? U64); cbn [bind];
      match goal with |- np (if ?b then _ else _) => destruct b end; reflexivity.
Qed.
Lemma np_sh_check_mir dev tr tg st slot pt pr :
  dev = false \/ 4492800 + (to_epoch slot + 1 - 208) * 432000 < U64 -> np (sh_check_mir dev tr tg st slot pt pr).
Proof.
  intros H. unfold sh_check_mir. apply np_bind; [apply np_first_slot; exact H|]. intros fs _.
  destruct (fs <=? sat_add64 slot STAB_WIN); [reflexivity|].
  match goal with |- np (match ?x with _ => _ end) => pose proof (np_sum_checked _ _ _ : np x) as Hs; destruct x end;
    [np_auto | reflexivity | discriminate Hs].
Qed.
Definition is_mir (c : cert) : bool := match c with CMir _ _ => true | _ => false end.
Definition mir_slot_ok (dev : bool) (cs : list cert) (e : env) : Prop :=
  existsb is_mir cs = false \/ dev = false \/ 4492800 + (to_epoch (e_slot e) + 1 - 208) * 432000 < U64.
Lemma np_sh_cert dev c ix st cnt e : mir_slot_ok dev [c] e -> np (fst (sh_cert dev c ix st cnt e)).
Proof.
  intros H. destruct cnt as [[d r] p]. destruct c; cbn [sh_cert];
    repeat match goal with
           | |- np (fst (if ?b then _ else _)) => destruct b
           | |- np (fst (match ?x with _ => _ end)) => destruct x
           | |- np (fst (let _ := _ in _)) => cbv zeta
           end; try reflexivity.
  cbn [fst]. apply np_sh_check_mir. destruct H as [H|H]; [cbn in H; discriminate | exact H].
Qed.
Lemma np_sh_certs_loop dev cs : forall ix cix st cnt e, mir_slot_ok dev cs e -> np (fst (sh_certs_loop dev cs ix cix st cnt e)).
Proof.
  induction cs as [|c r IH]; intros ix cix st cnt e H; cbn [sh_certs_loop]; [reflexivity|].
  assert (H1 : mir_slot_ok dev [c] e).
  { destruct H as [H|H]; [left | right; exact H]. cbn in *. apply orb_false_iff in H as [-> _]. reflexivity. }
  assert (H2 : mir_slot_ok dev r e).
  { destruct H as [H|H]; [left | right; exact H]. cbn in H. apply orb_false_iff in H as [_ H]. exact H. }
  pose proof (np_sh_cert dev c cix st cnt e H1) as Hc.
  destruct (sh_cert dev c cix st cnt e) as [[st'|x|p] cnt']; cbn [fst] in *; [apply IH; exact H2 | reflexivity | discriminate].
Qed.
Lemma np_sh_certs dev t e : mir_slot_ok dev (opt_list (t_certs t)) e -> np (fst (sh_certs dev t e)).
Proof. unfold sh_certs. destruct (t_certs t); cbn [opt_list]; intros H; [apply np_sh_certs_loop; exact H | reflexivity]. Qed.

Lemma np_sh_preservation dev t u pp cnt : np (sh_check_preservation dev t u pp cnt).
Proof.
  destruct cnt as [[d r] p]. unfold sh_check_preservation, sh_get_consumed, sh_get_produced. np_auto.
Qed.
Lemma Forall_np_shelley dev t u e :
  wf_params (e_pp e) = true -> mir_slot_ok dev (opt_list (t_certs t)) e -> Forall np (shelley_checks dev t u e).
Proof.
  intros Hp Hc. unfold shelley_checks. repeat constructor;
    try (apply np_sh_certs; exact Hc); try apply np_sh_preservation;
    unfold sh_check_ins_not_empty, sh_check_ins_in_utxos, sh_check_ttl, sh_check_tx_size, sh_check_min_lovelace_era,
      sh_check_min_lovelace, sh_check_fees, sh_check_witnesses, sh_check_minting; np_auto.
  apply np_min_fee; assumption.
Qed.

(* ---------------------------------------------------------------- shared post-Shelley pieces *)
Lemma np_coll_address c u se a b d : np (coll_address c u se a b d).
Proof. induction c as [|i r IH]; cbn [coll_address]; np_auto. Qed.
Lemma np_ex_sums l m s e : np (ex_sums l m s e).
Proof. revert m s; induction l as [|r rest IH]; intros m s; cbn [ex_sums]; np_auto. Qed.
Lemma np_find_req h ws a b : np (find_req_signer h ws a b).
Proof. induction ws as [|k r IH]; cbn [find_req_signer]; np_auto. Qed.
#[global] Hint Resolve np_coll_address np_ex_sums np_find_req : np.
Lemma np_each_req req ws a b : np (each_req_signer req ws a b).
Proof. induction req as [|h r IH]; cbn [each_req_signer]; np_auto. Qed.
Lemma np_vk_inputs ins u sel ws a b c d : np (vk_inputs ins u sel ws a b c d).
Proof. revert ws; induction ins as [|i r IH]; intros ws; cbn [vk_inputs]; np_auto. Qed.
Lemma np_outs_network l n a b : np (outs_network l n a b).
Proof. induction l as [|o r IH]; cbn [outs_network]; np_auto. Qed.
#[global] Hint Resolve np_each_req np_vk_inputs np_outs_network : np.
Lemma np_check_validity t e a b : np (check_validity t e a b). Proof. unfold check_validity. np_auto. Qed.
Lemma np_coll_number c pp a b : np (coll_number c pp a b). Proof. unfold coll_number. np_auto. Qed.
Lemma np_check_ex_units t pp pl a b : np (check_ex_units t pp pl a b). Proof. unfold check_ex_units. np_auto. Qed.
Lemma np_ptrs r n a b : np (ptrs_coincide r n a b). Proof. unfold ptrs_coincide. np_auto. Qed.
Lemma np_req_signers t vk a b : np (check_required_signers t vk a b). Proof. unfold check_required_signers. np_auto. Qed.
Lemma np_vkey_wits t u sel vk a b c d : np (check_vkey_input_wits t u sel vk a b c d).
Proof. unfold check_vkey_input_wits. np_auto. Qed.
Lemma np_check_network t e a b c : np (check_network t e a b c). Proof. unfold check_network. np_auto. Qed.
Lemma np_val_size t pp c : np (check_val_size t pp c). Proof. unfold check_val_size. np_auto. Qed.
Lemma np_min_lovelace_with f t pp c : np (check_min_lovelace_with f t pp c). Proof. unfold check_min_lovelace_with. np_auto. Qed.
Lemma np_check_min_fee dev t pp c : wf_params pp = true -> np (check_min_fee dev t pp c).
Proof. intros H. unfold check_min_fee. np_auto. apply np_min_fee; assumption. Qed.
#[global] Hint Resolve np_check_validity np_coll_number np_check_ex_units np_ptrs np_req_signers np_vkey_wits
  np_check_network np_val_size np_min_lovelace_with np_check_min_fee : np.
Lemma np_produced add outs acc e : (forall a b c, np (add a b c)) -> np (produced add outs acc e).
Proof. intros Ha. revert acc; induction outs as [|o r IH]; intros acc; cbn [produced]; np_auto. Qed.

(* ---------------------------------------------------------------- Alonzo *)
Lemma np_al_coll_assets c u fee pct :
  wf_utxo u = true -> 0 <= fee < U64 -> 0 <= pct < U32 -> np (al_coll_assets c u fee pct).
Proof.
  intros Hu Hf Hp. induction c as [|i r IH]; cbn [al_coll_assets]; [reflexivity|].
  apply np_bind; [auto with np|]. intros o Ho.
  unfold ok_or in Ho. destruct (lookup false i u) eqn:E; inversion Ho; subst.
  apply np_bind; [|intros; exact IH].
  destruct (is_alonzo_c o); [|reflexivity].
  apply np_bind; [apply np_pct_below; eauto using lookup_wf|]. intros b _. np_auto.
Qed.
Lemma np_al_consumed ins u acc : np (al_consumed ins u acc).
Proof. revert acc; induction ins as [|i r IH]; intros acc; cbn [al_consumed]; np_auto. Qed.
Lemma np_al_input_datums ins u ds : np (al_input_datums ins u ds).
Proof. revert ds; induction ins as [|i r IH]; intros ds; cbn [al_input_datums]; np_auto. Qed.
#[global] Hint Resolve np_al_consumed np_al_input_datums : np.

Lemma wf_split pp t : wf_params pp = true -> wf_tx t = true ->
  0 <= t_fee t < U64 /\ 0 <= p_collateral_percentage pp < U32.
Proof.
  unfold wf_params, wf_tx, in_u32, in_u64. intros H1 H2.
  repeat (apply andb_true_iff in H1 as [H1 ?]). apply andb_true_iff in H2 as [H2 ?]. lia.
Qed.

Lemma Forall_np_alonzo dev t u e :
  wf_params (e_pp e) = true -> wf_tx t = true -> wf_utxo u = true -> Forall np (alonzo_checks dev t u e).
Proof.
  intros Hp Ht Hu. destruct (wf_split _ _ Hp Ht) as [Hf Hc].
  unfold alonzo_checks. repeat constructor;
    unfold al_check_ins_not_empty, al_check_ins_coll_in_utxos, al_check_fee, al_check_collaterals, al_check_preservation,
      al_check_witness_set, al_check_needed_scripts, al_check_datums, al_check_sdh, al_check_minting; np_auto.
  - apply np_al_coll_assets; assumption.
  - apply np_produced. intros; apply np_add_values.
Qed.

(* ---------------------------------------------------------------- Babbage / Conway *)
Lemma np_pa_add cw a b e : np (pa_add cw a b e).
Proof. unfold pa_add. destruct cw; auto with np. Qed.
#[global] Hint Resolve np_pa_add : np.
Lemma pa_add_lt cw a b e v : pa_add cw a b e = Ok v -> coin_of v < U64.
Proof. unfold pa_add. destruct cw; eauto using add_values_lt, conway_add_values_lt. Qed.
Lemma np_pa_sum_utxo cw l u acc e : np (pa_sum_utxo cw l u acc e).
Proof. revert acc; induction l as [|i r IH]; intros acc; cbn [pa_sum_utxo]; np_auto. Qed.
#[global] Hint Resolve np_pa_sum_utxo : np.
Lemma np_pa_sum_refs cw l u a b : np (pa_sum_refs cw l u a b).
Proof. unfold pa_sum_refs. np_auto. Qed.
#[global] Hint Resolve np_pa_sum_refs : np.

Lemma into_conway_coin v : coin_of (into_conway v) = coin_of v.
Proof. destruct v; cbn; [reflexivity|]. destruct (is_nil _); reflexivity. Qed.
Lemma utxo_value_lt cw o : coin_of (u_val o) < U64 -> coin_of (utxo_value cw o) < U64.
Proof.
  unfold utxo_value. destruct cw, (u_era o); try destruct (u_legacy o); cbn [coin_of];
    rewrite ?into_conway_coin; auto.
Qed.
Lemma pa_sum_utxo_lt cw l u acc e v : wf_utxo u = true -> coin_of acc < U64 ->
  pa_sum_utxo cw l u acc e = Ok v -> coin_of v < U64.
Proof.
  intros Hu. revert acc; induction l as [|i r IH]; intros acc Ha H; cbn [pa_sum_utxo] in H.
  - inversion H; subst; assumption.
  - apply bind_ok in H as (o & Ho & H). apply bind_ok in H as (a & Hadd & H).
    eapply IH; [|exact H]. eapply pa_add_lt; eauto.
Qed.
Lemma pa_sum_refs_lt cw l u a b v : wf_utxo u = true -> pa_sum_refs cw l u a b = Ok v -> coin_of v < U64.
Proof.
  intros Hu. unfold pa_sum_refs. destruct cw.
  - destruct l as [|i r]; [discriminate|]. intros H. apply bind_ok in H as (o & Ho & H).
    eapply pa_sum_utxo_lt; [exact Hu| |exact H]. apply utxo_value_lt.
    unfold ok_or in Ho. destruct (lookup false i u) eqn:E; inversion Ho; subst. eapply lookup_wf; eauto.
  - intros H. eapply pa_sum_utxo_lt; [exact Hu| |exact H]. cbn. unfold U64; lia.
Qed.
Lemma out_value_coin cw o : coin_of (out_value cw o) = coin_of (o_val o).
Proof. unfold out_value, legacy_to_conway. destruct (cw && o_legacy o), (o_val o); reflexivity. Qed.

Lemma np_pa_coll_assets cw t u pp :
  wf_params pp = true -> wf_tx t = true -> wf_utxo u = true ->
  (cw = true -> t_collateral t <> Some []) -> np (pa_coll_assets cw t u pp).
Proof.
  intros Hp Ht Hu Hne. destruct (wf_split _ _ Hp Ht) as [Hf Hc].
  unfold pa_coll_assets. destruct (t_collateral t) as [c|] eqn:Ec; [|reflexivity].
  apply np_bind.
  - destruct cw; [|reflexivity]. destruct c; [exfalso; apply Hne; reflexivity | reflexivity].
  - intros _ _. apply np_bind; [auto with np|]. intros ci Hci.
    apply np_bind; [auto with np|]. intros paid Hpaid.
    apply np_bind.
    + apply np_pct_below; try assumption.
      apply pa_sum_refs_lt in Hci; [|assumption].
      apply lovelace_diff_le in Hpaid; [lia|].
      unfold wf_tx in Ht. apply andb_true_iff in Ht as [_ Ht].
      destruct (t_coll_return t); [rewrite out_value_coin; lia | cbn; lia].
    + intros b _. np_auto.
Qed.
Lemma np_pa_check_collaterals cw t u pp :
  wf_params pp = true -> wf_tx t = true -> wf_utxo u = true -> np (pa_check_collaterals cw t u pp).
Proof.
  intros Hp Ht Hu. unfold pa_check_collaterals. destruct (t_collateral t) as [c|] eqn:Ec; cbn [ok_or bind]; [|reflexivity].
  apply np_bind; [auto with np|]. intros [] Hn.
  apply np_bind; [auto with np|]. intros [] _.
  apply np_pa_coll_assets; try assumption. intros _ Hx. rewrite Ec in Hx. inversion Hx; subst.
  unfold coll_number in Hn. cbn in Hn. discriminate.
Qed.

(* conway_add_minted_non_zero: i128 sum with range test (after the C34 repair) - no panic site left *)
Lemma np_add_same_non_zero dev old new : np (add_same_non_zero dev old new).
Proof. revert old; induction new as [|[n q] r IH]; intros old; cbn [add_same_non_zero]; np_auto. Qed.
Lemma np_add_into_non_zero dev res x : np (add_into_non_zero dev res x).
Proof. revert res; induction x as [|[p a] r IH]; intros res; cbn [add_into_non_zero]; np_auto. apply np_add_same_non_zero. Qed.
Lemma np_conway_add_minted dev base m : np (conway_add_minted dev base m).
Proof. unfold conway_add_minted. np_auto. apply np_add_into_non_zero. Qed.

Lemma np_pa_preservation dev cw t u : np (pa_check_preservation dev cw t u).
Proof.
  unfold pa_check_preservation.
  apply np_bind; [auto with np|]. intros i _.
  apply np_bind.
  { destruct cw; [destruct (t_outputs t); [reflexivity|]|]; apply np_produced; intros; auto with np. }
  intros p _. apply np_bind; [auto with np|]. intros o _.
  apply np_bind.
  { destruct (t_mint t) eqn:Em; [|reflexivity]. destruct cw; [apply np_conway_add_minted | auto with np]. }
  intros; apply np_fail_if.
Qed.
Lemma np_pa_input_datums cw ins u ds : np (pa_input_datums cw ins u ds).
Proof. revert ds; induction ins as [|i r IH]; intros ds; cbn [pa_input_datums]; np_auto. Qed.
#[global] Hint Resolve np_pa_input_datums : np.
Lemma np_pa_needed_ptrs cw t u : np (pa_needed_ptrs cw t u).
Proof. unfold pa_needed_ptrs. np_auto. Qed.
#[global] Hint Resolve np_pa_needed_ptrs : np.

Lemma Forall_np_pa dev cw t u e :
  wf_params (e_pp e) = true -> wf_tx t = true -> wf_utxo u = true -> Forall np (pa_checks dev cw t u e).
Proof.
  intros Hp Ht Hu. unfold pa_checks. repeat constructor;
    try (unfold pa_check_all_ins, pa_check_minting, pa_check_witness_set, pa_check_needed_scripts, pa_check_datums,
           pa_check_languages, pa_check_sdh; np_auto; fail).
  - unfold pa_check_fee. np_auto. apply np_pa_check_collaterals; assumption.
  - apply np_pa_preservation.
Qed.

(* ---------------------------------------------------------------- the validators *)
Lemma era_checks_np dev t u e :
  wf_params (e_pp e) = true -> wf_tx t = true -> wf_utxo u = true -> mir_slot_ok dev (opt_list (t_certs t)) e ->
  Forall np (era_checks dev t u e).
Proof.
  intros Hp Ht Hu Hc. unfold era_checks.
  repeat match goal with |- Forall np (match ?x with _ => _ end) => destruct x end;
    first [ apply Forall_np_byron | apply Forall_np_shelley; assumption | apply Forall_np_alonzo; assumption
          | apply Forall_np_pa; assumption | apply Forall_nil ].
Qed.

Lemma validate_np dev t u e :
  wf_params (e_pp e) = true -> wf_tx t = true -> wf_utxo u = true -> mir_slot_ok dev (opt_list (t_certs t)) e ->
  np (validate dev t u e).
Proof.
  intros Hp Ht Hu Hc. unfold validate.
  repeat match goal with |- np (if ?b then _ else _) => destruct b eqn:? end; try reflexivity.
  - apply np_seq, Forall_np_byron.
  - apply np_seq, Forall_np_shelley; assumption.
  - apply np_seq, era_checks_np; assumption.
Qed.
