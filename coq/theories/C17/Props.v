(* C17 — property theorems only. Statements are pinned by vp/check.py.
   A Decimal is (precision p, data d), denoting qval p d = d / 10^p.
   Arithmetic is stated at the default precision 34 (the property's
   quantifier), rounding / comparison / printing at every precision p >= 0. *)
From Coq Require Import QArith Qround.
From PV Require Import Lib.Base Fixed.Model C17.Model C17.Proofs.
Open Scope Z_scope.

(* addition and subtraction are exact *)
Theorem add_sub_exact : forall a b,
  (qval 34 (dec_add a b) == qval 34 a + qval 34 b)%Q /\
  (qval 34 (dec_sub a b) == qval 34 a - qval 34 b)%Q.
Proof. intros a b. split; [apply add_exact_Q_proof | apply sub_exact_Q_proof]. Qed.

(* multiplication = floor of the exact product at 34 digits *)
Theorem mul_floor : forall a b,
  dec_mul a b = a * b / PREC /\ dec_mul a b * PREC <= a * b < (dec_mul a b + 1) * PREC.
Proof. exact mul_floor_proof. Qed.
Theorem mul_floor_Q : forall a b,
  dec_mul a b = Qfloor (qval 34 a * qval 34 b * inject_Z PREC).
Proof. exact mul_floor_Q_proof. Qed.

(* division = truncation (toward zero) of the exact quotient at 34 digits *)
Theorem div_trunc : forall a b, b <> 0 ->
  dec_div a b = Ok (Z.quot (a * PREC) b) /\
  forall q, dec_div a b = Ok q ->
    Z.abs q * Z.abs b <= Z.abs a * PREC < (Z.abs q + 1) * Z.abs b /\
    (0 <= a * b -> 0 <= q) /\ (a * b <= 0 -> q <= 0).
Proof. exact div_trunc_proof. Qed.
Theorem div_trunc_Q : forall a b, b <> 0 ->
  let x := (qval 34 a / qval 34 b * inject_Z PREC)%Q in
  dec_div a b = Ok (if Qle_bool 0 x then Qfloor x else Qceiling x).
Proof. exact div_trunc_Q_proof. Qed.
Theorem div_zero_panics : forall a, dec_div a 0 = Panic 1.
Proof. exact div_zero_panics_proof. Qed.

(* floor <= x <= ceil, both integral, each less than one unit away, equal to x on integers *)
Theorem floor_le_x_le_ceil : forall p d, 0 <= p ->
  (pow10 p | dec_floor p d) /\ (pow10 p | dec_ceil p d) /\
  dec_floor p d <= d <= dec_ceil p d /\
  d - dec_floor p d < pow10 p /\ dec_ceil p d - d < pow10 p /\
  ((pow10 p | d) -> dec_floor p d = d /\ dec_ceil p d = d).
Proof. exact floor_ceil_proof. Qed.

(* trunc: integral, toward zero, less than one unit away, never changes sign *)
Theorem trunc_toward_zero : forall p d, 0 <= p ->
  (pow10 p | dec_trunc p d) /\ Z.abs (dec_trunc p d) <= Z.abs d /\
  Z.abs (d - dec_trunc p d) < pow10 p /\ 0 <= dec_trunc p d * d.
Proof. exact trunc_proof. Qed.

(* round (code after the `fix:` commit): integral, within one half, ties away from zero;
   holds at EVERY precision p >= 0 *)
Theorem round_half_away : forall p d, 0 <= p ->
  (pow10 p | dec_round p d) /\ 2 * Z.abs (dec_round p d - d) <= pow10 p /\
  (2 * Z.abs (dec_round p d - d) = pow10 p -> Z.abs d < Z.abs (dec_round p d)).
Proof. exact round_proof. Qed.

(* the code as found (half = multiplier / 2 = 0 at precision 0) violated it: round(5) = 6 *)
Theorem round_before_fix_refuted :
  exists p d, 0 <= p /\ ~ (2 * Z.abs (dec_round_before_fix p d - d) <= pow10 p).
Proof. exact round_before_fix_refuted_proof. Qed.
Theorem round_before_fix_only_prec0 : forall p d, 1 <= p -> dec_round_before_fix p d = dec_round p d.
Proof. exact round_before_fix_same. Qed.

(* comparisons (same precision) agree with the exact rationals *)
Theorem cmp_agrees_Q : forall p d1 d2,
  dec_cmp p d1 p d2 = ord_z (qval p d1 ?= qval p d2)%Q /\
  (dec_eqb p d1 p d2 = true <-> (qval p d1 == qval p d2)%Q).
Proof. exact cmp_agrees_Q_proof. Qed.

(* the printed form denotes exactly data / 10^p: reading "[-]I.F" back gives
   numerator d with p fractional digits (10 d with one digit, "I.0", at p = 0) *)
Theorem display_exact : forall p d, 0 <= p ->
  string_value (display p d) = Some (if p =? 0 then (10 * d, 1) else (d, p)).
Proof. exact display_value. Qed.

Theorem from_str_int_string : forall d, from_str (int_string d) = Ok d.
Proof. exact from_str_int_string_proof. Qed.

(* non-vacuity: small negatives, half-way points, several precisions *)
Example c17_examples :
  display 1 (-5) = [45; 48; 46; 53] (* "-0.5" *) /\
  string_value [45; 48; 46; 53] = Some (-5, 1) /\
  dec_round 1 (-5) = -10 /\ dec_round 3 1499 = 1000 /\ dec_round 0 5 = 5 /\
  dec_round_before_fix 0 5 = 6 /\
  dec_floor 1 (-5) = -10 /\ dec_ceil 1 (-5) = 0 /\ dec_trunc 1 (-15) = -10 /\
  dec_mul (-1) 1 = -1 /\ dec_div (-1) (3 * PREC) = Ok 0 /\
  dec_mul (525 * 10 ^ 32) (43 * 10 ^ 33) = 225750000000000000000000000000000000.
Proof. vm_compute. repeat split; reflexivity. Qed.
