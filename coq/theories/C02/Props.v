(* C02 phase 1: the faithful model of the unchanged decoder panics. *)
From PV Require Import Lib.Base Flat.Model.
Open Scope Z_scope.

Theorem flat_dec_total_refuted :
  (exists bs script, bytes_wf bs /\ Forall op_wf script /\ In (Panic P_INDEX) (fst (run_script script (mk_dec bs)))) /\
  (exists bs script, bytes_wf bs /\ Forall op_wf script /\ In (Panic P_SHIFT) (fst (run_script script (mk_dec bs)))).
Proof.
  split.
  - exists [], [OBool]. repeat split; [constructor | repeat constructor | vm_compute; auto].
  - exists (repeat 255 10 ++ [1]), [OWord]. repeat split.
    + apply bytes_wfb_spec. reflexivity.
    + repeat constructor.
    + vm_compute; auto.
Qed.
