(* C43 — pre-fix stage: the faithful model of the unchanged readers panics. *)
From PV Require Import Lib.Base C43.Model.
Open Scope Z_scope.

Definition w_primary : list Z := [1; 0;0;0;0; 0;0;0;56; 0;0;0;112; 0;0;0;168].
Definition w_secondary (third : list Z) : list Z :=
  repeat 0 56 ++ ([0;0;0;0;0;0;0;5] ++ repeat 0 48) ++ (third ++ repeat 0 48).

Theorem readers_total_refuted_secondary :
  read_one true (mk_files [1; 0;0;0;0; 0;0;0;10; 0;0;0;20] (repeat 0 112) 10) = Panic P_SUB.
Proof. vm_compute. reflexivity. Qed.
Theorem readers_total_refuted_chunk :
  read_one true (mk_files w_primary (w_secondary [0;0;0;0;0;0;0;3]) 10) = Panic P_SUB.
Proof. vm_compute. reflexivity. Qed.
Theorem readers_total_refuted_alloc :
  read_one true (mk_files w_primary (w_secondary [255;255;255;255;255;255;255;255]) 10) = Panic P_CAP.
Proof. vm_compute. reflexivity. Qed.
