(* the runner's ref_ln_it is ref_ln (plus the iteration counter) *)
From PV Require Import Lib.Base Fixed.Model C15.Run.
Open Scope Z_scope.
Lemma ref_ln_it_fst x : ref_ln x = option_map fst (ref_ln_it x).
Proof.
  unfold ref_ln, ref_ln_it, mp_ln_n. destruct (x <=? 0); [reflexivity|].
  cbv zeta. unfold option_map. unfold fst. reflexivity.
Qed.
